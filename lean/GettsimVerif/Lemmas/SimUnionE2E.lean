import GettsimVerif.Lemmas.SimUnion
import GettsimVerif.Lemmas.SimPlanSub
import GettsimVerif.Lemmas.SimMisc
import GettsimVerif.Lemmas.SimRound
import GettsimVerif.Lemmas.SimRows
/-
Helper lemmas for property C02 END TO END on the executable model `GV.Simulate.simulate`:
the joint input (a table with `nA + nB` rows) against the input restricted to the first `nA` rows
(`takeInput`) resp. to the remaining rows (`dropInput`).

All lemmas are stated once for both parts: `b = true` is the first part (`take nA`), `b = false`
the remaining rows (`drop nA`).
-/
namespace GV.Simulate
open GV.VecDtype (R DT numOf)
open GV.Lang (Val FunDef)

/-! ## definitions -/

/-- the input restricted to the first `nA` rows of every data column -/
def takeInput (nA : Nat) (inp : Input) : Input :=
  { inp with data := inp.data.map fun p => (p.1, p.2.take nA) }

/-- the input restricted to the rows after the first `nA` rows -/
def dropInput (nA : Nat) (inp : Input) : Input :=
  { inp with data := inp.data.map fun p => (p.1, p.2.drop nA) }

/-- the first `nA` rows of a result table -/
def takeTable (nA : Nat) (t : Table) : Table := t.map fun p => (p.1, p.2.take nA)

/-- the rows after the first `nA` rows of a result table -/
def dropTable (nA : Nat) (t : Table) : Table := t.map fun p => (p.1, p.2.drop nA)

/-- the rows of one part of a list: `true` = the first `nA` entries, `false` = the others -/
def ue_rows {α : Type} (b : Bool) (nA : Nat) (l : List α) : List α :=
  match b with
  | true => l.take nA
  | false => l.drop nA

/-- the rows of one part of a column (scalars are left alone) -/
def Col.ue_sel (b : Bool) (nA : Nat) (c : Col) : Col :=
  match b with
  | true => c.takeRows nA
  | false => c.dropRows nA

/-- one part of a typed data table -/
def ue_selData (b : Bool) (nA : Nat) (D : Dag.Data Col) : Dag.Data Col :=
  match b with
  | true => un_takeData nA D
  | false => un_dropData nA D

/-- one part of the raw data -/
def ue_selRaw (b : Bool) (nA : Nat) (data : List (String × Column)) : List (String × Column) :=
  data.map fun p => (p.1, ue_rows b nA p.2)

/-- one part of the input -/
def ue_selInput (b : Bool) (nA : Nat) (inp : Input) : Input :=
  { inp with data := ue_selRaw b nA inp.data }

/-- one part of a result table -/
def ue_selTable (b : Bool) (nA : Nat) (t : Table) : Table := t.map fun p => (p.1, ue_rows b nA p.2)

/-- number of rows of the part -/
def ue_n (b : Bool) (nA nB : Nat) : Nat :=
  match b with
  | true => nA
  | false => nB

theorem ue_takeInput_eq (nA : Nat) (inp : Input) : takeInput nA inp = ue_selInput true nA inp := rfl
theorem ue_dropInput_eq (nA : Nat) (inp : Input) : dropInput nA inp = ue_selInput false nA inp := rfl
theorem ue_takeTable_eq (nA : Nat) (t : Table) : takeTable nA t = ue_selTable true nA t := rfl
theorem ue_dropTable_eq (nA : Nat) (t : Table) : dropTable nA t = ue_selTable false nA t := rfl

/-- `.int` values -/
def ue_isIntVal : Val → Bool
  | .int _ => true
  | _ => false

/-- `.flt` values -/
def ue_isFltVal : Val → Bool
  | .flt _ => true
  | _ => false

/-- `.bool` values -/
def ue_isBoolVal : Val → Bool
  | .bool _ => true
  | _ => false

/-- DTYPE STABILITY of a raw data column: if the part consists of Python/numpy ints only, so does the
whole column. (Otherwise the whole column is inferred as `float64`, the part as `int64`.) -/
def ue_DtStable (part whole : Column) : Prop :=
  part.all ue_isIntVal = true → whole.all ue_isIntVal = true

instance (part whole : Column) : Decidable (ue_DtStable part whole) := by
  unfold ue_DtStable; infer_instance

/-- a homogeneous raw column: all `int`, all `float` or all `bool` (what pandas delivers) -/
def ue_Homog (c : Column) : Bool := c.all ue_isIntVal || c.all ue_isFltVal || c.all ue_isBoolVal

/-! ## lists -/

section lists
variable {α β : Type}

theorem ue_rows_map (b : Bool) (nA : Nat) (f : α → β) (l : List α) :
    ue_rows b nA (l.map f) = (ue_rows b nA l).map f := by
  cases b
  · exact List.map_drop.symm
  · exact List.map_take.symm

theorem ue_rows_sub {b : Bool} {nA : Nat} {l : List α} {x : α} (h : x ∈ ue_rows b nA l) : x ∈ l := by
  cases b
  · exact List.mem_of_mem_drop h
  · exact List.mem_of_mem_take h

theorem ue_rows_length {b : Bool} {nA nB : Nat} {l : List α} (h : l.length = nA + nB) :
    (ue_rows b nA l).length = ue_n b nA nB := by
  cases b
  · simp [ue_rows, ue_n, h]
  · simp [ue_rows, ue_n, h]

theorem ue_rows_replicate (b : Bool) (nA nB : Nat) (x : α) :
    ue_rows b nA (List.replicate (nA + nB) x) = List.replicate (ue_n b nA nB) x := by
  cases b
  · simp [ue_rows, ue_n]
  · simp [ue_rows, ue_n]

theorem ue_rows_all {b : Bool} {nA : Nat} {l : List α} {p : α → Bool} (h : l.all p = true) :
    (ue_rows b nA l).all p = true := by
  rw [List.all_eq_true] at h ⊢
  exact fun x hx => h x (ue_rows_sub hx)

end lists

/-! ## columns -/

theorem Col.ue_sel_of_scalar {b : Bool} {nA : Nat} {c : Col} (h : c.scalar = true) :
    c.ue_sel b nA = c := by
  cases b
  · exact Col.dropRows_of_scalar h
  · exact Col.takeRows_of_scalar h

theorem Col.ue_sel_of_arr {b : Bool} {nA : Nat} {c : Col} (h : c.scalar = false) :
    c.ue_sel b nA = { c with vals := ue_rows b nA c.vals } := by
  cases b
  · simp [Col.ue_sel, Col.dropRows, h, ue_rows]
  · simp [Col.ue_sel, Col.takeRows, h, ue_rows]

theorem Col.ue_sel_dt (b : Bool) (nA : Nat) (c : Col) : (c.ue_sel b nA).dt = c.dt := by
  cases hs : c.scalar
  · rw [Col.ue_sel_of_arr hs]
  · rw [Col.ue_sel_of_scalar hs]

theorem Col.ue_sel_scalar (b : Bool) (nA : Nat) (c : Col) : (c.ue_sel b nA).scalar = c.scalar := by
  cases hs : c.scalar
  · rw [Col.ue_sel_of_arr hs]; exact hs
  · rw [Col.ue_sel_of_scalar hs]; exact hs

theorem Col.ue_sel_castTo (b : Bool) (nA : Nat) (c : Col) (t : DT) :
    (c.castTo t).ue_sel b nA = (c.ue_sel b nA).castTo t := by
  have hsc : (c.castTo t).scalar = c.scalar := rfl
  cases hs : c.scalar
  · rw [Col.ue_sel_of_arr hs, Col.ue_sel_of_arr (hsc.trans hs)]
    simp only [Col.castTo, ue_rows_map]
  · rw [Col.ue_sel_of_scalar hs, Col.ue_sel_of_scalar (hsc.trans hs)]

theorem ue_selData_eq (b : Bool) (nA : Nat) (D : Dag.Data Col) :
    ue_selData b nA D = D.map fun p => (p.1, p.2.ue_sel b nA) := by
  cases b <;> rfl

theorem ue_selData_names (b : Bool) (nA : Nat) (D : Dag.Data Col) :
    (ue_selData b nA D).map (·.1) = D.map (·.1) := by
  rw [ue_selData_eq, List.map_map]
  rfl

/-! ## dtype inference (`colOfData`) -/

theorem ue_valToR_iff (v : Val) (r : R) : valToR v = some r ↔ v = rToVal r := by
  cases v <;> cases r <;> simp [valToR, rToVal]

theorem ue_mapM_valToR_map (rs : List R) : (rs.map rToVal).mapM valToR = some rs := by
  induction rs with
  | nil => rfl
  | cons r rs ih =>
    rw [List.map_cons, List.mapM_cons, (ue_valToR_iff _ _).2 rfl, ih]
    rfl

theorem ue_mapM_valToR {c : Column} {rs : List R} (h : c.mapM valToR = some rs) :
    c = rs.map rToVal := by
  induction c generalizing rs with
  | nil => simp only [List.mapM_nil, pure, Option.some.injEq] at h; subst h; rfl
  | cons a l ih =>
    rw [List.mapM_cons] at h
    cases ha : valToR a with
    | none => rw [ha] at h; cases h
    | some r =>
      cases hl : l.mapM valToR with
      | none => rw [ha, hl] at h; cases h
      | some bs =>
        rw [ha, hl] at h
        simp only [bind, Option.bind, pure, Option.some.injEq] at h
        subst h
        rw [List.map_cons, ← ih hl, (ue_valToR_iff _ _).1 ha]

/-- `colOfData` on the typed values -/
def ue_colOfRs (rs : List R) : Except Err Col :=
  if rs.all (fun r => VecDtype.dtypeOf r == .bool) && !rs.isEmpty then .ok { dt := .bool, vals := rs }
  else if rs.all (fun r => VecDtype.dtypeOf r == .int) && !rs.isEmpty then .ok { dt := .int, vals := rs }
  else if rs.all (fun r => VecDtype.dtypeOf r != .bool) then
    .ok { dt := .float, vals := rs.map (VecDtype.cast .float) }
  else .error .typeError

theorem ue_colOfData_map (rs : List R) : colOfData (rs.map rToVal) = ue_colOfRs rs := by
  unfold colOfData
  rw [ue_mapM_valToR_map]
  rfl

theorem ue_colOfData_ok {c : Column} {col : Col} (h : colOfData c = .ok col) :
    ∃ rs, c = rs.map rToVal ∧ ue_colOfRs rs = .ok col := by
  cases hm : c.mapM valToR with
  | none => unfold colOfData at h; rw [hm] at h; cases h
  | some rs =>
    have hc := ue_mapM_valToR hm
    subst hc
    exact ⟨rs, rfl, by rw [← ue_colOfData_map]; exact h⟩

theorem ue_isIntVal_rToVal (r : R) : ue_isIntVal (rToVal r) = (VecDtype.dtypeOf r == .int) := by
  cases r <;> rfl

theorem ue_all_isInt_map (rs : List R) :
    (rs.map rToVal).all ue_isIntVal = rs.all (fun r => VecDtype.dtypeOf r == .int) := by
  rw [List.all_map]
  congr 1
  funext r
  exact ue_isIntVal_rToVal r

theorem ue_colOfRs_sel {b : Bool} {nA : Nat} {rs : List R} {col : Col} (h : ue_colOfRs rs = .ok col)
    (hne : ue_rows b nA rs ≠ [])
    (hst : (ue_rows b nA rs).all (fun r => VecDtype.dtypeOf r == .int) = true →
      rs.all (fun r => VecDtype.dtypeOf r == .int) = true) :
    ue_colOfRs (ue_rows b nA rs) = .ok (col.ue_sel b nA) := by
  obtain ⟨x, P, hP⟩ := List.exists_cons_of_ne_nil hne
  have hx : x ∈ rs := ue_rows_sub (b := b) (nA := nA) (by rw [hP]; exact List.mem_cons_self)
  have hrs : rs.isEmpty = false := by
    cases rs with
    | nil => cases hx
    | cons _ _ => rfl
  have hPe : (ue_rows b nA rs).isEmpty = false := by rw [hP]; rfl
  unfold ue_colOfRs at h
  by_cases h1 : rs.all (fun r => VecDtype.dtypeOf r == .bool) = true
  · rw [h1, hrs] at h
    simp only [Bool.not_false, Bool.and_self, if_true, Except.ok.injEq] at h
    subst h
    unfold ue_colOfRs
    rw [ue_rows_all h1, hPe]
    simp only [Bool.not_false, Bool.and_self, if_true]
    rw [Col.ue_sel_of_arr rfl]
  · have h1' : rs.all (fun r => VecDtype.dtypeOf r == .bool) = false := by simpa using h1
    rw [h1'] at h
    simp only [Bool.false_and, Bool.false_eq_true, if_false] at h
    by_cases h2 : rs.all (fun r => VecDtype.dtypeOf r == .int) = true
    · rw [h2, hrs] at h
      simp only [Bool.not_false, Bool.and_self, if_true, Except.ok.injEq] at h
      subst h
      have hxi : VecDtype.dtypeOf x = .int := by
        have := List.all_eq_true.1 h2 x hx
        simpa using this
      have hnb : (ue_rows b nA rs).all (fun r => VecDtype.dtypeOf r == .bool) = false := by
        rw [hP, List.all_cons, hxi]
        rfl
      unfold ue_colOfRs
      rw [hnb, ue_rows_all h2, hPe]
      simp only [Bool.false_and, Bool.false_eq_true, if_false, Bool.not_false, Bool.and_self, if_true]
      rw [Col.ue_sel_of_arr rfl]
    · have h2' : rs.all (fun r => VecDtype.dtypeOf r == .int) = false := by simpa using h2
      rw [h2'] at h
      simp only [Bool.false_and, Bool.false_eq_true, if_false] at h
      by_cases h3 : rs.all (fun r => VecDtype.dtypeOf r != .bool) = true
      · rw [h3] at h
        simp only [if_true, Except.ok.injEq] at h
        subst h
        have hxb : (VecDtype.dtypeOf x == DT.bool) = false := by
          have := List.all_eq_true.1 h3 x hx
          simpa using this
        have hnb : (ue_rows b nA rs).all (fun r => VecDtype.dtypeOf r == .bool) = false := by
          rw [hP, List.all_cons, hxb]
          rfl
        have hni : (ue_rows b nA rs).all (fun r => VecDtype.dtypeOf r == .int) = false := by
          cases hh : (ue_rows b nA rs).all (fun r => VecDtype.dtypeOf r == .int) with
          | false => rfl
          | true => rw [hst hh] at h2'; cases h2'
        unfold ue_colOfRs
        rw [hnb, hni, ue_rows_all h3]
        simp only [Bool.false_and, Bool.false_eq_true, if_false, if_true]
        rw [Col.ue_sel_of_arr rfl]
        simp only [ue_rows_map]
      · rw [if_neg h3] at h
        cases h

/-- **dtype inference commutes with the restriction to a part** — provided the part is not empty and
the column is dtype-stable. -/
theorem ue_colOfData_sel {b : Bool} {nA : Nat} {c : Column} {col : Col} (h : colOfData c = .ok col)
    (hne : ue_rows b nA c ≠ []) (hst : ue_DtStable (ue_rows b nA c) c) :
    colOfData (ue_rows b nA c) = .ok (col.ue_sel b nA) := by
  obtain ⟨rs, rfl, hrs⟩ := ue_colOfData_ok h
  rw [ue_rows_map] at hne ⊢
  rw [ue_colOfData_map]
  apply ue_colOfRs_sel hrs
  · intro he; rw [he] at hne; exact hne rfl
  · intro hh
    unfold ue_DtStable at hst
    rw [ue_rows_map, ue_all_isInt_map, ue_all_isInt_map] at hst
    exact hst hh

/-- a homogeneous column is dtype-stable for every non-empty part -/
theorem ue_dtStable_of_homog {b : Bool} {nA : Nat} {c : Column} (h : ue_Homog c = true)
    (hne : ue_rows b nA c ≠ []) : ue_DtStable (ue_rows b nA c) c := by
  intro hp
  obtain ⟨x, P, hP⟩ := List.exists_cons_of_ne_nil hne
  have hx : x ∈ c := ue_rows_sub (b := b) (nA := nA) (by rw [hP]; exact List.mem_cons_self)
  have hxi : ue_isIntVal x = true := by
    rw [hP, List.all_cons, Bool.and_eq_true] at hp
    exact hp.1
  unfold ue_Homog at h
  rw [Bool.or_eq_true, Bool.or_eq_true] at h
  rcases h with (h | h) | h
  · exact h
  · have := List.all_eq_true.1 h x hx
    cases x <;> simp_all [ue_isIntVal, ue_isFltVal]
  · have := List.all_eq_true.1 h x hx
    cases x <;> simp_all [ue_isIntVal, ue_isBoolVal]

/-! ## `typedData` -/

theorem ue_typedData_sel {b : Bool} {nA : Nat} {data : List (String × Column)} {raw : List (String × Col)}
    (h : typedData data = .ok raw)
    (hne : ∀ c ∈ data, ue_rows b nA c.2 ≠ [])
    (hst : ∀ c ∈ data, ue_DtStable (ue_rows b nA c.2) c.2) :
    typedData (ue_selRaw b nA data) = .ok (ue_selData b nA raw) := by
  unfold typedData at h ⊢
  rw [Dag.mapM_ok_iff] at h ⊢
  rw [ue_selData_eq, ue_selRaw]
  induction h with
  | nil => exact .nil
  | @cons a r l rs har _ ih =>
    rw [List.map_cons, List.map_cons]
    refine .cons ?_ (ih (fun c hc => hne c (List.mem_cons_of_mem _ hc))
      (fun c hc => hst c (List.mem_cons_of_mem _ hc)))
    obtain ⟨n, c⟩ := a
    obtain ⟨col, hcol, har⟩ := bind_ok har
    simp only [pure, Except.pure, Except.ok.injEq] at har
    subst har
    simp only
    rw [ue_colOfData_sel hcol (hne _ List.mem_cons_self) (hst _ List.mem_cons_self)]
    rfl

/-! ## `convertData` -/

/-- a successful conversion is either the identity or the cast -/
theorem ue_convertCol_ok {t : Ty} {c c' : Col} (h : convertCol t c = .ok c') :
    c' = if c.dt = t.toDT then c else c.castTo t.toDT := by
  unfold convertCol at h
  split at h
  · rename_i hd
    rw [if_pos hd]
    cases h; rfl
  · rename_i hd
    rw [if_neg hd]
    repeat' split at h
    all_goals first | (cases h; done) | (cases h; rfl)

theorem ue_convertCol_sel {b : Bool} {nA : Nat} {t : Ty} {c c' cS : Col} (h : convertCol t c = .ok c')
    (hS : convertCol t (c.ue_sel b nA) = .ok cS) : cS = c'.ue_sel b nA := by
  rw [ue_convertCol_ok h, ue_convertCol_ok hS, Col.ue_sel_dt]
  split
  · rfl
  · rw [Col.ue_sel_castTo]

theorem ue_convertData_sel {b : Bool} {nA : Nat} {raw conv convS : List (String × Col)} {ov : List Fn}
    (h : convertData raw ov = .ok conv) (hS : convertData (ue_selData b nA raw) ov = .ok convS) :
    convS = ue_selData b nA conv := by
  rw [mi_convertData_iff] at h hS
  rw [ue_selData_eq] at hS ⊢
  induction h generalizing convS with
  | nil => cases hS; rfl
  | @cons a r l rs har _ ih =>
    rw [List.map_cons] at hS
    cases hS with
    | @cons _ rS _ rsS harS hrest =>
      rw [List.map_cons, ih hrest]
      congr 1
      unfold mi_ConvEntry at har harS
      obtain ⟨hn, har⟩ := har
      obtain ⟨hnS, harS⟩ := harS
      simp only at hnS harS
      refine Prod.ext (hnS.trans hn.symm) ?_
      simp only
      cases hty : mi_convType ov a.1 with
      | none =>
        rw [hty] at har harS
        simp only at har harS
        rw [harS, har]
      | some t =>
        rw [hty] at har harS
        exact ue_convertCol_sel har harS

/-! ## `prepare` -/

/-- **`prepare` of a part.** If `prepare` succeeds on the joint data and on a (non-empty, dtype-stable)
part, the part has the same functions and data-column names, and its converted data are the
restriction of the converted joint data. -/
theorem ue_prepare_sel {b : Bool} {nA : Nat} {ruleFns : List Fn} {gs : List (String × GroupSpec)}
    {ps : List (String × PidSpec)} {data : List (String × Column)} {T : List String} {pr prS : Prep}
    (h : prepare ruleFns gs ps data T = .ok pr)
    (hS : prepare ruleFns gs ps (ue_selRaw b nA data) T = .ok prS)
    (hne : ∀ c ∈ data, ue_rows b nA c.2 ≠ [])
    (hst : ∀ c ∈ data, ue_DtStable (ue_rows b nA c.2) c.2) :
    prS.fns = pr.fns ∧ prS.dataCols = pr.dataCols ∧ prS.data = ue_selData b nA pr.data := by
  obtain ⟨raw, all, hraw, _, hall, _, hconv, hfns, hdc, _⟩ := prepare_ok' h
  obtain ⟨rawS, allS, hrawS, _, hallS, _, hconvS, hfnsS, hdcS, _⟩ := prepare_ok' hS
  rw [ue_typedData_sel hraw hne hst] at hrawS
  cases hrawS
  rw [ue_selData_names] at hallS hconvS hfnsS hdcS
  rw [hall] at hallS
  cases hallS
  exact ⟨hfnsS.trans hfns.symm, hdcS.trans hdc.symm, ue_convertData_sel hconv hconvS⟩

theorem ue_find?_nil {β : Type} (n : String) : find? ([] : List (String × β)) n = none := rfl

/-- after a successful `prepare` on columns of length `n` the table is not empty, its columns have
`n` rows and `plan` reports `n` rows -/
theorem ue_prepare_rows {n : Nat} {ruleFns : List Fn} {gs : List (String × GroupSpec)}
    {ps : List (String × PidSpec)} {data : List (String × Column)} {T : List String} {pr : Prep}
    (h : prepare ruleFns gs ps data T = .ok pr) (hrows : ∀ c ∈ data, c.2.length = n) :
    (pr.data.head?.map (·.2.vals.length)).getD 0 = n ∧ ColsOK n (pr.data.map (·.2)) := by
  obtain ⟨raw, all, _, hcheck, _, _, hconv, _, _, _⟩ := prepare_ok' h
  obtain ⟨_, hcols⟩ := prepare_data_lengths h
  have hlen : ∀ e ∈ pr.data, e.2.vals.length = n := by
    intro e he
    obtain ⟨a, ha, hea⟩ := hcols e he
    rw [hea]; exact hrows a ha
  have hne : pr.data ≠ [] := by
    intro he
    have hl := (convertData_lengths hconv).1
    rw [he] at hl
    have hraw : raw = [] := List.length_eq_zero_iff.1 hl.symm
    rw [mi_checkData_ok_iff, mi_checkB_iff] at hcheck
    obtain ⟨_, ⟨pid, hpid, _⟩, _⟩ := hcheck
    rw [hraw, ue_find?_nil] at hpid
    cases hpid
  constructor
  · cases hd : pr.data with
    | nil => exact absurd hd hne
    | cons e rest =>
      simp only [List.head?_cons, Option.map_some, Option.getD_some]
      exact hlen e (by rw [hd]; exact List.mem_cons_self)
  · intro c hc _
    obtain ⟨e, he, rfl⟩ := List.mem_map.1 hc
    exact hlen e he

/-! ## `plan` -/

/-- **`plan` of a part**: the plan depends on the data only through the column names, so the two
plans have the same system and order (they are `planResult`s with the same rounding specs). -/
theorem ue_plan_sel {params : List (String × Val)} {T : List String} {pr prS : Prep} {p pS : Plan}
    (hfns : prS.fns = pr.fns) (hdc : prS.dataCols = pr.dataCols)
    (h : plan params T pr = .ok p) (hS : plan params T prS = .ok pS) :
    ∃ specs, p = planResult params pr T specs ∧ pS = planResult params prS T specs := by
  obtain ⟨_, specs, hspecs, _, hp⟩ := plan_full h
  obtain ⟨_, specsS, hspecsS, _, hpS⟩ := plan_full hS
  rw [hfns, hdc, hspecs] at hspecsS
  cases hspecsS
  exact ⟨specs, hp, hpS⟩

theorem ue_planResult_sys (params : List (String × Val)) (pr : Prep) (T : List String)
    (specs : List (String × RSpec)) :
    (planResult params pr T specs).sys = sysOf params specs (planL2 params pr.fns pr.dataCols T) := rfl

/-! ## `exec` -/

theorem ue_prune_sel {b : Bool} {nA nB : Nat} (S : Dag.Sys Col) {D : Dag.Data Col}
    (hD : ColsOK (nA + nB) (D.map (·.2))) (fuel : Nat) (T : List String) :
    Dag.prune S (ue_selData b nA D) fuel T = Dag.prune S D fuel T := by
  cases b
  · show Dag.prune S (un_dropData nA D) fuel T = _
    rw [← un_permData_drop hD, prune_permData]
  · show Dag.prune S (un_takeData nA D) fuel T = _
    rw [← un_permData_take hD (Nat.le_add_right nA nB), prune_permData]

/-- the value of a name in the pruned system on a part is the restriction of the joint value -/
theorem ue_eval_sel {b : Bool} {nA nB : Nat} (params : List (String × Val))
    (specs : List (String × RSpec)) (fns : List Fn) {D : Dag.Data Col}
    (hfns : un_UnionFns params D nA fns) (hD : ColsOK (nA + nB) (D.map (·.2)))
    (pfuel : Nat) (T : List String) (fuel : Nat) (t : String) {v vS : Col}
    (h : Dag.eval (Dag.prune (sysOf params specs fns) D pfuel T) D fuel t = .ok v)
    (hS : Dag.eval (Dag.prune (sysOf params specs fns) (ue_selData b nA D) pfuel T)
      (ue_selData b nA D) fuel t = .ok vS) : vS = v.ue_sel b nA := by
  rw [ue_prune_sel _ hD] at hS
  have := un_sys_eval_take_drop params specs _ D
    (fun x node hx => (un_subsys_unionNodeData params specs fns D nA _
      (prune_sub _ D pfuel T) hfns x node hx).node _) hD fuel t v h
  cases b
  · exact (this.2 vS hS).symm
  · exact (this.1 vS hS).symm

theorem ue_render_sel (b : Bool) (nA nB : Nat) (v : Col) :
    render (ue_n b nA nB) (v.ue_sel b nA) = ue_rows b nA (render (nA + nB) v) := by
  unfold render
  rw [Col.ue_sel_scalar]
  cases hs : v.scalar
  · rw [Col.ue_sel_of_arr hs]
    simp only [Bool.false_eq_true, if_false, ue_rows_map]
  · rw [Col.ue_sel_of_scalar hs]
    simp only [if_true, ue_rows_replicate]

theorem ue_mapM_render {b : Bool} {nA nB : Nat} {ev evS : String → Except Err Col}
    (hev : ∀ t v vS, ev t = .ok v → evS t = .ok vS → vS = v.ue_sel b nA) :
    ∀ (T : List String) (tbl tblS : Table),
      T.mapM (fun t => do pure (t, render (nA + nB) (← ev t))) = .ok tbl →
      T.mapM (fun t => do pure (t, render (ue_n b nA nB) (← evS t))) = .ok tblS →
      tblS = ue_selTable b nA tbl := by
  intro T
  induction T with
  | nil =>
    intro tbl tblS h hS
    simp only [List.mapM_nil, pure, Except.pure, Except.ok.injEq] at h hS
    subst h; subst hS; rfl
  | cons t T ih =>
    intro tbl tblS h hS
    rw [List.mapM_cons] at h hS
    obtain ⟨e, he, h⟩ := bind_ok h
    obtain ⟨rest, hrest, h⟩ := bind_ok h
    obtain ⟨eS, heS, hS⟩ := bind_ok hS
    obtain ⟨restS, hrestS, hS⟩ := bind_ok hS
    obtain ⟨v, hv, he⟩ := bind_ok he
    obtain ⟨vS, hvS, heS⟩ := bind_ok heS
    simp only [pure, Except.pure, Except.ok.injEq] at h hS he heS
    subst h; subst hS; subst he; subst heS
    rw [ih rest restS hrest hrestS, hev t v vS hv hvS, ue_render_sel]
    rfl

/-- **`exec` of a part**: with the same system (functions `fns`) on the joint data `D` (separation
hypothesis `un_UnionFns`) and on one part of it, the table of the part is the restriction of the
joint table. -/
theorem ue_exec_sel {b : Bool} {nA nB : Nat} (params : List (String × Val))
    (specs : List (String × RSpec)) (fns : List Fn) {D : Dag.Data Col} (order orderS : List String)
    (T : List String) (hfns : un_UnionFns params D nA fns) (hD : ColsOK (nA + nB) (D.map (·.2)))
    {tbl tblS : Table}
    (h : exec { data := D, sys := sysOf params specs fns, order := order, nRows := nA + nB } T = .ok tbl)
    (hS : exec { data := ue_selData b nA D, sys := sysOf params specs fns, order := orderS,
                 nRows := ue_n b nA nB } T = .ok tblS) :
    tblS = ue_selTable b nA tbl := by
  unfold exec at h hS
  simp only at h hS
  split at h
  · cases h
  · split at hS
    · cases hS
    · exact ue_mapM_render (fun t v vS hv hvS => ue_eval_sel params specs fns hfns hD _ T _ t hv hvS)
        T tbl tblS h hS

/-! ## the whole computation -/

/-- **C02 for `run`**, with the separation hypothesis on the functions that become nodes of the DAG
(`planL2`) and the converted joint data. -/
theorem ue_run_sel {b : Bool} {nA nB : Nat} {ruleFns : List Fn} {params : List (String × Val)}
    {gs : List (String × GroupSpec)} {ps : List (String × PidSpec)} {data : List (String × Column)}
    {T : List String} {tbl tblS : Table}
    (hrows : ∀ c ∈ data, c.2.length = nA + nB) (hpos : 0 < ue_n b nA nB)
    (hst : ∀ c ∈ data, ue_DtStable (ue_rows b nA c.2) c.2)
    (hsep : ∀ pr, prepare ruleFns gs ps data (sortDedup T) = .ok pr →
      un_UnionFns params pr.data nA (planL2 params pr.fns pr.dataCols (sortDedup T)))
    (h : run ruleFns params gs ps data T = .ok tbl)
    (hS : run ruleFns params gs ps (ue_selRaw b nA data) T = .ok tblS) :
    tblS = ue_selTable b nA tbl := by
  unfold run at h hS
  simp only at h hS
  obtain ⟨pr, hpr, h⟩ := bind_ok h
  obtain ⟨p, hp, h⟩ := bind_ok h
  obtain ⟨prS, hprS, hS⟩ := bind_ok hS
  obtain ⟨pS, hpS, hS⟩ := bind_ok hS
  have hne : ∀ c ∈ data, ue_rows b nA c.2 ≠ [] := by
    intro c hc he
    have := ue_rows_length (b := b) (hrows c hc)
    rw [he] at this
    simp only [List.length_nil] at this
    omega
  obtain ⟨hfns, hdc, hdata⟩ := ue_prepare_sel hpr hprS hne hst
  obtain ⟨specs, rfl, rfl⟩ := ue_plan_sel hfns hdc hp hpS
  obtain ⟨hn, hD⟩ := ue_prepare_rows hpr hrows
  have hrowsS : ∀ c ∈ ue_selRaw b nA data, c.2.length = ue_n b nA nB := by
    intro c hc
    obtain ⟨a, ha, rfl⟩ := List.mem_map.1 hc
    exact ue_rows_length (hrows a ha)
  obtain ⟨hnS, _⟩ := ue_prepare_rows hprS hrowsS
  unfold planResult at h hS
  rw [hn] at h
  rw [hnS, hfns, hdc, hdata] at hS
  exact ue_exec_sel params specs _ _ _ _ (hsep pr hpr) hD h hS

/-! ## the converted `p_id` column is duplicate free -/

theorem ue_find?_forall₂ {β : Type} {P : String × β → String × β → Prop} {l l' : List (String × β)}
    (h : List.Forall₂ P l l') (hn : ∀ e e', P e e' → e'.1 = e.1) {n : String} {c : β}
    (hc : find? l n = some c) : ∃ c', find? l' n = some c' ∧ P (n, c) (n, c') := by
  unfold find? at hc ⊢
  induction h with
  | nil => cases hc
  | @cons e e' l l' he _ ih =>
    obtain ⟨k, v⟩ := e
    obtain ⟨k', v'⟩ := e'
    have hk : k' = k := hn _ _ he
    subst hk
    rw [Dag.find?] at hc ⊢
    split at hc
    · rename_i hkn
      cases hc
      subst hkn
      rw [if_pos rfl]
      exact ⟨v', rfl, he⟩
    · rename_i hkn
      rw [if_neg hkn]
      exact ih hc

theorem ue_ints_of_intCol {c : Col} (h : ∀ r ∈ c.vals, VecDtype.dtypeOf r = .int) :
    c.ints.map (fun (v : Int) => (v : Rat)) = c.rats := by
  unfold Col.ints Col.rats
  rw [List.map_map]
  apply List.map_congr_left
  intro r hr
  have := h r hr
  cases r with
  | i v => simp [numOf, ratToInt, Rat.floor_intCast]
  | b v => cases this
  | f q => cases this

theorem ue_convType_pid (ov : List Fn) : mi_convType ov "p_id" = some .int := by
  unfold mi_convType
  have : find? typesInputVariables "p_id" = some .int := by decide +kernel
  rw [this]

/-- after a successful `prepare` the converted column `p_id` has no duplicates (as integers) -/
theorem ue_prepare_pid_nodup {ruleFns : List Fn} {gs : List (String × GroupSpec)}
    {ps : List (String × PidSpec)} {data : List (String × Column)} {T : List String} {pr : Prep}
    (h : prepare ruleFns gs ps data T = .ok pr) :
    ∀ c, find? pr.data "p_id" = some c → c.ints.Nodup := by
  intro c hc
  obtain ⟨raw, all, hraw, hcheck, _, _, hconv, _, _, _⟩ := prepare_ok' h
  rw [mi_checkData_ok_iff, mi_checkB_iff] at hcheck
  obtain ⟨_, ⟨pid, hpid, hnd, _⟩, _⟩ := hcheck
  rw [mi_convertData_iff] at hconv
  obtain ⟨c', hc', hent⟩ := ue_find?_forall₂ hconv (fun _ _ he => he.1) hpid
  rw [hc] at hc'
  cases hc'
  unfold mi_ConvEntry at hent
  simp only [ue_convType_pid] at hent
  have hwt : mi_WellTyped pid := mi_typedData_wellTyped hraw _ (Dag.find?_mem _ _ _ hpid)
  obtain ⟨hlen, hnum, hdt⟩ := mi_convertCol_lossless (fun hb r hr => (hwt r hr).trans hb) hent.2
  have hrats : c.rats = pid.rats := by
    unfold Col.rats
    apply List.ext_getElem?
    intro i
    rw [List.getElem?_map, List.getElem?_map]
    exact hnum i
  have hint : ∀ r ∈ c.vals, VecDtype.dtypeOf r = .int := by
    have := ue_convertCol_ok hent.2
    split at this
    · rename_i hd
      subst this
      intro r hr
      exact (hwt r hr).trans hd
    · subst this
      intro r hr
      simp only [Col.castTo, List.mem_map] at hr
      obtain ⟨r0, _, rfl⟩ := hr
      exact mi_dtypeOf_cast _ _
  have := ue_ints_of_intCol hint
  rw [hrats] at this
  exact List.Nodup.of_map _ (this ▸ hnd)

/-! ## the separation hypothesis as a computable check -/

/-- the result of `load_and_check_functions` / `_process_and_check_data` for the input -/
def ue_prep (inp : Input) : Except Err Prep :=
  prepare (inp.rules.map (ruleFn inp.rounding)) inp.groupSpecs inp.pidSpecs inp.data (sortDedup inp.targets)

/-- the functions that become nodes of the DAG that is executed for the targets -/
def ue_needed (inp : Input) (pr : Prep) : List Fn :=
  planL2 inp.params pr.fns pr.dataCols (sortDedup inp.targets)

/-- `p pr f` holds for every needed function `f` (vacuous if `prepare` fails) -/
def ue_forNeeded (inp : Input) (p : Prep → Fn → Bool) : Bool :=
  match ue_prep inp with
  | .error _ => true
  | .ok pr => (ue_needed inp pr).all (p pr)

def Kind.ue_isGrouping : Kind → Bool
  | .grouping _ => true
  | _ => false

def Kind.ue_undeclaredRule : Kind → Bool
  | .rule _ none _ => true
  | _ => false

/-- no id constructor of `groupings.py` (`fg_id`, `bg_id`, …) is needed for the targets -/
def ue_noGroupingNeeded (inp : Input) : Bool := ue_forNeeded inp fun _ f => !f.kind.ue_isGrouping

/-- every rule needed for the targets has a declared return type -/
def ue_declaredNeeded (inp : Input) : Bool := ue_forNeeded inp fun _ f => !f.kind.ue_undeclaredRule

/-- the data-column conditions for one function over the converted data `D`:
* grouped aggregation: its group id (last argument) is a data column whose values on the first `nA`
  rows and on the remaining rows are disjoint;
* `sum_by_p_id`: its third argument is a data column — `p_id` itself (duplicate free by
  `_fail_if_pid_is_non_unique`, see `ue_prepare_pid_nodup`) or another duplicate-free column —, its
  second argument (the pointer) a data column under which both parts are closed. -/
def ue_sepFn (params : List (String × Val)) (D : Dag.Data Col) (nA : Nat) (f : Fn) : Bool :=
  match f.kind with
  | .groupAgg _ _ _ =>
    match (freeArgs params f).getLast? with
    | none => true
    | some d =>
      match Dag.find? D d with
      | none => false
      | some c => decide (un_IdsSep nA c.ints)
  | .pidSum _ _ =>
    match (freeArgs params f)[2]? with
    | none => true
    | some d2 =>
      match Dag.find? D d2 with
      | none => false
      | some c2 =>
        (d2 == "p_id" || decide c2.ints.Nodup) &&
          match (freeArgs params f)[1]? with
          | none => true
          | some d1 =>
            match Dag.find? D d1 with
            | none => false
            | some c1 => decide (un_PtrsClosed nA c1.ints c2.ints)
  | _ => true

/-- SEPARATION of the first `nA` rows from the others, for the functions needed for the targets -/
def ue_separated (nA : Nat) (inp : Input) : Bool :=
  ue_forNeeded inp fun pr f => ue_sepFn inp.params pr.data nA f

theorem ue_forNeeded_elim {inp : Input} {p : Prep → Fn → Bool} (h : ue_forNeeded inp p = true)
    {pr : Prep} (hpr : ue_prep inp = .ok pr) : ∀ f ∈ ue_needed inp pr, p pr f = true := by
  unfold ue_forNeeded at h
  rw [hpr] at h
  exact List.all_eq_true.1 h

theorem ue_sepFn_elim {params : List (String × Val)} {D : Dag.Data Col} {nA : Nat} {f : Fn}
    (hpid : ∀ c, Dag.find? D "p_id" = some c → c.ints.Nodup)
    (h : ue_sepFn params D nA f = true) :
    (f.kind.un_isGroupAgg = true → ∀ d, (freeArgs params f).getLast? = some d →
      ∃ c, Dag.find? D d = some c ∧ un_IdsSep nA c.ints) ∧
    (f.kind.isPidSum = true → ∀ d, (freeArgs params f)[2]? = some d →
      ∃ c, Dag.find? D d = some c ∧ c.ints.Nodup) ∧
    (f.kind.isPidSum = true → ∀ d1 d2, (freeArgs params f)[1]? = some d1 →
      (freeArgs params f)[2]? = some d2 → ∃ c1 c2, Dag.find? D d1 = some c1 ∧
        Dag.find? D d2 = some c2 ∧ un_PtrsClosed nA c1.ints c2.ints) := by
  unfold ue_sepFn at h
  cases hk : f.kind with
  | rule fn ret key => exact ⟨fun hh => (by cases hh), fun hh => (by cases hh), fun hh => (by cases hh)⟩
  | timeConv s u v => exact ⟨fun hh => (by cases hh), fun hh => (by cases hh), fun hh => (by cases hh)⟩
  | grouping g => exact ⟨fun hh => (by cases hh), fun hh => (by cases hh), fun hh => (by cases hh)⟩
  | groupAgg a s g =>
    rw [hk] at h
    simp only at h
    refine ⟨fun _ d hd => ?_, fun hh => (by cases hh), fun hh => (by cases hh)⟩
    rw [hd] at h
    simp only at h
    cases hc : Dag.find? D d with
    | none => rw [hc] at h; cases h
    | some c =>
      rw [hc] at h
      exact ⟨c, rfl, by simpa using h⟩
  | pidSum s q =>
    rw [hk] at h
    simp only at h
    refine ⟨fun hh => (by cases hh), fun _ d hd => ?_, fun _ d1 d2 hd1 hd2 => ?_⟩
    · rw [hd] at h
      simp only at h
      cases hc : Dag.find? D d with
      | none => rw [hc] at h; cases h
      | some c =>
        rw [hc] at h
        simp only [Bool.and_eq_true, Bool.or_eq_true, beq_iff_eq, decide_eq_true_eq] at h
        refine ⟨c, rfl, ?_⟩
        rcases h.1 with hd | hd
        · subst hd; exact hpid c hc
        · exact hd
    · rw [hd2] at h
      simp only at h
      cases hc2 : Dag.find? D d2 with
      | none => rw [hc2] at h; cases h
      | some c2 =>
        rw [hc2, hd1] at h
        simp only [Bool.and_eq_true, Bool.or_eq_true, beq_iff_eq, decide_eq_true_eq] at h
        cases hc1 : Dag.find? D d1 with
        | none => rw [hc1] at h; exact absurd h.2 (by simp)
        | some c1 =>
          rw [hc1] at h
          exact ⟨c1, c2, rfl, rfl, by simpa using h.2⟩

theorem ue_permOK_of {k : Kind} (h1 : k.ue_isGrouping = false) (h2 : k.ue_undeclaredRule = false) :
    k.permOK = true := by
  cases k with
  | rule fn ret key => cases ret with
    | none => cases h2
    | some t => rfl
  | grouping g => cases h1
  | pidSum _ _ => rfl
  | timeConv _ _ _ => rfl
  | groupAgg _ _ _ => rfl

/-- the three computable checks give the separation hypothesis `un_UnionFns` of the DAG lemmas -/
theorem ue_unionFns_of_checks {nA : Nat} {inp : Input} (hdecl : ue_declaredNeeded inp = true)
    (hnogrp : ue_noGroupingNeeded inp = true) (hsep : ue_separated nA inp = true)
    {pr : Prep} (hpr : ue_prep inp = .ok pr) :
    un_UnionFns inp.params pr.data nA (ue_needed inp pr) := by
  intro f hf
  have h1 := ue_forNeeded_elim hdecl hpr f hf
  have h2 := ue_forNeeded_elim hnogrp hpr f hf
  have h3 := ue_forNeeded_elim hsep hpr f hf
  simp only [Bool.not_eq_true'] at h1 h2
  exact ⟨ue_permOK_of h2 h1, ue_sepFn_elim (ue_prepare_pid_nodup hpr) h3⟩

/-- if every rule of the input has a declared return type, so has every needed rule -/
theorem ue_declaredNeeded_of_all {inp : Input} (h : ∀ r ∈ inp.rules, r.ret.isSome = true) :
    ue_declaredNeeded inp = true := by
  unfold ue_declaredNeeded ue_forNeeded
  cases hpr : ue_prep inp with
  | error e => rfl
  | ok pr =>
    simp only
    rw [List.all_eq_true]
    intro f hf
    have hfns : f ∈ pr.fns := (List.mem_filter.1 (List.mem_filter.1 hf).1).1
    cases hk : f.kind with
    | rule fn ret key =>
      have hmem := prepare_rules hpr f hfns ⟨fn, ret, key, hk⟩
      obtain ⟨r, hr, rfl⟩ := List.mem_map.1 hmem
      have := h r hr
      simp only [ruleFn, Kind.rule.injEq] at hk
      obtain ⟨_, rfl, _⟩ := hk
      cases hret : r.ret with
      | none => rw [hret] at this; cases this
      | some t => rfl
    | pidSum _ _ => rfl
    | timeConv _ _ _ => rfl
    | groupAgg _ _ _ => rfl
    | grouping _ => rfl

/-- **C02 for `simulate`, both parts at once** (`b = true`: the first `nA` rows, `b = false`: the
others). -/
theorem ue_simulate_sel {b : Bool} {nA nB : Nat} {inp : Input} {tbl tblS : Table}
    (hrows : ∀ c ∈ inp.data, c.2.length = nA + nB) (hpos : 0 < ue_n b nA nB)
    (hdecl : ue_declaredNeeded inp = true) (hnogrp : ue_noGroupingNeeded inp = true)
    (hsep : ue_separated nA inp = true)
    (hdt : ∀ c ∈ inp.data, ue_DtStable (ue_rows b nA c.2) c.2)
    (h : simulate inp = .ok tbl) (hS : simulate (ue_selInput b nA inp) = .ok tblS) :
    tblS = ue_selTable b nA tbl :=
  ue_run_sel hrows hpos hdt (fun _ hpr => ue_unionFns_of_checks hdecl hnogrp hsep hpr) h hS

/-! ## the converse: success on both parts implies success on the joint table -/

theorem ue_all_of_parts {α : Type} {l : List α} {p : α → Bool} {n : Nat}
    (h1 : (l.take n).all p = true) (h2 : (l.drop n).all p = true) : l.all p = true := by
  have := List.all_append (xs := l.take n) (ys := l.drop n) (f := p)
  rw [List.take_append_drop, h1, h2] at this
  exact this

theorem ue_rats_sel {b : Bool} {nA : Nat} {c : Col} (hs : c.scalar = false) :
    (c.ue_sel b nA).rats = ue_rows b nA c.rats := by
  rw [Col.ue_sel_of_arr hs]
  simp only [Col.rats, ue_rows_map]

/-- a conversion that succeeds on both parts of a 1-d column succeeds on the column -/
theorem ue_convertCol_of_parts {nA : Nat} {t : Ty} {c cA cB : Col} (hs : c.scalar = false)
    (hA : convertCol t (c.ue_sel true nA) = .ok cA) (hB : convertCol t (c.ue_sel false nA) = .ok cB) :
    ∃ c', convertCol t c = .ok c' := by
  unfold convertCol at hA hB ⊢
  rw [Col.ue_sel_dt, ue_rats_sel hs] at hA hB
  by_cases hd : c.dt = t.toDT
  · rw [if_pos hd]; exact ⟨_, rfl⟩
  · rw [if_neg hd] at hA hB ⊢
    cases t <;> cases hdt : c.dt <;> rw [hdt] at hA hB hd <;> simp only at hA hB hd ⊢
    all_goals first
      | exact ⟨_, rfl⟩
      | (exact absurd rfl hd)
      | (exact absurd hA (by intro h; cases h))
      | (split at hA
         · split at hB
           · rename_i h1 h2
             rw [if_pos (ue_all_of_parts (n := nA) h1 h2)]
             exact ⟨_, rfl⟩
           · cases hB
         · cases hA)

theorem ue_typedData_arr {data : List (String × Column)} {raw : List (String × Col)}
    (h : typedData data = .ok raw) : ∀ e ∈ raw, e.2.scalar = false := by
  intro e he
  unfold typedData at h
  obtain ⟨⟨n, c⟩, _, hae⟩ := mapM_mem_out h e he
  obtain ⟨col, hcol, hae⟩ := bind_ok hae
  simp only [pure, Except.pure, Except.ok.injEq] at hae
  subst hae
  simp only [Col.scalar, (colOfData_length hcol).2]
  rfl

theorem ue_convertData_of_parts {nA : Nat} {raw convA convB : List (String × Col)} {ov : List Fn}
    (harr : ∀ e ∈ raw, e.2.scalar = false)
    (hA : convertData (ue_selData true nA raw) ov = .ok convA)
    (hB : convertData (ue_selData false nA raw) ov = .ok convB) :
    ∃ conv, convertData raw ov = .ok conv := by
  rw [mi_convertData_iff, ue_selData_eq] at hA hB
  suffices ∃ conv, List.Forall₂ (mi_ConvEntry ov) raw conv by
    obtain ⟨conv, h⟩ := this
    exact ⟨conv, (mi_convertData_iff _ _ _).2 h⟩
  induction raw generalizing convA convB with
  | nil => exact ⟨[], .nil⟩
  | cons e raw ih =>
    rw [List.map_cons] at hA hB
    cases hA with
    | @cons _ eA _ restA heA hrestA =>
      cases hB with
      | @cons _ eB _ restB heB hrestB =>
        obtain ⟨conv, hconv⟩ := ih (fun x hx => harr x (List.mem_cons_of_mem _ hx)) hrestA hrestB
        unfold mi_ConvEntry at heA heB
        simp only at heA heB
        cases hty : mi_convType ov e.1 with
        | none =>
          refine ⟨e :: conv, .cons ?_ hconv⟩
          unfold mi_ConvEntry
          rw [hty]
          exact ⟨rfl, rfl⟩
        | some t =>
          rw [hty] at heA heB
          obtain ⟨c', hc'⟩ := ue_convertCol_of_parts (harr e List.mem_cons_self) heA.2 heB.2
          refine ⟨(e.1, c') :: conv, .cons ?_ hconv⟩
          unfold mi_ConvEntry
          rw [hty]
          exact ⟨rfl, hc'⟩

theorem ue_exec_elim {p : Plan} {S : List String} {tbl : Table} (h : exec p S = .ok tbl) :
    (∀ n ∈ p.order, ∃ v, Dag.eval (Dag.prune p.sys p.data (p.sys.length + 1) S) p.data
      (p.sys.length + 1) n = .ok v) ∧
    (∀ t ∈ S, ∃ v, Dag.eval (Dag.prune p.sys p.data (p.sys.length + 1) S) p.data
      (p.sys.length + 1) t = .ok v) := by
  unfold exec at h
  simp only at h
  split at h
  · cases h
  · rename_i vs hvs
    constructor
    · intro n hn
      obtain ⟨v, _, hv⟩ := mapM_mem_in hvs n hn
      exact ⟨v, hv⟩
    · intro t ht
      obtain ⟨e, _, he⟩ := mapM_mem_in h t ht
      obtain ⟨v, hv, _⟩ := bind_ok he
      exact ⟨v, hv⟩

/-- **`exec` on the joint table succeeds if it succeeds on both parts** (same system, separation) -/
theorem ue_exec_of_parts {nA nB : Nat} (params : List (String × Val))
    (specs : List (String × RSpec)) (fns : List Fn) {D : Dag.Data Col} (order T : List String)
    (nR nRA nRB : Nat) (hfns : un_UnionFns params D nA fns) (hD : ColsOK (nA + nB) (D.map (·.2)))
    {tblA tblB : Table}
    (hA : exec { data := ue_selData true nA D, sys := sysOf params specs fns, order := order,
                 nRows := nRA } T = .ok tblA)
    (hB : exec { data := ue_selData false nA D, sys := sysOf params specs fns, order := order,
                 nRows := nRB } T = .ok tblB) :
    ∃ tbl, exec { data := D, sys := sysOf params specs fns, order := order, nRows := nR } T = .ok tbl := by
  obtain ⟨hA1, hA2⟩ := ue_exec_elim hA
  obtain ⟨hB1, hB2⟩ := ue_exec_elim hB
  simp only [ue_prune_sel _ hD] at hA1 hA2 hB1 hB2
  have key : ∀ t, (∃ v, Dag.eval (Dag.prune (sysOf params specs fns) D ((sysOf params specs fns).length + 1) T)
        (ue_selData true nA D) ((sysOf params specs fns).length + 1) t = .ok v) →
      (∃ v, Dag.eval (Dag.prune (sysOf params specs fns) D ((sysOf params specs fns).length + 1) T)
        (ue_selData false nA D) ((sysOf params specs fns).length + 1) t = .ok v) →
      ∃ v, Dag.eval (Dag.prune (sysOf params specs fns) D ((sysOf params specs fns).length + 1) T)
        D ((sysOf params specs fns).length + 1) t = .ok v := by
    intro t ⟨vA, hvA⟩ ⟨vB, hvB⟩
    exact un_sys_eval_ok_of_both params specs _ D
      (fun x node hx => (un_subsys_unionNodeData params specs fns D nA _
        (prune_sub _ D _ T) hfns x node hx).node _) hD _ t vA vB hvA hvB
  apply exec_intro
  · intro n hn
    exact key n (hA1 n hn) (hB1 n hn)
  · intro t ht
    exact key t (hA2 t ht) (hB2 t ht)

/-- the joint data pass the dtype inference and all checks of `_process_and_check_data` -/
def ue_dataOK (data : List (String × Column)) : Bool :=
  match typedData data with
  | .error _ => false
  | .ok raw => mi_checkB raw

/-- **the converse for `run`**: if the two separate calls succeed, the joint data pass the data checks
and the separation hypothesis holds, the joint call succeeds. -/
theorem ue_run_of_parts {nA nB : Nat} {ruleFns : List Fn} {params : List (String × Val)}
    {gs : List (String × GroupSpec)} {ps : List (String × PidSpec)} {data : List (String × Column)}
    {T : List String} {tblA tblB : Table}
    (hrows : ∀ c ∈ data, c.2.length = nA + nB) (hA : 0 < nA) (hB : 0 < nB)
    (hstA : ∀ c ∈ data, ue_DtStable (ue_rows true nA c.2) c.2)
    (hstB : ∀ c ∈ data, ue_DtStable (ue_rows false nA c.2) c.2)
    (hok : ue_dataOK data = true)
    (hsep : ∀ pr, prepare ruleFns gs ps data (sortDedup T) = .ok pr →
      un_UnionFns params pr.data nA (planL2 params pr.fns pr.dataCols (sortDedup T)))
    (hAok : run ruleFns params gs ps (ue_selRaw true nA data) T = .ok tblA)
    (hBok : run ruleFns params gs ps (ue_selRaw false nA data) T = .ok tblB) :
    ∃ tbl, run ruleFns params gs ps data T = .ok tbl := by
  have hne : ∀ (b : Bool), 0 < ue_n b nA nB → ∀ c ∈ data, ue_rows b nA c.2 ≠ [] := by
    intro b hpos c hc he
    have := ue_rows_length (b := b) (hrows c hc)
    rw [he] at this
    simp only [List.length_nil] at this
    omega
  unfold ue_dataOK at hok
  cases hraw : typedData data with
  | error e => rw [hraw] at hok; cases hok
  | ok raw =>
    rw [hraw] at hok
    simp only at hok
    have hcheck : checkData raw = .ok () := (mi_checkData_ok_iff raw).2 hok
    unfold run at hAok hBok
    simp only at hAok hBok
    obtain ⟨prA, hprA, hAok⟩ := bind_ok hAok
    obtain ⟨pA, hpA, hAok⟩ := bind_ok hAok
    obtain ⟨prB, hprB, hBok⟩ := bind_ok hBok
    obtain ⟨pB, hpB, hBok⟩ := bind_ok hBok
    obtain ⟨rawA, all, hrawA, _, hall, htar, hconvA, hfnsA, _, htar'⟩ := prepare_ok' hprA
    obtain ⟨rawB, allB, hrawB, _, hallB, _, hconvB, _, _, _⟩ := prepare_ok' hprB
    rw [ue_typedData_sel hraw (hne true hA) hstA] at hrawA
    rw [ue_typedData_sel hraw (hne false hB) hstB] at hrawB
    cases hrawA
    cases hrawB
    simp only [ue_selData_names] at hall hconvA hfnsA hallB hconvB
    rw [hall] at hallB
    cases hallB
    obtain ⟨conv, hconv⟩ := ue_convertData_of_parts (ue_typedData_arr hraw) hconvA hconvB
    rw [hfnsA] at htar'
    have hpr := prepare_intro hraw hcheck hall htar hconv htar'
    obtain ⟨hfA, hdA, hdataA⟩ := ue_prepare_sel hpr hprA (hne true hA) hstA
    obtain ⟨hfB, hdB, hdataB⟩ := ue_prepare_sel hpr hprB (hne false hB) hstB
    obtain ⟨hc, specs, hspecs, hm, hpA'⟩ := plan_full hpA
    obtain ⟨_, specsB, hspecsB, _, hpB'⟩ := plan_full hpB
    rw [hfA, hdA] at hc hspecs hm
    rw [hfB, hdB, hspecs] at hspecsB
    cases hspecsB
    have hp := plan_intro hc hspecs hm
    obtain ⟨_, hD⟩ := ue_prepare_rows hpr hrows
    subst hpA' hpB'
    unfold planResult at hAok hBok
    rw [hfA, hdA, hdataA] at hAok
    rw [hfB, hdB, hdataB] at hBok
    obtain ⟨tbl, htbl⟩ := ue_exec_of_parts params specs _ _ (sortDedup T)
      ((Option.map (fun x => x.2.vals.length) conv.head?).getD 0) _ _ (hsep _ hpr) hD hAok hBok
    refine ⟨tbl, ?_⟩
    unfold run
    simp only
    rw [hpr]
    simp only [bind, Except.bind]
    rw [hp]
    exact htbl

/-- **the converse for `simulate`**, with both restrictions of the joint result -/
theorem ue_simulate_of_parts {nA nB : Nat} {inp : Input} {tblA tblB : Table}
    (hrows : ∀ c ∈ inp.data, c.2.length = nA + nB) (hA : 0 < nA) (hB : 0 < nB)
    (hdecl : ue_declaredNeeded inp = true) (hnogrp : ue_noGroupingNeeded inp = true)
    (hsep : ue_separated nA inp = true)
    (hdtA : ∀ c ∈ inp.data, ue_DtStable (ue_rows true nA c.2) c.2)
    (hdtB : ∀ c ∈ inp.data, ue_DtStable (ue_rows false nA c.2) c.2)
    (hok : ue_dataOK inp.data = true)
    (hAok : simulate (ue_selInput true nA inp) = .ok tblA)
    (hBok : simulate (ue_selInput false nA inp) = .ok tblB) :
    ∃ tbl, simulate inp = .ok tbl ∧ ue_selTable true nA tbl = tblA ∧ ue_selTable false nA tbl = tblB := by
  obtain ⟨tbl, h⟩ := ue_run_of_parts hrows hA hB hdtA hdtB hok
    (fun _ hpr => ue_unionFns_of_checks hdecl hnogrp hsep hpr) hAok hBok
  exact ⟨tbl, h, (ue_simulate_sel (b := true) hrows hA hdecl hnogrp hsep hdtA h hAok).symm,
    (ue_simulate_sel (b := false) hrows hB hdecl hnogrp hsep hdtB h hBok).symm⟩

/-! ## the data checks of the joint table from those of the parts -/

theorem ue_rows_zip {α β : Type} (b : Bool) (n : Nat) (l : List α) (l' : List β) :
    ue_rows b n (l.zip l') = (ue_rows b n l).zip (ue_rows b n l') := by
  cases b
  · simp only [ue_rows, List.zip, List.drop_zipWith]
  · simp only [ue_rows, List.zip, List.take_zipWith]

theorem ue_mem_parts {α : Type} {l : List α} (n : Nat) {x : α} (h : x ∈ l) :
    x ∈ ue_rows true n l ∨ x ∈ ue_rows false n l := by
  rw [← List.take_append_drop n l, List.mem_append] at h
  exact h

theorem ue_find?_selData (b : Bool) (nA : Nat) (D : Dag.Data Col) (n : String) :
    find? (ue_selData b nA D) n = (find? D n).map (Col.ue_sel b nA) := by
  rw [ue_selData_eq]
  unfold find?
  induction D with
  | nil => rfl
  | cons e D ih =>
    rw [List.map_cons, Dag.find?, Dag.find?]
    split
    · rfl
    · exact ih

/-- no value of the first `nA` entries occurs among the remaining entries -/
def ue_RatsSep (nA : Nat) (l : List Rat) : Prop := ∀ x ∈ l.take nA, x ∉ l.drop nA

instance (nA : Nat) (l : List Rat) : Decidable (ue_RatsSep nA l) := by unfold ue_RatsSep; infer_instance

/-- **the data checks of the joint table from those of the parts**: `_process_and_check_data` accepts
the joint (typed) table if it accepts both parts, the p_ids of the two parts are disjoint and, for
every group id column present (`hh_id`, `wthh_id`, …), the ids of the two parts are disjoint. -/
theorem ue_checkB_of_parts {nA : Nat} {raw : List (String × Col)} (harr : ∀ e ∈ raw, e.2.scalar = false)
    (hA : mi_checkB (ue_selData true nA raw) = true) (hB : mi_checkB (ue_selData false nA raw) = true)
    (hpid : ∀ c, find? raw "p_id" = some c → ue_RatsSep nA c.rats)
    (hgrp : ∀ g ∈ groupSuffixes, ∀ c, find? raw ((g.drop 1).toString ++ "_id") = some c →
      ue_RatsSep nA c.rats) :
    mi_checkB raw = true := by
  rw [mi_checkB_iff] at hA hB ⊢
  obtain ⟨hndA, ⟨pidA, hpidA, hpA, hfkA⟩, hgA⟩ := hA
  obtain ⟨_, ⟨pidB, hpidB, hpB, hfkB⟩, hgB⟩ := hB
  have hsc : ∀ n c, find? raw n = some c → c.scalar = false := fun n c h =>
    harr (n, c) (Dag.find?_mem _ _ _ h)
  rw [ue_find?_selData] at hpidA hpidB
  cases hp : find? raw "p_id" with
  | none => rw [hp] at hpidA; cases hpidA
  | some pid =>
    rw [hp] at hpidA hpidB
    simp only [Option.map_some, Option.some.injEq] at hpidA hpidB
    subst hpidA hpidB
    have hps := hsc _ _ hp
    rw [ue_rats_sel hps] at hpA hpB
    refine ⟨?_, ⟨pid, rfl, ?_, ?_⟩, ?_⟩
    · rw [ue_selData_names] at hndA; exact hndA
    · rw [← List.take_append_drop nA pid.rats, List.nodup_append]
      exact ⟨hpA, hpB, fun a ha b hb hab => hpid pid hp a ha (hab ▸ hb)⟩
    · intro fk hfk c hc
      have hcs := hsc _ _ hc
      have h1 := hfkA fk hfk (c.ue_sel true nA) (by rw [ue_find?_selData, hc]; rfl)
      have h2 := hfkB fk hfk (c.ue_sel false nA) (by rw [ue_find?_selData, hc]; rfl)
      rw [ue_rats_sel hcs, ue_rats_sel hps, ← ue_rows_zip] at h1 h2
      constructor
      · intro k hk
        rcases ue_mem_parts nA hk with hk | hk
        · exact (h1.1 k hk).imp id ue_rows_sub
        · exact (h2.1 k hk).imp id ue_rows_sub
      · intro p hp'
        rcases ue_mem_parts nA hp' with hp' | hp'
        · exact h1.2 p hp'
        · exact h2.2 p hp'
    · intro g hg idc hidc n c hnc he
      have his := hsc _ _ hidc
      have hcs : c.scalar = false := harr (n, c) hnc
      have h1 := hgA g hg (idc.ue_sel true nA) (by rw [ue_find?_selData, hidc]; rfl) n (c.ue_sel true nA)
        (by rw [ue_selData_eq]; exact List.mem_map.2 ⟨(n, c), hnc, rfl⟩) he
      have h2 := hgB g hg (idc.ue_sel false nA) (by rw [ue_find?_selData, hidc]; rfl) n (c.ue_sel false nA)
        (by rw [ue_selData_eq]; exact List.mem_map.2 ⟨(n, c), hnc, rfl⟩) he
      rw [ue_rats_sel his, ue_rats_sel hcs] at h1 h2
      unfold mi_ConstWithin at h1 h2 ⊢
      rw [← ue_rows_zip] at h1 h2
      have hsep := hgrp g hg idc hidc
      have hfst : ∀ (b : Bool) (p : Rat × Rat), p ∈ ue_rows b nA (idc.rats.zip c.rats) →
          p.1 ∈ ue_rows b nA idc.rats := by
        intro b p hp'
        rw [ue_rows_zip] at hp'
        exact (List.of_mem_zip (a := p.1) (b := p.2) hp').1
      intro p hp' q hq hpq
      rcases ue_mem_parts nA hp' with hp' | hp' <;> rcases ue_mem_parts nA hq with hq | hq
      · exact h1 p hp' q hq hpq
      · exact absurd (hpq ▸ hfst false q hq) (hsep p.1 (hfst true p hp'))
      · exact absurd (hpq ▸ hfst false p hp' : q.1 ∈ _) (hsep q.1 (hfst true q hq))
      · exact h2 p hp' q hq hpq

/-! ## homogeneous columns pass the dtype inference -/

theorem ue_isFltVal_rToVal (r : R) : ue_isFltVal (rToVal r) = (VecDtype.dtypeOf r == .float) := by
  cases r <;> rfl

theorem ue_isBoolVal_rToVal (r : R) : ue_isBoolVal (rToVal r) = (VecDtype.dtypeOf r == .bool) := by
  cases r <;> rfl

theorem ue_mapM_valToR_ok {c : Column} (h : ∀ v ∈ c, (valToR v).isSome = true) :
    ∃ rs, c.mapM valToR = some rs := by
  induction c with
  | nil => exact ⟨[], rfl⟩
  | cons a l ih =>
    obtain ⟨rs, hrs⟩ := ih fun v hv => h v (List.mem_cons_of_mem _ hv)
    obtain ⟨r, hr⟩ := Option.isSome_iff_exists.1 (h a List.mem_cons_self)
    exact ⟨r :: rs, by rw [List.mapM_cons, hr, hrs]; rfl⟩

theorem ue_colOfRs_homog {rs : List R} (hne : rs ≠ [])
    (h : rs.all (fun r => VecDtype.dtypeOf r == .int) = true ∨
      rs.all (fun r => VecDtype.dtypeOf r == .float) = true ∨
      rs.all (fun r => VecDtype.dtypeOf r == .bool) = true) : ∃ col, ue_colOfRs rs = .ok col := by
  have hemp : rs.isEmpty = false := by
    cases rs with
    | nil => exact absurd rfl hne
    | cons _ _ => rfl
  unfold ue_colOfRs
  split
  · exact ⟨_, rfl⟩
  · split
    · exact ⟨_, rfl⟩
    · split
      · exact ⟨_, rfl⟩
      · rename_i h1 _ h3
        exfalso
        rcases h with h | h | h
        · apply h3
          rw [List.all_eq_true] at h ⊢
          intro x hx
          have := h x hx
          cases x <;> simp_all [VecDtype.dtypeOf]
        · apply h3
          rw [List.all_eq_true] at h ⊢
          intro x hx
          have := h x hx
          cases x <;> simp_all [VecDtype.dtypeOf]
        · apply h1
          rw [h, hemp]
          rfl

/-- a non-empty homogeneous column passes the dtype inference -/
theorem ue_colOfData_homog {c : Column} (h : ue_Homog c = true) (hne : c ≠ []) :
    ∃ col, colOfData c = .ok col := by
  have hsome : ∀ v ∈ c, (valToR v).isSome = true := by
    intro v hv
    unfold ue_Homog at h
    rw [Bool.or_eq_true, Bool.or_eq_true] at h
    rcases h with (h | h) | h <;> have := List.all_eq_true.1 h v hv <;> cases v <;>
      simp_all [ue_isIntVal, ue_isFltVal, ue_isBoolVal, valToR]
  obtain ⟨rs, hrs⟩ := ue_mapM_valToR_ok hsome
  have hc := ue_mapM_valToR hrs
  subst hc
  rw [ue_colOfData_map]
  apply ue_colOfRs_homog
  · intro he; rw [he] at hne; exact hne rfl
  · unfold ue_Homog at h
    rw [Bool.or_eq_true, Bool.or_eq_true] at h
    rcases h with (h | h) | h
    · left
      rw [← ue_all_isInt_map]; exact h
    · right; left
      rw [List.all_map] at h
      rw [← h]; congr 1; funext r; exact (ue_isFltVal_rToVal r).symm
    · right; right
      rw [List.all_map] at h
      rw [← h]; congr 1; funext r; exact (ue_isBoolVal_rToVal r).symm

theorem ue_typedData_homog {data : List (String × Column)} (h : ∀ c ∈ data, ue_Homog c.2 = true)
    (hne : ∀ c ∈ data, c.2 ≠ []) : ∃ raw, typedData data = .ok raw := by
  unfold typedData
  apply mapM_ok_of_forall
  intro ⟨n, c⟩ hc
  obtain ⟨col, hcol⟩ := ue_colOfData_homog (h _ hc) (hne _ hc)
  exact ⟨(n, col), by simp only [hcol]; rfl⟩

/-- on a typed table: the p_ids and the ids of every group id column present (`hh_id`, `wthh_id`, …)
are disjoint on the first `nA` rows and on the remaining rows -/
def ue_idColsSep (nA : Nat) (raw : List (String × Col)) : Bool :=
  ("p_id" :: groupSuffixes.map fun g => (g.drop 1).toString ++ "_id").all fun n =>
    match find? raw n with
    | none => true
    | some c => decide (ue_RatsSep nA c.rats)

theorem ue_idColsSep_elim {nA : Nat} {raw : List (String × Col)} (h : ue_idColsSep nA raw = true) :
    (∀ c, find? raw "p_id" = some c → ue_RatsSep nA c.rats) ∧
    (∀ g ∈ groupSuffixes, ∀ c, find? raw ((g.drop 1).toString ++ "_id") = some c →
      ue_RatsSep nA c.rats) := by
  unfold ue_idColsSep at h
  simp only [List.all_cons, Bool.and_eq_true, List.all_eq_true, List.mem_map] at h
  constructor
  · intro c hc
    have := h.1
    rw [hc] at this
    simpa using this
  · intro g hg c hc
    have := h.2 _ ⟨g, hg, rfl⟩
    rw [hc] at this
    simpa using this

/-- the p_ids and the ids of every group id column present in the data are disjoint on the first
`nA` rows and on the remaining rows (on the typed data; vacuous if the dtype inference fails) -/
def ue_idsDisjoint (nA : Nat) (data : List (String × Column)) : Bool :=
  match typedData data with
  | .error _ => true
  | .ok raw => ue_idColsSep nA raw

/-- **the joint data pass the checks if both separate calls succeed**, the columns are homogeneous
and the p_ids / group ids of the two parts are disjoint -/
theorem ue_dataOK_of_runs {nA nB : Nat} {ruleFns : List Fn} {params : List (String × Val)}
    {gs : List (String × GroupSpec)} {ps : List (String × PidSpec)} {data : List (String × Column)}
    {T : List String} {tblA tblB : Table}
    (hrows : ∀ c ∈ data, c.2.length = nA + nB) (hA : 0 < nA) (hB : 0 < nB)
    (hhom : ∀ c ∈ data, ue_Homog c.2 = true) (hdis : ue_idsDisjoint nA data = true)
    (hAok : run ruleFns params gs ps (ue_selRaw true nA data) T = .ok tblA)
    (hBok : run ruleFns params gs ps (ue_selRaw false nA data) T = .ok tblB) :
    ue_dataOK data = true := by
  have hne : ∀ (b : Bool), 0 < ue_n b nA nB → ∀ c ∈ data, ue_rows b nA c.2 ≠ [] := by
    intro b hpos c hc he
    have := ue_rows_length (b := b) (hrows c hc)
    rw [he] at this
    simp only [List.length_nil] at this
    omega
  have hne' : ∀ c ∈ data, c.2 ≠ [] := by
    intro c hc he
    have := hrows c hc
    rw [he] at this
    simp only [List.length_nil] at this
    omega
  obtain ⟨raw, hraw⟩ := ue_typedData_homog hhom hne'
  unfold ue_dataOK
  rw [hraw]
  simp only
  unfold ue_idsDisjoint at hdis
  rw [hraw] at hdis
  simp only at hdis
  obtain ⟨hpid, hgrp⟩ := ue_idColsSep_elim hdis
  unfold run at hAok hBok
  simp only at hAok hBok
  obtain ⟨prA, hprA, _⟩ := bind_ok hAok
  obtain ⟨prB, hprB, _⟩ := bind_ok hBok
  obtain ⟨rawA, _, hrawA, hcheckA, _⟩ := prepare_ok' hprA
  obtain ⟨rawB, _, hrawB, hcheckB, _⟩ := prepare_ok' hprB
  rw [ue_typedData_sel hraw (hne true hA)
    (fun c hc => ue_dtStable_of_homog (hhom c hc) (hne true hA c hc))] at hrawA
  rw [ue_typedData_sel hraw (hne false hB)
    (fun c hc => ue_dtStable_of_homog (hhom c hc) (hne false hB c hc))] at hrawB
  cases hrawA
  cases hrawB
  apply ue_checkB_of_parts (ue_typedData_arr hraw) ((mi_checkData_ok_iff _).1 hcheckA)
    ((mi_checkData_ok_iff _).1 hcheckB) hpid hgrp

/-- **the converse for `simulate`, homogeneous columns**: no hypothesis on the joint call at all -/
theorem ue_simulate_of_parts_homog {nA nB : Nat} {inp : Input} {tblA tblB : Table}
    (hrows : ∀ c ∈ inp.data, c.2.length = nA + nB) (hA : 0 < nA) (hB : 0 < nB)
    (hdecl : ue_declaredNeeded inp = true) (hnogrp : ue_noGroupingNeeded inp = true)
    (hsep : ue_separated nA inp = true)
    (hhom : ∀ c ∈ inp.data, ue_Homog c.2 = true) (hdis : ue_idsDisjoint nA inp.data = true)
    (hAok : simulate (ue_selInput true nA inp) = .ok tblA)
    (hBok : simulate (ue_selInput false nA inp) = .ok tblB) :
    ∃ tbl, simulate inp = .ok tbl ∧ ue_selTable true nA tbl = tblA ∧ ue_selTable false nA tbl = tblB := by
  have hne : ∀ (b : Bool), 0 < ue_n b nA nB → ∀ c ∈ inp.data, ue_rows b nA c.2 ≠ [] := by
    intro b hpos c hc he
    have := ue_rows_length (b := b) (hrows c hc)
    rw [he] at this
    simp only [List.length_nil] at this
    omega
  exact ue_simulate_of_parts hrows hA hB hdecl hnogrp hsep
    (fun c hc => ue_dtStable_of_homog (hhom c hc) (hne true hA c hc))
    (fun c hc => ue_dtStable_of_homog (hhom c hc) (hne false hB c hc))
    (ue_dataOK_of_runs hrows hA hB hhom hdis hAok hBok) hAok hBok

end GV.Simulate
