import GettsimVerif.Core.Sym
import Mathlib.Algebra.Order.Field.Rat
import Mathlib.Tactic.Ring
import Mathlib.Tactic.Linarith
import Mathlib.Algebra.Order.AbsoluteValue.Basic
/-
Soundness lemmas for the symbolic evaluator `GV.Sym` (see `Props/SymSound.lean` for the
theorems meant to be used).
-/
namespace GV.Sym
open GV.Lang

/-! ### intervals and the sign procedure -/

theorem Ivl.mem_lo {I : Ivl} {w : Rat} (h : I.mem w) : I.lo ≤ w := by
  have h1 := h.1
  split at h1
  · exact h1
  · exact le_of_lt h1

theorem Ivl.mem_lo_strict {I : Ivl} {w : Rat} (h : I.mem w) (hc : I.loClosed = false) :
    I.lo < w := by
  have h1 := h.1
  rw [hc] at h1
  exact h1

theorem Ivl.mem_hi {I : Ivl} {w h' : Rat} (h : I.mem w) (hh : I.hi = some h') : w ≤ h' := by
  have h2 := h.2
  rw [hh] at h2
  simp only at h2
  split at h2
  · exact h2
  · exact le_of_lt h2

theorem Ivl.mem_hi_strict {I : Ivl} {w h' : Rat} (h : I.mem w) (hh : I.hi = some h')
    (hc : I.hiClosed = false) : w < h' := by
  have h2 := h.2
  rw [hh, hc] at h2
  exact h2

theorem Ivl.memB_iff {I : Ivl} {w : Rat} : I.memB w = true ↔ I.mem w := by
  unfold Ivl.memB Ivl.mem
  cases I.loClosed <;> cases I.hi <;> cases I.hiClosed <;> simp

theorem allLe0_sound {I : Ivl} {a b w : Rat} (h : allLe0 I a b = true) (hw : I.mem w) :
    a * w + b ≤ 0 := by
  unfold allLe0 at h
  split at h
  · rename_i ha
    split at h
    · cases h
    · rename_i h' hh
      have := Ivl.mem_hi hw hh
      have h := of_decide_eq_true h
      nlinarith [mul_le_mul_of_nonneg_left this (le_of_lt ha)]
  · rename_i ha
    have := Ivl.mem_lo hw
    have h := of_decide_eq_true h
    have ha : a ≤ 0 := not_lt.mp ha
    nlinarith [mul_le_mul_of_nonpos_left this ha]

theorem allLt0_sound {I : Ivl} {a b w : Rat} (h : allLt0 I a b = true) (hw : I.mem w) :
    a * w + b < 0 := by
  unfold allLt0 at h
  split at h
  · rename_i ha
    split at h
    · cases h
    · rename_i h' hh
      have hle := Ivl.mem_hi hw hh
      simp only [Bool.or_eq_true, Bool.and_eq_true, decide_eq_true_eq, Bool.not_eq_true'] at h
      rcases h with h | ⟨h, hc⟩
      · nlinarith [mul_le_mul_of_nonneg_left hle (le_of_lt ha)]
      · have hlt := Ivl.mem_hi_strict hw hh hc
        nlinarith [mul_lt_mul_of_pos_left hlt ha]
  · rename_i ha
    have hle := Ivl.mem_lo hw
    have ha : a ≤ 0 := not_lt.mp ha
    simp only [Bool.or_eq_true, Bool.and_eq_true, decide_eq_true_eq, Bool.not_eq_true'] at h
    rcases h with h | ⟨⟨h, hc⟩, ha'⟩
    · nlinarith [mul_le_mul_of_nonpos_left hle ha]
    · have hlt := Ivl.mem_lo_strict hw hc
      nlinarith [mul_lt_mul_of_neg_left hlt ha']

theorem allGe0_sound {I : Ivl} {a b w : Rat} (h : allGe0 I a b = true) (hw : I.mem w) :
    0 ≤ a * w + b := by
  have := allLe0_sound h hw
  linarith

theorem allGt0_sound {I : Ivl} {a b w : Rat} (h : allGt0 I a b = true) (hw : I.mem w) :
    0 < a * w + b := by
  have := allLt0_sound h hw
  linarith

theorem allEq0_sound {I : Ivl} {a b w : Rat} (h : allEq0 I a b = true) (hw : I.mem w) :
    a * w + b = 0 := by
  unfold allEq0 at h
  rw [Bool.and_eq_true] at h
  exact le_antisymm (allLe0_sound h.1 hw) (allGe0_sound h.2 hw)

theorem allNe0_sound {I : Ivl} {a b w : Rat} (h : allNe0 I a b = true) (hw : I.mem w) :
    a * w + b ≠ 0 := by
  unfold allNe0 at h
  rw [Bool.or_eq_true] at h
  rcases h with h | h
  · exact ne_of_lt (allLt0_sound h hw)
  · exact ne_of_gt (allGt0_sound h hw)

/-! ### numeric views -/

theorem ok_flt_congr {p q : Rat} (h : p = q) :
    (Except.ok (Val.flt p) : Except Err Val) = .ok (.flt q) := by rw [h]

theorem mkAff_eval (a b w : Rat) : (mkAff a b).eval w = .flt (a * w + b) := by
  unfold mkAff
  split
  · rename_i h
    simp [SVal.eval, h]
  · rfl

/-- a symbolic value with a linear view denotes a number; `aff` denotes a float -/
theorem lin?_num {x : SVal} {a b : Rat} (w : Rat) (h : x.lin? = some (a, b)) :
    ∃ fl, num? (x.eval w) = some (a * w + b, fl) ∧ (∀ a' b', x = .aff a' b' → fl = true) := by
  cases x with
  | aff a' b' =>
    simp only [SVal.lin?, Option.some.injEq, Prod.mk.injEq] at h
    obtain ⟨rfl, rfl⟩ := h
    exact ⟨true, rfl, fun _ _ _ => rfl⟩
  | const v =>
    simp only [SVal.lin?, Option.map_eq_some_iff] at h
    obtain ⟨⟨q, fl⟩, hq, h⟩ := h
    simp only [Prod.mk.injEq] at h
    obtain ⟨rfl, rfl⟩ := h
    refine ⟨fl, ?_, fun _ _ h => by cases h⟩
    simp only [SVal.eval, hq, zero_mul, zero_add]

theorem evalBin_num {op : BinOp} {x y : Val} {p q : Rat} {fx fy : Bool}
    (hx : num? x = some (p, fx)) (hy : num? y = some (q, fy)) :
    evalBin op x y = binNum op p q fx fy := by
  simp only [evalBin, hx, hy]

theorem ord?_num {x : Val} {p : Rat} {fx : Bool} (hx : num? x = some (p, fx)) :
    ord? x = some (.mid p) := by
  cases x <;> simp [num?] at hx <;> simp [ord?, num?, hx]

/-- comparison of two rationals, as `evalCmp` does it on numbers -/
def cmpRat (op : CmpOp) (p q : Rat) : Bool :=
  match op with
  | .lt => decide (p < q) | .le => decide (p ≤ q)
  | .gt => decide (q < p) | .ge => decide (q ≤ p)
  | .eq => decide (p = q) | .ne => !decide (p = q)

theorem evalCmp_num {op : CmpOp} {x y : Val} {p q : Rat} {fx fy : Bool}
    (hx : num? x = some (p, fx)) (hy : num? y = some (q, fy)) :
    evalCmp op x y = .ok (cmpRat op p q) := by
  simp only [evalCmp, ord?_num hx, ord?_num hy, ordLt, ordEq]
  congr 1
  cases op <;> simp only [cmpRat]
  · rw [Bool.eq_iff_iff]
    simp only [Bool.or_eq_true, decide_eq_true_eq]
    exact le_iff_lt_or_eq.symm
  · rw [Bool.eq_iff_iff]
    simp only [Bool.or_eq_true, decide_eq_true_eq]
    constructor
    · rintro (h | h)
      · exact le_of_lt h
      · exact le_of_eq h.symm
    · intro h
      rcases lt_or_eq_of_le h with h | h
      · exact Or.inl h
      · exact Or.inr h.symm

theorem decideCmp_sound {I : Ivl} {op : CmpOp} {a b w p q : Rat} {r : Bool}
    (h : decideCmp I op a b = some r) (hw : I.mem w) (hpq : p - q = a * w + b) :
    cmpRat op p q = r := by
  cases op <;> simp only [decideCmp] at h <;> simp only [cmpRat]
  · split at h
    · rename_i h1; cases h; have := allLt0_sound h1 hw
      exact decide_eq_true (by linarith)
    · split at h
      · rename_i _ h1; cases h; have := allGe0_sound h1 hw
        exact decide_eq_false (by linarith)
      · cases h
  · split at h
    · rename_i h1; cases h; have := allLe0_sound h1 hw
      exact decide_eq_true (by linarith)
    · split at h
      · rename_i _ h1; cases h; have := allGt0_sound h1 hw
        exact decide_eq_false (by linarith)
      · cases h
  · split at h
    · rename_i h1; cases h; have := allGt0_sound h1 hw
      exact decide_eq_true (by linarith)
    · split at h
      · rename_i _ h1; cases h; have := allLe0_sound h1 hw
        exact decide_eq_false (by linarith)
      · cases h
  · split at h
    · rename_i h1; cases h; have := allGe0_sound h1 hw
      exact decide_eq_true (by linarith)
    · split at h
      · rename_i _ h1; cases h; have := allLt0_sound h1 hw
        exact decide_eq_false (by linarith)
      · cases h
  · split at h
    · rename_i h1; cases h; have := allEq0_sound h1 hw
      exact decide_eq_true (by linarith)
    · split at h
      · rename_i _ h1; cases h; have := allNe0_sound h1 hw
        exact decide_eq_false (fun he => this (by linarith))
      · cases h
  · split at h
    · rename_i h1; cases h; have := allNe0_sound h1 hw
      rw [Bool.not_eq_true']
      exact decide_eq_false (fun he => this (by linarith))
    · split at h
      · rename_i _ h1; cases h; have := allEq0_sound h1 hw
        rw [Bool.not_eq_false']
        exact decide_eq_true (by linarith)
      · cases h

/-! ### the non-recursive building blocks -/

theorem evalCmp_flt_nonnum {op : CmpOp} {v : Val} (h : num? v = none) (p q : Rat) :
    evalCmp op (.flt p) v = evalCmp op (.flt q) v := by
  cases v with
  | int i => simp [num?] at h
  | flt r => simp [num?] at h
  | bool b => simp [num?] at h
  | inf n => cases n <;> cases op <;> rfl
  | str s => cases op <;> rfl
  | tree y => cases op <;> rfl
  | none => cases op <;> rfl

theorem evalCmp_nonnum_flt {op : CmpOp} {v : Val} (h : num? v = none) (p q : Rat) :
    evalCmp op v (.flt p) = evalCmp op v (.flt q) := by
  cases v with
  | int i => simp [num?] at h
  | flt r => simp [num?] at h
  | bool b => simp [num?] at h
  | inf n => cases n <;> cases op <;> rfl
  | str s => cases op <;> rfl
  | tree y => cases op <;> rfl
  | none => cases op <;> rfl

theorem symCmp_sound {I : Ivl} {op : CmpOp} {x y : SVal} {r : Bool} {w : Rat}
    (h : symCmp I op x y = some r) (hw : I.mem w) :
    evalCmp op (x.eval w) (y.eval w) = .ok r := by
  cases x with
  | const u =>
    cases y with
    | const v =>
      simp only [symCmp] at h
      split at h
      · rename_i r' hr; cases h; exact hr
      · cases h
    | aff c d =>
      simp only [symCmp, SVal.lin?] at h
      cases hu : num? u with
      | some p =>
        obtain ⟨q, fl⟩ := p
        simp only [hu, Option.map_some] at h
        simp only [SVal.eval]
        rw [evalCmp_num hu (rfl : num? (.flt (c * w + d)) = some (c * w + d, true)),
          decideCmp_sound h hw (by ring)]
      | none =>
        simp only [hu, Option.map_none] at h
        split at h
        · rename_i r' hr
          cases h
          simp only [SVal.eval]
          rw [evalCmp_nonnum_flt hu _ 0]
          exact hr
        · cases h
  | aff a b =>
    cases y with
    | const v =>
      simp only [symCmp, SVal.lin?] at h
      cases hv : num? v with
      | some p =>
        obtain ⟨q, fl⟩ := p
        simp only [hv, Option.map_some] at h
        simp only [SVal.eval]
        rw [evalCmp_num (rfl : num? (.flt (a * w + b)) = some (a * w + b, true)) hv,
          decideCmp_sound h hw (by ring)]
      | none =>
        simp only [hv, Option.map_none] at h
        split at h
        · rename_i r' hr
          cases h
          simp only [SVal.eval]
          rw [evalCmp_flt_nonnum hv _ 0]
          exact hr
        · cases h
    | aff c d =>
      simp only [symCmp, SVal.lin?] at h
      simp only [SVal.eval]
      rw [evalCmp_num (rfl : num? (.flt (a * w + b)) = some (a * w + b, true))
        (rfl : num? (.flt (c * w + d)) = some (c * w + d, true)), decideCmp_sound h hw (by ring)]

theorem symTruthy_sound {I : Ivl} {x : SVal} {r : Bool} {w : Rat}
    (h : symTruthy I x = some r) (hw : I.mem w) : truthy (x.eval w) = r := by
  unfold symTruthy at h
  split at h
  · cases h; rfl
  · split at h
    · rename_i h1; cases h
      have := allNe0_sound h1 hw
      simp only [SVal.eval, truthy, decide_eq_true_eq]
      exact this
    · split at h
      · rename_i _ h1; cases h
        have := allEq0_sound h1 hw
        simp only [SVal.eval, truthy, decide_eq_false_iff_not, not_not]
        exact this
      · cases h

theorem symBin_sound {op : BinOp} {x y s : SVal} (w : Rat) (h : symBin op x y = some s) :
    evalBin op (x.eval w) (y.eval w) = .ok (s.eval w) := by
  unfold symBin at h
  split at h
  · split at h
    · rename_i r hr
      cases h
      exact hr
    · cases h
  · rename_i hne
    split at h
    · rename_i a b c d hx hy
      obtain ⟨fx, hnx, hax⟩ := lin?_num w hx
      obtain ⟨fy, hny, hay⟩ := lin?_num w hy
      have hfl : (fx || fy) = true := by
        cases x with
        | aff a' b' => rw [hax a' b' rfl]; rfl
        | const u =>
          cases y with
          | aff c' d' => rw [hay c' d' rfl]; simp
          | const v => exact absurd rfl (hne u v rfl)
      rw [evalBin_num hnx hny]
      cases op <;> simp only [binNum, hfl, mkNum, if_true] at h ⊢
      · cases h; rw [mkAff_eval]; apply ok_flt_congr; ring
      · cases h; rw [mkAff_eval]; apply ok_flt_congr; ring
      · split at h
        · rename_i ha; cases h; subst ha; rw [mkAff_eval]; apply ok_flt_congr; ring
        · split at h
          · rename_i _ hc; cases h; subst hc; rw [mkAff_eval]; apply ok_flt_congr; ring
          · cases h
      · split at h
        · rename_i hcd
          obtain ⟨rfl, hd⟩ := hcd
          cases h
          have : ¬ ((0 : Rat) * w + d = 0) := by simpa using hd
          rw [if_neg this, mkAff_eval]
          apply ok_flt_congr
          rw [zero_mul, zero_add]
          ring
        · cases h
    · cases h

theorem symNeg_sound {x s : SVal} (w : Rat) (h : symNeg x = some s) :
    negVal (x.eval w) = .ok (s.eval w) := by
  unfold symNeg at h
  split at h
  · split at h
    · rename_i r hr; cases h; exact hr
    · cases h
  · cases h
    rw [mkAff_eval]
    simp only [SVal.eval, negVal, num?, mkNum, if_true, pure, Except.pure]
    apply ok_flt_congr
    ring

theorem evalExpr_neg (σ : Env) (a : Expr) :
    evalExpr σ (.neg a) = (do let x ← evalExpr σ a; negVal x) := by
  rw [evalExpr]; rfl

theorem obind_some {α β : Type} {x : Option α} {f : α → Option β} {b : β}
    (h : (x >>= f) = some b) : ∃ a, x = some a ∧ f a = some b := by
  cases x with
  | none => cases h
  | some a => exact ⟨a, rfl, h⟩

@[simp] theorem ok_bind {ε α β : Type} (a : α) (f : α → Except ε β) :
    ((Except.ok a : Except ε α) >>= f) = f a := rfl

theorem allConst?_eval (w : Rat) : ∀ {ss : List SVal} {vs : List Val},
    allConst? ss = some vs → ss.map (fun s => s.eval w) = vs
  | [], vs, h => by
    simp only [allConst?, Option.some.injEq] at h
    subst h; rfl
  | .const v :: rest, vs, h => by
    simp only [allConst?, Option.map_eq_some_iff] at h
    obtain ⟨us, hus, rfl⟩ := h
    rw [List.map_cons, allConst?_eval w hus]; rfl
  | .aff _ _ :: _, vs, h => by simp [allConst?] at h

theorem symPick_sound {I : Ivl} {isMax : Bool} {w : Rat} (hw : I.mem w) :
    ∀ (ss : List SVal) (s : SVal), symPick I isMax ss = some s →
      pickExt isMax (ss.map (fun s => s.eval w)) = .ok (s.eval w)
  | [], s, h => by simp [symPick] at h
  | [v], s, h => by
    simp only [symPick, Option.some.injEq] at h
    subst h; rfl
  | v :: v2 :: rest, s, h => by
    rw [symPick] at h
    · obtain ⟨r, hr, h⟩ := obind_some h
      obtain ⟨better, hb, h2⟩ := obind_some h
      simp only [pure, Option.some.injEq] at h2
      have ih := symPick_sound hw (v2 :: rest) r hr
      simp only [List.map_cons] at ih ⊢
      rw [pickExt, ih]
      · simp only [ok_bind]
        cases isMax
        · simp only [Bool.false_eq_true, if_false] at hb ⊢
          rw [symCmp_sound hb hw]
          simp only [ok_bind, pure, Except.pure]
          subst h2
          cases better <;> rfl
        · simp only [if_true] at hb ⊢
          rw [symCmp_sound hb hw]
          simp only [ok_bind, pure, Except.pure]
          subst h2
          cases better <;> rfl
      · simp
    · simp

theorem symCall_sound {I : Ivl} {f : String} {ss : List SVal} {s : SVal} {w : Rat}
    (h : symCall I f ss = some s) (hw : I.mem w) :
    evalCall f (ss.map (fun s => s.eval w)) = .ok (s.eval w) := by
  unfold symCall at h
  split at h
  · rename_i vs hvs
    rw [allConst?_eval w hvs]
    split at h
    · rename_i r hr; cases h; exact hr
    · cases h
  · split at h
    · rename_i hf
      subst hf
      split at h
      · rename_i a1 a2 rest
        have := symPick_sound hw _ _ h
        simp only [List.map_cons] at this ⊢
        simp only [evalCall]
        exact this
      · cases h
    · split at h
      · rename_i _ hf
        subst hf
        split at h
        · rename_i a1 a2 rest
          have := symPick_sound hw _ _ h
          simp only [List.map_cons] at this ⊢
          simp only [evalCall]
          exact this
        · cases h
      · split at h
        · rename_i _ _ hf
          subst hf
          split at h
          · cases h
            rw [mkAff_eval]
            simp [evalCall, SVal.eval, num?]
          · cases h
        · split at h
          · rename_i _ _ _ hf
            subst hf
            split at h
            · rename_i a b
              split at h
              · rename_i h1
                cases h
                have := allGe0_sound h1 hw
                rw [mkAff_eval]
                simp only [List.map_cons, List.map_nil, SVal.eval, evalCall, num?, mkNum, if_true]
                rw [if_neg (not_lt.mpr this)]
              · split at h
                · rename_i _ h1
                  cases h
                  have := allLt0_sound h1 hw
                  rw [mkAff_eval]
                  simp only [List.map_cons, List.map_nil, SVal.eval, evalCall, num?, mkNum, if_true]
                  rw [if_pos this]
                  apply ok_flt_congr
                  ring
                · cases h
            · cases h
          · cases h

theorem symSub_sound {c idx s : SVal} (w : Rat) (h : symSub c idx = some s) :
    evalSub (c.eval w) (idx.eval w) = .ok (s.eval w) := by
  unfold symSub at h
  split at h
  · split at h
    · rename_i r hr; cases h; exact hr
    · cases h
  · cases h

theorem symIsIn_sound {x s : SVal} {items : List SVal} {neg : Bool} (w : Rat)
    (h : symIsIn x items neg = some s) :
    isInVal (x.eval w) (items.map (fun s => s.eval w)) neg = .ok (s.eval w) := by
  unfold symIsIn at h
  split at h
  · rename_i v vs hx hvs
    rw [allConst?_eval w hvs]
    split at h
    · rename_i r hr; cases h; exact hr
    · cases h
  · cases h

theorem evalExpr_isIn (σ : Env) (e : Expr) (items : List Expr) (neg : Bool) :
    evalExpr σ (.isIn e items neg) =
      (do let x ← evalExpr σ e; let vs ← evalArgs σ items; isInVal x vs neg) := by
  rw [evalExpr]; rfl

/-! ### expressions -/

/-- the concrete environment binds every symbolically bound name to the denoted value -/
def Agree (env : SEnv) (cenv : Env) (w : Rat) : Prop :=
  ∀ x sv, env.get? x = some sv → cenv.get? x = some (sv.eval w)

mutual
theorem symExpr_ok {I : Ivl} {env : SEnv} {cenv : Env} {w : Rat} (hw : I.mem w)
    (hag : Agree env cenv w) :
    ∀ (e : Expr) (s : SVal), symExpr I env e = some s → evalExpr cenv e = .ok (s.eval w)
  | .const v, s, h => by
    simp only [symExpr, Option.some.injEq] at h
    subst h
    simp only [evalExpr, SVal.eval]
  | .name n, s, h => by
    simp only [symExpr] at h
    simp only [evalExpr, hag n s h]
  | .bin op a b, s, h => by
    simp only [symExpr] at h
    obtain ⟨x, hx, h1⟩ := obind_some h
    obtain ⟨y, hy, h2⟩ := obind_some h1
    simp only [evalExpr, symExpr_ok hw hag a x hx, symExpr_ok hw hag b y hy, ok_bind]
    exact symBin_sound w h2
  | .neg a, s, h => by
    simp only [symExpr] at h
    obtain ⟨x, hx, h1⟩ := obind_some h
    rw [evalExpr_neg, symExpr_ok hw hag a x hx, ok_bind]
    exact symNeg_sound w h1
  | .cmp first rest, s, h => by
    simp only [symExpr] at h
    obtain ⟨x, hx, h1⟩ := obind_some h
    simp only [evalExpr, symExpr_ok hw hag first x hx, ok_bind]
    exact symChainCmp_ok hw hag rest x s h1
  | .boolop isAnd args, s, h => by
    simp only [symExpr] at h
    simp only [evalExpr]
    exact symBool_ok hw hag isAnd args s h
  | .not a, s, h => by
    simp only [symExpr] at h
    obtain ⟨x, hx, h1⟩ := obind_some h
    obtain ⟨t, ht, h2⟩ := obind_some h1
    simp only [pure, Option.some.injEq] at h2
    subst h2
    simp only [evalExpr, symExpr_ok hw hag a x hx, ok_bind, symTruthy_sound ht hw, pure,
      Except.pure]
    rfl
  | .ifexp c a b, s, h => by
    simp only [symExpr] at h
    obtain ⟨t, ht, h1⟩ := obind_some h
    obtain ⟨tb, htb, h2⟩ := obind_some h1
    simp only [evalExpr, symExpr_ok hw hag c t ht, ok_bind, symTruthy_sound htb hw]
    cases tb
    · simp only [Bool.false_eq_true, if_false] at h2 ⊢
      exact symExpr_ok hw hag b s h2
    · simp only [if_true] at h2 ⊢
      exact symExpr_ok hw hag a s h2
  | .call f args, s, h => by
    simp only [symExpr] at h
    obtain ⟨vs, hvs, h1⟩ := obind_some h
    simp only [evalExpr, symArgs_ok hw hag args vs hvs, ok_bind]
    exact symCall_sound h1 hw
  | .mcall _ _, s, h => by simp [symExpr] at h
  | .sub e idx, s, h => by
    simp only [symExpr] at h
    obtain ⟨c, hc, h1⟩ := obind_some h
    obtain ⟨i, hi, h2⟩ := obind_some h1
    simp only [evalExpr, symExpr_ok hw hag e c hc, symExpr_ok hw hag idx i hi, ok_bind]
    exact symSub_sound w h2
  | .isIn e items neg, s, h => by
    simp only [symExpr] at h
    obtain ⟨x, hx, h1⟩ := obind_some h
    obtain ⟨vs, hvs, h2⟩ := obind_some h1
    rw [evalExpr_isIn, symExpr_ok hw hag e x hx, ok_bind, symArgs_ok hw hag items vs hvs, ok_bind]
    exact symIsIn_sound w h2
  | .opaque _, s, h => by simp [symExpr] at h
theorem symChainCmp_ok {I : Ivl} {env : SEnv} {cenv : Env} {w : Rat} (hw : I.mem w)
    (hag : Agree env cenv w) :
    ∀ (rest : List (CmpOp × Expr)) (left s : SVal), symChainCmp I env left rest = some s →
      evalChain cenv (left.eval w) rest = .ok (s.eval w)
  | [], left, s, h => by
    simp only [symChainCmp, Option.some.injEq] at h
    subst h
    simp only [evalChain, SVal.eval]
  | (op, e) :: rest, left, s, h => by
    simp only [symChainCmp] at h
    obtain ⟨r, hr, h1⟩ := obind_some h
    obtain ⟨ok, hok, h2⟩ := obind_some h1
    simp only [evalChain, symExpr_ok hw hag e r hr, ok_bind, symCmp_sound hok hw]
    cases ok
    · simp only [Bool.false_eq_true, if_false, pure, Option.some.injEq] at h2 ⊢
      subst h2
      rfl
    · simp only [if_true] at h2 ⊢
      exact symChainCmp_ok hw hag rest r s h2
theorem symBool_ok {I : Ivl} {env : SEnv} {cenv : Env} {w : Rat} (hw : I.mem w)
    (hag : Agree env cenv w) (isAnd : Bool) :
    ∀ (es : List Expr) (s : SVal), symBool I env isAnd es = some s →
      evalBool cenv isAnd es = .ok (s.eval w)
  | [], s, h => by
    simp only [symBool, Option.some.injEq] at h
    subst h
    simp only [evalBool, SVal.eval]
  | [e], s, h => by
    simp only [symBool] at h
    simp only [evalBool]
    exact symExpr_ok hw hag e s h
  | e :: e2 :: rest, s, h => by
    rw [symBool] at h
    · obtain ⟨v, hv, h1⟩ := obind_some h
      obtain ⟨t, ht, h2⟩ := obind_some h1
      rw [evalBool]
      · rw [symExpr_ok hw hag e v hv, ok_bind, symTruthy_sound ht hw]
        split
        · rename_i heq
          rw [if_pos heq] at h2
          exact symBool_ok hw hag isAnd (e2 :: rest) s h2
        · rename_i heq
          rw [if_neg heq] at h2
          simp only [pure, Option.some.injEq] at h2
          subst h2
          rfl
      · simp
    · simp
theorem symArgs_ok {I : Ivl} {env : SEnv} {cenv : Env} {w : Rat} (hw : I.mem w)
    (hag : Agree env cenv w) :
    ∀ (es : List Expr) (ss : List SVal), symArgs I env es = some ss →
      evalArgs cenv es = .ok (ss.map (fun s => s.eval w))
  | [], ss, h => by
    simp only [symArgs, Option.some.injEq] at h
    subst h
    simp only [evalArgs, List.map_nil]
  | e :: rest, ss, h => by
    simp only [symArgs] at h
    obtain ⟨v, hv, h1⟩ := obind_some h
    obtain ⟨vs, hvs, h2⟩ := obind_some h1
    simp only [pure, Option.some.injEq] at h2
    subst h2
    simp only [evalArgs, symExpr_ok hw hag e v hv, ok_bind, symArgs_ok hw hag rest vs hvs,
      List.map_cons, pure, Except.pure]
end

/-! ### environments, statements, functions -/

theorem SEnv.eval_get? (w : Rat) (n : String) : ∀ (env : SEnv),
    (env.eval w).get? n = (env.get? n).map (fun s => s.eval w)
  | [] => rfl
  | (k, s) :: rest => by
    simp only [SEnv.eval, Env.get?, SEnv.get?]
    split
    · rfl
    · exact SEnv.eval_get? w n rest

theorem SEnv.eval_set (w : Rat) (n : String) (v : SVal) : ∀ (env : SEnv),
    (env.set n v).eval w = (env.eval w).set n (v.eval w)
  | [] => rfl
  | (k, s) :: rest => by
    simp only [SEnv.eval, Env.set, SEnv.set]
    split
    · rfl
    · simp only [SEnv.eval, SEnv.eval_set w n v rest]

theorem agree_eval (env : SEnv) (w : Rat) : Agree env (env.eval w) w := by
  intro x sv h
  rw [SEnv.eval_get?, h]
  rfl

theorem zip_eval (w : Rat) : ∀ (ns : List String) (ss : List SVal),
    SEnv.eval (ns.zip ss) w = ns.zip (ss.map (fun s => s.eval w))
  | [], _ => rfl
  | _ :: _, [] => rfl
  | n :: ns, s :: ss => by
    simp only [List.zip_cons_cons, SEnv.eval, List.map_cons, zip_eval w ns ss]

mutual
theorem symStmt_ok {I : Ivl} {w : Rat} (hw : I.mem w) :
    ∀ (st : Stmt) (env env' : SEnv) (r : Option SVal), symStmt I env st = some (env', r) →
      execStmt (env.eval w) st = .ok (env'.eval w, r.map (fun s => s.eval w))
  | .assign x e, env, env', r, h => by
    simp only [symStmt] at h
    obtain ⟨v, hv, h1⟩ := obind_some h
    simp only [pure, Option.some.injEq, Prod.mk.injEq] at h1
    obtain ⟨rfl, rfl⟩ := h1
    simp only [execStmt, symExpr_ok hw (agree_eval env w) e v hv, ok_bind, SEnv.eval_set,
      pure, Except.pure, Option.map_none]
  | .aug x op e, env, env', r, h => by
    simp only [symStmt] at h
    obtain ⟨old, hold, h1⟩ := obind_some h
    obtain ⟨v, hv, h2⟩ := obind_some h1
    obtain ⟨res, hres, h3⟩ := obind_some h2
    simp only [pure, Option.some.injEq, Prod.mk.injEq] at h3
    obtain ⟨rfl, rfl⟩ := h3
    simp only [execStmt, SEnv.eval_get?, hold, Option.map_some, pure, Except.pure, ok_bind,
      symExpr_ok hw (agree_eval env w) e v hv, symBin_sound w hres, SEnv.eval_set,
      Option.map_none]
  | .ret e, env, env', r, h => by
    simp only [symStmt] at h
    obtain ⟨v, hv, h1⟩ := obind_some h
    simp only [pure, Option.some.injEq, Prod.mk.injEq] at h1
    obtain ⟨rfl, rfl⟩ := h1
    simp only [execStmt, symExpr_ok hw (agree_eval env w) e v hv, ok_bind, pure, Except.pure,
      Option.map_some]
  | .ite c body orelse, env, env', r, h => by
    simp only [symStmt] at h
    obtain ⟨t, ht, h1⟩ := obind_some h
    obtain ⟨tb, htb, h2⟩ := obind_some h1
    simp only [execStmt, symExpr_ok hw (agree_eval env w) c t ht, ok_bind,
      symTruthy_sound htb hw]
    cases tb
    · simp only [Bool.false_eq_true, if_false] at h2 ⊢
      exact symBlock_ok hw orelse env env' r h2
    · simp only [if_true] at h2 ⊢
      exact symBlock_ok hw body env env' r h2
  | .expr _, env, env', r, h => by
    simp only [symStmt, pure, Option.some.injEq, Prod.mk.injEq] at h
    obtain ⟨rfl, rfl⟩ := h
    simp only [execStmt, pure, Except.pure, Option.map_none]
  | .other _, env, env', r, h => by simp [symStmt] at h
theorem symBlock_ok {I : Ivl} {w : Rat} (hw : I.mem w) :
    ∀ (b : List Stmt) (env env' : SEnv) (r : Option SVal), symBlock I env b = some (env', r) →
      execBlock (env.eval w) b = .ok (env'.eval w, r.map (fun s => s.eval w))
  | [], env, env', r, h => by
    simp only [symBlock, Option.some.injEq, Prod.mk.injEq] at h
    obtain ⟨rfl, rfl⟩ := h
    simp only [execBlock, Option.map_none]
  | st :: rest, env, env', r, h => by
    simp only [symBlock] at h
    obtain ⟨⟨e1, r1⟩, h1, h2⟩ := obind_some h
    simp only [execBlock, symStmt_ok hw st env e1 r1 h1, ok_bind]
    cases r1 with
    | some v =>
      simp only [pure, Option.some.injEq, Prod.mk.injEq] at h2
      obtain ⟨rfl, rfl⟩ := h2
      simp only [Option.map_some, pure, Except.pure]
    | none =>
      simp only at h2
      simp only [Option.map_none]
      exact symBlock_ok hw rest e1 env' r h2
end

/-! the same for an arbitrary concrete environment that agrees with the symbolic one (it may
bind more names) -/

theorem SEnv.get?_set (n : String) (v : SVal) (x : String) : ∀ (env : SEnv),
    (env.set n v).get? x = if n = x then some v else env.get? x
  | [] => by simp only [SEnv.set, SEnv.get?]
  | (k, u) :: rest => by
    simp only [SEnv.set]
    by_cases hkn : k = n
    · subst hkn
      simp only [if_true, SEnv.get?]
      split <;> rfl
    · simp only [hkn, if_false, SEnv.get?, SEnv.get?_set n v x rest]
      by_cases hkx : k = x
      · subst hkx
        have : ¬ n = k := fun h => hkn h.symm
        simp only [if_true, this, if_false]
      · simp only [hkx, if_false]

theorem Env.get?_set (n : String) (v : Val) (x : String) : ∀ (env : Env),
    (env.set n v).get? x = if n = x then some v else env.get? x
  | [] => by simp only [Env.set, Env.get?]
  | (k, u) :: rest => by
    simp only [Env.set]
    by_cases hkn : k = n
    · subst hkn
      simp only [if_true, Env.get?]
      split <;> rfl
    · simp only [hkn, if_false, Env.get?, Env.get?_set n v x rest]
      by_cases hkx : k = x
      · subst hkx
        have : ¬ n = k := fun h => hkn h.symm
        simp only [if_true, this, if_false]
      · simp only [hkx, if_false]

theorem agree_set {env : SEnv} {cenv : Env} {w : Rat} (h : Agree env cenv w) (n : String)
    (v : SVal) : Agree (env.set n v) (cenv.set n (v.eval w)) w := by
  intro x sv hx
  rw [SEnv.get?_set] at hx
  rw [Env.get?_set]
  split
  · rename_i hn
    rw [if_pos hn] at hx
    cases hx; rfl
  · rename_i hn
    rw [if_neg hn] at hx
    exact h x sv hx

mutual
theorem symStmt_agree {I : Ivl} {w : Rat} (hw : I.mem w) :
    ∀ (st : Stmt) (env env' : SEnv) (r : Option SVal) (cenv : Env), Agree env cenv w →
      symStmt I env st = some (env', r) →
      ∃ cenv', execStmt cenv st = .ok (cenv', r.map (fun s => s.eval w)) ∧ Agree env' cenv' w
  | .assign x e, env, env', r, cenv, hag, h => by
    simp only [symStmt] at h
    obtain ⟨v, hv, h1⟩ := obind_some h
    simp only [pure, Option.some.injEq, Prod.mk.injEq] at h1
    obtain ⟨rfl, rfl⟩ := h1
    refine ⟨cenv.set x (v.eval w), ?_, agree_set hag x v⟩
    simp only [execStmt, symExpr_ok hw hag e v hv, ok_bind, pure, Except.pure, Option.map_none]
  | .aug x op e, env, env', r, cenv, hag, h => by
    simp only [symStmt] at h
    obtain ⟨old, hold, h1⟩ := obind_some h
    obtain ⟨v, hv, h2⟩ := obind_some h1
    obtain ⟨res, hres, h3⟩ := obind_some h2
    simp only [pure, Option.some.injEq, Prod.mk.injEq] at h3
    obtain ⟨rfl, rfl⟩ := h3
    refine ⟨cenv.set x (res.eval w), ?_, agree_set hag x res⟩
    simp only [execStmt, hag x old hold, pure, Except.pure, ok_bind,
      symExpr_ok hw hag e v hv, symBin_sound w hres, Option.map_none]
  | .ret e, env, env', r, cenv, hag, h => by
    simp only [symStmt] at h
    obtain ⟨v, hv, h1⟩ := obind_some h
    simp only [pure, Option.some.injEq, Prod.mk.injEq] at h1
    obtain ⟨rfl, rfl⟩ := h1
    refine ⟨cenv, ?_, hag⟩
    simp only [execStmt, symExpr_ok hw hag e v hv, ok_bind, pure, Except.pure, Option.map_some]
  | .ite c body orelse, env, env', r, cenv, hag, h => by
    simp only [symStmt] at h
    obtain ⟨t, ht, h1⟩ := obind_some h
    obtain ⟨tb, htb, h2⟩ := obind_some h1
    simp only [execStmt, symExpr_ok hw hag c t ht, ok_bind, symTruthy_sound htb hw]
    cases tb
    · simp only [Bool.false_eq_true, if_false] at h2 ⊢
      exact symBlock_agree hw orelse env env' r cenv hag h2
    · simp only [if_true] at h2 ⊢
      exact symBlock_agree hw body env env' r cenv hag h2
  | .expr _, env, env', r, cenv, hag, h => by
    simp only [symStmt, pure, Option.some.injEq, Prod.mk.injEq] at h
    obtain ⟨rfl, rfl⟩ := h
    exact ⟨cenv, by simp only [execStmt, pure, Except.pure, Option.map_none], hag⟩
  | .other _, env, env', r, cenv, hag, h => by simp [symStmt] at h
theorem symBlock_agree {I : Ivl} {w : Rat} (hw : I.mem w) :
    ∀ (b : List Stmt) (env env' : SEnv) (r : Option SVal) (cenv : Env), Agree env cenv w →
      symBlock I env b = some (env', r) →
      ∃ cenv', execBlock cenv b = .ok (cenv', r.map (fun s => s.eval w)) ∧ Agree env' cenv' w
  | [], env, env', r, cenv, hag, h => by
    simp only [symBlock, Option.some.injEq, Prod.mk.injEq] at h
    obtain ⟨rfl, rfl⟩ := h
    exact ⟨cenv, by simp only [execBlock, Option.map_none], hag⟩
  | st :: rest, env, env', r, cenv, hag, h => by
    simp only [symBlock] at h
    obtain ⟨⟨e1, r1⟩, h1, h2⟩ := obind_some h
    obtain ⟨c1, hc1, hag1⟩ := symStmt_agree hw st env e1 r1 cenv hag h1
    simp only [execBlock, hc1, ok_bind]
    cases r1 with
    | some v =>
      simp only [pure, Option.some.injEq, Prod.mk.injEq] at h2
      obtain ⟨rfl, rfl⟩ := h2
      exact ⟨c1, by simp only [Option.map_some, pure, Except.pure], hag1⟩
    | none =>
      simp only at h2
      simp only [Option.map_none]
      exact symBlock_agree hw rest e1 env' r c1 hag1 h2
end

theorem symFun_ok {I : Ivl} {w : Rat} {f : FunDef} {args : List SVal} {s : SVal}
    (h : symFun I f args = some s) (hw : I.mem w) :
    runFun f (args.map (fun s => s.eval w)) = .ok (s.eval w) := by
  unfold symFun at h
  split at h
  · cases h
  · rename_i hlen
    split at h
    · rename_i e r hb
      cases h
      have := symBlock_ok hw f.body _ _ _ hb
      rw [zip_eval] at this
      simp only [runFun, List.length_map, hlen, if_false, this, pure, Except.pure,
        bind, Except.bind]
      cases r <;> rfl
    · cases h

/-! ### chains -/

theorem slookupAll_ok (w : Rat) (env : SEnv) : ∀ (ns : List String) (ss : List SVal),
    slookupAll env ns = some ss → lookupAll (env.eval w) ns = .ok (ss.map (fun s => s.eval w))
  | [], ss, h => by
    simp only [slookupAll, Option.some.injEq] at h
    subst h; rfl
  | n :: rest, ss, h => by
    simp only [slookupAll] at h
    obtain ⟨v, hv, h1⟩ := obind_some h
    obtain ⟨vs, hvs, h2⟩ := obind_some h1
    simp only [pure, Option.some.injEq] at h2
    subst h2
    simp only [lookupAll, SEnv.eval_get?, hv, Option.map_some, ok_bind,
      slookupAll_ok w env rest vs hvs, List.map_cons, pure, Except.pure]

theorem symChain_ok {I : Ivl} {w : Rat} (hw : I.mem w) :
    ∀ (nodes : List ChainNode) (env env' : SEnv), symChain I env nodes = some env' →
      runChain (env.eval w) nodes = .ok (env'.eval w)
  | [], env, env', h => by
    simp only [symChain, Option.some.injEq] at h
    subst h; rfl
  | n :: rest, env, env', h => by
    simp only [symChain] at h
    obtain ⟨args, hargs, h1⟩ := obind_some h
    obtain ⟨r, hr, h2⟩ := obind_some h1
    simp only [runChain, slookupAll_ok w env _ _ hargs, ok_bind, symFun_ok hr hw]
    exact symChain_ok hw rest _ env' h2

theorem constEnv_eval (w : Rat) : ∀ (cs : List (String × Val)), (constEnv cs).eval w = cs
  | [] => rfl
  | (k, v) :: rest => by
    simp only [constEnv, SEnv.eval, SVal.eval, constEnv_eval w rest]

theorem Chain.symInputs_eval (C : Chain) (w : Rat) : C.symInputs.eval w = C.inputsAt w := by
  simp only [Chain.symInputs, Chain.inputsAt, SEnv.eval, SVal.eval, constEnv_eval, one_mul,
    add_zero]

/-! ### pieces and affine forms -/

theorem linOf_val {C : Chain} {I : Ivl} {env : SEnv} {t : String} {a b w : Rat}
    (hs : C.symPiece I = some env) (hl : linOf env t = some (a, b)) (hw : I.mem w) :
    C.valAt t w = some (a * w + b) := by
  have hrun := symChain_ok hw C.nodes _ _ hs
  rw [Chain.symInputs_eval] at hrun
  unfold linOf at hl
  split at hl
  · rename_i sv hget
    obtain ⟨fl, hn, _⟩ := lin?_num w hl
    simp only [Chain.valAt, Chain.run, hrun, SEnv.eval_get?, hget, Option.map_some, hn]
  · cases hl

theorem affinePiece_val {C : Chain} {I : Ivl} {t : String} {a b w : Rat}
    (h : affinePiece C t I = some (a, b)) (hw : I.mem w) : C.valAt t w = some (a * w + b) := by
  unfold affinePiece at h
  split at h
  · rename_i env hs
    exact linOf_val hs h hw
  · cases h

theorem piecesFrom_cover : ∀ (bs : List (Rat × Bool)) (lo : Rat) (c : Bool) (w : Rat),
    (if c then lo ≤ w else lo < w) → ∃ I ∈ piecesFrom lo c bs, I.mem w
  | [], lo, c, w, h => ⟨_, List.mem_singleton.mpr rfl, h, trivial⟩
  | (b, inLeft) :: rest, lo, c, w, h => by
    by_cases hin : (if inLeft then w ≤ b else w < b)
    · exact ⟨_, List.mem_cons_self, h, hin⟩
    · have h' : (if (!inLeft) then b ≤ w else b < w) := by
        cases inLeft
        · simp only [Bool.false_eq_true, if_false, not_lt] at hin
          simpa using hin
        · simp only [if_true, not_le] at hin
          simpa using hin
      obtain ⟨I, hI, hm⟩ := piecesFrom_cover rest b (!inLeft) w h'
      exact ⟨I, List.mem_cons_of_mem _ hI, hm⟩

theorem pieces_cover (start : Rat) (bs : List (Rat × Bool)) (w : Rat) (h : start ≤ w) :
    ∃ I ∈ pieces start bs, I.mem w :=
  piecesFrom_cover bs start true w (by simpa using h)

/-- `pcs` describes `f` on `[start, ∞)`: the pieces cover it and `f` is the stated affine
function on every piece -/
structure Describes (pcs : Pieces) (start : Rat) (f : Rat → Option Rat) : Prop where
  cover : ∀ w, start ≤ w → ∃ p ∈ pcs, p.1.mem w
  val : ∀ p ∈ pcs, ∀ w, p.1.mem w → f w = some (p.2.1 * w + p.2.2)

theorem affineOnL_spec {C : Chain} {t : String} : ∀ (Is : List Ivl) (pcs : Pieces),
    affineOnL C t Is = some pcs →
      (∀ I ∈ Is, ∃ a b, (I, a, b) ∈ pcs) ∧
      (∀ p ∈ pcs, ∀ w, p.1.mem w → C.valAt t w = some (p.2.1 * w + p.2.2)) ∧
      pcs.map (·.1) = Is
  | [], pcs, h => by
    simp only [affineOnL, Option.some.injEq] at h
    subst h
    exact ⟨by simp, by simp, rfl⟩
  | I :: rest, pcs, h => by
    simp only [affineOnL] at h
    split at h
    · rename_i a b ps hp hps
      cases h
      obtain ⟨h1, h2, h3⟩ := affineOnL_spec rest ps hps
      refine ⟨?_, ?_, ?_⟩
      · intro J hJ
        rcases List.mem_cons.mp hJ with rfl | hJ
        · exact ⟨a, b, List.mem_cons_self⟩
        · obtain ⟨a', b', h'⟩ := h1 J hJ
          exact ⟨a', b', List.mem_cons_of_mem _ h'⟩
      · intro p hp' w hw
        rcases List.mem_cons.mp hp' with rfl | hp'
        · exact affinePiece_val hp hw
        · exact h2 p hp' w hw
      · simp only [List.map_cons, h3]
    · cases h

theorem affineOn_describes {C : Chain} {t : String} {start : Rat} {bs : List (Rat × Bool)}
    {pcs : Pieces} (h : affineOn C t start bs = some pcs) : Describes pcs start (C.valAt t) := by
  obtain ⟨h1, h2, _⟩ := affineOnL_spec _ _ h
  refine ⟨?_, h2⟩
  intro w hw
  obtain ⟨I, hI, hm⟩ := pieces_cover start bs w hw
  obtain ⟨a, b, hp⟩ := h1 I hI
  exact ⟨_, hp, hm⟩

/-! ### generic shape lemmas -/

theorem nonneg_generic {pcs : Pieces} {start : Rat} {f : Rat → Option Rat}
    (hd : Describes pcs start f) (hc : nonnegChk pcs = true) :
    ∀ w, start ≤ w → ∃ q, f w = some q ∧ 0 ≤ q := by
  intro w hw
  obtain ⟨p, hp, hm⟩ := hd.cover w hw
  refine ⟨_, hd.val p hp w hm, ?_⟩
  have := List.all_eq_true.mp hc p hp
  exact allGe0_sound this hm

theorem mem_clipHi {I : Ivl} {g w : Rat} {incl : Bool} (hm : I.mem w)
    (hg : if incl then w ≤ g else w < g) : (I.clipHi g incl).mem w := by
  unfold Ivl.clipHi
  split
  · exact ⟨hm.1, hg⟩
  · split
    · exact ⟨hm.1, hg⟩
    · exact hm

theorem aboveOf_absurd {I : Ivl} {g w : Rat} {incl : Bool} (ha : I.aboveOf g incl = true)
    (hm : I.mem w) (hg : if incl then w ≤ g else w < g) : False := by
  unfold Ivl.aboveOf at ha
  have hlo := Ivl.mem_lo hm
  split at ha
  · rename_i hc
    simp only [Bool.and_eq_true] at hc
    rw [hc.1] at hg
    have ha := of_decide_eq_true ha
    simp only [if_true] at hg
    linarith
  · rename_i hc
    have ha := of_decide_eq_true ha
    cases incl
    · simp only [Bool.false_eq_true, if_false] at hg
      linarith
    · simp only [Bool.true_and, Bool.not_eq_true] at hc
      have := Ivl.mem_lo_strict hm hc
      simp only [if_true] at hg
      linarith

theorem zeroBelow_generic {pcs : Pieces} {start g : Rat} {incl : Bool} {f : Rat → Option Rat}
    (hd : Describes pcs start f) (hc : zeroBelowChk g incl pcs = true) :
    ∀ w, start ≤ w → (if incl then w ≤ g else w < g) → f w = some 0 := by
  intro w hw hg
  obtain ⟨p, hp, hm⟩ := hd.cover w hw
  rw [hd.val p hp w hm]
  have := List.all_eq_true.mp hc p hp
  rw [Bool.or_eq_true] at this
  rcases this with h | h
  · exact absurd (aboveOf_absurd h hm hg) id
  · rw [allEq0_sound h (mem_clipHi hm hg)]

theorem mem_clipLo {I : Ivl} {c w : Rat} {incl : Bool} (hm : I.mem w)
    (hc : if incl then c ≤ w else c < w) : (I.clipLo c incl).mem w := by
  unfold Ivl.clipLo
  split
  · exact ⟨hc, hm.2⟩
  · exact hm

theorem belowOf_absurd {I : Ivl} {c w : Rat} {incl : Bool} (hb : I.belowOf c incl = true)
    (hm : I.mem w) (hc : if incl then c ≤ w else c < w) : False := by
  unfold Ivl.belowOf at hb
  split at hb
  · cases hb
  · rename_i h' hh
    have hhi := Ivl.mem_hi hm hh
    split at hb
    · rename_i hcl
      simp only [Bool.and_eq_true] at hcl
      rw [hcl.1] at hc
      have hb := of_decide_eq_true hb
      simp only [if_true] at hc
      linarith
    · rename_i hcl
      have hb := of_decide_eq_true hb
      cases incl
      · simp only [Bool.false_eq_true, if_false] at hc
        linarith
      · simp only [Bool.true_and, Bool.not_eq_true] at hcl
        have := Ivl.mem_hi_strict hm hh hcl
        simp only [if_true] at hc
        linarith

theorem constAbove_generic {pcs : Pieces} {start c K : Rat} {incl : Bool}
    {f : Rat → Option Rat} (hd : Describes pcs start f)
    (hc : constAboveChk c incl K pcs = true) :
    ∀ w, start ≤ w → (if incl then c ≤ w else c < w) → f w = some K := by
  intro w hw hg
  obtain ⟨p, hp, hm⟩ := hd.cover w hw
  rw [hd.val p hp w hm]
  have := List.all_eq_true.mp hc p hp
  rw [Bool.or_eq_true] at this
  rcases this with h | h
  · exact absurd (belowOf_absurd h hm hg) id
  · have := allEq0_sound h (mem_clipLo hm hg)
    congr 1
    linarith

/-! ### monotonicity -/

theorem mono_piece {I : Ivl} {a b x y : Rat} (hs : slopeOK I a = true) (hx : I.lo ≤ x)
    (hxy : x ≤ y) (hy : ∀ h, I.hi = some h → y ≤ h) : a * x + b ≤ a * y + b := by
  unfold slopeOK at hs
  rw [Bool.or_eq_true] at hs
  rcases hs with hs | hs
  · have hs := of_decide_eq_true hs
    nlinarith [mul_le_mul_of_nonneg_left hxy hs]
  · have hs := of_decide_eq_true hs
    have := hy _ hs
    have : x = y := le_antisymm hxy (by linarith)
    rw [this]

theorem nondecFrom_slope : ∀ {rest : Pieces} {I : Ivl} {a b : Rat},
    nondecFrom I a b rest = true → slopeOK I a = true
  | [], _, _, _, h => h
  | (J, c, d) :: rest, I, a, b, h => by
    simp only [nondecFrom, Bool.and_eq_true] at h
    exact h.1.1.1.1

/-- everything to the right of the head piece lies above the head's value at its left end -/
theorem nondecFrom_head : ∀ (rest : Pieces) (I : Ivl) (a b : Rat),
    nondecFrom I a b rest = true → ∀ p ∈ (I, a, b) :: rest, ∀ y, p.1.mem y →
      a * I.lo + b ≤ p.2.1 * y + p.2.2 ∧ I.lo ≤ y
  | [], I, a, b, h, p, hp, y, hy => by
    rw [List.mem_singleton] at hp
    subst hp
    exact ⟨mono_piece h (le_refl _) (Ivl.mem_lo hy) (fun _ hh => Ivl.mem_hi hy hh),
      Ivl.mem_lo hy⟩
  | (J, c, d) :: rest, I, a, b, h, p, hp, y, hy => by
    have hs := nondecFrom_slope h
    simp only [nondecFrom, Bool.and_eq_true, decide_eq_true_eq] at h
    obtain ⟨⟨⟨⟨_, hadj⟩, hle⟩, hj⟩, hrest⟩ := h
    rcases List.mem_cons.mp hp with rfl | hp
    · exact ⟨mono_piece hs (le_refl _) (Ivl.mem_lo hy) (fun _ hh => Ivl.mem_hi hy hh),
        Ivl.mem_lo hy⟩
    · obtain ⟨h1, h2⟩ := nondecFrom_head rest J c d hrest p hp y hy
      have h3 : a * I.lo + b ≤ a * J.lo + b :=
        mono_piece hs (le_refl _) hle (fun h' hh => by
          rw [hadj] at hh; cases hh; exact le_refl _)
      exact ⟨by linarith, by linarith⟩

theorem nondecFrom_mono {f : Rat → Option Rat} : ∀ (rest : Pieces) (I : Ivl) (a b : Rat),
    nondecFrom I a b rest = true →
    (∀ p ∈ (I, a, b) :: rest, ∀ w, p.1.mem w → f w = some (p.2.1 * w + p.2.2)) →
    ∀ x y, x ≤ y → (∃ p ∈ (I, a, b) :: rest, p.1.mem x) → (∃ p ∈ (I, a, b) :: rest, p.1.mem y) →
      ∃ qx qy, f x = some qx ∧ f y = some qy ∧ qx ≤ qy
  | [], I, a, b, h, hv, x, y, hxy, ⟨px, hpx, hmx⟩, ⟨py, hpy, hmy⟩ => by
    rw [List.mem_singleton] at hpx hpy
    subst hpx; subst hpy
    exact ⟨_, _, hv _ List.mem_cons_self x hmx, hv _ List.mem_cons_self y hmy,
      mono_piece h (Ivl.mem_lo hmx) hxy (fun _ hh => Ivl.mem_hi hmy hh)⟩
  | (J, c, d) :: rest, I, a, b, h, hv, x, y, hxy, ⟨px, hpx, hmx⟩, ⟨py, hpy, hmy⟩ => by
    have hs := nondecFrom_slope h
    have h' := h
    simp only [nondecFrom, Bool.and_eq_true, decide_eq_true_eq] at h'
    obtain ⟨⟨⟨⟨_, hadj⟩, hle⟩, hj⟩, hrest⟩ := h'
    rcases List.mem_cons.mp hpx with rfl | hpx
    · rcases List.mem_cons.mp hpy with rfl | hpy
      · exact ⟨_, _, hv _ List.mem_cons_self x hmx, hv _ List.mem_cons_self y hmy,
          mono_piece hs (Ivl.mem_lo hmx) hxy (fun _ hh => Ivl.mem_hi hmy hh)⟩
      · refine ⟨_, _, hv _ List.mem_cons_self x hmx, hv _ (List.mem_cons_of_mem _ hpy) y hmy, ?_⟩
        have hxJ : x ≤ J.lo := Ivl.mem_hi hmx hadj
        have h1 : a * x + b ≤ a * J.lo + b :=
          mono_piece hs (Ivl.mem_lo hmx) hxJ (fun h' hh => by
            rw [hadj] at hh; cases hh; exact le_refl _)
        have h2 := (nondecFrom_head rest J c d hrest py hpy y hmy).1
        show a * x + b ≤ _
        linarith
    · rcases List.mem_cons.mp hpy with rfl | hpy
      · -- `x` in a later piece, `y` in the head piece: then `x = y`
        have hJx := (nondecFrom_head rest J c d hrest px hpx x hmx).2
        have hyJ : y ≤ J.lo := Ivl.mem_hi hmy hadj
        have hxy' : x = y := le_antisymm hxy (by linarith)
        subst hxy'
        exact ⟨_, _, hv _ List.mem_cons_self x hmy, hv _ List.mem_cons_self x hmy, le_refl _⟩
      · exact nondecFrom_mono rest J c d hrest
          (fun p hp w hw => hv p (List.mem_cons_of_mem _ hp) w hw) x y hxy
          ⟨px, hpx, hmx⟩ ⟨py, hpy, hmy⟩

theorem nondec_generic {pcs : Pieces} {start : Rat} {f : Rat → Option Rat}
    (hd : Describes pcs start f) (hc : nondecChk pcs = true) :
    ∀ x y, start ≤ x → x ≤ y → ∃ qx qy, f x = some qx ∧ f y = some qy ∧ qx ≤ qy := by
  intro x y hx hxy
  cases pcs with
  | nil =>
    obtain ⟨p, hp, _⟩ := hd.cover x hx
    cases hp
  | cons p rest =>
    obtain ⟨I, a, b⟩ := p
    exact nondecFrom_mono rest I a b hc hd.val x y hxy (hd.cover x hx)
      (hd.cover y (le_trans hx hxy))

/-! ### continuity -/

theorem gap_exists (m : Rat) : ∀ (pcs : Pieces), ∃ δ : Rat, 0 < δ ∧
    ∀ p ∈ pcs, p.1.touches m = false → ∀ w, p.1.mem w → δ ≤ |w - m|
  | [] => ⟨1, one_pos, by simp⟩
  | p :: rest => by
    obtain ⟨δ, hδ, hr⟩ := gap_exists m rest
    by_cases ht : p.1.touches m = true
    · refine ⟨δ, hδ, ?_⟩
      intro q hq hqt w hw
      rcases List.mem_cons.mp hq with rfl | hq
      · rw [ht] at hqt; cases hqt
      · exact hr q hq hqt w hw
    · have ht' : p.1.touches m = false := by simpa using ht
      -- distance of `m` to the piece `p`
      have hdist : ∃ d : Rat, 0 < d ∧ ∀ w, p.1.mem w → d ≤ |w - m| := by
        unfold Ivl.touches at ht'
        rw [Bool.and_eq_false_iff] at ht'
        rcases ht' with h1 | h1
        · have h1 : m < p.1.lo := by simpa using h1
          refine ⟨p.1.lo - m, by linarith, ?_⟩
          intro w hw
          have := Ivl.mem_lo hw
          exact le_trans (by linarith) (le_abs_self _)
        · split at h1
          · cases h1
          · rename_i h' hh
            have h1 : h' < m := by simpa using h1
            refine ⟨m - h', by linarith, ?_⟩
            intro w hw
            have := Ivl.mem_hi hw hh
            exact le_trans (by linarith) (neg_le_abs _)
      obtain ⟨d, hd, hdw⟩ := hdist
      refine ⟨min δ d, lt_min hδ hd, ?_⟩
      intro q hq hqt w hw
      rcases List.mem_cons.mp hq with rfl | hq
      · exact le_trans (min_le_right _ _) (hdw w hw)
      · exact le_trans (min_le_left _ _) (hr q hq hqt w hw)

theorem lip_exists : ∀ (pcs : Pieces), ∃ K : Rat, 0 ≤ K ∧ ∀ p ∈ pcs, |p.2.1| ≤ K
  | [] => ⟨0, le_refl _, by simp⟩
  | p :: rest => by
    obtain ⟨K, hK, hr⟩ := lip_exists rest
    refine ⟨max K |p.2.1|, le_trans hK (le_max_left _ _), ?_⟩
    intro q hq
    rcases List.mem_cons.mp hq with rfl | hq
    · exact le_max_right _ _
    · exact le_trans (hr q hq) (le_max_left _ _)

theorem valueAt?_spec {m V : Rat} : ∀ {pcs : Pieces}, valueAt? m pcs = some V →
    ∃ p ∈ pcs, p.1.mem m ∧ V = p.2.1 * m + p.2.2
  | [], h => by simp [valueAt?] at h
  | (I, a, b) :: rest, h => by
    simp only [valueAt?] at h
    split at h
    · rename_i hm
      cases h
      exact ⟨_, List.mem_cons_self, Ivl.memB_iff.mp hm, rfl⟩
    · obtain ⟨p, hp, h1, h2⟩ := valueAt?_spec h
      exact ⟨p, List.mem_cons_of_mem _ hp, h1, h2⟩

/-- local Lipschitz bound around `m` (hence continuity at `m` relative to `[start, ∞)`) -/
theorem cont_generic {pcs : Pieces} {start m V : Rat} {f : Rat → Option Rat}
    (hd : Describes pcs start f) (hc : contChk m V pcs = true) :
    ∃ δ : Rat, 0 < δ ∧ ∃ K : Rat, 0 ≤ K ∧
      ∀ w, start ≤ w → |w - m| < δ → ∃ q, f w = some q ∧ |q - V| ≤ K * |w - m| := by
  obtain ⟨δ, hδ, hgap⟩ := gap_exists m pcs
  obtain ⟨K, hK, hlip⟩ := lip_exists pcs
  refine ⟨δ, hδ, K, hK, ?_⟩
  intro w hw hlt
  obtain ⟨p, hp, hm⟩ := hd.cover w hw
  refine ⟨_, hd.val p hp w hm, ?_⟩
  have ht : p.1.touches m = true := by
    by_contra hne
    have : p.1.touches m = false := by simpa using hne
    have := hgap p hp this w hm
    linarith
  have := List.all_eq_true.mp hc p hp
  rw [ht] at this
  simp only [Bool.not_true, Bool.false_or, decide_eq_true_eq] at this
  have heq : p.2.1 * w + p.2.2 - V = p.2.1 * (w - m) := by rw [← this]; ring
  rw [heq, abs_mul]
  exact mul_le_mul_of_nonneg_right (hlip p hp) (abs_nonneg _)

theorem cont_eps_delta {start m V : Rat} {f : Rat → Option Rat}
    (h : ∃ δ : Rat, 0 < δ ∧ ∃ K : Rat, 0 ≤ K ∧
      ∀ w, start ≤ w → |w - m| < δ → ∃ q, f w = some q ∧ |q - V| ≤ K * |w - m|) :
    ∀ ε : Rat, 0 < ε → ∃ δ : Rat, 0 < δ ∧
      ∀ w, start ≤ w → |w - m| < δ → ∃ q, f w = some q ∧ |q - V| < ε := by
  obtain ⟨δ, hδ, K, hK, hl⟩ := h
  intro ε hε
  have hK1 : 0 < K + 1 := by linarith
  refine ⟨min δ (ε / (K + 1)), lt_min hδ (div_pos hε hK1), ?_⟩
  intro w hw hlt
  obtain ⟨q, hq, hb⟩ := hl w hw (lt_of_lt_of_le hlt (min_le_left _ _))
  refine ⟨q, hq, ?_⟩
  have h1 : |w - m| < ε / (K + 1) := lt_of_lt_of_le hlt (min_le_right _ _)
  have h2 : |w - m| * (K + 1) < ε := (lt_div_iff₀ hK1).mp h1
  have h3 : 0 ≤ |w - m| := abs_nonneg _
  nlinarith

/-! ### sum identity -/

theorem sumEqL_generic {C : Chain} {t1 t2 t3 : String} {Is : List Ivl}
    (hc : sumEqChkL C t1 t2 t3 Is = true) {I : Ivl} (hI : I ∈ Is) {w : Rat} (hw : I.mem w) :
    ∃ q1 q2 q3, C.valAt t1 w = some q1 ∧ C.valAt t2 w = some q2 ∧ C.valAt t3 w = some q3 ∧
      q1 + q2 = q3 := by
  have := List.all_eq_true.mp hc I hI
  split at this
  · rename_i env hs
    split at this
    · rename_i a1 b1 a2 b2 a3 b3 h1 h2 h3
      refine ⟨_, _, _, linOf_val hs h1 hw, linOf_val hs h2 hw, linOf_val hs h3 hw, ?_⟩
      have := allEq0_sound this hw
      linarith
    · cases this
  · cases this

end GV.Sym
