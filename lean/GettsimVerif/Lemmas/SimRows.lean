import GettsimVerif.Lemmas.SimTargets
import GettsimVerif.Lemmas.Groupings
/-
Helper lemmas for `simulate_rows` (`Props/C04Sim.lean`): every node of the concrete DAG evaluates
to a scalar or to a column with one entry per data row.
-/
namespace GV.Agg

theorem grouped_length {α : Type} {f : α → α → α} {dflt : α} {col : List α} {gid : List Int}
    {r : List α} (h : grouped f dflt col gid = .ok r) : r.length = gid.length := by
  unfold grouped at h
  obtain ⟨_, _, h⟩ := GV.Simulate.bind_ok h
  simp only [pure, Except.pure, Except.ok.injEq] at h
  subst h
  simp [gather]

theorem groupedMean_length {col : List Rat} {gid : List Int} {r : List Rat}
    (h : groupedMean col gid = .ok r) : r.length = gid.length := by
  unfold groupedMean at h
  obtain ⟨s, hs, h⟩ := GV.Simulate.bind_ok h
  obtain ⟨c, hc, h⟩ := GV.Simulate.bind_ok h
  simp only [pure, Except.pure, Except.ok.injEq] at h
  subst h
  have h1 := grouped_length hs
  have h2 := grouped_length hc
  simp [h1, h2]

theorem addAt_length' (out : List Rat) (k : Nat) (v : Rat) : (addAt out k v).length = out.length := by
  simp [addAt]

theorem sumByPidLoop_length (pos : List (Int × Nat)) :
    ∀ (ptr : List Int) (col out r : List Rat), sumByPidLoop pos ptr col out = .ok r →
      r.length = out.length := by
  intro ptr
  induction ptr with
  | nil => intro col out r h; simp only [sumByPidLoop, Except.ok.injEq] at h; rw [← h]
  | cons p ptr ih =>
    intro col out r h
    cases col with
    | nil => simp only [sumByPidLoop, Except.ok.injEq] at h; rw [← h]
    | cons v vs =>
      rw [sumByPidLoop] at h
      split at h
      · split at h
        · cases h
        · rw [ih _ _ _ h, addAt_length']
      · exact ih _ _ _ h

theorem sumByPid_length {col : List Rat} {ptr pid : List Int} {r : List Rat}
    (h : sumByPid col ptr pid = .ok r) : r.length = pid.length := by
  unfold sumByPid at h
  split at h
  · cases h
  · rw [sumByPidLoop_length _ _ _ _ _ h]; simp

end GV.Agg

namespace GV.Groupings

theorem snStep_res_length {s s' : SnState} {row : Int × Int × Bool} (h : snStep s row = .ok s') :
    s'.res.length = s.res.length + 1 := by
  obtain ⟨p, q, b⟩ := row
  simp only [snStep] at h
  repeat' split at h
  all_goals first | (cases h; simp) | cases h

theorem snFold_res_length : ∀ (rows : List (Int × Int × Bool)) (s s' : SnState),
    rows.foldlM snStep s = .ok s' → s'.res.length = s.res.length + rows.length := by
  intro rows
  induction rows with
  | nil => intro s s' h; simp only [List.foldlM_nil, pure, Except.pure, Except.ok.injEq] at h; subst h; simp
  | cons r rows ih =>
    intro s s' h
    rw [List.foldlM_cons] at h
    obtain ⟨s1, h1, h⟩ := GV.Simulate.bind_ok h
    rw [ih _ _ h, snStep_res_length h1]
    simp only [List.length_cons]
    omega

theorem snId_length {pid partner : List Int} {gv : List Bool} {r : List Int}
    (h : snId pid partner gv = .ok r) :
    r.length = min pid.length (min partner.length gv.length) := by
  unfold snId at h
  obtain ⟨s, hs, h⟩ := GV.Simulate.bind_ok h
  simp only [pure, Except.pure, Except.ok.injEq] at h
  subst h
  have := snFold_res_length _ _ _ hs
  simp at this
  simp [this]

theorem fgId_length {rep : Bool} {ps : List Person} {r : List Int} (h : fgId rep ps = .ok r) :
    r.length = ps.length := by
  unfold fgId at h
  obtain ⟨s, hs, h⟩ := GV.Simulate.bind_ok h
  exact GV.Simulate.mapM_length h

end GV.Groupings

namespace GV.Dag

variable {α : Type}

theorem evalAll_mem {ev : Name → Except Err α} {ds : List Name} {vs : List α}
    (h : evalAll ev ds = .ok vs) : ∀ a ∈ vs, ∃ d ∈ ds, ev d = .ok a := by
  rw [evalAll_ok_iff] at h
  induction h with
  | nil => intro a ha; cases ha
  | cons hab _ ih =>
    intro a ha
    rcases List.mem_cons.1 ha with rfl | ha
    · exact ⟨_, List.mem_cons_self, hab⟩
    · obtain ⟨d, hd, hda⟩ := ih a ha
      exact ⟨d, List.mem_cons_of_mem _ hd, hda⟩

/-- an invariant of the data columns that every operation preserves holds for every computed value -/
theorem eval_invariant (S : Sys α) (D : Data α) (P : α → Prop)
    (hD : ∀ x c, find? D x = some c → P c)
    (hS : ∀ x nd, find? S x = some nd → ∀ args c, (∀ a ∈ args, P a) → nd.op args = .ok c → P c) :
    ∀ (k : Nat) (t : Name) (v : α), eval S D k t = .ok v → P v := by
  intro k
  induction k with
  | zero => intro t v h; simp [eval] at h
  | succ k ih =>
    intro t v h
    cases hDt : find? D t with
    | some c => rw [eval_succ_of_data hDt] at h; cases h; exact hD t _ hDt
    | none =>
      cases hSt : find? S t with
      | none => rw [eval_succ_of_missing hDt hSt] at h; cases h
      | some nd =>
        rw [eval_succ_of_node hDt hSt] at h
        cases hargs : evalAll (eval S D k) nd.deps with
        | error e => rw [hargs] at h; cases h
        | ok args =>
          rw [hargs] at h
          refine hS t nd hSt args v ?_ h
          intro a ha
          obtain ⟨d, _, hda⟩ := evalAll_mem hargs a ha
          exact ih d a hda

end GV.Dag

namespace GV.Simulate
open GV.Lang (Val FunDef)
open GV.VecDtype (R DT numOf)

/-- a value is a scalar or has exactly `n` entries -/
def Good (n : Nat) (c : Col) : Prop := c.shape = .arr → c.vals.length = n

/-- the number of rows of the input: the length of the first data column -/
def nRowsOf (inp : Input) : Nat := (inp.data.head?.map (·.2.length)).getD 0

theorem scalar_false_iff (c : Col) : c.scalar = false ↔ c.shape = .arr := by
  unfold Col.scalar
  cases c.shape <;> decide

theorem Good.len {n : Nat} {c : Col} (h : Good n c) (hs : c.scalar = false) : c.vals.length = n :=
  h ((scalar_false_iff c).1 hs)

theorem Col.ints_length (c : Col) : c.ints.length = c.vals.length := by simp [Col.ints]
theorem Col.rats_length (c : Col) : c.rats.length = c.vals.length := by simp [Col.rats]
theorem Col.bools_length (c : Col) : c.bools.length = c.vals.length := by simp [Col.bools]

theorem groupAggOp_good {n : Nat} {a : Aggr} {args : List Col} {c : Col}
    (hargs : ∀ x ∈ args, Good n x) (h : groupAggOp a args = .ok c) : Good n c := by
  unfold groupAggOp at h
  split at h
  · rename_i gid
    have hg := hargs gid (by simp)
    repeat' split at h
    all_goals try (cases h)
    rename_i hsc
    obtain ⟨r, hr, h⟩ := bind_ok h
    simp only [pure, Except.pure, Except.ok.injEq] at h
    subst h
    intro _
    simp only [List.length_map]
    unfold Agg.groupedCount at hr
    rw [Agg.grouped_length hr, Col.ints_length]
    exact hg.len (by simpa using hsc)
  · rename_i col gid
    have hg := hargs gid (by simp)
    simp only at h
    repeat' split at h
    all_goals try (cases h)
    all_goals
      have hsc : gid.scalar = false := by simpa using ‹¬ gid.scalar = true›
      have hlen : gid.vals.length = n := hg.len hsc
      obtain ⟨r, hr, h⟩ := bind_ok h
      simp only [pure, Except.pure, Except.ok.injEq] at h
      subst h
      intro _
      simp only [List.length_map]
    all_goals
      first
      | (rw [Agg.groupedMean_length hr, Col.ints_length]; exact hlen)
      | (rw [Agg.grouped_length hr, Col.ints_length]; exact hlen)
  · cases h

theorem timeConvOp_good {n : Nat} {u v : TimeConv.TUnit} {args : List Col} {c : Col}
    (hargs : ∀ a ∈ args, Good n a) (h : timeConvOp u v args = .ok c) : Good n c := by
  unfold timeConvOp at h
  split at h
  · rename_i c0
    have h0 := hargs c0 (by simp)
    intro hshape
    simp only at h
    split at h <;>
    · simp only [Except.ok.injEq] at h
      subst h
      simp only at hshape ⊢
      rw [List.length_map]
      apply h0
      split at hshape
      · cases hshape
      · exact hshape
  · cases h

theorem pidSumOp_good {n : Nat} {args : List Col} {c : Col}
    (hargs : ∀ x ∈ args, Good n x) (h : pidSumOp args = .ok c) : Good n c := by
  unfold pidSumOp at h
  split at h
  · rename_i col ptr pid
    have hp := hargs pid (by simp)
    simp only at h
    repeat' split at h
    all_goals try (cases h; done)
    all_goals
      have hsc : pid.scalar = false := by
        have := ‹¬ (ptr.scalar || pid.scalar) = true›
        simp at this
        exact this.2
      have hlen : pid.vals.length = n := hp.len hsc
    all_goals
      first
      | (obtain ⟨r, hr, h⟩ := bind_ok h
         simp only [pure, Except.pure, Except.ok.injEq] at h
         subst h
         intro _
         simp only [List.length_map]
         rw [Agg.sumByPid_length hr, Col.ints_length]
         exact hlen)
      | (simp only [Except.ok.injEq] at h
         subst h
         intro _
         simpa using hlen)
  · cases h

theorem groupingOp_good {n : Nat} {g : Grouping} {args : List Col} {c : Col}
    (hargs : ∀ x ∈ args, Good n x) (h : groupingOp g args = .ok c) : Good n c := by
  unfold groupingOp at h
  split at h
  · cases h
  · rename_i c0 rest
    split at h
    · cases h
    · rename_i hc0
      have hl0 : c0.vals.length = n := (hargs c0 (by simp)).len (by simpa using hc0)
      split at h
      · split at h
        · rename_i hemp
          simp only [Except.ok.injEq] at h
          subst h
          intro _
          simp only [List.isEmpty_iff] at hemp
          rw [← hl0, hemp]
        · repeat' split at h
          all_goals cases h
      · rename_i hrest
        have hlr : ∀ x ∈ rest, x.vals.length = n := by
          intro x hx
          refine (hargs x (List.mem_cons_of_mem _ hx)).len ?_
          simp only [List.any_eq_true, not_exists, not_and] at hrest
          simpa using hrest x hx
        split at h
        · cases h
        · simp only at h
          split at h
          all_goals try (cases h; done)
          all_goals
            rename_i heq
            cases heq
            simp only [List.mem_cons, List.not_mem_nil, or_false, forall_eq_or_imp, forall_eq] at hlr
          · simp only [Except.ok.injEq] at h
            subst h
            intro _
            simp only [List.length_map, Groupings.wthhId_length', Col.ints_length, Col.bools_length]
            omega
          · simp only [Except.ok.injEq] at h
            subst h
            intro _
            simp only [List.length_map, Groupings.bgId_length', Col.ints_length, Col.bools_length]
            omega
          · simp only [Except.ok.injEq] at h
            subst h
            intro _
            simp only [List.length_map, Groupings.pairId_length', Col.ints_length]
            omega
          · simp only [Except.ok.injEq] at h
            subst h
            intro _
            simp only [List.length_map, Groupings.pairId_length', Col.ints_length]
            omega
          · obtain ⟨r, hr, h⟩ := bind_ok h
            simp only [pure, Except.pure, Except.ok.injEq] at h
            subst h
            intro _
            simp only [List.length_map, Groupings.snId_length hr, Col.ints_length, Col.bools_length]
            omega
          · obtain ⟨r, hr, h⟩ := bind_ok h
            simp only [pure, Except.pure, Except.ok.injEq] at h
            subst h
            intro _
            simp only [List.length_map, Groupings.fgId_length hr, List.length_zip, Col.ints_length]
            omega

theorem broadcastLen_some {n m : Nat} {cols : List Col} (hargs : ∀ x ∈ cols, Good n x)
    (h : broadcastLen cols = .ok (some m)) : m = n := by
  unfold broadcastLen at h
  split at h
  · cases h
  · rename_i c rest heq
    split at h
    · simp only [Except.ok.injEq, Option.some.injEq] at h
      have hc : c ∈ cols.filter (!·.scalar) := by rw [heq]; exact List.mem_cons_self
      rw [List.mem_filter] at hc
      rw [← h]
      exact (hargs c hc.1).len (by simpa using hc.2)
    · cases h

theorem vectorize_length {d : Option DT} {rs vals : List R} {dt : DT}
    (h : VecDtype.vectorize d rs = some (dt, vals)) : vals.length = rs.length := by
  unfold VecDtype.vectorize at h
  split at h
  · simp only [VecDtype.vecDeclared, Option.some.injEq, Prod.mk.injEq] at h
    rw [← h.2]; simp
  · unfold VecDtype.vecInferred at h
    split at h
    · cases h
    · simp only [Option.some.injEq, Prod.mk.injEq] at h
      rw [← h.2]; simp

theorem throw_bind_ne_ok {α β : Type} {e : Err} {f : α → Except Err β} {b : β} :
    ((throw e : Except Err α) >>= f) ≠ .ok b := by
  intro h
  obtain ⟨_, h', _⟩ := bind_ok h
  cases h'

theorem ruleOp_good {n : Nat} {params : List (String × Val)} {fn : FunDef} {ret : Option Ty} {spec : Option RSpec}
    {free : List String} {cols : List Col} {c : Col}
    (hargs : ∀ x ∈ cols, Good n x) (h : ruleOp params fn ret spec free cols = .ok c) : Good n c := by
  unfold ruleOp at h
  obtain ⟨n?, hn, h'⟩ := bind_ok h
  clear h
  rename' h' => h
  extract_lets rows npArgs jpF jpB args0 at h
  have hF : ∀ out, Good n out → jpF out = .ok c → Good n c := by
    intro out hgo hf
    simp only [jpF] at hf
    split at hf
    · simp only [pure, Except.pure, Except.ok.injEq] at hf
      subst hf; exact hgo
    · repeat' split at hf
      all_goals
        first
        | exact absurd hf throw_bind_ne_ok
        | (obtain ⟨vals, hvals, hf⟩ := bind_ok hf
           simp only [pure, Except.pure, Except.ok.injEq] at hf
           subst hf
           intro hshape
           simp only at hshape ⊢
           rw [mapM_length hvals]
           apply hgo
           first
           | (cases hshape; done)
           | exact (scalar_false_iff out).1 (by simpa using ‹¬ out.scalar = true›))
  have hB : ∀ probed, jpB probed = .ok c → Good n c := by
    intro probed hb
    simp only [jpB] at hb
    obtain ⟨raw, hraw, hb⟩ := bind_ok hb
    obtain ⟨rs, hrs, hb⟩ := bind_ok hb
    split at hb
    · split at hb
      · refine hF _ ?_ hb
        intro hshape; cases hshape
      · exact absurd hb throw_bind_ne_ok
    · split at hb
      · rename_i dt vals hvec
        refine hF _ ?_ hb
        intro hshape
        simp only at hshape ⊢
        rw [vectorize_length hvec, mapM_length hrs, mapM_length hraw]
        cases n? with
        | none => simp at hshape
        | some m =>
          have := broadcastLen_some hargs hn
          subst this
          simp [rows]
      · exact absurd hb throw_bind_ne_ok
  split at h
  · exact hB _ h
  · split at h
    · exact absurd h throw_bind_ne_ok
    · split at h
      · exact hB _ h
      · exact absurd h throw_bind_ne_ok
      · exact hB _ h

theorem nodeOf_good {n : Nat} (params : List (String × Val)) (specs : List (String × RSpec)) (f : Fn)
    (args : List Col) (c : Col) (hargs : ∀ a ∈ args, Good n a)
    (h : (nodeOf params specs f).op args = .ok c) : Good n c := by
  unfold nodeOf at h
  cases hk : f.kind with
  | rule fn ret key => rw [hk] at h; exact ruleOp_good hargs h
  | pidSum s p => rw [hk] at h; exact pidSumOp_good hargs h
  | timeConv s u v => rw [hk] at h; exact timeConvOp_good hargs h
  | groupAgg a s g => rw [hk] at h; exact groupAggOp_good hargs h
  | grouping g => rw [hk] at h; exact groupingOp_good hargs h

theorem render_length {n : Nat} {c : Col} (h : Good n c) : (render n c).length = n := by
  unfold render
  split
  · simp
  · rename_i hsc
    rw [List.length_map]
    exact h.len (by simpa using hsc)

/-! ### the data columns keep their lengths -/

theorem option_mapM_length {A B : Type} (f : A → Option B) :
    ∀ (l : List A) (out : List B), l.mapM f = some out → out.length = l.length := by
  intro l
  induction l with
  | nil => intro out h; simp only [List.mapM_nil, pure, Option.some.injEq] at h; subst h; rfl
  | cons a l ih =>
    intro out h
    rw [List.mapM_cons] at h
    cases ha : f a with
    | none => rw [ha] at h; cases h
    | some b =>
      cases hl : l.mapM f with
      | none => rw [ha, hl] at h; cases h
      | some bs =>
        rw [ha, hl] at h
        simp only [bind, Option.bind, pure, Option.some.injEq] at h
        subst h
        simp [ih bs hl]

theorem colOfData_length {c : Column} {col : Col} (h : colOfData c = .ok col) :
    col.vals.length = c.length ∧ col.shape = .arr := by
  unfold colOfData at h
  split at h
  · cases h
  · rename_i rs hrs
    have hl := option_mapM_length _ _ _ hrs
    repeat' split at h
    all_goals first | (cases h; done) | (simp only [Except.ok.injEq] at h; subst h; simp [hl])

theorem convertCol_length {t : Ty} {c c' : Col} (h : convertCol t c = .ok c') :
    c'.vals.length = c.vals.length ∧ c'.shape = c.shape := by
  unfold convertCol at h
  repeat' split at h
  all_goals first | (cases h; done) | (simp only [Except.ok.injEq] at h; subst h; simp [Col.castTo])

theorem typedData_lengths {data : List (String × Column)} {raw : List (String × Col)}
    (h : typedData data = .ok raw) :
    raw.length = data.length ∧ ∀ e ∈ raw, ∃ a ∈ data, e.2.vals.length = a.2.length := by
  unfold typedData at h
  refine ⟨mapM_length h, ?_⟩
  intro e he
  obtain ⟨⟨an, ac⟩, ha, hae⟩ := mapM_mem_out h e he
  simp only at hae
  obtain ⟨col, hcol, hae⟩ := bind_ok hae
  simp only [pure, Except.pure, Except.ok.injEq] at hae
  subst hae
  exact ⟨(an, ac), ha, (colOfData_length hcol).1⟩

theorem convertData_lengths {raw conv : List (String × Col)} {ov : List Fn}
    (h : convertData raw ov = .ok conv) :
    conv.length = raw.length ∧ ∀ e ∈ conv, ∃ a ∈ raw, e.2.vals.length = a.2.vals.length := by
  unfold convertData at h
  refine ⟨mapM_length h, ?_⟩
  intro e he
  obtain ⟨⟨an, ac⟩, ha, hae⟩ := mapM_mem_out h e he
  simp only at hae
  split at hae
  · simp only [Except.ok.injEq] at hae
    subst hae
    exact ⟨(an, ac), ha, rfl⟩
  · obtain ⟨col, hcol, hae⟩ := bind_ok hae
    simp only [pure, Except.pure, Except.ok.injEq] at hae
    subst hae
    exact ⟨(an, ac), ha, (convertCol_length hcol).1⟩

/-- after a successful preparation the converted data have as many columns as the input and every
column has the length of some input column -/
theorem prepare_data_lengths {ruleFns : List Fn} {gs : List (String × GroupSpec)}
    {ps : List (String × PidSpec)} {data : List (String × Column)} {targets : List String} {pr : Prep}
    (h : prepare ruleFns gs ps data targets = .ok pr) :
    pr.data.length = data.length ∧ ∀ e ∈ pr.data, ∃ a ∈ data, e.2.vals.length = a.2.length := by
  obtain ⟨raw, all, hraw, _, hconv, _, _⟩ := prepare_ok h
  obtain ⟨h1, h2⟩ := typedData_lengths hraw
  obtain ⟨h3, h4⟩ := convertData_lengths hconv
  refine ⟨h3.trans h1, ?_⟩
  intro e he
  obtain ⟨a, ha, hea⟩ := h4 e he
  obtain ⟨b, hb, hab⟩ := h2 a ha
  exact ⟨b, hb, hea.trans hab⟩

end GV.Simulate
