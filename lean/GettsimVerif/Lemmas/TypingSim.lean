import GettsimVerif.Lemmas.SimMisc
import GettsimVerif.Lemmas.Typing
/-
Bridge between the TWO models of GETTSIM's input validation / type conversion:

 (A) `Core/Typing.lean`   (`GV.Typing`: cells with NaN / strings / datetimes, int64 and double guards),
 (B) the validation stage of `Core/Simulate.lean` (`GV.Simulate`: homogeneous int / float / bool
     columns of exact numbers).

This file embeds the columns of (B) into the columns of (A) and proves, component by component, that
the two models compute the same thing on embedded tables.  The property theorems are in
`Props/C20Bridge.lean`.  All names are prefixed `ts_`.
-/
namespace GV.TypingSim
open GV.VecDtype (R DT)

/-! ## the embedding -/

/-- a value of model (B) as a cell of model (A) -/
def ts_embedCell : R → Typing.Cell
  | .b v => .b v
  | .i v => .i v
  | .f q => .f q

/-- numpy dtype of model (B) as a pandas dtype of model (A) -/
def ts_dtype : DT → Typing.DType
  | .bool => .bool
  | .int => .int64
  | .float => .float64

/-- internal types: (B) `Ty` ↦ (A) `ITy` -/
def ts_ity : Simulate.Ty → Typing.ITy
  | .float => .float
  | .int => .int
  | .bool => .bool

/-- a column of model (B) as a column of model (A) (the `shape` tag is forgotten: data columns are
always 1-d arrays) -/
def ts_embedCol (c : Simulate.Col) : Typing.Col := ⟨ts_dtype c.dt, c.vals.map ts_embedCell⟩

def ts_embedTable (data : List (String × Simulate.Col)) : Typing.Table :=
  data.map fun e => (e.1, ts_embedCol e.2)

/-- every entry has the dtype of the column (= `Simulate.mi_WellTyped`; holds for every column
produced by `colOfData`, see `Simulate.colOfData_wellTyped`) -/
def ts_WellTyped (c : Simulate.Col) : Prop := ∀ r ∈ c.vals, VecDtype.dtypeOf r = c.dt

instance (c : Simulate.Col) : Decidable (ts_WellTyped c) := by unfold ts_WellTyped; infer_instance

/-- all columns have the same number of rows (an ASSUMPTION of model (B), checked by pandas when the
DataFrame is built) -/
def ts_Rect (data : List (String × Simulate.Col)) : Prop :=
  ∀ e ∈ data, ∀ e' ∈ data, e.2.vals.length = e'.2.vals.length

instance (data : List (String × Simulate.Col)) : Decidable (ts_Rect data) := by
  unfold ts_Rect; infer_instance

theorem ts_embedCell_inj {r r' : R} (h : ts_embedCell r = ts_embedCell r') : r = r' := by
  cases r <;> cases r' <;> simp only [ts_embedCell, reduceCtorEq] at h <;> cases h <;> rfl

theorem ts_dtype_inj {d d' : DT} (h : ts_dtype d = ts_dtype d') : d = d' := by
  cases d <;> cases d' <;> first | rfl | cases h

theorem ts_map_embedCell_inj {l l' : List R} (h : l.map ts_embedCell = l'.map ts_embedCell) : l = l' := by
  induction l generalizing l' with
  | nil => cases l' with
    | nil => rfl
    | cons _ _ => cases h
  | cons a l ih => cases l' with
    | nil => cases h
    | cons a' l' =>
      simp only [List.map_cons, List.cons.injEq] at h
      rw [ts_embedCell_inj h.1, ih h.2]

/-- the embedding of columns is injective up to the `shape` tag -/
theorem ts_embedCol_inj {c c' : Simulate.Col} (hs : c.shape = c'.shape)
    (h : ts_embedCol c = ts_embedCol c') : c = c' := by
  obtain ⟨dt, vals, sh⟩ := c
  obtain ⟨dt', vals', sh'⟩ := c'
  simp only [ts_embedCol, Typing.Col.mk.injEq] at h
  simp only at hs
  rw [ts_dtype_inj h.1, ts_map_embedCell_inj h.2, hs]

/-! ## value equality of embedded cells -/

/-- the normal form of `Cell.key` for the number `q` -/
def ts_keyOfRat (q : Rat) : Typing.Cell := if q.den = 1 then .i q.num else .f q

theorem ts_key_embed (r : R) : (ts_embedCell r).key = ts_keyOfRat (VecDtype.numOf r) := by
  cases r with
  | b v => cases v <;> rfl
  | i v =>
    simp only [ts_embedCell, Typing.Cell.key, VecDtype.numOf, ts_keyOfRat, Rat.den_intCast,
      Rat.num_intCast, if_true]
  | f q => rfl

theorem ts_keyOfRat_inj {q q' : Rat} (h : ts_keyOfRat q = ts_keyOfRat q') : q = q' := by
  unfold ts_keyOfRat at h
  by_cases h1 : q.den = 1 <;> by_cases h2 : q'.den = 1
  · rw [if_pos h1, if_pos h2] at h
    injection h with h
    exact Rat.ext h (h1.trans h2.symm)
  · rw [if_pos h1, if_neg h2] at h; cases h
  · rw [if_neg h1, if_pos h2] at h; cases h
  · rw [if_neg h1, if_neg h2] at h
    injection h

theorem ts_key_eq_iff (r r' : R) :
    (ts_embedCell r).key = (ts_embedCell r').key ↔ VecDtype.numOf r = VecDtype.numOf r' := by
  rw [ts_key_embed, ts_key_embed]
  exact ⟨ts_keyOfRat_inj, fun h => by rw [h]⟩

theorem ts_embed_ne_nan (r : R) : ts_embedCell r ≠ .fnan := by
  cases r <;> intro h <;> cases h

theorem ts_same_iff (r r' : R) :
    (ts_embedCell r).same (ts_embedCell r') = true ↔ VecDtype.numOf r = VecDtype.numOf r' := by
  rw [Typing.same_iff, ts_key_eq_iff]

theorem ts_cellEq_iff (r r' : R) :
    Typing.CellEq (ts_embedCell r) (ts_embedCell r') ↔ VecDtype.numOf r = VecDtype.numOf r' := by
  unfold Typing.CellEq
  rw [ts_key_eq_iff]
  exact ⟨fun h => h.2, fun h => ⟨ts_embed_ne_nan r, h⟩⟩

theorem ts_same_minus_one (r : R) :
    (ts_embedCell r).same (.i (-1)) = true ↔ VecDtype.numOf r = -1 := by
  have h1 : ts_embedCell (.i (-1)) = Typing.Cell.i (-1) := rfl
  have h2 : VecDtype.numOf (.i (-1)) = (-1 : Rat) := rfl
  rw [← h1, ts_same_iff, h2]

/-- the numeric value of model (A) of an embedded cell is the numeric value of model (B) -/
theorem ts_numOf_embed (r : R) : Typing.numOf (ts_embedCell r) = some (VecDtype.numOf r) := by
  cases r <;> rfl


/-! ## names, lookup, suffixes -/

theorem ts_columns_embed (data : List (String × Simulate.Col)) :
    Typing.columns (ts_embedTable data) = data.map (·.1) := by
  unfold Typing.columns ts_embedTable
  rw [List.map_map]
  rfl

theorem ts_hasDup_eq (l : List String) : Typing.hasDup l = Simulate.hasDupStr l := by
  induction l with
  | nil => rfl
  | cons x xs ih => rw [Typing.hasDup, Simulate.hasDupStr, ih]

theorem ts_dupColumns_embed (data : List (String × Simulate.Col)) :
    Typing.dupColumns (ts_embedTable data) = Simulate.hasDupStr (data.map (·.1)) := by
  unfold Typing.dupColumns
  rw [ts_columns_embed, ts_hasDup_eq]

theorem ts_lookup_embed (data : List (String × Simulate.Col)) (n : String) :
    Typing.lookup (ts_embedTable data) n = (Simulate.find? data n).map ts_embedCol := by
  induction data with
  | nil => rfl
  | cons e rest ih =>
    obtain ⟨k, c⟩ := e
    show Typing.lookup ((k, ts_embedCol c) :: ts_embedTable rest) n = _
    unfold Simulate.find? at ih ⊢
    rw [Typing.lookup, Dag.find?]
    by_cases h : k = n
    · rw [if_pos h, if_pos h]; rfl
    · rw [if_neg h, if_neg h]; exact ih

theorem ts_endsWith_eq (s suf : String) : Simulate.endsWith s suf = Typing.hasSuffix s suf := by
  unfold Simulate.endsWith Typing.hasSuffix TimeConv.stripSuffix?
  rw [Bool.eq_iff_iff, List.isSuffixOf_iff_suffix, List.suffix_iff_eq_drop]
  constructor
  · intro h
    split at h
    · rename_i hc; exact hc.2.symm
    · cases h
  · intro h
    rw [if_pos]
    · rfl
    · refine ⟨?_, h.symm⟩
      have := congrArg List.length h
      rw [List.length_drop] at this
      omega

theorem ts_all_comm {α β : Type} (l : List α) (l' : List β) (p : α → β → Bool) :
    (l.all fun a => l'.all fun b => p a b) = (l'.all fun b => l.all fun a => p a b) := by
  rw [Bool.eq_iff_iff]
  simp only [List.all_eq_true]
  exact ⟨fun h b hb a ha => h a ha b hb, fun h a ha b hb => h b hb a ha⟩

theorem ts_groupSuffixes : Simulate.groupSuffixes = Typing.supportedGroupings.map ("_" ++ ·) := by
  decide +kernel

theorem ts_idName : ∀ L ∈ Typing.supportedGroupings,
    (("_" ++ L).drop 1).toString ++ "_id" = L ++ "_id" := by decide +kernel

theorem ts_foreignKeys : Simulate.foreignKeys = Typing.foreignKeys := rfl


/-! ## the three column-level checks -/

theorem ts_getElem?_map_embed {l : List R} {i : Nat} {v : Typing.Cell}
    (h : (l.map ts_embedCell)[i]? = some v) : ∃ r, l[i]? = some r ∧ ts_embedCell r = v := by
  rw [List.getElem?_map] at h
  cases hr : l[i]? with
  | none => rw [hr] at h; cases h
  | some r => rw [hr] at h; exact ⟨r, rfl, Option.some.inj h⟩

/-- group constancy: model (A) additionally requires that the value column is not longer than the id
column; apart from that the two checks coincide -/
theorem ts_colConstant_iff (ids cells : List R) :
    Typing.colConstant (ids.map ts_embedCell) (cells.map ts_embedCell) = true ↔
      cells.length ≤ ids.length ∧
        Simulate.constantWithinGroups (ids.map VecDtype.numOf) (cells.map VecDtype.numOf) = true := by
  rw [Simulate.mi_constantWithinGroups_iff, Simulate.mi_ConstWithin_index]
  constructor
  · intro h
    have hlen : cells.length ≤ ids.length := by
      unfold Typing.colConstant at h
      simp only [Bool.and_eq_true, decide_eq_true_eq, List.length_map] at h
      exact h.1
    refine ⟨hlen, ?_⟩
    have hC := Typing.colConstant_iff.mp h
    intro i j hi hi' hj hj' hg
    simp only [List.length_map] at hi hi' hj hj'
    simp only [List.getElem_map] at hg ⊢
    obtain ⟨g, hg1, _, _, hall⟩ := hC i (ts_embedCell cells[i])
      (by rw [List.getElem?_map, List.getElem?_eq_getElem hi']; rfl)
    rw [List.getElem?_map, List.getElem?_eq_getElem hi] at hg1
    cases hg1
    have := hall j (ts_embedCell ids[j]) (ts_embedCell cells[j])
      (by rw [List.getElem?_map, List.getElem?_eq_getElem hj]; rfl)
      (by rw [List.getElem?_map, List.getElem?_eq_getElem hj']; rfl)
      ((ts_key_eq_iff _ _).mpr hg)
    exact ((ts_key_eq_iff _ _).mp this).symm
  · rintro ⟨hlen, h⟩
    rw [Typing.colConstant_iff]
    intro i v hv
    obtain ⟨r, hr, rfl⟩ := ts_getElem?_map_embed hv
    obtain ⟨hi', hri⟩ := List.getElem?_eq_some_iff.mp hr
    have hi : i < ids.length := Nat.lt_of_lt_of_le hi' hlen
    refine ⟨ts_embedCell ids[i], by rw [List.getElem?_map, List.getElem?_eq_getElem hi]; rfl,
      ts_embed_ne_nan _, ts_embed_ne_nan _, ?_⟩
    intro j g' w hg' hw hk
    obtain ⟨rg, hrg, rfl⟩ := ts_getElem?_map_embed hg'
    obtain ⟨rw', hrw, rfl⟩ := ts_getElem?_map_embed hw
    obtain ⟨hj, hrg⟩ := List.getElem?_eq_some_iff.mp hrg
    obtain ⟨hj', hrw⟩ := List.getElem?_eq_some_iff.mp hrw
    rw [ts_key_eq_iff] at hk ⊢
    have := h i j (by simpa using hi) (by simpa using hi') (by simpa using hj) (by simpa using hj')
      (by simpa [hrg] using hk)
    simp only [List.getElem_map] at this
    rw [← hri, ← hrw]
    exact this.symm

theorem ts_colConstant_eq (ids cells : List R) :
    Typing.colConstant (ids.map ts_embedCell) (cells.map ts_embedCell) =
      (decide (cells.length ≤ ids.length) &&
        Simulate.constantWithinGroups (ids.map VecDtype.numOf) (cells.map VecDtype.numOf)) := by
  rw [Bool.eq_iff_iff, ts_colConstant_iff, Bool.and_eq_true, decide_eq_true_eq]

/-- uniqueness of `p_id`: the two checks coincide -/
theorem ts_allDistinct_eq (l : List R) :
    Typing.allDistinct (l.map ts_embedCell) = !Simulate.hasDupRat (l.map VecDtype.numOf) := by
  rw [Bool.eq_iff_iff, Typing.allDistinct_iff_pairwise, Bool.not_eq_true', Simulate.mi_hasDupRat_false,
    List.pairwise_map, List.nodup_iff_pairwise_ne, List.pairwise_map]
  refine iff_of_eq (congrArg (fun P => List.Pairwise P l) ?_)
  funext a b
  rw [ne_eq, ne_eq, ts_key_eq_iff]

/-- foreign keys: model (A) additionally requires that the pointer column has as many rows as `p_id`;
apart from that the two checks coincide -/
theorem ts_fkColValid_iff (pid fk : List R) :
    Typing.fkColValid (pid.map ts_embedCell) (fk.map ts_embedCell) = true ↔
      fk.length = pid.length ∧
        (∀ k ∈ fk.map VecDtype.numOf, k = -1 ∨ k ∈ pid.map VecDtype.numOf) ∧
        (∀ p ∈ (fk.map VecDtype.numOf).zip (pid.map VecDtype.numOf), p.1 ≠ p.2) := by
  unfold Typing.fkColValid
  rw [List.zip_map, List.zip_map]
  simp only [Bool.and_eq_true, decide_eq_true_eq, List.all_eq_true, Bool.or_eq_true,
    List.any_eq_true, Bool.not_eq_true', Typing.eqv_eq_false_iff, List.length_map, List.mem_map,
    forall_exists_index, and_imp, forall_apply_eq_imp_iff₂, ts_same_minus_one, ts_same_iff,
    Prod.map, ts_cellEq_iff, exists_exists_and_eq_and, ne_eq]
  constructor
  · rintro ⟨⟨h1, h2⟩, h3⟩
    refine ⟨h2, fun r hr => ?_, h3⟩
    rcases h1 r hr with h | ⟨p, hp, h⟩
    · exact Or.inl h
    · exact Or.inr ⟨p, hp, h.symm⟩
  · rintro ⟨h2, h1, h3⟩
    refine ⟨⟨fun r hr => ?_, h2⟩, h3⟩
    rcases h1 r hr with h | ⟨p, hp, h⟩
    · exact Or.inl h
    · exact Or.inr ⟨p, hp, h.symm⟩


/-! ## `processAndCheck` of model (A) as a Boolean -/

/-- the group-constancy check of model (A) -/
def ts_groupA (levels : List String) (t : Typing.Table) : Bool :=
  t.all (fun nc =>
    levels.all (fun L =>
      match Typing.lookup t (L ++ "_id") with
      | none => true
      | some ids => !(Typing.hasSuffix nc.1 ("_" ++ L)) || Typing.colConstant ids.cells nc.2.cells))

/-- the `p_id` and foreign-key checks of model (A) -/
def ts_pidA (fks : List String) (t : Typing.Table) : Bool :=
  match Typing.lookup t "p_id" with
  | none => false
  | some p => Typing.allDistinct p.cells &&
      fks.all (fun k =>
        match Typing.lookup t k with
        | none => true
        | some c => Typing.fkColValid p.cells c.cells)

/-- all checks of model (A) -/
def ts_checkA (levels fks : List String) (t : Typing.Table) : Bool :=
  !Typing.dupColumns t && ts_groupA levels t && ts_pidA fks t

theorem ts_processAndCheck_eq (levels fks : List String) (t : Typing.Table) :
    Typing.processAndCheck levels fks t =
      if ts_checkA levels fks t then .ok () else .error .valueError := by
  unfold Typing.processAndCheck ts_checkA
  cases hd : Typing.dupColumns t with
  | true => rfl
  | false =>
    simp only [Bool.false_eq_true, if_false, Bool.not_false, Bool.true_and]
    have hg : Typing.groupVarsConstant levels t =
        if ts_groupA levels t then .ok () else .error .valueError := rfl
    rw [hg]
    cases ts_groupA levels t with
    | false => rfl
    | true =>
      simp only [if_true, Bool.true_and]
      unfold Typing.pidUnique Typing.foreignKeysValid ts_pidA
      cases Typing.lookup t "p_id" with
      | none => rfl
      | some p =>
        simp only
        by_cases hA : Typing.allDistinct p.cells = true
        · simp only [hA, if_true, Bool.true_and]
          rfl
        · have hA' : Typing.allDistinct p.cells = false := by simpa using hA
          simp only [hA', Bool.false_eq_true, if_false, Bool.false_and]

theorem ts_find?_mem {data : List (String × Simulate.Col)} {n : String} {c : Simulate.Col}
    (h : Simulate.find? data n = some c) : (n, c) ∈ data := Dag.find?_mem data n c h

/-- group constancy: the two models agree on rectangular tables -/
theorem ts_groupA_embed (data : List (String × Simulate.Col)) (hrect : ts_Rect data) :
    ts_groupA Typing.supportedGroupings (ts_embedTable data) =
      Simulate.groupSuffixes.all (Simulate.mi_groupOk data) := by
  unfold ts_groupA
  rw [ts_all_comm, ts_groupSuffixes, List.all_map, Bool.eq_iff_iff, List.all_eq_true, List.all_eq_true]
  refine forall₂_congr fun L hL => ?_
  simp only [Function.comp]
  unfold Simulate.mi_groupOk
  rw [ts_idName L hL, ts_lookup_embed]
  cases hid : Simulate.find? data (L ++ "_id") with
  | none => simp
  | some idc =>
    simp only [Option.map_some]
    unfold ts_embedTable
    rw [List.all_map, List.all_eq_true, Bool.not_eq_true', List.any_eq_false]
    refine forall₂_congr fun e he => ?_
    have hlen : e.2.vals.length ≤ idc.vals.length :=
      Nat.le_of_eq (hrect e he _ (ts_find?_mem hid))
    simp only [Function.comp, ts_embedCol, ts_colConstant_eq, hlen, decide_true, Bool.true_and,
      ts_endsWith_eq, Simulate.Col.rats]
    cases Typing.hasSuffix e.1 ("_" ++ L) <;>
      cases Simulate.constantWithinGroups (idc.vals.map VecDtype.numOf) (e.2.vals.map VecDtype.numOf) <;>
      simp

/-- `p_id` uniqueness and foreign keys: the two models agree on rectangular tables -/
theorem ts_pidA_embed (data : List (String × Simulate.Col)) (hrect : ts_Rect data) :
    ts_pidA Typing.foreignKeys (ts_embedTable data) =
      match Simulate.find? data "p_id" with
      | none => false
      | some pid => !Simulate.hasDupRat pid.rats && Simulate.foreignKeys.all (Simulate.mi_fkOk data pid) := by
  unfold ts_pidA
  rw [ts_lookup_embed]
  cases hp : Simulate.find? data "p_id" with
  | none => rfl
  | some pid =>
    simp only [Option.map_some, ts_embedCol, ts_allDistinct_eq, Simulate.Col.rats, ts_foreignKeys]
    congr 1
    rw [Bool.eq_iff_iff, List.all_eq_true, List.all_eq_true]
    refine forall₂_congr fun k _ => ?_
    rw [Simulate.mi_fkOk_iff, ts_lookup_embed]
    cases hk : Simulate.find? data k with
    | none => simp
    | some c =>
      simp only [Option.map_some, ts_embedCol, ts_fkColValid_iff, Simulate.Col.rats, Option.some.injEq, forall_eq']
      have hlen : c.vals.length = pid.vals.length := hrect _ (ts_find?_mem hk) _ (ts_find?_mem hp)
      simp only [hlen, true_and]

theorem ts_checkA_embed (data : List (String × Simulate.Col)) (hrect : ts_Rect data) :
    ts_checkA Typing.supportedGroupings Typing.foreignKeys (ts_embedTable data) =
      Simulate.mi_checkB data := by
  unfold ts_checkA Simulate.mi_checkB
  rw [ts_dupColumns_embed, ts_groupA_embed data hrect, ts_pidA_embed data hrect]
  rfl


/-- `checkData` of model (B) and `processAndCheck` of model (A) return the same result on the
embedding of a rectangular table -/
theorem ts_checkData_eq (data : List (String × Simulate.Col)) (hrect : ts_Rect data) :
    Simulate.checkData data =
      Typing.processAndCheck Typing.supportedGroupings Typing.foreignKeys (ts_embedTable data) := by
  rw [Simulate.mi_checkData_eq, ts_processAndCheck_eq, ts_checkA_embed data hrect]

/-! ## conversion of one column -/

/-- the range guard under which the two conversions agree: an `int` value converted to `float` must
be exactly representable as a double (|v| ≤ 2^53), an integral `float` value converted to `int` must
fit into int64 -/
def ts_guardCell (t : Simulate.Ty) : R → Bool
  | .i v => t != .float || decide (v.natAbs ≤ 2 ^ 53)
  | .f q => t != .int || q.den != 1 || (decide (-(2 ^ 63 : Int) ≤ q.num) && decide (q.num < (2 ^ 63 : Int)))
  | .b _ => true

def ts_InRange (t : Simulate.Ty) (c : Simulate.Col) : Prop := ∀ r ∈ c.vals, ts_guardCell t r = true

instance (t : Simulate.Ty) (c : Simulate.Col) : Decidable (ts_InRange t c) := by
  unfold ts_InRange; infer_instance

theorem ts_mapE_ok (f : Typing.Cell → Except Err Typing.Cell) (g : R → R) (l : List R)
    (h : ∀ r ∈ l, f (ts_embedCell r) = .ok (ts_embedCell (g r))) :
    Typing.mapE f (l.map ts_embedCell) = .ok ((l.map g).map ts_embedCell) := by
  induction l with
  | nil => rfl
  | cons a l ih =>
    simp only [List.map_cons, Typing.mapE, h a List.mem_cons_self,
      ih fun r hr => h r (List.mem_cons_of_mem _ hr)]

theorem ts_mapE_err (f : Typing.Cell → Except Err Typing.Cell) (l : List R)
    (hf : ∀ x e, f x = .error e → e = .valueError) (r : R) (hr : r ∈ l) (e : Err)
    (he : f (ts_embedCell r) = .error e) :
    Typing.mapE f (l.map ts_embedCell) = .error .valueError :=
  Typing.mapE_valueError hf (List.mem_map.mpr ⟨r, hr, rfl⟩) he

theorem ts_truncRat_den_one {q : Rat} (h : q.den = 1) : VecDtype.truncRat q = q.num := by
  unfold VecDtype.truncRat
  rw [h]
  simp

theorem ts_ity_dtype (t : Simulate.Ty) : (ts_ity t).dtype = ts_dtype t.toDT := by
  cases t <;> rfl

theorem ts_embedCol_castTo (c : Simulate.Col) (t : DT) :
    ts_embedCol (c.castTo t) = ⟨ts_dtype t, (c.vals.map (VecDtype.cast t)).map ts_embedCell⟩ := rfl

theorem ts_convert_of_ok {c : Simulate.Col} {t : Simulate.Ty} {f : Typing.Cell → Except Err Typing.Cell}
    (hf : Typing.cellFn (ts_dtype c.dt) (ts_ity t) = .ok f)
    (h : ∀ r ∈ c.vals, f (ts_embedCell r) = .ok (ts_embedCell (VecDtype.cast t.toDT r))) :
    Typing.convert (ts_embedCol c) (ts_ity t) = .ok (ts_embedCol (c.castTo t.toDT)) := by
  rw [Typing.convert_eq_of_cellFn (c := ts_embedCol c) hf]
  have hc : (ts_embedCol c).cells = c.vals.map ts_embedCell := rfl
  rw [hc]
  rw [ts_mapE_ok f _ c.vals h, ts_embedCol_castTo, ts_ity_dtype]

theorem ts_convert_of_err {c : Simulate.Col} {t : Simulate.Ty} {f : Typing.Cell → Except Err Typing.Cell}
    (hf : Typing.cellFn (ts_dtype c.dt) (ts_ity t) = .ok f)
    (hfe : ∀ x e, f x = .error e → e = .valueError) (r : R) (hr : r ∈ c.vals) (e : Err)
    (he : f (ts_embedCell r) = .error e) :
    Typing.convert (ts_embedCol c) (ts_ity t) = .error .valueError := by
  rw [Typing.convert_eq_of_cellFn (c := ts_embedCol c) hf]
  have hc : (ts_embedCol c).cells = c.vals.map ts_embedCell := rfl
  rw [hc]
  rw [ts_mapE_err f c.vals hfe r hr e he]


theorem ts_intToFloat_embed (r : R) (hd : VecDtype.dtypeOf r = .int) (hg : ts_guardCell .float r = true) :
    Typing.intToFloat (ts_embedCell r) = .ok (ts_embedCell (VecDtype.cast .float r)) := by
  cases r with
  | i v =>
    have : Typing.exactlyRepresentable v = true := by simpa [ts_guardCell, Typing.exactlyRepresentable] using hg
    simp only [ts_embedCell, Typing.intToFloat, Typing.roundIntToDouble, this, if_true, VecDtype.cast]
  | b v => cases hd
  | f q => cases hd

theorem ts_boolToInt_embed (r : R) (hd : VecDtype.dtypeOf r = .bool) :
    Typing.boolToInt (ts_embedCell r) = .ok (ts_embedCell (VecDtype.cast .int r)) := by
  cases r with
  | b v => rfl
  | i v => cases hd
  | f q => cases hd

theorem ts_floatToInt_embed (r : R) (hd : VecDtype.dtypeOf r = .float)
    (hi : Simulate.isIntegral (VecDtype.numOf r) = true) (hg : ts_guardCell .int r = true) :
    Typing.floatToInt (ts_embedCell r) = .ok (ts_embedCell (VecDtype.cast .int r)) := by
  cases r with
  | f q =>
    have hden : q.den = 1 := by simpa [Simulate.isIntegral, VecDtype.numOf] using hi
    have hrange : -(2 ^ 63 : Int) ≤ q.num ∧ q.num < (2 ^ 63 : Int) := by
      simpa [ts_guardCell, hden] using hg
    simp only [ts_embedCell, Typing.floatToInt, VecDtype.cast, ts_truncRat_den_one hden]
    rw [if_pos ⟨hden, hrange⟩]
  | b v => cases hd
  | i v => cases hd

theorem ts_floatToInt_embed_err (r : R) (hd : VecDtype.dtypeOf r = .float)
    (hi : Simulate.isIntegral (VecDtype.numOf r) = false) :
    Typing.floatToInt (ts_embedCell r) = .error .valueError := by
  cases r with
  | f q =>
    have hden : ¬ q.den = 1 := by simpa [Simulate.isIntegral, VecDtype.numOf] using hi
    simp only [ts_embedCell, Typing.floatToInt]
    rw [if_neg fun h => hden h.1]
  | b v => cases hd
  | i v => cases hd

theorem ts_intToBool_embed (r : R) (hd : VecDtype.dtypeOf r = .int)
    (h01 : VecDtype.numOf r = 0 ∨ VecDtype.numOf r = 1) :
    Typing.intToBool (ts_embedCell r) = .ok (ts_embedCell (VecDtype.cast .bool r)) := by
  cases r with
  | i v =>
    simp only [VecDtype.numOf] at h01
    rcases h01 with h | h
    · have : v = 0 := by exact_mod_cast h
      subst this; rfl
    · have : v = 1 := by exact_mod_cast h
      subst this; rfl
  | b v => cases hd
  | f q => cases hd

theorem ts_intToBool_embed_err (r : R) (h0 : VecDtype.numOf r ≠ 0) (h1 : VecDtype.numOf r ≠ 1) :
    Typing.intToBool (ts_embedCell r) = .error .valueError :=
  Typing.intToBool_fails (by rw [ts_numOf_embed]; exact fun h => h0 (Option.some.inj h))
    (by rw [ts_numOf_embed]; exact fun h => h1 (Option.some.inj h))

theorem ts_floatToBool_embed (r : R) (hd : VecDtype.dtypeOf r = .float)
    (h01 : VecDtype.numOf r = 0 ∨ VecDtype.numOf r = 1) :
    Typing.floatToBool (ts_embedCell r) = .ok (ts_embedCell (VecDtype.cast .bool r)) := by
  cases r with
  | f q =>
    simp only [VecDtype.numOf] at h01
    rcases h01 with h | h <;> subst h <;> rfl
  | b v => cases hd
  | i v => cases hd

theorem ts_floatToBool_embed_err (r : R) (h0 : VecDtype.numOf r ≠ 0) (h1 : VecDtype.numOf r ≠ 1) :
    Typing.floatToBool (ts_embedCell r) = .error .valueError :=
  Typing.floatToBool_fails (by rw [ts_numOf_embed]; exact fun h => h0 (Option.some.inj h))
    (by rw [ts_numOf_embed]; exact fun h => h1 (Option.some.inj h))


theorem ts_all_false {l : List R} {p : Rat → Bool} (h : ¬ ((l.map VecDtype.numOf).all p = true)) :
    ∃ r ∈ l, p (VecDtype.numOf r) = false := by
  rw [List.all_eq_true] at h
  simp only [List.mem_map, forall_exists_index, and_imp, forall_apply_eq_imp_iff₂] at h
  have ⟨r, hr⟩ := Classical.not_forall.mp h
  have ⟨hr1, hr2⟩ := Classical.not_imp.mp hr
  exact ⟨r, hr1, by simpa using hr2⟩

theorem ts_map_ite (b : Bool) (x : Simulate.Col) :
    Except.map ts_embedCol (if b = true then Except.ok x else Except.error Err.valueError) =
      if b = true then .ok (ts_embedCol x) else .error .valueError := by
  cases b <;> rfl

/-- **one column**: whenever model (B) attempts a conversion (`c.dt ≠ t`), model (A)'s `convert`
returns the embedding of (B)'s result – same success, same error class, corresponding columns –
provided the column is well typed and within the int64 / 2^53 range guard -/
theorem ts_convert_eq (t : Simulate.Ty) (c : Simulate.Col) (hwt : ts_WellTyped c)
    (hdt : c.dt ≠ t.toDT) (hr : ts_InRange t c) :
    Typing.convert (ts_embedCol c) (ts_ity t) = (Simulate.convertCol t c).map ts_embedCol := by
  obtain ⟨dt, vals, sh⟩ := c
  unfold Simulate.convertCol
  rw [if_neg hdt]
  unfold ts_WellTyped at hwt
  unfold ts_InRange at hr
  simp only at hwt hr hdt
  cases t <;> cases dt
  -- float ← bool
  · rfl
  -- float ← int
  · exact ts_convert_of_ok (t := .float) (f := Typing.intToFloat) rfl
      fun r hm => ts_intToFloat_embed r (hwt r hm) (hr r hm)
  -- float ← float
  · exact absurd rfl hdt
  -- int ← bool
  · exact ts_convert_of_ok (t := .int) (f := Typing.boolToInt) rfl
      fun r hm => ts_boolToInt_embed r (hwt r hm)
  -- int ← int
  · exact absurd rfl hdt
  -- int ← float
  · rw [ts_map_ite]
    split_ifs with hall
    · rw [List.all_eq_true] at hall
      exact ts_convert_of_ok (c := ⟨.float, vals, sh⟩) (t := .int) (f := Typing.floatToInt) rfl
        fun r hm => ts_floatToInt_embed r (hwt r hm) (hall _ (List.mem_map.mpr ⟨r, hm, rfl⟩)) (hr r hm)
    · obtain ⟨r, hm, hrf⟩ := ts_all_false (l := vals) hall
      exact ts_convert_of_err (c := ⟨.float, vals, sh⟩) (t := .int) (f := Typing.floatToInt) rfl
        (fun _ _ => Typing.floatToInt_err) r hm _ (ts_floatToInt_embed_err r (hwt r hm) hrf)
  -- bool ← bool
  · exact absurd rfl hdt
  -- bool ← int
  · rw [ts_map_ite]
    split_ifs with hall
    · rw [List.all_eq_true] at hall
      refine ts_convert_of_ok (c := ⟨.int, vals, sh⟩) (t := .bool) (f := Typing.intToBool) rfl fun r hm =>
        ts_intToBool_embed r (hwt r hm) ?_
      simpa using hall _ (List.mem_map.mpr ⟨r, hm, rfl⟩)
    · obtain ⟨r, hm, hrf⟩ := ts_all_false (l := vals) hall
      simp only [Bool.or_eq_false_iff, decide_eq_false_iff_not] at hrf
      exact ts_convert_of_err (c := ⟨.int, vals, sh⟩) (t := .bool) (f := Typing.intToBool) rfl
        (fun _ _ => Typing.intToBool_err) r hm _ (ts_intToBool_embed_err r hrf.1 hrf.2)
  -- bool ← float
  · rw [ts_map_ite]
    split_ifs with hall
    · rw [List.all_eq_true] at hall
      refine ts_convert_of_ok (c := ⟨.float, vals, sh⟩) (t := .bool) (f := Typing.floatToBool) rfl fun r hm =>
        ts_floatToBool_embed r (hwt r hm) ?_
      simpa using hall _ (List.mem_map.mpr ⟨r, hm, rfl⟩)
    · obtain ⟨r, hm, hrf⟩ := ts_all_false (l := vals) hall
      simp only [Bool.or_eq_false_iff, decide_eq_false_iff_not] at hrf
      exact ts_convert_of_err (c := ⟨.float, vals, sh⟩) (t := .bool) (f := Typing.floatToBool) rfl
        (fun _ _ => Typing.floatToBool_err) r hm _ (ts_floatToBool_embed_err r hrf.1 hrf.2)

/-- when model (B) does not convert (`c.dt = t`), model (A) does not attempt a conversion either -/
theorem ts_hasExpectedType_embed (t : Simulate.Ty) (c : Simulate.Col) :
    Typing.hasExpectedType (ts_embedCol c) (ts_ity t) = decide (c.dt = t.toDT) := by
  obtain ⟨dt, vals, sh⟩ := c
  cases t <;> cases dt <;> rfl


/-! ## conversion of the table -/

/-- what `Simulate.convertData` does to one column -/
def ts_convEntry (ov : List Simulate.Fn) (e : String × Simulate.Col) : Except Err (String × Simulate.Col) :=
  match Simulate.mi_convType ov e.1 with
  | none => .ok e
  | some t => (Simulate.convertCol t e.2).map (fun c' => (e.1, c'))

theorem ts_convertData_eq (data : List (String × Simulate.Col)) (ov : List Simulate.Fn) :
    Simulate.convertData data ov = data.mapM (ts_convEntry ov) := by
  unfold Simulate.convertData
  refine Dag.mapM_congr_mem fun e _ => ?_
  obtain ⟨n, c⟩ := e
  unfold ts_convEntry Simulate.mi_convType
  simp only
  cases Simulate.find? Simulate.typesInputVariables n with
  | some t => simp only; cases Simulate.convertCol t c <;> rfl
  | none =>
    simp only
    cases (Simulate.findFn? ov n).bind (·.ann) with
    | none => rfl
    | some t => simp only; cases Simulate.convertCol t c <;> rfl

theorem ts_convertCol_err {t : Simulate.Ty} {c : Simulate.Col} {e : Err}
    (h : Simulate.convertCol t c = .error e) : e = .valueError := by
  unfold Simulate.convertCol at h
  by_cases h1 : c.dt = t.toDT
  · rw [if_pos h1] at h; cases h
  · rw [if_neg h1] at h
    cases t <;> cases hc : c.dt <;> simp only [hc] at h <;> (try split_ifs at h) <;> cases h <;> rfl

/-- the hypotheses under which the table conversions agree -/
structure ts_TableOK (types : List (String × Typing.ITy)) (ov : List Simulate.Fn)
    (data : List (String × Simulate.Col)) : Prop where
  wellTyped : ∀ e ∈ data, ts_WellTyped e.2
  types : ∀ e ∈ data, Typing.lookupTy types e.1 = (Simulate.mi_convType ov e.1).map ts_ity
  inRange : ∀ e ∈ data, ∀ t, Simulate.mi_convType ov e.1 = some t → ts_InRange t e.2

theorem ts_TableOK.tail {types ov e data} (h : ts_TableOK types ov (e :: data)) : ts_TableOK types ov data :=
  ⟨fun x hx => h.wellTyped x (List.mem_cons_of_mem _ hx), fun x hx => h.types x (List.mem_cons_of_mem _ hx),
   fun x hx => h.inRange x (List.mem_cons_of_mem _ hx)⟩

/-- one loop iteration of model (A) against one column of model (B) -/
theorem ts_colOutcome (types : List (String × Typing.ITy)) (ov : List Simulate.Fn)
    (e : String × Simulate.Col) (hwt : ts_WellTyped e.2)
    (hty : Typing.lookupTy types e.1 = (Simulate.mi_convType ov e.1).map ts_ity)
    (hrg : ∀ t, Simulate.mi_convType ov e.1 = some t → ts_InRange t e.2) :
    match ts_convEntry ov e with
    | .ok e' =>
      (Typing.colOutcome types (e.1, ts_embedCol e.2) = .ok none ∧ e' = e) ∨
      (Typing.colOutcome types (e.1, ts_embedCol e.2) = .ok (some (ts_embedCol e'.2)) ∧ e'.1 = e.1)
    | .error err =>
      Typing.colOutcome types (e.1, ts_embedCol e.2) = .error .valueError ∧ err = .valueError := by
  unfold ts_convEntry Typing.colOutcome
  simp only [hty]
  cases hct : Simulate.mi_convType ov e.1 with
  | none => exact Or.inl ⟨rfl, rfl⟩
  | some t =>
    simp only [Option.map_some, ts_hasExpectedType_embed, decide_eq_true_eq]
    by_cases hdt : e.2.dt = t.toDT
    · have hc : Simulate.convertCol t e.2 = .ok e.2 := by unfold Simulate.convertCol; rw [if_pos hdt]
      rw [hc, if_pos hdt]
      exact Or.inl ⟨rfl, rfl⟩
    · rw [if_neg hdt, ts_convert_eq t e.2 hwt hdt (hrg t hct)]
      cases hc : Simulate.convertCol t e.2 with
      | ok c' => exact Or.inr ⟨rfl, rfl⟩
      | error err => exact ⟨by rw [ts_convertCol_err hc]; rfl, ts_convertCol_err hc⟩

theorem ts_mapM_cons {α β : Type} (f : α → Except Err β) (a : α) (l : List α) :
    (a :: l).mapM f =
      match f a with
      | .error e => .error e
      | .ok b =>
        match l.mapM f with
        | .error e => .error e
        | .ok bs => .ok (b :: bs) := by
  rw [List.mapM_cons]
  cases f a with
  | error e => rfl
  | ok b => cases l.mapM f <;> rfl

/-- the loop of model (A) against `mapM` of model (B) -/
theorem ts_convertAllAux (types : List (String × Typing.ITy)) (ov : List Simulate.Fn)
    (data : List (String × Simulate.Col)) (hok : ts_TableOK types ov data) :
    ∃ T N bad, Typing.convertAllAux types (ts_embedTable data) = .ok (T, N, bad) ∧
      match data.mapM (ts_convEntry ov) with
      | .ok out => T = ts_embedTable out ∧ bad = false
      | .error err => bad = true ∧ err = .valueError := by
  induction data with
  | nil => exact ⟨[], [], false, rfl, rfl, rfl⟩
  | cons e rest ih =>
    obtain ⟨T, N, bad, hrec, hm⟩ := ih hok.tail
    have hco := ts_colOutcome types ov e (hok.wellTyped e List.mem_cons_self)
      (hok.types e List.mem_cons_self) (hok.inRange e List.mem_cons_self)
    have hET : ts_embedTable (e :: rest) = (e.1, ts_embedCol e.2) :: ts_embedTable rest := rfl
    rw [hET, ts_mapM_cons]
    cases hfe : ts_convEntry ov e with
    | error err =>
      rw [hfe] at hco
      refine ⟨(e.1, ts_embedCol e.2) :: T, N, true, ?_, rfl, hco.2⟩
      simp only [Typing.convertAllAux, hco.1, hrec, if_true]
    | ok e' =>
      rw [hfe] at hco
      simp only
      rcases hco with ⟨hc, rfl⟩ | ⟨hc, hn⟩
      · refine ⟨(e'.1, ts_embedCol e'.2) :: T, N, bad, ?_, ?_⟩
        · simp only [Typing.convertAllAux, hc, hrec]
        · cases hr : rest.mapM (ts_convEntry ov) with
          | ok out => rw [hr] at hm; simp only; exact ⟨by rw [hm.1]; rfl, hm.2⟩
          | error err => rw [hr] at hm; exact hm
      · refine ⟨(e.1, ts_embedCol e'.2) :: T, e.1 :: N, bad, ?_, ?_⟩
        · simp only [Typing.convertAllAux, hc, hrec]
        · cases hr : rest.mapM (ts_convEntry ov) with
          | ok out =>
            rw [hr] at hm; simp only
            refine ⟨?_, hm.2⟩
            rw [hm.1, ← hn]; rfl
          | error err => rw [hr] at hm; exact hm

/-- **whole table**: under `ts_TableOK`, `convertAll` of model (A) succeeds iff `convertData` of model
(B) succeeds, with corresponding tables; failures are `ValueError`s in both models -/
theorem ts_convertAll_eq (types : List (String × Typing.ITy)) (ov : List Simulate.Fn)
    (data : List (String × Simulate.Col)) (hok : ts_TableOK types ov data) :
    (Typing.convertAll types (ts_embedTable data)).map (·.1) =
      (Simulate.convertData data ov).map ts_embedTable := by
  obtain ⟨T, N, bad, haux, hm⟩ := ts_convertAllAux types ov data hok
  unfold Typing.convertAll
  rw [haux, ts_convertData_eq]
  cases hr : data.mapM (ts_convEntry ov) with
  | ok out =>
    rw [hr] at hm
    simp only at hm
    rw [hm.1, hm.2]
    rfl
  | error err =>
    rw [hr] at hm
    simp only at hm
    rw [hm.1, hm.2]
    rfl


/-! ## the declared-types table of model (A) that corresponds to model (B) -/

/-- the `types` parameter of model (A) for the columns `names`: `TYPES_INPUT_VARIABLES` first, then
the return annotations of overridden functions (exactly the lookup of `Simulate.convertData`) -/
def ts_typesFor (ov : List Simulate.Fn) (names : List String) : List (String × Typing.ITy) :=
  names.filterMap fun n => (Simulate.mi_convType ov n).map fun t => (n, ts_ity t)

theorem ts_lookupTy_typesFor (ov : List Simulate.Fn) (names : List String) (n : String) :
    Typing.lookupTy (ts_typesFor ov names) n =
      if n ∈ names then (Simulate.mi_convType ov n).map ts_ity else none := by
  induction names with
  | nil => rfl
  | cons m ms ih =>
    unfold ts_typesFor at ih ⊢
    rw [List.filterMap_cons]
    cases hm : Simulate.mi_convType ov m with
    | none =>
      simp only [Option.map_none]
      rw [ih]
      by_cases hnm : n = m
      · subst hnm; simp [hm]
      · simp [hnm]
    | some t =>
      simp only [Option.map_some, Typing.lookupTy]
      by_cases hnm : m = n
      · subst hnm; simp [hm]
      · rw [if_neg hnm, ih]
        have : ¬ n = m := fun h => hnm h.symm
        simp [this]

/-- does model (B) really convert this column (declared type different from the dtype)? -/
def ts_needsConvB (ov : List Simulate.Fn) (e : String × Simulate.Col) : Bool :=
  match Simulate.mi_convType ov e.1 with
  | none => false
  | some t => !decide (e.2.dt = t.toDT)

theorem ts_needsConv_embed (types : List (String × Typing.ITy)) (ov : List Simulate.Fn)
    (e : String × Simulate.Col)
    (hty : Typing.lookupTy types e.1 = (Simulate.mi_convType ov e.1).map ts_ity) :
    Typing.needsConv types (e.1, ts_embedCol e.2) = ts_needsConvB ov e := by
  unfold Typing.needsConv ts_needsConvB
  simp only [hty]
  cases Simulate.mi_convType ov e.1 with
  | none => rfl
  | some t => simp only [Option.map_some, ts_hasExpectedType_embed]

theorem ts_filter_needsConv (types : List (String × Typing.ITy)) (ov : List Simulate.Fn)
    (data : List (String × Simulate.Col))
    (hty : ∀ e ∈ data, Typing.lookupTy types e.1 = (Simulate.mi_convType ov e.1).map ts_ity) :
    ((ts_embedTable data).filter (Typing.needsConv types)).map (·.1) =
      (data.filter (ts_needsConvB ov)).map (·.1) := by
  induction data with
  | nil => rfl
  | cons e rest ih =>
    have hET : ts_embedTable (e :: rest) = (e.1, ts_embedCol e.2) :: ts_embedTable rest := rfl
    rw [hET, List.filter_cons, List.filter_cons, ts_needsConv_embed types ov e (hty e List.mem_cons_self)]
    have := ih fun x hx => hty x (List.mem_cons_of_mem _ hx)
    cases ts_needsConvB ov e
    · simpa using this
    · simp only [if_true, List.map_cons, this]

/-! ## acceptance by model (A) implies acceptance by model (B), also for ragged tables -/

theorem ts_groupA_embed_imp (data : List (String × Simulate.Col))
    (h : ts_groupA Typing.supportedGroupings (ts_embedTable data) = true) :
    Simulate.groupSuffixes.all (Simulate.mi_groupOk data) = true := by
  unfold ts_groupA at h
  rw [ts_all_comm] at h
  rw [ts_groupSuffixes, List.all_map]
  rw [List.all_eq_true] at h ⊢
  intro L hL
  have h := h L hL
  simp only [Function.comp]
  unfold Simulate.mi_groupOk
  rw [ts_idName L hL]
  rw [ts_lookup_embed] at h
  cases hid : Simulate.find? data (L ++ "_id") with
  | none => rfl
  | some idc =>
    rw [hid] at h
    simp only [Option.map_some] at h
    unfold ts_embedTable at h
    rw [List.all_map, List.all_eq_true] at h
    simp only
    rw [Bool.not_eq_true', List.any_eq_false]
    intro e he
    have h := h e he
    simp only [Function.comp, ts_embedCol, ts_colConstant_eq, ← ts_endsWith_eq] at h
    simp only [Simulate.Col.rats]
    cases hs : Simulate.endsWith e.1 ("_" ++ L) <;>
      cases hc : Simulate.constantWithinGroups (idc.vals.map VecDtype.numOf) (e.2.vals.map VecDtype.numOf) <;>
      simp [hs, hc] at h ⊢

theorem ts_pidA_embed_imp (data : List (String × Simulate.Col))
    (h : ts_pidA Typing.foreignKeys (ts_embedTable data) = true) :
    (match Simulate.find? data "p_id" with
      | none => false
      | some pid => !Simulate.hasDupRat pid.rats &&
          Simulate.foreignKeys.all (Simulate.mi_fkOk data pid)) = true := by
  unfold ts_pidA at h
  rw [ts_lookup_embed] at h
  cases hp : Simulate.find? data "p_id" with
  | none => rw [hp] at h; exact h
  | some pid =>
    rw [hp] at h
    simp only [Option.map_some, ts_embedCol, ts_allDistinct_eq, ← ts_foreignKeys, Bool.and_eq_true,
      List.all_eq_true] at h
    simp only [Bool.and_eq_true, List.all_eq_true, Simulate.Col.rats]
    refine ⟨h.1, fun k hk => ?_⟩
    have h2 := h.2 k hk
    rw [Simulate.mi_fkOk_iff]
    rw [ts_lookup_embed] at h2
    intro c hc
    rw [hc] at h2
    simp only [Option.map_some, ts_embedCol, ts_fkColValid_iff] at h2
    exact h2.2

theorem ts_checkA_embed_imp (data : List (String × Simulate.Col))
    (h : ts_checkA Typing.supportedGroupings Typing.foreignKeys (ts_embedTable data) = true) :
    Simulate.mi_checkB data = true := by
  unfold ts_checkA at h
  unfold Simulate.mi_checkB
  rw [Bool.and_eq_true, Bool.and_eq_true] at h ⊢
  refine ⟨⟨?_, ts_groupA_embed_imp data h.1.2⟩, ts_pidA_embed_imp data h.2⟩
  rw [← ts_dupColumns_embed]
  exact h.1.1


/-! ## a Boolean test for `ts_TableOK` (for concrete tables) -/

def ts_tableOKb (types : List (String × Typing.ITy)) (ov : List Simulate.Fn)
    (data : List (String × Simulate.Col)) : Bool :=
  data.all fun e =>
    decide (ts_WellTyped e.2) &&
    decide (Typing.lookupTy types e.1 = (Simulate.mi_convType ov e.1).map ts_ity) &&
    match Simulate.mi_convType ov e.1 with
    | none => true
    | some t => decide (ts_InRange t e.2)

theorem ts_tableOK_of_check {types : List (String × Typing.ITy)} {ov : List Simulate.Fn}
    {data : List (String × Simulate.Col)} (h : ts_tableOKb types ov data = true) :
    ts_TableOK types ov data := by
  unfold ts_tableOKb at h
  rw [List.all_eq_true] at h
  refine ⟨fun e he => ?_, fun e he => ?_, fun e he t ht => ?_⟩
  · have := h e he
    simp only [Bool.and_eq_true, decide_eq_true_eq] at this
    exact this.1.1
  · have := h e he
    simp only [Bool.and_eq_true, decide_eq_true_eq] at this
    exact this.1.2
  · have := h e he
    simp only [Bool.and_eq_true, ht, decide_eq_true_eq] at this
    exact this.2

/-- with the table `ts_typesFor` the `types` hypothesis of `ts_TableOK` holds by construction -/
theorem ts_typesFor_ok (ov : List Simulate.Fn) (data : List (String × Simulate.Col)) :
    ∀ e ∈ data, Typing.lookupTy (ts_typesFor ov (data.map (·.1))) e.1 =
      (Simulate.mi_convType ov e.1).map ts_ity := by
  intro e he
  rw [ts_lookupTy_typesFor, if_pos (List.mem_map.mpr ⟨e, he, rfl⟩)]

/-- value-level consequence of `Distinct` on an embedded column -/
theorem ts_distinct_embed (l : List R) :
    Typing.Distinct (l.map ts_embedCell) ↔ (l.map VecDtype.numOf).Nodup := by
  rw [← Typing.allDistinct_iff, ts_allDistinct_eq, Bool.not_eq_true', Simulate.mi_hasDupRat_false]

theorem ts_mem_embedTable {data : List (String × Simulate.Col)} {n : String} {p : Typing.Col}
    (h : (n, p) ∈ ts_embedTable data) : ∃ c, (n, c) ∈ data ∧ p = ts_embedCol c := by
  unfold ts_embedTable at h
  obtain ⟨e, he, heq⟩ := List.mem_map.mp h
  cases heq
  exact ⟨e.2, he, rfl⟩

theorem ts_mem_embedTable_of {data : List (String × Simulate.Col)} {n : String} {c : Simulate.Col}
    (h : (n, c) ∈ data) : (n, ts_embedCol c) ∈ ts_embedTable data :=
  List.mem_map.mpr ⟨(n, c), h, rfl⟩


/-! ## a simple sufficient condition for the range guard -/

/-- every value is at most 2^53 in absolute value -/
def ts_Bounded (c : Simulate.Col) : Prop :=
  ∀ r ∈ c.vals, -(2 ^ 53 : Rat) ≤ VecDtype.numOf r ∧ VecDtype.numOf r ≤ (2 ^ 53 : Rat)

instance (c : Simulate.Col) : Decidable (ts_Bounded c) := by unfold ts_Bounded; infer_instance

theorem ts_int_bounds {v : Int} (h1 : -(2 ^ 53 : Rat) ≤ (v : Rat)) (h2 : (v : Rat) ≤ (2 ^ 53 : Rat)) :
    -(2 ^ 53 : Int) ≤ v ∧ v ≤ (2 ^ 53 : Int) := by
  have e1 : (-(2 ^ 53 : Rat)) = ((-(2 ^ 53 : Int) : Int) : Rat) := by norm_num
  have e2 : ((2 ^ 53 : Rat)) = (((2 ^ 53 : Int) : Int) : Rat) := by norm_num
  rw [e1] at h1
  rw [e2] at h2
  exact ⟨Rat.intCast_le_intCast.mp h1, Rat.intCast_le_intCast.mp h2⟩

theorem ts_inRange_of_bounded (t : Simulate.Ty) (c : Simulate.Col) (h : ts_Bounded c) : ts_InRange t c := by
  intro r hr
  obtain ⟨h1, h2⟩ := h r hr
  cases r with
  | b v => rfl
  | i v =>
    obtain ⟨b1, b2⟩ := ts_int_bounds h1 h2
    simp only [ts_guardCell, Bool.or_eq_true, decide_eq_true_eq]
    right
    omega
  | f q =>
    simp only [ts_guardCell, Bool.or_eq_true, Bool.and_eq_true, decide_eq_true_eq, bne_iff_ne, ne_eq]
    by_cases hden : q.den = 1
    · right
      simp only [VecDtype.numOf] at h1 h2
      rw [← Typing.num_cast_of_den_one hden] at h1 h2
      obtain ⟨b1, b2⟩ := ts_int_bounds h1 h2
      constructor <;> omega
    · exact Or.inl (Or.inr hden)

end GV.TypingSim
