import GettsimVerif.Core.TypeInfer
import GettsimVerif.Lemmas.Sign
/-
Soundness lemmas for the result-kind analysis `GV.TypeInfer` (see `Props/C03Types.lean` for the
theorems meant to be used).
-/
namespace GV.TypeInfer
open GV.Lang
open GV.Sign (bind_ok)

/-! ### sets of kinds -/

namespace KindSet

theorem mem_iff {k : Kind} {s : KindSet} : k ∈ s ↔ s.has k = true := Iff.rfl

@[simp] theorem has_union (a b : KindSet) (k : Kind) : (a ∪ b).has k = (a.has k || b.has k) := by
  cases k <;> rfl

@[simp] theorem has_inter (a b : KindSet) (k : Kind) : (a ∩ b).has k = (a.has k && b.has k) := by
  cases k <;> rfl

@[simp] theorem has_empty (k : Kind) : empty.has k = false := by cases k <;> rfl

theorem not_mem_empty (k : Kind) : ¬ k ∈ empty := by
  simp only [mem_iff, has_empty, Bool.false_eq_true, not_false_eq_true]

theorem mem_single (k : Kind) : k ∈ single k := by cases k <;> rfl

theorem eq_of_mem_single {k k' : Kind} (h : k' ∈ single k) : k' = k := by
  cases k <;> cases k' <;> first | rfl | cases h

theorem mem_union_left {a : KindSet} (b : KindSet) {k : Kind} (h : k ∈ a) : k ∈ a ∪ b := by
  simp only [mem_iff, has_union, Bool.or_eq_true] at h ⊢
  exact Or.inl h

theorem mem_union_right (a : KindSet) {b : KindSet} {k : Kind} (h : k ∈ b) : k ∈ a ∪ b := by
  simp only [mem_iff, has_union, Bool.or_eq_true] at h ⊢
  exact Or.inr h

theorem mem_union {a b : KindSet} {k : Kind} : k ∈ a ∪ b ↔ k ∈ a ∨ k ∈ b := by
  simp only [mem_iff, has_union, Bool.or_eq_true]

theorem mem_inter {a b : KindSet} {k : Kind} : k ∈ a ∩ b ↔ k ∈ a ∧ k ∈ b := by
  simp only [mem_iff, has_inter, Bool.and_eq_true]

theorem mem_bind {s : KindSet} {f : Kind → KindSet} {k k' : Kind} (h1 : k ∈ s) (h2 : k' ∈ f k) :
    k' ∈ s.bind f := by
  simp only [mem_iff] at h1 h2 ⊢
  cases k <;> simp only [has] at h1 <;> simp [bind, h1, h2]

theorem subset_sound {a b : KindSet} (h : a.subset b = true) {k : Kind} (hk : k ∈ a) : k ∈ b := by
  simp only [mem_iff] at hk ⊢
  simp only [subset, Kind.all, List.all_cons, List.all_nil, Bool.and_true, Bool.and_eq_true,
    Bool.or_eq_true, Bool.not_eq_true'] at h
  cases k <;> simp_all

theorem subset_complete {a b : KindSet} (h : ∀ k, k ∈ a → k ∈ b) : a.subset b = true := by
  simp only [mem_iff] at h
  refine List.all_eq_true.mpr (fun k _ => ?_)
  cases hh : a.has k
  · rfl
  · simp only [h k hh, Bool.not_true, Bool.or_true]

theorem mem_toList {s : KindSet} {k : Kind} : k ∈ s.toList ↔ k ∈ s := by
  simp only [toList, Kind.all, List.mem_filter, mem_iff]
  cases k <;> simp

theorem mem_ofList {l : List Kind} {k : Kind} : k ∈ ofList l ↔ k ∈ l := by
  induction l with
  | nil => simp only [ofList, List.not_mem_nil, iff_false]; exact not_mem_empty k
  | cons a rest ih =>
    simp only [ofList, mem_union, ih, List.mem_cons]
    constructor
    · rintro (h | h)
      · exact Or.inl (eq_of_mem_single h)
      · exact Or.inr h
    · rintro (h | h)
      · subst h; exact Or.inl (mem_single _)
      · exact Or.inr h

/-- a member of one of the sets is a member of their union -/
theorem mem_unionL : ∀ {as : List KindSet} {a : KindSet} {k : Kind}, a ∈ as → k ∈ a → k ∈ unionL as
  | _ :: rest, a, k, ha, hk => by
    simp only [unionL]
    cases ha with
    | head => exact mem_union_left _ hk
    | tail _ h => exact mem_union_right _ (mem_unionL h hk)

end KindSet

open KindSet (mem_iff mem_single mem_union_left mem_union_right mem_union mem_inter mem_bind
  mem_unionL)

/-- "the value has one of the kinds" -/
abbrev HasKind (s : KindSet) (v : Val) : Prop := kindOf v ∈ s

/-- the arguments respect the kind sets: one set per argument, and the `i`-th value has one of
the kinds of the `i`-th set -/
abbrev ArgsOK (argKinds : List KindSet) (args : List Val) : Prop :=
  List.Forall₂ HasKind argKinds args

/-! ### transfer functions -/

theorem binKind_sound {op : BinOp} {x y v : Val} (h : evalBin op x y = .ok v) :
    kindOf v ∈ binKind op (kindOf x) (kindOf y) := by
  cases x <;> cases y <;> cases op <;>
    simp [evalBin, num?, binNum, mkNum] at h <;> (try split at h) <;> cases h <;> rfl

theorem tyBin_sound {op : BinOp} {a b : KindSet} {x y v : Val} (hx : kindOf x ∈ a)
    (hy : kindOf y ∈ b) (h : evalBin op x y = .ok v) : kindOf v ∈ tyBin op a b :=
  mem_bind hx (mem_bind hy (binKind_sound h))

theorem negKind_sound {x v : Val} (h : GV.Sym.negVal x = .ok v) :
    kindOf v ∈ negKind (kindOf x) := by
  cases x <;> simp [GV.Sym.negVal, num?, mkNum, pure, Except.pure] at h <;> cases h <;> rfl

theorem floatKind_sound {x v : Val} (h : evalCall "float" [x] = .ok v) :
    kindOf v ∈ floatKind (kindOf x) := by
  rw [GV.Sign.evalCall_float] at h
  cases x <;> simp [num?] at h <;> cases h <;> rfl

theorem absKind_sound {x v : Val} (h : evalCall "abs" [x] = .ok v) :
    kindOf v ∈ absKind (kindOf x) := by
  rw [GV.Sign.evalCall_abs] at h
  cases x <;> simp [num?, mkNum] at h <;> cases h <;> rfl

theorem leafVal_kind (y : GV.Yaml.Y) : kindOf (leafVal y) ∈ leafKinds := by
  unfold leafVal
  split <;> rfl

theorem ite_ok_inv {α : Type} {c : Prop} [Decidable c] {a w : α} {e : Err}
    (h : (if c then Except.ok a else Except.error e) = Except.ok w) : w = a := by
  split at h
  · cases h; rfl
  · cases h

/-- a successful subscript was applied to a parameter tree and yields a leaf value -/
theorem evalSub_sound {c i w : Val} (h : evalSub c i = .ok w) :
    kindOf c = .tree ∧ kindOf w ∈ leafKinds := by
  unfold evalSub at h
  split at h
  · refine ⟨rfl, ?_⟩
    simp only at h
    split at h
    · split at h
      · cases h; exact leafVal_kind _
      · cases h
    · cases h
  · refine ⟨rfl, ?_⟩
    split at h
    · rw [ite_ok_inv h]
      exact leafVal_kind _
    · cases h
  · cases h

theorem tySub_sound {a : KindSet} {c i w : Val} (hc : kindOf c ∈ a) (h : evalSub c i = .ok w) :
    kindOf w ∈ tySub a := by
  obtain ⟨h1, h2⟩ := evalSub_sound h
  rw [h1] at hc
  have : a.tree = true := hc
  simp only [tySub, this, if_true]
  exact h2

theorem intKeyExt_kind {isMax : Bool} {kvs : List (GV.Yaml.Key × GV.Yaml.Y)} {w : Val}
    (h : intKeyExt isMax kvs = .ok w) : kindOf w = .int := by
  unfold intKeyExt at h
  simp only at h
  split at h
  · cases h
  · split at h
    · cases h
    · cases h; rfl

/-- the successful cases of `evalCall` -/
theorem evalCall_cases {f : String} {vs : List Val} {w : Val} (h : evalCall f vs = .ok w) :
    ((f = "max" ∨ f = "min") ∧ ∃ y, vs = [.tree y] ∧ kindOf w = .int) ∨
    ((f = "max" ∨ f = "min") ∧ ∃ a b rest isMax, vs = a :: b :: rest ∧ pickExt isMax vs = .ok w) ∨
    (f = "float" ∧ ∃ x, vs = [x] ∧ evalCall "float" [x] = .ok w) ∨
    (f = "abs" ∧ ∃ x, vs = [x] ∧ evalCall "abs" [x] = .ok w) ∨
    (f = "piecewise_polynomial" ∧ ∃ a b c d, vs = [a, b, c, d] ∧ kindOf w = .flt) := by
  unfold evalCall at h
  split at h
  · exact Or.inl ⟨Or.inl rfl, _, rfl, intKeyExt_kind h⟩
  · exact Or.inl ⟨Or.inr rfl, _, rfl, intKeyExt_kind h⟩
  · exact Or.inr (Or.inl ⟨Or.inl rfl, _, _, _, true, rfl, h⟩)
  · exact Or.inr (Or.inl ⟨Or.inr rfl, _, _, _, false, rfl, h⟩)
  · refine Or.inr (Or.inr (Or.inl ⟨rfl, _, rfl, ?_⟩))
    rw [GV.Sign.evalCall_float]
    exact h
  · refine Or.inr (Or.inr (Or.inr (Or.inl ⟨rfl, _, rfl, ?_⟩)))
    rw [GV.Sign.evalCall_abs]
    exact h
  · refine Or.inr (Or.inr (Or.inr (Or.inr ⟨rfl, _, _, _, _, rfl, ?_⟩)))
    obtain ⟨s, _, h1⟩ := bind_ok h
    split at h1
    · simp only [pure, Except.pure, Except.ok.injEq] at h1
      subst h1
      rfl
    · cases h1
  · cases h

theorem ordered_of_ord {w : Val} {o : Ord3} (h : ord? w = some o) : kindOf w ∈ KindSet.ordered := by
  cases w <;> first | rfl | (simp [ord?, num?] at h)

theorem forall₂_mem {as : List KindSet} {vs : List Val} (hf : List.Forall₂ HasKind as vs)
    {w : Val} (hw : w ∈ vs) : kindOf w ∈ KindSet.unionL as := by
  obtain ⟨a, ha, hk⟩ := GV.Sign.forall₂_mem_left (R := fun v a => HasKind a v) hf.flip w hw
  exact mem_unionL ha hk

theorem tyCall_sound {f : String} {as : List KindSet} {vs : List Val} {w : Val}
    (hf : List.Forall₂ HasKind as vs) (h : evalCall f vs = .ok w) : kindOf w ∈ tyCall f as := by
  rcases evalCall_cases h with ⟨hfn, y, rfl, hk⟩ | ⟨hfn, a, b, rest, isMax, rfl, hp⟩ |
      ⟨rfl, x, rfl, hx⟩ | ⟨rfl, x, rfl, hx⟩ | ⟨rfl, a, b, c, d, rfl, hk⟩
  · cases hf with
    | cons h1 hf' =>
      cases hf'
      have ht : _ = true := h1
      simp only [kindOf, KindSet.has] at ht
      simp only [tyCall, hfn, if_true, ht, hk]
      exact mem_single _
  · have hmem := GV.Sign.pickExt_mem hp
    obtain ⟨o, ho⟩ := GV.Sign.pickExt_all_ord hp w hmem
    have hu := forall₂_mem hf hmem
    cases hf with
    | cons h1 hf' =>
      cases hf' with
      | cons h2 hf'' =>
        simp only [tyCall, hfn, if_true]
        exact mem_inter.mpr ⟨hu, ordered_of_ord ho⟩
  · cases hf with
    | cons h1 hf' =>
      cases hf'
      simp only [tyCall, String.reduceEq, or_self, if_false, if_true]
      exact mem_bind h1 (floatKind_sound hx)
  · cases hf with
    | cons h1 hf' =>
      cases hf'
      simp only [tyCall, String.reduceEq, or_self, if_false, if_true]
      exact mem_bind h1 (absKind_sound hx)
  · cases hf with
    | cons _ hf1 =>
      cases hf1 with
      | cons _ hf2 =>
        cases hf2 with
        | cons _ hf3 =>
          cases hf3 with
          | cons _ hf4 =>
            cases hf4
            simp only [tyCall, String.reduceEq, or_self, if_false, if_true, hk]
            exact mem_single _

/-! ### environments -/

/-- every value the concrete environment binds has one of the kinds the kind environment lists
for that name (in particular every concretely bound name is bound in `Γ`) -/
def EnvOK (Γ : TEnv) (env : Env) : Prop :=
  ∀ n v, env.get? n = some v → kindOf v ∈ Γ.lookup n

theorem TEnv.get?_set (n : String) (v : KindSet) (x : String) : ∀ (Γ : TEnv),
    (Γ.set n v).get? x = if n = x then some v else Γ.get? x
  | [] => by simp only [TEnv.set, TEnv.get?]
  | (k, u) :: rest => by
    simp only [TEnv.set]
    by_cases hkn : k = n
    · subst hkn
      simp only [if_true, TEnv.get?]
      split <;> rfl
    · simp only [hkn, if_false, TEnv.get?, TEnv.get?_set n v x rest]
      by_cases hkx : k = x
      · subst hkx
        have : ¬ n = k := fun h => hkn h.symm
        simp only [if_true, this, if_false]
      · simp only [hkx, if_false]

theorem TEnv.lookup_set (n : String) (v : KindSet) (x : String) (Γ : TEnv) :
    (Γ.set n v).lookup x = if n = x then v else Γ.lookup x := by
  unfold TEnv.lookup
  rw [TEnv.get?_set]
  split <;> rfl

theorem envOK_set {Γ : TEnv} {env : Env} (h : EnvOK Γ env) {x : String} {a : KindSet} {u : Val}
    (hu : kindOf u ∈ a) : EnvOK (Γ.set x a) (env.set x u) := by
  intro n v hv
  rw [GV.Sym.Env.get?_set] at hv
  rw [TEnv.lookup_set]
  split
  · rename_i hxn
    rw [if_pos hxn] at hv
    cases hv
    exact hu
  · rename_i hxn
    rw [if_neg hxn] at hv
    exact h n v hv

theorem TEnv.get?_append (x : String) : ∀ (l₁ l₂ : TEnv),
    TEnv.get? (l₁ ++ l₂) x = match TEnv.get? l₁ x with | some a => some a | none => TEnv.get? l₂ x
  | [], l₂ => rfl
  | (k, a) :: rest, l₂ => by
    simp only [List.cons_append, TEnv.get?]
    by_cases hk : k = x
    · simp only [hk, if_true]
    · simp only [hk, if_false]
      exact TEnv.get?_append x rest l₂

theorem TEnv.get?_map (x : String) (g : String → KindSet → KindSet) : ∀ (l : TEnv),
    TEnv.get? (l.map fun p => (p.1, g p.1 p.2)) x = (TEnv.get? l x).map (g x)
  | [] => rfl
  | (k, a) :: rest => by
    simp only [List.map_cons, TEnv.get?]
    by_cases hk : k = x
    · simp only [hk, if_true, Option.map_some]
    · simp only [hk, if_false]
      exact TEnv.get?_map x g rest

theorem TEnv.get?_filter (x : String) (q : String → Bool) : ∀ (l : TEnv),
    TEnv.get? (l.filter fun p => q p.1) x = if q x then TEnv.get? l x else none
  | [] => by simp only [List.filter_nil, TEnv.get?, ite_self]
  | (k, a) :: rest => by
    by_cases hk : k = x
    · subst hk
      cases hq : q k
      · rw [List.filter_cons_of_neg (by simp only [hq, Bool.false_eq_true, not_false_eq_true])]
        rw [TEnv.get?_filter k q rest, hq]
        simp only [Bool.false_eq_true, if_false]
      · rw [List.filter_cons_of_pos (by simp only [hq])]
        simp only [TEnv.get?, if_true]
    · cases hqk : q k
      · rw [List.filter_cons_of_neg (by simp only [hqk, Bool.false_eq_true, not_false_eq_true])]
        rw [TEnv.get?_filter x q rest]
        simp only [TEnv.get?, hk, if_false]
      · rw [List.filter_cons_of_pos (by simp only [hqk])]
        simp only [TEnv.get?, hk, if_false]
        exact TEnv.get?_filter x q rest

theorem TEnv.lookup_join (Γ₁ Γ₂ : TEnv) (x : String) :
    (Γ₁.join Γ₂).lookup x = Γ₁.lookup x ∪ Γ₂.lookup x := by
  have hm := TEnv.get?_map x (fun n a => a ∪ Γ₂.lookup n) Γ₁
  unfold TEnv.join
  rw [TEnv.lookup, TEnv.get?_append, hm]
  cases h1 : TEnv.get? Γ₁ x with
  | some a => simp only [Option.map_some, Option.getD_some, TEnv.lookup, h1]
  | none =>
    simp only [TEnv.lookup, h1]
    simp only [Option.map_none, Option.getD_none]
    rw [TEnv.get?_filter x (fun n => !Γ₁.bound n)]
    simp only [TEnv.bound, h1, Option.isSome_none, Bool.not_false, if_true]
    cases TEnv.get? Γ₂ x <;> rfl

theorem envOK_join_left {Γ₁ Γ₂ : TEnv} {env : Env} (h : EnvOK Γ₁ env) :
    EnvOK (Γ₁.join Γ₂) env := by
  intro n v hv
  rw [TEnv.lookup_join]
  exact mem_union_left _ (h n v hv)

theorem envOK_join_right {Γ₁ Γ₂ : TEnv} {env : Env} (h : EnvOK Γ₂ env) :
    EnvOK (Γ₁.join Γ₂) env := by
  intro n v hv
  rw [TEnv.lookup_join]
  exact mem_union_right _ (h n v hv)

/-! ### known parameter trees -/

/-- the names listed in `K` are bound to the listed values -/
def KOK (K : Env) (env : Env) : Prop := ∀ n v, K.get? n = some v → env.get? n = some v

theorem kOK_nil (env : Env) : KOK [] env := fun n v h => by cases h

/-- the rule assigns to none of the names listed in `K` -/
def NoAssignS (K : Env) (s : Stmt) : Prop := ∀ n v, K.get? n = some v → assignedS n s = false
def NoAssignB (K : Env) (b : List Stmt) : Prop := ∀ n v, K.get? n = some v → assignedB n b = false

mutual
/-- frame property: a statement changes only the names it assigns to -/
theorem execStmt_frame (n : String) : ∀ (s : Stmt) (env env' : Env) (r : Option Val),
    execStmt env s = .ok (env', r) → assignedS n s = false → env'.get? n = env.get? n
  | .assign x e, env, env', r, h, hn => by
    simp only [execStmt] at h
    obtain ⟨v, _, h1⟩ := bind_ok h
    simp only [pure, Except.pure, Except.ok.injEq, Prod.mk.injEq] at h1
    obtain ⟨rfl, rfl⟩ := h1
    simp only [assignedS, decide_eq_false_iff_not] at hn
    rw [GV.Sym.Env.get?_set, if_neg hn]
  | .aug x op e, env, env', r, h, hn => by
    simp only [execStmt] at h
    cases hx : env.get? x with
    | none =>
      rw [hx] at h
      cases h
    | some old =>
      rw [hx] at h
      simp only [pure, Except.pure, GV.Sym.ok_bind] at h
      obtain ⟨v, _, h1⟩ := bind_ok h
      obtain ⟨res, _, h2⟩ := bind_ok h1
      simp only [Except.ok.injEq, Prod.mk.injEq] at h2
      obtain ⟨rfl, rfl⟩ := h2
      simp only [assignedS, decide_eq_false_iff_not] at hn
      rw [GV.Sym.Env.get?_set, if_neg hn]
  | .ret e, env, env', r, h, hn => by
    simp only [execStmt] at h
    obtain ⟨v, _, h1⟩ := bind_ok h
    simp only [pure, Except.pure, Except.ok.injEq, Prod.mk.injEq] at h1
    obtain ⟨rfl, rfl⟩ := h1
    rfl
  | .ite c body orelse, env, env', r, h, hn => by
    simp only [execStmt] at h
    obtain ⟨tv, _, h1⟩ := bind_ok h
    simp only [assignedS, Bool.or_eq_false_iff] at hn
    split at h1
    · exact execBlock_frame n body env env' r h1 hn.1
    · exact execBlock_frame n orelse env env' r h1 hn.2
  | .expr _, env, env', r, h, hn => by
    simp only [execStmt, pure, Except.pure, Except.ok.injEq, Prod.mk.injEq] at h
    obtain ⟨rfl, rfl⟩ := h
    rfl
  | .other _, env, env', r, h, hn => by
    simp only [execStmt] at h
    cases h
theorem execBlock_frame (n : String) : ∀ (b : List Stmt) (env env' : Env) (r : Option Val),
    execBlock env b = .ok (env', r) → assignedB n b = false → env'.get? n = env.get? n
  | [], env, env', r, h, hn => by
    simp only [execBlock, Except.ok.injEq, Prod.mk.injEq] at h
    obtain ⟨rfl, rfl⟩ := h
    rfl
  | s :: rest, env, env', r, h, hn => by
    simp only [execBlock] at h
    obtain ⟨⟨env1, r1⟩, h1, h2⟩ := bind_ok h
    simp only [assignedB, Bool.or_eq_false_iff] at hn
    have ih1 := execStmt_frame n s env env1 r1 h1 hn.1
    cases r1 with
    | some v =>
      simp only [pure, Except.pure, Except.ok.injEq, Prod.mk.injEq] at h2
      obtain ⟨rfl, rfl⟩ := h2
      exact ih1
    | none =>
      simp only at h2
      rw [execBlock_frame n rest env1 env' r h2 hn.2, ih1]
end

theorem kOK_stmt {K : Env} {s : Stmt} {env env' : Env} {r : Option Val} (hK : KOK K env)
    (hna : NoAssignS K s) (h : execStmt env s = .ok (env', r)) : KOK K env' := by
  intro n v hn
  rw [execStmt_frame n s env env' r h (hna n v hn)]
  exact hK n v hn

theorem kvGet?_mem : ∀ {kvs : List (GV.Yaml.Key × GV.Yaml.Y)} {k : GV.Yaml.Key} {y : GV.Yaml.Y},
    GV.Yaml.kvGet? kvs k = some y → ∃ p ∈ kvs, p.2 = y
  | (k', v) :: rest, k, y, h => by
    simp only [GV.Yaml.kvGet?] at h
    split at h
    · cases h
      exact ⟨_, List.mem_cons_self, rfl⟩
    · obtain ⟨p, hp, hy⟩ := kvGet?_mem h
      exact ⟨p, List.mem_cons_of_mem _ hp, hy⟩

theorem getD_mem {xs : List GV.Yaml.Y} {j : Int} (h : 0 ≤ j ∧ j < xs.length) :
    xs.getD j.toNat .null ∈ xs := by
  have hlt : j.toNat < xs.length := by omega
  rw [List.getD_eq_getElem?_getD, List.getElem?_eq_getElem hlt, Option.getD_some]
  exact List.getElem_mem hlt

/-- a successful subscript yields one of the direct components -/
theorem evalSub_child {c i w : Val} (h : evalSub c i = .ok w) : w ∈ children c := by
  unfold evalSub at h
  split at h
  · simp only at h
    split at h
    · split at h
      · rename_i k _ v hv
        cases h
        obtain ⟨p, hp, rfl⟩ := kvGet?_mem hv
        exact List.mem_map.mpr ⟨p, hp, rfl⟩
      · cases h
    · cases h
  · rename_i xs
    split at h
    · rename_i idx j
      by_cases hj : 0 ≤ (if j < 0 then j + (xs.length : Int) else j) ∧
          (if j < 0 then j + (xs.length : Int) else j) < xs.length
      · have hw : w = leafVal (xs.getD (if j < 0 then j + (xs.length : Int) else j).toNat .null) :=
          ite_ok_inv h
        rw [hw]
        exact List.mem_map.mpr ⟨_, getD_mem hj, rfl⟩
      · have : (Except.error Err.shape : Except Err Val) = .ok w := by
          rw [← h]
          exact (if_neg hj).symm
        cases this
    · cases h
  · cases h

/-- the value of an expression made of constants, known names and subscripts is one of its
possible values -/
theorem kSet_sound {K : Env} {env : Env} (hK : KOK K env) :
    ∀ (e : Expr) (l : List Val) (v : Val), kSet K e = some l → evalExpr env e = .ok v → v ∈ l
  | .const c, l, v, h, he => by
    simp only [kSet, Option.some.injEq] at h
    subst h
    simp only [evalExpr, Except.ok.injEq] at he
    subst he
    exact List.mem_singleton.mpr rfl
  | .name n, l, v, h, he => by
    simp only [kSet, Option.map_eq_some_iff] at h
    obtain ⟨u, hu, rfl⟩ := h
    simp only [evalExpr, hK n u hu, Except.ok.injEq] at he
    subst he
    exact List.mem_singleton.mpr rfl
  | .sub e i, l, v, h, he => by
    simp only [evalExpr] at he
    obtain ⟨c, hc, h1⟩ := bind_ok he
    obtain ⟨k, hk, hs⟩ := bind_ok h1
    simp only [kSet] at h
    split at h
    · cases h
    · rename_i cs hcs
      have hcm := kSet_sound hK e cs c hcs hc
      split at h
      · rename_i ks hks
        have hkm := kSet_sound hK i ks k hks hk
        simp only [Option.some.injEq] at h
        subst h
        exact List.mem_flatMap.mpr ⟨c, hcm, List.mem_filterMap.mpr ⟨k, hkm, by rw [hs]; rfl⟩⟩
      · simp only [Option.some.injEq] at h
        subst h
        exact List.mem_flatMap.mpr ⟨c, hcm, evalSub_child hs⟩
  | .bin _ _ _, l, v, h, _ => by simp only [kSet] at h; cases h
  | .neg _, l, v, h, _ => by simp only [kSet] at h; cases h
  | .cmp _ _, l, v, h, _ => by simp only [kSet] at h; cases h
  | .boolop _ _, l, v, h, _ => by simp only [kSet] at h; cases h
  | .not _, l, v, h, _ => by simp only [kSet] at h; cases h
  | .ifexp _ _ _, l, v, h, _ => by simp only [kSet] at h; cases h
  | .call _ _, l, v, h, _ => by simp only [kSet] at h; cases h
  | .mcall _ _, l, v, h, _ => by simp only [kSet] at h; cases h
  | .isIn _ _ _, l, v, h, _ => by simp only [kSet] at h; cases h
  | .opaque _, l, v, h, _ => by simp only [kSet] at h; cases h

theorem mem_kindsOf {vs : List Val} {v : Val} (h : v ∈ vs) : kindOf v ∈ kindsOf vs :=
  mem_unionL (List.mem_map.mpr ⟨v, h, rfl⟩) (mem_single _)

theorem tySubK_sound {K : Env} {env : Env} (hK : KOK K env) {e idx : Expr} {c i w : Val}
    {fallback : KindSet} (he : evalExpr env e = .ok c) (hi : evalExpr env idx = .ok i)
    (hs : evalSub c i = .ok w) (hfb : kindOf w ∈ fallback) :
    kindOf w ∈ tySubK K e idx fallback := by
  have hfull : evalExpr env (.sub e idx) = .ok w := by
    simp only [evalExpr, he, hi, GV.Sym.ok_bind, hs]
  unfold tySubK
  cases h1 : kSet K (.sub e idx) with
  | some l => exact mem_kindsOf (kSet_sound hK _ l w h1 hfull)
  | none => exact hfb

/-! ### expressions -/

theorem boolKinds_cons_left {a : KindSet} {k : Kind} (h : k ∈ a) :
    ∀ (rest : List KindSet), k ∈ boolKinds (a :: rest)
  | [] => h
  | _ :: _ => mem_union_left _ h

theorem boolKinds_cons_right {a b : KindSet} {rest : List KindSet} {k : Kind}
    (h : k ∈ boolKinds (b :: rest)) : k ∈ boolKinds (a :: b :: rest) :=
  mem_union_right _ h

mutual
theorem tyExpr_ok {K : Env} : ∀ (e : Expr) (Γ : TEnv) (env : Env) (v : Val), EnvOK Γ env →
    KOK K env → evalExpr env e = .ok v → kindOf v ∈ tyExprK K Γ e
  | .const c, Γ, env, v, hag, hK, h => by
    simp only [evalExpr, Except.ok.injEq] at h
    subst h
    simp only [tyExprK]
    exact mem_single _
  | .name n, Γ, env, v, hag, hK, h => by
    simp only [evalExpr] at h
    simp only [tyExprK]
    cases hn : env.get? n with
    | none =>
      rw [hn] at h
      cases h
    | some u =>
      rw [hn] at h
      cases h
      exact hag n _ hn
  | .bin op a b, Γ, env, v, hag, hK, h => by
    simp only [evalExpr] at h
    obtain ⟨x, hx, h1⟩ := bind_ok h
    obtain ⟨y, hy, h2⟩ := bind_ok h1
    simp only [tyExprK]
    exact tyBin_sound (tyExpr_ok a Γ env x hag hK hx) (tyExpr_ok b Γ env y hag hK hy) h2
  | .neg a, Γ, env, v, hag, hK, h => by
    rw [GV.Sym.evalExpr_neg] at h
    obtain ⟨x, hx, h1⟩ := bind_ok h
    simp only [tyExprK]
    exact mem_bind (tyExpr_ok a Γ env x hag hK hx) (negKind_sound h1)
  | .cmp first rest, Γ, env, v, hag, hK, h => by
    simp only [evalExpr] at h
    obtain ⟨x, _, h1⟩ := bind_ok h
    obtain ⟨b, rfl⟩ := GV.Sign.evalChain_bool env rest x v h1
    simp only [tyExprK]
    exact mem_single _
  | .boolop isAnd args, Γ, env, v, hag, hK, h => by
    simp only [evalExpr] at h
    simp only [tyExprK]
    exact tyBool_ok args Γ env isAnd v hag hK h
  | .not a, Γ, env, v, hag, hK, h => by
    simp only [evalExpr] at h
    obtain ⟨x, _, h1⟩ := bind_ok h
    simp only [pure, Except.pure, Except.ok.injEq] at h1
    subst h1
    simp only [tyExprK]
    exact mem_single _
  | .ifexp c a b, Γ, env, v, hag, hK, h => by
    simp only [evalExpr] at h
    obtain ⟨tv, _, h1⟩ := bind_ok h
    simp only [tyExprK]
    split at h1
    · exact mem_union_left _ (tyExpr_ok a Γ env v hag hK h1)
    · exact mem_union_right _ (tyExpr_ok b Γ env v hag hK h1)
  | .call f args, Γ, env, v, hag, hK, h => by
    simp only [evalExpr] at h
    obtain ⟨vs, hvs, h1⟩ := bind_ok h
    simp only [tyExprK]
    exact tyCall_sound (tyArgs_ok args Γ env vs hag hK hvs) h1
  | .mcall _ _, Γ, env, v, hag, hK, h => by
    simp only [evalExpr] at h
    cases h
  | .sub e idx, Γ, env, v, hag, hK, h => by
    simp only [evalExpr] at h
    obtain ⟨c, hc, h1⟩ := bind_ok h
    obtain ⟨i, hi, h2⟩ := bind_ok h1
    simp only [tyExprK]
    exact tySubK_sound hK hc hi h2 (tySub_sound (tyExpr_ok e Γ env c hag hK hc) h2)
  | .isIn e items neg, Γ, env, v, hag, hK, h => by
    rw [GV.Sym.evalExpr_isIn] at h
    obtain ⟨x, _, h1⟩ := bind_ok h
    obtain ⟨vs, _, h2⟩ := bind_ok h1
    obtain ⟨b, rfl⟩ := GV.Sign.isInVal_bool h2
    simp only [tyExprK]
    exact mem_single _
  | .opaque _, Γ, env, v, hag, hK, h => by
    simp only [evalExpr] at h
    cases h
theorem tyBool_ok {K : Env} : ∀ (es : List Expr) (Γ : TEnv) (env : Env) (isAnd : Bool) (v : Val),
    EnvOK Γ env → KOK K env → evalBool env isAnd es = .ok v →
      kindOf v ∈ boolKinds (tyArgsK K Γ es)
  | [], Γ, env, isAnd, v, hag, hK, h => by
    simp only [evalBool, Except.ok.injEq] at h
    subst h
    simp only [tyArgsK, boolKinds]
    exact mem_single _
  | [e], Γ, env, isAnd, v, hag, hK, h => by
    simp only [evalBool] at h
    simp only [tyArgsK, boolKinds]
    exact tyExpr_ok e Γ env v hag hK h
  | e :: e2 :: rest, Γ, env, isAnd, v, hag, hK, h => by
    rw [evalBool] at h
    · obtain ⟨u, hu, h1⟩ := bind_ok h
      have ih1 := tyExpr_ok e Γ env u hag hK hu
      rw [tyArgsK]
      split at h1
      · have ih2 := tyBool_ok (e2 :: rest) Γ env isAnd v hag hK h1
        rw [tyArgsK] at ih2 ⊢
        exact boolKinds_cons_right ih2
      · simp only [pure, Except.pure, Except.ok.injEq] at h1
        subst h1
        exact boolKinds_cons_left ih1 _
    · simp
theorem tyArgs_ok {K : Env} : ∀ (es : List Expr) (Γ : TEnv) (env : Env) (vs : List Val),
    EnvOK Γ env → KOK K env → evalArgs env es = .ok vs →
      List.Forall₂ HasKind (tyArgsK K Γ es) vs
  | [], Γ, env, vs, hag, hK, h => by
    simp only [evalArgs, Except.ok.injEq] at h
    subst h
    simp only [tyArgsK]
    exact .nil
  | e :: rest, Γ, env, vs, hag, hK, h => by
    simp only [evalArgs] at h
    obtain ⟨v, hv, h1⟩ := bind_ok h
    obtain ⟨us, hus, h2⟩ := bind_ok h1
    simp only [pure, Except.pure, Except.ok.injEq] at h2
    subst h2
    simp only [tyArgsK]
    exact .cons (tyExpr_ok e Γ env v hag hK hv) (tyArgs_ok rest Γ env us hag hK hus)
end

/-! ### statements -/

/-- the abstract result describes the concrete outcome of a statement / block -/
def SRes.ok (R : SRes) (env' : Env) (r : Option Val) : Prop :=
  match r with
  | some v => kindOf v ∈ R.ret
  | none => R.falls = true ∧ EnvOK R.env env'

theorem mergeRes_left {R₁ R₂ : SRes} {env' : Env} {r : Option Val}
    (h : SRes.ok R₁ env' r) : SRes.ok (mergeRes R₁ R₂) env' r := by
  cases r with
  | some v => exact mem_union_left (b := R₂.ret) (k := kindOf v) h
  | none =>
    obtain ⟨hf, hag⟩ := h
    refine ⟨by simp only [mergeRes, hf, Bool.true_or], ?_⟩
    simp only [mergeRes, hf, if_true]
    split
    · exact envOK_join_left hag
    · exact hag

theorem mergeRes_right {R₁ R₂ : SRes} {env' : Env} {r : Option Val}
    (h : SRes.ok R₂ env' r) : SRes.ok (mergeRes R₁ R₂) env' r := by
  cases r with
  | some v => exact mem_union_right (a := R₁.ret) (k := kindOf v) h
  | none =>
    obtain ⟨hf, hag⟩ := h
    refine ⟨by simp only [mergeRes, hf, Bool.or_true], ?_⟩
    simp only [mergeRes, hf, if_true]
    split
    · exact envOK_join_right hag
    · exact hag

mutual
theorem tyStmt_ok {K : Env} : ∀ (s : Stmt) (Γ : TEnv) (env env' : Env) (r : Option Val),
    EnvOK Γ env → KOK K env → NoAssignS K s → execStmt env s = .ok (env', r) →
      SRes.ok (tyStmtK K Γ s) env' r
  | .assign x e, Γ, env, env', r, hag, hK, hna, h => by
    simp only [execStmt] at h
    obtain ⟨v, hv, h1⟩ := bind_ok h
    simp only [pure, Except.pure, Except.ok.injEq, Prod.mk.injEq] at h1
    obtain ⟨rfl, rfl⟩ := h1
    simp only [tyStmtK]
    exact ⟨rfl, envOK_set hag (tyExpr_ok e Γ env v hag hK hv)⟩
  | .aug x op e, Γ, env, env', r, hag, hK, hna, h => by
    simp only [execStmt] at h
    cases hx : env.get? x with
    | none =>
      rw [hx] at h
      cases h
    | some old =>
      rw [hx] at h
      simp only [pure, Except.pure, GV.Sym.ok_bind] at h
      obtain ⟨v, hv, h1⟩ := bind_ok h
      obtain ⟨res, hres, h2⟩ := bind_ok h1
      simp only [Except.ok.injEq, Prod.mk.injEq] at h2
      obtain ⟨rfl, rfl⟩ := h2
      simp only [tyStmtK]
      exact ⟨rfl, envOK_set hag (tyBin_sound (hag x old hx) (tyExpr_ok e Γ env v hag hK hv) hres)⟩
  | .ret e, Γ, env, env', r, hag, hK, hna, h => by
    simp only [execStmt] at h
    obtain ⟨v, hv, h1⟩ := bind_ok h
    simp only [pure, Except.pure, Except.ok.injEq, Prod.mk.injEq] at h1
    obtain ⟨rfl, rfl⟩ := h1
    simp only [tyStmtK]
    exact (tyExpr_ok e Γ env v hag hK hv : kindOf v ∈ _)
  | .ite c body orelse, Γ, env, env', r, hag, hK, hna, h => by
    simp only [execStmt] at h
    obtain ⟨tv, _, h1⟩ := bind_ok h
    simp only [tyStmtK]
    split at h1
    · exact mergeRes_left (tyBlock_ok body Γ env env' r hag hK
        (fun n v hn => (Bool.or_eq_false_iff.mp (by simpa only [assignedS] using hna n v hn)).1) h1)
    · exact mergeRes_right (tyBlock_ok orelse Γ env env' r hag hK
        (fun n v hn => (Bool.or_eq_false_iff.mp (by simpa only [assignedS] using hna n v hn)).2) h1)
  | .expr _, Γ, env, env', r, hag, hK, hna, h => by
    simp only [execStmt, pure, Except.pure, Except.ok.injEq, Prod.mk.injEq] at h
    obtain ⟨rfl, rfl⟩ := h
    simp only [tyStmtK]
    exact ⟨rfl, hag⟩
  | .other _, Γ, env, env', r, hag, hK, hna, h => by
    simp only [execStmt] at h
    cases h
theorem tyBlock_ok {K : Env} : ∀ (b : List Stmt) (Γ : TEnv) (env env' : Env) (r : Option Val),
    EnvOK Γ env → KOK K env → NoAssignB K b → execBlock env b = .ok (env', r) →
      SRes.ok (tyBlockK K Γ b) env' r
  | [], Γ, env, env', r, hag, hK, hna, h => by
    simp only [execBlock, Except.ok.injEq, Prod.mk.injEq] at h
    obtain ⟨rfl, rfl⟩ := h
    simp only [tyBlockK]
    exact ⟨rfl, hag⟩
  | s :: rest, Γ, env, env', r, hag, hK, hna, h => by
    simp only [execBlock] at h
    obtain ⟨⟨env1, r1⟩, h1, h2⟩ := bind_ok h
    have hna1 : NoAssignS K s := fun n v hn =>
      (Bool.or_eq_false_iff.mp (by simpa only [assignedB] using hna n v hn)).1
    have hna2 : NoAssignB K rest := fun n v hn =>
      (Bool.or_eq_false_iff.mp (by simpa only [assignedB] using hna n v hn)).2
    have ih1 := tyStmt_ok s Γ env env1 r1 hag hK hna1 h1
    simp only [tyBlockK]
    cases r1 with
    | some v =>
      simp only [pure, Except.pure, Except.ok.injEq, Prod.mk.injEq] at h2
      obtain ⟨rfl, rfl⟩ := h2
      split
      · exact mem_union_left (k := kindOf v) _ ih1
      · exact ih1
    | none =>
      simp only at h2
      obtain ⟨hf, hag1⟩ := ih1
      rw [if_pos hf]
      have ih2 := tyBlock_ok rest _ env1 env' r hag1 (kOK_stmt hK hna1 h1) hna2 h2
      cases r with
      | some v => exact mem_union_right (k := kindOf v) _ ih2
      | none => exact ih2
end

/-! ### functions -/

theorem zip_envOK : ∀ (names : List String) {ks : List KindSet} {vals : List Val},
    List.Forall₂ HasKind ks vals → EnvOK (names.zip ks) (names.zip vals)
  | [], _, _, _ => fun n v h => by cases h
  | _ :: _, _, _, .nil => fun n v h => by cases h
  | x :: ns, a :: as, u :: us, .cons h1 hrest => by
    intro n v hv
    simp only [List.zip_cons_cons, Env.get?, TEnv.lookup, TEnv.get?] at hv ⊢
    by_cases hxn : x = n
    · rw [if_pos hxn] at hv ⊢
      cases hv
      exact h1
    · rw [if_neg hxn] at hv ⊢
      exact zip_envOK ns hrest n v hv

theorem Env.get?_mem : ∀ {K : Env} {n : String} {v : Val}, K.get? n = some v → (n, v) ∈ K
  | (k, u) :: rest, n, v, h => by
    simp only [Env.get?] at h
    split at h
    · rename_i hk
      cases h
      subst hk
      exact List.mem_cons_self
    · exact List.mem_cons_of_mem _ (Env.get?_mem h)

theorem usableK_ok {K : Env} {body : List Stmt} {env : Env} (hK : KOK K env) :
    KOK (usableK K body) env ∧ NoAssignB (usableK K body) body := by
  unfold usableK
  split
  · rename_i hall
    refine ⟨hK, fun n v hn => ?_⟩
    have := List.all_eq_true.mp hall _ (Env.get?_mem hn)
    simpa only [Bool.not_eq_true'] using this
  · exact ⟨kOK_nil _, fun n v hn => by cases hn⟩

theorem tyFunRes_ok {K : Env} {argKinds : List KindSet} {f : FunDef} {args : List Val}
    {env' : Env} {r : Option Val} (ha : ArgsOK argKinds args) (hK : KOK K (f.args.zip args))
    (hb : execBlock (f.args.zip args) f.body = .ok (env', r)) :
    SRes.ok (tyFunResK K argKinds f) env' r :=
  tyBlock_ok f.body _ _ env' r (zip_envOK f.args ha) (usableK_ok hK).1 (usableK_ok hK).2 hb

theorem tyFun_ok {K : Env} {argKinds : List KindSet} {f : FunDef} {args : List Val} {v : Val}
    (ha : ArgsOK argKinds args) (hK : KOK K (f.args.zip args)) (h : runFun f args = .ok v) :
    kindOf v ∈ tyFunK K argKinds f := by
  obtain ⟨_, env', r, hb, rfl⟩ := GV.Sign.runFun_ok h
  have hok := tyFunRes_ok (K := K) ha hK hb
  unfold tyFunK
  cases r with
  | some w => exact mem_union_left (k := kindOf w) _ hok
  | none =>
    obtain ⟨hf, _⟩ := hok
    simp only [hf, if_true, Option.getD_none]
    exact mem_union_right _ (mem_single _)

/-- the block-level statement behind `falls_off`: a run that falls off the end is announced -/
theorem tyFunRes_falls {K : Env} {argKinds : List KindSet} {f : FunDef} {args : List Val}
    {env' : Env} (ha : ArgsOK argKinds args) (hK : KOK K (f.args.zip args))
    (h : execBlock (f.args.zip args) f.body = .ok (env', none)) :
    (tyFunResK K argKinds f).falls = true :=
  (tyFunRes_ok (K := K) ha hK h).1

end GV.TypeInfer
