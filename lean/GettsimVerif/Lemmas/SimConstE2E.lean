import GettsimVerif.Lemmas.SimConst
import GettsimVerif.Lemmas.SimSpecs
/-
Helper lemmas for property C15 at the level of the RESULT TABLE of `simulate`
(`Props/C15E2E.lean`): the constancy induction of `Lemmas/SimConst.lean` over the UNPRUNED system
`fullSys` (rounding specs looked up on demand), and the rendering of a group-constant value.
-/
namespace GV.Simulate
open GV.VecDtype (R DT numOf)
open GV.Lang (Val FunDef)
open GV.TimeConv (TUnit)

/-! ## the constancy induction over `fullSys` -/

/-- `gc_sys_eval_const` for the system `fullSys` of `simulate_value_unpruned` (the node of a
function is `nodeLazy`, i.e. `nodeOf` with the rounding spec looked up on demand) -/
theorem ce_full_eval_const (params : List (String × Val)) (fns : List Fn) (D : Dag.Data Col)
    (gid : List Int) :
    ∀ (k : Nat) (t : String) (v : Col), constNode params fns D gid k t = true →
      Dag.eval (fullSys params fns) D k t = .ok v → ConstOn gid v := by
  intro k
  induction k with
  | zero => intro t v hc; simp [constNode] at hc
  | succ k ih =>
    intro t v hc h
    cases hDt : Dag.find? D t with
    | some c =>
      rw [Dag.eval_succ_of_data hDt] at h
      cases h
      simp only [constNode, hDt] at hc
      exact of_decide_eq_true hc
    | none =>
      cases hf : findFn? fns t with
      | none => simp [constNode, hDt, hf] at hc
      | some f =>
        have hSt : Dag.find? (fullSys params fns) t = some (nodeLazy params f) := by
          rw [ov_find?_fullSys, hf]; rfl
        rw [Dag.eval_succ_of_node hDt hSt] at h
        obtain ⟨args, hargs, h⟩ := bind_ok h
        rw [nodeLazy_deps] at hargs
        simp only [constNode, hDt, hf] at hc
        obtain ⟨name, fargs, ann, kind⟩ := f
        cases kind with
        | rule fn ret key =>
          simp only at hc
          have h' : ruleOp params fn ret _ _ args = .ok v := h
          exact gc_ruleOp_const (gc_evalAll_const (ih ·) hc hargs) h'
        | timeConv src u1 u2 =>
          simp only at hc
          have h' : timeConvOp u1 u2 args = .ok v := h
          exact gc_timeConvOp_const u1 u2 (gc_evalAll_const (ih ·) hc hargs) h'
        | groupAgg a src g =>
          simp only at hc
          have h' : groupAggOp a args = .ok v := h
          refine gc_groupAggOp_list a (fun gcol hg => ?_) h'
          unfold gc_gidOK at hc
          cases hl : (freeArgs params ⟨name, fargs, ann, .groupAgg a src g⟩).getLast? with
          | none => rw [hl] at hc; cases hc
          | some g' =>
            rw [hl] at hc
            simp only at hc
            cases hD' : Dag.find? D g' with
            | none => rw [hD'] at hc; cases hc
            | some gc =>
              rw [hD'] at hc
              have hev := gc_forall₂_getLast? ((Dag.evalAll_ok_iff _ _ _).1 hargs) hl hg
              cases k with
              | zero => simp [Dag.eval] at hev
              | succ k =>
                rw [Dag.eval_succ_of_data hD'] at hev
                cases hev
                have := of_decide_eq_true hc
                exact ⟨this.2, this.1⟩
        | pidSum src ptr => simp at hc
        | grouping g => simp at hc

/-! ## rendering -/

/-- the rendering (pointwise `rToVal`, scalars broadcast to `n` rows) of a `gid`-constant value is
`gid`-constant, provided the id list has at most `n` rows -/
theorem ce_render_kerLe {gid : List Int} {n : Nat} {c : Col} (hn : gid.length ≤ n)
    (h : ConstOn gid c) : KerLe gid (render n c) := by
  unfold render
  rcases h with hs | ⟨_, hk⟩
  · have hs' : c.scalar = true := hs
    rw [if_pos hs']
    rw [gc_kerLe_iff_bounded]
    intro i hi j hj _
    rw [List.getElem?_replicate, List.getElem?_replicate, if_pos (by omega), if_pos (by omega)]
  · by_cases hs : c.scalar = true
    · rw [if_pos hs, gc_kerLe_iff_bounded]
      intro i hi j hj _
      rw [List.getElem?_replicate, List.getElem?_replicate, if_pos (by omega), if_pos (by omega)]
    · rw [if_neg hs]
      exact gc_kerLe_map _ hk

/-! ## explicitly specified aggregations (`max`, `min`, `any`, `all`, `count`) at table level -/

theorem ce_groupAggOp_args {a : Aggr} {args : List Col} {out : Col} (h : groupAggOp a args = .ok out)
    (ha : a ≠ .count) : ∃ col gid, args = [col, gid] := by
  unfold groupAggOp at h
  split at h
  · have : (a != Aggr.count) = true := by simpa using ha
    rw [if_pos this] at h
    cases h
  · exact ⟨_, _, rfl⟩
  · cases h

theorem ce_aggBody_arr {a : Aggr} {col gid out : Col} (h : aggBody a col gid = .ok out) :
    out.shape = .arr := by
  cases a <;> simp only [aggBody] at h
  all_goals first
    | cases h
    | (obtain ⟨r, _, h⟩ := bind_ok h; cases h; rfl)

/-- a successful aggregation other than `sum` has a non-scalar source, which is aggregated as it is -/
theorem ce_groupAggOp_nonsum {a : Aggr} {col gid out : Col} (h : groupAggOp a [col, gid] = .ok out)
    (ha : a ≠ .sum) : col.scalar = false ∧ aggBody a col gid = .ok out := by
  rw [groupAggOp_two] at h
  cases hg : aggGuard a col gid with
  | some e => rw [hg] at h; cases h
  | none =>
    rw [hg] at h
    have hsc : col.scalar = false := by
      cases hsc : col.scalar with
      | false => rfl
      | true =>
        exfalso
        unfold aggGuard at hg
        simp only at hg
        have hne : (a != Aggr.sum) = true := by simpa using ha
        rw [hsc, hne] at hg
        simp only [Bool.and_self, if_true] at hg
        repeat (first | contradiction | split at hg)
    refine ⟨hsc, ?_⟩
    have : bcast col gid = col := by
      unfold bcast
      rw [hsc]
      rfl
    rw [this] at h
    exact h

/-- the table-level content of a requested explicitly specified aggregation (not `sum`, not
`count`) whose id column is a data column and whose source column is requested -/
theorem ce_group_agg_core {inp : Input} {tbl : Table} {pr : Prep} {f : Fn} {a : Aggr} {s x gid : String}
    {g : Col} (h : simulate inp = .ok tbl) (hs : s ∈ inp.targets) (hx : x ∈ inp.targets)
    (hpr : sp_prep inp = .ok pr) (hf : findFn? pr.fns x = some f)
    (hk : f.kind = .groupAgg a (some s) gid) (ha : a ≠ .sum) (hac : a ≠ .count)
    (hg : Dag.find? pr.data gid = some g) :
    ∃ col out, ov_Typed col ∧ find? tbl s = some (col.vals.map rToVal) ∧
      aggBody a col g = .ok out ∧ find? tbl x = some (out.vals.map rToVal) := by
  obtain ⟨out, args, _, hcx, hargs, hop⟩ := sp_target_unfold' h hx hpr hf
  have hop' : groupAggOp a args = .ok out := by
    rw [← (nodeOf_ops inp.params _ f).2.1 a (some s) gid hk]; exact hop
  have hargs_f : f.args = [s, gid] := ((sp_prepare_kinds hpr f (findFn?_some hf).1).2.1 a s gid hk).1
  obtain ⟨col, gidc, rfl⟩ := ce_groupAggOp_args hop' hac
  have hfree : freeArgs inp.params f = [s, gid] := by
    rw [← hargs_f]
    apply sp_freeArgs_full
    rw [hargs.length_eq, hargs_f]
    rfl
  rw [hfree] at hargs
  cases hargs with
  | cons hcol hrest =>
    cases hrest with
    | cons hgid _ =>
      have := sp_value_data hpr hgid hg
      subst this
      obtain ⟨hsc, hbody⟩ := ce_groupAggOp_nonsum hop' ha
      have hshape : col.shape = .arr := (scalar_false_iff col).1 hsc
      refine ⟨col, out, sp_value_typed hpr hcol, ?_, hbody, ?_⟩
      · rw [sp_col_of_value h hpr hs hcol, ov_render_arr _ _ hshape]
      · rw [hcx, ov_render_arr _ _ (ce_aggBody_arr hbody)]

theorem ce_grouped_len {α : Type} {f : α → α → α} {dflt : α} {col : List α} {gid : List Int}
    {r : List α} (h : Agg.grouped f dflt col gid = .ok r) : gid.length = col.length := by
  unfold Agg.grouped Agg.guard at h
  split at h
  · obtain ⟨_, h', _⟩ := bind_ok h; cases h'
  · rename_i hne
    exact Decidable.of_not_not hne

/-- the generic shape of the five aggregation bodies: a grouped reduction, then a pointwise map -/
theorem ce_agg_finish {α : Type} {f : α → α → α} {dflt : α} {col : List α} {gid : List Int}
    {dt : DT} {w : α → R} {out : Col}
    (h : (Agg.grouped f dflt col gid >>= fun r => pure ({ dt := dt, vals := r.map w } : Col)) = .ok out) :
    gid.length = col.length ∧
    out.vals = gid.map fun k => w (Agg.groupVal f dflt (Agg.members gid col k)) := by
  obtain ⟨r, hr, h⟩ := bind_ok h
  cases h
  refine ⟨ce_grouped_len hr, ?_⟩
  rw [Agg.grouped_ok_eq _ _ _ _ r hr, List.map_map]
  rfl

theorem ce_aggBody_max {col gid out : Col} (h : aggBody .max col gid = .ok out) :
    gid.ints.length = col.rats.length ∧
    out.vals = gid.ints.map fun k => ofRat col.dt (Agg.groupVal max 0 (Agg.members gid.ints col.rats k)) :=
  ce_agg_finish h

theorem ce_aggBody_min {col gid out : Col} (h : aggBody .min col gid = .ok out) :
    gid.ints.length = col.rats.length ∧
    out.vals = gid.ints.map fun k => ofRat col.dt (Agg.groupVal min 0 (Agg.members gid.ints col.rats k)) :=
  ce_agg_finish h

theorem ce_aggBody_any {col gid out : Col} (h : aggBody .any col gid = .ok out) :
    gid.ints.length = col.bools.length ∧
    out.vals = gid.ints.map fun k => R.b ((Agg.members gid.ints col.bools k).any id) := by
  obtain ⟨h1, h2⟩ := ce_agg_finish (w := R.b) h
  refine ⟨h1, ?_⟩
  rw [h2]
  simp only [Agg.groupVal_or]

theorem ce_aggBody_all {col gid out : Col} (h : aggBody .all col gid = .ok out) :
    gid.ints.length = col.bools.length ∧
    out.vals = gid.ints.map fun k => R.b ((Agg.members gid.ints col.bools k).all id) := by
  obtain ⟨h1, h2⟩ := ce_agg_finish (w := R.b) h
  refine ⟨h1, ?_⟩
  rw [h2]
  simp only [Agg.groupVal_and]

theorem ce_rats_of_flt (c : Col) (qs : List Rat) (h : c.vals = qs.map R.f) : c.rats = qs := by
  unfold Col.rats
  rw [h, List.map_map]
  have : (numOf ∘ R.f) = id := rfl
  rw [this, List.map_id]

theorem ce_bools_of_bool (c : Col) (bs : List Bool) (h : c.vals = bs.map R.b) : c.bools = bs := by
  unfold Col.bools
  rw [h, List.map_map]
  conv => rhs; rw [← List.map_id bs]
  apply List.map_congr_left
  intro b _
  cases b <;> decide

/-- `grouped_count`: every row gets the number of rows with the same id (as a float) -/
theorem ce_groupAggOp_count {gid out : Col} (h : groupAggOp .count [gid] = .ok out) :
    out.shape = .arr ∧
    out.vals = gid.ints.map fun k => R.f (((Agg.members gid.ints gid.ints k).length : Int) : Rat) := by
  simp only [groupAggOp] at h
  split_ifs at h
  obtain ⟨r, hr, h⟩ := bind_ok h
  cases h
  refine ⟨rfl, ?_⟩
  unfold Agg.groupedCount at hr
  rw [Agg.grouped_ok_eq _ _ _ _ r hr, List.map_map]
  apply List.map_congr_left
  intro k _
  simp only [Function.comp, Agg.groupVal_add, Agg.members_map, Agg.sum_map_one]

/-- the table-level content of a requested `count` aggregation whose id column is a data column -/
theorem ce_group_count_core {inp : Input} {tbl : Table} {pr : Prep} {f : Fn} {x gid : String}
    {g : Col} (h : simulate inp = .ok tbl) (hx : x ∈ inp.targets)
    (hpr : sp_prep inp = .ok pr) (hf : findFn? pr.fns x = some f)
    (hk : f.kind = .groupAgg .count none gid) (hg : Dag.find? pr.data gid = some g) :
    find? tbl x = some (g.ints.map fun k =>
      Val.flt (((Agg.members g.ints g.ints k).length : Int) : Rat)) := by
  obtain ⟨out, args, _, hcx, hargs, hop⟩ := sp_target_unfold' h hx hpr hf
  have hop' : groupAggOp .count args = .ok out := by
    rw [← (nodeOf_ops inp.params _ f).2.1 .count none gid hk]; exact hop
  have hargs_f : f.args = [gid] := ((sp_prepare_kinds hpr f (findFn?_some hf).1).2.2 .count gid hk).1
  have hle : args.length ≤ 1 := by
    rw [← hargs.length_eq]
    have : (freeArgs inp.params f).length ≤ f.args.length := List.length_filter_le _ _
    rw [hargs_f] at this
    exact this
  match args, hargs, hop', hle with
  | [], _, hop', _ => cases hop'
  | [gidc], hargs, hop', _ =>
    have hfree : freeArgs inp.params f = [gid] := by
      rw [← hargs_f]
      apply sp_freeArgs_full
      rw [hargs.length_eq, hargs_f]
      rfl
    rw [hfree] at hargs
    cases hargs with
    | cons hgid _ =>
      have := sp_value_data hpr hgid hg
      subst this
      obtain ⟨hshape, hvals⟩ := ce_groupAggOp_count hop'
      rw [hcx, ov_render_arr _ _ hshape, hvals, List.map_map]
      rfl
  | _ :: _ :: _, _, _, hle => simp at hle

end GV.Simulate
