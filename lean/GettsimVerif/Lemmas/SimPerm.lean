import GettsimVerif.Core.Simulate
import GettsimVerif.Lemmas.Simulate
import GettsimVerif.Lemmas.DagCols
import GettsimVerif.Props.C11
import Mathlib.Tactic.SplitIfs
import Mathlib.Data.List.Nodup
import Mathlib.Data.List.Perm.Subperm
/-
Helper lemmas for property C01 on the CONCRETE node operations of `Core/Simulate.lean`:
permuting the rows of all input columns permutes the rows of the result identically.
-/
namespace GV.Simulate
open GV.VecDtype (R DT numOf)
open GV.Lang (Val FunDef)
open GV.TimeConv (TUnit)

/-! ## definitions -/

/-- gather the entries of `l` by the index list `σ` (`l[σ]` in numpy) -/
def permList {α : Type} [Inhabited α] (σ : List Nat) (l : List α) : List α :=
  σ.map fun i => l.getD i default

/-- permute the rows of a column; scalars (0-d arrays, numpy scalars, Python numbers) have no rows -/
def Col.permute (σ : List Nat) (c : Col) : Col :=
  if c.scalar then c else { c with vals := permList σ c.vals }

/-- a column is a scalar or has exactly `n` rows -/
def ColOK (n : Nat) (c : Col) : Prop := c.scalar = false → c.vals.length = n

/-- every non-scalar column has exactly `n` rows -/
def ColsOK (n : Nat) (cols : List Col) : Prop := ∀ c ∈ cols, ColOK n c

instance (n : Nat) (c : Col) : Decidable (ColOK n c) := by unfold ColOK; infer_instance
instance (n : Nat) (cols : List Col) : Decidable (ColsOK n cols) := by unfold ColsOK; infer_instance

deriving instance DecidableEq for Col

/-! ## the stages of `ruleOp` for a declared return type -/

/-- the per-row call inside `ruleOp` -/
def rowFn (params : List (String × Val)) (fn : FunDef) (free : List String) (cols : List Col)
    (i : Nat) : Except Err Val :=
  let npArgs := npFlags free fn.args cols
  let args := rowArgs params free i fn.args cols
  if npArgs.any id then
    match runNumpy fn (args.zip npArgs |>.map fun (v, np) => ({ v, np } : PV)) with
    | .ok v => .ok v
    | .error (.err e) => .error e
    | .error .nan => .error .other
  else Lang.runFun fn args

/-- assembling the output array of `numpy.vectorize(f, otypes=[ty])` -/
def mkOut (fn : FunDef) (ty : Ty) (n? : Option Nat) (rs : List R) : Except Err Col :=
  if fn.args.isEmpty then
    match rs with
    | r :: _ => pure { dt := VecDtype.dtypeOf r, vals := [r], shape := .pyScalar }
    | [] => throw Err.other
  else
    match VecDtype.vectorize (some ty.toDT) rs with
    | some (dt, vals) => pure { dt, vals, shape := if n?.isNone then .arr0 else .arr }
    | none => throw Err.valueError

/-- a Python float has no `.round()` -/
def finishBad (fn : FunDef) (s : RSpec) : Bool :=
  fn.args.isEmpty && (match s.base, s.off, s.direction with
    | .num _, none, .str "nearest" => true
    | .num _, some (.num _), .str "nearest" => true
    | _, _, _ => false)

/-- the rounding wrapper -/
def finish (fn : FunDef) (spec : Option RSpec) (out : Col) : Except Err Col :=
  match spec with
  | none => pure out
  | some s =>
    if finishBad fn s then throw Err.other
    else do
      let vals ← out.vals.mapM fun r => do pure (R.f (← roundWith s (numOf r)))
      pure { out with dt := .float, vals, shape := if out.scalar then .npScalar else .arr }

theorem ruleOp_declared (params : List (String × Val)) (fn : FunDef) (ty : Ty)
    (spec : Option RSpec) (free : List String) (cols : List Col) :
    ruleOp params fn (some ty) spec free cols =
      (broadcastLen cols >>= fun n? =>
        (List.range (n?.getD 1)).mapM (rowFn params fn free cols) >>= fun raw =>
          raw.mapM resultToR >>= fun rs =>
            mkOut fn ty n? rs >>= fun out => finish fn spec out) := by
  unfold ruleOp
  refine bind_congr (fun n? => ?_)
  simp only [Option.isSome_some, Bool.true_or, if_true, pure_bind]
  refine bind_congr (fun raw => ?_)
  refine bind_congr (fun rs => ?_)
  unfold mkOut finish finishBad
  cases fn.args.isEmpty <;> cases rs <;> cases spec <;> rfl


/-! ## gathering by an index list -/

section permList
variable {α : Type} [Inhabited α]

theorem permList_eq (σ : List Nat) (l : List α) : permList σ l = Dag.permute σ l := rfl

@[simp] theorem permList_length (σ : List Nat) (l : List α) : (permList σ l).length = σ.length := by
  simp [permList]

@[simp] theorem permList_nil (l : List α) : permList [] l = [] := rfl

theorem permList_cons (i : Nat) (σ : List Nat) (l : List α) :
    permList (i :: σ) l = l.getD i default :: permList σ l := rfl

theorem permList_getD (σ : List Nat) (l : List α) (j : Nat) (hj : j < σ.length) :
    (permList σ l).getD j default = l.getD σ[j] default := Dag.permute_getD σ l j hj

theorem permList_map {γ : Type} [Inhabited γ] (σ : List Nat) (l : List α) (g : α → γ)
    (h : ∀ i ∈ σ, i < l.length) : permList σ (l.map g) = (permList σ l).map g :=
  Dag.permute_map σ l g h

theorem permList_perm (σ : List Nat) (l : List α) (hσ : σ.Perm (List.range l.length)) :
    (permList σ l).Perm l := Dag.permute_perm σ l hσ

theorem permList_mem (σ : List Nat) (l : List α) (h : ∀ i ∈ σ, i < l.length) :
    ∀ x ∈ permList σ l, x ∈ l := Dag.permute_mem σ l h

theorem perm_valid {σ : List Nat} {n : Nat} (hσ : σ.Perm (List.range n)) : ∀ i ∈ σ, i < n :=
  fun _ hi => List.mem_range.1 (hσ.mem_iff.1 hi)

theorem perm_length {σ : List Nat} {n : Nat} (hσ : σ.Perm (List.range n)) : σ.length = n := by
  simpa using hσ.length_eq

theorem getD_of_lt (l : List α) (i : Nat) (h : i < l.length) : l.getD i default = l[i] := by
  simp [List.getD_eq_getElem?_getD, h]

omit [Inhabited α] in
theorem mapM_length {β : Type} (f : α → Except Err β) (l : List α) (out : List β)
    (h : l.mapM f = .ok out) : out.length = l.length :=
  ((Dag.mapM_ok_iff f l out).1 h).length_eq.symm

/-- a successful `mapM` commutes with a gather by valid indices -/
theorem mapM_permList {β : Type} [Inhabited β] (f : α → Except Err β) (l : List α) (out : List β)
    (h : l.mapM f = .ok out) (σ : List Nat) (hσ : ∀ i ∈ σ, i < l.length) :
    (permList σ l).mapM f = .ok (permList σ out) := by
  have hlen := mapM_length f l out h
  rw [Dag.mapM_ok_iff] at h ⊢
  rw [List.forall₂_iff_get] at h
  simp only [permList, List.forall₂_map_left_iff, List.forall₂_map_right_iff, List.forall₂_same]
  intro i hi
  have hi' := hσ i hi
  rw [getD_of_lt l i hi', getD_of_lt out i (hlen ▸ hi')]
  exact h.2 i hi' (hlen ▸ hi')

theorem permList_zipWith {β γ : Type} [Inhabited β] [Inhabited γ] (g : α → β → γ) (σ : List Nat)
    (l : List α) (l' : List β) (h : ∀ i ∈ σ, i < l.length) (h' : ∀ i ∈ σ, i < l'.length) :
    permList σ (List.zipWith g l l') = List.zipWith g (permList σ l) (permList σ l') := by
  induction σ with
  | nil => rfl
  | cons i σ ih =>
    have hi := h i List.mem_cons_self
    have hi' := h' i List.mem_cons_self
    rw [permList_cons, permList_cons, permList_cons, List.zipWith_cons_cons,
      ih (fun j hj => h j (List.mem_cons_of_mem _ hj)) (fun j hj => h' j (List.mem_cons_of_mem _ hj))]
    congr 1
    rw [getD_of_lt l i hi, getD_of_lt l' i hi', getD_of_lt _ i (by simp; omega)]
    simp

end permList

/-! ## columns -/

theorem Col.permute_of_scalar {σ : List Nat} {c : Col} (h : c.scalar = true) : c.permute σ = c := by
  simp [Col.permute, h]

theorem Col.permute_of_arr {σ : List Nat} {c : Col} (h : c.scalar = false) :
    c.permute σ = { c with vals := permList σ c.vals } := by
  simp [Col.permute, h]

@[simp] theorem Col.shape_permute (σ : List Nat) (c : Col) : (c.permute σ).shape = c.shape := by
  unfold Col.permute; split <;> rfl

@[simp] theorem Col.dt_permute (σ : List Nat) (c : Col) : (c.permute σ).dt = c.dt := by
  unfold Col.permute; split <;> rfl

@[simp] theorem Col.scalar_permute (σ : List Nat) (c : Col) : (c.permute σ).scalar = c.scalar := by
  simp [Col.scalar]

theorem Col.vals_permute_of_arr {σ : List Nat} {c : Col} (h : c.scalar = false) :
    (c.permute σ).vals = permList σ c.vals := by
  rw [Col.permute_of_arr h]

theorem Col.at_permute (σ : List Nat) (c : Col) (k : Nat) (hk : k < σ.length) :
    (c.permute σ).at k = c.at σ[k] := by
  cases h : c.scalar with
  | true => rw [Col.permute_of_scalar h]; simp [Col.at, h]
  | false =>
    simp only [Col.at, Col.scalar_permute, h, Bool.false_eq_true, if_false,
      Col.vals_permute_of_arr h]
    exact permList_getD σ c.vals k hk

theorem ColOK.permute {n : Nat} {c : Col} (σ : List Nat) (hn : σ.length = n) :
    ColOK n (c.permute σ) := by
  intro h
  rw [Col.scalar_permute] at h
  rw [Col.vals_permute_of_arr h, permList_length, hn]

theorem ColsOK.permute {n : Nat} (cols : List Col) (σ : List Nat) (hn : σ.length = n) :
    ColsOK n (cols.map (Col.permute σ)) := by
  intro c hc
  obtain ⟨c0, _, rfl⟩ := List.mem_map.1 hc
  exact ColOK.permute σ hn

theorem ColsOK.tail {n : Nat} {c : Col} {cols : List Col} (h : ColsOK n (c :: cols)) : ColsOK n cols :=
  fun c' hc' => h c' (List.mem_cons_of_mem _ hc')

theorem ColsOK.head {n : Nat} {c : Col} {cols : List Col} (h : ColsOK n (c :: cols)) : ColOK n c :=
  h c List.mem_cons_self

theorem map_permute_of_all_scalar (σ : List Nat) (cols : List Col)
    (h : ∀ c ∈ cols, c.scalar = true) : cols.map (Col.permute σ) = cols := by
  conv => rhs; rw [← List.map_id cols]
  apply List.map_congr_left
  intro c hc
  exact Col.permute_of_scalar (h c hc)

/-! ## `broadcastLen`, `npFlags`, `rowArgs` -/

theorem broadcastLen_ok {n : Nat} {cols : List Col} (h : ColsOK n cols) :
    broadcastLen cols = .ok (if (cols.filter (!·.scalar)) = [] then none else some n) := by
  unfold broadcastLen
  cases hf : cols.filter (!·.scalar) with
  | nil => rfl
  | cons c rest =>
    have hmem : ∀ c' ∈ c :: rest, c'.vals.length = n := by
      intro c' hc'
      rw [← hf, List.mem_filter] at hc'
      exact h c' hc'.1 (by simpa using hc'.2)
    have hall : rest.all (·.vals.length = c.vals.length) = true := by
      simp only [List.all_eq_true, decide_eq_true_eq]
      intro c' hc'
      rw [hmem c' (List.mem_cons_of_mem _ hc'), hmem c List.mem_cons_self]
    show (if rest.all (·.vals.length = c.vals.length) then
        Except.ok (some c.vals.length) else Except.error Err.shape) = _
    rw [if_pos hall, hmem c List.mem_cons_self]
    simp

theorem filter_nonscalar_permute (σ : List Nat) (cols : List Col) :
    ((cols.map (Col.permute σ)).filter (!·.scalar)) = [] ↔ (cols.filter (!·.scalar)) = [] := by
  simp [List.filter_eq_nil_iff]

theorem broadcastLen_permute {n : Nat} {cols : List Col} (h : ColsOK n cols) (σ : List Nat)
    (hn : σ.length = n) : broadcastLen (cols.map (Col.permute σ)) = broadcastLen cols := by
  rw [broadcastLen_ok h, broadcastLen_ok (ColsOK.permute cols σ hn)]
  simp only [filter_nonscalar_permute]

theorem npFlags_permute (σ : List Nat) (free as : List String) :
    ∀ cols : List Col, npFlags free as (cols.map (Col.permute σ)) = npFlags free as cols := by
  induction as with
  | nil => intro cols; rfl
  | cons a as ih =>
    intro cols
    cases cols with
    | nil => rfl
    | cons c cs =>
      simp only [npFlags, List.map_cons]
      split
      · rw [ih cs]; simp
      · rw [← List.map_cons, ih (c :: cs)]

theorem rowArgs_permute (params : List (String × Val)) (σ : List Nat) (free as : List String)
    (k : Nat) (hk : k < σ.length) :
    ∀ cols : List Col, rowArgs params free k as (cols.map (Col.permute σ)) =
      rowArgs params free σ[k] as cols := by
  induction as with
  | nil => intro cols; rfl
  | cons a as ih =>
    intro cols
    cases cols with
    | nil =>
      have := ih []
      simp only [List.map_nil] at this
      simp only [rowArgs, List.map_nil, this]
    | cons c cs =>
      simp only [rowArgs, List.map_cons]
      split
      · rw [ih cs, Col.at_permute σ c k hk]
      · rw [← List.map_cons, ih (c :: cs)]

theorem rowFn_permute (params : List (String × Val)) (fn : FunDef) (σ : List Nat)
    (free : List String) (cols : List Col) (k : Nat) (hk : k < σ.length) :
    rowFn params fn free (cols.map (Col.permute σ)) k = rowFn params fn free cols σ[k] := by
  simp only [rowFn, npFlags_permute, rowArgs_permute params σ free fn.args k hk]

/-- without arguments the per-row call does not look at the columns at all -/
theorem rowFn_noargs (params : List (String × Val)) (fn : FunDef) (free : List String)
    (cols cols' : List Col) (i j : Nat) (h : fn.args = []) :
    rowFn params fn free cols i = rowFn params fn free cols' j := by
  simp only [rowFn, h, npFlags, rowArgs]

/-! ## `ruleOp` with a declared return type -/

theorem ok_bind {α β : Type} (a : α) (f : α → Except Err β) : (Except.ok a >>= f) = f a := rfl

theorem finish_scalar {fn : FunDef} {spec : Option RSpec} {out res : Col}
    (h : finish fn spec out = .ok res) (hs : out.scalar = true) : res.scalar = true := by
  unfold finish at h
  cases spec with
  | none => cases h; exact hs
  | some s =>
    simp only at h
    by_cases hc : finishBad fn s = true
    · rw [if_pos hc] at h; cases h
    · rw [if_neg hc] at h
      obtain ⟨vals, _, h⟩ := bind_ok h
      cases h
      simp only [hs, if_true]
      rfl

theorem finish_perm {n : Nat} {σ : List Nat} (hσ : ∀ i ∈ σ, i < n)
    {fn : FunDef} {spec : Option RSpec} {out res : Col} (hout : ColOK n out)
    (h : finish fn spec out = .ok res) :
    finish fn spec (out.permute σ) = .ok (res.permute σ) ∧ ColOK n res := by
  cases hs : out.scalar with
  | true =>
    have hr := finish_scalar h hs
    rw [Col.permute_of_scalar hs, Col.permute_of_scalar hr]
    exact ⟨h, fun h' => by rw [hr] at h'; cases h'⟩
  | false =>
    have hlen := hout hs
    unfold finish at h ⊢
    cases spec with
    | none => cases h; exact ⟨rfl, hout⟩
    | some s =>
      simp only at h ⊢
      by_cases hc : finishBad fn s = true
      · rw [if_pos hc] at h; cases h
      · rw [if_neg hc] at h ⊢
        obtain ⟨vals, hvals, h⟩ := bind_ok h
        cases h
        have hvl := mapM_length _ _ _ hvals
        have := mapM_permList _ _ _ hvals σ (by rw [hlen]; exact hσ)
        rw [Col.vals_permute_of_arr hs, this, ok_bind]
        refine ⟨?_, fun _ => by simp only [hvl, hlen]⟩
        simp only [pure, Except.pure, Col.scalar_permute, hs]
        rw [Col.permute_of_arr (by simp [Col.scalar])]

theorem mkOut_nonempty {fn : FunDef} (ty : Ty) (n? : Option Nat) (rs : List R) (hE : fn.args ≠ []) :
    mkOut fn ty n? rs = .ok
      { dt := ty.toDT, vals := rs.map (VecDtype.cast ty.toDT), shape := if n?.isNone then .arr0 else .arr } := by
  have : fn.args.isEmpty = false := by simpa using hE
  simp only [mkOut, this]
  rfl

theorem mkOut_scalar {fn : FunDef} {ty : Ty} {n? : Option Nat} {rs : List R} {o : Col}
    (h : mkOut fn ty n? rs = .ok o) (hc : fn.args = [] ∨ n? = none) : o.scalar = true := by
  by_cases hE : fn.args = []
  · simp only [mkOut, hE, List.isEmpty_nil, if_true] at h
    cases rs with
    | nil => cases h
    | cons r rs => cases h; rfl
  · rw [mkOut_nonempty ty n? rs hE] at h
    rcases hc with hc | hc
    · exact absurd hc hE
    · subst hc; cases h; rfl

/-- `ruleOp` with a declared return type: permuting the rows of the inputs permutes the rows of
the result; moreover the result is a scalar or has `n` rows -/
theorem ruleOp_perm_ok {n : Nat} {σ : List Nat} (hσ : σ.Perm (List.range n))
    {params : List (String × Val)} {fn : FunDef} {ty : Ty} {spec : Option RSpec}
    {free : List String} {cols : List Col} {out : Col} (hcols : ColsOK n cols)
    (h : ruleOp params fn (some ty) spec free cols = .ok out) :
    ruleOp params fn (some ty) spec free (cols.map (Col.permute σ)) = .ok (out.permute σ) ∧
      ColOK n out := by
  have hv := perm_valid hσ
  have hn := perm_length hσ
  rw [ruleOp_declared] at h ⊢
  rw [broadcastLen_permute hcols σ hn]
  obtain ⟨n?, hb, h⟩ := bind_ok h
  rw [hb, ok_bind]
  obtain ⟨raw, hraw, h⟩ := bind_ok h
  obtain ⟨rs, hrs, h⟩ := bind_ok h
  obtain ⟨o, ho, hfin⟩ := bind_ok h
  have hbo := broadcastLen_ok hcols
  rw [hb] at hbo
  -- the scalar cases: the result has no rows, and the per-row calls do not change
  have hscalar : (List.range (n?.getD 1)).mapM (rowFn params fn free (cols.map (Col.permute σ))) =
      (List.range (n?.getD 1)).mapM (rowFn params fn free cols) → (fn.args = [] ∨ n? = none) →
      ((List.range (n?.getD 1)).mapM (rowFn params fn free (cols.map (Col.permute σ))) >>= fun raw =>
        raw.mapM resultToR >>= fun rs => mkOut fn ty n? rs >>= fun out => finish fn spec out) =
          .ok (out.permute σ) ∧ ColOK n out := by
    intro heq hc
    have hos := finish_scalar hfin (mkOut_scalar ho hc)
    rw [heq, hraw, ok_bind, hrs, ok_bind, ho, ok_bind, hfin, Col.permute_of_scalar hos]
    exact ⟨rfl, fun h' => by rw [hos] at h'; cases h'⟩
  cases n? with
  | none =>
    have hall : ∀ c ∈ cols, c.scalar = true := by
      split at hbo
      · rename_i hf
        intro c hc
        have := (List.filter_eq_nil_iff.1 hf) c hc
        simpa using this
      · cases hbo
    rw [map_permute_of_all_scalar σ cols hall] at hscalar ⊢
    exact hscalar rfl (Or.inr rfl)
  | some m =>
    have hm : m = n := by
      split at hbo
      · cases hbo
      · cases hbo; rfl
    subst hm
    by_cases hE : fn.args = []
    · apply hscalar _ (Or.inl hE)
      congr 1
      funext i
      exact rowFn_noargs params fn free _ _ i i hE
    · simp only [Option.getD_some] at hraw ⊢
      rw [Dag.range_mapM_ok_iff] at hraw
      have hraw' : (List.range m).mapM (rowFn params fn free (cols.map (Col.permute σ))) =
          .ok (permList σ raw) := by
        rw [Dag.range_mapM_ok_iff]
        refine ⟨by simp [hn], fun k hk => ?_⟩
        have hk' : k < σ.length := hn ▸ hk
        rw [rowFn_permute params fn σ free cols k hk', permList_getD σ raw k hk']
        exact hraw.2 _ (hv _ (List.getElem_mem hk'))
      have hrs' := mapM_permList _ _ _ hrs σ (by rw [hraw.1]; exact hv)
      have hrl : rs.length = m := by rw [mapM_length _ _ _ hrs, hraw.1]
      rw [hraw', ok_bind, hrs', ok_bind, mkOut_nonempty ty _ _ hE, ok_bind]
      rw [mkOut_nonempty ty _ _ hE] at ho
      cases ho
      have ho : ColOK m
          ({ dt := ty.toDT, vals := rs.map (VecDtype.cast ty.toDT), shape := if (some m).isNone then .arr0 else .arr } : Col) :=
        fun _ => by simp [hrl]
      have := finish_perm hv ho hfin
      rw [Col.permute_of_arr (by rfl), permList_map σ rs _ (by rw [hrl]; exact hv)] at this
      exact this

/-! ## `timeConvOp` -/

/-- the column computed by a time conversion -/
def tcCol (u v : TUnit) (c : Col) : Col :=
  let shape := if c.shape == .arr0 then Shape.npScalar else c.shape
  if u = .m ∧ v = .y ∧ c.dt ≠ .float then
    { dt := .int, vals := c.vals.map (fun r => .i (ratToInt (numOf r) * 12)), shape }
  else { dt := .float, vals := c.vals.map (fun r => .f (TimeConv.conv u v (numOf r))), shape }

theorem timeConvOp_single (u v : TUnit) (c : Col) : timeConvOp u v [c] = .ok (tcCol u v c) := by
  simp only [timeConvOp, tcCol]
  split <;> rfl

/-- the shape after a time conversion -/
def tcShape (c : Col) : Shape := if c.shape == .arr0 then Shape.npScalar else c.shape

theorem tcCol_eq (u v : TUnit) (c : Col) :
    (tcCol u v c = { dt := .int, vals := c.vals.map (fun r => .i (ratToInt (numOf r) * 12)), shape := tcShape c } ∧
      c.dt ≠ .float) ∨
    tcCol u v c = { dt := .float, vals := c.vals.map (fun r => .f (TimeConv.conv u v (numOf r))), shape := tcShape c } := by
  by_cases h : u = .m ∧ v = .y ∧ c.dt ≠ .float
  · left; exact ⟨by simp only [tcCol, tcShape]; rw [if_pos h], h.2.2⟩
  · right; simp only [tcCol, tcShape]; rw [if_neg h]

theorem tcShape_scalar (c : Col) : (tcShape c != .arr) = c.scalar := by
  simp only [tcShape, Col.scalar]
  cases c.shape <;> rfl

theorem tcCol_scalar (u v : TUnit) (c : Col) : (tcCol u v c).scalar = c.scalar := by
  rcases tcCol_eq u v c with ⟨h, _⟩ | h <;> rw [h] <;> exact tcShape_scalar c

theorem tcCol_length (u v : TUnit) (c : Col) : (tcCol u v c).vals.length = c.vals.length := by
  rcases tcCol_eq u v c with ⟨h, _⟩ | h <;> rw [h] <;> simp

theorem tcCol_permute {n : Nat} {σ : List Nat} (hσ : ∀ i ∈ σ, i < n) (u v : TUnit) (c : Col)
    (hc : ColOK n c) : tcCol u v (c.permute σ) = (tcCol u v c).permute σ := by
  cases hs : c.scalar with
  | true =>
    rw [Col.permute_of_scalar hs, Col.permute_of_scalar (by rw [tcCol_scalar, hs])]
  | false =>
    have hlen := hc hs
    rw [Col.permute_of_arr (c := tcCol u v c) (by rw [tcCol_scalar, hs]), Col.permute_of_arr hs]
    by_cases h : u = .m ∧ v = .y ∧ c.dt ≠ .float
    · simp only [tcCol]
      rw [if_pos h, if_pos h]
      simp only [permList_map σ c.vals _ (by rw [hlen]; exact hσ)]
    · simp only [tcCol]
      rw [if_neg h, if_neg h]
      simp only [permList_map σ c.vals _ (by rw [hlen]; exact hσ)]

theorem timeConvOp_perm_list {n : Nat} {σ : List Nat} (hσ : ∀ i ∈ σ, i < n) (u v : TUnit)
    (cols : List Col) (hcols : ColsOK n cols) :
    timeConvOp u v (cols.map (Col.permute σ)) = (timeConvOp u v cols).map (Col.permute σ) := by
  cases cols with
  | nil => rfl
  | cons c cs =>
    cases cs with
    | cons c' cs' => rfl
    | nil =>
      simp only [List.map_cons, List.map_nil, timeConvOp_single, Except.map]
      rw [tcCol_permute hσ u v c hcols.head]

theorem timeConvOp_colOK {n : Nat} {u v : TUnit} {cols : List Col} {out : Col}
    (hcols : ColsOK n cols) (h : timeConvOp u v cols = .ok out) : ColOK n out := by
  cases cols with
  | nil => cases h
  | cons c cs =>
    cases cs with
    | cons c' cs' => cases h
    | nil =>
      rw [timeConvOp_single] at h
      cases h
      intro hs
      rw [tcCol_scalar] at hs
      rw [tcCol_length, hcols.head hs]

/-! ## grouped aggregation -/

/-- the generic grouped reduction with a commutative, associative `f` commutes with a
permutation of the rows -/
theorem grouped_permList {α : Type} [Inhabited α] (f : α → α → α) (dflt : α)
    (hc : ∀ a b, f a b = f b a) (ha : ∀ a b c, f (f a b) c = f a (f b c))
    {n : Nat} {σ : List Nat} (hσ : σ.Perm (List.range n)) (col : List α) (gid : List Int)
    (res : List α) (hcol : col.length = n) (hgid : gid.length = n)
    (h : Agg.grouped f dflt col gid = .ok res) :
    Agg.grouped f dflt (permList σ col) (permList σ gid) = .ok (permList σ res) ∧ res.length = n := by
  have hv := perm_valid hσ
  have hwf := Dag.grouped_ok_wf f dflt col gid res h
  have hres := Agg.grouped_ok_eq f dflt col gid res h
  have hwf' : Agg.WF (permList σ gid) (permList σ col) :=
    ⟨by simp, fun g hg => hwf.2 g (permList_mem σ gid (by rw [hgid]; exact hv) g hg)⟩
  rw [Agg.grouped_eq f dflt _ _ hwf']
  refine ⟨?_, by rw [hres]; simp [hgid]⟩
  congr 1
  let rows : List (Int × α) := gid.zip col
  have hrl : rows.length = n := by simp [rows, hcol, hgid]
  have hfst : rows.map (·.1) = gid := by
    simp only [rows]
    rw [← List.unzip_fst, List.unzip_zip (by simp [hcol, hgid])]
  have hsnd : rows.map (·.2) = col := by
    simp only [rows]
    rw [← List.unzip_snd, List.unzip_zip (by simp [hcol, hgid])]
  have hperm : (permList σ rows).Perm rows := permList_perm σ rows (by rw [hrl]; exact hσ)
  have hfst' : (permList σ rows).map (·.1) = permList σ gid := by
    rw [← permList_map σ rows _ (by rw [hrl]; exact hv), hfst]
  have hsnd' : (permList σ rows).map (·.2) = permList σ col := by
    rw [← permList_map σ rows _ (by rw [hrl]; exact hv), hsnd]
  have hG : ∀ g, Agg.groupVal f dflt (Agg.members (permList σ gid) (permList σ col) g) =
      Agg.groupVal f dflt (Agg.members gid col g) := by
    intro g
    have := Agg.groupVal_perm f dflt hc ha (Agg.members_perm hperm g)
    rw [hfst', hsnd', hfst, hsnd] at this
    exact this
  simp only [hG]
  rw [hres, ← permList_map σ gid _ (by rw [hgid]; exact hv)]

theorem groupedCount_permList {n : Nat} {σ : List Nat} (hσ : σ.Perm (List.range n))
    (gid : List Int) (res : List Int) (hgid : gid.length = n) (h : Agg.groupedCount gid = .ok res) :
    Agg.groupedCount (permList σ gid) = .ok (permList σ res) ∧ res.length = n := by
  unfold Agg.groupedCount at h ⊢
  have := grouped_permList (· + ·) (0 : Int) Int.add_comm Int.add_assoc hσ _ gid res
    (by simp [hgid]) hgid h
  rw [permList_map σ gid _ (by rw [hgid]; exact perm_valid hσ)] at this
  exact this

theorem groupedMean_permList {n : Nat} {σ : List Nat} (hσ : σ.Perm (List.range n))
    (col : List Rat) (gid : List Int) (res : List Rat) (hcol : col.length = n) (hgid : gid.length = n)
    (h : Agg.groupedMean col gid = .ok res) :
    Agg.groupedMean (permList σ col) (permList σ gid) = .ok (permList σ res) ∧ res.length = n := by
  unfold Agg.groupedMean at h ⊢
  obtain ⟨s, hs, h⟩ := bind_ok h
  obtain ⟨c, hcnt, h⟩ := bind_ok h
  cases h
  have hs' := grouped_permList (· + ·) (0 : Rat) Rat.add_comm Rat.add_assoc hσ col gid s hcol hgid hs
  have hc' := groupedCount_permList hσ gid c hgid hcnt
  have hv := perm_valid hσ
  rw [show Agg.groupedSum (permList σ col) (permList σ gid) = _ from hs'.1, ok_bind, hc'.1, ok_bind]
  refine ⟨?_, by simp [hs'.2, hc'.2]⟩
  rw [permList_zipWith _ σ s c (by rw [hs'.2]; exact hv) (by rw [hc'.2]; exact hv)]
  rfl

theorem Col.rats_permute {n : Nat} {σ : List Nat} (hv : ∀ i ∈ σ, i < n) {c : Col}
    (hs : c.scalar = false) (hl : c.vals.length = n) : (c.permute σ).rats = permList σ c.rats := by
  rw [Col.rats, Col.vals_permute_of_arr hs, Col.rats, permList_map σ _ _ (by rw [hl]; exact hv)]

theorem Col.ints_permute {n : Nat} {σ : List Nat} (hv : ∀ i ∈ σ, i < n) {c : Col}
    (hs : c.scalar = false) (hl : c.vals.length = n) : (c.permute σ).ints = permList σ c.ints := by
  rw [Col.ints, Col.vals_permute_of_arr hs, Col.ints, permList_map σ _ _ (by rw [hl]; exact hv)]

theorem Col.bools_permute {n : Nat} {σ : List Nat} (hv : ∀ i ∈ σ, i < n) {c : Col}
    (hs : c.scalar = false) (hl : c.vals.length = n) : (c.permute σ).bools = permList σ c.bools := by
  rw [Col.bools, Col.vals_permute_of_arr hs, Col.bools, permList_map σ _ _ (by rw [hl]; exact hv)]

/-- the checks of `groupAggOp` on two arguments -/
def aggGuard (a : Aggr) (col gid : Col) : Option Err :=
  if gid.shape == .pyScalar then some .other
  else if gid.dt != .int then some .typeError
  else if col.shape == .pyScalar then some .other
  else
    let dtOk : Bool := match a with
      | .sum => true
      | .mean => col.dt == .float
      | .max | .min => col.dt != .bool
      | .any | .all => col.dt != .float
      | .count => false
    if !dtOk then some .typeError
    else if gid.scalar then some .other
    else if col.scalar && a != .sum then some .valueError
    else none

/-- broadcasting of a scalar source column -/
def bcast (col gid : Col) : Col :=
  if col.scalar then { col with vals := gid.vals.map fun _ => col.at 0, shape := .arr } else col

def ofRat (dt : DT) (q : Rat) : R :=
  match dt with
  | .float => .f q
  | _ => .i (ratToInt q)

/-- the aggregation proper -/
def aggBody (a : Aggr) (col gid : Col) : Except Err Col :=
  match a with
  | .sum => do
    let dt := if col.dt == .bool then DT.int else col.dt
    let r ← Agg.groupedSum col.rats gid.ints
    pure { dt, vals := r.map (ofRat dt) }
  | .mean => do
    let r ← Agg.groupedMean col.rats gid.ints
    pure { dt := .float, vals := r.map .f }
  | .max => do
    let r ← Agg.groupedMax col.rats gid.ints
    pure { dt := col.dt, vals := r.map (ofRat col.dt) }
  | .min => do
    let r ← Agg.groupedMin col.rats gid.ints
    pure { dt := col.dt, vals := r.map (ofRat col.dt) }
  | .any => do
    let r ← Agg.groupedAny col.bools gid.ints
    pure { dt := .bool, vals := r.map .b }
  | .all => do
    let r ← Agg.groupedAll col.bools gid.ints
    pure { dt := .bool, vals := r.map .b }
  | .count => .error .typeError

theorem groupAggOp_two (a : Aggr) (col gid : Col) :
    groupAggOp a [col, gid] =
      match aggGuard a col gid with
      | some e => .error e
      | none => aggBody a (bcast col gid) gid := by
  unfold groupAggOp aggGuard bcast
  simp only
  generalize (gid.shape == Shape.pyScalar) = b1
  generalize (gid.dt != DT.int) = b2
  generalize (col.shape == Shape.pyScalar) = b3
  generalize gid.scalar = b4
  cases b1 <;> cases b2 <;> cases b3 <;> cases b4 <;> cases a <;> (try rfl) <;>
    (generalize (col.dt == DT.float) = b5; generalize (col.dt != DT.bool) = b6
     generalize (col.dt != DT.float) = b7
     cases b5 <;> cases b6 <;> cases b7 <;> (try rfl) <;> (cases col.scalar <;> rfl))

theorem aggGuard_permute (a : Aggr) (col gid : Col) (σ : List Nat) :
    aggGuard a (col.permute σ) (gid.permute σ) = aggGuard a col gid := by
  simp only [aggGuard, Col.shape_permute, Col.dt_permute, Col.scalar_permute]

theorem aggGuard_none {a : Aggr} {col gid : Col} (h : aggGuard a col gid = none) :
    gid.scalar = false := by
  cases hs : gid.scalar with
  | false => rfl
  | true =>
    exfalso
    unfold aggGuard at h
    simp only [hs] at h
    split_ifs at h

theorem bcast_permute {n : Nat} {σ : List Nat} (hv : ∀ i ∈ σ, i < n) {col gid : Col}
    (hgs : gid.scalar = false) (hgl : gid.vals.length = n) (hc : ColOK n col) :
    bcast (col.permute σ) (gid.permute σ) = (bcast col gid).permute σ ∧
      (bcast col gid).scalar = false ∧ (bcast col gid).vals.length = n := by
  cases hs : col.scalar with
  | true =>
    have hb : bcast col gid = { col with vals := gid.vals.map fun _ => col.at 0, shape := .arr } := by
      simp only [bcast, hs, if_true]
    refine ⟨?_, by rw [hb]; rfl, by rw [hb]; simp [hgl]⟩
    have hp : ({ col with vals := gid.vals.map fun _ => col.at 0, shape := .arr } : Col).permute σ =
        { col with vals := permList σ (gid.vals.map fun _ => col.at 0), shape := .arr } :=
      Col.permute_of_arr rfl
    rw [Col.permute_of_scalar hs, hb, hp, permList_map σ gid.vals _ (by rw [hgl]; exact hv)]
    simp only [bcast, hs, if_true, Col.vals_permute_of_arr hgs]
  | false =>
    have hb : bcast col gid = col := by simp only [bcast, hs, Bool.false_eq_true, if_false]
    refine ⟨?_, by rw [hb]; exact hs, by rw [hb]; exact hc hs⟩
    rw [hb]
    simp only [bcast, Col.scalar_permute, hs, Bool.false_eq_true, if_false]

theorem agg_finish {β : Type} [Inhabited β] {n : Nat} {σ : List Nat} (hv : ∀ i ∈ σ, i < n)
    (X X' : Except Err (List β)) (dt : DT) (g : β → R) {out : Col}
    (hX : ∀ r, X = .ok r → X' = .ok (permList σ r) ∧ r.length = n)
    (h : (X >>= fun r => pure ({ dt := dt, vals := r.map g } : Col)) = .ok out) :
    (X' >>= fun r => pure ({ dt := dt, vals := r.map g } : Col)) = .ok (out.permute σ) ∧
      ColOK n out := by
  obtain ⟨r, hr, h⟩ := bind_ok h
  cases h
  obtain ⟨h1, h2⟩ := hX r hr
  rw [h1, ok_bind, Col.permute_of_arr (by rfl)]
  refine ⟨?_, fun _ => by simp [h2]⟩
  simp only [pure, Except.pure]
  rw [permList_map σ r g (by rw [h2]; exact hv)]

theorem aggBody_permute {n : Nat} {σ : List Nat} (hσ : σ.Perm (List.range n)) (a : Aggr)
    {col gid out : Col} (hcs : col.scalar = false) (hcl : col.vals.length = n)
    (hgs : gid.scalar = false) (hgl : gid.vals.length = n) (h : aggBody a col gid = .ok out) :
    aggBody a (col.permute σ) (gid.permute σ) = .ok (out.permute σ) ∧ ColOK n out := by
  have hv := perm_valid hσ
  have hr := Col.rats_permute hv hcs hcl
  have hi := Col.ints_permute hv hgs hgl
  have hb := Col.bools_permute hv hcs hcl
  have hrl : col.rats.length = n := by simp [Col.rats, hcl]
  have hil : gid.ints.length = n := by simp [Col.ints, hgl]
  have hbl : col.bools.length = n := by simp [Col.bools, hcl]
  cases a <;> simp only [aggBody, Col.dt_permute, hr, hi, hb] at h ⊢
  · exact agg_finish hv _ _ _ _
      (fun r hr => grouped_permList _ _ Rat.add_comm Rat.add_assoc hσ _ _ r hrl hil hr) h
  · exact agg_finish hv _ _ _ _ (fun r hr => groupedMean_permList hσ _ _ r hrl hil hr) h
  · exact agg_finish hv _ _ _ _
      (fun r hr => grouped_permList _ _ max_comm max_assoc hσ _ _ r hrl hil hr) h
  · exact agg_finish hv _ _ _ _
      (fun r hr => grouped_permList _ _ min_comm min_assoc hσ _ _ r hrl hil hr) h
  · exact agg_finish hv _ _ _ _
      (fun r hr => grouped_permList _ _ Bool.or_comm Bool.or_assoc hσ _ _ r hbl hil hr) h
  · exact agg_finish hv _ _ _ _
      (fun r hr => grouped_permList _ _ Bool.and_comm Bool.and_assoc hσ _ _ r hbl hil hr) h
  · cases h

theorem groupAggOp_two_perm {n : Nat} {σ : List Nat} (hσ : σ.Perm (List.range n)) (a : Aggr)
    {col gid out : Col} (hcols : ColsOK n [col, gid]) (h : groupAggOp a [col, gid] = .ok out) :
    groupAggOp a [col.permute σ, gid.permute σ] = .ok (out.permute σ) ∧ ColOK n out := by
  rw [groupAggOp_two] at h ⊢
  rw [aggGuard_permute]
  cases hg : aggGuard a col gid with
  | some e => rw [hg] at h; cases h
  | none =>
    rw [hg] at h
    simp only at h ⊢
    have hgs := aggGuard_none hg
    have hgl := hcols gid (by simp) hgs
    obtain ⟨hb1, hb2, hb3⟩ := bcast_permute (σ := σ) (perm_valid hσ) hgs hgl (hcols col (by simp))
    rw [hb1]
    exact aggBody_permute hσ a hb2 hb3 hgs hgl h

theorem groupAggOp_one_perm {n : Nat} {σ : List Nat} (hσ : σ.Perm (List.range n)) (a : Aggr)
    {gid out : Col} (hcols : ColsOK n [gid]) (h : groupAggOp a [gid] = .ok out) :
    groupAggOp a [gid.permute σ] = .ok (out.permute σ) ∧ ColOK n out := by
  unfold groupAggOp at h ⊢
  simp only [Col.shape_permute, Col.dt_permute, Col.scalar_permute] at h ⊢
  split_ifs at h ⊢ with h1 h2 h3 h4
  have hgs : gid.scalar = false := by simpa using h4
  have hgl := hcols gid (by simp) hgs
  have hv := perm_valid hσ
  rw [Col.ints_permute hv hgs hgl]
  exact agg_finish hv _ _ _ _
    (fun r hr => groupedCount_permList hσ _ r (by simp [Col.ints, hgl]) hr) h

/-- list form, for the lifting through the DAG -/
theorem groupAggOp_perm_list {n : Nat} {σ : List Nat} (hσ : σ.Perm (List.range n)) (a : Aggr)
    {cols : List Col} {out : Col} (hcols : ColsOK n cols) (h : groupAggOp a cols = .ok out) :
    groupAggOp a (cols.map (Col.permute σ)) = .ok (out.permute σ) ∧ ColOK n out := by
  match cols, hcols, h with
  | [], _, h => cases h
  | [gid], hcols, h => exact groupAggOp_one_perm hσ a hcols h
  | [col, gid], hcols, h => exact groupAggOp_two_perm hσ a hcols h
  | _ :: _ :: _ :: _, _, h => cases h

/-! ## `sum_by_p_id` -/

/-- the members of a group in the permuted table are a permutation of the members -/
theorem members_permList {α : Type} [Inhabited α] {n : Nat} {σ : List Nat}
    (hσ : σ.Perm (List.range n)) (gid : List Int) (col : List α) (hgid : gid.length = n)
    (hcol : col.length = n) (g : Int) :
    (Agg.members (permList σ gid) (permList σ col) g).Perm (Agg.members gid col g) := by
  have hv := perm_valid hσ
  let rows : List (Int × α) := gid.zip col
  have hrl : rows.length = n := by simp [rows, hcol, hgid]
  have hfst : rows.map (·.1) = gid := by
    simp only [rows]
    rw [← List.unzip_fst, List.unzip_zip (by simp [hcol, hgid])]
  have hsnd : rows.map (·.2) = col := by
    simp only [rows]
    rw [← List.unzip_snd, List.unzip_zip (by simp [hcol, hgid])]
  have hperm : (permList σ rows).Perm rows := permList_perm σ rows (by rw [hrl]; exact hσ)
  have hfst' : (permList σ rows).map (·.1) = permList σ gid := by
    rw [← permList_map σ rows _ (by rw [hrl]; exact hv), hfst]
  have hsnd' : (permList σ rows).map (·.2) = permList σ col := by
    rw [← permList_map σ rows _ (by rw [hrl]; exact hv), hsnd]
  have := Agg.members_perm hperm g
  rw [hfst', hsnd', hfst, hsnd] at this
  exact this

theorem sumByPid_ok_inv {col : List Rat} {ptr pid : List Int} {r : List Rat}
    (h : Agg.sumByPid col ptr pid = .ok r) :
    ptr.length = col.length ∧ ∀ x ∈ ptr, 0 ≤ x → x ∈ pid := by
  have hlen : ptr.length = col.length := by
    by_contra hne
    rw [Agg.sumByPid_length_error col ptr pid hne] at h
    cases h
  refine ⟨hlen, ?_⟩
  intro x hx h0
  by_contra hn
  rw [Agg.sumByPid_missing_receiver col ptr pid hlen ⟨x, hx, h0, hn⟩] at h
  cases h

theorem sumByPid_permList {n : Nat} {σ : List Nat} (hσ : σ.Perm (List.range n))
    (col : List Rat) (ptr pid : List Int) (res : List Rat) (hnd : pid.Nodup)
    (hcol : col.length = n) (hptr : ptr.length = n) (hpid : pid.length = n)
    (h : Agg.sumByPid col ptr pid = .ok res) :
    Agg.sumByPid (permList σ col) (permList σ ptr) (permList σ pid) = .ok (permList σ res) ∧
      res.length = n := by
  have hv := perm_valid hσ
  obtain ⟨hlen, hmem⟩ := sumByPid_ok_inv h
  rw [Agg.sumByPid_spec col ptr pid hnd hlen hmem] at h
  cases h
  have hpp : (permList σ pid).Perm pid := permList_perm σ pid (by rw [hpid]; exact hσ)
  have hnd' : (permList σ pid).Nodup := hpp.nodup_iff.2 hnd
  have hmem' : ∀ x ∈ permList σ ptr, 0 ≤ x → x ∈ permList σ pid := fun x hx h0 =>
    hpp.mem_iff.2 (hmem x (permList_mem σ ptr (by rw [hptr]; exact hv) x hx) h0)
  rw [Agg.sumByPid_spec _ _ _ hnd' (by simp) hmem']
  refine ⟨?_, by simp [hpid]⟩
  congr 1
  rw [permList_map σ pid _ (by rw [hpid]; exact hv)]
  apply List.map_congr_left
  intro p _
  rw [(members_permList hσ ptr col hptr hcol p).sum_eq]

/-- the checks of `pidSumOp` -/
def pidGuard (col ptr pid : Col) : Option Err :=
  if ptr.shape == .pyScalar then some .other
  else if ptr.dt != .int then some .typeError
  else if pid.shape == .pyScalar then some .other
  else if pid.dt != .int then some .typeError
  else if col.shape == .pyScalar then some .other
  else if ptr.scalar || pid.scalar then some .other
  else none

def pidDt (col : Col) : DT := if col.dt == .bool then DT.int else col.dt

/-- `sum_by_p_id` of a 0-d source column -/
def pidScalarBody (col ptr pid : Col) : Except Err Col :=
  match ptr.ints.find? (· ≥ 0) with
  | none => .ok { dt := pidDt col, vals := pid.vals.map fun _ => VecDtype.cast (pidDt col) (.i 0) }
  | some r => if (Agg.posMap pid.ints).any (·.1 = r) then .error .shape else .error .keyError

/-- `sum_by_p_id` of a 1-d source column -/
def pidArrBody (col ptr pid : Col) : Except Err Col :=
  let dt := if col.dt == .bool then DT.int else col.dt
  do
  let r ← Agg.sumByPid col.rats ptr.ints pid.ints
  pure { dt, vals := r.map fun q => match dt with | .float => R.f q | _ => R.i (ratToInt q) }

theorem pidSumOp_three (col ptr pid : Col) :
    pidSumOp [col, ptr, pid] =
      match pidGuard col ptr pid with
      | some e => .error e
      | none => if col.scalar then pidScalarBody col ptr pid else pidArrBody col ptr pid := by
  unfold pidSumOp pidGuard
  simp only
  generalize (ptr.shape == Shape.pyScalar) = b1
  cases b1; swap; · rfl
  generalize (ptr.dt != DT.int) = b2
  cases b2; swap; · rfl
  generalize (pid.shape == Shape.pyScalar) = b3
  cases b3; swap; · rfl
  generalize (pid.dt != DT.int) = b4
  cases b4; swap; · rfl
  generalize (col.shape == Shape.pyScalar) = b5
  cases b5; swap; · rfl
  generalize (ptr.scalar || pid.scalar) = b6
  cases b6; swap; · rfl
  cases col.scalar <;> rfl

theorem pidGuard_permute (col ptr pid : Col) (σ : List Nat) :
    pidGuard (col.permute σ) (ptr.permute σ) (pid.permute σ) = pidGuard col ptr pid := by
  simp only [pidGuard, Col.shape_permute, Col.dt_permute, Col.scalar_permute]

theorem pidGuard_none {col ptr pid : Col} (h : pidGuard col ptr pid = none) :
    ptr.scalar = false ∧ pid.scalar = false := by
  unfold pidGuard at h
  split_ifs at h with h1 h2 h3 h4 h5 h6
  cases hp : ptr.scalar <;> cases hq : pid.scalar <;> simp [hp, hq] at h6 ⊢

theorem pidSumOp_three_perm {n : Nat} {σ : List Nat} (hσ : σ.Perm (List.range n))
    {col ptr pid out : Col} (hcols : ColsOK n [col, ptr, pid]) (hnd : pid.ints.Nodup)
    (h : pidSumOp [col, ptr, pid] = .ok out) :
    pidSumOp [col.permute σ, ptr.permute σ, pid.permute σ] = .ok (out.permute σ) ∧ ColOK n out := by
  have hv := perm_valid hσ
  rw [pidSumOp_three] at h ⊢
  rw [pidGuard_permute]
  cases hg : pidGuard col ptr pid with
  | some e => rw [hg] at h; cases h
  | none =>
    rw [hg] at h
    simp only [Col.scalar_permute] at h ⊢
    obtain ⟨hps, hqs⟩ := pidGuard_none hg
    have hpl := hcols ptr (by simp) hps
    have hql := hcols pid (by simp) hqs
    cases hcs : col.scalar with
    | true =>
      -- a 0-d source column: only possible if no pointer is valid
      rw [hcs] at h
      simp only [if_true, pidScalarBody, pidDt, Col.dt_permute] at h ⊢
      cases hf : ptr.ints.find? (· ≥ 0) with
      | some r =>
        rw [hf] at h
        simp only at h
        split_ifs at h
      | none =>
        rw [hf] at h
        cases h
        have hf' : (ptr.permute σ).ints.find? (· ≥ 0) = none := by
          rw [Col.ints_permute hv hps hpl, List.find?_eq_none]
          intro x hx
          exact (List.find?_eq_none.1 hf) x
            (permList_mem σ _ (by simp only [Col.ints, List.length_map, hpl]; exact hv) x hx)
        rw [hf']
        simp only [Col.vals_permute_of_arr hqs]
        rw [Col.permute_of_arr (by rfl)]
        refine ⟨?_, fun _ => by simp [hql]⟩
        simp only [permList_map σ pid.vals _ (by rw [hql]; exact hv)]
    | false =>
      rw [hcs] at h
      have hcl := hcols col (by simp) hcs
      simp only [Bool.false_eq_true, if_false, pidArrBody, Col.dt_permute] at h ⊢
      rw [Col.rats_permute hv hcs hcl, Col.ints_permute hv hps hpl, Col.ints_permute hv hqs hql]
      exact agg_finish hv _ _ _ _
        (fun r hr => sumByPid_permList hσ _ _ _ r hnd (by simp [Col.rats, hcl])
          (by simp [Col.ints, hpl]) (by simp [Col.ints, hql]) hr) h

/-- list form, for the lifting through the DAG -/
theorem pidSumOp_perm_list {n : Nat} {σ : List Nat} (hσ : σ.Perm (List.range n))
    {cols : List Col} {out : Col} (hcols : ColsOK n cols)
    (hnd : ∀ pid, cols[2]? = some pid → pid.ints.Nodup) (h : pidSumOp cols = .ok out) :
    pidSumOp (cols.map (Col.permute σ)) = .ok (out.permute σ) ∧ ColOK n out := by
  match cols, hcols, hnd, h with
  | [], _, _, h => cases h
  | [_], _, _, h => cases h
  | [_, _], _, _, h => cases h
  | [col, ptr, pid], hcols, hnd, h => exact pidSumOp_three_perm hσ hcols (hnd pid rfl) h
  | _ :: _ :: _ :: _ :: _, _, _, h => cases h

/-! ## lifting through the DAG -/

/-- the kinds of nodes whose operation is equivariant under row permutations: everything except
the id constructors of `groupings.py` and rules without a declared return type -/
def Kind.permOK : Kind → Bool
  | .rule _ (some _) _ => true
  | .rule _ none _ => false
  | .pidSum _ _ => true
  | .timeConv _ _ _ => true
  | .groupAgg _ _ _ => true
  | .grouping _ => false

def Kind.isPidSum : Kind → Bool
  | .pidSum _ _ => true
  | _ => false

/-- the system built from a list of functions, as in `plan` -/
def sysOf (params : List (String × Val)) (specs : List (String × RSpec)) (fns : List Fn) : Dag.Sys Col :=
  fns.map fun f => (f.name, nodeOf params specs f)

theorem nodeOf_deps (params : List (String × Val)) (specs : List (String × RSpec)) (f : Fn) :
    (nodeOf params specs f).deps = freeArgs params f := rfl

theorem sysOf_find? (params : List (String × Val)) (specs : List (String × RSpec)) (fns : List Fn)
    (x : String) (node : Dag.Node Col) (h : Dag.find? (sysOf params specs fns) x = some node) :
    ∃ f ∈ fns, node = nodeOf params specs f := by
  have := Dag.find?_mem _ _ _ h
  simp only [sysOf, List.mem_map, Prod.mk.injEq] at this
  obtain ⟨f, hf, _, rfl⟩ := this
  exact ⟨f, hf, rfl⟩

/-- every admissible node operation is equivariant and keeps the number of rows -/
theorem nodeOf_perm {n : Nat} {σ : List Nat} (hσ : σ.Perm (List.range n))
    (params : List (String × Val)) (specs : List (String × RSpec)) (f : Fn)
    (hk : f.kind.permOK = true) {args : List Col} {out : Col} (hargs : ColsOK n args)
    (hpid : f.kind.isPidSum = true → ∀ pid, args[2]? = some pid → pid.ints.Nodup)
    (h : (nodeOf params specs f).op args = .ok out) :
    (nodeOf params specs f).op (args.map (Col.permute σ)) = .ok (out.permute σ) ∧ ColOK n out := by
  obtain ⟨name, fargs, ann, kind⟩ := f
  cases kind with
  | rule fn ret key =>
    cases ret with
    | none => cases hk
    | some ty => exact ruleOp_perm_ok hσ hargs h
  | pidSum src ptr => exact pidSumOp_perm_list hσ hargs (hpid rfl) h
  | timeConv src u v =>
    have h' : timeConvOp u v args = .ok out := h
    refine ⟨?_, timeConvOp_colOK hargs h'⟩
    show timeConvOp u v (args.map (Col.permute σ)) = _
    rw [timeConvOp_perm_list (perm_valid hσ) u v args hargs, h']
    rfl
  | groupAgg a src gid => exact groupAggOp_perm_list hσ a hargs h
  | grouping g => cases hk

/-- the data with all columns permuted -/
def permData (σ : List Nat) (D : Dag.Data Col) : Dag.Data Col := D.map fun p => (p.1, p.2.permute σ)

theorem find?_permData (σ : List Nat) (D : Dag.Data Col) (t : String) :
    Dag.find? (permData σ D) t = (Dag.find? D t).map (Col.permute σ) := by
  induction D with
  | nil => rfl
  | cons p D ih =>
    obtain ⟨k, c⟩ := p
    simp only [permData, List.map_cons, Dag.find?_cons] at ih ⊢
    split
    · rfl
    · exact ih

theorem forall₂_getElem?_right {A B : Type} {R : A → B → Prop} {l : List A} {l' : List B}
    (h : List.Forall₂ R l l') {i : Nat} {b : B} (hi : l'[i]? = some b) :
    ∃ a, l[i]? = some a ∧ R a b := Dag.forall₂_getElem?_left h.flip hi

/-- what the lift needs to know about a node: it is built by `nodeOf` from an admissible kind,
and if it is a `sum_by_p_id` node its third argument never evaluates to a column with duplicates -/
def GoodNode (params : List (String × Val)) (specs : List (String × RSpec)) (S : Dag.Sys Col)
    (D : Dag.Data Col) (node : Dag.Node Col) : Prop :=
  ∃ f, node = nodeOf params specs f ∧ f.kind.permOK = true ∧
    (f.kind.isPidSum = true → ∀ d, (freeArgs params f)[2]? = some d →
      ∀ k v, Dag.eval S D k d = .ok v → v.ints.Nodup)

/-- the lift: every successfully evaluated node of a system of admissible nodes is evaluated,
on the permuted data, to the identically permuted column; and it is a scalar or has `n` rows -/
theorem sys_eval_perm_aux {n : Nat} {σ : List Nat} (hσ : σ.Perm (List.range n))
    (params : List (String × Val)) (specs : List (String × RSpec)) (S : Dag.Sys Col)
    (D : Dag.Data Col)
    (hS : ∀ x node, Dag.find? S x = some node → GoodNode params specs S D node)
    (hD : ColsOK n (D.map (·.2))) :
    ∀ (k : Nat) (t : String) (v : Col), Dag.eval S D k t = .ok v →
      Dag.eval S (permData σ D) k t = .ok (v.permute σ) ∧ ColOK n v := by
  intro k
  induction k with
  | zero => intro t v h; simp [Dag.eval] at h
  | succ k ih =>
    intro t v h
    cases hDt : Dag.find? D t with
    | some c =>
      rw [Dag.eval_succ_of_data hDt] at h
      cases h
      have hD' : Dag.find? (permData σ D) t = some (v.permute σ) := by
        rw [find?_permData, hDt]; rfl
      refine ⟨Dag.eval_succ_of_data hD', ?_⟩
      exact hD v (List.mem_map.2 ⟨(t, v), Dag.find?_mem D t v hDt, rfl⟩)
    | none =>
      have hD' : Dag.find? (permData σ D) t = none := by
        rw [find?_permData, hDt]; rfl
      cases hSt : Dag.find? S t with
      | none => rw [Dag.eval_succ_of_missing hDt hSt] at h; cases h
      | some node =>
        obtain ⟨f, rfl, hk, hpid⟩ := hS t node hSt
        rw [Dag.eval_succ_of_node hDt hSt] at h
        rw [Dag.eval_succ_of_node hD' hSt]
        obtain ⟨args, hargs, h⟩ := bind_ok h
        have hF := (Dag.evalAll_ok_iff _ _ _).1 hargs
        have hargs' : Dag.evalAll (Dag.eval S (permData σ D) k) (nodeOf params specs f).deps =
            .ok (args.map (Col.permute σ)) := by
          rw [Dag.evalAll_ok_iff, List.forall₂_map_right_iff]
          exact hF.imp fun d a hda => (ih d a hda).1
        have hok : ColsOK n args := by
          intro a ha
          obtain ⟨i, hi⟩ := List.getElem?_of_mem ha
          obtain ⟨d, _, hda⟩ := forall₂_getElem?_right hF hi
          exact (ih d a hda).2
        rw [hargs', ok_bind]
        refine nodeOf_perm hσ params specs f hk hok ?_ h
        intro hp pid hpid2
        obtain ⟨d, hd, hda⟩ := forall₂_getElem?_right hF hpid2
        exact hpid hp d hd k pid hda

/-! ## the inverse permutation ("fails iff fails") -/

/-- the inverse of the permutation given by the index list `σ` -/
def invPerm (σ : List Nat) : List Nat := (List.range σ.length).map fun i => σ.idxOf i

theorem invPerm_perm {n : Nat} {σ : List Nat} (hσ : σ.Perm (List.range n)) :
    (invPerm σ).Perm (List.range n) := by
  have hn := perm_length hσ
  have hmem : ∀ i, i < n → i ∈ σ := fun i hi => hσ.mem_iff.2 (List.mem_range.2 hi)
  have hnd : (invPerm σ).Nodup := by
    apply List.Nodup.map_on _ List.nodup_range
    intro x hx y hy hxy
    have hx' := hmem x (hn ▸ List.mem_range.1 hx)
    have hy' := hmem y (hn ▸ List.mem_range.1 hy)
    have h1 : σ[σ.idxOf x]'(List.idxOf_lt_length_iff.2 hx') = x := List.getElem_idxOf _
    have h2 : σ[σ.idxOf y]'(List.idxOf_lt_length_iff.2 hy') = y := List.getElem_idxOf _
    rw [← h1, ← h2]
    simp only [hxy]
  have hsub : invPerm σ ⊆ List.range n := by
    intro x hx
    obtain ⟨i, hi, rfl⟩ := List.mem_map.1 hx
    rw [List.mem_range, ← hn]
    exact List.idxOf_lt_length_iff.2 (hmem i (hn ▸ List.mem_range.1 hi))
  exact (hnd.subperm hsub).perm_of_length_le (by simp [invPerm, hn])

theorem permList_invPerm {α : Type} [Inhabited α] {n : Nat} {σ : List Nat}
    (hσ : σ.Perm (List.range n)) (l : List α) (hl : l.length = n) :
    permList (invPerm σ) (permList σ l) = l := by
  have hn := perm_length hσ
  conv => rhs; rw [← Dag.map_range_getD l]
  simp only [permList, invPerm, List.map_map, hl, hn]
  apply List.map_congr_left
  intro i hi
  have hi' : i ∈ σ := hσ.mem_iff.2 hi
  have hlt : σ.idxOf i < σ.length := List.idxOf_lt_length_iff.2 hi'
  have := permList_getD σ l (σ.idxOf i) hlt
  simp only [permList] at this
  simp only [Function.comp, this, List.getElem_idxOf]

theorem Col.permute_invPerm {n : Nat} {σ : List Nat} (hσ : σ.Perm (List.range n)) {c : Col}
    (hc : ColOK n c) : (c.permute σ).permute (invPerm σ) = c := by
  cases hs : c.scalar with
  | true => rw [Col.permute_of_scalar hs, Col.permute_of_scalar hs]
  | false =>
    rw [Col.permute_of_arr (c := c.permute σ) (by simp [hs]), Col.vals_permute_of_arr hs,
      permList_invPerm hσ _ (hc hs), Col.permute_of_arr hs]

theorem map_permute_invPerm {n : Nat} {σ : List Nat} (hσ : σ.Perm (List.range n))
    {cols : List Col} (hcols : ColsOK n cols) :
    (cols.map (Col.permute σ)).map (Col.permute (invPerm σ)) = cols := by
  rw [List.map_map]
  conv => rhs; rw [← List.map_id cols]
  apply List.map_congr_left
  intro c hc
  exact Col.permute_invPerm hσ (hcols c hc)

/-- if an operation maps (admissible) permuted inputs of a successful run to a successful run,
then it fails on the permuted inputs iff it fails on the original ones -/
theorem fails_iff_of_perm {n : Nat} {σ : List Nat} (hσ : σ.Perm (List.range n))
    (F : List Col → Except Err Col) (P : List Col → Prop)
    (hP : ∀ τ : List Nat, τ.Perm (List.range n) → ∀ cols, ColsOK n cols → P cols →
      P (cols.map (Col.permute τ)))
    (hF : ∀ τ : List Nat, τ.Perm (List.range n) → ∀ cols out, ColsOK n cols → P cols →
      F cols = .ok out → ∃ out', F (cols.map (Col.permute τ)) = .ok out')
    (cols : List Col) (hcols : ColsOK n cols) (hPc : P cols) :
    (∃ e, F (cols.map (Col.permute σ)) = .error e) ↔ (∃ e, F cols = .error e) := by
  constructor
  · rintro ⟨e, he⟩
    cases h : F cols with
    | error e' => exact ⟨e', rfl⟩
    | ok out =>
      obtain ⟨out', h'⟩ := hF σ hσ cols out hcols hPc h
      rw [he] at h'; cases h'
  · rintro ⟨e, he⟩
    cases h : F (cols.map (Col.permute σ)) with
    | error e' => exact ⟨e', rfl⟩
    | ok out =>
      obtain ⟨out', h'⟩ := hF (invPerm σ) (invPerm_perm hσ) _ out
        (ColsOK.permute cols σ (perm_length hσ)) (hP σ hσ cols hcols hPc) h
      rw [map_permute_invPerm hσ hcols, he] at h'; cases h'

theorem Col.ints_permute_nodup {n : Nat} {τ : List Nat} (hτ : τ.Perm (List.range n)) {c : Col}
    (hc : ColOK n c) (h : c.ints.Nodup) : (c.permute τ).ints.Nodup := by
  cases hs : c.scalar with
  | true => rw [Col.permute_of_scalar hs]; exact h
  | false =>
    rw [Col.ints_permute (perm_valid hτ) hs (hc hs)]
    refine (permList_perm τ c.ints ?_).nodup_iff.2 h
    simp only [Col.ints, List.length_map, hc hs]
    exact hτ

/-! ## `sum_by_p_id` nodes fed by a duplicate-free data column -/

/-- a node built by `nodeOf` from an admissible kind; if it is a `sum_by_p_id` node, its third
argument (`p_id` in the real code) is a DATA column without duplicates -/
def GoodNodeData (params : List (String × Val)) (specs : List (String × RSpec)) (D : Dag.Data Col)
    (node : Dag.Node Col) : Prop :=
  ∃ f, node = nodeOf params specs f ∧ f.kind.permOK = true ∧
    (f.kind.isPidSum = true → ∀ d, (freeArgs params f)[2]? = some d →
      ∃ c, Dag.find? D d = some c ∧ c.ints.Nodup)

theorem GoodNodeData.good {params : List (String × Val)} {specs : List (String × RSpec)}
    {D : Dag.Data Col} {node : Dag.Node Col} (h : GoodNodeData params specs D node)
    (S : Dag.Sys Col) : GoodNode params specs S D node := by
  obtain ⟨f, hf, hk, hp⟩ := h
  refine ⟨f, hf, hk, fun hpid d hd k v hv => ?_⟩
  obtain ⟨c, hc, hnd⟩ := hp hpid d hd
  cases k with
  | zero => simp [Dag.eval] at hv
  | succ k =>
    rw [Dag.eval_succ_of_data hc] at hv
    cases hv
    exact hnd

theorem colsOK_permData {n : Nat} (σ : List Nat) (hn : σ.length = n) (D : Dag.Data Col) :
    ColsOK n ((permData σ D).map (·.2)) := by
  intro c hc
  simp only [permData, List.map_map, List.mem_map, Function.comp] at hc
  obtain ⟨p, _, rfl⟩ := hc
  exact ColOK.permute σ hn

theorem GoodNodeData.permData {n : Nat} {τ : List Nat} (hτ : τ.Perm (List.range n))
    {params : List (String × Val)} {specs : List (String × RSpec)}
    {D : Dag.Data Col} (hD : ColsOK n (D.map (·.2))) {node : Dag.Node Col}
    (h : GoodNodeData params specs D node) : GoodNodeData params specs (permData τ D) node := by
  obtain ⟨f, hf, hk, hp⟩ := h
  refine ⟨f, hf, hk, fun hpid d hd => ?_⟩
  obtain ⟨c, hc, hnd⟩ := hp hpid d hd
  refine ⟨c.permute τ, by rw [find?_permData, hc]; rfl, ?_⟩
  exact Col.ints_permute_nodup hτ
    (hD c (List.mem_map.2 ⟨(d, c), Dag.find?_mem D d c hc, rfl⟩)) hnd

theorem permData_invPerm {n : Nat} {σ : List Nat} (hσ : σ.Perm (List.range n))
    {D : Dag.Data Col} (hD : ColsOK n (D.map (·.2))) :
    permData (invPerm σ) (permData σ D) = D := by
  simp only [permData, List.map_map]
  conv => rhs; rw [← List.map_id D]
  apply List.map_congr_left
  intro p hp
  simp only [Function.comp, id]
  rw [Col.permute_invPerm hσ (hD p.2 (List.mem_map.2 ⟨p, hp, rfl⟩))]

theorem subsys_goodNodeData (params : List (String × Val)) (specs : List (String × RSpec))
    (fns : List Fn) (D : Dag.Data Col) (S : Dag.Sys Col)
    (hsub : ∀ p ∈ S, p ∈ sysOf params specs fns)
    (h : ∀ f ∈ fns, f.kind.permOK = true ∧ (f.kind.isPidSum = true →
      ∀ d, (freeArgs params f)[2]? = some d → ∃ c, Dag.find? D d = some c ∧ c.ints.Nodup)) :
    ∀ x node, Dag.find? S x = some node → GoodNodeData params specs D node := by
  intro x node hx
  have := hsub _ (Dag.find?_mem _ _ _ hx)
  simp only [sysOf, List.mem_map, Prod.mk.injEq] at this
  obtain ⟨f, hf, _, rfl⟩ := this
  exact ⟨f, rfl, (h f hf).1, (h f hf).2⟩

theorem sysOf_goodNodeData (params : List (String × Val)) (specs : List (String × RSpec))
    (fns : List Fn) (D : Dag.Data Col)
    (h : ∀ f ∈ fns, f.kind.permOK = true ∧ (f.kind.isPidSum = true →
      ∀ d, (freeArgs params f)[2]? = some d → ∃ c, Dag.find? D d = some c ∧ c.ints.Nodup)) :
    ∀ x node, Dag.find? (sysOf params specs fns) x = some node →
      GoodNodeData params specs D node :=
  subsys_goodNodeData params specs fns D _ (fun _ hp => hp) h

/-! ## pruning (`dags.create_dag`) does not look at the rows -/

theorem reach_permData (σ : List Nat) (S : Dag.Sys Col) (D : Dag.Data Col) :
    ∀ (k : Nat) (x : String), Dag.reach S (permData σ D) k x = Dag.reach S D k x := by
  intro k
  induction k with
  | zero => intro x; rfl
  | succ k ih =>
    intro x
    rw [Dag.reach, Dag.reach, find?_permData]
    cases Dag.find? D x with
    | some c => rfl
    | none =>
      simp only [Option.map_none]
      cases Dag.find? S x with
      | none => rfl
      | some node =>
        simp only
        congr 1
        apply List.flatMap_congr
        intro d _
        exact ih d

theorem prune_permData (σ : List Nat) (S : Dag.Sys Col) (D : Dag.Data Col) (fuel : Nat)
    (targets : List String) : Dag.prune S (permData σ D) fuel targets = Dag.prune S D fuel targets := by
  have : Dag.reach S (permData σ D) fuel = Dag.reach S D fuel := funext (reach_permData σ S D fuel)
  simp only [Dag.prune, this]

theorem prune_sub {α : Type} (S : Dag.Sys α) (D : Dag.Data α) (fuel : Nat) (targets : List String) :
    ∀ p ∈ Dag.prune S D fuel targets, p ∈ S := by
  intro p hp
  simp only [Dag.prune] at hp
  exact (List.mem_filter.1 hp).1

end GV.Simulate
