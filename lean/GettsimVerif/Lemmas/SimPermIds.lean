import GettsimVerif.Lemmas.SimPerm
import GettsimVerif.Props.C12Cor
/-
Helper lemmas for property C01 on the id constructors of `groupings.py` inside the concrete model
`Core/Simulate.lean`: derived group identifiers may be numbered differently in another row order,
but they induce the same partition of the persons, and everything computed FROM them (grouped
aggregates, `bg_id` on top of `fg_id`) is unchanged.
-/
namespace GV.Simulate
open GV.VecDtype (R DT numOf)
open GV.Lang (Val FunDef)
open GV.Groupings

/-! ## "same partition" -/

/-- two id lists induce the same partition of the row indices -/
def SamePartition (a b : List Int) : Prop :=
  a.length = b.length ∧
    ∀ i j, i < a.length → j < a.length → (a[i]? = a[j]? ↔ b[i]? = b[j]?)

instance (a b : List Int) : Decidable (SamePartition a b) :=
  decidable_of_iff (a.length = b.length ∧
      ∀ i, i < a.length → ∀ j, j < a.length → (a[i]? = a[j]? ↔ b[i]? = b[j]?))
    ⟨fun h => ⟨h.1, fun i j hi hj => h.2 i hi j hj⟩, fun h => ⟨h.1, fun i hi j hj => h.2 i j hi hj⟩⟩

/-- two integer columns of the same dtype and shape whose values induce the same partition -/
def Col.SamePart (c c' : Col) : Prop :=
  c.dt = c'.dt ∧ c.shape = c'.shape ∧ SamePartition c.ints c'.ints

instance (c c' : Col) : Decidable (Col.SamePart c c') := by unfold Col.SamePart; infer_instance

theorem SamePartition.refl (a : List Int) : SamePartition a a := ⟨rfl, fun _ _ _ _ => Iff.rfl⟩

theorem SamePartition.symm {a b : List Int} (h : SamePartition a b) : SamePartition b a :=
  ⟨h.1.symm, fun i j hi hj => (h.2 i j (h.1 ▸ hi) (h.1 ▸ hj)).symm⟩

theorem SamePartition.trans {a b c : List Int} (h : SamePartition a b) (h' : SamePartition b c) :
    SamePartition a c :=
  ⟨h.1.trans h'.1, fun i j hi hj => (h.2 i j hi hj).trans (h'.2 i j (h.1 ▸ hi) (h.1 ▸ hj))⟩

theorem SamePartition.getElem_iff {a b : List Int} (h : SamePartition a b) {i j : Nat}
    (hi : i < a.length) (hj : j < a.length) :
    a[i] = a[j] ↔ b[i]'(h.1 ▸ hi) = b[j]'(h.1 ▸ hj) := by
  have := h.2 i j hi hj
  rw [List.getElem?_eq_getElem hi, List.getElem?_eq_getElem hj,
    List.getElem?_eq_getElem (h.1 ▸ hi), List.getElem?_eq_getElem (h.1 ▸ hj)] at this
  simpa using this

theorem SamePartition.of_getElem {a b : List Int} (hl : a.length = b.length)
    (h : ∀ i j (hi : i < a.length) (hj : j < a.length),
      a[i] = a[j] ↔ b[i]'(hl ▸ hi) = b[j]'(hl ▸ hj)) : SamePartition a b := by
  refine ⟨hl, fun i j hi hj => ?_⟩
  rw [List.getElem?_eq_getElem hi, List.getElem?_eq_getElem hj,
    List.getElem?_eq_getElem (hl ▸ hi), List.getElem?_eq_getElem (hl ▸ hj)]
  simpa using h i j hi hj

theorem Col.SamePart.refl (c : Col) : Col.SamePart c c := ⟨rfl, rfl, SamePartition.refl _⟩

theorem Col.SamePart.symm {c c' : Col} (h : Col.SamePart c c') : Col.SamePart c' c :=
  ⟨h.1.symm, h.2.1.symm, h.2.2.symm⟩

theorem Col.SamePart.trans {a b c : Col} (h : Col.SamePart a b) (h' : Col.SamePart b c) :
    Col.SamePart a c :=
  ⟨h.1.trans h'.1, h.2.1.trans h'.2.1, h.2.2.trans h'.2.2⟩

theorem Col.SamePart.scalar_eq {c c' : Col} (h : Col.SamePart c c') : c.scalar = c'.scalar := by
  simp only [Col.scalar, h.2.1]

theorem Col.SamePart.vals_length {c c' : Col} (h : Col.SamePart c c') :
    c.vals.length = c'.vals.length := by
  simpa [Col.ints] using h.2.2.1

/-! ## 1. a grouped aggregate depends on the id column only through its partition -/

theorem pi_members_congr {α : Type} : ∀ (gid gid' : List Int) (col : List α) (g g' : Int),
    gid.length = gid'.length →
    (∀ k (h : k < gid.length) (h' : k < gid'.length), gid[k] = g ↔ gid'[k] = g') →
    Agg.members gid col g = Agg.members gid' col g' := by
  intro gid
  induction gid with
  | nil =>
    intro gid' col g g' hl _
    cases gid' with
    | nil => rfl
    | cons _ _ => simp at hl
  | cons a gs ih =>
    intro gid' col g g' hl h
    cases gid' with
    | nil => simp at hl
    | cons a' gs' =>
      cases col with
      | nil => simp
      | cons x xs =>
        have ih' := ih gs' xs g g' (by simpa using hl)
          (fun k hk hk' => by
            have := h (k + 1) (by simpa using hk) (by simpa using hk')
            simp only [List.getElem_cons_succ] at this
            exact this)
        have h0 : a = g ↔ a' = g' := by
          have := h 0 (by simp) (by simp)
          simp only [List.getElem_cons_zero] at this
          exact this
        rw [Agg.members_cons, Agg.members_cons, ih']
        by_cases ha : a = g
        · rw [if_pos ha, if_pos (h0.1 ha)]
        · rw [if_neg ha, if_neg (fun h' => ha (h0.2 h'))]

/-- the generic grouped reduction depends on the (non-negative) group ids only through the
partition they induce — as `Except` values -/
theorem pi_grouped_congr {α : Type} (f : α → α → α) (dflt : α) (col : List α)
    {gid gid' : List Int} (h : SamePartition gid gid') (hn : ∀ g ∈ gid, 0 ≤ g)
    (hn' : ∀ g ∈ gid', 0 ≤ g) : Agg.grouped f dflt col gid = Agg.grouped f dflt col gid' := by
  by_cases hl : gid.length = col.length
  · rw [Agg.grouped_eq f dflt col gid ⟨hl, hn⟩, Agg.grouped_eq f dflt col gid' ⟨h.1 ▸ hl, hn'⟩]
    congr 1
    apply List.ext_getElem
    · simpa using h.1
    · intro i h1 h2
      have hi : i < gid.length := by simpa using h1
      simp only [List.getElem_map]
      congr 1
      apply pi_members_congr _ _ _ _ _ h.1
      intro k hk hk'
      exact h.getElem_iff hk hi
  · rw [Agg.grouped_length_error f dflt col gid hl,
      Agg.grouped_length_error f dflt col gid' (by rw [← h.1]; exact hl)]

theorem pi_groupedCount_congr {gid gid' : List Int} (h : SamePartition gid gid')
    (hn : ∀ g ∈ gid, 0 ≤ g) (hn' : ∀ g ∈ gid', 0 ≤ g) :
    Agg.groupedCount gid = Agg.groupedCount gid' := by
  unfold Agg.groupedCount
  have : (gid'.map fun _ => (1 : Int)) = gid.map fun _ => (1 : Int) := by
    rw [List.map_const', List.map_const', h.1]
  rw [this]
  exact pi_grouped_congr _ _ _ h hn hn'

theorem pi_groupedMean_congr (col : List Rat) {gid gid' : List Int} (h : SamePartition gid gid')
    (hn : ∀ g ∈ gid, 0 ≤ g) (hn' : ∀ g ∈ gid', 0 ≤ g) :
    Agg.groupedMean col gid = Agg.groupedMean col gid' := by
  unfold Agg.groupedMean Agg.groupedSum
  rw [pi_grouped_congr _ _ _ h hn hn', pi_groupedCount_congr h hn hn']

theorem pi_aggBody_congr (a : Aggr) (col : Col) {gid gid' : Col}
    (h : SamePartition gid.ints gid'.ints) (hn : ∀ g ∈ gid.ints, 0 ≤ g)
    (hn' : ∀ g ∈ gid'.ints, 0 ≤ g) : aggBody a col gid = aggBody a col gid' := by
  cases a <;> simp only [aggBody, Agg.groupedSum, Agg.groupedMax, Agg.groupedMin, Agg.groupedAny,
    Agg.groupedAll, pi_groupedMean_congr _ h hn hn', pi_grouped_congr _ _ _ h hn hn']

theorem pi_aggGuard_congr (a : Aggr) (col : Col) {gid gid' : Col} (h : Col.SamePart gid gid') :
    aggGuard a col gid = aggGuard a col gid' := by
  simp only [aggGuard, h.1, h.2.1, h.scalar_eq]

theorem pi_bcast_congr (col : Col) {gid gid' : Col} (h : Col.SamePart gid gid') :
    bcast col gid = bcast col gid' := by
  simp only [bcast]
  rw [List.map_const', List.map_const', h.vals_length]

theorem pi_groupAggOp_two_congr (a : Aggr) (col : Col) {gid gid' : Col}
    (h : Col.SamePart gid gid') (hn : ∀ g ∈ gid.ints, 0 ≤ g) (hn' : ∀ g ∈ gid'.ints, 0 ≤ g) :
    groupAggOp a [col, gid] = groupAggOp a [col, gid'] := by
  rw [groupAggOp_two, groupAggOp_two, pi_aggGuard_congr a col h, pi_bcast_congr col h,
    pi_aggBody_congr a _ h.2.2 hn hn']

theorem pi_groupAggOp_one_congr (a : Aggr) {gid gid' : Col}
    (h : Col.SamePart gid gid') (hn : ∀ g ∈ gid.ints, 0 ≤ g) (hn' : ∀ g ∈ gid'.ints, 0 ≤ g) :
    groupAggOp a [gid] = groupAggOp a [gid'] := by
  simp only [groupAggOp, h.1, h.2.1, h.scalar_eq, pi_groupedCount_congr h.2.2 hn hn']

/-! ## 2. the id constructors: normal form of `groupingOp` -/

instance : Inhabited Person := ⟨⟨0, 0, 0, 0, 0, 0⟩⟩

def pi_ints (vs : List Int) (dt : DT := .int) : Col :=
  { dt, vals := vs.map fun (v : Int) => if dt == .float then R.f (v : Rat) else R.i v }

/-- the check "a float column holds a non-integral value" of `groupingOp` -/
def pi_colChk (c : Col) : Bool := c.dt == .float && !c.rats.all isIntegral

def pi_intChk (cols : List Col) : Bool := cols.any pi_colChk

def pi_persons (pid hh alter partner e1 e2 : Col) : List Person :=
  (pid.ints.zip (hh.ints.zip (alter.ints.zip (partner.ints.zip (e1.ints.zip e2.ints))))).map
    fun (p, h, a, pa, x1, x2) => { pid := p, hh := h, alter := a, partner := pa, e1 := x1, e2 := x2 }

def pi_body (g : Grouping) (cols : List Col) : Except Err Col :=
  let ints (vs : List Int) (dt : DT := .int) : Col :=
    { dt, vals := vs.map fun (v : Int) => if dt == .float then R.f (v : Rat) else R.i v }
  match g, cols with
  | .wthh, [hh, v1, v2] =>
    .ok (ints (Groupings.wthhId hh.ints v1.bools v2.bools) (if hh.dt == .float then .float else .int))
  | .bg, [fg, alter, eigen] =>
    .ok (ints (Groupings.bgId fg.ints alter.ints eigen.bools) (if fg.dt == .float then .float else .int))
  | .eg, [pid, partner] => .ok (ints (Groupings.pairId pid.ints partner.ints))
  | .ehe, [pid, partner] => .ok (ints (Groupings.pairId pid.ints partner.ints))
  | .sn, [pid, partner, gv] => do pure (ints (← Groupings.snId pid.ints partner.ints gv.bools))
  | .fg, [pid, hh, alter, partner, e1, e2] =>
    let zipped := pid.ints.zip (hh.ints.zip (alter.ints.zip (partner.ints.zip (e1.ints.zip e2.ints))))
    let ps : List Groupings.Person := zipped.map fun (p, h, a, pa, x1, x2) =>
      { pid := p, hh := h, alter := a, partner := pa, e1 := x1, e2 := x2 }
    do pure (ints (← Groupings.fgId true ps))
  | _, _ => .error .typeError

theorem pi_groupingOp_eq (g : Grouping) (c0 : Col) (rest : List Col) (h0 : c0.scalar = false)
    (hr : rest.any (·.scalar) = false) :
    groupingOp g (c0 :: rest) =
      if pi_intChk (c0 :: rest) then .error .other else pi_body g (c0 :: rest) := by
  unfold groupingOp
  simp only [h0, hr, Bool.false_eq_true, if_false]
  rfl

theorem pi_body_wthh (hh v1 v2 : Col) : pi_body .wthh [hh, v1, v2] =
    .ok (pi_ints (wthhId hh.ints v1.bools v2.bools) (if hh.dt == .float then .float else .int)) := rfl
theorem pi_body_bg (fg alter eigen : Col) : pi_body .bg [fg, alter, eigen] =
    .ok (pi_ints (bgId fg.ints alter.ints eigen.bools) (if fg.dt == .float then .float else .int)) := rfl
theorem pi_body_eg (pid partner : Col) : pi_body .eg [pid, partner] =
    .ok (pi_ints (pairId pid.ints partner.ints)) := rfl
theorem pi_body_ehe (pid partner : Col) : pi_body .ehe [pid, partner] =
    .ok (pi_ints (pairId pid.ints partner.ints)) := rfl
theorem pi_body_sn (pid partner gv : Col) : pi_body .sn [pid, partner, gv] =
    (snId pid.ints partner.ints gv.bools >>= fun r => pure (pi_ints r)) := rfl
theorem pi_body_fg (pid hh alter partner e1 e2 : Col) : pi_body .fg [pid, hh, alter, partner, e1, e2] =
    (fgId true (pi_persons pid hh alter partner e1 e2) >>= fun r => pure (pi_ints r)) := rfl

theorem pi_ints_ints (vs : List Int) (dt : DT) : (pi_ints vs dt).ints = vs := by
  simp only [pi_ints, Col.ints, List.map_map]
  conv => rhs; rw [← List.map_id vs]
  apply List.map_congr_left
  intro v _
  simp only [Function.comp]
  split <;> simp [numOf, ratToInt, Rat.floor_intCast]

theorem pi_permList_getElem {α : Type} [Inhabited α] (σ : List Nat) (l : List α) (k : Nat)
    (hk : k < σ.length) (hv : σ[k] < l.length) :
    (permList σ l)[k]'(by simpa using hk) = l[σ[k]] := by
  simp [permList, hv]

theorem pi_permList_zip {α β : Type} [Inhabited α] [Inhabited β] (σ : List Nat) (a : List α)
    (b : List β) (h : ∀ i ∈ σ, i < a.length) (h' : ∀ i ∈ σ, i < b.length) :
    permList σ (a.zip b) = (permList σ a).zip (permList σ b) :=
  permList_zipWith Prod.mk σ a b h h'

theorem pi_ints_scalar (vs : List Int) (dt : DT) : (pi_ints vs dt).scalar = false := rfl

theorem pi_ints_vals_length (vs : List Int) (dt : DT) : (pi_ints vs dt).vals.length = vs.length := by
  simp [pi_ints]

theorem pi_ints_permute {n : Nat} {σ : List Nat} (hv : ∀ i ∈ σ, i < n) {vs : List Int}
    (hl : vs.length = n) (dt : DT) : (pi_ints vs dt).permute σ = pi_ints (permList σ vs) dt := by
  rw [Col.permute_of_arr (pi_ints_scalar vs dt)]
  simp only [pi_ints]
  rw [permList_map σ vs _ (by rw [hl]; exact hv)]

theorem pi_ints_samePart {a b : List Int} (h : SamePartition a b) (dt : DT) :
    Col.SamePart (pi_ints a dt) (pi_ints b dt) :=
  ⟨rfl, rfl, by rw [pi_ints_ints, pi_ints_ints]; exact h⟩

theorem pi_ints_colOK {n : Nat} {vs : List Int} (hl : vs.length = n) (dt : DT) :
    ColOK n (pi_ints vs dt) := fun _ => by rw [pi_ints_vals_length, hl]

theorem pi_ints_length (c : Col) : c.ints.length = c.vals.length := by simp [Col.ints]
theorem pi_bools_length (c : Col) : c.bools.length = c.vals.length := by simp [Col.bools]

theorem pi_colChk_permute {n : Nat} {σ : List Nat} (hv : ∀ i ∈ σ, i < n) {c : Col}
    (hc : ColOK n c) (h : pi_colChk c = false) : pi_colChk (c.permute σ) = false := by
  cases hs : c.scalar with
  | true => rw [Col.permute_of_scalar hs]; exact h
  | false =>
    simp only [pi_colChk, Col.dt_permute, Bool.and_eq_false_iff, Bool.not_eq_false',
      List.all_eq_true] at h ⊢
    rcases h with h | h
    · exact Or.inl h
    · right
      intro q hq
      rw [Col.rats_permute hv hs (hc hs)] at hq
      exact h q (permList_mem σ _ (by simp only [Col.rats, List.length_map, hc hs]; exact hv) q hq)

theorem pi_intChk_permute {n : Nat} {σ : List Nat} (hv : ∀ i ∈ σ, i < n) {cols : List Col}
    (hc : ColsOK n cols) (h : pi_intChk cols = false) :
    pi_intChk (cols.map (Col.permute σ)) = false := by
  simp only [pi_intChk, List.any_eq_false, List.mem_map, forall_exists_index, and_imp,
    forall_apply_eq_imp_iff₂] at h ⊢
  intro c hcm
  have := pi_colChk_permute hv (hc c hcm) (by simpa using h c hcm)
  simp [this]

theorem pi_valid_zip {α β : Type} {σ : List Nat} {a : List α} {b : List β}
    (h : ∀ i ∈ σ, i < a.length) (h' : ∀ i ∈ σ, i < b.length) : ∀ i ∈ σ, i < (a.zip b).length := by
  intro i hi
  have := h i hi
  have := h' i hi
  simp only [List.length_zip]
  omega

/-- the generic step: a result list that is determined, as a partition, by the rows -/
theorem pi_samePartition_of_rows {ρ : Type} [Inhabited ρ] {n : Nat} {σ : List Nat}
    (hσ : σ.Perm (List.range n)) (rows : List ρ) (hrl : rows.length = n) (res res' : List Int)
    (hl : res.length = rows.length) (hl' : res'.length = (permList σ rows).length)
    (h : ∀ i (hi : i < rows.length) j (hj : j < rows.length) i' (hi' : i' < (permList σ rows).length)
      j' (hj' : j' < (permList σ rows).length), rows[i] = (permList σ rows)[i'] →
        rows[j] = (permList σ rows)[j'] → (res[i] = res[j] ↔ res'[i'] = res'[j'])) :
    SamePartition (permList σ res) res' := by
  have hv := perm_valid hσ
  have hn := perm_length hσ
  have hlen : (permList σ res).length = res'.length := by simp [hl']
  apply SamePartition.of_getElem hlen
  intro i j hi hj
  have hi' : i < σ.length := by simpa using hi
  have hj' : j < σ.length := by simpa using hj
  have hsi : σ[i] < rows.length := by rw [hrl]; exact hv _ (List.getElem_mem hi')
  have hsj : σ[j] < rows.length := by rw [hrl]; exact hv _ (List.getElem_mem hj')
  rw [pi_permList_getElem σ res i hi' (hl ▸ hsi), pi_permList_getElem σ res j hj' (hl ▸ hsj)]
  exact h σ[i] hsi σ[j] hsj i (by simpa using hi') j (by simpa using hj')
    (pi_permList_getElem σ rows i hi' hsi).symm (pi_permList_getElem σ rows j hj' hsj).symm

theorem pi_pairId_rows (a b : List Int) (h : a.length = b.length) :
    pairId a b = pairIdRows (a.zip b) := by
  unfold pairIdRows
  rw [show (a.zip b).map (·.1) = a from List.map_fst_zip (by omega),
    show (a.zip b).map (·.2) = b from List.map_snd_zip (by omega)]

theorem pi_unzip3 {α β γ : Type} (a : List α) (b : List β) (c : List γ) (h : a.length = b.length)
    (h' : a.length = c.length) :
    (a.zip (b.zip c)).map (·.1) = a ∧ (a.zip (b.zip c)).map (·.2.1) = b ∧
      (a.zip (b.zip c)).map (·.2.2) = c := by
  have h1 : (a.zip (b.zip c)).map (·.1) = a := List.map_fst_zip (by simp; omega)
  have h2 : (a.zip (b.zip c)).map (·.2) = b.zip c := List.map_snd_zip (by simp; omega)
  refine ⟨h1, ?_, ?_⟩
  · have : (a.zip (b.zip c)).map (·.2.1) = ((a.zip (b.zip c)).map (·.2)).map (·.1) := by
      rw [List.map_map]; rfl
    rw [this, h2]
    exact List.map_fst_zip (by omega)
  · have : (a.zip (b.zip c)).map (·.2.2) = ((a.zip (b.zip c)).map (·.2)).map (·.2) := by
      rw [List.map_map]; rfl
    rw [this, h2]
    exact List.map_snd_zip (by omega)

theorem pi_snId_rows (a b : List Int) (c : List Bool) (h : a.length = b.length)
    (h' : a.length = c.length) : snId a b c = snIdRows (a.zip (b.zip c)) := by
  obtain ⟨h1, h2, h3⟩ := pi_unzip3 a b c h h'
  unfold snIdRows
  rw [h1, h2, h3]

theorem pi_bgId_rows (a b : List Int) (c : List Bool) (h : a.length = b.length)
    (h' : a.length = c.length) : bgId a b c = bgIdRows (a.zip (b.zip c)) := by
  obtain ⟨h1, h2, h3⟩ := pi_unzip3 a b c h h'
  unfold bgIdRows
  rw [h1, h2, h3]


/-! ## the ids produced by `sn_id` and `fg_id` are counters, hence non-negative -/

theorem pi_foldlM_inv {σ ρ : Type} (P : σ → Prop) (step : σ → ρ → Except Err σ)
    (hstep : ∀ s x s', P s → step s x = .ok s' → P s') :
    ∀ (l : List ρ) (s s' : σ), P s → l.foldlM step s = .ok s' → P s' := by
  intro l
  induction l with
  | nil => intro s s' hP h; simp only [List.foldlM_nil, pure, Except.pure] at h; cases h; exact hP
  | cons x xs ih =>
    intro s s' hP h
    rw [List.foldlM_cons] at h
    obtain ⟨s1, h1, h2⟩ := bind_ok h
    exact ih s1 s' (hstep s x s1 hP h1) h2

def pi_SnNonneg (s : SnState) : Prop :=
  0 ≤ s.next ∧ (∀ k g, dictGet? s.dict k = some g → 0 ≤ g) ∧ ∀ g ∈ s.res, 0 ≤ g

theorem pi_snStep_nonneg (s : SnState) (row : Int × Int × Bool) (s' : SnState)
    (hP : pi_SnNonneg s) (h : snStep s row = .ok s') : pi_SnNonneg s' := by
  obtain ⟨p, partner, gv⟩ := row
  obtain ⟨h1, h2, h3⟩ := hP
  have hfresh : pi_SnNonneg (SnState.mk (dictSet s.dict p s.next) (dictSet s.flag p gv)
      (s.next + 1) (s.next :: s.res)) := by
    refine ⟨by show 0 ≤ s.next + 1; omega, ?_, ?_⟩
    · intro k g hk
      simp only [dictGet?_dictSet] at hk
      split at hk
      · cases hk; exact h1
      · exact h2 k g hk
    · intro g hg
      rcases List.mem_cons.1 hg with rfl | hg
      · exact h1
      · exact h3 g hg
  simp only [snStep] at h
  split at h
  · split at h
    · rename_i g hg
      split at h
      · cases h
      · split at h
        · cases h
        · split at h
          · cases h
            refine ⟨h1, h2, ?_⟩
            intro x hx
            rcases List.mem_cons.1 hx with rfl | hx
            · exact h2 _ _ hg
            · exact h3 x hx
          · cases h; exact hfresh
    · cases h; exact hfresh
  · cases h; exact hfresh

theorem pi_snId_nonneg {pid partner : List Int} {gv : List Bool} {res : List Int}
    (h : snId pid partner gv = .ok res) : ∀ g ∈ res, 0 ≤ g := by
  unfold snId at h
  obtain ⟨s, hs, h⟩ := bind_ok h
  cases h
  have := pi_foldlM_inv pi_SnNonneg snStep pi_snStep_nonneg _ _ _
    ⟨by decide, by intro k g hk; simp [dictGet?] at hk, by simp⟩ hs
  intro g hg
  exact this.2.2 g (by simpa using hg)

def pi_FgNonneg (s : FgState) : Prop :=
  0 ≤ s.next ∧ ∀ k g, dictGet? s.dict k = some g → 0 ≤ g

theorem pi_fgChildren_nonneg (ps : List Person) (cm : List (Int × List Int)) (head : Person)
    (g : Int) (hg : 0 ≤ g) (kids : List Int) (d d' : List (Int × Int))
    (hd : ∀ k x, dictGet? d k = some x → 0 ≤ x) (h : fgChildren ps cm head kids d g = .ok d') :
    ∀ k x, dictGet? d' k = some x → 0 ≤ x := by
  unfold fgChildren at h
  refine pi_foldlM_inv (fun d : List (Int × Int) => ∀ k x, dictGet? d k = some x → 0 ≤ x) _ ?_
    kids d d' hd h
  intro d0 c d1 hd0 hstep
  split at hstep
  · cases hstep
  · split at hstep
    · cases hstep
      intro k x hk
      simp only [dictGet?_dictSet] at hk
      split at hk
      · cases hk; exact hg
      · exact hd0 k x hk
    · cases hstep; exact hd0

theorem pi_fgStep_nonneg (repaired : Bool) (ps : List Person) (cm : List (Int × List Int))
    (s : FgState) (r : Person) (s' : FgState) (hP : pi_FgNonneg s)
    (h : fgStep repaired ps cm s r = .ok s') : pi_FgNonneg s' := by
  obtain ⟨h1, h2⟩ := hP
  unfold fgStep at h
  split at h
  · cases h; exact ⟨h1, h2⟩
  · obtain ⟨d, hd, h⟩ := bind_ok h
    cases h
    refine ⟨by show 0 ≤ s.next + 1; omega, ?_⟩
    refine pi_fgChildren_nonneg ps cm r s.next h1 _ _ d ?_ hd
    intro k x hk
    split at hk
    · simp only [dictGet?_dictSet] at hk
      split at hk
      · cases hk; exact h1
      · split at hk
        · cases hk; exact h1
        · exact h2 k x hk
    · simp only [dictGet?_dictSet] at hk
      split at hk
      · cases hk; exact h1
      · exact h2 k x hk

theorem pi_fgId_nonneg {repaired : Bool} {ps : List Person} {res : List Int}
    (h : fgId repaired ps = .ok res) : ∀ g ∈ res, 0 ≤ g := by
  unfold fgId at h
  obtain ⟨s, hs, h⟩ := bind_ok h
  have hP := pi_foldlM_inv pi_FgNonneg (fgStep repaired ps (childrenMap ps))
    (pi_fgStep_nonneg repaired ps (childrenMap ps)) _ _ _
    ⟨by decide, by intro k g hk; simp [dictGet?] at hk⟩ hs
  rw [Dag.mapM_ok_iff] at h
  intro g hg
  obtain ⟨i, hi, rfl⟩ := List.getElem_of_mem hg
  have hlen := h.length_eq
  have := List.forall₂_iff_get.1 h |>.2 i (by omega) hi
  simp only [List.get_eq_getElem] at this
  split at this
  · rename_i g' hg'
    cases this
    exact hP.2 _ _ hg'
  · cases this


/-! ## 2a. eg_id / ehe_id -/

/-- validity of the inputs `(p_id, partner pointer)` of `eg_id` / `ehe_id`: 1-d arrays whose rows
satisfy `ValidRows` (the hypothesis of `pairId_order_independent`) -/
def pi_ValidPair : List Col → Prop
  | [pid, partner] =>
    pid.scalar = false ∧ partner.scalar = false ∧ ValidRows (pid.ints.zip partner.ints)
  | _ => False

theorem pi_pair_perm {n : Nat} {σ : List Nat} (hσ : σ.Perm (List.range n)) (g : Grouping)
    (hg : g = .eg ∨ g = .ehe) {cols : List Col} {out : Col} (hcols : ColsOK n cols)
    (hv : pi_ValidPair cols) (h : groupingOp g cols = .ok out) :
    ∃ out', groupingOp g (cols.map (Col.permute σ)) = .ok out' ∧
      Col.SamePart (out.permute σ) out' ∧ ColOK n out ∧ (∀ x ∈ out.ints, 0 ≤ x) ∧
      (∀ x ∈ out'.ints, 0 ≤ x) := by
  have hvσ := perm_valid hσ
  match cols, hcols, hv, h with
  | [pid, partner], hcols, ⟨h0, h1, hval⟩, h =>
    have hpl := hcols pid (by simp) h0
    have hql := hcols partner (by simp) h1
    have hpi : pid.ints.length = n := by rw [pi_ints_length, hpl]
    have hqi : partner.ints.length = n := by rw [pi_ints_length, hql]
    rw [pi_groupingOp_eq g pid [partner] h0 (by simp [h1])] at h
    cases hchk : pi_intChk [pid, partner] with
    | true => rw [hchk] at h; simp at h
    | false =>
      have hchk' := pi_intChk_permute (σ := σ) hvσ hcols hchk
      simp only [List.map_cons, List.map_nil] at hchk' ⊢
      rw [pi_groupingOp_eq g _ [partner.permute σ] (by simp [h0]) (by simp [h1]), hchk']
      rw [hchk] at h
      simp only [Bool.false_eq_true, if_false] at h ⊢
      have hb : ∀ a b : Col, pi_body g [a, b] = .ok (pi_ints (pairId a.ints b.ints)) := by
        rcases hg with rfl | rfl <;> intro a b <;> rfl
      rw [hb] at h ⊢
      cases h
      have hrl : (pairId pid.ints partner.ints).length = n := by
        rw [pairId_length', hpi, hqi]; simp
      refine ⟨_, rfl, ?_, pi_ints_colOK hrl _, ?_, ?_⟩
      · rw [pi_ints_permute hvσ hrl, Col.ints_permute hvσ h0 hpl, Col.ints_permute hvσ h1 hql]
        apply pi_ints_samePart
        rw [pi_pairId_rows _ _ (by rw [hpi, hqi]), pi_pairId_rows _ _ (by simp),
          ← pi_permList_zip σ _ _ (by rw [hpi]; exact hvσ) (by rw [hqi]; exact hvσ)]
        have hzl : (pid.ints.zip partner.ints).length = n := by simp [hpi, hqi]
        have hp : (pid.ints.zip partner.ints).Perm (permList σ (pid.ints.zip partner.ints)) :=
          (permList_perm σ _ (by rw [hzl]; exact hσ)).symm
        apply pi_samePartition_of_rows hσ _ hzl _ _ (pairIdRows_length _) (pairIdRows_length _)
        intro i hi j hj i' hi' j' hj' ei ej
        exact pairId_order_independent hp hval hi hj hi' hj' ei ej
      · intro x hx
        rw [pi_ints_ints] at hx
        exact (pairId_ids_bounded _ _ x hx).1
      · intro x hx
        rw [pi_ints_ints] at hx
        exact (pairId_ids_bounded _ _ x hx).1

/-! ## 2b. sn_id -/

/-- validity of the inputs `(p_id, spouse pointer, joint-assessment flag)` of `sn_id` -/
def pi_ValidSn : List Col → Prop
  | [pid, partner, gv] =>
    pid.scalar = false ∧ partner.scalar = false ∧ gv.scalar = false ∧
      ValidRows3 (pid.ints.zip (partner.ints.zip gv.bools))
  | _ => False

theorem pi_bind_pure_ok {α : Type} {x : Except Err α} {f : α → Col} {out : Col}
    (h : (x >>= fun r => pure (f r)) = .ok out) : ∃ r, x = .ok r ∧ out = f r := by
  obtain ⟨r, hr, h⟩ := bind_ok h
  cases h
  exact ⟨r, hr, rfl⟩


theorem pi_sn_perm {n : Nat} {σ : List Nat} (hσ : σ.Perm (List.range n))
    {cols : List Col} {out : Col} (hcols : ColsOK n cols)
    (hv : pi_ValidSn cols) (h : groupingOp .sn cols = .ok out) :
    ∃ out', groupingOp .sn (cols.map (Col.permute σ)) = .ok out' ∧
      Col.SamePart (out.permute σ) out' ∧ ColOK n out ∧ (∀ x ∈ out.ints, 0 ≤ x) ∧
      (∀ x ∈ out'.ints, 0 ≤ x) := by
  have hvσ := perm_valid hσ
  match cols, hcols, hv, h with
  | [pid, partner, gv], hcols, ⟨h0, h1, h2, hval⟩, h =>
    have hpl := hcols pid (by simp) h0
    have hql := hcols partner (by simp) h1
    have hgl := hcols gv (by simp) h2
    have hpi : pid.ints.length = n := by rw [pi_ints_length, hpl]
    have hqi : partner.ints.length = n := by rw [pi_ints_length, hql]
    have hgi : gv.bools.length = n := by rw [pi_bools_length, hgl]
    rw [pi_groupingOp_eq .sn pid [partner, gv] h0 (by simp [h1, h2])] at h
    cases hchk : pi_intChk [pid, partner, gv] with
    | true => rw [hchk] at h; simp at h
    | false =>
      have hchk' := pi_intChk_permute (σ := σ) hvσ hcols hchk
      simp only [List.map_cons, List.map_nil] at hchk' ⊢
      rw [pi_groupingOp_eq .sn _ [partner.permute σ, gv.permute σ] (by simp [h0])
        (by simp [h1, h2]), hchk']
      rw [hchk] at h
      simp only [Bool.false_eq_true, if_false] at h ⊢
      rw [pi_body_sn] at h ⊢
      obtain ⟨res, hres, rfl⟩ := pi_bind_pure_ok h
      rw [Col.ints_permute hvσ h0 hpl, Col.ints_permute hvσ h1 hql, Col.bools_permute hvσ h2 hgl]
      rw [pi_snId_rows _ _ _ (by rw [hpi, hqi]) (by rw [hpi, hgi])] at hres
      rw [pi_snId_rows _ _ _ (by simp) (by simp),
        ← pi_permList_zip σ _ _ (by rw [hqi]; exact hvσ) (by rw [hgi]; exact hvσ),
        ← pi_permList_zip σ _ _ (by rw [hpi]; exact hvσ)
          (pi_valid_zip (by rw [hqi]; exact hvσ) (by rw [hgi]; exact hvσ))]
      generalize hrows : pid.ints.zip (partner.ints.zip gv.bools) = rows at hres hval ⊢
      have hzl : rows.length = n := by rw [← hrows]; simp [hpi, hqi, hgi]
      have hp : rows.Perm (permList σ rows) := (permList_perm σ _ (by rw [hzl]; exact hσ)).symm
      have hag : SnAgree rows := by
        by_contra hna
        rw [(snIdRows_error_iff hval).2 hna] at hres
        cases hres
      obtain ⟨r0, r0', hr0, hr0', hl, hl', hiff⟩ := snId_order_independent hp hval hag
      rw [hres] at hr0
      cases hr0
      rw [hr0']
      have hrl : res.length = n := by rw [hl, hzl]
      refine ⟨_, rfl, ?_, pi_ints_colOK hrl _, ?_, ?_⟩
      · rw [pi_ints_permute hvσ hrl]
        apply pi_ints_samePart
        exact pi_samePartition_of_rows hσ rows hzl _ _ hl hl' hiff
      · intro x hx
        rw [pi_ints_ints] at hx
        unfold snIdRows at hres
        exact pi_snId_nonneg hres x hx
      · intro x hx
        rw [pi_ints_ints] at hx
        unfold snIdRows at hr0'
        exact pi_snId_nonneg hr0' x hx

/-! ## 2c. fg_id -/

/-- validity of the inputs `(p_id, hh_id, alter, p_id_einstandspartner, p_id_elternteil_1,
p_id_elternteil_2)` of `fg_id` -/
def pi_ValidFg : List Col → Prop
  | [pid, hh, alter, partner, e1, e2] =>
    pid.scalar = false ∧ hh.scalar = false ∧ alter.scalar = false ∧ partner.scalar = false ∧
      e1.scalar = false ∧ e2.scalar = false ∧
      ValidPersons (pi_persons pid hh alter partner e1 e2) ∧
      ValidDependents (pi_persons pid hh alter partner e1 e2)
  | _ => False

theorem pi_persons_permute {n : Nat} {σ : List Nat} (hvσ : ∀ i ∈ σ, i < n)
    {pid hh alter partner e1 e2 : Col}
    (h0 : pid.scalar = false) (h1 : hh.scalar = false) (h2 : alter.scalar = false)
    (h3 : partner.scalar = false) (h4 : e1.scalar = false) (h5 : e2.scalar = false)
    (l0 : pid.vals.length = n) (l1 : hh.vals.length = n) (l2 : alter.vals.length = n)
    (l3 : partner.vals.length = n) (l4 : e1.vals.length = n) (l5 : e2.vals.length = n) :
    pi_persons (pid.permute σ) (hh.permute σ) (alter.permute σ) (partner.permute σ) (e1.permute σ)
      (e2.permute σ) = permList σ (pi_persons pid hh alter partner e1 e2) ∧
    (pi_persons pid hh alter partner e1 e2).length = n := by
  have i0 : ∀ i ∈ σ, i < pid.ints.length := by rw [pi_ints_length, l0]; exact hvσ
  have i1 : ∀ i ∈ σ, i < hh.ints.length := by rw [pi_ints_length, l1]; exact hvσ
  have i2 : ∀ i ∈ σ, i < alter.ints.length := by rw [pi_ints_length, l2]; exact hvσ
  have i3 : ∀ i ∈ σ, i < partner.ints.length := by rw [pi_ints_length, l3]; exact hvσ
  have i4 : ∀ i ∈ σ, i < e1.ints.length := by rw [pi_ints_length, l4]; exact hvσ
  have i5 : ∀ i ∈ σ, i < e2.ints.length := by rw [pi_ints_length, l5]; exact hvσ
  have z4 := pi_valid_zip i4 i5
  have z3 := pi_valid_zip i3 z4
  have z2 := pi_valid_zip i2 z3
  have z1 := pi_valid_zip i1 z2
  have z0 := pi_valid_zip i0 z1
  constructor
  · simp only [pi_persons]
    rw [Col.ints_permute hvσ h0 l0, Col.ints_permute hvσ h1 l1, Col.ints_permute hvσ h2 l2,
      Col.ints_permute hvσ h3 l3, Col.ints_permute hvσ h4 l4, Col.ints_permute hvσ h5 l5,
      ← pi_permList_zip σ _ _ i4 i5, ← pi_permList_zip σ _ _ i3 z4, ← pi_permList_zip σ _ _ i2 z3,
      ← pi_permList_zip σ _ _ i1 z2, ← pi_permList_zip σ _ _ i0 z1, permList_map σ _ _ z0]
  · simp only [pi_persons, List.length_map, List.length_zip, pi_ints_length, l0, l1, l2, l3, l4, l5]
    omega

theorem pi_fg_perm {n : Nat} {σ : List Nat} (hσ : σ.Perm (List.range n))
    {cols : List Col} {out : Col} (hcols : ColsOK n cols)
    (hv : pi_ValidFg cols) (h : groupingOp .fg cols = .ok out) :
    ∃ out', groupingOp .fg (cols.map (Col.permute σ)) = .ok out' ∧
      Col.SamePart (out.permute σ) out' ∧ ColOK n out ∧ (∀ x ∈ out.ints, 0 ≤ x) ∧
      (∀ x ∈ out'.ints, 0 ≤ x) := by
  have hvσ := perm_valid hσ
  match cols, hcols, hv, h with
  | [pid, hh, alter, partner, e1, e2], hcols, ⟨h0, h1, h2, h3, h4, h5, hval, hdep⟩, h =>
    have l0 := hcols pid (by simp) h0
    have l1 := hcols hh (by simp) h1
    have l2 := hcols alter (by simp) h2
    have l3 := hcols partner (by simp) h3
    have l4 := hcols e1 (by simp) h4
    have l5 := hcols e2 (by simp) h5
    rw [pi_groupingOp_eq .fg pid _ h0 (by simp [h1, h2, h3, h4, h5])] at h
    cases hchk : pi_intChk [pid, hh, alter, partner, e1, e2] with
    | true => rw [hchk] at h; simp at h
    | false =>
      have hchk' := pi_intChk_permute (σ := σ) hvσ hcols hchk
      simp only [List.map_cons, List.map_nil] at hchk' ⊢
      rw [pi_groupingOp_eq .fg _ _ (by simp [h0]) (by simp [h1, h2, h3, h4, h5]), hchk']
      rw [hchk] at h
      simp only [Bool.false_eq_true, if_false] at h ⊢
      rw [pi_body_fg] at h ⊢
      obtain ⟨res, hres, rfl⟩ := pi_bind_pure_ok h
      obtain ⟨hps, hzl⟩ := pi_persons_permute hvσ h0 h1 h2 h3 h4 h5 l0 l1 l2 l3 l4 l5
      rw [hps]
      generalize pi_persons pid hh alter partner e1 e2 = ps at hres hval hdep hzl ⊢
      have hp : ps.Perm (permList σ ps) := (permList_perm σ _ (by rw [hzl]; exact hσ)).symm
      obtain ⟨r0, r0', hr0, hr0', hl, hl', hiff⟩ := fg_repaired_order_independent hp hval hdep
      rw [hres] at hr0
      cases hr0
      rw [hr0']
      have hrl : res.length = n := by rw [hl, hzl]
      refine ⟨_, rfl, ?_, pi_ints_colOK hrl _, ?_, ?_⟩
      · rw [pi_ints_permute hvσ hrl]
        apply pi_ints_samePart
        exact pi_samePartition_of_rows hσ ps hzl _ _ hl hl' hiff
      · intro x hx
        rw [pi_ints_ints] at hx
        exact pi_fgId_nonneg hres x hx
      · intro x hx
        rw [pi_ints_ints] at hx
        exact pi_fgId_nonneg hr0' x hx


/-! ## 2d. wthh_id (row by row: plain equality) -/

def pi_ValidWthh : List Col → Prop
  | [hh, v1, v2] => hh.scalar = false ∧ v1.scalar = false ∧ v2.scalar = false
  | _ => False

theorem pi_wthhId_permList {n : Nat} {σ : List Nat} (hvσ : ∀ i ∈ σ, i < n) (a : List Int)
    (b c : List Bool) (ha : a.length = n) (hb : b.length = n) (hc : c.length = n) :
    wthhId (permList σ a) (permList σ b) (permList σ c) = permList σ (wthhId a b c) := by
  unfold wthhId
  rw [← pi_permList_zip σ _ _ (by rw [hb]; exact hvσ) (by rw [hc]; exact hvσ),
    ← pi_permList_zip σ _ _ (by rw [ha]; exact hvσ)
      (pi_valid_zip (by rw [hb]; exact hvσ) (by rw [hc]; exact hvσ)),
    permList_map σ _ _ (pi_valid_zip (by rw [ha]; exact hvσ)
      (pi_valid_zip (by rw [hb]; exact hvσ) (by rw [hc]; exact hvσ)))]

theorem pi_wthh_perm {n : Nat} {σ : List Nat} (hσ : σ.Perm (List.range n))
    {cols : List Col} {out : Col} (hcols : ColsOK n cols)
    (hv : pi_ValidWthh cols) (h : groupingOp .wthh cols = .ok out) :
    groupingOp .wthh (cols.map (Col.permute σ)) = .ok (out.permute σ) ∧ ColOK n out := by
  have hvσ := perm_valid hσ
  match cols, hcols, hv, h with
  | [hh, v1, v2], hcols, ⟨h0, h1, h2⟩, h =>
    have l0 := hcols hh (by simp) h0
    have l1 := hcols v1 (by simp) h1
    have l2 := hcols v2 (by simp) h2
    rw [pi_groupingOp_eq .wthh hh _ h0 (by simp [h1, h2])] at h
    cases hchk : pi_intChk [hh, v1, v2] with
    | true => rw [hchk] at h; simp at h
    | false =>
      have hchk' := pi_intChk_permute (σ := σ) hvσ hcols hchk
      simp only [List.map_cons, List.map_nil] at hchk' ⊢
      rw [pi_groupingOp_eq .wthh _ _ (by simp [h0]) (by simp [h1, h2]), hchk']
      rw [hchk] at h
      simp only [Bool.false_eq_true, if_false] at h ⊢
      rw [pi_body_wthh] at h ⊢
      cases h
      have hrl : (wthhId hh.ints v1.bools v2.bools).length = n := by
        rw [wthhId_length', pi_ints_length, pi_bools_length, pi_bools_length, l0, l1, l2]; simp
      refine ⟨?_, pi_ints_colOK hrl _⟩
      rw [pi_ints_permute hvσ hrl, Col.ints_permute hvσ h0 l0, Col.bools_permute hvσ h1 l1,
        Col.bools_permute hvσ h2 l2, Col.dt_permute,
        pi_wthhId_permList hvσ _ _ _ (by rw [pi_ints_length, l0]) (by rw [pi_bools_length, l1])
          (by rw [pi_bools_length, l2])]

/-! ## 2e. bg_id: a congruence in the `fg_id` argument -/

theorem pi_perm_getElem_inj {n : Nat} {σ : List Nat} (hσ : σ.Perm (List.range n)) {k l : Nat}
    (hk : k < σ.length) (hl : l < σ.length) : σ[k] = σ[l] ↔ k = l :=
  (hσ.nodup_iff.2 List.nodup_range).getElem_inj_iff

/-- `bg_id` on rows permuted by `σ`, the `fg_id` column being replaced by one that induces the same
partition as the permuted original -/
theorem pi_bg_perm_congr {n : Nat} {σ : List Nat} (hσ : σ.Perm (List.range n))
    {fg fg' alter eigen out : Col} (hcols : ColsOK n [fg, alter, eigen])
    (h0 : fg.scalar = false) (h1 : alter.scalar = false) (h2 : eigen.scalar = false)
    (hfg : Col.SamePart (fg.permute σ) fg') (hchk1 : pi_colChk fg' = false)
    (hs : BgSmall (fg.ints.zip (alter.ints.zip eigen.bools)))
    (hs' : BgSmall (fg'.ints.zip ((alter.permute σ).ints.zip (eigen.permute σ).bools)))
    (h : groupingOp .bg [fg, alter, eigen] = .ok out) :
    ∃ out', groupingOp .bg [fg', alter.permute σ, eigen.permute σ] = .ok out' ∧
      Col.SamePart (out.permute σ) out' ∧ ColOK n out := by
  have hvσ := perm_valid hσ
  have hn := perm_length hσ
  have l0 := hcols fg (by simp) h0
  have l1 := hcols alter (by simp) h1
  have l2 := hcols eigen (by simp) h2
  have h0' : fg'.scalar = false := by rw [← hfg.scalar_eq, Col.scalar_permute, h0]
  have li0 : fg.ints.length = n := by rw [pi_ints_length, l0]
  have li1 : alter.ints.length = n := by rw [pi_ints_length, l1]
  have li2 : eigen.bools.length = n := by rw [pi_bools_length, l2]
  have hfgp := hfg.2.2
  rw [Col.ints_permute hvσ h0 l0] at hfgp
  have li0' : fg'.ints.length = n := by rw [← hfgp.1]; simp [hn]
  rw [pi_groupingOp_eq .bg fg _ h0 (by simp [h1, h2])] at h
  cases hchk : pi_intChk [fg, alter, eigen] with
  | true => rw [hchk] at h; simp at h
  | false =>
    have hchk' : pi_intChk [fg', alter.permute σ, eigen.permute σ] = false := by
      simp only [pi_intChk, List.any_cons, List.any_nil, Bool.or_false, Bool.or_eq_false_iff] at hchk ⊢
      exact ⟨hchk1, pi_colChk_permute hvσ (hcols alter (by simp)) hchk.2.1,
        pi_colChk_permute hvσ (hcols eigen (by simp)) hchk.2.2⟩
    rw [pi_groupingOp_eq .bg _ _ h0' (by simp [h1, h2]), hchk']
    rw [hchk] at h
    simp only [Bool.false_eq_true, if_false] at h ⊢
    rw [pi_body_bg] at h ⊢
    cases h
    have hrl : (bgId fg.ints alter.ints eigen.bools).length = n := by
      rw [bgId_length', li0, li1, li2]; simp
    have hdt : fg'.dt = fg.dt := by rw [← hfg.1, Col.dt_permute]
    refine ⟨_, rfl, ?_, pi_ints_colOK hrl _⟩
    rw [pi_ints_permute hvσ hrl, hdt]
    apply pi_ints_samePart
    rw [Col.ints_permute hvσ h1 l1, Col.bools_permute hvσ h2 l2] at hs' ⊢
    rw [pi_bgId_rows _ _ _ (by rw [li0, li1]) (by rw [li0, li2]),
      pi_bgId_rows _ _ _ (by rw [li0']; simp [hn]) (by rw [li0']; simp [hn])]
    generalize hrows : fg.ints.zip (alter.ints.zip eigen.bools) = rows at hs ⊢
    generalize hrows' : fg'.ints.zip ((permList σ alter.ints).zip (permList σ eigen.bools)) = rows'
      at hs' ⊢
    have hzl : rows.length = n := by rw [← hrows]; simp [li0, li1, li2]
    have hzl' : rows'.length = n := by rw [← hrows']; simp [li0', hn]
    apply SamePartition.of_getElem (by rw [permList_length, bgIdRows_length, hzl', hn])
    intro k l hk hl
    have hk' : k < σ.length := by simpa using hk
    have hl' : l < σ.length := by simpa using hl
    have hsk : σ[k] < n := hvσ _ (List.getElem_mem hk')
    have hsl : σ[l] < n := hvσ _ (List.getElem_mem hl')
    rw [pi_permList_getElem σ _ k hk' (by rw [bgIdRows_length, hzl]; exact hsk),
      pi_permList_getElem σ _ l hl' (by rw [bgIdRows_length, hzl]; exact hsl)]
    have e1 : ∀ i (hi : i < rows.length), rows[i] =
        (fg.ints[i]'(by rw [li0, ← hzl]; exact hi), alter.ints[i]'(by rw [li1, ← hzl]; exact hi),
          eigen.bools[i]'(by rw [li2, ← hzl]; exact hi)) := by
      intro i hi; subst hrows; simp
    have e2 : ∀ i (hi : i < rows'.length), rows'[i] =
        (fg'.ints[i]'(by rw [li0', ← hzl']; exact hi),
          (permList σ alter.ints)[i]'(by rw [permList_length, hn, ← hzl']; exact hi),
          (permList σ eigen.bools)[i]'(by rw [permList_length, hn, ← hzl']; exact hi)) := by
      intro i hi; subst hrows'; simp
    have hkn : k < n := hn ▸ hk'
    have hln : l < n := hn ▸ hl'
    refine bgId_partition_congr hs hs' (i := σ[k]) (j := σ[l]) (i' := k) (j' := l)
      (by rw [hzl]; exact hsk) (by rw [hzl]; exact hsl) (by rw [hzl']; exact hkn)
      (by rw [hzl']; exact hln) (pi_perm_getElem_inj hσ hk' hl') ?_ ?_ ?_
    · rw [e1, e1, e2, e2]
      simp only
      have := hfgp.getElem_iff (i := k) (j := l) (by simpa using hk') (by simpa using hl')
      rw [pi_permList_getElem σ _ k hk' (by rw [li0]; exact hsk),
        pi_permList_getElem σ _ l hl' (by rw [li0]; exact hsl)] at this
      exact this
    · rw [e1, e2]
      simp only
      rw [pi_permList_getElem σ _ k hk' (by rw [li1]; exact hsk),
        pi_permList_getElem σ _ k hk' (by rw [li2]; exact hsk)]
    · rw [e1, e2]
      simp only
      rw [pi_permList_getElem σ _ l hl' (by rw [li1]; exact hsl),
        pi_permList_getElem σ _ l hl' (by rw [li2]; exact hsl)]


theorem pi_countP_pointwise {α β : Type} (p : α → Bool) (q : β → Bool) :
    ∀ (a : List α) (b : List β), a.length = b.length →
      (∀ i (hi : i < a.length) (hi' : i < b.length), p a[i] = q b[i]) →
      a.countP p = b.countP q := by
  intro a
  induction a with
  | nil => intro b hl _; cases b with
    | nil => rfl
    | cons _ _ => simp at hl
  | cons x xs ih =>
    intro b hl h
    cases b with
    | nil => simp at hl
    | cons y ys =>
      have h0 : p x = q y := by
        have := h 0 (by simp) (by simp)
        simp only [List.getElem_cons_zero] at this
        exact this
      have ih' := ih ys (by simpa using hl) (fun i hi hi' => by
        have := h (i + 1) (by simpa using hi) (by simpa using hi')
        simp only [List.getElem_cons_succ] at this
        exact this)
      rw [List.countP_cons, List.countP_cons, ih', h0]

/-- `BgSmall` is transferred along a row permutation combined with a renumbering of the fg ids that
keeps the partition -/
theorem pi_bgSmall_transfer {n : Nat} {σ : List Nat} (hσ : σ.Perm (List.range n))
    {rows rows' : List (Int × Int × Bool)} (hl : rows.length = n) (hl' : rows'.length = n)
    (hfg : ∀ k l (hk : k < σ.length) (hl2 : l < σ.length),
      ((rows[σ[k]]'(by rw [hl]; exact perm_valid hσ _ (List.getElem_mem hk))).1 =
        (rows[σ[l]]'(by rw [hl]; exact perm_valid hσ _ (List.getElem_mem hl2))).1 ↔
       (rows'[k]'(by rw [hl', ← perm_length hσ]; exact hk)).1 =
        (rows'[l]'(by rw [hl', ← perm_length hσ]; exact hl2)).1))
    (hrest : ∀ k (hk : k < σ.length),
      (rows'[k]'(by rw [hl', ← perm_length hσ]; exact hk)).2 =
        (rows[σ[k]]'(by rw [hl]; exact perm_valid hσ _ (List.getElem_mem hk))).2)
    (hs : BgSmall rows) : BgSmall rows' := by
  have hvσ := perm_valid hσ
  have hn := perm_length hσ
  intro r hr
  obtain ⟨k, hk, rfl⟩ := List.getElem_of_mem hr
  have hk' : k < σ.length := by rw [hn, ← hl']; exact hk
  have hsk : σ[k] < rows.length := by rw [hl]; exact hvσ _ (List.getElem_mem hk')
  have h1 : rows'.countP (fun x => x.1 == rows'[k].1 && bgQual x) =
      (permList σ rows).countP (fun x => x.1 == rows[σ[k]].1 && bgQual x) := by
    apply pi_countP_pointwise
    · simp [hl', hn]
    · intro l hl2 hl2'
      have hl3 : l < σ.length := by simpa using hl2'
      have hsl : σ[l] < rows.length := by rw [hl]; exact hvσ _ (List.getElem_mem hl3)
      rw [pi_permList_getElem σ rows l hl3 hsl]
      have hq : bgQual rows'[l] = bgQual rows[σ[l]] := by
        unfold bgQual; rw [hrest l hl3]
      rw [hq]
      congr 1
      have := hfg l k hl3 hk'
      rw [Bool.eq_iff_iff]
      simp only [beq_iff_eq]
      exact this.symm
  rw [h1, (permList_perm σ rows (by rw [hl]; exact hσ)).countP_eq]
  exact hs _ (List.getElem_mem hsk)

theorem pi_permList_range {α : Type} [Inhabited α] (l : List α) :
    permList (List.range l.length) l = l := Dag.map_range_getD l

theorem pi_permute_range {n : Nat} {c : Col} (hc : ColOK n c) : c.permute (List.range n) = c := by
  cases hs : c.scalar with
  | true => exact Col.permute_of_scalar hs
  | false =>
    rw [Col.permute_of_arr hs, ← hc hs, pi_permList_range]

/-- the ids produced by `bg_id` from non-negative fg ids are non-negative -/
theorem pi_bgId_nonneg (fg alter : List Int) (eigen : List Bool) (h : ∀ x ∈ fg, 0 ≤ x) :
    ∀ x ∈ bgId fg alter eigen, 0 ≤ x := by
  intro x hx
  obtain ⟨i, hi, rfl⟩ := List.getElem_of_mem hx
  rw [bgId_getElem_rows hi]
  have hi' := hi
  rw [bgId_length'] at hi'
  have : 0 ≤ fg[i]'(by omega) := h _ (List.getElem_mem _)
  unfold bgVal
  split
  · simp only; omega
  · simp only; omega


/-- `BgSmall` of the original table implies `BgSmall` of the permuted table with partition-equal
fg ids -/
theorem pi_bgSmall_cols {n : Nat} {σ : List Nat} (hσ : σ.Perm (List.range n))
    {fg fg' alter eigen : Col} (hcols : ColsOK n [fg, alter, eigen])
    (h0 : fg.scalar = false) (h1 : alter.scalar = false) (h2 : eigen.scalar = false)
    (hfg : Col.SamePart (fg.permute σ) fg')
    (hs : BgSmall (fg.ints.zip (alter.ints.zip eigen.bools))) :
    BgSmall (fg'.ints.zip ((alter.permute σ).ints.zip (eigen.permute σ).bools)) := by
  have hvσ := perm_valid hσ
  have hn := perm_length hσ
  have l0 := hcols fg (by simp) h0
  have l1 := hcols alter (by simp) h1
  have l2 := hcols eigen (by simp) h2
  have li0 : fg.ints.length = n := by rw [pi_ints_length, l0]
  have li1 : alter.ints.length = n := by rw [pi_ints_length, l1]
  have li2 : eigen.bools.length = n := by rw [pi_bools_length, l2]
  have hfgp := hfg.2.2
  rw [Col.ints_permute hvσ h0 l0] at hfgp
  have li0' : fg'.ints.length = n := by rw [← hfgp.1]; simp [hn]
  rw [Col.ints_permute hvσ h1 l1, Col.bools_permute hvσ h2 l2]
  generalize hrows : fg.ints.zip (alter.ints.zip eigen.bools) = rows at hs
  generalize hrows' : fg'.ints.zip ((permList σ alter.ints).zip (permList σ eigen.bools)) = rows'
  have hzl : rows.length = n := by rw [← hrows]; simp [li0, li1, li2]
  have hzl' : rows'.length = n := by rw [← hrows']; simp [li0', hn]
  have e1 : ∀ i (hi : i < rows.length), rows[i] =
      (fg.ints[i]'(by rw [li0, ← hzl]; exact hi), alter.ints[i]'(by rw [li1, ← hzl]; exact hi),
        eigen.bools[i]'(by rw [li2, ← hzl]; exact hi)) := by
    intro i hi; subst hrows; simp
  have e2 : ∀ i (hi : i < rows'.length), rows'[i] =
      (fg'.ints[i]'(by rw [li0', ← hzl']; exact hi),
        (permList σ alter.ints)[i]'(by rw [permList_length, hn, ← hzl']; exact hi),
        (permList σ eigen.bools)[i]'(by rw [permList_length, hn, ← hzl']; exact hi)) := by
    intro i hi; subst hrows'; simp
  refine pi_bgSmall_transfer hσ hzl hzl' ?_ ?_ hs
  · intro k l hk hl
    have hsk : σ[k] < n := hvσ _ (List.getElem_mem hk)
    have hsl : σ[l] < n := hvσ _ (List.getElem_mem hl)
    rw [e1, e1, e2, e2]
    simp only
    have := hfgp.getElem_iff (i := k) (j := l) (by simpa using hk) (by simpa using hl)
    rw [pi_permList_getElem σ _ k hk (by rw [li0]; exact hsk),
      pi_permList_getElem σ _ l hl (by rw [li0]; exact hsl)] at this
    exact this
  · intro k hk
    have hsk : σ[k] < n := hvσ _ (List.getElem_mem hk)
    rw [e1, e2]
    simp only
    rw [pi_permList_getElem σ _ k hk (by rw [li1]; exact hsk),
      pi_permList_getElem σ _ k hk (by rw [li2]; exact hsk)]

/-- validity of the inputs `(fg_id, alter, eigenbedarf_gedeckt)` of `bg_id` -/
def pi_ValidBg : List Col → Prop
  | [fg, alter, eigen] =>
    fg.scalar = false ∧ alter.scalar = false ∧ eigen.scalar = false ∧
      BgSmall (fg.ints.zip (alter.ints.zip eigen.bools))
  | _ => False

theorem pi_groupingOp_colChk {g : Grouping} {c0 : Col} {rest : List Col} {out : Col}
    (h0 : c0.scalar = false) (hr : rest.any (·.scalar) = false)
    (h : groupingOp g (c0 :: rest) = .ok out) : pi_intChk (c0 :: rest) = false := by
  rw [pi_groupingOp_eq g c0 rest h0 hr] at h
  cases hchk : pi_intChk (c0 :: rest) with
  | true => rw [hchk] at h; simp at h
  | false => rfl

/-- `bg_id` under a pure row permutation -/
theorem pi_bg_perm {n : Nat} {σ : List Nat} (hσ : σ.Perm (List.range n))
    {cols : List Col} {out : Col} (hcols : ColsOK n cols)
    (hv : pi_ValidBg cols) (h : groupingOp .bg cols = .ok out) :
    ∃ out', groupingOp .bg (cols.map (Col.permute σ)) = .ok out' ∧
      Col.SamePart (out.permute σ) out' ∧ ColOK n out := by
  match cols, hcols, hv, h with
  | [fg, alter, eigen], hcols, ⟨h0, h1, h2, hs⟩, h =>
    have hchk := pi_groupingOp_colChk h0 (by simp [h1, h2]) h
    have hc0 : pi_colChk fg = false := by
      simp only [pi_intChk, List.any_cons, Bool.or_eq_false_iff] at hchk
      exact hchk.1
    exact pi_bg_perm_congr hσ hcols h0 h1 h2 (Col.SamePart.refl _)
      (pi_colChk_permute (perm_valid hσ) (hcols fg (by simp)) hc0) hs
      (pi_bgSmall_cols hσ hcols h0 h1 h2 (Col.SamePart.refl _) hs) h

/-- `bg_id` is a congruence in its `fg_id` argument (same `alter`, `eigenbedarf_gedeckt`) -/
theorem pi_bg_congr {n : Nat} {fg fg' alter eigen out : Col} (hcols : ColsOK n [fg, alter, eigen])
    (h0 : fg.scalar = false) (h1 : alter.scalar = false) (h2 : eigen.scalar = false)
    (hfg : Col.SamePart fg fg') (hchk1 : pi_colChk fg' = false)
    (hs : BgSmall (fg.ints.zip (alter.ints.zip eigen.bools)))
    (h : groupingOp .bg [fg, alter, eigen] = .ok out) :
    ∃ out', groupingOp .bg [fg', alter, eigen] = .ok out' ∧ Col.SamePart out out' ∧
      BgSmall (fg'.ints.zip (alter.ints.zip eigen.bools)) := by
  have hσ : (List.range n).Perm (List.range n) := List.Perm.refl _
  have hfg' : Col.SamePart (fg.permute (List.range n)) fg' := by
    rw [pi_permute_range (hcols fg (by simp))]; exact hfg
  have hs' := pi_bgSmall_cols hσ hcols h0 h1 h2 hfg' hs
  obtain ⟨out', ho', hsp, hok⟩ := pi_bg_perm_congr hσ hcols h0 h1 h2 hfg' hchk1 hs hs' h
  rw [pi_permute_range (hcols alter (by simp)), pi_permute_range (hcols eigen (by simp))] at ho' hs'
  rw [pi_permute_range hok] at hsp
  exact ⟨out', ho', hsp, hs'⟩

/-! ## 2f. all constructors -/

/-- the validity hypothesis of the id constructor `g` on its input columns -/
def pi_Valid (g : Grouping) (cols : List Col) : Prop :=
  match g with
  | .eg => pi_ValidPair cols
  | .ehe => pi_ValidPair cols
  | .sn => pi_ValidSn cols
  | .fg => pi_ValidFg cols
  | .bg => pi_ValidBg cols
  | .wthh => pi_ValidWthh cols

theorem pi_groupingOp_perm {n : Nat} {σ : List Nat} (hσ : σ.Perm (List.range n)) (g : Grouping)
    {cols : List Col} {out : Col} (hcols : ColsOK n cols) (hv : pi_Valid g cols)
    (h : groupingOp g cols = .ok out) :
    ∃ out', groupingOp g (cols.map (Col.permute σ)) = .ok out' ∧
      Col.SamePart (out.permute σ) out' ∧ ColOK n out := by
  cases g with
  | eg =>
    obtain ⟨o, h1, h2, h3, _⟩ := pi_pair_perm hσ .eg (Or.inl rfl) hcols hv h
    exact ⟨o, h1, h2, h3⟩
  | ehe =>
    obtain ⟨o, h1, h2, h3, _⟩ := pi_pair_perm hσ .ehe (Or.inr rfl) hcols hv h
    exact ⟨o, h1, h2, h3⟩
  | sn =>
    obtain ⟨o, h1, h2, h3, _⟩ := pi_sn_perm hσ hcols hv h
    exact ⟨o, h1, h2, h3⟩
  | fg =>
    obtain ⟨o, h1, h2, h3, _⟩ := pi_fg_perm hσ hcols hv h
    exact ⟨o, h1, h2, h3⟩
  | bg => exact pi_bg_perm hσ hcols hv h
  | wthh =>
    obtain ⟨h1, h2⟩ := pi_wthh_perm hσ hcols hv h
    exact ⟨_, h1, Col.SamePart.refl _, h2⟩


theorem pi_nonneg_permute {n : Nat} {σ : List Nat} (hσ : σ.Perm (List.range n)) {c : Col}
    (hc : ColOK n c) (h : ∀ x ∈ c.ints, 0 ≤ x) : ∀ x ∈ (c.permute σ).ints, 0 ≤ x := by
  cases hs : c.scalar with
  | true => rw [Col.permute_of_scalar hs]; exact h
  | false =>
    rw [Col.ints_permute (perm_valid hσ) hs (hc hs)]
    intro x hx
    exact h x (permList_mem σ _ (by rw [pi_ints_length, hc hs]; exact perm_valid hσ) x hx)

theorem pi_bg_out_nonneg {fg alter eigen out : Col} (h0 : fg.scalar = false)
    (h1 : alter.scalar = false) (h2 : eigen.scalar = false) (hn : ∀ x ∈ fg.ints, 0 ≤ x)
    (h : groupingOp .bg [fg, alter, eigen] = .ok out) : ∀ x ∈ out.ints, 0 ≤ x := by
  have hchk := pi_groupingOp_colChk h0 (by simp [h1, h2]) h
  rw [pi_groupingOp_eq .bg fg _ h0 (by simp [h1, h2]), hchk] at h
  simp only [Bool.false_eq_true, if_false] at h
  rw [pi_body_bg] at h
  cases h
  rw [pi_ints_ints]
  exact pi_bgId_nonneg _ _ _ hn

theorem pi_ints_colChk (vs : List Int) (dt : DT) : pi_colChk (pi_ints vs dt) = false := by
  simp only [pi_colChk, Bool.and_eq_false_iff, Bool.not_eq_false', List.all_eq_true]
  right
  intro q hq
  simp only [Col.rats, pi_ints, List.map_map, List.mem_map, Function.comp] at hq
  obtain ⟨v, _, rfl⟩ := hq
  split <;> simp [numOf, isIntegral]

/-- every successful id constructor on 1-d arrays returns an integral 1-d array -/
theorem pi_groupingOp_out {g : Grouping} {c0 : Col} {rest : List Col} {out : Col}
    (h0 : c0.scalar = false) (hr : rest.any (·.scalar) = false)
    (h : groupingOp g (c0 :: rest) = .ok out) : ∃ vs dt, out = pi_ints vs dt := by
  have hchk := pi_groupingOp_colChk h0 hr h
  rw [pi_groupingOp_eq g c0 rest h0 hr, hchk] at h
  simp only [Bool.false_eq_true, if_false] at h
  unfold pi_body at h
  simp only at h
  split at h
  · cases h; exact ⟨_, _, rfl⟩
  · cases h; exact ⟨_, _, rfl⟩
  · cases h; exact ⟨_, _, rfl⟩
  · cases h; exact ⟨_, _, rfl⟩
  · obtain ⟨r, _, h⟩ := bind_ok h; cases h; exact ⟨_, _, rfl⟩
  · obtain ⟨r, _, h⟩ := bind_ok h; cases h; exact ⟨_, _, rfl⟩
  · cases h


/-! ## 3. the lift through the evaluation of the DAG -/

/-- the relation between the value `c` of the node / data column `name` in the original run and its
value `c'` in the run on the permuted data: nodes marked by `isId` (derived group ids) induce the
same partition, all others are permuted exactly -/
def IdRel (σ : List Nat) (isId : String → Bool) (name : String) (c c' : Col) : Prop :=
  if isId name then Col.SamePart (c.permute σ) c' else c' = c.permute σ

/-- the invariant of the lift: `IdRel` plus the number of rows; marked columns moreover hold
non-negative ids in both runs, and the one of the permuted run passes the integrality check -/
def pi_Inv (n : Nat) (σ : List Nat) (isId : String → Bool) (name : String) (c c' : Col) : Prop :=
  ColOK n c ∧
    if isId name then
      Col.SamePart (c.permute σ) c' ∧ (∀ x ∈ c.ints, 0 ≤ x) ∧ (∀ x ∈ c'.ints, 0 ≤ x) ∧
        pi_colChk c' = false
    else c' = c.permute σ

theorem pi_Inv.idRel {n : Nat} {σ : List Nat} {isId : String → Bool} {name : String} {c c' : Col}
    (h : pi_Inv n σ isId name c c') : IdRel σ isId name c c' := by
  unfold IdRel
  have := h.2
  split at this
  · rename_i hi; rw [if_pos hi]; exact this.1
  · rename_i hi; rw [if_neg hi]; exact this

theorem pi_Inv.unmarked {n : Nat} {σ : List Nat} {isId : String → Bool} {name : String}
    {c c' : Col} (h : pi_Inv n σ isId name c c') (hi : isId name = false) : c' = c.permute σ := by
  have := h.2
  rw [if_neg (by simp [hi])] at this
  exact this

theorem pi_Inv.marked {n : Nat} {σ : List Nat} {isId : String → Bool} {name : String}
    {c c' : Col} (h : pi_Inv n σ isId name c c') (hi : isId name = true) :
    Col.SamePart (c.permute σ) c' ∧ (∀ x ∈ c.ints, 0 ≤ x) ∧ (∀ x ∈ c'.ints, 0 ≤ x) ∧
      pi_colChk c' = false := by
  have := h.2
  rw [if_pos hi] at this
  exact this

theorem pi_argsRel_colsOK {n : Nat} {σ : List Nat} {isId : String → Bool} {ds : List String}
    {as as' : List Col} (h : Dag.ArgsRel (pi_Inv n σ isId) ds as as') : ColsOK n as := by
  induction h with
  | nil => intro c hc; cases hc
  | cons h _ ih =>
    intro c hc
    rcases List.mem_cons.1 hc with rfl | hc
    · exact h.1
    · exact ih c hc

theorem pi_argsRel_unmarked {n : Nat} {σ : List Nat} {isId : String → Bool} {ds : List String}
    {as as' : List Col} (h : Dag.ArgsRel (pi_Inv n σ isId) ds as as')
    (hu : ∀ d ∈ ds, isId d = false) : as' = as.map (Col.permute σ) := by
  induction h with
  | nil => rfl
  | cons h _ ih =>
    rw [List.map_cons, h.unmarked (hu _ List.mem_cons_self),
      ih fun d hd => hu d (List.mem_cons_of_mem _ hd)]

/-- row permutation and renumbering of the group ids together -/
theorem pi_groupAggOp_two_perm_part {n : Nat} {σ : List Nat} (hσ : σ.Perm (List.range n)) (a : Aggr)
    {col gid gid' out : Col} (hcols : ColsOK n [col, gid])
    (h : Col.SamePart (gid.permute σ) gid') (hn : ∀ g ∈ gid.ints, 0 ≤ g)
    (hn' : ∀ g ∈ gid'.ints, 0 ≤ g) (ho : groupAggOp a [col, gid] = .ok out) :
    groupAggOp a [col.permute σ, gid'] = .ok (out.permute σ) ∧ ColOK n out := by
  rw [← pi_groupAggOp_two_congr a _ h (pi_nonneg_permute hσ (hcols gid (by simp)) hn) hn']
  exact groupAggOp_two_perm hσ a hcols ho

theorem pi_groupAggOp_one_perm_part {n : Nat} {σ : List Nat} (hσ : σ.Perm (List.range n)) (a : Aggr)
    {gid gid' out : Col} (hcols : ColsOK n [gid])
    (h : Col.SamePart (gid.permute σ) gid') (hn : ∀ g ∈ gid.ints, 0 ≤ g)
    (hn' : ∀ g ∈ gid'.ints, 0 ≤ g) (ho : groupAggOp a [gid] = .ok out) :
    groupAggOp a [gid'] = .ok (out.permute σ) ∧ ColOK n out := by
  rw [← pi_groupAggOp_one_congr a h (pi_nonneg_permute hσ (hcols gid (by simp)) hn) hn']
  exact groupAggOp_one_perm hσ a hcols ho

theorem pi_Valid_nonscalar {g : Grouping} {cols : List Col} (hv : pi_Valid g cols) :
    ∀ c ∈ cols, c.scalar = false := by
  cases g
  · match cols, hv with
    | [_, _, _], ⟨h0, h1, h2⟩ => intro c hc; simp at hc; rcases hc with rfl | rfl | rfl <;> assumption
  · match cols, hv with
    | [_, _, _, _, _, _], ⟨h0, h1, h2, h3, h4, h5, _⟩ =>
      intro c hc; simp at hc; rcases hc with rfl | rfl | rfl | rfl | rfl | rfl <;> assumption
  · match cols, hv with
    | [_, _, _], ⟨h0, h1, h2, _⟩ => intro c hc; simp at hc; rcases hc with rfl | rfl | rfl <;> assumption
  · match cols, hv with
    | [_, _], ⟨h0, h1, _⟩ => intro c hc; simp at hc; rcases hc with rfl | rfl <;> assumption
  · match cols, hv with
    | [_, _], ⟨h0, h1, _⟩ => intro c hc; simp at hc; rcases hc with rfl | rfl <;> assumption
  · match cols, hv with
    | [_, _, _], ⟨h0, h1, h2, _⟩ => intro c hc; simp at hc; rcases hc with rfl | rfl | rfl <;> assumption

theorem pi_groupingOp_out' {g : Grouping} {cols : List Col} {out : Col}
    (hs : ∀ c ∈ cols, c.scalar = false) (h : groupingOp g cols = .ok out) :
    pi_colChk out = false := by
  cases cols with
  | nil => simp [groupingOp] at h
  | cons c0 rest =>
    obtain ⟨vs, dt, rfl⟩ := pi_groupingOp_out (hs c0 List.mem_cons_self)
      (by simp only [List.any_eq_false]; intro c hc; simp [hs c (List.mem_cons_of_mem _ hc)]) h
    exact pi_ints_colChk vs dt


/-- what the lift needs to know about a function `f` of the system `S` evaluated on the data `D`:
* an id constructor other than `wthh_id` is marked (`wthh_id` is not: it is permuted exactly); the
  only marked argument an id constructor may consume is the first argument of `bg_id`; on the
  evaluated arguments the validity hypothesis of the constructor holds (for `bg_id` moreover the fg
  ids are non-negative);
* a grouped aggregation is not marked and consumes a marked node at most as LAST argument;
* every other function is of an admissible kind (`Kind.permOK`), is not marked and consumes no marked
  node (for `sum_by_p_id`: the third argument never evaluates to a column with duplicates). -/
def pi_GoodFn (params : List (String × Val)) (isId : String → Bool) (S : Dag.Sys Col)
    (D : Dag.Data Col) (f : Fn) : Prop :=
  match f.kind with
  | .grouping g =>
    isId f.name = (g != .wthh) ∧
    (∀ i d, (freeArgs params f)[i]? = some d → isId d = true → g = .bg ∧ i = 0) ∧
    (∀ k args, Dag.evalAll (Dag.eval S D k) (freeArgs params f) = .ok args →
      pi_Valid g args ∧ (g = .bg → ∀ c, args[0]? = some c → ∀ x ∈ c.ints, 0 ≤ x))
  | .groupAgg _ _ _ =>
    isId f.name = false ∧
    ∀ i d, (freeArgs params f)[i]? = some d → isId d = true → i + 1 = (freeArgs params f).length
  | _ =>
    f.kind.permOK = true ∧ isId f.name = false ∧ (∀ d ∈ freeArgs params f, isId d = false) ∧
    (f.kind.isPidSum = true → ∀ d, (freeArgs params f)[2]? = some d →
      ∀ k v, Dag.eval S D k d = .ok v → v.ints.Nodup)

/-- the step of the lift for an admissible kind all of whose arguments are unmarked -/
theorem pi_step_plain {n : Nat} {σ : List Nat} (hσ : σ.Perm (List.range n))
    (params : List (String × Val)) (specs : List (String × RSpec)) (isId : String → Bool)
    (S : Dag.Sys Col) (D : Dag.Data Col) (f : Fn) (hk : f.kind.permOK = true)
    (hid : isId f.name = false) (hu : ∀ d ∈ freeArgs params f, isId d = false)
    (hpid : f.kind.isPidSum = true → ∀ d, (freeArgs params f)[2]? = some d →
      ∀ k v, Dag.eval S D k d = .ok v → v.ints.Nodup)
    {k : Nat} {args args' : List Col} {v : Col}
    (hF : List.Forall₂ (fun d a => Dag.eval S D k d = .ok a) (freeArgs params f) args)
    (hrel : Dag.ArgsRel (pi_Inv n σ isId) (freeArgs params f) args args')
    (h : (nodeOf params specs f).op args = .ok v) :
    ∃ v', (nodeOf params specs f).op args' = .ok v' ∧ pi_Inv n σ isId f.name v v' := by
  rw [pi_argsRel_unmarked hrel hu]
  have hok := pi_argsRel_colsOK hrel
  obtain ⟨h1, h2⟩ := nodeOf_perm hσ params specs f hk hok (fun hp pid hpid2 => by
    obtain ⟨d, hd, hda⟩ := forall₂_getElem?_right hF hpid2
    exact hpid hp d hd k pid hda) h
  refine ⟨_, h1, h2, ?_⟩
  rw [if_neg (by simp [hid])]

/-- the step of the lift for a grouped aggregation -/
theorem pi_step_groupAgg {n : Nat} {σ : List Nat} (hσ : σ.Perm (List.range n))
    (isId : String → Bool) (name : String) (a : Aggr) (ds : List String)
    (hid : isId name = false)
    (hm : ∀ i d, ds[i]? = some d → isId d = true → i + 1 = ds.length)
    {args args' : List Col} {v : Col}
    (hrel : Dag.ArgsRel (pi_Inv n σ isId) ds args args')
    (h : groupAggOp a args = .ok v) :
    ∃ v', groupAggOp a args' = .ok v' ∧ pi_Inv n σ isId name v v' := by
  have hok := pi_argsRel_colsOK hrel
  have fin : ∀ {v'}, v' = v.permute σ ∧ ColOK n v → pi_Inv n σ isId name v v' := by
    intro v' hv
    refine ⟨hv.2, ?_⟩
    rw [if_neg (by simp [hid])]
    exact hv.1
  match ds, args, args', hrel with
  | [], _, _, .nil => simp [groupAggOp] at h
  | [d0], _, _, .cons (a := g) (a' := g') r0 .nil =>
    cases hi : isId d0 with
    | true =>
      obtain ⟨hsp, hn, hn', _⟩ := r0.marked hi
      obtain ⟨h1, h2⟩ := pi_groupAggOp_one_perm_part hσ a hok hsp hn hn' h
      exact ⟨_, h1, fin ⟨rfl, h2⟩⟩
    | false =>
      rw [r0.unmarked hi]
      obtain ⟨h1, h2⟩ := groupAggOp_one_perm hσ a hok h
      exact ⟨_, h1, fin ⟨rfl, h2⟩⟩
  | [d0, d1], _, _, .cons (a := c) (a' := c') r0 (.cons (a := g) (a' := g') r1 .nil) =>
    have hi0 : isId d0 = false := by
      cases hi : isId d0 with
      | false => rfl
      | true => have := hm 0 d0 rfl hi; simp at this
    rw [r0.unmarked hi0]
    cases hi : isId d1 with
    | true =>
      obtain ⟨hsp, hn, hn', _⟩ := r1.marked hi
      obtain ⟨h1, h2⟩ := pi_groupAggOp_two_perm_part hσ a hok hsp hn hn' h
      exact ⟨_, h1, fin ⟨rfl, h2⟩⟩
    | false =>
      rw [r1.unmarked hi]
      obtain ⟨h1, h2⟩ := groupAggOp_two_perm hσ a hok h
      exact ⟨_, h1, fin ⟨rfl, h2⟩⟩
  | _ :: _ :: _ :: _, _, _, .cons _ (.cons _ (.cons _ _)) => simp [groupAggOp] at h


theorem pi_map_permute_nonscalar {σ : List Nat} {cols : List Col}
    (h : ∀ c ∈ cols, c.scalar = false) : ∀ c ∈ cols.map (Col.permute σ), c.scalar = false := by
  intro c hc
  obtain ⟨c0, hc0, rfl⟩ := List.mem_map.1 hc
  rw [Col.scalar_permute]; exact h c0 hc0

/-- the step of the lift for an id constructor -/
theorem pi_step_grouping {n : Nat} {σ : List Nat} (hσ : σ.Perm (List.range n))
    (isId : String → Bool) (name : String) (g : Grouping) (ds : List String)
    (hid : isId name = (g != .wthh))
    (hm : ∀ i d, ds[i]? = some d → isId d = true → g = .bg ∧ i = 0)
    {args args' : List Col} {v : Col}
    (hrel : Dag.ArgsRel (pi_Inv n σ isId) ds args args') (hv : pi_Valid g args)
    (hbg : g = .bg → ∀ c, args[0]? = some c → ∀ x ∈ c.ints, 0 ≤ x)
    (h : groupingOp g args = .ok v) :
    ∃ v', groupingOp g args' = .ok v' ∧ pi_Inv n σ isId name v v' := by
  have hok := pi_argsRel_colsOK hrel
  have hns := pi_Valid_nonscalar hv
  by_cases hgb : g = .bg
  · subst hgb
    have hid' : isId name = true := by rw [hid]; rfl
    match args, hv, ds, args', hrel with
    | [fg, alter, eigen], ⟨h0, h1, h2, hs⟩, [d0, d1, d2], _,
        .cons (a' := fg') r0 (.cons (a' := alter') r1 (.cons (a' := eigen') r2 .nil)) =>
      have hi1 : isId d1 = false := by
        cases hi : isId d1 with
        | false => rfl
        | true => have := (hm 1 d1 rfl hi).2; simp at this
      have hi2 : isId d2 = false := by
        cases hi : isId d2 with
        | false => rfl
        | true => have := (hm 2 d2 rfl hi).2; simp at this
      rw [r1.unmarked hi1, r2.unmarked hi2]
      have hn : ∀ x ∈ fg.ints, 0 ≤ x := hbg rfl fg rfl
      have hchk := pi_groupingOp_colChk h0 (by simp [h1, h2]) h
      have hc0 : pi_colChk fg = false := by
        simp only [pi_intChk, List.any_cons, Bool.or_eq_false_iff] at hchk
        exact hchk.1
      have hfacts : Col.SamePart (fg.permute σ) fg' ∧ (∀ x ∈ fg'.ints, 0 ≤ x) ∧
          pi_colChk fg' = false := by
        cases hi : isId d0 with
        | true =>
          obtain ⟨hsp, _, hn', hc⟩ := r0.marked hi
          exact ⟨hsp, hn', hc⟩
        | false =>
          rw [r0.unmarked hi]
          exact ⟨Col.SamePart.refl _, pi_nonneg_permute hσ (hok fg (by simp)) hn,
            pi_colChk_permute (perm_valid hσ) (hok fg (by simp)) hc0⟩
      obtain ⟨hsp, hn', hc'⟩ := hfacts
      obtain ⟨out', ho', hspo, hoko⟩ := pi_bg_perm_congr hσ hok h0 h1 h2 hsp hc' hs
        (pi_bgSmall_cols hσ hok h0 h1 h2 hsp hs) h
      have h0' : fg'.scalar = false := by rw [← hsp.scalar_eq, Col.scalar_permute, h0]
      have h1' : (alter.permute σ).scalar = false := by rw [Col.scalar_permute, h1]
      have h2' : (eigen.permute σ).scalar = false := by rw [Col.scalar_permute, h2]
      refine ⟨out', ho', hoko, ?_⟩
      rw [if_pos hid']
      refine ⟨hspo, pi_bg_out_nonneg h0 h1 h2 hn h, pi_bg_out_nonneg h0' h1' h2' hn' ho', ?_⟩
      exact pi_groupingOp_out' (by
        intro c hc; simp at hc; rcases hc with rfl | rfl | rfl <;> assumption) ho'
  · have hu : ∀ d ∈ ds, isId d = false := by
      intro d hd
      obtain ⟨i, hi⟩ := List.getElem?_of_mem hd
      cases hd' : isId d with
      | false => rfl
      | true => exact absurd (hm i d hi hd').1 hgb
    rw [pi_argsRel_unmarked hrel hu]
    have hns' := pi_map_permute_nonscalar (σ := σ) hns
    have fin : ∀ {out'}, isId name = true → groupingOp g (args.map (Col.permute σ)) = .ok out' →
        Col.SamePart (v.permute σ) out' ∧ ColOK n v ∧ (∀ x ∈ v.ints, 0 ≤ x) ∧
          (∀ x ∈ out'.ints, 0 ≤ x) → pi_Inv n σ isId name v out' := by
      intro out' hi ho' hh
      refine ⟨hh.2.1, ?_⟩
      rw [if_pos hi]
      exact ⟨hh.1, hh.2.2.1, hh.2.2.2, pi_groupingOp_out' hns' ho'⟩
    cases g with
    | bg => exact absurd rfl hgb
    | wthh =>
      obtain ⟨h1, h2⟩ := pi_wthh_perm hσ hok hv h
      refine ⟨_, h1, h2, ?_⟩
      rw [if_neg (by rw [hid]; decide)]
    | eg =>
      obtain ⟨o, h1, hh⟩ := pi_pair_perm hσ .eg (Or.inl rfl) hok hv h
      exact ⟨o, h1, fin (by rw [hid]; rfl) h1 hh⟩
    | ehe =>
      obtain ⟨o, h1, hh⟩ := pi_pair_perm hσ .ehe (Or.inr rfl) hok hv h
      exact ⟨o, h1, fin (by rw [hid]; rfl) h1 hh⟩
    | sn =>
      obtain ⟨o, h1, hh⟩ := pi_sn_perm hσ hok hv h
      exact ⟨o, h1, fin (by rw [hid]; rfl) h1 hh⟩
    | fg =>
      obtain ⟨o, h1, hh⟩ := pi_fg_perm hσ hok hv h
      exact ⟨o, h1, fin (by rw [hid]; rfl) h1 hh⟩


theorem pi_sysOf_find? (params : List (String × Val)) (specs : List (String × RSpec)) (fns : List Fn)
    (x : String) (node : Dag.Node Col) (h : Dag.find? (sysOf params specs fns) x = some node) :
    ∃ f ∈ fns, f.name = x ∧ node = nodeOf params specs f := by
  have := Dag.find?_mem _ _ _ h
  simp only [sysOf, List.mem_map, Prod.mk.injEq] at this
  obtain ⟨f, hf, hn, rfl⟩ := this
  exact ⟨f, hf, hn, rfl⟩

/-- one node of the system: related arguments give related results -/
theorem pi_step {n : Nat} {σ : List Nat} (hσ : σ.Perm (List.range n))
    (params : List (String × Val)) (specs : List (String × RSpec)) (isId : String → Bool)
    (S : Dag.Sys Col) (D : Dag.Data Col) (f : Fn) (hf : pi_GoodFn params isId S D f)
    {k : Nat} {args args' : List Col} {v : Col}
    (hargs : Dag.evalAll (Dag.eval S D k) (freeArgs params f) = .ok args)
    (hrel : Dag.ArgsRel (pi_Inv n σ isId) (freeArgs params f) args args')
    (h : (nodeOf params specs f).op args = .ok v) :
    ∃ v', (nodeOf params specs f).op args' = .ok v' ∧ pi_Inv n σ isId f.name v v' := by
  have hF := (Dag.evalAll_ok_iff _ _ _).1 hargs
  obtain ⟨name, fargs, ann, kind⟩ := f
  cases kind with
  | rule fn ret key =>
    obtain ⟨hk, hid, hu, hpid⟩ := hf
    exact pi_step_plain hσ params specs isId S D _ hk hid hu hpid hF hrel h
  | pidSum src ptr =>
    obtain ⟨hk, hid, hu, hpid⟩ := hf
    exact pi_step_plain hσ params specs isId S D _ hk hid hu hpid hF hrel h
  | timeConv src u u2 =>
    obtain ⟨hk, hid, hu, hpid⟩ := hf
    exact pi_step_plain hσ params specs isId S D _ hk hid hu hpid hF hrel h
  | groupAgg a src gid =>
    obtain ⟨hid, hm⟩ := hf
    exact pi_step_groupAgg hσ isId name a _ hid hm hrel h
  | grouping g =>
    obtain ⟨hid, hm, hval⟩ := hf
    obtain ⟨hv, hbg⟩ := hval k args hargs
    exact pi_step_grouping hσ isId name g _ hid hm hrel hv hbg h

/-- the lift: every successfully evaluated node of a system of admissible functions is evaluated
on the permuted data, and the two values are related by the invariant -/
theorem pi_sys_eval_perm_ids {n : Nat} {σ : List Nat} (hσ : σ.Perm (List.range n))
    (params : List (String × Val)) (specs : List (String × RSpec)) (fns : List Fn)
    (isId : String → Bool) (D : Dag.Data Col)
    (hfns : ∀ f ∈ fns, pi_GoodFn params isId (sysOf params specs fns) D f)
    (hD : ColsOK n (D.map (·.2))) (hDid : ∀ p ∈ D, isId p.1 = false) :
    ∀ (k : Nat) (t : String) (v : Col), Dag.eval (sysOf params specs fns) D k t = .ok v →
      ∃ v', Dag.eval (sysOf params specs fns) (permData σ D) k t = .ok v' ∧
        pi_Inv n σ isId t v v' := by
  intro k
  induction k with
  | zero => intro t v h; simp [Dag.eval] at h
  | succ k ih =>
    intro t v h
    cases hDt : Dag.find? D t with
    | some c =>
      rw [Dag.eval_succ_of_data hDt] at h
      cases h
      have hD' : Dag.find? (permData σ D) t = some (v.permute σ) := by
        rw [find?_permData, hDt]; rfl
      have hmem := Dag.find?_mem D t v hDt
      refine ⟨_, Dag.eval_succ_of_data hD', hD v (List.mem_map.2 ⟨(t, v), hmem, rfl⟩), ?_⟩
      rw [if_neg (by simp [hDid (t, v) hmem])]
    | none =>
      have hD' : Dag.find? (permData σ D) t = none := by
        rw [find?_permData, hDt]; rfl
      cases hSt : Dag.find? (sysOf params specs fns) t with
      | none => rw [Dag.eval_succ_of_missing hDt hSt] at h; cases h
      | some node =>
        obtain ⟨f, hf, rfl, rfl⟩ := pi_sysOf_find? params specs fns t node hSt
        rw [Dag.eval_succ_of_node hDt hSt] at h
        rw [Dag.eval_succ_of_node hD' hSt]
        obtain ⟨args, hargs, h⟩ := bind_ok h
        obtain ⟨args', hargs', hrel⟩ := Dag.evalAll_rel_ok
          (R := pi_Inv n σ isId) (fun d _ a ha => ih d a ha) hargs
        rw [hargs', ok_bind]
        exact pi_step hσ params specs isId _ D f (hfns f hf) hargs hrel h


/-- the arguments of a node do not depend on the fuel (helper to discharge the validity
hypotheses of `pi_GoodFn` from one concrete evaluation) -/
theorem pi_evalAll_det (S : Dag.Sys Col) (D : Dag.Data Col) {k k' : Nat} {ds : List String}
    {args args' : List Col} (h : Dag.evalAll (Dag.eval S D k) ds = .ok args)
    (h' : Dag.evalAll (Dag.eval S D k') ds = .ok args') : args' = args := by
  rw [Dag.evalAll_ok_iff] at h h'
  induction h generalizing args' with
  | nil => cases h'; rfl
  | cons hd _ ih =>
    cases h' with
    | cons hd' htl' => rw [Dag.eval_fuel_det S D hd' hd, ih htl']

/-- index form of a decidable condition on the positions of a list -/
theorem pi_idx_of_zipIdx {l : List String} {P : String → Nat → Prop}
    (h : ∀ p ∈ l.zipIdx, P p.1 p.2) : ∀ i d, l[i]? = some d → P d i := by
  intro i d hi
  exact h (d, i) (List.mk_mem_zipIdx_iff_getElem?.2 hi)


end GV.Simulate
