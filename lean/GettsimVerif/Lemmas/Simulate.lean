import GettsimVerif.Core.Simulate
/-
Helper lemmas about the end-to-end model `GV.Simulate` (used by `Props/T3.lean`).
-/
namespace GV.Simulate

/-! ### helpers -/

theorem bind_ok {α β : Type} {x : Except Err α} {f : α → Except Err β} {b : β}
    (h : (x >>= f) = .ok b) : ∃ a, x = .ok a ∧ f a = .ok b := by
  cases x with
  | error e => simp [bind, Except.bind] at h
  | ok a => exact ⟨a, rfl, h⟩

/-- a `mapM` that pairs every element with a computed value keeps the elements -/
theorem mapM_pair_fst {α β : Type} (g : α → Except Err β) :
    ∀ (l : List α) (out : List (α × β)),
      l.mapM (fun t => do pure (t, ← g t)) = .ok out → out.map (·.1) = l := by
  intro l
  induction l with
  | nil => intro out h; simp [List.mapM_nil, pure, Except.pure] at h; subst h; rfl
  | cons a l ih =>
    intro out h
    rw [List.mapM_cons] at h
    obtain ⟨p, hp, h⟩ := bind_ok h
    obtain ⟨rest, hrest, h⟩ := bind_ok h
    obtain ⟨v, _, hp⟩ := bind_ok hp
    simp only [pure, Except.pure, Except.ok.injEq] at h hp
    subst h; subst hp
    simp [ih rest hrest]

theorem mem_insertSorted (a s : String) (l : List String) :
    a ∈ insertSorted s l ↔ a = s ∨ a ∈ l := by
  induction l with
  | nil => simp [insertSorted]
  | cons x xs ih =>
    unfold insertSorted
    split
    · simp
    · split
      · rename_i _ h; subst h; simp
      · simp [ih]; constructor <;> rintro (h | h | h) <;> simp [h]

/-- `sorted(set(l))` has exactly the elements of `l` -/
theorem mem_sortDedup (a : String) (l : List String) : a ∈ sortDedup l ↔ a ∈ l := by
  induction l with
  | nil => simp [sortDedup]
  | cons x xs ih =>
    have : sortDedup (x :: xs) = insertSorted x (sortDedup xs) := rfl
    rw [this, mem_insertSorted, ih]; simp

theorem insertSorted_pairwise (s : String) (l : List String) (h : l.Pairwise (· < ·)) :
    (insertSorted s l).Pairwise (· < ·) := by
  induction l with
  | nil => simp [insertSorted]
  | cons x xs ih =>
    rw [List.pairwise_cons] at h
    unfold insertSorted
    split
    · rename_i hsx
      rw [List.pairwise_cons]
      refine ⟨?_, List.pairwise_cons.mpr h⟩
      intro a ha
      rcases List.mem_cons.mp ha with rfl | ha
      · exact hsx
      · exact String.lt_trans hsx (h.1 a ha)
    · split
      · exact List.pairwise_cons.mpr h
      · rename_i hsx hne
        rw [List.pairwise_cons]
        refine ⟨?_, ih h.2⟩
        intro a ha
        rcases (mem_insertSorted a s xs).mp ha with rfl | ha
        · -- `x < a` from `¬ a < x` and `a ≠ x`
          apply Classical.byContradiction
          intro hxa
          exact hne (String.le_antisymm (String.not_lt.mp hxa) (String.not_lt.mp hsx))
        · exact h.1 a ha

/-- `sorted(set(l))` is strictly increasing (hence duplicate-free) -/
theorem sortDedup_pairwise (l : List String) : (sortDedup l).Pairwise (· < ·) := by
  induction l with
  | nil => simp [sortDedup]
  | cons x xs ih => exact insertSorted_pairwise x _ ih

/-! ### result columns -/

theorem exec_names {p : Plan} {targets : List String} {tbl : Table}
    (h : exec p targets = .ok tbl) : tbl.map (·.1) = targets := by
  unfold exec at h
  simp only at h
  split at h
  · cases h
  · exact mapM_pair_fst
      (fun t => do pure (render p.nRows (← Dag.eval (Dag.prune p.sys p.data (p.sys.length + 1) targets)
        p.data (p.sys.length + 1) t))) targets tbl (by simpa [bind_assoc] using h)

/-- `run` (hence `simulate`) returns, when it succeeds, exactly one column per requested target,
in the order of `sorted(set(targets))`. -/
theorem run_names {ruleFns : List Fn} {params : List (String × Lang.Val)}
    {gs : List (String × GroupSpec)} {ps : List (String × PidSpec)} {data : List (String × Column)}
    {targets : List String} {tbl : Table}
    (h : run ruleFns params gs ps data targets = .ok tbl) : tbl.map (·.1) = sortDedup targets := by
  unfold run at h
  obtain ⟨pr, _, h⟩ := bind_ok h
  obtain ⟨p, _, h⟩ := bind_ok h
  exact exec_names h

/-! ### a target that is a data column -/

theorem typedData_names {data : List (String × Column)} {typed : List (String × Col)}
    (h : typedData data = .ok typed) : typed.map (·.1) = data.map (·.1) := by
  unfold typedData at h
  induction data generalizing typed with
  | nil => simp [List.mapM_nil, pure, Except.pure] at h; subst h; rfl
  | cons a l ih =>
    rw [List.mapM_cons] at h
    obtain ⟨p, hp, h⟩ := bind_ok h
    obtain ⟨rest, hrest, h⟩ := bind_ok h
    obtain ⟨v, _, hp⟩ := bind_ok hp
    simp only [pure, Except.pure, Except.ok.injEq] at h hp
    subst h; subst hp
    simp [ih hrest]

theorem hasFn_filter_false (all : List Fn) (dataCols : List String) (t : String)
    (ht : t ∈ dataCols) : hasFn (all.filter fun f => !dataCols.contains f.name) t = false := by
  unfold hasFn findFn?
  cases hfind : List.find? (fun x => decide (x.name = t)) (all.filter fun f => !dataCols.contains f.name) with
  | none => rfl
  | some f =>
    have hp := List.find?_some hfind
    have hm := List.mem_of_find?_eq_some hfind
    simp only [decide_eq_true_eq] at hp
    have := (List.mem_filter.mp hm).2
    simp [hp, ht] at this

theorem prepare_targets_not_data {ruleFns : List Fn} {gs : List (String × GroupSpec)}
    {ps : List (String × PidSpec)} {data : List (String × Column)} {targets : List String} {pr : Prep}
    (h : prepare ruleFns gs ps data targets = .ok pr) :
    ∀ t ∈ targets, t ∉ data.map (·.1) := by
  unfold prepare at h
  obtain ⟨typed, htyped, h⟩ := bind_ok h
  obtain ⟨_, _, h⟩ := bind_ok h
  obtain ⟨all, _, h⟩ := bind_ok h
  intro t ht hdata
  rw [← typedData_names htyped] at hdata
  have hf := hasFn_filter_false all (typed.map (·.1)) t hdata
  split at h
  · obtain ⟨_, h', _⟩ := bind_ok h
    cases h'
  · obtain ⟨conv, _, h⟩ := bind_ok h
    split at h
    · obtain ⟨_, h', _⟩ := bind_ok h
      cases h'
    · rename_i hall
      generalize List.filter (fun f => !(List.map (fun x => x.fst) typed).contains f.name) all = fns
        at hall hf
      have hall' : targets.all (hasFn fns) = true := by
        cases hb : targets.all (hasFn fns)
        · rw [hb] at hall; exact absurd rfl hall
        · rfl
      have := List.all_eq_true.mp hall' t ht
      rw [hf] at this
      cases this

/-- the functions that take part in the evaluation are never named like a data column (the data
column is used instead: `functions_overridden`) -/
theorem prepare_fns_not_data {ruleFns : List Fn} {gs : List (String × GroupSpec)}
    {ps : List (String × PidSpec)} {data : List (String × Column)} {targets : List String} {pr : Prep}
    (h : prepare ruleFns gs ps data targets = .ok pr) :
    ∀ f ∈ pr.fns, f.name ∉ data.map (·.1) := by
  unfold prepare at h
  obtain ⟨typed, htyped, h⟩ := bind_ok h
  obtain ⟨_, _, h⟩ := bind_ok h
  obtain ⟨all, _, h⟩ := bind_ok h
  intro f hf hdata
  rw [← typedData_names htyped] at hdata
  split at h
  · obtain ⟨_, h', _⟩ := bind_ok h
    cases h'
  · obtain ⟨conv, _, h⟩ := bind_ok h
    split at h
    · obtain ⟨_, h', _⟩ := bind_ok h
      cases h'
    · simp only [pure, Except.pure, Except.ok.injEq] at h
      subst h
      have := (List.mem_filter.mp hf).2
      simp [hdata] at this

end GV.Simulate
