import GettsimVerif.Lemmas.Dag
/-
More lemmas about the abstract DAG model `GV.Dag`: monotonicity and saturation of the fuel,
sub-systems that are closed under dependencies, evaluation of reachable nodes.
-/
namespace GV.Dag

variable {α β : Type}

theorem reach_leaf {S : Sys α} {D : Data α} {n : Name}
    (h : (find? D n).isSome = true ∨ find? S n = none) (k : Nat) : reach S D k n = [n] := by
  cases k with
  | zero => rfl
  | succ k =>
    rw [reach]
    cases hD : find? D n with
    | some c => rfl
    | none =>
      rcases h with h | h
      · rw [hD] at h; cases h
      · simp only; rw [h]

/-- D1 more fuel reaches more -/
theorem reach_mono (S : Sys α) (D : Data α) : ∀ (k : Nat) (n x : Name),
    x ∈ reach S D k n → x ∈ reach S D (k + 1) n := by
  intro k
  induction k with
  | zero =>
    intro n x hx
    simp only [reach, List.mem_singleton] at hx
    subst hx
    exact self_mem_reach S D 1 x
  | succ k ih =>
    intro n x hx
    cases hD : find? D n with
    | some c =>
      rw [reach_leaf (Or.inl (by rw [hD]; rfl))] at hx ⊢
      exact hx
    | none =>
      cases hS : find? S n with
      | none => rw [reach_leaf (Or.inr hS)] at hx ⊢; exact hx
      | some nd =>
        rw [reach_succ_of_node hD hS] at hx ⊢
        rcases List.mem_cons.1 hx with rfl | hx
        · exact List.mem_cons_self
        · obtain ⟨d, hd, hxd⟩ := List.mem_flatMap.1 hx
          exact List.mem_cons_of_mem _ (List.mem_flatMap.2 ⟨d, hd, ih d x hxd⟩)

theorem reach_mono_le (S : Sys α) (D : Data α) {k k' : Nat} (h : k ≤ k') (n x : Name)
    (hx : x ∈ reach S D k n) : x ∈ reach S D k' n := by
  induction h with
  | refl => exact hx
  | step _ ih => exact reach_mono S D _ n x ih

/-- D2 a sub-system (possibly over another type of values) that is closed under dependencies
reaches the same names -/
theorem reach_sub (S : Sys α) (S' : Sys β) (D : Data α) (D' : Data β)
    (hD : ∀ x, (find? D' x).isSome = (find? D x).isSome)
    (hsub : ∀ x nd', find? S' x = some nd' → ∃ nd, find? S x = some nd ∧ nd.deps = nd'.deps)
    (hclo : ∀ x nd', find? S' x = some nd' → ∀ d ∈ nd'.deps, find? D d = none → find? S d ≠ none →
      find? S' d ≠ none) :
    ∀ (k : Nat) (n : Name), (find? D n = none → find? S n ≠ none → find? S' n ≠ none) →
      reach S' D' k n = reach S D k n := by
  intro k
  induction k with
  | zero => intro n _; rfl
  | succ k ih =>
    intro n hn
    cases hDn : find? D n with
    | some c =>
      rw [reach_leaf (S := S) (Or.inl (by rw [hDn]; rfl)),
        reach_leaf (S := S') (Or.inl (by rw [hD, hDn]; rfl))]
    | none =>
      have hDn' : find? D' n = none := by
        have := hD n; rw [hDn] at this
        cases h : find? D' n with
        | none => rfl
        | some c => rw [h] at this; cases this
      cases hS' : find? S' n with
      | none =>
        have hS : find? S n = none := by
          cases h : find? S n with
          | none => rfl
          | some nd => exact absurd hS' (hn hDn (by rw [h]; exact fun e => by cases e))
        rw [reach_leaf (Or.inr hS), reach_leaf (Or.inr hS')]
      | some nd' =>
        obtain ⟨nd, hS, hdeps⟩ := hsub n nd' hS'
        rw [reach_succ_of_node hDn' hS', reach_succ_of_node hDn hS, hdeps]
        congr 1
        apply List.flatMap_congr
        intro d hd
        exact ih d (hclo n nd' hS' d hd)

/-- D3 one more unit of fuel reaches the dependencies of every reached node -/
theorem reach_step (S : Sys α) (D : Data α) : ∀ (k : Nat) (t x d : Name) (nd : Node α),
    x ∈ reach S D k t → find? D x = none → find? S x = some nd → d ∈ nd.deps →
    d ∈ reach S D (k + 1) t := by
  intro k
  induction k with
  | zero =>
    intro t x d nd hx hDx hSx hd
    simp only [reach, List.mem_singleton] at hx
    subst hx
    rw [reach_succ_of_node hDx hSx]
    exact List.mem_cons_of_mem _ (List.mem_flatMap.2 ⟨d, hd, self_mem_reach S D 0 d⟩)
  | succ k ih =>
    intro t x d nd hx hDx hSx hd
    have hself : d ∈ reach S D (k + 1 + 1) x := by
      rw [reach_succ_of_node hDx hSx]
      exact List.mem_cons_of_mem _ (List.mem_flatMap.2 ⟨d, hd, self_mem_reach S D _ d⟩)
    cases hDt : find? D t with
    | some c =>
      rw [reach_leaf (Or.inl (by rw [hDt]; rfl))] at hx
      simp only [List.mem_singleton] at hx
      subst hx; exact hself
    | none =>
      cases hSt : find? S t with
      | none =>
        rw [reach_leaf (Or.inr hSt)] at hx
        simp only [List.mem_singleton] at hx
        subst hx; exact hself
      | some ndt =>
        rw [reach_succ_of_node hDt hSt] at hx
        rcases List.mem_cons.1 hx with rfl | hx
        · exact hself
        · obtain ⟨d', hd', hxd'⟩ := List.mem_flatMap.1 hx
          rw [reach_succ_of_node hDt hSt]
          exact List.mem_cons_of_mem _ (List.mem_flatMap.2 ⟨d', hd', ih d' x d nd hxd' hDx hSx hd⟩)

/-- the rank decreases along every edge -/
def RankDecr (S : Sys α) (D : Data α) (r : Name → Nat) : Prop :=
  ∀ x nd, find? D x = none → find? S x = some nd → ∀ d ∈ nd.deps, r d < r x

/-- D4 fuel above the rank is saturated -/
theorem reach_sat (S : Sys α) (D : Data α) (r : Name → Nat) (hr : RankDecr S D r) :
    ∀ (k : Nat) (n : Name), r n < k → reach S D k n = reach S D (k + 1) n := by
  intro k
  induction k with
  | zero => intro n h; omega
  | succ k ih =>
    intro n hn
    cases hD : find? D n with
    | some c => rw [reach_leaf (Or.inl (by rw [hD]; rfl)), reach_leaf (Or.inl (by rw [hD]; rfl))]
    | none =>
      cases hS : find? S n with
      | none => rw [reach_leaf (Or.inr hS), reach_leaf (Or.inr hS)]
      | some nd =>
        rw [reach_succ_of_node hD hS, reach_succ_of_node hD hS]
        congr 1
        apply List.flatMap_congr
        intro d hd
        exact ih d (by have := hr n nd hD hS d hd; omega)

theorem reach_sat_le (S : Sys α) (D : Data α) (r : Name → Nat) (hr : RankDecr S D r)
    {k k' : Nat} (h : k ≤ k') (n : Name) (hn : r n < k) : reach S D k n = reach S D k' n := by
  induction h with
  | refl => rfl
  | @step m hm ih =>
    have hkm : k ≤ m := hm
    rw [ih, reach_sat S D r hr m n (by omega)]

/-- D5 -/
theorem reach_trans (S : Sys α) (D : Data α) (k2 : Nat) (y : Name) : ∀ (k1 : Nat) (t x : Name),
    x ∈ reach S D k1 t → y ∈ reach S D k2 x → y ∈ reach S D (k1 + k2) t := by
  intro k1
  induction k1 with
  | zero =>
    intro t x hx hy
    simp only [reach, List.mem_singleton] at hx
    subst hx
    simpa using hy
  | succ k1 ih =>
    intro t x hx hy
    have hself : y ∈ reach S D k2 t → y ∈ reach S D (k1 + 1 + k2) t :=
      fun h => reach_mono_le S D (by omega) t y h
    cases hDt : find? D t with
    | some c =>
      rw [reach_leaf (Or.inl (by rw [hDt]; rfl))] at hx
      simp only [List.mem_singleton] at hx
      subst hx; exact hself hy
    | none =>
      cases hSt : find? S t with
      | none =>
        rw [reach_leaf (Or.inr hSt)] at hx
        simp only [List.mem_singleton] at hx
        subst hx; exact hself hy
      | some ndt =>
        rw [reach_succ_of_node hDt hSt] at hx
        rcases List.mem_cons.1 hx with rfl | hx
        · exact hself hy
        · obtain ⟨d, hd, hxd⟩ := List.mem_flatMap.1 hx
          have : k1 + 1 + k2 = (k1 + k2) + 1 := by omega
          rw [this, reach_succ_of_node hDt hSt]
          exact List.mem_cons_of_mem _ (List.mem_flatMap.2 ⟨d, hd, ih d x hxd hy⟩)

/-- D6 a successful evaluation needs no more fuel than the rank -/
theorem eval_sat (S : Sys α) (D : Data α) (r : Name → Nat) (hr : RankDecr S D r) :
    ∀ (k : Nat) (n : Name), r n < k → ∀ (K : Nat) (v : α), eval S D K n = .ok v → eval S D k n = .ok v := by
  intro k
  induction k with
  | zero => intro n h; omega
  | succ k ih =>
    intro n hn K v h
    cases K with
    | zero => simp [eval] at h
    | succ K =>
      cases hD : find? D n with
      | some c => rw [eval_succ_of_data hD] at h ⊢; exact h
      | none =>
        cases hS : find? S n with
        | none => rw [eval_succ_of_missing hD hS] at h; cases h
        | some nd =>
          rw [eval_succ_of_node hD hS] at h ⊢
          cases hargs : evalAll (eval S D K) nd.deps with
          | error e => rw [hargs] at h; cases h
          | ok args =>
            rw [hargs] at h
            have : evalAll (eval S D k) nd.deps = .ok args := by
              refine evalAll_ok_mono ?_ hargs
              intro d hd w hw
              exact ih d (by have := hr n nd hD hS d hd; omega) K w hw
            rw [this]; exact h

theorem evalAll_ok_mem {ev : Name → Except Err α} {ds : List Name} {vs : List α}
    (h : evalAll ev ds = .ok vs) : ∀ d ∈ ds, ∃ a, ev d = .ok a := by
  rw [evalAll_ok_iff] at h
  induction h with
  | nil => intro d hd; cases hd
  | cons hab _ ih =>
    intro d hd
    rcases List.mem_cons.1 hd with rfl | hd
    · exact ⟨_, hab⟩
    · exact ih d hd

/-- D7 a successful evaluation evaluates every reachable node successfully -/
theorem eval_sub_ok (S : Sys α) (D : Data α) : ∀ (k : Nat) (t : Name) (v : α),
    eval S D k t = .ok v → ∀ x ∈ reach S D k t, ∃ w, eval S D k x = .ok w := by
  intro k
  induction k with
  | zero => intro t v h; simp [eval] at h
  | succ k ih =>
    intro t v h x hx
    cases hD : find? D t with
    | some c =>
      rw [reach_leaf (Or.inl (by rw [hD]; rfl))] at hx
      simp only [List.mem_singleton] at hx
      subst hx; exact ⟨v, h⟩
    | none =>
      cases hS : find? S t with
      | none => rw [eval_succ_of_missing hD hS] at h; cases h
      | some nd =>
        rw [reach_succ_of_node hD hS] at hx
        rcases List.mem_cons.1 hx with rfl | hx
        · exact ⟨v, h⟩
        · obtain ⟨d, hd, hxd⟩ := List.mem_flatMap.1 hx
          rw [eval_succ_of_node hD hS] at h
          cases hargs : evalAll (eval S D k) nd.deps with
          | error e => rw [hargs] at h; cases h
          | ok args =>
            obtain ⟨a, ha⟩ := evalAll_ok_mem hargs d hd
            obtain ⟨w, hw⟩ := ih d a ha x hxd
            exact ⟨w, eval_fuel_mono S D k x w hw⟩

/-- D8 a successful evaluation stays valid in a sub-system that is closed under dependencies -/
theorem eval_restrict (S S' : Sys α) (D : Data α)
    (hsub : ∀ x nd', find? S' x = some nd' → ∃ nd, find? S x = some nd ∧ nd.deps = nd'.deps ∧
      ∀ args, nd.op args = nd'.op args)
    (hclo : ∀ x nd', find? S' x = some nd' → ∀ d ∈ nd'.deps, find? D d = none → find? S d ≠ none →
      find? S' d ≠ none) :
    ∀ (k : Nat) (t : Name) (v : α), eval S D k t = .ok v →
      (find? D t = none → find? S t ≠ none → find? S' t ≠ none) → eval S' D k t = .ok v := by
  intro k
  induction k with
  | zero => intro t v h; simp [eval] at h
  | succ k ih =>
    intro t v h ht
    cases hD : find? D t with
    | some c => rw [eval_succ_of_data hD] at h ⊢; exact h
    | none =>
      cases hS : find? S t with
      | none => rw [eval_succ_of_missing hD hS] at h; cases h
      | some nd =>
        cases hS' : find? S' t with
        | none => exact absurd hS' (ht hD (by rw [hS]; exact fun e => by cases e))
        | some nd' =>
          obtain ⟨nd0, hS0, hdeps, hop⟩ := hsub t nd' hS'
          rw [hS] at hS0
          cases hS0
          rw [eval_succ_of_node hD hS] at h
          rw [eval_succ_of_node hD hS']
          cases hargs : evalAll (eval S D k) nd.deps with
          | error e => rw [hargs] at h; cases h
          | ok args =>
            rw [hargs] at h
            have : evalAll (eval S' D k) nd'.deps = .ok args := by
              rw [← hdeps]
              refine evalAll_ok_mono ?_ hargs
              intro d hd w hw
              exact ih d w hw (hclo t nd' hS' d (hdeps ▸ hd))
            rw [this]
            have h1 : nd.op args = .ok v := h
            show nd'.op args = .ok v
            rw [← hop args, h1]

end GV.Dag
