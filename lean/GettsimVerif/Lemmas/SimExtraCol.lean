import GettsimVerif.Lemmas.SimOverride
import GettsimVerif.Lemmas.SimMisc
import GettsimVerif.Lemmas.SimPlanSub
/-
Helper lemmas for `Props/C04Extra.lean`: adding an UNUSED column to the data does not change the
result of the CONCRETE end-to-end model `GV.Simulate.simulate`. All names are prefixed `xc_`.

Contents: (a) `Dag.reach` / `Dag.eval` with one more data column; (b) `typedData`, `checkData`,
`convertData` with one more column; (c) `prepare` in stage form; (d) `plan`; (e) `exec`;
(f) the computable side condition `xc_unused` and the main lemma `xc_run`.
-/
namespace GV.Dag
variable {α : Type}

/-- a data column whose name is not a function does not change the reachable sets -/
theorem xc_reach_append (S : Sys α) (D : Data α) (n : Name) (u : α) (hS : find? S n = none) :
    ∀ (k : Nat) (x : Name), reach S (D ++ [(n, u)]) k x = reach S D k x := by
  intro k
  induction k with
  | zero => intro x; rfl
  | succ k ih =>
    intro x
    by_cases hx : n = x
    · subst hx
      rw [reach, reach, hS, find?_append]
      cases find? D n <;> simp [find?_cons]
    · rw [reach, reach, find?_append_ne D u hx]
      cases find? D x with
      | some c => rfl
      | none =>
        simp only
        cases find? S x with
        | none => rfl
        | some node =>
          simp only
          congr 1
          exact List.flatMap_congr fun d _ => ih d

theorem xc_prune_append (S : Sys α) (D : Data α) (n : Name) (u : α) (hS : find? S n = none)
    (k : Nat) (T : List Name) : prune S (D ++ [(n, u)]) k T = prune S D k T := by
  unfold prune
  rw [show reach S (D ++ [(n, u)]) k = reach S D k from funext (xc_reach_append S D n u hS k)]

/-- a data column that no node depends on does not change the value of any other name -/
theorem xc_eval_append (S : Sys α) (D : Data α) (n : Name) (u : α)
    (hdeps : ∀ e ∈ S, n ∉ e.2.deps) :
    ∀ (k : Nat) (x : Name), x ≠ n → eval S (D ++ [(n, u)]) k x = eval S D k x := by
  intro k
  induction k with
  | zero => intro x _; rfl
  | succ k ih =>
    intro x hx
    rw [eval, eval, find?_append_ne D u (fun h => hx h.symm)]
    cases find? D x with
    | some c => rfl
    | none =>
      simp only
      cases hSx : find? S x with
      | none => rfl
      | some node =>
        simp only
        have hd := hdeps (x, node) (find?_mem S x node hSx)
        rw [evalAll_congr (ev' := eval S D k)]
        intro d hdm
        exact ih d (fun h => hd (h ▸ hdm))

end GV.Dag

namespace GV.TimeConv

/-! ### names created by time conversions always carry a time unit -/

theorem xc_parseNoAgg_shape {name : String} {p : Parsed} (h : parseNoAgg name = some p) :
    (∃ b : String, p.base = b ++ "_") ∧ p.agg = "" := by
  unfold parseNoAgg at h
  dsimp only at h
  split at h
  · rename_i u rest _
    split at h
    · simp only [Option.some.injEq] at h
      subst h
      exact ⟨⟨String.ofList rest.reverse, by rw [String.ofList_append]⟩, rfl⟩
    · cases h
  · cases h

theorem xc_parseName_shape {name : String} {p : Parsed} (h : parseName name = some p) :
    (∃ b : String, p.base = b ++ "_") ∧ (p.agg = "" ∨ p.agg ∈ groupSuffixes) := by
  rw [parseName_eq] at h
  split at h
  · rename_i q hq
    simp only [Option.some.injEq] at h
    subst h
    obtain ⟨g, hg, hq⟩ := List.exists_of_findSome?_eq_some hq
    unfold tryAgg at hq
    split at hq
    · split at hq
      · rename_i p0 hp0
        simp only [Option.some.injEq] at hq
        subst hq
        exact ⟨(xc_parseNoAgg_shape hp0).1, Or.inr hg⟩
      · cases hq
    · cases hq
  · obtain ⟨hb, ha⟩ := xc_parseNoAgg_shape h
    exact ⟨hb, Or.inl ha⟩

/-- every name created by `_create_time_conversion_functions` is itself a time-unit name -/
theorem xc_derived_parses {x : String} {deps : List String} {d : Derived} (h : d ∈ derivedOf x deps) :
    (parseName d.name).isSome = true := by
  obtain ⟨p, hp, _, _, _, hname, _⟩ := mem_derivedOf h
  obtain ⟨⟨b, hb⟩, hagg⟩ := xc_parseName_shape hp
  rw [hname, hb, parseName_build' b d.v p.agg hagg]
  rfl

/-- a data column `n` without time-unit suffix does not influence `create_time_conversion_functions` -/
theorem xc_create_append (fs : List (String × List String)) (dc : List String) (n : String)
    (hn : parseName n = none) : create fs (dc ++ [n]) = create fs dc := by
  have hne : ∀ {x : String} {deps : List String} {d : Derived}, d ∈ derivedOf x deps → d.name ≠ n := by
    intro x deps d hd e
    have := xc_derived_parses hd
    rw [e, hn] at this
    cases this
  have hcont : ∀ {x : String} {deps : List String} {d : Derived}, d ∈ derivedOf x deps →
      (dc ++ [n]).contains d.name = dc.contains d.name := by
    intro x deps d hd
    have := hne hd
    simp [this]
  have h2 : ∀ x, step2 (dc ++ [n]) x = step2 dc x := by
    intro x
    unfold step2
    apply List.filter_congr
    intro d hd
    rw [hcont hd]
  have h1 : ∀ a, step1 (fs.map (·.1)) (dc ++ [n]) a = step1 (fs.map (·.1)) dc a := by
    intro a
    unfold step1
    apply List.filter_congr
    intro d hd
    rw [hcont hd]
  have hfl : firstLoop fs (dc ++ [n]) = firstLoop fs dc := by
    unfold firstLoop
    simp only [h1]
  have hlast : step2 dc n = [] := by
    unfold step2 derivedOf
    rw [hn]
    rfl
  rw [create_eq, create_eq, hfl]
  simp only [h2]
  rw [List.foldl_append, List.foldl_cons, List.foldl_nil, hlast, List.foldl_nil]

end GV.TimeConv

namespace GV.Simulate
open GV.Lang (Val)
open GV.VecDtype (R DT numOf)

/-! ### (b) the data stages with one more column -/

theorem xc_mapM_append {A B : Type} (g : A → Except Err B) (l : List A) (a : A) :
    (l ++ [a]).mapM g =
      match l.mapM g with
      | .error e => .error e
      | .ok o =>
        match g a with
        | .error e => .error e
        | .ok b => .ok (o ++ [b]) := by
  induction l with
  | nil =>
    rw [List.nil_append, List.mapM_cons, List.mapM_nil]
    cases g a <;> rfl
  | cons x l ih =>
    rw [List.cons_append, List.mapM_cons, List.mapM_cons, ih]
    cases g x with
    | error e => rfl
    | ok y =>
      simp only [bind, Except.bind]
      cases l.mapM g with
      | error e => rfl
      | ok o => cases g a <;> rfl

/-- one step of `typedData` -/
def xc_typeStep : String × Column → Except Err (String × Col) := fun (n, c) => do pure (n, ← colOfData c)

theorem xc_typedData_eq (D : List (String × Column)) : typedData D = D.mapM xc_typeStep := rfl

theorem xc_typedData_append (D : List (String × Column)) (n : String) (c : Column) (v : Col)
    (hc : colOfData c = .ok v) :
    typedData (D ++ [(n, c)]) =
      match typedData D with
      | .error e => .error e
      | .ok raw => .ok (raw ++ [(n, v)]) := by
  rw [xc_typedData_eq, xc_typedData_eq, xc_mapM_append]
  cases D.mapM xc_typeStep with
  | error e => rfl
  | ok raw => simp only [xc_typeStep, hc, bind, Except.bind, pure, Except.pure]

theorem xc_all_congr_mem {A : Type} {l : List A} {p q : A → Bool} (h : ∀ x ∈ l, p x = q x) :
    l.all p = l.all q := by
  induction l with
  | nil => rfl
  | cons a l ih =>
    rw [List.all_cons, List.all_cons, h a List.mem_cons_self,
      ih fun x hx => h x (List.mem_cons_of_mem _ hx)]

/-- `<g>_id` for the supported groupings -/
def xc_idNames : List String := groupSuffixes.map fun g => (g.drop 1).toString ++ "_id"

/-- the names with a special role in `_process_and_check_data` -/
def xc_reserved : List String := "p_id" :: foreignKeys ++ xc_idNames

/-- the new column name does not take part in any of the data checks: it is new, it is not `p_id`,
a foreign key or a group id, and it does not carry a group suffix `_g` whose id column `g_id` is
among the data (otherwise the within-group constancy check applies to it) -/
def xc_fresh (dc : List String) (n : String) : Bool := !dc.contains n
def xc_notReserved (n : String) : Bool := !xc_reserved.contains n
def xc_noGroupCheck (dc : List String) (n : String) : Bool :=
  groupSuffixes.all fun g => !(endsWith n g && dc.contains ((g.drop 1).toString ++ "_id"))
def xc_checkFree (dc : List String) (n : String) : Bool :=
  xc_fresh dc n && xc_notReserved n && xc_noGroupCheck dc n

theorem xc_hasDupStr_append (l : List String) (n : String) (h : n ∉ l) :
    hasDupStr (l ++ [n]) = hasDupStr l := by
  induction l with
  | nil => rfl
  | cons x xs ih =>
    have hx : x ≠ n := fun e => h (e ▸ List.mem_cons_self)
    have hxs : n ∉ xs := fun e => h (List.mem_cons_of_mem _ e)
    rw [List.cons_append, hasDupStr, hasDupStr, ih hxs]
    congr 1
    simp [hx]

theorem xc_find?_append {β : Type} (l : List (String × β)) (n x : String) (v : β) (h : n ≠ x) :
    find? (l ++ [(n, v)]) x = find? l x := Dag.find?_append_ne l v h

theorem xc_checkB_append (raw : List (String × Col)) (n : String) (v : Col)
    (h : xc_checkFree (raw.map (·.1)) n = true) :
    mi_checkB (raw ++ [(n, v)]) = mi_checkB raw := by
  unfold xc_checkFree xc_fresh xc_notReserved xc_noGroupCheck at h
  simp only [Bool.and_eq_true, Bool.not_eq_true', List.all_eq_true] at h
  obtain ⟨⟨hnew, hres⟩, hgrp⟩ := h
  have hnew' : n ∉ raw.map (·.1) := by simpa using hnew
  have hres' : ∀ x ∈ xc_reserved, n ≠ x := by
    intro x hx e
    have : xc_reserved.contains n = true := by rw [e]; simpa using hx
    rw [this] at hres
    cases hres
  unfold mi_checkB
  rw [List.map_append, List.map_cons, List.map_nil, xc_hasDupStr_append _ _ hnew',
    xc_find?_append _ _ _ _ (hres' "p_id" (by decide))]
  congr 1
  · congr 1
    apply xc_all_congr_mem
    intro g hg
    unfold mi_groupOk
    have hid : n ≠ (g.drop 1).toString ++ "_id" := by
      apply hres'
      unfold xc_reserved xc_idNames
      exact List.mem_cons_of_mem _ (List.mem_append_right _ (List.mem_map.2 ⟨g, hg, rfl⟩))
    rw [xc_find?_append _ _ _ _ hid]
    cases hf : find? raw ((g.drop 1).toString ++ "_id") with
    | none => rfl
    | some idc =>
      simp only
      rw [List.any_append]
      have hmem : (raw.map (·.1)).contains ((g.drop 1).toString ++ "_id") = true := by
        have := (Dag.find?_isSome_iff raw ((g.drop 1).toString ++ "_id")).1 (by
          unfold find? at hf; rw [hf]; rfl)
        simpa using this
      have hg' := hgrp g hg
      rw [hmem, Bool.and_true] at hg'
      simp only [List.any_cons, List.any_nil, Bool.or_false]
      rw [hg']
      simp
  · cases find? raw "p_id" with
    | none => rfl
    | some pid =>
      simp only
      congr 1
      apply xc_all_congr_mem
      intro fk hfk
      unfold mi_fkOk
      have hid : n ≠ fk := by
        apply hres'
        unfold xc_reserved
        exact List.mem_cons_of_mem _ (List.mem_append_left _ hfk)
      rw [xc_find?_append _ _ _ _ hid]

theorem xc_checkData_append (raw : List (String × Col)) (n : String) (v : Col)
    (h : xc_checkFree (raw.map (·.1)) n = true) :
    checkData (raw ++ [(n, v)]) = checkData raw := by
  rw [mi_checkData_eq, mi_checkData_eq, xc_checkB_append raw n v h]

/-- the conversion of the NEW column: only `TYPES_INPUT_VARIABLES` applies (it overrides nothing) -/
def xc_convNew (n : String) (v : Col) : Except Err Col :=
  match find? typesInputVariables n with
  | none => .ok v
  | some t => convertCol t v

/-- one step of `convertData` -/
def xc_convStep (ov : List Fn) : String × Col → Except Err (String × Col) := fun (n, c) =>
  let ty : Option Ty := match find? typesInputVariables n with
    | some t => some t
    | none => (findFn? ov n).bind (·.ann)
  match ty with
  | none => .ok (n, c)
  | some t => do pure (n, ← convertCol t c)

theorem xc_convertData_eq (data : List (String × Col)) (ov : List Fn) :
    convertData data ov = data.mapM (xc_convStep ov) := rfl

theorem xc_convertData_append (raw : List (String × Col)) (ov : List Fn) (n : String) (v : Col)
    (hov : findFn? ov n = none) :
    convertData (raw ++ [(n, v)]) ov =
      match convertData raw ov with
      | .error e => .error e
      | .ok d =>
        match xc_convNew n v with
        | .error e => .error e
        | .ok v' => .ok (d ++ [(n, v')]) := by
  rw [xc_convertData_eq, xc_convertData_eq, xc_mapM_append]
  cases raw.mapM (xc_convStep ov) with
  | error e => rfl
  | ok d =>
    simp only [xc_convStep, hov, Option.bind_none, xc_convNew]
    cases find? typesInputVariables n with
    | none => rfl
    | some t =>
      simp only [bind, Except.bind, pure, Except.pure]
      cases convertCol t v <;> rfl

/-! ### (c) `prepare` in stage form -/

/-- the stages of `prepare` after the function set has been built -/
def xc_prepTail (T : List String) (raw : List (String × Col)) (all : List Fn) : Except Err Prep :=
  if T.all (hasFn all) = false then .error .valueError
  else
    match convertData raw (all.filter fun f => (raw.map (·.1)).contains f.name) with
    | .error e => .error e
    | .ok data =>
      if T.all (hasFn (all.filter fun f => !(raw.map (·.1)).contains f.name)) = false then .error .other
      else .ok { dataCols := raw.map (·.1), data, fns := all.filter fun f => !(raw.map (·.1)).contains f.name }

theorem xc_prepare_eq (rf : List Fn) (gs : List (String × GroupSpec)) (ps : List (String × PidSpec))
    (D : List (String × Column)) (T : List String) :
    prepare rf gs ps D T =
      match typedData D with
      | .error e => .error e
      | .ok raw =>
        match checkData raw with
        | .error e => .error e
        | .ok _ =>
          match buildFunctions rf gs ps T (raw.map (·.1)) with
          | .error e => .error e
          | .ok all => xc_prepTail T raw all := by
  unfold prepare
  cases typedData D with
  | error e => rfl
  | ok raw =>
    simp only [bind, Except.bind]
    cases checkData raw with
    | error e => rfl
    | ok u =>
      simp only
      cases buildFunctions rf gs ps T (raw.map (·.1)) with
      | error e => rfl
      | ok all =>
        simp only [xc_prepTail]
        cases h1 : T.all (hasFn all) with
        | false => rfl
        | true =>
          simp only [Bool.not_true, Bool.false_eq_true, if_false]
          cases convertData raw (all.filter fun f => (raw.map (·.1)).contains f.name) with
          | error e => rfl
          | ok data =>
            simp only
            cases h2 : T.all (hasFn (all.filter fun f => !(raw.map (·.1)).contains f.name)) with
            | false => rfl
            | true => rfl

theorem xc_hasFn_filter (p : String → Bool) (d : List Fn) (t : String) :
    hasFn (d.filter fun f => p f.name) t = (p t && hasFn d t) := by
  unfold hasFn
  rw [findFn?_filter_name]
  cases p t <;> simp

theorem xc_contains_append_ne (dc : List String) {n t : String} (h : t ≠ n) :
    (dc ++ [n]).contains t = dc.contains t := by
  simp [h]

theorem xc_prepTail_append (T : List String) (raw : List (String × Col)) (A A' : List Fn)
    (n : String) (v v' : Col)
    (hn : hasFn A' n = false) (hT : T.all (hasFn A') = T.all (hasFn A))
    (hann : ∀ m ∈ raw.map (·.1), (findFn? A' m).bind (·.ann) = (findFn? A m).bind (·.ann))
    (hconv : xc_convNew n v = .ok v') :
    xc_prepTail T (raw ++ [(n, v)]) A' =
      match xc_prepTail T raw A with
      | .error e => .error e
      | .ok pr => .ok { dataCols := pr.dataCols ++ [n], data := pr.data ++ [(n, v')],
                        fns := A'.filter fun f => !(raw.map (·.1) ++ [n]).contains f.name } := by
  have hnames : (raw ++ [(n, v)]).map (·.1) = raw.map (·.1) ++ [n] := by
    rw [List.map_append]; rfl
  unfold xc_prepTail
  rw [hnames, hT]
  cases h1 : T.all (hasFn A) with
  | false => rfl
  | true =>
    simp only [Bool.true_eq_false, if_false]
    have hov : findFn? (A'.filter fun f => (raw.map (·.1) ++ [n]).contains f.name) n = none := by
      rw [findFn?_filter_name (fun m => (raw.map (·.1) ++ [n]).contains m)]
      have : findFn? A' n = none := by
        unfold hasFn at hn
        cases hf : findFn? A' n with
        | none => rfl
        | some f => rw [hf] at hn; cases hn
      rw [this]
      split <;> rfl
    rw [xc_convertData_append _ _ _ _ hov, hconv,
      convertData_congr raw _ (A.filter fun f => (raw.map (·.1)).contains f.name)]
    · cases convertData raw (A.filter fun f => (raw.map (·.1)).contains f.name) with
      | error e => rfl
      | ok d =>
        simp only
        have h2 : T.all (hasFn (A'.filter fun f => !(raw.map (·.1) ++ [n]).contains f.name)) =
            T.all (hasFn (A.filter fun f => !(raw.map (·.1)).contains f.name)) := by
          apply xc_all_congr_mem
          intro t ht
          have ht1 : hasFn A t = true := List.all_eq_true.1 h1 t ht
          have ht2 : hasFn A' t = true := by
            rw [← hT] at h1
            exact List.all_eq_true.1 h1 t ht
          have htn : t ≠ n := by
            intro e
            rw [e, hn] at ht2
            cases ht2
          rw [xc_hasFn_filter (fun m => !(raw.map (·.1) ++ [n]).contains m),
            xc_hasFn_filter (fun m => !(raw.map (·.1)).contains m), ht1, ht2,
            xc_contains_append_ne _ htn]
        rw [h2]
        cases T.all (hasFn (A.filter fun f => !(raw.map (·.1)).contains f.name)) with
        | false => rfl
        | true => rfl
    · intro m hm
      rw [findFn?_filter_name (fun x => (raw.map (·.1) ++ [n]).contains x),
        findFn?_filter_name (fun x => (raw.map (·.1)).contains x)]
      have hc1 : (raw.map (·.1)).contains m = true := by simpa using hm
      have hc2 : (raw.map (·.1) ++ [n]).contains m = true := by
        simp only [List.contains_eq_mem, List.mem_append, decide_eq_true_eq]
        exact Or.inl (by simpa using hm)
      simp only [hc1, hc2, if_true]
      exact hann m hm

/-! ### (d) `plan` -/

theorem xc_DU_append (dc : List String) (n : String) : DU (dc ++ [n]) = DU dc ++ [(n, ())] := by
  unfold DU
  rw [List.map_append]
  rfl

theorem xc_pruneNames_append (g : List (String × List String)) (dc T : List String) (n : String)
    (hn : n ∉ g.map (·.1)) : pruneNames g (dc ++ [n]) T = pruneNames g dc T := by
  rw [pruneNames_eq, pruneNames_eq, xc_DU_append, Dag.xc_prune_append]
  rw [find?_U, (Dag.find?_eq_none_iff g n).2 hn]
  rfl

theorem xc_planG_filter (fns : List Fn) (dc S : List String) :
    ((planG fns).filter fun (n, _) => (planNN fns dc S).contains n) = viewG aF (planF fns dc S) := by
  rw [planG_eq, viewG_filter aF fns (fun n => (planNN fns dc S).contains n)]
  rfl

theorem xc_plan (params : List (String × Val)) (T : List String) (pr pr' : Prep) (n : String) (v' : Col)
    (hdc : pr'.dataCols = pr.dataCols ++ [n]) (hdata : pr'.data = pr.data ++ [(n, v')])
    (hF : planF pr'.fns pr'.dataCols T = planF pr.fns pr.dataCols T)
    (hargs : ∀ f ∈ planF pr.fns pr.dataCols T, n ∉ f.args)
    (hname : ∀ f ∈ planF pr.fns pr.dataCols T, f.name ≠ n)
    (hne : pr.data ≠ []) :
    plan params T pr' =
      match plan params T pr with
      | .error e => .error e
      | .ok p => .ok { p with data := p.data ++ [(n, v')] } := by
  have hPN : planPN params pr'.fns pr'.dataCols T = planPN params pr.fns pr.dataCols T := by
    unfold planPN planP
    rw [hF, hdc]
    apply xc_pruneNames_append
    rw [List.map_map]
    intro hmem
    obtain ⟨f, hf, e⟩ := List.mem_map.1 hmem
    exact hname f hf e
  have hP2 : planP2 params pr'.fns pr'.dataCols T = planP2 params pr.fns pr.dataCols T := by
    unfold planP2
    rw [hPN]
    unfold planP
    rw [hF]
  have hPO : planParamsOnly pr'.fns pr'.dataCols T = planParamsOnly pr.fns pr.dataCols T := by
    unfold planParamsOnly
    rw [hF]
  have hM : planMissing params pr'.fns pr'.dataCols T = planMissing params pr.fns pr.dataCols T := by
    unfold planMissing
    rw [hP2, hPO, hdc]
    apply List.filter_congr
    rintro ⟨x, ds⟩ hx
    have hxn : x ≠ n := by
      intro e
      subst e
      have hmem : x ∈ (graphOf (planP2 params pr.fns pr.dataCols T)).map (·.1) :=
        List.mem_map.2 ⟨(x, ds), hx, rfl⟩
      rcases (mem_graphOf_names _ x).1 hmem with h | h
      · obtain ⟨e, he, hex⟩ := List.mem_map.1 h
        unfold planP2 planP at he
        obtain ⟨f, hf, hfe⟩ := List.mem_map.1 (List.mem_filter.1 he).1
        subst hfe
        exact hname f hf hex
      · obtain ⟨e, he, hxe⟩ := List.mem_flatMap.1 h
        unfold planP2 planP at he
        obtain ⟨f, hf, hfe⟩ := List.mem_map.1 (List.mem_filter.1 he).1
        subst hfe
        exact hargs f hf (freeArgs_sub params f x hxe)
    simp only [xc_contains_append_ne _ hxn]
  rw [plan_eq_components, plan_eq_components, xc_planG_filter, xc_planG_filter, hF, hM]
  split
  · rfl
  · cases (planF pr.fns pr.dataCols T).filterMapM (specStep params) with
    | error e => rfl
    | ok specs =>
      simp only [bind, Except.bind]
      split
      · rfl
      · simp only [pure, Except.pure, planResult, hF, hPN, hP2, hdata, Except.ok.injEq]
        congr 1
        rw [List.head?_append_of_ne_nil _ hne]

/-! ### (e) `exec` -/

theorem xc_exec (p : Plan) (T : List String) (n : String) (v' : Col)
    (hS : Dag.find? p.sys n = none) (hdeps : ∀ e ∈ p.sys, n ∉ e.2.deps)
    (hord : ∀ x ∈ p.order, x ≠ n) (hT : ∀ t ∈ T, t ≠ n) :
    exec { p with data := p.data ++ [(n, v')] } T = exec p T := by
  unfold exec
  simp only
  rw [Dag.xc_prune_append _ _ _ _ hS]
  have hdeps' : ∀ e ∈ Dag.prune p.sys p.data (p.sys.length + 1) T, n ∉ e.2.deps := by
    intro e he
    unfold Dag.prune at he
    exact hdeps e (List.mem_filter.1 he).1
  have hev := Dag.xc_eval_append (Dag.prune p.sys p.data (p.sys.length + 1) T) p.data n v' hdeps'
    (p.sys.length + 1)
  rw [Dag.mapM_congr_mem (g' := fun x => Dag.eval (Dag.prune p.sys p.data (p.sys.length + 1) T) p.data
    (p.sys.length + 1) x) (fun x hx => hev x (hord x hx))]
  rw [Dag.mapM_congr_mem (l := T) (g' := fun t => do
    pure (t, render p.nRows (← Dag.eval (Dag.prune p.sys p.data (p.sys.length + 1) T) p.data
      (p.sys.length + 1) t))) (fun t ht => by rw [hev t (hT t ht)])]

/-! ### (f) the side conditions and the main lemma -/

/-- `typedData` accepts the new column (homogeneous `bool` / `int` / `float`), and if its name is a
documented input variable (`TYPES_INPUT_VARIABLES`) the conversion to the internal type succeeds -/
def xc_colOk (n : String) (c : Column) : Bool :=
  match colOfData c with
  | .error _ => false
  | .ok v =>
    match xc_convNew n v with
    | .error _ => false
    | .ok _ => true

/-- **The functions needed for the targets are the same with and without a data column called `n`,
and none of them reads `n`.** `load_and_check_functions` fails in the same way or succeeds in both
cases, and then: no function is called `n`; the targets are all functions in the one case iff
they are in the other; the functions overridden by the OLD data columns have the same return
annotations (they decide the conversion of these columns); the functions that survive the pruning
of `dags.create_dag` are the same (same names, parameters, annotations and kinds, in the same
order); none of them has a parameter called `n`. -/
def xc_sameFns (rf : List Fn) (gs : List (String × GroupSpec)) (ps : List (String × PidSpec))
    (T dc : List String) (n : String) : Bool :=
  match buildFunctions rf gs ps T dc, buildFunctions rf gs ps T (dc ++ [n]) with
  | .error e, .error e' => e == e'
  | .ok A, .ok A' =>
    !hasFn A' n &&
    (T.all (hasFn A') == T.all (hasFn A)) &&
    (dc.all fun m => (findFn? A' m).bind (·.ann) == (findFn? A m).bind (·.ann)) &&
    ((planF (A'.filter fun f => !(dc ++ [n]).contains f.name) (dc ++ [n]) T).map ov_sig ==
      (planF (A.filter fun f => !dc.contains f.name) dc T).map ov_sig) &&
    ((planF (A.filter fun f => !dc.contains f.name) dc T).all fun f => !f.args.contains n)
  | _, _ => false

theorem xc_prepTail_ok {T : List String} {raw : List (String × Col)} {A : List Fn} {pr : Prep}
    (h : xc_prepTail T raw A = .ok pr) :
    T.all (hasFn A) = true ∧
      convertData raw (A.filter fun f => (raw.map (·.1)).contains f.name) = .ok pr.data ∧
      pr.fns = A.filter (fun f => !(raw.map (·.1)).contains f.name) ∧ pr.dataCols = raw.map (·.1) := by
  unfold xc_prepTail at h
  split at h
  · cases h
  · rename_i h1
    split at h
    · cases h
    · rename_i data hdata
      split at h
      · cases h
      · simp only [Except.ok.injEq] at h
        subst h
        exact ⟨by simpa using h1, hdata, rfl, rfl⟩

theorem xc_map_sig_eq {rf : List Fn} {gs : List (String × GroupSpec)} {ps : List (String × PidSpec)}
    {T T' dc dc' : List String} {A A' : List Fn}
    (h : buildFunctions rf gs ps T dc = .ok A) (h' : buildFunctions rf gs ps T' dc' = .ok A') :
    ∀ (L L' : List Fn), (∀ f ∈ L, f ∈ A) → (∀ f ∈ L', f ∈ A') → L'.map ov_sig = L.map ov_sig → L' = L := by
  intro L
  induction L with
  | nil =>
    intro L' _ _ hm
    cases L' with
    | nil => rfl
    | cons a l => cases hm
  | cons f L ih =>
    intro L' hL hL' hm
    cases L' with
    | nil => cases hm
    | cons f' L' =>
      rw [List.map_cons, List.map_cons, List.cons.injEq] at hm
      have e : f = f' := ov_sig_eq h h' (hL f List.mem_cons_self) (hL' f' List.mem_cons_self) hm.1.symm
      rw [e, ih L' (fun g hg => hL g (List.mem_cons_of_mem _ hg))
        (fun g hg => hL' g (List.mem_cons_of_mem _ hg)) hm.2]

theorem xc_planF_sub (fns : List Fn) (dc S : List String) : ∀ f ∈ planF fns dc S, f ∈ fns :=
  fun _ hf => (List.mem_filter.1 hf).1

/-- **Main lemma**: under the three side conditions the whole computation (table or error) is the
same with and without the additional column. -/
theorem xc_run (rf : List Fn) (params : List (String × Val)) (gs : List (String × GroupSpec))
    (ps : List (String × PidSpec)) (D : List (String × Column)) (T : List String) (n : String) (c : Column)
    (hcol : xc_colOk n c = true) (hfree : xc_checkFree (D.map (·.1)) n = true)
    (hsame : xc_sameFns rf gs ps (sortDedup T) (D.map (·.1)) n = true) :
    run rf params gs ps (D ++ [(n, c)]) T = run rf params gs ps D T := by
  -- the new column
  unfold xc_colOk at hcol
  cases hc : colOfData c with
  | error e => rw [hc] at hcol; cases hcol
  | ok v =>
  rw [hc] at hcol
  simp only at hcol
  cases hconv : xc_convNew n v with
  | error e => rw [hconv] at hcol; cases hcol
  | ok v' =>
  clear hcol
  unfold run
  simp only
  generalize sortDedup T = T' at hsame ⊢
  rw [xc_prepare_eq, xc_prepare_eq, xc_typedData_append D n c v hc]
  cases htd : typedData D with
  | error e => rfl
  | ok raw =>
  simp only
  have hnames := typedData_names htd
  rw [← hnames] at hfree hsame
  rw [xc_checkData_append raw n v hfree]
  cases hchk : checkData raw with
  | error e => rfl
  | ok u =>
  simp only
  have hnm : (raw ++ [(n, v)]).map (·.1) = raw.map (·.1) ++ [n] := by
    rw [List.map_append]; rfl
  rw [hnm]
  unfold xc_sameFns at hsame
  cases hA : buildFunctions rf gs ps T' (raw.map (·.1)) with
  | error e =>
    rw [hA] at hsame
    cases hA' : buildFunctions rf gs ps T' (raw.map (·.1) ++ [n]) with
    | error e' =>
      rw [hA'] at hsame
      simp only [beq_iff_eq] at hsame
      rw [hsame]
    | ok A' => rw [hA'] at hsame; cases hsame
  | ok A =>
    rw [hA] at hsame
    cases hA' : buildFunctions rf gs ps T' (raw.map (·.1) ++ [n]) with
    | error e' => rw [hA'] at hsame; cases hsame
    | ok A' =>
      rw [hA'] at hsame
      simp only [Bool.and_eq_true, Bool.not_eq_true', beq_iff_eq, List.all_eq_true] at hsame
      obtain ⟨⟨⟨⟨hn, hT⟩, hann⟩, hsig⟩, hargs⟩ := hsame
      simp only
      rw [xc_prepTail_append T' raw A A' n v v' hn hT (fun m hm => hann m hm) hconv]
      cases hpt : xc_prepTail T' raw A with
      | error e => rfl
      | ok pr =>
        simp only [bind, Except.bind]
        obtain ⟨hTA, hcd, hfns, hdcs⟩ := xc_prepTail_ok hpt
        -- the needed functions
        have hF : planF (A'.filter fun f => !(raw.map (·.1) ++ [n]).contains f.name) (pr.dataCols ++ [n]) T' =
            planF pr.fns pr.dataCols T' := by
          rw [hfns, hdcs]
          exact xc_map_sig_eq hA hA' _ _ (fun f hf => (List.mem_filter.1 (xc_planF_sub _ _ _ f hf)).1)
            (fun f hf => (List.mem_filter.1 (xc_planF_sub _ _ _ f hf)).1) hsig
        have hargs' : ∀ f ∈ planF pr.fns pr.dataCols T', n ∉ f.args := by
          intro f hf
          rw [hfns, hdcs] at hf
          simpa using hargs f hf
        have hname : ∀ f ∈ planF pr.fns pr.dataCols T', f.name ≠ n := by
          intro f hf e
          rw [← hF] at hf
          have hfA' : f ∈ A' := (List.mem_filter.1 (xc_planF_sub _ _ _ f hf)).1
          have : hasFn A' n = true := by
            rw [hasFn_iff]
            exact List.mem_map.2 ⟨f, hfA', e⟩
          rw [hn] at this
          cases this
        have hTn : ∀ t ∈ T', t ≠ n := by
          intro t ht e
          rw [← hT] at hTA
          have := List.all_eq_true.1 hTA t ht
          rw [e, hn] at this
          cases this
        have hne : pr.data ≠ [] := by
          intro hnil
          have hcd' : raw.mapM (xc_convStep _) = .ok pr.data := hcd
          have hlen : pr.data.length = raw.length := ((Dag.mapM_ok_iff _ _ _).1 hcd').length_eq.symm
          rw [hnil] at hlen
          have : raw = [] := List.length_eq_zero_iff.1 hlen.symm
          rw [this, ov_checkData_nil] at hchk
          cases hchk
        rw [xc_plan params T' pr _ n v' rfl rfl hF hargs' hname hne]
        cases hplan : plan params T' pr with
        | error e => rfl
        | ok p =>
          simp only
          obtain ⟨_, specs, _, _, hp⟩ := plan_full hplan
          apply xc_exec
          · -- `n` is not a node
            rw [Dag.find?_eq_none_iff, hp]
            simp only [planResult, List.map_map]
            intro hmem
            obtain ⟨f, hf, e⟩ := List.mem_map.1 hmem
            exact hname f (List.mem_filter.1 hf).1 e
          · -- no node reads `n`
            intro e he
            rw [hp] at he
            simp only [planResult] at he
            obtain ⟨f, hf, rfl⟩ := List.mem_map.1 he
            intro hd
            exact hargs' f (List.mem_filter.1 hf).1 (freeArgs_sub params f n hd)
          · intro x hx e
            rw [hp] at hx
            simp only [planResult] at hx
            have hx' := (List.mem_filter.1 hx).2
            have hx'' : x ∈ planPN params pr.fns pr.dataCols T' := by simpa using hx'
            have hsome := ((mem_planPN params pr.fns pr.dataCols T' x).1 hx'').1
            cases hf : findFn? (planF pr.fns pr.dataCols T') x with
            | none => rw [hf] at hsome; cases hsome
            | some f =>
              exact hname f (mem_of_findFn? hf) ((findFn?_some hf).2.trans e)
          · exact hTn

/-- **`n` is an unused column name for `inp`**: it takes part in none of the data checks
(`xc_checkFree`) and the functions needed for the targets are the same with and without it and do
not read it (`xc_sameFns`). -/
def xc_unused (inp : Input) (n : String) : Bool :=
  xc_checkFree (inp.data.map (·.1)) n &&
  xc_sameFns (inp.rules.map (ruleFn inp.rounding)) inp.groupSpecs inp.pidSpecs (sortDedup inp.targets)
    (inp.data.map (·.1)) n

theorem xc_simulate (inp : Input) (n : String) (c : Column)
    (hty : xc_colOk n c = true) (hunused : xc_unused inp n = true) :
    simulate { inp with data := inp.data ++ [(n, c)] } = simulate inp := by
  unfold xc_unused at hunused
  rw [Bool.and_eq_true] at hunused
  unfold simulate
  exact xc_run _ _ _ _ _ _ _ _ hty hunused.1 hunused.2

/-! ### a simpler sufficient condition: the whole function set is unchanged -/

/-- no function is called `n` and no function needed for the targets has a parameter `n` -/
def xc_notNeeded (rf : List Fn) (gs : List (String × GroupSpec)) (ps : List (String × PidSpec))
    (T dc : List String) (n : String) : Bool :=
  match buildFunctions rf gs ps T dc with
  | .error _ => true
  | .ok A => !hasFn A n && (planF (A.filter fun f => !dc.contains f.name) dc T).all fun f => !f.args.contains n

theorem xc_filter_fresh (A : List Fn) (dc : List String) (n : String) (hn : hasFn A n = false) :
    (A.filter fun f => !(dc ++ [n]).contains f.name) = A.filter fun f => !dc.contains f.name := by
  apply List.filter_congr
  intro f hf
  have : f.name ≠ n := by
    intro e
    have : hasFn A n = true := by
      rw [hasFn_iff]
      exact List.mem_map.2 ⟨f, hf, e⟩
    rw [hn] at this
    cases this
  rw [xc_contains_append_ne _ this]

theorem xc_planF_append (fns : List Fn) (dc T : List String) (n : String) (hn : hasFn fns n = false) :
    planF fns (dc ++ [n]) T = planF fns dc T := by
  unfold planF planNN
  rw [xc_pruneNames_append]
  unfold planG
  rw [List.map_map]
  intro hmem
  have : hasFn fns n = true := by
    rw [hasFn_iff]
    exact hmem
  rw [hn] at this
  cases this

theorem xc_sameFns_of_stable {rf : List Fn} {gs : List (String × GroupSpec)} {ps : List (String × PidSpec)}
    {T dc : List String} {n : String}
    (h : buildFunctions rf gs ps T (dc ++ [n]) = buildFunctions rf gs ps T dc)
    (hnn : xc_notNeeded rf gs ps T dc n = true) : xc_sameFns rf gs ps T dc n = true := by
  unfold xc_sameFns
  unfold xc_notNeeded at hnn
  rw [h]
  cases hA : buildFunctions rf gs ps T dc with
  | error e => simp
  | ok A =>
    rw [hA] at hnn
    simp only [Bool.and_eq_true, Bool.not_eq_true'] at hnn
    obtain ⟨hn, hargs⟩ := hnn
    have hn' : hasFn (A.filter fun f => !dc.contains f.name) n = false := by
      rw [xc_hasFn_filter (fun m => !dc.contains m), hn, Bool.and_false]
    simp only [hn, xc_filter_fresh A dc n hn, xc_planF_append _ dc T n hn', hargs, beq_self_eq_true,
      Bool.not_false, Bool.and_true, Bool.true_and]
    exact List.all_eq_true.2 fun _ _ => rfl

/-- `xc_unused` follows from the three simpler checks: `n` takes part in no data check, the whole
function set is unchanged (`ov_fnsStable`), and `n` is neither a function nor read by a needed one -/
def xc_unusedStable (inp : Input) (n : String) : Bool :=
  xc_checkFree (inp.data.map (·.1)) n && ov_fnsStable inp n &&
  xc_notNeeded (inp.rules.map (ruleFn inp.rounding)) inp.groupSpecs inp.pidSpecs (sortDedup inp.targets)
    (inp.data.map (·.1)) n

theorem xc_unused_of_stable {inp : Input} {n : String} (h : xc_unusedStable inp n = true) :
    xc_unused inp n = true := by
  unfold xc_unusedStable at h
  simp only [Bool.and_eq_true] at h
  obtain ⟨⟨h1, h2⟩, h3⟩ := h
  unfold xc_unused
  rw [h1, xc_sameFns_of_stable (ov_fnsStable_spec inp n h2) h3]
  rfl

/-! ### a syntactic sufficient condition for the stability of the function set -/

/-- **`n` is a plain name for `inp`**: (P1) it carries no time-unit suffix `_y`, `_m`, `_w`, `_d`
(optionally followed by a group suffix), so no time conversion is derived from it and none can be
called `n`; (P2) it is not the source column of a p_id aggregation spec; (P3) it is not what
remains of a parameter of a function (rule, p_id aggregation, time conversion), of a target or of the
source of an aggregation spec after the group suffixes have been removed (`remove_group_suffix`),
so no automatic group sum of `n` can appear. -/
def xc_plain (inp : Input) (n : String) : Bool :=
  let rules := merge [] (inp.rules.map (ruleFn inp.rounding))
  let dc := inp.data.map (·.1)
  (TimeConv.parseName n).isNone &&
  (inp.pidSpecs.all fun s => s.2.source != n) &&
  match pidFns rules dc inp.pidSpecs with
  | .error _ => true
  | .ok pid =>
    ((merge (merge (timeConvFns (merge rules pid) dc) rules) pid).flatMap (·.args) ++ sortDedup inp.targets ++
        inp.groupSpecs.filterMap (fun (_, s) => s.source)).all fun col => removeGroupSuffix col != n

theorem xc_fnsStable_of_plain {inp : Input} {n : String} (h : xc_plain inp n = true) :
    ov_fnsStable inp n = true := by
  unfold xc_plain at h
  simp only [Bool.and_eq_true, Option.isNone_iff_eq_none] at h
  obtain ⟨⟨hp, hsrc⟩, hpot⟩ := h
  unfold ov_fnsStable
  simp only [Bool.and_eq_true]
  refine ⟨?_, ?_⟩
  · rw [List.all_eq_true]
    intro s hs
    have hne : s.2.source ≠ n := by simpa using List.all_eq_true.1 hsrc s hs
    unfold ov_pidKeep
    rw [TimeConv.xc_create_append [] _ n hp, xc_contains_append_ne _ hne]
    exact beq_self_eq_true _
  · cases hpid : pidFns (merge [] (inp.rules.map (ruleFn inp.rounding))) (inp.data.map (·.1)) inp.pidSpecs with
    | error e => rfl
    | ok pid =>
      rw [hpid] at hpot
      simp only [Bool.and_eq_true, decide_eq_true_eq]
      refine ⟨TimeConv.xc_create_append _ _ n hp, ?_⟩
      rw [List.all_eq_true] at hpot ⊢
      intro col hcol
      have hne : removeGroupSuffix col ≠ n := by simpa using hpot col hcol
      unfold autoOk
      rw [← List.append_assoc, xc_contains_append_ne _ hne]
      exact beq_self_eq_true _

/-- the three parts (P1), (P2), (P3) of `xc_plain`, for (counter)examples -/
def xc_plainParts (inp : Input) (n : String) : Bool × Bool × Bool :=
  let rules := merge [] (inp.rules.map (ruleFn inp.rounding))
  let dc := inp.data.map (·.1)
  ((TimeConv.parseName n).isNone, (inp.pidSpecs.all fun s => s.2.source != n),
   match pidFns rules dc inp.pidSpecs with
   | .error _ => true
   | .ok pid =>
     ((merge (merge (timeConvFns (merge rules pid) dc) rules) pid).flatMap (·.args) ++ sortDedup inp.targets ++
         inp.groupSpecs.filterMap (fun (_, s) => s.source)).all fun col => removeGroupSuffix col != n)

theorem xc_plain_eq_parts (inp : Input) (n : String) :
    xc_plain inp n = ((xc_plainParts inp n).1 && (xc_plainParts inp n).2.1 && (xc_plainParts inp n).2.2) := rfl

/-- the three name-based checks together: (D) `xc_checkFree`, (F) `xc_plain`, (G) `xc_notNeeded` -/
def xc_unusedPlain (inp : Input) (n : String) : Bool :=
  xc_checkFree (inp.data.map (·.1)) n && xc_plain inp n &&
  xc_notNeeded (inp.rules.map (ruleFn inp.rounding)) inp.groupSpecs inp.pidSpecs (sortDedup inp.targets)
    (inp.data.map (·.1)) n

theorem xc_unusedStable_of_plain {inp : Input} {n : String} (h : xc_unusedPlain inp n = true) :
    xc_unusedStable inp n = true := by
  unfold xc_unusedPlain at h
  simp only [Bool.and_eq_true] at h
  obtain ⟨⟨h1, h2⟩, h3⟩ := h
  unfold xc_unusedStable
  rw [h1, xc_fnsStable_of_plain h2, h3]
  rfl

/-! ### several columns -/

/-- the columns `cols` can be added one after the other, each being unused for the data before it -/
def xc_unusedAll (inp : Input) : List (String × Column) → Bool
  | [] => true
  | (n, c) :: rest =>
    xc_colOk n c && xc_unused inp n && xc_unusedAll { inp with data := inp.data ++ [(n, c)] } rest

theorem xc_simulate_all (inp : Input) (cols : List (String × Column)) (h : xc_unusedAll inp cols = true) :
    simulate { inp with data := inp.data ++ cols } = simulate inp := by
  induction cols generalizing inp with
  | nil => rw [List.append_nil]
  | cons e rest ih =>
    obtain ⟨n, c⟩ := e
    unfold xc_unusedAll at h
    simp only [Bool.and_eq_true] at h
    obtain ⟨⟨h1, h2⟩, h3⟩ := h
    have := ih _ h3
    simp only [List.append_assoc, List.cons_append, List.nil_append] at this
    rw [this]
    exact xc_simulate inp n c h1 h2

/-! ### float columns always pass the type check -/

theorem xc_colOfData_float (xs : List Rat) :
    colOfData (xs.map Val.flt) = .ok { dt := .float, vals := xs.map R.f } := by
  have hm : (xs.map Val.flt).mapM valToR = some (xs.map R.f) := by
    have := ov_mapM_valToR (xs.map R.f)
    rw [List.map_map] at this
    exact this
  unfold colOfData
  rw [hm]
  cases xs with
  | nil => rfl
  | cons q qs =>
    have h3 : ((q :: qs).map R.f).all (fun r => VecDtype.dtypeOf r != .bool) = true := by
      rw [List.all_eq_true]
      intro r hr
      obtain ⟨x, _, rfl⟩ := List.mem_map.1 hr
      rfl
    have hc : ((q :: qs).map R.f).map (VecDtype.cast .float) = (q :: qs).map R.f := by
      rw [List.map_map]
      rfl
    simp only [List.map_cons, List.all_cons, VecDtype.dtypeOf] at h3 hc ⊢
    simp only [h3, hc]
    rfl

/-- every float column under a name that is not a documented input variable passes `xc_colOk` -/
theorem xc_colOk_float (n : String) (xs : List Rat) (hn : find? typesInputVariables n = none) :
    xc_colOk n (xs.map Val.flt) = true := by
  unfold xc_colOk xc_convNew
  rw [xc_colOfData_float, hn]
/-! ### reports for (counter)examples -/

/-- a result as printed (error, or name / kind / values with six decimals of every column) -/
def xc_shown (r : Except Err Table) : Option Err × List (String × String × List String) :=
  match r with
  | .error e => (some e, [])
  | .ok tbl => (none, tbl.map fun (n, c) => (n, Examples.kindOf c, c.map Examples.fmtVal))

theorem xc_shown_congr {r r' : Except Err Table} (h : r = r') : xc_shown r = xc_shown r' := by rw [h]

/-- the parts of `xc_sameFns` -/
structure xc_FnsReport where
  /-- `load_and_check_functions` fails with the same error or succeeds in both cases -/
  sameOutcome : Bool
  notFn : Bool := true
  sameTargets : Bool := true
  sameAnn : Bool := true
  sameNeeded : Bool := true
  notRead : Bool := true
  deriving DecidableEq, Repr

def xc_fnsReport (inp : Input) (n : String) : xc_FnsReport :=
  let rf := inp.rules.map (ruleFn inp.rounding)
  let T := sortDedup inp.targets
  let dc := inp.data.map (·.1)
  match buildFunctions rf inp.groupSpecs inp.pidSpecs T dc,
        buildFunctions rf inp.groupSpecs inp.pidSpecs T (dc ++ [n]) with
  | .error e, .error e' => { sameOutcome := e == e' }
  | .ok A, .ok A' =>
    { sameOutcome := true
      notFn := !hasFn A' n
      sameTargets := T.all (hasFn A') == T.all (hasFn A)
      sameAnn := dc.all fun m => (findFn? A' m).bind (·.ann) == (findFn? A m).bind (·.ann)
      sameNeeded := (planF (A'.filter fun f => !(dc ++ [n]).contains f.name) (dc ++ [n]) T).map ov_sig ==
        (planF (A.filter fun f => !dc.contains f.name) dc T).map ov_sig
      notRead := (planF (A.filter fun f => !dc.contains f.name) dc T).all fun f => !f.args.contains n }
  | _, _ => { sameOutcome := false }

structure xc_Report where
  colOk : Bool
  fresh : Bool
  notReserved : Bool
  noGroupCheck : Bool
  sameFns : Bool
  /-- both calls print the same (same error, or same table) -/
  sameResult : Bool
  deriving DecidableEq, Repr

/-- add the column `(n, c)` to the data of `inp`: which side conditions hold, is the result the same? -/
def xc_report (inp : Input) (n : String) (c : Column) : xc_Report :=
  { colOk := xc_colOk n c
    fresh := xc_fresh (inp.data.map (·.1)) n
    notReserved := xc_notReserved n
    noGroupCheck := xc_noGroupCheck (inp.data.map (·.1)) n
    sameFns := xc_sameFns (inp.rules.map (ruleFn inp.rounding)) inp.groupSpecs inp.pidSpecs
      (sortDedup inp.targets) (inp.data.map (·.1)) n
    sameResult := xc_shown (simulate { inp with data := inp.data ++ [(n, c)] }) == xc_shown (simulate inp) }

/-- a report with `sameResult = false` is a genuine counterexample to the conclusion -/
theorem xc_report_differs {inp : Input} {n : String} {c : Column}
    (h : (xc_report inp n c).sameResult = false) :
    simulate { inp with data := inp.data ++ [(n, c)] } ≠ simulate inp := by
  intro heq
  simp only [xc_report, xc_shown_congr heq, beq_self_eq_true] at h
  cases h

/-- if all side conditions of a report hold, so does `xc_unused` -/
theorem xc_report_unused {inp : Input} {n : String} {c : Column}
    (h : xc_report inp n c = ⟨true, true, true, true, true, true⟩) : xc_colOk n c = true ∧ xc_unused inp n = true := by
  have h1 := congrArg xc_Report.colOk h
  have h2 := congrArg xc_Report.fresh h
  have h3 := congrArg xc_Report.notReserved h
  have h4 := congrArg xc_Report.noGroupCheck h
  have h5 := congrArg xc_Report.sameFns h
  simp only [xc_report] at h1 h2 h3 h4 h5
  refine ⟨h1, ?_⟩
  unfold xc_unused xc_checkFree
  rw [h2, h3, h4, h5]
  rfl

end GV.Simulate
