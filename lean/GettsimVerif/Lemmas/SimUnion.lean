import GettsimVerif.Lemmas.SimPerm
import Mathlib.Data.List.Forall2
/-
Helper lemmas for property C02 on the CONCRETE node operations of `Core/Simulate.lean`:
a block of rows `[a, a+m)` of a table with `N` rows that is closed under group membership and
person-to-person pointers is simulated identically alone and inside the whole table.

Internally the block is the gather by the index list `List.range' a m`, so that the lemmas of
`Lemmas/SimPerm.lean` that only need VALID indices can be reused (`Col.permute (List.range' a m)`).
-/
namespace GV.Simulate
open GV.VecDtype (R DT numOf)
open GV.Lang (Val FunDef)
open GV.TimeConv (TUnit)

/-! ## definitions -/

/-- restriction to the first `n` rows; scalars have no rows -/
def Col.takeRows (n : Nat) (c : Col) : Col := if c.scalar then c else { c with vals := c.vals.take n }

/-- restriction to the rows after the first `n` rows -/
def Col.dropRows (n : Nat) (c : Col) : Col := if c.scalar then c else { c with vals := c.vals.drop n }

/-- the rows of `b` appended to the rows of `a`; a scalar is shared by both tables -/
def Col.append (a b : Col) : Col := if a.scalar then a else { a with vals := a.vals ++ b.vals }

/-- two columns that can be stacked: the same scalar, or 1-d arrays of the same dtype with `nA`
and `nB` rows -/
def Col.Stackable (nA nB : Nat) (a b : Col) : Prop :=
  if a.scalar then b = a
  else b.scalar = false ∧ b.dt = a.dt ∧ a.vals.length = nA ∧ b.vals.length = nB

instance (nA nB : Nat) (a b : Col) : Decidable (Col.Stackable nA nB a b) := by
  unfold Col.Stackable; infer_instance

/-- the index list of the block of rows `[a, a+m)` -/
abbrev un_win (a m : Nat) : List Nat := List.range' a m

/-- the group ids (pointer targets …) of the block `[a, a+m)` occur nowhere else in the column -/
def un_Sep (a m : Nat) (l : List Int) : Prop :=
  ∀ g ∈ (l.drop a).take m, g ∉ l.take a ∧ g ∉ l.drop (a + m)

/-! ## lists -/

section lists
variable {α : Type} [Inhabited α]

theorem un_win_valid {a m n : Nat} (h : a + m ≤ n) : ∀ i ∈ un_win a m, i < n := by
  intro i hi
  simp only [un_win, List.mem_range'_1] at hi
  omega

theorem un_permList_win (a m : Nat) (l : List α) (h : a + m ≤ l.length) :
    permList (un_win a m) l = (l.drop a).take m := by
  apply List.ext_getElem
  · simp; omega
  · intro i h1 h2
    simp only [permList_length, List.length_range'] at h1
    simp [permList, List.getD_eq_getElem?_getD, List.getElem?_eq_getElem (show a + i < l.length by omega)]

omit [Inhabited α] in
theorem un_split3 (a m : Nat) (l : List α) :
    l.take a ++ ((l.drop a).take m ++ l.drop (a + m)) = l := by
  rw [← List.drop_drop, List.take_append_drop, List.take_append_drop]

end lists

/-! ## `ruleOp` with a declared return type: gathering rows by VALID indices -/

theorem un_broadcastLen_permute (cols : List Col) (σ : List Nat) :
    broadcastLen (cols.map (Col.permute σ)) =
      .ok (if (cols.filter (!·.scalar)) = [] then none else some σ.length) := by
  rw [broadcastLen_ok (ColsOK.permute cols σ rfl)]
  simp only [filter_nonscalar_permute]

/-- a rule WITH arguments: gathering the rows of the inputs by any list of valid indices gathers the
rows of the result identically -/
theorem un_ruleOp_gather {n : Nat} {σ : List Nat} (hv : ∀ i ∈ σ, i < n)
    {params : List (String × Val)} {fn : FunDef} {ty : Ty} {spec : Option RSpec}
    {free : List String} {cols : List Col} {out : Col} (hE : fn.args ≠ []) (hcols : ColsOK n cols)
    (h : ruleOp params fn (some ty) spec free cols = .ok out) :
    ruleOp params fn (some ty) spec free (cols.map (Col.permute σ)) = .ok (out.permute σ) := by
  rw [ruleOp_declared] at h ⊢
  rw [un_broadcastLen_permute cols σ, ok_bind]
  obtain ⟨n?, hb, h⟩ := bind_ok h
  obtain ⟨raw, hraw, h⟩ := bind_ok h
  obtain ⟨rs, hrs, h⟩ := bind_ok h
  obtain ⟨o, ho, hfin⟩ := bind_ok h
  have hbo := broadcastLen_ok hcols
  rw [hb] at hbo
  by_cases hf : cols.filter (!·.scalar) = []
  · rw [if_pos hf] at hbo ⊢
    cases hbo
    have hall : ∀ c ∈ cols, c.scalar = true := by
      intro c hc
      have := (List.filter_eq_nil_iff.1 hf) c hc
      simpa using this
    rw [map_permute_of_all_scalar σ cols hall, hraw, ok_bind, hrs, ok_bind, ho, ok_bind, hfin,
      Col.permute_of_scalar (finish_scalar hfin (mkOut_scalar ho (Or.inr rfl)))]
  · rw [if_neg hf] at hbo ⊢
    cases hbo
    simp only [Option.getD_some] at hraw ⊢
    rw [Dag.range_mapM_ok_iff] at hraw
    have hraw' : (List.range σ.length).mapM (rowFn params fn free (cols.map (Col.permute σ))) =
        .ok (permList σ raw) := by
      rw [Dag.range_mapM_ok_iff]
      refine ⟨by simp, fun k hk => ?_⟩
      rw [rowFn_permute params fn σ free cols k hk, permList_getD σ raw k hk]
      exact hraw.2 _ (hv _ (List.getElem_mem hk))
    have hrs' := mapM_permList _ _ _ hrs σ (by rw [hraw.1]; exact hv)
    have hrl : rs.length = n := by rw [mapM_length _ _ _ hrs, hraw.1]
    rw [hraw', ok_bind, hrs', ok_bind, mkOut_nonempty ty _ _ hE, ok_bind]
    rw [mkOut_nonempty ty _ _ hE] at ho
    cases ho
    have ho : ColOK n
        ({ dt := ty.toDT, vals := rs.map (VecDtype.cast ty.toDT), shape := if (some n).isNone then .arr0 else .arr } : Col) :=
      fun _ => by simp [hrl]
    have := (finish_perm hv ho hfin).1
    rw [Col.permute_of_arr (by rfl), permList_map σ rs _ (by rw [hrl]; exact hv)] at this
    exact this

/-- a rule WITHOUT arguments returns the result of its first call as a Python number -/
theorem un_noargs_first {params : List (String × Val)} {fn : FunDef} {ty : Ty}
    {free : List String} {cols : List Col} {n? : Option Nat} {raw : List Val} {rs : List R} {o : Col}
    (hE : fn.args = [])
    (hraw : (List.range (n?.getD 1)).mapM (rowFn params fn free cols) = .ok raw)
    (hrs : raw.mapM resultToR = .ok rs) (ho : mkOut fn ty n? rs = .ok o) :
    ∃ v r, rowFn params fn free cols 0 = .ok v ∧ resultToR v = .ok r ∧
      o = { dt := VecDtype.dtypeOf r, vals := [r], shape := .pyScalar } := by
  simp only [mkOut, hE, List.isEmpty_nil, if_true] at ho
  cases rs with
  | nil => cases ho
  | cons r rs' =>
    cases ho
    rw [Dag.mapM_ok_iff] at hrs
    obtain ⟨v, raw', hv, _, rfl⟩ := List.forall₂_cons_right_iff.1 hrs
    · rw [Dag.range_mapM_ok_iff] at hraw
      have := hraw.2 0 (by rw [← hraw.1]; simp)
      exact ⟨v, r, by simpa using this, hv, rfl⟩

/-- … so its result does not depend on the input columns at all -/
theorem un_ruleOp_noargs {params : List (String × Val)} {fn : FunDef} {ty : Ty}
    {spec : Option RSpec} {free : List String} {cols cols' : List Col} {out out' : Col}
    (hE : fn.args = []) (h : ruleOp params fn (some ty) spec free cols = .ok out)
    (h' : ruleOp params fn (some ty) spec free cols' = .ok out') :
    out' = out ∧ out.scalar = true := by
  rw [ruleOp_declared] at h h'
  obtain ⟨n?, _, h⟩ := bind_ok h
  obtain ⟨raw, hraw, h⟩ := bind_ok h
  obtain ⟨rs, hrs, h⟩ := bind_ok h
  obtain ⟨o, ho, hfin⟩ := bind_ok h
  obtain ⟨n?', _, h'⟩ := bind_ok h'
  obtain ⟨raw', hraw', h'⟩ := bind_ok h'
  obtain ⟨rs', hrs', h'⟩ := bind_ok h'
  obtain ⟨o', ho', hfin'⟩ := bind_ok h'
  have hs := finish_scalar hfin (mkOut_scalar ho (Or.inl hE))
  obtain ⟨v, r, hv, hr, rfl⟩ := un_noargs_first hE hraw hrs ho
  obtain ⟨v', r', hv', hr', rfl⟩ := un_noargs_first hE hraw' hrs' ho'
  rw [rowFn_noargs params fn free cols' cols 0 0 hE, hv] at hv'
  cases hv'
  rw [hr] at hr'
  cases hr'
  rw [hfin] at hfin'
  cases hfin'
  exact ⟨rfl, hs⟩

/-- both forms together: if the rule succeeds on the table and on the gathered rows, the second
result is the gathered first result -/
theorem un_ruleOp_gather_both {n : Nat} {σ : List Nat} (hv : ∀ i ∈ σ, i < n)
    {params : List (String × Val)} {fn : FunDef} {ty : Ty} {spec : Option RSpec}
    {free : List String} {cols : List Col} {out out' : Col} (hcols : ColsOK n cols)
    (h : ruleOp params fn (some ty) spec free cols = .ok out)
    (h' : ruleOp params fn (some ty) spec free (cols.map (Col.permute σ)) = .ok out') :
    out' = out.permute σ := by
  by_cases hE : fn.args = []
  · obtain ⟨h1, h2⟩ := un_ruleOp_noargs hE h h'
    rw [Col.permute_of_scalar h2, h1]
  · rw [un_ruleOp_gather hv hE hcols h] at h'
    cases h'
    rfl

/-! ## grouped aggregation on a block of rows -/

theorem un_members_mid {α : Type} (p q s : List Int) (p' q' s' : List α)
    (hp : p.length = p'.length) (hq : q.length = q'.length) (g : Int) (h1 : g ∉ p) (h2 : g ∉ s) :
    Agg.members (p ++ (q ++ s)) (p' ++ (q' ++ s')) g = Agg.members q q' g := by
  rw [Dag.members_append _ _ _ _ g hp, Dag.members_append _ _ _ _ g hq,
    Dag.members_not_mem p p' g h1, Dag.members_not_mem s s' g h2]
  simp

/-- a group all of whose rows lie in the block `[a, a+m)` has the same members in the block -/
theorem un_members_win {α : Type} (gid : List Int) (col : List α) (hlen : gid.length = col.length)
    (a m : Nat) (g : Int) (h1 : g ∉ gid.take a) (h2 : g ∉ gid.drop (a + m)) :
    Agg.members gid col g = Agg.members ((gid.drop a).take m) ((col.drop a).take m) g := by
  have := un_members_mid (gid.take a) ((gid.drop a).take m) (gid.drop (a + m))
    (col.take a) ((col.drop a).take m) (col.drop (a + m)) (by simp [hlen]) (by simp [hlen]) g h1 h2
  rw [un_split3, un_split3] at this
  exact this

/-- the generic grouped reduction restricted to a block of rows whose group ids occur nowhere else
is the reduction of the block (no algebraic property of `f` is needed: the order is kept) -/
theorem un_grouped_win {α : Type} [Inhabited α] (f : α → α → α) (dflt : α) {n a m : Nat}
    (ham : a + m ≤ n) (col : List α) (gid : List Int) (res : List α) (hcol : col.length = n)
    (hgid : gid.length = n) (hsep : un_Sep a m gid) (h : Agg.grouped f dflt col gid = .ok res) :
    Agg.grouped f dflt (permList (un_win a m) col) (permList (un_win a m) gid) =
      .ok (permList (un_win a m) res) ∧ res.length = n := by
  have hwf := Dag.grouped_ok_wf f dflt col gid res h
  have hres := Agg.grouped_ok_eq f dflt col gid res h
  have hrl : res.length = n := by rw [hres]; simp [hgid]
  rw [un_permList_win a m col (by omega), un_permList_win a m gid (by omega),
    un_permList_win a m res (by omega)]
  have hwf' : Agg.WF ((gid.drop a).take m) ((col.drop a).take m) :=
    ⟨by simp [hcol, hgid], fun g hg => hwf.2 g (List.mem_of_mem_drop (List.mem_of_mem_take hg))⟩
  rw [Agg.grouped_eq f dflt _ _ hwf']
  refine ⟨?_, hrl⟩
  congr 1
  rw [hres, ← List.map_drop, ← List.map_take]
  apply List.map_congr_left
  intro g hg
  rw [un_members_win gid col hwf.1 a m g (hsep g hg).1 (hsep g hg).2]

theorem un_groupedCount_win {n a m : Nat} (ham : a + m ≤ n) (gid : List Int) (res : List Int)
    (hgid : gid.length = n) (hsep : un_Sep a m gid) (h : Agg.groupedCount gid = .ok res) :
    Agg.groupedCount (permList (un_win a m) gid) = .ok (permList (un_win a m) res) ∧
      res.length = n := by
  unfold Agg.groupedCount at h ⊢
  have := un_grouped_win (· + ·) (0 : Int) ham _ gid res (by simp [hgid]) hgid hsep h
  rw [permList_map _ gid _ (by rw [hgid]; exact un_win_valid ham)] at this
  exact this

theorem un_groupedMean_win {n a m : Nat} (ham : a + m ≤ n) (col : List Rat) (gid : List Int)
    (res : List Rat) (hcol : col.length = n) (hgid : gid.length = n) (hsep : un_Sep a m gid)
    (h : Agg.groupedMean col gid = .ok res) :
    Agg.groupedMean (permList (un_win a m) col) (permList (un_win a m) gid) =
      .ok (permList (un_win a m) res) ∧ res.length = n := by
  unfold Agg.groupedMean at h ⊢
  obtain ⟨s, hs, h⟩ := bind_ok h
  obtain ⟨c, hcnt, h⟩ := bind_ok h
  cases h
  have hs' := un_grouped_win (· + ·) (0 : Rat) ham col gid s hcol hgid hsep hs
  have hc' := un_groupedCount_win ham gid c hgid hsep hcnt
  have hv := un_win_valid ham
  rw [show Agg.groupedSum (permList (un_win a m) col) (permList (un_win a m) gid) = _ from hs'.1,
    ok_bind, hc'.1, ok_bind]
  refine ⟨?_, by simp [hs'.2, hc'.2]⟩
  rw [permList_zipWith _ _ s c (by rw [hs'.2]; exact hv) (by rw [hc'.2]; exact hv)]
  rfl

theorem un_aggBody_win {n a m : Nat} (ham : a + m ≤ n) (ag : Aggr)
    {col gid out : Col} (hcs : col.scalar = false) (hcl : col.vals.length = n)
    (hgs : gid.scalar = false) (hgl : gid.vals.length = n) (hsep : un_Sep a m gid.ints)
    (h : aggBody ag col gid = .ok out) :
    aggBody ag (col.permute (un_win a m)) (gid.permute (un_win a m)) =
      .ok (out.permute (un_win a m)) ∧ ColOK n out := by
  have hv := un_win_valid ham
  have hr := Col.rats_permute hv hcs hcl
  have hi := Col.ints_permute hv hgs hgl
  have hb := Col.bools_permute hv hcs hcl
  have hrl : col.rats.length = n := by simp [Col.rats, hcl]
  have hil : gid.ints.length = n := by simp [Col.ints, hgl]
  have hbl : col.bools.length = n := by simp [Col.bools, hcl]
  cases ag <;> simp only [aggBody, Col.dt_permute, hr, hi, hb] at h ⊢
  · exact agg_finish hv _ _ _ _ (fun r hr => un_grouped_win _ _ ham _ _ r hrl hil hsep hr) h
  · exact agg_finish hv _ _ _ _ (fun r hr => un_groupedMean_win ham _ _ r hrl hil hsep hr) h
  · exact agg_finish hv _ _ _ _ (fun r hr => un_grouped_win _ _ ham _ _ r hrl hil hsep hr) h
  · exact agg_finish hv _ _ _ _ (fun r hr => un_grouped_win _ _ ham _ _ r hrl hil hsep hr) h
  · exact agg_finish hv _ _ _ _ (fun r hr => un_grouped_win _ _ ham _ _ r hbl hil hsep hr) h
  · exact agg_finish hv _ _ _ _ (fun r hr => un_grouped_win _ _ ham _ _ r hbl hil hsep hr) h
  · cases h

theorem un_groupAggOp_two_win {n a m : Nat} (ham : a + m ≤ n) (ag : Aggr)
    {col gid out : Col} (hcols : ColsOK n [col, gid])
    (hsep : gid.scalar = false → un_Sep a m gid.ints)
    (h : groupAggOp ag [col, gid] = .ok out) :
    groupAggOp ag [col.permute (un_win a m), gid.permute (un_win a m)] =
      .ok (out.permute (un_win a m)) ∧ ColOK n out := by
  rw [groupAggOp_two] at h ⊢
  rw [aggGuard_permute]
  cases hg : aggGuard ag col gid with
  | some e => rw [hg] at h; cases h
  | none =>
    rw [hg] at h
    simp only at h ⊢
    have hgs := aggGuard_none hg
    have hgl := hcols gid (by simp) hgs
    obtain ⟨hb1, hb2, hb3⟩ :=
      bcast_permute (σ := un_win a m) (un_win_valid ham) hgs hgl (hcols col (by simp))
    rw [hb1]
    exact un_aggBody_win ham ag hb2 hb3 hgs hgl (hsep hgs) h

theorem un_groupAggOp_one_win {n a m : Nat} (ham : a + m ≤ n) (ag : Aggr)
    {gid out : Col} (hcols : ColsOK n [gid]) (hsep : gid.scalar = false → un_Sep a m gid.ints)
    (h : groupAggOp ag [gid] = .ok out) :
    groupAggOp ag [gid.permute (un_win a m)] = .ok (out.permute (un_win a m)) ∧ ColOK n out := by
  unfold groupAggOp at h ⊢
  simp only [Col.shape_permute, Col.dt_permute, Col.scalar_permute] at h ⊢
  split_ifs at h ⊢ with h1 h2 h3 h4
  have hgs : gid.scalar = false := by simpa using h4
  have hgl := hcols gid (by simp) hgs
  have hv := un_win_valid ham
  rw [Col.ints_permute hv hgs hgl]
  exact agg_finish hv _ _ _ _
    (fun r hr => un_groupedCount_win ham _ r (by simp [Col.ints, hgl]) (hsep hgs) hr) h

/-- list form, for the lifting through the DAG: the group id is the LAST argument -/
theorem un_groupAggOp_win_list {n a m : Nat} (ham : a + m ≤ n) (ag : Aggr)
    {cols : List Col} {out : Col} (hcols : ColsOK n cols)
    (hsep : ∀ gid, cols.getLast? = some gid → gid.scalar = false → un_Sep a m gid.ints)
    (h : groupAggOp ag cols = .ok out) :
    groupAggOp ag (cols.map (Col.permute (un_win a m))) = .ok (out.permute (un_win a m)) ∧
      ColOK n out := by
  match cols, hcols, hsep, h with
  | [], _, _, h => cases h
  | [gid], hcols, hsep, h => exact un_groupAggOp_one_win ham ag hcols (hsep gid rfl) h
  | [col, gid], hcols, hsep, h => exact un_groupAggOp_two_win ham ag hcols (hsep gid rfl) h
  | _ :: _ :: _ :: _, _, _, h => cases h

/-! ## `sum_by_p_id` on a block of rows -/

/-- the block `[a, a+m)` is closed under the pointer column: the pointers of its rows are negative
or p_ids of the block, and no row outside the block points to a (non-negative) p_id of the block -/
def un_PtrClosed (a m : Nat) (ptr pid : List Int) : Prop :=
  (∀ x ∈ (ptr.drop a).take m, 0 ≤ x → x ∈ (pid.drop a).take m) ∧
  (∀ x ∈ (pid.drop a).take m, 0 ≤ x → x ∉ ptr.take a ∧ x ∉ ptr.drop (a + m))

theorem un_sumByPid_win {n a m : Nat} (ham : a + m ≤ n) (col : List Rat) (ptr pid : List Int)
    (res : List Rat) (hnd : pid.Nodup) (hcol : col.length = n) (hptr : ptr.length = n)
    (hpid : pid.length = n) (hcl : un_PtrClosed a m ptr pid)
    (h : Agg.sumByPid col ptr pid = .ok res) :
    Agg.sumByPid (permList (un_win a m) col) (permList (un_win a m) ptr) (permList (un_win a m) pid) =
      .ok (permList (un_win a m) res) ∧ res.length = n := by
  obtain ⟨hlen, hmem⟩ := sumByPid_ok_inv h
  rw [Agg.sumByPid_spec col ptr pid hnd hlen hmem] at h
  cases h
  rw [un_permList_win a m col (by omega), un_permList_win a m ptr (by omega),
    un_permList_win a m pid (by omega), un_permList_win a m _ (by simp; omega)]
  have hnd' : ((pid.drop a).take m).Nodup :=
    List.Nodup.sublist ((List.take_sublist _ _).trans (List.drop_sublist _ _)) hnd
  rw [Agg.sumByPid_spec _ _ _ hnd' (by simp [hcol, hptr]) hcl.1]
  refine ⟨?_, by simp [hpid]⟩
  congr 1
  rw [← List.map_drop, ← List.map_take]
  apply List.map_congr_left
  intro p hp
  by_cases h0 : 0 ≤ p
  · rw [if_pos h0, if_pos h0,
      un_members_win ptr col hlen a m p (hcl.2 p hp h0).1 (hcl.2 p hp h0).2]
  · rw [if_neg h0, if_neg h0]

theorem un_pidSumOp_three_win {n a m : Nat} (ham : a + m ≤ n)
    {col ptr pid out : Col} (hcols : ColsOK n [col, ptr, pid]) (hnd : pid.ints.Nodup)
    (hcl : ptr.scalar = false → pid.scalar = false → un_PtrClosed a m ptr.ints pid.ints)
    (h : pidSumOp [col, ptr, pid] = .ok out) :
    pidSumOp [col.permute (un_win a m), ptr.permute (un_win a m), pid.permute (un_win a m)] =
      .ok (out.permute (un_win a m)) ∧ ColOK n out := by
  have hv := un_win_valid ham
  rw [pidSumOp_three] at h ⊢
  rw [pidGuard_permute]
  cases hg : pidGuard col ptr pid with
  | some e => rw [hg] at h; cases h
  | none =>
    rw [hg] at h
    simp only [Col.scalar_permute] at h ⊢
    obtain ⟨hps, hqs⟩ := pidGuard_none hg
    have hpl := hcols ptr (by simp) hps
    have hql := hcols pid (by simp) hqs
    cases hcs : col.scalar with
    | true =>
      -- a 0-d source column: only possible if no pointer is valid
      rw [hcs] at h
      simp only [if_true, pidScalarBody, pidDt, Col.dt_permute] at h ⊢
      cases hf : ptr.ints.find? (· ≥ 0) with
      | some r =>
        rw [hf] at h
        simp only at h
        split_ifs at h
      | none =>
        rw [hf] at h
        cases h
        have hf' : (ptr.permute (un_win a m)).ints.find? (· ≥ 0) = none := by
          rw [Col.ints_permute hv hps hpl, List.find?_eq_none]
          intro x hx
          exact (List.find?_eq_none.1 hf) x
            (permList_mem _ _ (by simp only [Col.ints, List.length_map, hpl]; exact hv) x hx)
        rw [hf']
        simp only [Col.vals_permute_of_arr hqs]
        rw [Col.permute_of_arr (by rfl)]
        refine ⟨?_, fun _ => by simp [hql]⟩
        simp only [permList_map _ pid.vals _ (by rw [hql]; exact hv)]
    | false =>
      rw [hcs] at h
      have hcl' := hcols col (by simp) hcs
      simp only [Bool.false_eq_true, if_false, pidArrBody, Col.dt_permute] at h ⊢
      rw [Col.rats_permute hv hcs hcl', Col.ints_permute hv hps hpl, Col.ints_permute hv hqs hql]
      exact agg_finish hv _ _ _ _
        (fun r hr => un_sumByPid_win ham _ _ _ r hnd (by simp [Col.rats, hcl'])
          (by simp [Col.ints, hpl]) (by simp [Col.ints, hql]) (hcl hps hqs) hr) h

/-- list form, for the lifting through the DAG -/
theorem un_pidSumOp_win_list {n a m : Nat} (ham : a + m ≤ n)
    {cols : List Col} {out : Col} (hcols : ColsOK n cols)
    (hnd : ∀ pid, cols[2]? = some pid → pid.ints.Nodup)
    (hcl : ∀ ptr pid, cols[1]? = some ptr → cols[2]? = some pid → ptr.scalar = false →
      pid.scalar = false → un_PtrClosed a m ptr.ints pid.ints)
    (h : pidSumOp cols = .ok out) :
    pidSumOp (cols.map (Col.permute (un_win a m))) = .ok (out.permute (un_win a m)) ∧ ColOK n out := by
  match cols, hcols, hnd, hcl, h with
  | [], _, _, _, h => cases h
  | [_], _, _, _, h => cases h
  | [_, _], _, _, _, h => cases h
  | [col, ptr, pid], hcols, hnd, hcl, h =>
    exact un_pidSumOp_three_win ham hcols (hnd pid rfl) (hcl ptr pid rfl rfl) h
  | _ :: _ :: _ :: _ :: _, _, _, _, h => cases h

/-! ## lifting through the DAG -/

def Kind.un_isGroupAgg : Kind → Bool
  | .groupAgg _ _ _ => true
  | _ => false

/-- what the lift needs to know about a node (semantic form): it is built by `nodeOf` from an
admissible kind; the group id (LAST argument) of a grouped aggregation never evaluates to a column
in which an id of the block `[a, a+m)` occurs outside the block; the third argument of a
`sum_by_p_id` node never evaluates to a column with duplicates, and the block is closed under
its pointer column (second argument) -/
def un_SepNode (params : List (String × Val)) (specs : List (String × RSpec)) (S : Dag.Sys Col)
    (D : Dag.Data Col) (a m : Nat) (node : Dag.Node Col) : Prop :=
  ∃ f, node = nodeOf params specs f ∧ f.kind.permOK = true ∧
    (f.kind.un_isGroupAgg = true → ∀ d, (freeArgs params f).getLast? = some d →
      ∀ k v, Dag.eval S D k d = .ok v → v.scalar = false → un_Sep a m v.ints) ∧
    (f.kind.isPidSum = true → ∀ d, (freeArgs params f)[2]? = some d →
      ∀ k v, Dag.eval S D k d = .ok v → v.ints.Nodup) ∧
    (f.kind.isPidSum = true → ∀ d1 d2, (freeArgs params f)[1]? = some d1 →
      (freeArgs params f)[2]? = some d2 → ∀ k v1 v2, Dag.eval S D k d1 = .ok v1 →
        Dag.eval S D k d2 = .ok v2 → v1.scalar = false → v2.scalar = false →
          un_PtrClosed a m v1.ints v2.ints)

theorem un_SepNode.good {params : List (String × Val)} {specs : List (String × RSpec)}
    {S : Dag.Sys Col} {D : Dag.Data Col} {a m : Nat} {node : Dag.Node Col}
    (h : un_SepNode params specs S D a m node) : GoodNode params specs S D node := by
  obtain ⟨f, hf, hk, _, hnd, _⟩ := h
  exact ⟨f, hf, hk, hnd⟩

/-- every admissible node operation commutes with the restriction to a closed block of rows -/
theorem un_nodeOf_win {n a m : Nat} (ham : a + m ≤ n)
    (params : List (String × Val)) (specs : List (String × RSpec)) (f : Fn)
    (hk : f.kind.permOK = true) {args : List Col} {out outA : Col} (hargs : ColsOK n args)
    (hgid : f.kind.un_isGroupAgg = true → ∀ gid, args.getLast? = some gid → gid.scalar = false →
      un_Sep a m gid.ints)
    (hnd : f.kind.isPidSum = true → ∀ pid, args[2]? = some pid → pid.ints.Nodup)
    (hcl : f.kind.isPidSum = true → ∀ ptr pid, args[1]? = some ptr → args[2]? = some pid →
      ptr.scalar = false → pid.scalar = false → un_PtrClosed a m ptr.ints pid.ints)
    (h : (nodeOf params specs f).op args = .ok out)
    (hA : (nodeOf params specs f).op (args.map (Col.permute (un_win a m))) = .ok outA) :
    outA = out.permute (un_win a m) := by
  obtain ⟨name, fargs, ann, kind⟩ := f
  cases kind with
  | rule fn ret key =>
    cases ret with
    | none => cases hk
    | some ty => exact un_ruleOp_gather_both (un_win_valid ham) hargs h hA
  | pidSum src ptr =>
    have := (un_pidSumOp_win_list ham hargs (hnd rfl) (hcl rfl) h).1
    rw [show (nodeOf params specs _).op = pidSumOp from rfl, this] at hA
    cases hA; rfl
  | timeConv src u v =>
    have h' : timeConvOp u v args = .ok out := h
    have hA' : timeConvOp u v (args.map (Col.permute (un_win a m))) = .ok outA := hA
    rw [timeConvOp_perm_list (un_win_valid ham) u v args hargs, h'] at hA'
    cases hA'; rfl
  | groupAgg ag src gid =>
    have := (un_groupAggOp_win_list ham ag hargs (hgid rfl) h).1
    rw [show (nodeOf params specs _).op = groupAggOp ag from rfl, this] at hA
    cases hA; rfl
  | grouping g => cases hk

theorem un_forall₂_map {A B : Type} {P Q : A → B → Prop} {g : B → B} {ds : List A}
    {as as' : List B} (h1 : List.Forall₂ P ds as) (h2 : List.Forall₂ Q ds as')
    (hpq : ∀ d b b', P d b → Q d b' → b' = g b) : as' = as.map g := by
  induction h1 generalizing as' with
  | nil => cases h2; rfl
  | cons hp _ ih =>
    cases h2 with
    | cons hq h2 => rw [List.map_cons, hpq _ _ _ hp hq, ih h2]

theorem un_forall₂_getLast? {A B : Type} {P : A → B → Prop} {ds : List A} {as : List B}
    (h : List.Forall₂ P ds as) {b : B} (hb : as.getLast? = some b) :
    ∃ d, ds.getLast? = some d ∧ P d b := by
  rw [List.getLast?_eq_getElem?] at hb ⊢
  rw [h.length_eq]
  exact forall₂_getElem?_right h hb

/-- the lift: if a target is computed on the whole table and on the block `[a, a+m)` alone, the
second value is the restriction of the first -/
theorem un_sys_eval_win {n a m : Nat} (ham : a + m ≤ n)
    (params : List (String × Val)) (specs : List (String × RSpec)) (S : Dag.Sys Col)
    (D : Dag.Data Col)
    (hS : ∀ x node, Dag.find? S x = some node → un_SepNode params specs S D a m node)
    (hD : ColsOK n (D.map (·.2))) :
    ∀ (k : Nat) (t : String) (v vA : Col), Dag.eval S D k t = .ok v →
      Dag.eval S (permData (un_win a m) D) k t = .ok vA → vA = v.permute (un_win a m) := by
  have hrows := sys_eval_perm_aux (σ := List.range n) (List.Perm.refl _) params specs S D
    (fun x node hx => (hS x node hx).good) hD
  intro k
  induction k with
  | zero => intro t v vA h; simp [Dag.eval] at h
  | succ k ih =>
    intro t v vA h hA
    cases hDt : Dag.find? D t with
    | some c =>
      have hD' : Dag.find? (permData (un_win a m) D) t = some (c.permute (un_win a m)) := by
        rw [find?_permData, hDt]; rfl
      rw [Dag.eval_succ_of_data hDt] at h
      rw [Dag.eval_succ_of_data hD'] at hA
      cases h; cases hA; rfl
    | none =>
      have hD' : Dag.find? (permData (un_win a m) D) t = none := by
        rw [find?_permData, hDt]; rfl
      cases hSt : Dag.find? S t with
      | none => rw [Dag.eval_succ_of_missing hDt hSt] at h; cases h
      | some node =>
        obtain ⟨f, rfl, hk, hgid, hnd, hcl⟩ := hS t node hSt
        rw [Dag.eval_succ_of_node hDt hSt] at h
        rw [Dag.eval_succ_of_node hD' hSt] at hA
        obtain ⟨args, hargs, h⟩ := bind_ok h
        obtain ⟨argsA, hargsA, hA⟩ := bind_ok hA
        have hF := (Dag.evalAll_ok_iff _ _ _).1 hargs
        have hFA := (Dag.evalAll_ok_iff _ _ _).1 hargsA
        have hmap : argsA = args.map (Col.permute (un_win a m)) :=
          un_forall₂_map hF hFA (fun d b b' hb hb' => ih d b b' hb hb')
        subst hmap
        have hok : ColsOK n args := by
          intro c hc
          obtain ⟨i, hi⟩ := List.getElem?_of_mem hc
          obtain ⟨d, _, hda⟩ := forall₂_getElem?_right hF hi
          exact (hrows k d c hda).2
        refine un_nodeOf_win ham params specs f hk hok ?_ ?_ ?_ h hA
        · intro hg gid hlast
          obtain ⟨d, hd, hda⟩ := un_forall₂_getLast? hF hlast
          exact hgid hg d hd k gid hda
        · intro hp pid hpid
          obtain ⟨d, hd, hda⟩ := forall₂_getElem?_right hF hpid
          exact hnd hp d hd k pid hda
        · intro hp ptr pid hptr hpid
          obtain ⟨d1, hd1, hda1⟩ := forall₂_getElem?_right hF hptr
          obtain ⟨d2, hd2, hda2⟩ := forall₂_getElem?_right hF hpid
          exact hcl hp d1 d2 hd1 hd2 k ptr pid hda1 hda2

/-! ## the first `nA` rows and the remaining rows -/

/-- no id of the first `nA` rows occurs among the remaining rows -/
def un_IdsSep (nA : Nat) (l : List Int) : Prop := ∀ g ∈ l.take nA, g ∉ l.drop nA

/-- the (non-negative) pointers of the first `nA` rows are p_ids of the first `nA` rows, those of
the remaining rows are p_ids of the remaining rows -/
def un_PtrsClosed (nA : Nat) (ptr pid : List Int) : Prop :=
  (∀ x ∈ ptr.take nA, 0 ≤ x → x ∈ pid.take nA) ∧ (∀ x ∈ ptr.drop nA, 0 ≤ x → x ∈ pid.drop nA)

instance (nA : Nat) (l : List Int) : Decidable (un_IdsSep nA l) := by unfold un_IdsSep; infer_instance
instance (nA : Nat) (ptr pid : List Int) : Decidable (un_PtrsClosed nA ptr pid) := by
  unfold un_PtrsClosed; infer_instance

theorem un_Sep_take {nA : Nat} {l : List Int} (h : un_IdsSep nA l) : un_Sep 0 nA l := by
  intro g hg
  simp only [List.drop_zero, Nat.zero_add, List.take_zero, List.not_mem_nil, not_false_eq_true,
    true_and] at hg ⊢
  exact h g hg

theorem un_Sep_drop {nA nB : Nat} {l : List Int} (hl : l.length ≤ nA + nB) (h : un_IdsSep nA l) :
    un_Sep nA nB l := by
  intro g hg
  have hg' : g ∈ l.drop nA := List.mem_of_mem_take hg
  refine ⟨fun hin => h g hin hg', ?_⟩
  rw [List.drop_of_length_le hl]
  simp

theorem un_nodup_take_drop {l : List Int} (h : l.Nodup) (n : Nat) {x : Int} (h1 : x ∈ l.take n)
    (h2 : x ∈ l.drop n) : False := by
  rw [← List.take_append_drop n l, List.nodup_append] at h
  exact h.2.2 x h1 x h2 rfl

theorem un_PtrClosed_take {nA : Nat} {ptr pid : List Int} (hnd : pid.Nodup)
    (h : un_PtrsClosed nA ptr pid) : un_PtrClosed 0 nA ptr pid := by
  refine ⟨?_, ?_⟩
  · simpa using h.1
  · intro x hx h0
    simp only [List.drop_zero] at hx
    refine ⟨by simp, fun hin => ?_⟩
    simp only [Nat.zero_add] at hin
    exact un_nodup_take_drop hnd nA hx (h.2 x hin h0)

theorem un_PtrClosed_drop {nA nB : Nat} {ptr pid : List Int} (hp : ptr.length ≤ nA + nB)
    (hq : pid.length ≤ nA + nB) (hnd : pid.Nodup) (h : un_PtrsClosed nA ptr pid) :
    un_PtrClosed nA nB ptr pid := by
  have e1 : (ptr.drop nA).take nB = ptr.drop nA := List.take_of_length_le (by simp; omega)
  have e2 : (pid.drop nA).take nB = pid.drop nA := List.take_of_length_le (by simp; omega)
  unfold un_PtrClosed
  rw [e1, e2]
  refine ⟨h.2, fun x hx h0 => ⟨fun hin => un_nodup_take_drop hnd nA (h.1 x hin h0) hx, ?_⟩⟩
  rw [List.drop_of_length_le hp]
  simp

theorem un_shape_of_not_scalar {c : Col} (h : c.scalar = false) : c.shape = .arr := by
  unfold Col.scalar at h
  cases hs : c.shape <;> simp [hs] at h
  rfl

theorem Col.takeRows_of_scalar {n : Nat} {c : Col} (h : c.scalar = true) : c.takeRows n = c := by
  simp [Col.takeRows, h]

theorem Col.dropRows_of_scalar {n : Nat} {c : Col} (h : c.scalar = true) : c.dropRows n = c := by
  simp [Col.dropRows, h]

theorem un_permute_take {N nA : Nat} {c : Col} (hc : ColOK N c) (h : nA ≤ N) :
    c.permute (un_win 0 nA) = c.takeRows nA := by
  cases hs : c.scalar with
  | true => rw [Col.permute_of_scalar hs, Col.takeRows_of_scalar hs]
  | false =>
    rw [Col.permute_of_arr hs, un_permList_win 0 nA _ (by rw [hc hs]; omega)]
    simp [Col.takeRows, hs]

theorem un_permute_drop {nA nB : Nat} {c : Col} (hc : ColOK (nA + nB) c) :
    c.permute (un_win nA nB) = c.dropRows nA := by
  cases hs : c.scalar with
  | true => rw [Col.permute_of_scalar hs, Col.dropRows_of_scalar hs]
  | false =>
    rw [Col.permute_of_arr hs, un_permList_win nA nB _ (Nat.le_of_eq (hc hs).symm),
      List.take_of_length_le (by simp [hc hs])]
    simp [Col.dropRows, hs]

theorem un_map_permute_take {N nA : Nat} {cols : List Col} (hc : ColsOK N cols) (h : nA ≤ N) :
    cols.map (Col.permute (un_win 0 nA)) = cols.map (Col.takeRows nA) :=
  List.map_congr_left fun c hcm => un_permute_take (hc c hcm) h

theorem un_map_permute_drop {nA nB : Nat} {cols : List Col} (hc : ColsOK (nA + nB) cols) :
    cols.map (Col.permute (un_win nA nB)) = cols.map (Col.dropRows nA) :=
  List.map_congr_left fun c hcm => un_permute_drop (hc c hcm)

/-- the first `nA` rows of every data column -/
def un_takeData (nA : Nat) (D : Dag.Data Col) : Dag.Data Col := D.map fun p => (p.1, p.2.takeRows nA)

/-- the rows after the first `nA` rows of every data column -/
def un_dropData (nA : Nat) (D : Dag.Data Col) : Dag.Data Col := D.map fun p => (p.1, p.2.dropRows nA)

theorem un_permData_take {N nA : Nat} {D : Dag.Data Col} (hD : ColsOK N (D.map (·.2))) (h : nA ≤ N) :
    permData (un_win 0 nA) D = un_takeData nA D :=
  List.map_congr_left fun p hp => by
    rw [un_permute_take (hD p.2 (List.mem_map.2 ⟨p, hp, rfl⟩)) h]

theorem un_permData_drop {nA nB : Nat} {D : Dag.Data Col} (hD : ColsOK (nA + nB) (D.map (·.2))) :
    permData (un_win nA nB) D = un_dropData nA D :=
  List.map_congr_left fun p hp => by
    rw [un_permute_drop (hD p.2 (List.mem_map.2 ⟨p, hp, rfl⟩))]

theorem un_ints_takeRows {n : Nat} {c : Col} (hs : c.scalar = false) :
    (c.takeRows n).ints = c.ints.take n := by
  simp [Col.takeRows, hs, Col.ints, List.map_take]

theorem un_ints_dropRows {n : Nat} {c : Col} (hs : c.scalar = false) :
    (c.dropRows n).ints = c.ints.drop n := by
  simp [Col.dropRows, hs, Col.ints, List.map_drop]

/-! ## stacking two tables -/

theorem Col.scalar_append (a b : Col) : (a.append b).scalar = a.scalar := by
  unfold Col.append; split <;> rfl

theorem Col.append_of_arr {a b : Col} (h : a.scalar = false) :
    a.append b = { a with vals := a.vals ++ b.vals } := by
  simp [Col.append, h]

theorem Col.append_of_scalar {a b : Col} (h : a.scalar = true) : a.append b = a := by
  simp [Col.append, h]

theorem un_takeRows_append {nA nB : Nat} {a b : Col} (h : Col.Stackable nA nB a b) :
    (a.append b).takeRows nA = a := by
  unfold Col.Stackable at h
  cases hs : a.scalar with
  | true => rw [Col.append_of_scalar hs, Col.takeRows_of_scalar hs]
  | false =>
    simp only [hs, Bool.false_eq_true, if_false] at h
    have : (a.append b).scalar = false := by rw [Col.scalar_append, hs]
    simp only [Col.takeRows, this, Bool.false_eq_true, if_false]
    simp [Col.append_of_arr hs, ← h.2.2.1]

theorem un_dropRows_append {nA nB : Nat} {a b : Col} (h : Col.Stackable nA nB a b) :
    (a.append b).dropRows nA = b := by
  unfold Col.Stackable at h
  cases hs : a.scalar with
  | true =>
    simp only [hs, if_true] at h
    rw [Col.append_of_scalar hs, Col.dropRows_of_scalar hs, h]
  | false =>
    simp only [hs, Bool.false_eq_true, if_false] at h
    have : (a.append b).scalar = false := by rw [Col.scalar_append, hs]
    simp only [Col.dropRows, this, Bool.false_eq_true, if_false]
    obtain ⟨dt, vals, shape⟩ := b
    have h1 := un_shape_of_not_scalar hs
    have h2 := un_shape_of_not_scalar h.1
    simp only at h h2
    simp [Col.append_of_arr hs, ← h.2.2.1, h.2.1, h1, h2]

theorem un_colOK_append {nA nB : Nat} {a b : Col} (h : Col.Stackable nA nB a b) :
    ColOK (nA + nB) (a.append b) := by
  unfold Col.Stackable at h
  intro hs'
  cases hs : a.scalar with
  | true => rw [Col.scalar_append, hs] at hs'; cases hs'
  | false =>
    simp only [hs, Bool.false_eq_true, if_false] at h
    simp [Col.append_of_arr hs, h.2.2.1, h.2.2.2]

/-- the columns of two tables stacked pointwise -/
def un_appendCols (as bs : List Col) : List Col := List.zipWith Col.append as bs

theorem un_take_appendCols {nA nB : Nat} {as bs : List Col}
    (h : List.Forall₂ (Col.Stackable nA nB) as bs) :
    (un_appendCols as bs).map (Col.takeRows nA) = as := by
  induction h with
  | nil => rfl
  | cons hab _ ih =>
    simp only [un_appendCols, List.zipWith_cons_cons, List.map_cons] at ih ⊢
    rw [un_takeRows_append hab, ih]

theorem un_drop_appendCols {nA nB : Nat} {as bs : List Col}
    (h : List.Forall₂ (Col.Stackable nA nB) as bs) :
    (un_appendCols as bs).map (Col.dropRows nA) = bs := by
  induction h with
  | nil => rfl
  | cons hab _ ih =>
    simp only [un_appendCols, List.zipWith_cons_cons, List.map_cons] at ih ⊢
    rw [un_dropRows_append hab, ih]

theorem un_colsOK_appendCols {nA nB : Nat} {as bs : List Col}
    (h : List.Forall₂ (Col.Stackable nA nB) as bs) : ColsOK (nA + nB) (un_appendCols as bs) := by
  induction h with
  | nil => intro c hc; cases hc
  | cons hab _ ih =>
    intro c hc
    simp only [un_appendCols, List.zipWith_cons_cons, List.mem_cons] at hc
    rcases hc with rfl | hc
    · exact un_colOK_append hab
    · exact ih c hc

/-- two data tables with the same column names stacked -/
def un_appendData (DA DB : Dag.Data Col) : Dag.Data Col :=
  List.zipWith (fun p q => (p.1, p.2.append q.2)) DA DB

/-- the two tables have the same column names in the same order and stackable columns -/
def un_StackableData (nA nB : Nat) (DA DB : Dag.Data Col) : Prop :=
  List.Forall₂ (fun p q => p.1 = q.1 ∧ Col.Stackable nA nB p.2 q.2) DA DB

theorem un_takeData_append {nA nB : Nat} {DA DB : Dag.Data Col} (h : un_StackableData nA nB DA DB) :
    un_takeData nA (un_appendData DA DB) = DA := by
  induction h with
  | nil => rfl
  | cons hab _ ih =>
    simp only [un_takeData, un_appendData, List.zipWith_cons_cons, List.map_cons] at ih ⊢
    rw [un_takeRows_append hab.2, ih]

theorem un_dropData_append {nA nB : Nat} {DA DB : Dag.Data Col} (h : un_StackableData nA nB DA DB) :
    un_dropData nA (un_appendData DA DB) = DB := by
  induction h with
  | nil => rfl
  | cons hab _ ih =>
    simp only [un_dropData, un_appendData, List.zipWith_cons_cons, List.map_cons] at ih ⊢
    rw [un_dropRows_append hab.2, ih, hab.1]

theorem un_colsOK_appendData {nA nB : Nat} {DA DB : Dag.Data Col}
    (h : un_StackableData nA nB DA DB) : ColsOK (nA + nB) ((un_appendData DA DB).map (·.2)) := by
  induction h with
  | nil => intro c hc; cases hc
  | cons hab _ ih =>
    intro c hc
    simp only [un_appendData, List.zipWith_cons_cons, List.map_cons, List.mem_cons] at hc ih
    rcases hc with rfl | hc
    · exact un_colOK_append hab.2
    · exact ih c hc

/-! ## the separation hypothesis for "first `nA` rows / remaining rows" -/

/-- SEPARATION (semantic form): the node is built by `nodeOf` from an admissible kind
(`Kind.permOK`); the group id (LAST argument) of a grouped aggregation never evaluates to a column
in which an id of the first `nA` rows occurs among the remaining rows; the third argument (`p_id`)
of a `sum_by_p_id` node never evaluates to a column with duplicates; and its pointer column
(second argument) points from the first `nA` rows only to p_ids of the first `nA` rows and from the
remaining rows only to p_ids of the remaining rows (or is negative) -/
def un_UnionNode (params : List (String × Val)) (specs : List (String × RSpec)) (S : Dag.Sys Col)
    (D : Dag.Data Col) (nA : Nat) (node : Dag.Node Col) : Prop :=
  ∃ f, node = nodeOf params specs f ∧ f.kind.permOK = true ∧
    (f.kind.un_isGroupAgg = true → ∀ d, (freeArgs params f).getLast? = some d →
      ∀ k v, Dag.eval S D k d = .ok v → un_IdsSep nA v.ints) ∧
    (f.kind.isPidSum = true → ∀ d, (freeArgs params f)[2]? = some d →
      ∀ k v, Dag.eval S D k d = .ok v → v.ints.Nodup) ∧
    (f.kind.isPidSum = true → ∀ d1 d2, (freeArgs params f)[1]? = some d1 →
      (freeArgs params f)[2]? = some d2 → ∀ k v1 v2, Dag.eval S D k d1 = .ok v1 →
        Dag.eval S D k d2 = .ok v2 → un_PtrsClosed nA v1.ints v2.ints)

theorem un_UnionNode.good {params : List (String × Val)} {specs : List (String × RSpec)}
    {S : Dag.Sys Col} {D : Dag.Data Col} {nA : Nat} {node : Dag.Node Col}
    (h : un_UnionNode params specs S D nA node) : GoodNode params specs S D node := by
  obtain ⟨f, hf, hk, _, hnd, _⟩ := h
  exact ⟨f, hf, hk, hnd⟩

theorem un_UnionNode.sep_take {params : List (String × Val)} {specs : List (String × RSpec)}
    {S : Dag.Sys Col} {D : Dag.Data Col} {nA : Nat} {node : Dag.Node Col}
    (h : un_UnionNode params specs S D nA node) : un_SepNode params specs S D 0 nA node := by
  obtain ⟨f, hf, hk, hgid, hnd, hcl⟩ := h
  refine ⟨f, hf, hk, ?_, hnd, ?_⟩
  · intro hg d hd k v hv _
    exact un_Sep_take (hgid hg d hd k v hv)
  · intro hp d1 d2 hd1 hd2 k v1 v2 hv1 hv2 _ _
    exact un_PtrClosed_take (hnd hp d2 hd2 k v2 hv2) (hcl hp d1 d2 hd1 hd2 k v1 v2 hv1 hv2)

theorem un_ints_length {n : Nat} {c : Col} (hc : ColOK n c) (hs : c.scalar = false) :
    c.ints.length = n := by
  simp [Col.ints, hc hs]

theorem un_UnionNode.sep_drop {params : List (String × Val)} {specs : List (String × RSpec)}
    {S : Dag.Sys Col} {D : Dag.Data Col} {nA nB : Nat} {node : Dag.Node Col}
    (hrows : ∀ k d v, Dag.eval S D k d = .ok v → ColOK (nA + nB) v)
    (h : un_UnionNode params specs S D nA node) : un_SepNode params specs S D nA nB node := by
  obtain ⟨f, hf, hk, hgid, hnd, hcl⟩ := h
  refine ⟨f, hf, hk, ?_, hnd, ?_⟩
  · intro hg d hd k v hv hs
    exact un_Sep_drop (Nat.le_of_eq (un_ints_length (hrows k d v hv) hs)) (hgid hg d hd k v hv)
  · intro hp d1 d2 hd1 hd2 k v1 v2 hv1 hv2 hs1 hs2
    exact un_PtrClosed_drop (Nat.le_of_eq (un_ints_length (hrows k d1 v1 hv1) hs1))
      (Nat.le_of_eq (un_ints_length (hrows k d2 v2 hv2) hs2)) (hnd hp d2 hd2 k v2 hv2)
      (hcl hp d1 d2 hd1 hd2 k v1 v2 hv1 hv2)

/-- SEPARATION (data form, the situation of the real code): the group id of every grouped
aggregation is a DATA column (`hh_id`, …) whose values on the first `nA` rows and on the remaining
rows are disjoint; the third argument of every `sum_by_p_id` node is a data column (`p_id`) without
duplicates; its second argument is a data column (`p_id_…`) that is closed on both parts -/
def un_UnionNodeData (params : List (String × Val)) (specs : List (String × RSpec))
    (D : Dag.Data Col) (nA : Nat) (node : Dag.Node Col) : Prop :=
  ∃ f, node = nodeOf params specs f ∧ f.kind.permOK = true ∧
    (f.kind.un_isGroupAgg = true → ∀ d, (freeArgs params f).getLast? = some d →
      ∃ c, Dag.find? D d = some c ∧ un_IdsSep nA c.ints) ∧
    (f.kind.isPidSum = true → ∀ d, (freeArgs params f)[2]? = some d →
      ∃ c, Dag.find? D d = some c ∧ c.ints.Nodup) ∧
    (f.kind.isPidSum = true → ∀ d1 d2, (freeArgs params f)[1]? = some d1 →
      (freeArgs params f)[2]? = some d2 → ∃ c1 c2, Dag.find? D d1 = some c1 ∧
        Dag.find? D d2 = some c2 ∧ un_PtrsClosed nA c1.ints c2.ints)

theorem un_eval_data {S : Dag.Sys Col} {D : Dag.Data Col} {d : String} {c v : Col} {k : Nat}
    (hc : Dag.find? D d = some c) (hv : Dag.eval S D k d = .ok v) : v = c := by
  cases k with
  | zero => simp [Dag.eval] at hv
  | succ k =>
    rw [Dag.eval_succ_of_data hc] at hv
    cases hv
    rfl

theorem un_UnionNodeData.node {params : List (String × Val)} {specs : List (String × RSpec)}
    {D : Dag.Data Col} {nA : Nat} {node : Dag.Node Col}
    (h : un_UnionNodeData params specs D nA node) (S : Dag.Sys Col) :
    un_UnionNode params specs S D nA node := by
  obtain ⟨f, hf, hk, hgid, hnd, hcl⟩ := h
  refine ⟨f, hf, hk, ?_, ?_, ?_⟩
  · intro hg d hd k v hv
    obtain ⟨c, hc, hsep⟩ := hgid hg d hd
    rw [un_eval_data hc hv]
    exact hsep
  · intro hp d hd k v hv
    obtain ⟨c, hc, hn⟩ := hnd hp d hd
    rw [un_eval_data hc hv]
    exact hn
  · intro hp d1 d2 hd1 hd2 k v1 v2 hv1 hv2
    obtain ⟨c1, c2, hc1, hc2, h⟩ := hcl hp d1 d2 hd1 hd2
    rw [un_eval_data hc1 hv1, un_eval_data hc2 hv2]
    exact h

/-- the condition on a list of functions from which every (sub)system inherits `un_UnionNodeData` -/
def un_UnionFns (params : List (String × Val)) (D : Dag.Data Col) (nA : Nat) (fns : List Fn) : Prop :=
  ∀ f ∈ fns, f.kind.permOK = true ∧
    (f.kind.un_isGroupAgg = true → ∀ d, (freeArgs params f).getLast? = some d →
      ∃ c, Dag.find? D d = some c ∧ un_IdsSep nA c.ints) ∧
    (f.kind.isPidSum = true → ∀ d, (freeArgs params f)[2]? = some d →
      ∃ c, Dag.find? D d = some c ∧ c.ints.Nodup) ∧
    (f.kind.isPidSum = true → ∀ d1 d2, (freeArgs params f)[1]? = some d1 →
      (freeArgs params f)[2]? = some d2 → ∃ c1 c2, Dag.find? D d1 = some c1 ∧
        Dag.find? D d2 = some c2 ∧ un_PtrsClosed nA c1.ints c2.ints)

theorem un_subsys_unionNodeData (params : List (String × Val)) (specs : List (String × RSpec))
    (fns : List Fn) (D : Dag.Data Col) (nA : Nat) (S : Dag.Sys Col)
    (hsub : ∀ p ∈ S, p ∈ sysOf params specs fns) (h : un_UnionFns params D nA fns) :
    ∀ x node, Dag.find? S x = some node → un_UnionNodeData params specs D nA node := by
  intro x node hx
  have := hsub _ (Dag.find?_mem _ _ _ hx)
  simp only [sysOf, List.mem_map, Prod.mk.injEq] at this
  obtain ⟨f, hf, _, rfl⟩ := this
  exact ⟨f, rfl, (h f hf).1, (h f hf).2.1, (h f hf).2.2.1, (h f hf).2.2.2⟩

/-- the lift for the first `nA` rows and for the remaining rows -/
theorem un_sys_eval_take_drop {nA nB : Nat}
    (params : List (String × Val)) (specs : List (String × RSpec)) (S : Dag.Sys Col)
    (D : Dag.Data Col)
    (hS : ∀ x node, Dag.find? S x = some node → un_UnionNode params specs S D nA node)
    (hD : ColsOK (nA + nB) (D.map (·.2))) (k : Nat) (t : String) (v : Col)
    (h : Dag.eval S D k t = .ok v) :
    (∀ vA, Dag.eval S (un_takeData nA D) k t = .ok vA → v.takeRows nA = vA) ∧
    (∀ vB, Dag.eval S (un_dropData nA D) k t = .ok vB → v.dropRows nA = vB) := by
  have hrows : ∀ k d v, Dag.eval S D k d = .ok v → ColOK (nA + nB) v := fun k d v hv =>
    (sys_eval_perm_aux (σ := List.range (nA + nB)) (List.Perm.refl _) params specs S D
      (fun x node hx => (hS x node hx).good) hD k d v hv).2
  constructor
  · intro vA hA
    rw [← un_permData_take hD (Nat.le_add_right nA nB)] at hA
    rw [un_sys_eval_win (Nat.le_of_eq (Nat.zero_add nA) |>.trans (Nat.le_add_right nA nB))
      params specs S D (fun x node hx => (hS x node hx).sep_take) hD k t v vA h hA,
      un_permute_take (hrows k t v h) (Nat.le_add_right nA nB)]
  · intro vB hB
    rw [← un_permData_drop hD] at hB
    rw [un_sys_eval_win (Nat.le_refl _) params specs S D
      (fun x node hx => (hS x node hx).sep_drop hrows) hD k t v vB h hB,
      un_permute_drop (hrows k t v h)]

/-! ## success on both parts implies success on the whole table -/

theorem un_mapM_append {A B : Type} (g : A → Except Err B) {l1 l2 : List A} {r1 r2 : List B}
    (h1 : l1.mapM g = .ok r1) (h2 : l2.mapM g = .ok r2) : (l1 ++ l2).mapM g = .ok (r1 ++ r2) := by
  rw [Dag.mapM_ok_iff] at h1 h2 ⊢
  exact List.rel_append h1 h2

theorem un_getD_append_left {α : Type} (l l' : List α) (d : α) (i : Nat) (h : i < l.length) :
    (l ++ l').getD i d = l.getD i d := by
  simp [List.getD_eq_getElem?_getD, List.getElem?_append_left h]

theorem un_getD_append_right {α : Type} (l l' : List α) (d : α) (i : Nat) (h : l.length ≤ i) :
    (l ++ l').getD i d = l'.getD (i - l.length) d := by
  simp [List.getD_eq_getElem?_getD, List.getElem?_append_right h]

theorem un_finish_ok_append {fn : FunDef} {spec : Option RSpec} {dt : DT} {v1 v2 : List R}
    {o1 o2 : Col}
    (h1 : finish fn spec { dt := dt, vals := v1, shape := .arr } = .ok o1)
    (h2 : finish fn spec { dt := dt, vals := v2, shape := .arr } = .ok o2) :
    ∃ o, finish fn spec { dt := dt, vals := v1 ++ v2, shape := .arr } = .ok o := by
  unfold finish at h1 h2 ⊢
  cases spec with
  | none => exact ⟨_, rfl⟩
  | some s =>
    simp only at h1 h2 ⊢
    by_cases hc : finishBad fn s = true
    · rw [if_pos hc] at h1; cases h1
    · rw [if_neg hc] at h1 h2 ⊢
      obtain ⟨w1, hw1, _⟩ := bind_ok h1
      obtain ⟨w2, hw2, _⟩ := bind_ok h2
      rw [un_mapM_append _ hw1 hw2]
      exact ⟨_, rfl⟩

/-- a rule with declared return type that succeeds on the block `[0, nA)` and on the block
`[nA, nA+nB)` succeeds on the whole table -/
theorem un_ruleOp_ok_of_both {nA nB : Nat}
    {params : List (String × Val)} {fn : FunDef} {ty : Ty} {spec : Option RSpec}
    {free : List String} {cols : List Col} {outA outB : Col} (hcols : ColsOK (nA + nB) cols)
    (hA : ruleOp params fn (some ty) spec free (cols.map (Col.permute (un_win 0 nA))) = .ok outA)
    (hB : ruleOp params fn (some ty) spec free (cols.map (Col.permute (un_win nA nB))) = .ok outB) :
    ∃ out, ruleOp params fn (some ty) spec free cols = .ok out := by
  by_cases hf : cols.filter (!·.scalar) = []
  · have hall : ∀ c ∈ cols, c.scalar = true := by
      intro c hc
      have := (List.filter_eq_nil_iff.1 hf) c hc
      simpa using this
    rw [map_permute_of_all_scalar _ cols hall] at hA
    exact ⟨_, hA⟩
  · rw [ruleOp_declared] at hA hB ⊢
    rw [un_broadcastLen_permute, if_neg hf, ok_bind] at hA hB
    rw [broadcastLen_ok hcols, if_neg hf, ok_bind]
    simp only [List.length_range', Option.getD_some] at hA hB ⊢
    obtain ⟨rawA, hrawA, hA⟩ := bind_ok hA
    obtain ⟨rsA, hrsA, hA⟩ := bind_ok hA
    obtain ⟨oA, hoA, hfinA⟩ := bind_ok hA
    obtain ⟨rawB, hrawB, hB⟩ := bind_ok hB
    obtain ⟨rsB, hrsB, hB⟩ := bind_ok hB
    obtain ⟨oB, hoB, hfinB⟩ := bind_ok hB
    rw [Dag.range_mapM_ok_iff] at hrawA hrawB
    have hraw : (List.range (nA + nB)).mapM (rowFn params fn free cols) = .ok (rawA ++ rawB) := by
      rw [Dag.range_mapM_ok_iff]
      refine ⟨by simp [hrawA.1, hrawB.1], fun i hi => ?_⟩
      by_cases hlt : i < nA
      · rw [un_getD_append_left _ _ _ _ (by rw [hrawA.1]; exact hlt), ← hrawA.2 i hlt,
          rowFn_permute params fn (un_win 0 nA) free cols i (by simpa using hlt)]
        simp
      · have hj : i - nA < nB := by omega
        rw [un_getD_append_right _ _ _ _ (by rw [hrawA.1]; omega), hrawA.1, ← hrawB.2 _ hj,
          rowFn_permute params fn (un_win nA nB) free cols (i - nA) (by simpa using hj)]
        congr 1
        simp
        omega
    rw [hraw, ok_bind, un_mapM_append _ hrsA hrsB, ok_bind]
    by_cases hE : fn.args = []
    · obtain ⟨v, r, _, _, rfl⟩ := un_noargs_first (n? := some nA) hE
        ((Dag.range_mapM_ok_iff _ _ _).2 hrawA) hrsA hoA
      have hrs : ∃ rest, rsA = r :: rest := by
        simp only [mkOut, hE, List.isEmpty_nil, if_true] at hoA
        cases rsA with
        | nil => cases hoA
        | cons r' rest =>
          simp only [pure, Except.pure, Except.ok.injEq, Col.mk.injEq, List.cons.injEq, and_true] at hoA
          exact ⟨rest, by rw [hoA.2]⟩
      obtain ⟨rest, rfl⟩ := hrs
      have : mkOut fn ty (some (nA + nB)) (r :: rest ++ rsB) =
          .ok { dt := VecDtype.dtypeOf r, vals := [r], shape := .pyScalar } := by
        simp only [mkOut, hE, List.isEmpty_nil, if_true, List.cons_append]
        rfl
      rw [this, ok_bind]
      exact ⟨_, hfinA⟩
    · rw [mkOut_nonempty ty _ _ hE] at hoA hoB ⊢
      cases hoA
      cases hoB
      rw [ok_bind, List.map_append]
      exact un_finish_ok_append hfinA hfinB

theorem un_mem_parts {nA nB : Nat} {l : List Int} (hl : l.length = nA + nB) {g : Int} (hg : g ∈ l) :
    g ∈ permList (un_win 0 nA) l ∨ g ∈ permList (un_win nA nB) l := by
  rw [un_permList_win 0 nA l (by omega), un_permList_win nA nB l (by omega)]
  have := un_split3 nA nB l
  rw [List.drop_of_length_le (by omega : l.length ≤ nA + nB), List.append_nil] at this
  rw [← this] at hg
  rcases List.mem_append.1 hg with h | h
  · left; simpa using h
  · right; exact h

theorem un_aggBody_nonneg {ag : Aggr} {col gid out : Col} (h : aggBody ag col gid = .ok out) :
    ∀ g ∈ gid.ints, 0 ≤ g := by
  cases ag <;> simp only [aggBody] at h
  · obtain ⟨r, hr, _⟩ := bind_ok h; exact (Dag.grouped_ok_wf _ _ _ _ r hr).2
  · obtain ⟨r, hr, _⟩ := bind_ok h
    unfold Agg.groupedMean at hr
    obtain ⟨s, hs, _⟩ := bind_ok hr
    exact (Dag.grouped_ok_wf _ _ _ _ s hs).2
  · obtain ⟨r, hr, _⟩ := bind_ok h; exact (Dag.grouped_ok_wf _ _ _ _ r hr).2
  · obtain ⟨r, hr, _⟩ := bind_ok h; exact (Dag.grouped_ok_wf _ _ _ _ r hr).2
  · obtain ⟨r, hr, _⟩ := bind_ok h; exact (Dag.grouped_ok_wf _ _ _ _ r hr).2
  · obtain ⟨r, hr, _⟩ := bind_ok h; exact (Dag.grouped_ok_wf _ _ _ _ r hr).2
  · cases h

theorem un_aggBody_ok {ag : Aggr} {col gid : Col} (ha : ag ≠ .count)
    (hl : col.vals.length = gid.vals.length) (hnn : ∀ g ∈ gid.ints, 0 ≤ g) :
    ∃ out, aggBody ag col gid = .ok out := by
  have hr : Agg.WF gid.ints col.rats := ⟨by simp [Col.ints, Col.rats, hl], hnn⟩
  have hb : Agg.WF gid.ints col.bools := ⟨by simp [Col.ints, Col.bools, hl], hnn⟩
  cases ag <;> simp only [aggBody]
  · rw [show Agg.groupedSum col.rats gid.ints = .ok _ from Agg.grouped_eq _ _ _ _ hr]
    exact ⟨_, rfl⟩
  · have : ∃ r, Agg.groupedMean col.rats gid.ints = .ok r := by
      unfold Agg.groupedMean Agg.groupedCount
      rw [show Agg.groupedSum col.rats gid.ints = .ok _ from Agg.grouped_eq _ _ _ _ hr,
        show Agg.grouped (· + ·) (0 : Int) (gid.ints.map fun _ => (1 : Int)) gid.ints = .ok _ from
          Agg.grouped_eq _ _ _ _ ⟨by simp, hnn⟩]
      exact ⟨_, rfl⟩
    obtain ⟨r, hr'⟩ := this
    rw [hr']
    exact ⟨_, rfl⟩
  · rw [show Agg.groupedMax col.rats gid.ints = .ok _ from Agg.grouped_eq _ _ _ _ hr]
    exact ⟨_, rfl⟩
  · rw [show Agg.groupedMin col.rats gid.ints = .ok _ from Agg.grouped_eq _ _ _ _ hr]
    exact ⟨_, rfl⟩
  · rw [show Agg.groupedAny col.bools gid.ints = .ok _ from Agg.grouped_eq _ _ _ _ hb]
    exact ⟨_, rfl⟩
  · rw [show Agg.groupedAll col.bools gid.ints = .ok _ from Agg.grouped_eq _ _ _ _ hb]
    exact ⟨_, rfl⟩
  · exact absurd rfl ha

theorem un_aggGuard_not_count {ag : Aggr} {col gid : Col} (h : aggGuard ag col gid = none) :
    ag ≠ .count := by
  rintro rfl
  unfold aggGuard at h
  simp only [Bool.not_false, if_true] at h
  split_ifs at h

/-- a grouped aggregation that succeeds on the first `nA` rows and on the remaining rows succeeds
on the whole table (the only run-time failure is a negative group id) -/
theorem un_groupAggOp_two_ok_of_both {nA nB : Nat} (ag : Aggr) {col gid outA outB : Col}
    (hcols : ColsOK (nA + nB) [col, gid])
    (hA : groupAggOp ag [col.permute (un_win 0 nA), gid.permute (un_win 0 nA)] = .ok outA)
    (hB : groupAggOp ag [col.permute (un_win nA nB), gid.permute (un_win nA nB)] = .ok outB) :
    ∃ out, groupAggOp ag [col, gid] = .ok out := by
  rw [groupAggOp_two] at hA hB ⊢
  rw [aggGuard_permute] at hA hB
  cases hg : aggGuard ag col gid with
  | some e => rw [hg] at hA; cases hA
  | none =>
    rw [hg] at hA hB
    simp only at hA hB ⊢
    have hgs := aggGuard_none hg
    have hgl := hcols gid (by simp) hgs
    have hvA : ∀ i ∈ un_win 0 nA, i < nA + nB := un_win_valid (by omega)
    have hvB : ∀ i ∈ un_win nA nB, i < nA + nB := un_win_valid (Nat.le_refl _)
    obtain ⟨hb1, hb2, hb3⟩ := bcast_permute hvA hgs hgl (hcols col (by simp))
    obtain ⟨hb1', _, _⟩ := bcast_permute hvB hgs hgl (hcols col (by simp))
    rw [hb1] at hA
    rw [hb1'] at hB
    have hnA := un_aggBody_nonneg hA
    have hnB := un_aggBody_nonneg hB
    rw [Col.ints_permute hvA hgs hgl] at hnA
    rw [Col.ints_permute hvB hgs hgl] at hnB
    refine un_aggBody_ok (un_aggGuard_not_count hg) (by rw [hb3, hgl]) (fun g hgm => ?_)
    rcases un_mem_parts (un_ints_length (hcols gid (by simp)) hgs) hgm with h | h
    · exact hnA g h
    · exact hnB g h

theorem un_groupAggOp_one_ok_of_both {nA nB : Nat} (ag : Aggr) {gid outA outB : Col}
    (hcols : ColsOK (nA + nB) [gid])
    (hA : groupAggOp ag [gid.permute (un_win 0 nA)] = .ok outA)
    (hB : groupAggOp ag [gid.permute (un_win nA nB)] = .ok outB) :
    ∃ out, groupAggOp ag [gid] = .ok out := by
  unfold groupAggOp at hA hB ⊢
  simp only [Col.shape_permute, Col.dt_permute, Col.scalar_permute] at hA hB ⊢
  split_ifs at hA hB ⊢ with h1 h2 h3 h4
  have hgs : gid.scalar = false := by simpa using h4
  have hgl := hcols gid (by simp) hgs
  have hvA : ∀ i ∈ un_win 0 nA, i < nA + nB := un_win_valid (by omega)
  have hvB : ∀ i ∈ un_win nA nB, i < nA + nB := un_win_valid (Nat.le_refl _)
  obtain ⟨rA, hrA, _⟩ := bind_ok hA
  obtain ⟨rB, hrB, _⟩ := bind_ok hB
  have hnA := (Dag.grouped_ok_wf _ _ _ _ rA hrA).2
  have hnB := (Dag.grouped_ok_wf _ _ _ _ rB hrB).2
  rw [Col.ints_permute hvA hgs hgl] at hnA
  rw [Col.ints_permute hvB hgs hgl] at hnB
  have hnn : ∀ g ∈ gid.ints, 0 ≤ g := fun g hgm => by
    rcases un_mem_parts (un_ints_length (hcols gid (by simp)) hgs) hgm with h | h
    · exact hnA g h
    · exact hnB g h
  unfold Agg.groupedCount
  rw [show Agg.grouped (· + ·) (0 : Int) (gid.ints.map fun _ => (1 : Int)) gid.ints = .ok _ from
    Agg.grouped_eq _ _ _ _ ⟨by simp, hnn⟩]
  exact ⟨_, rfl⟩

theorem un_groupAggOp_ok_of_both_list {nA nB : Nat} (ag : Aggr) {cols : List Col} {outA outB : Col}
    (hcols : ColsOK (nA + nB) cols)
    (hA : groupAggOp ag (cols.map (Col.permute (un_win 0 nA))) = .ok outA)
    (hB : groupAggOp ag (cols.map (Col.permute (un_win nA nB))) = .ok outB) :
    ∃ out, groupAggOp ag cols = .ok out := by
  match cols, hcols, hA, hB with
  | [], _, hA, _ => cases hA
  | [gid], hcols, hA, hB => exact un_groupAggOp_one_ok_of_both ag hcols hA hB
  | [col, gid], hcols, hA, hB => exact un_groupAggOp_two_ok_of_both ag hcols hA hB
  | _ :: _ :: _ :: _, _, hA, _ => cases hA

theorem un_pidScalarBody_ok {col ptr pid o : Col} (h : pidScalarBody col ptr pid = .ok o) :
    ∀ x ∈ ptr.ints, ¬ 0 ≤ x := by
  unfold pidScalarBody at h
  cases hf : ptr.ints.find? (· ≥ 0) with
  | some r => rw [hf] at h; simp only at h; split_ifs at h
  | none => intro x hx; simpa using (List.find?_eq_none.1 hf) x hx

/-- `sum_by_p_id` with a duplicate-free `p_id` that succeeds on the first `nA` rows and on the
remaining rows succeeds on the whole table -/
theorem un_pidSumOp_three_ok_of_both {nA nB : Nat} {col ptr pid outA outB : Col}
    (hcols : ColsOK (nA + nB) [col, ptr, pid]) (hnd : pid.ints.Nodup)
    (hA : pidSumOp [col.permute (un_win 0 nA), ptr.permute (un_win 0 nA), pid.permute (un_win 0 nA)] =
      .ok outA)
    (hB : pidSumOp [col.permute (un_win nA nB), ptr.permute (un_win nA nB),
      pid.permute (un_win nA nB)] = .ok outB) :
    ∃ out, pidSumOp [col, ptr, pid] = .ok out := by
  have hvA : ∀ i ∈ un_win 0 nA, i < nA + nB := un_win_valid (by omega)
  have hvB : ∀ i ∈ un_win nA nB, i < nA + nB := un_win_valid (Nat.le_refl _)
  rw [pidSumOp_three] at hA hB ⊢
  rw [pidGuard_permute] at hA hB
  cases hg : pidGuard col ptr pid with
  | some e => rw [hg] at hA; cases hA
  | none =>
    rw [hg] at hA hB
    simp only [Col.scalar_permute] at hA hB ⊢
    obtain ⟨hps, hqs⟩ := pidGuard_none hg
    have hpl := hcols ptr (by simp) hps
    have hql := hcols pid (by simp) hqs
    have hpil : ptr.ints.length = nA + nB := un_ints_length (hcols ptr (by simp)) hps
    cases hcs : col.scalar with
    | true =>
      rw [hcs] at hA hB
      simp only [if_true] at hA hB ⊢
      have hnA := un_pidScalarBody_ok hA
      have hnB := un_pidScalarBody_ok hB
      rw [Col.ints_permute hvA hps hpl] at hnA
      rw [Col.ints_permute hvB hps hpl] at hnB
      have hf : ptr.ints.find? (· ≥ 0) = none := by
        rw [List.find?_eq_none]
        intro x hx
        rcases un_mem_parts hpil hx with h | h
        · simpa using hnA x h
        · simpa using hnB x h
      unfold pidScalarBody
      rw [hf]
      exact ⟨_, rfl⟩
    | false =>
      rw [hcs] at hA hB
      have hcl := hcols col (by simp) hcs
      simp only [Bool.false_eq_true, if_false, pidArrBody, Col.dt_permute] at hA hB ⊢
      rw [Col.rats_permute hvA hcs hcl, Col.ints_permute hvA hps hpl, Col.ints_permute hvA hqs hql] at hA
      rw [Col.rats_permute hvB hcs hcl, Col.ints_permute hvB hps hpl, Col.ints_permute hvB hqs hql] at hB
      obtain ⟨rA, hrA, _⟩ := bind_ok hA
      obtain ⟨rB, hrB, _⟩ := bind_ok hB
      have hmA := (sumByPid_ok_inv hrA).2
      have hmB := (sumByPid_ok_inv hrB).2
      have hqil : pid.ints.length = nA + nB := un_ints_length (hcols pid (by simp)) hqs
      have hmem : ∀ x ∈ ptr.ints, 0 ≤ x → x ∈ pid.ints := by
        intro x hx h0
        rcases un_mem_parts hpil hx with h | h
        · exact permList_mem _ _ (by rw [hqil]; exact hvA) x (hmA x h h0)
        · exact permList_mem _ _ (by rw [hqil]; exact hvB) x (hmB x h h0)
      rw [Agg.sumByPid_spec col.rats ptr.ints pid.ints hnd (by simp [Col.rats, Col.ints, hpl, hcl]) hmem]
      exact ⟨_, rfl⟩

theorem un_pidSumOp_ok_of_both_list {nA nB : Nat} {cols : List Col} {outA outB : Col}
    (hcols : ColsOK (nA + nB) cols) (hnd : ∀ pid, cols[2]? = some pid → pid.ints.Nodup)
    (hA : pidSumOp (cols.map (Col.permute (un_win 0 nA))) = .ok outA)
    (hB : pidSumOp (cols.map (Col.permute (un_win nA nB))) = .ok outB) :
    ∃ out, pidSumOp cols = .ok out := by
  match cols, hcols, hnd, hA, hB with
  | [], _, _, hA, _ => cases hA
  | [_], _, _, hA, _ => cases hA
  | [_, _], _, _, hA, _ => cases hA
  | [col, ptr, pid], hcols, hnd, hA, hB => exact un_pidSumOp_three_ok_of_both hcols (hnd pid rfl) hA hB
  | _ :: _ :: _ :: _ :: _, _, _, hA, _ => cases hA

theorem un_nodeOf_ok_of_both {nA nB : Nat}
    (params : List (String × Val)) (specs : List (String × RSpec)) (f : Fn)
    (hk : f.kind.permOK = true) {args : List Col} {outA outB : Col}
    (hargs : ColsOK (nA + nB) args)
    (hnd : f.kind.isPidSum = true → ∀ pid, args[2]? = some pid → pid.ints.Nodup)
    (hA : (nodeOf params specs f).op (args.map (Col.permute (un_win 0 nA))) = .ok outA)
    (hB : (nodeOf params specs f).op (args.map (Col.permute (un_win nA nB))) = .ok outB) :
    ∃ out, (nodeOf params specs f).op args = .ok out := by
  obtain ⟨name, fargs, ann, kind⟩ := f
  cases kind with
  | rule fn ret key =>
    cases ret with
    | none => cases hk
    | some ty => exact un_ruleOp_ok_of_both hargs hA hB
  | pidSum src ptr => exact un_pidSumOp_ok_of_both_list hargs (hnd rfl) hA hB
  | timeConv src u v =>
    have hA' : timeConvOp u v (args.map (Col.permute (un_win 0 nA))) = .ok outA := hA
    show ∃ out, timeConvOp u v args = .ok out
    match args, hA' with
    | [], hA' => cases hA'
    | [c], _ => exact ⟨_, timeConvOp_single u v c⟩
    | _ :: _ :: _, hA' => cases hA'
  | groupAgg ag src gid => exact un_groupAggOp_ok_of_both_list ag hargs hA hB
  | grouping g => cases hk

theorem un_evalAll_ok_of_both {evA evB ev : String → Except Err Col}
    (h : ∀ d a b, evA d = .ok a → evB d = .ok b → ∃ v, ev d = .ok v) :
    ∀ (deps : List String) (argsA argsB : List Col), Dag.evalAll evA deps = .ok argsA →
      Dag.evalAll evB deps = .ok argsB → ∃ args, Dag.evalAll ev deps = .ok args := by
  intro deps
  induction deps with
  | nil => intro _ _ _ _; exact ⟨[], rfl⟩
  | cons d ds ih =>
    intro argsA argsB hA hB
    rw [Dag.evalAll_cons] at hA hB ⊢
    obtain ⟨a, ha, hA⟩ := bind_ok hA
    obtain ⟨as, has, _⟩ := bind_ok hA
    obtain ⟨b, hb, hB⟩ := bind_ok hB
    obtain ⟨bs, hbs, _⟩ := bind_ok hB
    obtain ⟨v, hv⟩ := h d a b ha hb
    obtain ⟨vs, hvs⟩ := ih as bs has hbs
    rw [hv, ok_bind, hvs]
    exact ⟨_, rfl⟩

/-- the lift: a target that is computed on the first `nA` rows alone and on the remaining rows
alone is computed on the whole table -/
theorem un_sys_eval_ok_of_both {nA nB : Nat}
    (params : List (String × Val)) (specs : List (String × RSpec)) (S : Dag.Sys Col)
    (D : Dag.Data Col)
    (hS : ∀ x node, Dag.find? S x = some node → un_UnionNode params specs S D nA node)
    (hD : ColsOK (nA + nB) (D.map (·.2))) :
    ∀ (k : Nat) (t : String) (vA vB : Col), Dag.eval S (un_takeData nA D) k t = .ok vA →
      Dag.eval S (un_dropData nA D) k t = .ok vB → ∃ v, Dag.eval S D k t = .ok v := by
  have hrows : ∀ k d v, Dag.eval S D k d = .ok v → ColOK (nA + nB) v := fun k d v hv =>
    (sys_eval_perm_aux (σ := List.range (nA + nB)) (List.Perm.refl _) params specs S D
      (fun x node hx => (hS x node hx).good) hD k d v hv).2
  rw [← un_permData_take hD (Nat.le_add_right nA nB), ← un_permData_drop hD]
  intro k
  induction k with
  | zero => intro t vA vB h; simp [Dag.eval] at h
  | succ k ih =>
    intro t vA vB hA hB
    cases hDt : Dag.find? D t with
    | some c => exact ⟨c, Dag.eval_succ_of_data hDt⟩
    | none =>
      have hDA : Dag.find? (permData (un_win 0 nA) D) t = none := by rw [find?_permData, hDt]; rfl
      have hDB : Dag.find? (permData (un_win nA nB) D) t = none := by rw [find?_permData, hDt]; rfl
      cases hSt : Dag.find? S t with
      | none => rw [Dag.eval_succ_of_missing hDA hSt] at hA; cases hA
      | some node =>
        obtain ⟨f, rfl, hk, _, hnd, _⟩ := hS t node hSt
        rw [Dag.eval_succ_of_node hDA hSt] at hA
        rw [Dag.eval_succ_of_node hDB hSt] at hB
        rw [Dag.eval_succ_of_node hDt hSt]
        obtain ⟨argsA, hargsA, hA⟩ := bind_ok hA
        obtain ⟨argsB, hargsB, hB⟩ := bind_ok hB
        obtain ⟨args, hargs⟩ := un_evalAll_ok_of_both (ev := Dag.eval S D k)
          (fun d a b ha hb => ih d a b ha hb) _ argsA argsB hargsA hargsB
        have hF := (Dag.evalAll_ok_iff _ _ _).1 hargs
        have hFA := (Dag.evalAll_ok_iff _ _ _).1 hargsA
        have hFB := (Dag.evalAll_ok_iff _ _ _).1 hargsB
        have hmapA : argsA = args.map (Col.permute (un_win 0 nA)) :=
          un_forall₂_map hF hFA (fun d b b' hb hb' =>
            un_sys_eval_win (by omega) params specs S D
              (fun x node hx => (hS x node hx).sep_take) hD k d b b' hb hb')
        have hmapB : argsB = args.map (Col.permute (un_win nA nB)) :=
          un_forall₂_map hF hFB (fun d b b' hb hb' =>
            un_sys_eval_win (Nat.le_refl _) params specs S D
              (fun x node hx => (hS x node hx).sep_drop hrows) hD k d b b' hb hb')
        subst hmapA hmapB
        have hok : ColsOK (nA + nB) args := by
          intro c hc
          obtain ⟨i, hi⟩ := List.getElem?_of_mem hc
          obtain ⟨d, _, hda⟩ := forall₂_getElem?_right hF hi
          exact hrows k d c hda
        rw [hargs, ok_bind]
        refine un_nodeOf_ok_of_both params specs f hk hok ?_ hA hB
        intro hp pid hpid
        obtain ⟨d, hd, hda⟩ := forall₂_getElem?_right hF hpid
        exact hnd hp d hd k pid hda

end GV.Simulate
