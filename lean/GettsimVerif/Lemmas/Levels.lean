import GettsimVerif.Core.Levels
/-
Semantics for the constancy analysis of `Core/Levels.lean` (spec vocabulary of C15) and the
helper lemmas of the soundness proof.

* `Pop` (Core)     : a population = number of rows + one group id column per level;
* `Refines gid g' g`: rows in the same `g'`-group are in the same `g`-group;
* `ConstOn gid g c` : rows in the same `g`-group have the same entry in column `c`;
* `NodeSem`, `Sat`  : what a valuation (name ↦ column) must satisfy to be an evaluation of
  the graph.
-/
namespace GV.Levels

/-! ## order facts (finite checks) -/

theorem Level.mem_all (g : Level) : g ∈ Level.all := by cases g <;> decide

theorem refines_refl (g : Level) : refines g g = true := by cases g <;> decide

theorem refines_trans (a b c : Level) (h₁ : refines a b = true) (h₂ : refines b c = true) :
    refines a c = true := by
  revert h₁ h₂
  cases a <;> cases b <;> cases c <;> decide

theorem refines_base (p : Level × Level) (h : p ∈ refinesBase) : refines p.1 p.2 = true := by
  revert p
  decide

/-- `refinesFuel` only relates what every reflexive-transitive relation containing the base
pairs relates -/
theorem refinesFuel_least (R : Level → Level → Prop) (hrefl : ∀ g, R g g)
    (htrans : ∀ a b c, R a b → R b c → R a c) (hbase : ∀ p ∈ refinesBase, R p.1 p.2) :
    ∀ (k : Nat) (a b : Level), refinesFuel k a b = true → R a b := by
  intro k
  induction k with
  | zero =>
    intro a b h
    simp only [refinesFuel, beq_iff_eq] at h
    subst h
    exact hrefl a
  | succ k ih =>
    intro a b h
    simp only [refinesFuel, Bool.or_eq_true, beq_iff_eq, List.any_eq_true,
      Bool.and_eq_true] at h
    rcases h with h | ⟨p, hp, hpa, hpb⟩
    · subst h; exact hrefl a
    · subst hpa
      exact htrans _ _ _ (hbase p hp) (ih _ _ hpb)

theorem mem_down {g' g : Level} : g' ∈ down g ↔ refines g' g = true := by
  simp only [down, List.mem_filter, Level.mem_all, true_and]

/-! ## semantics -/

/-- rows in the same `g'`-group are in the same `g`-group -/
def Refines (gid : Level → List Int) (g' g : Level) : Prop :=
  ∀ (i j : Nat) (a : Int), (gid g')[i]? = some a → (gid g')[j]? = some a →
    ∃ b, (gid g)[i]? = some b ∧ (gid g)[j]? = some b

/-- rows in the same `g`-group have the same entry in `col` -/
def ConstOn {V : Type} (gid : Level → List Int) (g : Level) (col : List V) : Prop :=
  ∀ (i j : Nat) (a : Int), (gid g)[i]? = some a → (gid g)[j]? = some a → col[i]? = col[j]?

/-- a valid population: all id columns have `n` rows, the generating pairs of the refinement
order hold -/
structure Pop.WF (P : Pop) : Prop where
  len : ∀ g, (P.gid g).length = P.n
  base : ∀ p ∈ refinesBase, Refines P.gid p.1 p.2

/-- the row-wise application of `f` to the argument columns (`none` = column too short) -/
def rowwiseCol {V : Type} (n : Nat) (f : List (Option V) → V) (args : List (List V)) : List V :=
  (List.range n).map fun i => f (args.map (·[i]?))

/-- what the column `val n` of a node of kind `kind` satisfies -/
def NodeSem {V : Type} (P : Pop) (val : Name → List V) (n : Name) : Kind → Prop
  | .input (some g) => ConstOn P.gid g (val n)
  | .input none => True
  | .param => ∃ v, val n = List.replicate P.n v
  | .agg g => ConstOn P.gid g (val n)
  | .rowwise args => ∃ f, val n = rowwiseCol P.n f (args.map val)
  | .grouping g => ∃ emb : Int → V, val n = (P.gid g).map emb
  | .timeconv src => ∃ c : V → V, val n = (val src).map c
  | .opaque => True

/-- `val` is an evaluation of `graph` -/
def Sat {V : Type} (P : Pop) (graph : Graph) (val : Name → List V) : Prop :=
  ∀ nk ∈ graph, NodeSem P val nk.1 nk.2

/-! ## lemmas -/

theorem Refines.rfl' (gid : Level → List Int) (g : Level) : Refines gid g g :=
  fun _ _ a hi hj => ⟨a, hi, hj⟩

theorem Refines.trans' {gid : Level → List Int} {a b c : Level} (h₁ : Refines gid a b)
    (h₂ : Refines gid b c) : Refines gid a c := by
  unfold Refines
  intro i j x hi hj
  obtain ⟨y, hi', hj'⟩ := h₁ i j x hi hj
  exact h₂ i j y hi' hj'

theorem Pop.WF.refines {P : Pop} (h : P.WF) {g' g : Level} (hr : refines g' g = true) :
    Refines P.gid g' g :=
  refinesFuel_least (Refines P.gid) (Refines.rfl' _) (fun _ _ _ => Refines.trans') h.base 7 g' g hr

theorem constOn_down {V : Type} {gid : Level → List Int} {g' g : Level} {col : List V}
    (hr : Refines gid g' g) (hc : ConstOn gid g col) : ConstOn gid g' col := by
  unfold ConstOn
  intro i j a hi hj
  obtain ⟨b, hi', hj'⟩ := hr i j a hi hj
  exact hc i j b hi' hj'

theorem lt_of_getElem?_eq_some {α : Type} {l : List α} {i : Nat} {a : α} (h : l[i]? = some a) :
    i < l.length := by
  obtain ⟨h', _⟩ := List.getElem?_eq_some_iff.mp h
  exact h'

theorem rowwiseCol_getElem? {V : Type} (n : Nat) (f : List (Option V) → V) (args : List (List V))
    (i : Nat) (h : i < n) : (rowwiseCol n f args)[i]? = some (f (args.map (·[i]?))) := by
  simp only [rowwiseCol, List.getElem?_map, List.getElem?_range h, Option.map_some]

theorem rowwiseCol_const {V : Type} (P : Pop) (hP : P.WF) (g : Level) (f : List (Option V) → V)
    (args : List (List V)) (h : ∀ c ∈ args, ConstOn P.gid g c) :
    ConstOn P.gid g (rowwiseCol P.n f args) := by
  unfold ConstOn
  intro i j a hi hj
  have hi' : i < P.n := hP.len g ▸ lt_of_getElem?_eq_some hi
  have hj' : j < P.n := hP.len g ▸ lt_of_getElem?_eq_some hj
  rw [rowwiseCol_getElem? _ _ _ _ hi', rowwiseCol_getElem? _ _ _ _ hj']
  congr 2
  apply List.map_congr_left
  intro c hc
  exact h c hc i j a hi hj

theorem replicate_const {V : Type} (P : Pop) (hP : P.WF) (g : Level) (v : V) :
    ConstOn P.gid g (List.replicate P.n v) := by
  unfold ConstOn
  intro i j a hi hj
  have hi' : i < P.n := hP.len g ▸ lt_of_getElem?_eq_some hi
  have hj' : j < P.n := hP.len g ▸ lt_of_getElem?_eq_some hj
  simp only [List.getElem?_replicate, hi', hj', if_true]

theorem gid_const {V : Type} (gid : Level → List Int) (g : Level) (emb : Int → V) :
    ConstOn gid g ((gid g).map emb) := by
  unfold ConstOn
  intro i j a hi hj
  simp only [List.getElem?_map, hi, hj]

theorem map_const {V W : Type} {gid : Level → List Int} {g : Level} {col : List V} (c : V → W)
    (h : ConstOn gid g col) : ConstOn gid g (col.map c) := by
  unfold ConstOn
  intro i j a hi hj
  simp only [List.getElem?_map, h i j a hi hj]

/-- one analysis step is sound if the claims about the nodes read are -/
theorem nodeLevels_sound {V : Type} (P : Pop) (hP : P.WF) (val : Name → List V)
    (look : Name → LSet) (hlook : ∀ a g, g ∈ look a → ConstOn P.gid g (val a))
    (n : Name) (kind : Kind) (hsem : NodeSem P val n kind) :
    ∀ g ∈ nodeLevels look kind, ConstOn P.gid g (val n) := by
  intro g hg
  cases kind with
  | input d =>
    cases d with
    | none => simp only [nodeLevels] at hg; cases hg
    | some g₀ =>
      simp only [nodeLevels, mem_down] at hg
      exact constOn_down (hP.refines hg) hsem
  | param =>
    obtain ⟨v, hv⟩ := hsem
    rw [hv]
    exact replicate_const P hP g v
  | agg g₀ =>
    simp only [nodeLevels, mem_down] at hg
    exact constOn_down (hP.refines hg) hsem
  | rowwise args =>
    obtain ⟨f, hf⟩ := hsem
    rw [hf]
    simp only [nodeLevels, List.mem_filter, List.all_eq_true, List.contains_iff_mem] at hg
    apply rowwiseCol_const P hP g f
    intro c hc
    obtain ⟨a, ha, rfl⟩ := List.mem_map.mp hc
    exact hlook a g (hg.2 a ha)
  | grouping g₀ =>
    obtain ⟨emb, he⟩ := hsem
    simp only [nodeLevels, mem_down] at hg
    rw [he]
    exact constOn_down (hP.refines hg) (gid_const P.gid g₀ emb)
  | timeconv src =>
    obtain ⟨c, hc⟩ := hsem
    simp only [nodeLevels] at hg
    rw [hc]
    exact map_const c (hlook src g hg)
  | «opaque» => simp only [nodeLevels] at hg; cases hg

theorem find?_mem {β : Type} {l : List (Name × β)} {n : Name} {v : β} (h : find? l n = some v) :
    (n, v) ∈ l := by
  induction l with
  | nil => simp only [find?] at h; cases h
  | cons kv rest ih =>
    obtain ⟨k, w⟩ := kv
    simp only [find?] at h
    split at h
    · rename_i hk
      cases h
      subst hk
      exact List.mem_cons_self
    · exact List.mem_cons_of_mem _ (ih h)

/-- every claim in the one-pass table is true -/
theorem constTable_inv {V : Type} (P : Pop) (hP : P.WF) (val : Name → List V) :
    ∀ (graph : Graph) (t : List (Name × LSet)),
      (∀ nk ∈ graph, NodeSem P val nk.1 nk.2) →
      (∀ ns ∈ t, ∀ g ∈ ns.2, ConstOn P.gid g (val ns.1)) →
      ∀ ns ∈ graph.foldl (fun t nk => (nk.1, nodeLevels (lookup t) nk.2) :: t) t,
        ∀ g ∈ ns.2, ConstOn P.gid g (val ns.1) := by
  intro graph
  induction graph with
  | nil => intro t _ ht; simpa only [List.foldl_nil] using ht
  | cons nk rest ih =>
    intro t hsat ht
    simp only [List.foldl_cons]
    apply ih
    · intro nk' h'; exact hsat nk' (List.mem_cons_of_mem _ h')
    · intro ns hns g hg
      rcases List.mem_cons.mp hns with rfl | hns
      · apply nodeLevels_sound P hP val (lookup t) _ nk.1 nk.2 (hsat nk List.mem_cons_self) g hg
        intro a g' hg'
        simp only [lookup] at hg'
        cases hf : find? t a with
        | none => rw [hf] at hg'; simp only [Option.getD_none] at hg'; cases hg'
        | some S =>
          rw [hf] at hg'
          exact ht (a, S) (find?_mem hf) g' hg'
      · exact ht ns hns g hg

/-- the levels reported by `nodeLevels` are downward closed if the ones looked up are -/
theorem nodeLevels_downclosed (look : Name → LSet)
    (hlook : ∀ a g g', g ∈ look a → refines g' g = true → g' ∈ look a) (kind : Kind)
    (g g' : Level) (hg : g ∈ nodeLevels look kind) (hr : refines g' g = true) :
    g' ∈ nodeLevels look kind := by
  cases kind with
  | input d =>
    cases d with
    | none => simp only [nodeLevels] at hg; cases hg
    | some g₀ =>
      simp only [nodeLevels, mem_down] at hg ⊢
      exact refines_trans _ _ _ hr hg
  | param => exact Level.mem_all g'
  | agg g₀ =>
    simp only [nodeLevels, mem_down] at hg ⊢
    exact refines_trans _ _ _ hr hg
  | rowwise args =>
    simp only [nodeLevels, List.mem_filter, List.all_eq_true, List.contains_iff_mem] at hg ⊢
    exact ⟨Level.mem_all g', fun a ha => hlook a g g' (hg.2 a ha) hr⟩
  | grouping g₀ =>
    simp only [nodeLevels, mem_down] at hg ⊢
    exact refines_trans _ _ _ hr hg
  | timeconv src =>
    simp only [nodeLevels] at hg ⊢
    exact hlook src g g' hg hr
  | «opaque» => simp only [nodeLevels] at hg; cases hg

/-! ## the executable checks decide the semantic notions -/

theorem refinesCols_sound (gid : Level → List Int) (g' g : Level)
    (h : refinesCols (gid g') (gid g) = true) : Refines gid g' g := by
  unfold Refines
  intro i j a hi hj
  have hi' := lt_of_getElem?_eq_some hi
  have hj' := lt_of_getElem?_eq_some hj
  simp only [refinesCols, List.all_eq_true, List.mem_range] at h
  have := h i hi' j hj'
  simp only [hi, hj, beq_self_eq_true, Bool.not_true, Bool.false_or, Bool.and_eq_true,
    beq_iff_eq] at this
  obtain ⟨h1, h2⟩ := this
  obtain ⟨b, hb⟩ := Option.isSome_iff_exists.mp h1
  exact ⟨b, hb, h2 ▸ hb⟩

theorem Pop.valid_WF (P : Pop) (h : P.valid = true) : P.WF := by
  simp only [Pop.valid, Bool.and_eq_true, List.all_eq_true, beq_iff_eq] at h
  exact ⟨fun g => h.1 g (Level.mem_all g), fun p hp => refinesCols_sound P.gid p.1 p.2 (h.2 p hp)⟩

theorem constOnCols_iff {V : Type} [DecidableEq V] (gid : Level → List Int) (g : Level)
    (col : List V) : constOnCols (gid g) col = true ↔ ConstOn gid g col := by
  unfold ConstOn
  simp only [constOnCols, List.all_eq_true, List.mem_range, Bool.or_eq_true, Bool.not_eq_true',
    beq_eq_false_iff_ne, beq_iff_eq]
  constructor
  · intro h i j a hi hj
    rcases h i (lt_of_getElem?_eq_some hi) j (lt_of_getElem?_eq_some hj) with h' | h'
    · exact absurd (hi.trans hj.symm) h'
    · exact h'
  · intro h i hi j hj
    by_cases he : (gid g)[i]? = (gid g)[j]?
    · right
      have hi' : (gid g)[i]? = some (gid g)[i] := List.getElem?_eq_getElem hi
      exact h i j _ hi' (he ▸ hi')
    · left; exact he

end GV.Levels
