import GettsimVerif.Core.Sign
import GettsimVerif.Lemmas.Sym
import Mathlib.Algebra.Order.Field.Rat
import Mathlib.Tactic.Ring
import Mathlib.Tactic.Linarith
import Mathlib.Tactic.Positivity
/-
Soundness lemmas for the sign analysis `GV.Sign` (see `Props/C16.lean` for the theorems meant
to be used).
-/
namespace GV.Sign
open GV.Lang GV.Yaml

/-! ### generalities -/

theorem bind_ok {α β : Type} {x : Except Err α} {f : α → Except Err β} {b : β}
    (h : (x >>= f) = .ok b) : ∃ a, x = .ok a ∧ f a = .ok b := by
  cases x with
  | error e => cases h
  | ok a => exact ⟨a, rfl, h⟩

/-! ### the order on `Ord3` -/

theorem ordLt_asymm {a b : Ord3} (h : ordLt a b = true) : ordLt b a = false := by
  cases a <;> cases b <;> simp [ordLt] at h ⊢
  exact le_of_lt h

theorem ordLt_irrefl (a : Ord3) : ordLt a a = false := by
  cases a <;> simp [ordLt]

/-- transitivity of `≤` (written `ordLt · · = false`) -/
theorem ordLe_trans {a b c : Ord3} (h1 : ordLt b a = false) (h2 : ordLt c b = false) :
    ordLt c a = false := by
  cases a <;> cases b <;> cases c <;> simp [ordLt] at h1 h2 ⊢
  linarith

theorem ordLt_of_lt_of_le {a b c : Ord3} (h1 : ordLt a b = true) (h2 : ordLt c b = false) :
    ordLt a c = true := by
  cases a <;> cases b <;> cases c <;> simp [ordLt] at h1 h2 ⊢
  linarith

theorem ordEq_symm (a b : Ord3) : ordEq a b = ordEq b a := by
  cases a <;> cases b <;> simp only [ordEq]
  rw [Bool.eq_iff_iff]
  simp only [decide_eq_true_eq]
  exact eq_comm

theorem ordLt_total {a b : Ord3} (h1 : ordLt a b = false) (h2 : ordLt b a = false) :
    ordEq a b = true := by
  cases a <;> cases b <;> simp [ordLt, ordEq] at h1 h2 ⊢
  linarith

theorem ordEq_not_lt {a b : Ord3} (h : ordEq a b = true) :
    ordLt a b = false ∧ ordLt b a = false := by
  cases a <;> cases b <;> simp [ordLt, ordEq] at h ⊢
  subst h; simp

/-! ### the classes in terms of `ord?` -/

theorem isNonneg_iff_ord {v : Val} :
    IsNonneg v ↔ ∃ o, ord? v = some o ∧ ordLt o (.mid 0) = false := by
  cases v with
  | bool b => cases b <;> simp [IsNonneg, num?, ord?, ordLt]
  | inf n => cases n <;> simp [IsNonneg, num?, ord?, ordLt]
  | int i => simp [IsNonneg, num?, ord?, ordLt]
  | flt q => simp [IsNonneg, num?, ord?, ordLt]
  | str s => simp [IsNonneg, num?, ord?]
  | tree y => simp [IsNonneg, num?, ord?]
  | none => simp [IsNonneg, num?, ord?]

theorem isPos_iff_ord {v : Val} :
    IsPos v ↔ ∃ o, ord? v = some o ∧ ordLt (.mid 0) o = true := by
  cases v with
  | bool b => cases b <;> simp [IsPos, num?, ord?, ordLt]
  | inf n => cases n <;> simp [IsPos, num?, ord?, ordLt]
  | int i => simp [IsPos, num?, ord?, ordLt]
  | flt q => simp [IsPos, num?, ord?, ordLt]
  | str s => simp [IsPos, num?, ord?]
  | tree y => simp [IsPos, num?, ord?]
  | none => simp [IsPos, num?, ord?]

theorem isZero_iff_ord {v : Val} : IsZero v ↔ ord? v = some (.mid 0) := by
  cases v with
  | bool b => cases b <;> simp [IsZero, num?, ord?]
  | inf n => cases n <;> simp [IsZero, num?, ord?]
  | int i => simp [IsZero, num?, ord?]
  | flt q => simp [IsZero, num?, ord?]
  | str s => simp [IsZero, num?, ord?]
  | tree y => simp [IsZero, num?, ord?]
  | none => simp [IsZero, num?, ord?]

/-! ### `numLe` -/

theorem numLe_refl {v : Val} {o : Ord3} (h : ord? v = some o) : numLe v v :=
  ⟨o, o, h, h, ordLt_irrefl o⟩

theorem numLe_trans {u v w : Val} (h1 : numLe u v) (h2 : numLe v w) : numLe u w := by
  obtain ⟨a, b, ha, hb, hab⟩ := h1
  obtain ⟨b', c, hb', hc, hbc⟩ := h2
  rw [hb] at hb'
  cases hb'
  exact ⟨a, c, ha, hc, ordLe_trans hab hbc⟩

theorem numLe_of_ord_eq {u u' t : Val} (h : numLe u t) (he : ord? u' = ord? u) : numLe u' t := by
  obtain ⟨a, b, ha, hb, hab⟩ := h
  exact ⟨a, b, he.trans ha, hb, hab⟩

theorem isNonneg_mono {u v : Val} (hu : IsNonneg u) (h : numLe u v) : IsNonneg v := by
  rw [isNonneg_iff_ord] at hu ⊢
  obtain ⟨o, ho, h0⟩ := hu
  obtain ⟨a, b, ha, hb, hab⟩ := h
  rw [ho] at ha
  cases ha
  exact ⟨b, hb, ordLe_trans h0 hab⟩

theorem isPos_mono {u v : Val} (hu : IsPos u) (h : numLe u v) : IsPos v := by
  rw [isPos_iff_ord] at hu ⊢
  obtain ⟨o, ho, h0⟩ := hu
  obtain ⟨a, b, ha, hb, hab⟩ := h
  rw [ho] at ha
  cases ha
  exact ⟨b, hb, ordLt_of_lt_of_le h0 hab⟩

theorem isPos_nonneg {v : Val} (h : IsPos v) : IsNonneg v := by
  rcases h with ⟨q, fl, h, hq⟩ | h
  · exact Or.inl ⟨q, fl, h, le_of_lt hq⟩
  · exact Or.inr h

theorem isZero_nonneg {v : Val} (h : IsZero v) : IsNonneg v := by
  obtain ⟨fl, h⟩ := h
  exact Or.inl ⟨0, fl, h, le_refl _⟩

theorem isBool_nonneg {v : Val} (h : IsBool v) : IsNonneg v := by
  obtain ⟨b, rfl⟩ := h
  cases b
  · exact Or.inl ⟨0, false, rfl, le_refl _⟩
  · exact Or.inl ⟨1, false, rfl, by norm_num⟩

theorem isNonneg_ord {v : Val} (h : IsNonneg v) : ∃ o, ord? v = some o := by
  rw [isNonneg_iff_ord] at h
  obtain ⟨o, ho, _⟩ := h
  exact ⟨o, ho⟩

/-- a zero is below every non-negative value -/
theorem numLe_zero_nonneg {v t : Val} (hv : IsZero v) (ht : IsNonneg t) : numLe v t := by
  rw [isZero_iff_ord] at hv
  rw [isNonneg_iff_ord] at ht
  obtain ⟨o, ho, h0⟩ := ht
  exact ⟨_, o, hv, ho, h0⟩

/-! ### parameters with nothing negative inside -/

theorem isNonneg_pnn {v : Val} (h : IsNonneg v) : PNN v := by
  rcases h with ⟨q, fl, h, hq⟩ | rfl
  · refine ⟨fun q' fl' h' => ?_, ?_, ?_⟩
    · rw [h] at h'
      cases h'
      exact hq
    · rintro rfl
      cases h
    · rintro y rfl
      cases h
  · unfold PNN
    exact ⟨fun q fl h => (by cases h), fun h => (by cases h), fun y h => (by cases h)⟩

theorem pnn_nonneg_of_ord {v : Val} {o : Ord3} (h : PNN v) (ho : ord? v = some o) :
    IsNonneg v := by
  cases v with
  | int i => exact Or.inl ⟨_, false, rfl, h.1 _ _ rfl⟩
  | flt q => exact Or.inl ⟨_, true, rfl, h.1 _ _ rfl⟩
  | bool b => exact Or.inl ⟨_, false, rfl, h.1 _ _ rfl⟩
  | inf n =>
    cases n
    · exact Or.inr rfl
    · exact (h.2.1 rfl).elim
  | str s => cases ho
  | tree y => cases ho
  | none => cases ho

theorem hasOrd_of {x : Val} (h : (num? x).isSome = true ∨ ∃ n, x = .inf n) :
    ∃ o, ord? x = some o := by
  rcases h with h | ⟨n, rfl⟩
  · cases hx : num? x with
    | none => rw [hx] at h; cases h
    | some p => exact ⟨_, GV.Sym.ord?_num (p := p.1) (fx := p.2) hx⟩
  · cases n <;> exact ⟨_, rfl⟩

theorem evalBin_ok_ord {op : BinOp} {x y v : Val} (h : evalBin op x y = .ok v) :
    (∃ o, ord? x = some o) ∧ (∃ o, ord? y = some o) := by
  have : ((num? x).isSome = true ∨ ∃ n, x = .inf n) ∧
      ((num? y).isSome = true ∨ ∃ n, y = .inf n) := by
    cases x <;> cases y <;> cases op <;> simp [evalBin, num?] at h ⊢
  exact ⟨hasOrd_of this.1, hasOrd_of this.2⟩

theorem pnn_leafVal {y : Y} (h : nnTreeB y = true) : PNN (leafVal y) := by
  cases y with
  | num q =>
    simp only [nnTreeB, decide_eq_true_eq] at h
    exact isNonneg_pnn (Or.inl ⟨q, true, rfl, h⟩)
  | pinf => exact isNonneg_pnn (Or.inr rfl)
  | ninf => simp [nnTreeB] at h
  | bool b => exact isNonneg_pnn (Or.inl ⟨_, false, rfl, by cases b <;> simp⟩)
  | str s =>
    by_cases h1 : s = "inf"
    · subst h1
      exact isNonneg_pnn (Or.inr rfl)
    · by_cases h2 : s = "-inf"
      · subst h2
        simp [nnTreeB] at h
      · have : leafVal (.str s) = .str s := by
          unfold leafVal
          split <;> simp_all
        rw [this]
        unfold PNN
        exact ⟨fun q fl h => (by cases h), fun h => (by cases h), fun y h => (by cases h)⟩
  | null =>
    unfold PNN
    exact ⟨fun q fl h => (by cases h), fun h => (by cases h), fun y h => (by cases h)⟩
  | date d =>
    unfold PNN
    exact ⟨fun q fl h => (by cases h), fun h => (by cases h), fun y hy => (by cases hy; exact h)⟩
  | list xs =>
    unfold PNN
    exact ⟨fun q fl h => (by cases h), fun h => (by cases h), fun y hy => (by cases hy; exact h)⟩
  | dict kvs =>
    unfold PNN
    exact ⟨fun q fl h => (by cases h), fun h => (by cases h), fun y hy => (by cases hy; exact h)⟩

theorem nnKvsB_get : ∀ {kvs : List (Key × Y)} {k : Key} {y : Y}, nnKvsB kvs = true →
    kvGet? kvs k = some y → nnTreeB y = true
  | [], k, y, _, h => by cases h
  | (k', y') :: rest, k, y, hn, h => by
    simp only [nnKvsB, Bool.and_eq_true] at hn
    simp only [kvGet?] at h
    split at h
    · cases h
      exact hn.1
    · exact nnKvsB_get hn.2 h

theorem nnListB_getD : ∀ {xs : List Y} (n : Nat), nnListB xs = true →
    nnTreeB (xs.getD n .null) = true
  | [], n, _ => by simp [nnTreeB]
  | y :: rest, 0, hn => by
    simp only [nnListB, Bool.and_eq_true] at hn
    simpa using hn.1
  | y :: rest, n + 1, hn => by
    simp only [nnListB, Bool.and_eq_true] at hn
    simpa using nnListB_getD n hn.2

theorem evalSub_pnn {c idx w : Val} (hc : PNN c) (h : evalSub c idx = .ok w) : PNN w := by
  cases c with
  | tree y =>
    have hy : nnTreeB y = true := hc.2.2 _ rfl
    cases y with
    | dict kvs =>
      have hk : nnKvsB kvs = true := by simpa [nnTreeB] using hy
      have key : ∀ (key? : Option Key), (match key? with
          | some k => (match kvGet? kvs k with
            | some v => Except.ok (leafVal v)
            | Option.none => Except.error Err.keyError)
          | Option.none => (Except.error Err.keyError : Except Err Val)) = .ok w → PNN w := by
        intro key? h
        split at h
        · split at h
          · rename_i y hy
            cases h
            exact pnn_leafVal (nnKvsB_get hk hy)
          · cases h
        · cases h
      exact key _ h
    | list xs =>
      have hk : nnListB xs = true := by simpa [nnTreeB] using hy
      have key : ∀ j : Int, (if 0 ≤ j ∧ j < xs.length
          then Except.ok (leafVal (xs.getD j.toNat .null))
          else (Except.error Err.shape : Except Err Val)) = .ok w → PNN w := by
        intro j h
        split at h
        · cases h
          exact pnn_leafVal (nnListB_getD _ hk)
        · cases h
      cases idx with
      | int i => exact key _ h
      | flt q => simp [evalSub] at h
      | bool b => simp [evalSub] at h
      | inf n => simp [evalSub] at h
      | str s => simp [evalSub] at h
      | tree y => simp [evalSub] at h
      | none => simp [evalSub] at h
    | num q => simp [evalSub] at h
    | pinf => simp [evalSub] at h
    | ninf => simp [evalSub] at h
    | str s => simp [evalSub] at h
    | bool b => simp [evalSub] at h
    | null => simp [evalSub] at h
    | date d => simp [evalSub] at h
  | int i => simp [evalSub] at h
  | flt q => simp [evalSub] at h
  | bool b => simp [evalSub] at h
  | inf n => simp [evalSub] at h
  | str s => simp [evalSub] at h
  | none => simp [evalSub] at h

/-! ### the lattice -/

theorem holds_numeric {a : Abs} {v : Val} (hn : a.numeric = true) (h : a.holds v) :
    IsNonneg v := by
  cases a with
  | nonneg => exact h
  | pos => exact isPos_nonneg h
  | zero => exact isZero_nonneg h
  | bool => exact isBool_nonneg h
  | pnn => cases hn
  | any => cases hn

theorem holds_pnnish {a : Abs} {v : Val} (hn : a.pnnish = true) (h : a.holds v) : PNN v := by
  cases a with
  | nonneg => exact isNonneg_pnn h
  | pos => exact isNonneg_pnn (isPos_nonneg h)
  | zero => exact isNonneg_pnn (isZero_nonneg h)
  | bool => exact isNonneg_pnn (isBool_nonneg h)
  | pnn => exact h
  | any => cases hn

/-- a `pnn` that is comparable is a non-negative number (or `+inf`) -/
theorem holds_strip {a : Abs} {v : Val} (h : a.holds v) (ho : ∃ o, ord? v = some o) :
    a.strip.holds v := by
  obtain ⟨o, ho⟩ := ho
  cases a <;> first | exact h | exact pnn_nonneg_of_ord h ho

theorem strip_ne_pnn (a : Abs) : a.strip ≠ .pnn := by cases a <;> simp [Abs.strip]

theorem holds_n {a : Abs} {v : Val} (h : a.holds v) : a.n.holds v := by
  cases a <;> first | exact h | exact isBool_nonneg h

theorem n_numeric (a : Abs) : a.n.numeric = a.numeric := by cases a <;> rfl

theorem holds_join_left {a b : Abs} {v : Val} (h : a.holds v) : (a.join b).holds v := by
  unfold Abs.join
  split
  · exact h
  · split
    · rename_i hn
      rw [Bool.and_eq_true] at hn
      exact holds_numeric hn.1 h
    · split
      · rename_i hn
        rw [Bool.and_eq_true] at hn
        exact holds_pnnish hn.1 h
      · trivial

theorem holds_join_right {a b : Abs} {v : Val} (h : b.holds v) : (a.join b).holds v := by
  unfold Abs.join
  split
  · rename_i he
    rw [he]
    exact h
  · split
    · rename_i hn
      rw [Bool.and_eq_true] at hn
      exact holds_numeric hn.2 h
    · split
      · rename_i hn
        rw [Bool.and_eq_true] at hn
        exact holds_pnnish hn.2 h
      · trivial

theorem holds_better {a b : Abs} {v : Val} (ha : a.holds v) (hb : b.holds v) :
    (a.better b).holds v := by
  unfold Abs.better
  split
  · exact ha
  · exact hb

theorem AV.holds_join_left {t : Val} {a b : AV} {v : Val} (h : a.holds t v) :
    (a.join b).holds t v := by
  refine ⟨GV.Sign.holds_join_left h.1, fun hl => h.2 ?_⟩
  simp only [AV.join, Bool.and_eq_true] at hl
  exact hl.1

theorem AV.holds_join_right {t : Val} {a b : AV} {v : Val} (h : b.holds t v) :
    (a.join b).holds t v := by
  refine ⟨GV.Sign.holds_join_right h.1, fun hl => h.2 ?_⟩
  simp only [AV.join, Bool.and_eq_true] at hl
  exact hl.2

theorem AV.holds_top (t v : Val) : AV.top.holds t v := ⟨trivial, fun h => by cases h⟩

theorem mk_holds {tn : Bool} {t : Val} (ht : tn = true → IsNonneg t) {s : Abs} {le : Bool}
    {v : Val} (hs : s.holds v) (hle : le = true → numLe v t) : (mk tn s le).holds t v := by
  refine ⟨hs, fun h => ?_⟩
  simp only [mk, Bool.or_eq_true, Bool.and_eq_true] at h
  rcases h with h | ⟨h1, h2⟩
  · exact hle h
  · cases s <;> first | exact numLe_zero_nonneg hs (ht h1) | cases h2

theorem joinOpt_left {t : Val} {a : AV} {v : Val} (h : a.holds t v) (o : Option AV) :
    ∃ j, joinOpt (some a) o = some j ∧ j.holds t v := by
  cases o with
  | none => exact ⟨a, rfl, h⟩
  | some b => exact ⟨_, rfl, AV.holds_join_left h⟩

theorem joinOpt_right {t : Val} {b : AV} {v : Val} (h : b.holds t v) (o : Option AV) :
    ∃ j, joinOpt o (some b) = some j ∧ j.holds t v := by
  cases o with
  | none => exact ⟨b, rfl, h⟩
  | some a => exact ⟨_, rfl, AV.holds_join_right h⟩

/-- the join of a list describes each of the described values -/
theorem joinL_holds {t : Val} : ∀ {as : List AV} {vs : List Val},
    List.Forall₂ (AV.holds t) as vs → ∀ v ∈ vs, ∃ j, joinL as = some j ∧ j.holds t v
  | _, _, .nil, v, hv => by cases hv
  | a :: as, u :: us, .cons h hrest, v, hv => by
    simp only [joinL]
    rcases List.mem_cons.mp hv with rfl | hv
    · exact joinOpt_left h _
    · obtain ⟨j, hj, hh⟩ := joinL_holds hrest v hv
      rw [hj]
      exact joinOpt_right hh _

/-! ### arithmetic on the classes -/

theorem isNonneg_mkNum {r : Rat} (fl : Bool) (h : 0 ≤ r) : IsNonneg (mkNum r fl) := by
  cases fl
  · exact Or.inl ⟨(r.num : Rat), false, rfl, by exact_mod_cast Rat.num_nonneg.mpr h⟩
  · exact Or.inl ⟨r, true, rfl, h⟩

theorem isPos_mkNum {r : Rat} (fl : Bool) (h : 0 < r) : IsPos (mkNum r fl) := by
  cases fl
  · exact Or.inl ⟨(r.num : Rat), false, rfl, by exact_mod_cast Rat.num_pos.mpr h⟩
  · exact Or.inl ⟨r, true, rfl, h⟩

theorem isZero_mkNum {r : Rat} (fl : Bool) (h : r = 0) : IsZero (mkNum r fl) := by
  subst h
  cases fl
  · exact ⟨false, rfl⟩
  · exact ⟨true, rfl⟩

theorem pos_of_num {x : Val} {p : Rat} {fx : Bool} (h : IsPos x) (hx : num? x = some (p, fx)) :
    0 < p := by
  rcases h with ⟨q, fl, h, hq⟩ | rfl
  · rw [hx] at h
    cases h
    exact hq
  · cases hx

theorem zero_of_num {x : Val} {p : Rat} {fx : Bool} (h : IsZero x)
    (hx : num? x = some (p, fx)) : p = 0 := by
  obtain ⟨fl, h⟩ := h
  rw [hx] at h
  cases h
  rfl

theorem isZero_not_inf {n : Bool} (h : IsZero (.inf n)) : False := by
  obtain ⟨fl, h⟩ := h
  cases h

theorem evalBin_inf_inf_mul (m n : Bool) :
    evalBin .mul (.inf m) (.inf n) = .error .typeError := by
  simp [evalBin, num?]

theorem evalBin_inf_inf_div (m n : Bool) :
    evalBin .div (.inf m) (.inf n) = .error .typeError := by
  simp [evalBin, num?]

theorem evalBin_inf_inf_add (m n : Bool) :
    evalBin .add (.inf m) (.inf n) = if m = n then .ok (.inf m) else .error .other := by
  simp [evalBin, num?]

theorem evalBin_inf_inf_sub (m n : Bool) :
    evalBin .sub (.inf m) (.inf n) = if m = n then .error .other else .ok (.inf m) := by
  simp [evalBin, num?]

theorem num?_inf (n : Bool) : num? (.inf n) = none := rfl

theorem evalBin_inf_num_add {y : Val} {q : Rat} {fy : Bool} (n : Bool)
    (hy : num? y = some (q, fy)) : evalBin .add (.inf n) y = .ok (.inf n) := by
  cases y <;> simp [num?] at hy <;> simp [evalBin, num?]

theorem evalBin_inf_num_sub {y : Val} {q : Rat} {fy : Bool} (n : Bool)
    (hy : num? y = some (q, fy)) : evalBin .sub (.inf n) y = .ok (.inf n) := by
  cases y <;> simp [num?] at hy <;> simp [evalBin, num?]

theorem evalBin_inf_num_mul {y : Val} {q : Rat} {fy : Bool} (n : Bool)
    (hy : num? y = some (q, fy)) :
    evalBin .mul (.inf n) y =
      if q = 0 then .error .other else .ok (.inf (if q < 0 then !n else n)) := by
  simp [evalBin, num?_inf, hy]

theorem evalBin_inf_num_div {y : Val} {q : Rat} {fy : Bool} (n : Bool)
    (hy : num? y = some (q, fy)) : evalBin .div (.inf n) y = .error .typeError := by
  cases y <;> simp [num?] at hy <;> simp [evalBin, num?]

theorem evalBin_num_inf_add {x : Val} {p : Rat} {fx : Bool} (n : Bool)
    (hx : num? x = some (p, fx)) : evalBin .add x (.inf n) = .ok (.inf n) := by
  cases x <;> simp [num?] at hx <;> simp [evalBin, num?]

theorem evalBin_num_inf_sub {x : Val} {p : Rat} {fx : Bool} (n : Bool)
    (hx : num? x = some (p, fx)) : evalBin .sub x (.inf n) = .ok (.inf (!n)) := by
  cases x <;> simp [num?] at hx <;> simp [evalBin, num?]

theorem evalBin_num_inf_div {x : Val} {p : Rat} {fx : Bool} (n : Bool)
    (hx : num? x = some (p, fx)) : evalBin .div x (.inf n) = .ok (.flt 0) := by
  cases x <;> simp [num?] at hx <;> simp [evalBin, num?]

theorem evalBin_num_inf_mul {x : Val} {p : Rat} {fx : Bool} (n : Bool)
    (hx : num? x = some (p, fx)) :
    evalBin .mul x (.inf n) =
      if p = 0 then .error .other else .ok (.inf (if p < 0 then !n else n)) := by
  cases x <;> simp [num?] at hx <;> simp [evalBin, num?, hx]

/-- `x + y` on non-negatives -/
theorem add_shape {x y v : Val} (hx : IsNonneg x) (hy : IsNonneg y)
    (h : evalBin .add x y = .ok v) :
    (∃ p q fx fy, num? x = some (p, fx) ∧ num? y = some (q, fy) ∧ 0 ≤ p ∧ 0 ≤ q ∧
      v = mkNum (p + q) (fx || fy)) ∨
    ((x = .inf false ∨ y = .inf false) ∧ v = .inf false) := by
  rcases hx with ⟨p, fx, hx, hp⟩ | rfl <;> rcases hy with ⟨q, fy, hy, hq⟩ | rfl
  · rw [GV.Sym.evalBin_num hx hy] at h
    simp only [binNum, Except.ok.injEq] at h
    exact Or.inl ⟨p, q, fx, fy, hx, hy, hp, hq, h.symm⟩
  · rw [evalBin_num_inf_add _ hx] at h
    cases h
    exact Or.inr ⟨Or.inr rfl, rfl⟩
  · rw [evalBin_inf_num_add _ hy] at h
    cases h
    exact Or.inr ⟨Or.inl rfl, rfl⟩
  · rw [evalBin_inf_inf_add] at h
    simp only [if_true] at h
    cases h
    exact Or.inr ⟨Or.inl rfl, rfl⟩

theorem isNonneg_inf : IsNonneg (.inf false) := Or.inr rfl
theorem isPos_inf : IsPos (.inf false) := Or.inr rfl

theorem add_nn {x y v : Val} (hx : IsNonneg x) (hy : IsNonneg y)
    (h : evalBin .add x y = .ok v) : IsNonneg v := by
  rcases add_shape hx hy h with ⟨p, q, fx, fy, _, _, hp, hq, rfl⟩ | ⟨_, rfl⟩
  · exact isNonneg_mkNum _ (by linarith)
  · exact isNonneg_inf

theorem add_pos_l {x y v : Val} (hx : IsPos x) (hy : IsNonneg y)
    (h : evalBin .add x y = .ok v) : IsPos v := by
  rcases add_shape (isPos_nonneg hx) hy h with ⟨p, q, fx, fy, hxp, _, hp, hq, rfl⟩ | ⟨_, rfl⟩
  · have := pos_of_num hx hxp
    exact isPos_mkNum _ (by linarith)
  · exact isPos_inf

theorem add_pos_r {x y v : Val} (hx : IsNonneg x) (hy : IsPos y)
    (h : evalBin .add x y = .ok v) : IsPos v := by
  rcases add_shape hx (isPos_nonneg hy) h with ⟨p, q, fx, fy, _, hyq, hp, hq, rfl⟩ | ⟨_, rfl⟩
  · have := pos_of_num hy hyq
    exact isPos_mkNum _ (by linarith)
  · exact isPos_inf

theorem add_zero_zero {x y v : Val} (hx : IsZero x) (hy : IsZero y)
    (h : evalBin .add x y = .ok v) : IsZero v := by
  rcases add_shape (isZero_nonneg hx) (isZero_nonneg hy) h with
    ⟨p, q, fx, fy, hxp, hyq, hp, hq, rfl⟩ | ⟨hinf, rfl⟩
  · have h1 := zero_of_num hx hxp
    have h2 := zero_of_num hy hyq
    exact isZero_mkNum _ (by rw [h1, h2]; norm_num)
  · rcases hinf with rfl | rfl
    · exact (isZero_not_inf hx).elim
    · exact (isZero_not_inf hy).elim

/-- `x * y` on non-negatives -/
theorem mul_shape {x y v : Val} (hx : IsNonneg x) (hy : IsNonneg y)
    (h : evalBin .mul x y = .ok v) :
    (∃ p q fx fy, num? x = some (p, fx) ∧ num? y = some (q, fy) ∧ 0 ≤ p ∧ 0 ≤ q ∧
      v = mkNum (p * q) (fx || fy)) ∨ v = .inf false := by
  rcases hx with ⟨p, fx, hx, hp⟩ | rfl <;> rcases hy with ⟨q, fy, hy, hq⟩ | rfl
  · rw [GV.Sym.evalBin_num hx hy] at h
    simp only [binNum, Except.ok.injEq] at h
    exact Or.inl ⟨p, q, fx, fy, hx, hy, hp, hq, h.symm⟩
  · rw [evalBin_num_inf_mul _ hx] at h
    split at h
    · cases h
    · rw [if_neg (not_lt.mpr hp)] at h
      cases h
      exact Or.inr rfl
  · rw [evalBin_inf_num_mul _ hy] at h
    split at h
    · cases h
    · rw [if_neg (not_lt.mpr hq)] at h
      cases h
      exact Or.inr rfl
  · rw [evalBin_inf_inf_mul] at h
    cases h

theorem mul_nn {x y v : Val} (hx : IsNonneg x) (hy : IsNonneg y)
    (h : evalBin .mul x y = .ok v) : IsNonneg v := by
  rcases mul_shape hx hy h with ⟨p, q, fx, fy, _, _, hp, hq, rfl⟩ | rfl
  · exact isNonneg_mkNum _ (mul_nonneg hp hq)
  · exact isNonneg_inf

theorem mul_pos' {x y v : Val} (hx : IsPos x) (hy : IsPos y)
    (h : evalBin .mul x y = .ok v) : IsPos v := by
  rcases mul_shape (isPos_nonneg hx) (isPos_nonneg hy) h with
    ⟨p, q, fx, fy, hxp, hyq, _, _, rfl⟩ | rfl
  · exact isPos_mkNum _ (mul_pos (pos_of_num hx hxp) (pos_of_num hy hyq))
  · exact isPos_inf

/-- `x * 0` is `0` whenever it is defined, whatever `x` is -/
theorem mul_zero_r {x y v : Val} (hy : IsZero y) (h : evalBin .mul x y = .ok v) : IsZero v := by
  obtain ⟨fy, hy⟩ := hy
  cases hx : num? x with
  | some pf =>
    obtain ⟨p, fx⟩ := pf
    rw [GV.Sym.evalBin_num hx hy] at h
    simp only [binNum, Except.ok.injEq] at h
    subst h
    exact isZero_mkNum _ (mul_zero p)
  | none =>
    cases x <;> simp [num?] at hx
    · rename_i n
      rw [evalBin_inf_num_mul _ hy] at h
      simp at h
    all_goals (cases y <;> simp [num?] at hy <;> simp [evalBin, num?] at h)

theorem mul_zero_l {x y v : Val} (hx : IsZero x) (h : evalBin .mul x y = .ok v) : IsZero v := by
  obtain ⟨fx, hx⟩ := hx
  cases hy : num? y with
  | some pf =>
    obtain ⟨q, fy⟩ := pf
    rw [GV.Sym.evalBin_num hx hy] at h
    simp only [binNum, Except.ok.injEq] at h
    subst h
    exact isZero_mkNum _ (zero_mul q)
  | none =>
    cases y <;> simp [num?] at hy
    · rename_i n
      rw [evalBin_num_inf_mul _ hx] at h
      simp at h
    all_goals (cases x <;> simp [num?] at hx <;> simp [evalBin, num?] at h)

/-- `x / y` on non-negatives -/
theorem div_shape {x y v : Val} (hx : IsNonneg x) (hy : IsNonneg y)
    (h : evalBin .div x y = .ok v) :
    (∃ p q fx fy, num? x = some (p, fx) ∧ num? y = some (q, fy) ∧ 0 ≤ p ∧ 0 ≤ q ∧
      v = .flt (p / q)) ∨ v = .flt 0 := by
  rcases hx with ⟨p, fx, hx, hp⟩ | rfl <;> rcases hy with ⟨q, fy, hy, hq⟩ | rfl
  · rw [GV.Sym.evalBin_num hx hy] at h
    simp only [binNum] at h
    split at h
    · cases h
    · cases h
      exact Or.inl ⟨p, q, fx, fy, hx, hy, hp, hq, rfl⟩
  · rw [evalBin_num_inf_div _ hx] at h
    cases h
    exact Or.inr rfl
  · rw [evalBin_inf_num_div _ hy] at h
    cases h
  · rw [evalBin_inf_inf_div] at h
    cases h

theorem div_nn {x y v : Val} (hx : IsNonneg x) (hy : IsNonneg y)
    (h : evalBin .div x y = .ok v) : IsNonneg v := by
  rcases div_shape hx hy h with ⟨p, q, fx, fy, _, _, hp, hq, rfl⟩ | rfl
  · exact Or.inl ⟨_, true, rfl, div_nonneg hp hq⟩
  · exact Or.inl ⟨_, true, rfl, le_refl _⟩

theorem div_zero_l {x y v : Val} (hx : IsZero x) (hy : IsNonneg y)
    (h : evalBin .div x y = .ok v) : IsZero v := by
  rcases div_shape (isZero_nonneg hx) hy h with ⟨p, q, fx, fy, hxp, _, _, _, rfl⟩ | rfl
  · have := zero_of_num hx hxp
    subst this
    exact ⟨true, by simp [num?]⟩
  · exact ⟨true, rfl⟩

/-- `x - 0` keeps the value -/
theorem sub_zero_shape {x y v : Val} (hx : IsNonneg x) (hy : IsZero y)
    (h : evalBin .sub x y = .ok v) :
    (∃ p fx fl, num? x = some (p, fx) ∧ v = mkNum p fl) ∨ (x = .inf false ∧ v = .inf false) := by
  obtain ⟨fy, hy⟩ := hy
  rcases hx with ⟨p, fx, hx, hp⟩ | rfl
  · rw [GV.Sym.evalBin_num hx hy] at h
    simp only [binNum, Except.ok.injEq, sub_zero] at h
    exact Or.inl ⟨p, fx, _, hx, h.symm⟩
  · rw [evalBin_inf_num_sub _ hy] at h
    cases h
    exact Or.inr ⟨rfl, rfl⟩

theorem sub_zero_nn {x y v : Val} (hx : IsNonneg x) (hy : IsZero y)
    (h : evalBin .sub x y = .ok v) : IsNonneg v := by
  have hx' := hx
  rcases sub_zero_shape hx hy h with ⟨p, fx, fl, hxp, rfl⟩ | ⟨_, rfl⟩
  · rcases hx' with ⟨p', fx', hx'', hp⟩ | rfl
    · rw [hxp] at hx''
      cases hx''
      exact isNonneg_mkNum _ hp
    · cases hxp
  · exact isNonneg_inf

theorem sub_zero_pos {x y v : Val} (hx : IsPos x) (hy : IsZero y)
    (h : evalBin .sub x y = .ok v) : IsPos v := by
  rcases sub_zero_shape (isPos_nonneg hx) hy h with ⟨p, fx, fl, hxp, rfl⟩ | ⟨_, rfl⟩
  · exact isPos_mkNum _ (pos_of_num hx hxp)
  · exact isPos_inf

theorem sub_zero_zero {x y v : Val} (hx : IsZero x) (hy : IsZero y)
    (h : evalBin .sub x y = .ok v) : IsZero v := by
  rcases sub_zero_shape (isZero_nonneg hx) hy h with ⟨p, fx, fl, hxp, rfl⟩ | ⟨rfl, rfl⟩
  · exact isZero_mkNum _ (zero_of_num hx hxp)
  · exact (isZero_not_inf hx).elim

/-! ### the binary transfer functions -/

theorem absAdd_sound {a b : Abs} {x y v : Val} (hna : a ≠ .pnn) (hnb : b ≠ .pnn)
    (ha : a.holds x) (hb : b.holds y)
    (h : evalBin .add x y = .ok v) : (absAdd a b).holds v := by
  cases a <;> cases b <;>
    first
    | exact (hna rfl).elim
    | exact (hnb rfl).elim
    | exact trivial
    | exact add_zero_zero ha hb h
    | exact add_pos_l ha (holds_numeric rfl hb) h
    | exact add_pos_r (holds_numeric rfl ha) hb h
    | exact add_nn (holds_numeric rfl ha) (holds_numeric rfl hb) h

theorem absMul_sound {a b : Abs} {x y v : Val} (hna : a ≠ .pnn) (hnb : b ≠ .pnn)
    (ha : a.holds x) (hb : b.holds y)
    (h : evalBin .mul x y = .ok v) : (absMul a b).holds v := by
  cases a <;> cases b <;>
    first
    | exact (hna rfl).elim
    | exact (hnb rfl).elim
    | exact trivial
    | exact mul_zero_l ha h
    | exact mul_zero_r hb h
    | exact mul_pos' ha hb h
    | exact mul_nn (holds_numeric rfl ha) (holds_numeric rfl hb) h

theorem absDiv_sound {a b : Abs} {x y v : Val} (hna : a ≠ .pnn) (hnb : b ≠ .pnn)
    (ha : a.holds x) (hb : b.holds y)
    (h : evalBin .div x y = .ok v) : (absDiv a b).holds v := by
  cases a <;> cases b <;>
    first
    | exact (hna rfl).elim
    | exact (hnb rfl).elim
    | exact trivial
    | exact div_zero_l ha (holds_numeric rfl hb) h
    | exact div_nn (holds_numeric rfl ha) (holds_numeric rfl hb) h

theorem absSub_sound {a b : Abs} {x y v : Val} (hna : a ≠ .pnn) (hnb : b ≠ .pnn)
    (ha : a.holds x) (hb : b.holds y)
    (h : evalBin .sub x y = .ok v) : (absSub a b).holds v := by
  cases a <;> cases b <;>
    first
    | exact (hna rfl).elim
    | exact (hnb rfl).elim
    | exact trivial
    | exact sub_zero_zero ha hb h
    | exact sub_zero_pos ha hb h
    | exact sub_zero_nn (holds_numeric rfl ha) hb h

theorem absBin_sound {op : BinOp} {a b : Abs} {x y v : Val} (ha : a.holds x) (hb : b.holds y)
    (h : evalBin op x y = .ok v) : (absBin op a b).holds v := by
  obtain ⟨hox, hoy⟩ := evalBin_ok_ord h
  have ha' := holds_strip ha hox
  have hb' := holds_strip hb hoy
  unfold absBin
  cases op
  · exact absAdd_sound (strip_ne_pnn a) (strip_ne_pnn b) ha' hb' h
  · exact absSub_sound (strip_ne_pnn a) (strip_ne_pnn b) ha' hb' h
  · exact absMul_sound (strip_ne_pnn a) (strip_ne_pnn b) ha' hb' h
  · exact absDiv_sound (strip_ne_pnn a) (strip_ne_pnn b) ha' hb' h

/-- integer-flagged numbers are integers -/
theorem num?_int {x : Val} {p : Rat} (h : num? x = some (p, false)) : ∃ i : Int, p = (i : Rat) := by
  cases x <;> simp [num?] at h
  · rename_i i
    exact ⟨i, h.symm⟩
  · rename_i b
    cases b
    · exact ⟨0, by simp at h; simp [← h]⟩
    · exact ⟨1, by simp at h; simp [← h]⟩

theorem ord?_mkNum_flt (r : Rat) : ord? (mkNum r true) = some (.mid r) := rfl

theorem ord?_mkNum_int (i : Int) : ord? (mkNum (i : Rat) false) = some (.mid (i : Rat)) := by
  simp [mkNum, ord?, num?]

/-- `x - y ≤ t` if `x ≤ t` and `y ≥ 0` -/
theorem sub_le {x y v t : Val} (hx : numLe x t) (hy : IsNonneg y)
    (h : evalBin .sub x y = .ok v) : numLe v t := by
  obtain ⟨a, b, ha, hb, hab⟩ := hx
  have hlo : ∀ c : Ord3, ordLt c .lo = false := fun c => by cases c <;> rfl
  cases hxn : num? x with
  | some pf =>
    obtain ⟨p, fx⟩ := pf
    rw [GV.Sym.ord?_num hxn] at ha
    cases ha
    rcases hy with ⟨q, fy, hy, hq⟩ | rfl
    · rw [GV.Sym.evalBin_num hxn hy] at h
      simp only [binNum, Except.ok.injEq] at h
      subst h
      have hb' : ordLt b (.mid (p - q)) = false := by
        cases b <;> simp [ordLt] at hab ⊢
        linarith
      cases hfl : (fx || fy)
      · rw [Bool.or_eq_false_iff] at hfl
        obtain ⟨rfl, rfl⟩ := hfl
        obtain ⟨i, rfl⟩ := num?_int hxn
        obtain ⟨j, rfl⟩ := num?_int hy
        refine ⟨.mid (((i - j : Int)) : Rat), b, ?_, hb, ?_⟩
        · rw [← ord?_mkNum_int]
          push_cast
          rfl
        · push_cast
          exact hb'
      · exact ⟨_, b, ord?_mkNum_flt _, hb, hb'⟩
    · rw [evalBin_num_inf_sub _ hxn] at h
      cases h
      exact ⟨.lo, b, rfl, hb, hlo b⟩
  | none =>
    cases x <;> simp [num?] at hxn
    · rename_i n
      rcases hy with ⟨q, fy, hy, hq⟩ | rfl
      · rw [evalBin_inf_num_sub _ hy] at h
        cases h
        exact ⟨a, b, ha, hb, hab⟩
      · rw [evalBin_inf_inf_sub] at h
        cases n
        · simp at h
        · simp at h
          subst h
          exact ⟨.lo, b, rfl, hb, hlo b⟩
    all_goals (simp [ord?, num?] at ha)

theorem avBin_sound {tn : Bool} {t : Val} (ht : tn = true → IsNonneg t) {op : BinOp} {a b : AV}
    {x y v : Val} (ha : a.holds t x) (hb : b.holds t y) (h : evalBin op x y = .ok v) :
    (avBin tn op a b).holds t v := by
  refine mk_holds ht (absBin_sound ha.1 hb.1 h) (fun hl => ?_)
  cases op <;> simp only [leBin, Bool.and_eq_true] at hl <;> try cases hl
  rename_i h1 h2
  exact sub_le (ha.2 h1) (holds_numeric h2 (holds_strip hb.1 (evalBin_ok_ord h).2)) h

/-! ### constants, unary operations -/

theorem absConst_sound (v : Val) : (absConst v).holds v := by
  cases v with
  | int i =>
    simp only [absConst]
    split
    · rename_i h
      subst h
      exact ⟨false, rfl⟩
    · split
      · rename_i h
        exact Or.inl ⟨_, false, rfl, by exact_mod_cast h⟩
      · trivial
  | flt q =>
    simp only [absConst]
    split
    · rename_i h
      subst h
      exact ⟨true, rfl⟩
    · split
      · rename_i h
        exact Or.inl ⟨_, true, rfl, h⟩
      · trivial
  | bool b => exact ⟨b, rfl⟩
  | inf n =>
    cases n
    · exact Or.inr rfl
    · trivial
  | str s => trivial
  | tree y =>
    simp only [absConst]
    split
    · rename_i h
      unfold Abs.holds PNN
      exact ⟨fun q fl h => (by cases h), fun h => (by cases h), fun y hy => (by cases hy; exact h)⟩
    · trivial
  | none => trivial

theorem absNeg_sound {a : Abs} {x v : Val} (ha : a.holds x) (h : GV.Sym.negVal x = .ok v) :
    (absNeg a).holds v := by
  cases a <;> first | exact trivial | skip
  obtain ⟨fl, hx⟩ := ha
  cases x <;> simp [num?] at hx <;> simp [GV.Sym.negVal, num?, pure, Except.pure] at h
  · rename_i i
    obtain ⟨rfl, rfl⟩ := hx
    subst h
    exact ⟨false, by simp [mkNum, num?]⟩
  · rename_i q
    obtain ⟨rfl, rfl⟩ := hx
    subst h
    exact ⟨true, by simp [mkNum, num?]⟩
  · rename_i b
    cases b <;> simp at hx
    subst h
    exact ⟨false, by simp [mkNum, num?]⟩

theorem evalCall_abs (x : Val) : evalCall "abs" [x] =
    match num? x with
    | some (q, fl) => .ok (mkNum (if q < 0 then -q else q) fl)
    | Option.none => .error .typeError := by
  simp only [evalCall]
  rfl

theorem evalCall_float (x : Val) : evalCall "float" [x] =
    match num? x with
    | some (q, _) => .ok (.flt q)
    | Option.none => match x with | .inf n => .ok (.inf n) | _ => .error .typeError := by
  simp only [evalCall]
  rfl

theorem absAbs_sound {a : Abs} {x v : Val} (ha : a.holds x) (h : evalCall "abs" [x] = .ok v) :
    (absAbs a).holds v := by
  rw [evalCall_abs] at h
  split at h
  · rename_i q fl hq
    cases h
    have hnn : IsNonneg (mkNum (if q < 0 then -q else q) fl) := by
      apply isNonneg_mkNum
      split
      · linarith
      · linarith
    cases a <;> first | exact hnn | skip
    · have := pos_of_num ha hq
      rw [if_neg (not_lt.mpr (le_of_lt this))]
      exact isPos_mkNum _ this
    · have := zero_of_num ha hq
      subst this
      exact isZero_mkNum _ (by norm_num)
  · cases h

theorem float_shape {x v : Val} (h : evalCall "float" [x] = .ok v) :
    (∃ q fl, num? x = some (q, fl) ∧ v = .flt q) ∨ (∃ n, x = .inf n ∧ v = .inf n) := by
  rw [evalCall_float] at h
  split at h
  · rename_i q fl hq
    cases h
    exact Or.inl ⟨q, fl, hq, rfl⟩
  · split at h
    · cases h
      exact Or.inr ⟨_, rfl, rfl⟩
    · cases h

theorem float_ord {x v : Val} (h : evalCall "float" [x] = .ok v) : ord? v = ord? x := by
  rcases float_shape h with ⟨q, fl, hq, rfl⟩ | ⟨n, rfl, rfl⟩
  · rw [GV.Sym.ord?_num hq]
    rfl
  · rfl

theorem float_arg_ord {x v : Val} (h : evalCall "float" [x] = .ok v) : ∃ o, ord? x = some o := by
  rcases float_shape h with ⟨q, fl, hq, _⟩ | ⟨n, rfl, _⟩
  · exact ⟨_, GV.Sym.ord?_num hq⟩
  · cases n <;> exact ⟨_, rfl⟩

theorem absFloat_sound {a : Abs} {x v : Val} (ha : a.holds x)
    (h : evalCall "float" [x] = .ok v) : (absFloat a).holds v := by
  have ho := float_ord h
  have ha' := holds_n (holds_strip ha (float_arg_ord h))
  unfold absFloat
  cases hn : a.strip.n with
  | any => trivial
  | bool => cases a <;> cases hn
  | pnn => cases a <;> cases hn
  | nonneg =>
    rw [hn] at ha'
    have h1 : IsNonneg x := ha'
    show IsNonneg v
    rw [isNonneg_iff_ord] at h1 ⊢
    rw [ho]
    exact h1
  | pos =>
    rw [hn] at ha'
    have h1 : IsPos x := ha'
    show IsPos v
    rw [isPos_iff_ord] at h1 ⊢
    rw [ho]
    exact h1
  | zero =>
    rw [hn] at ha'
    have h1 : IsZero x := ha'
    show IsZero v
    rw [isZero_iff_ord] at h1 ⊢
    rw [ho]
    exact h1

/-! ### comparisons with a numeric constant and branch refinement -/

/-- the outcome of a comparison of two comparable values -/
def cmpO (op : CmpOp) (a b : Ord3) : Bool :=
  match op with
  | .lt => ordLt a b | .le => ordLt a b || ordEq a b
  | .gt => ordLt b a | .ge => ordLt b a || ordEq a b
  | .eq => ordEq a b | .ne => !ordEq a b

/-- the outcome if the non-constant operand is not comparable -/
def cmpN (op : CmpOp) : Except Err Bool :=
  match op with
  | .eq => .ok false
  | .ne => .ok true
  | _ => .error .typeError

local macro "cmp_cases" v:ident op:ident : tactic =>
  `(tactic| (cases $v:ident with
    | inf n => cases n <;> cases $op:ident <;> rfl
    | int i => cases $op:ident <;> rfl
    | flt r => cases $op:ident <;> rfl
    | bool b => cases $op:ident <;> rfl
    | str s => cases $op:ident <;> rfl
    | tree y => cases $op:ident <;> rfl
    | none => cases $op:ident <;> rfl))

theorem evalCmp_num_r {c : Val} {q : Rat} {fl : Bool} (hc : num? c = some (q, fl))
    (op : CmpOp) (v : Val) : evalCmp op v c =
    match ord? v with
    | some a => .ok (cmpO op a (.mid q))
    | Option.none => cmpN op := by
  cases c <;> simp [num?] at hc
  · obtain ⟨rfl, rfl⟩ := hc
    cmp_cases v op
  · obtain ⟨rfl, rfl⟩ := hc
    cmp_cases v op
  · obtain ⟨rfl, rfl⟩ := hc
    cmp_cases v op

theorem evalCmp_num_l {c : Val} {q : Rat} {fl : Bool} (hc : num? c = some (q, fl))
    (op : CmpOp) (v : Val) : evalCmp op c v =
    match ord? v with
    | some a => .ok (cmpO op (.mid q) a)
    | Option.none => cmpN op := by
  cases c <;> simp [num?] at hc
  · obtain ⟨rfl, rfl⟩ := hc
    cmp_cases v op
  · obtain ⟨rfl, rfl⟩ := hc
    cmp_cases v op
  · obtain ⟨rfl, rfl⟩ := hc
    cmp_cases v op

theorem ordLe_eq (a b : Ord3) : (ordLt a b || ordEq a b) = !ordLt b a := by
  cases a <;> cases b <;> simp [ordLt, ordEq]
  rename_i p q
  rw [Bool.eq_iff_iff]
  simp only [Bool.or_eq_true, decide_eq_true_eq, Bool.not_eq_true', decide_eq_false_iff_not,
    not_lt]
  exact (le_iff_lt_or_eq (a := p) (b := q)).symm

theorem cmpO_flip (op : CmpOp) (a b : Ord3) : cmpO op a b = cmpO (flipOp op) b a := by
  cases op <;> simp only [cmpO, flipOp, ordEq_symm]

theorem cmpN_flip (op : CmpOp) : cmpN (flipOp op) = cmpN op := by cases op <;> rfl

theorem cmpO_neg (op : CmpOp) (a b : Ord3) : cmpO (negOp op) a b = !cmpO op a b := by
  cases op <;> simp only [cmpO, negOp]
  · rw [ordEq_symm, ordLe_eq]
  · rw [ordLe_eq, Bool.not_not]
  · rw [ordLe_eq]
  · rw [ordEq_symm a b, ordLe_eq, Bool.not_not]
  · rw [Bool.not_not]

theorem cmpN_neg {op : CmpOp} {b : Bool} (h : cmpN op = .ok b) : cmpN (negOp op) = .ok (!b) := by
  cases op <;> simp [cmpN] at h ⊢ <;> subst h <;> rfl

/-- "`v op q` holds", for a value `v` and a rational `q` -/
def Fact (op : CmpOp) (v : Val) (q : Rat) : Prop :=
  (match ord? v with
   | some a => Except.ok (cmpO op a (.mid q))
   | Option.none => cmpN op) = Except.ok true

theorem fact_neg {op : CmpOp} {v : Val} {q : Rat}
    (h : (match ord? v with
      | some a => Except.ok (cmpO op a (.mid q))
      | Option.none => cmpN op) = Except.ok false) : Fact (negOp op) v q := by
  unfold Fact
  cases ho : ord? v with
  | some a =>
    rw [ho] at h
    simp only [Except.ok.injEq] at h ⊢
    rw [cmpO_neg, h]
    rfl
  | none =>
    rw [ho] at h
    exact cmpN_neg h

theorem fact_of_cmp_r {c v : Val} {q : Rat} {fl : Bool} (hc : num? c = some (q, fl))
    {op : CmpOp} {b : Bool} (h : evalCmp op v c = .ok b) :
    Fact (if b then op else negOp op) v q := by
  rw [evalCmp_num_r hc] at h
  cases b
  · exact fact_neg h
  · exact h

theorem fact_of_cmp_l {c v : Val} {q : Rat} {fl : Bool} (hc : num? c = some (q, fl))
    {op : CmpOp} {b : Bool} (h : evalCmp op c v = .ok b) :
    Fact (if b then flipOp op else negOp (flipOp op)) v q := by
  rw [evalCmp_num_l hc] at h
  have h' : (match ord? v with
      | some a => Except.ok (cmpO (flipOp op) a (.mid q))
      | Option.none => cmpN (flipOp op)) = Except.ok b := by
    cases ho : ord? v with
    | some a =>
      rw [ho] at h
      simp only [Except.ok.injEq] at h ⊢
      rw [← cmpO_flip]
      exact h
    | none =>
      rw [ho] at h
      simp only
      rw [cmpN_flip]
      exact h
  cases b
  · exact fact_neg h'
  · exact h'

theorem meetPos_sound {cur : Abs} {v : Val} (hc : cur.holds v) (h : IsPos v) :
    (meetPos cur).holds v := by
  cases cur <;> first | exact h | exact hc

theorem meetNonneg_sound {cur : Abs} {v : Val} (hc : cur.holds v) (h : IsNonneg v) :
    (meetNonneg cur).holds v := by
  cases cur <;> first | exact h | exact hc

theorem meetLe0_sound {cur : Abs} {v : Val} (hc : cur.holds v) (h : IsNonneg v → IsZero v) :
    (meetLe0 cur).holds v := by
  cases cur <;> first | exact h hc | exact h (isBool_nonneg hc) | exact hc

theorem meetNe0_sound {cur : Abs} {v : Val} (hc : cur.holds v) (h : IsNonneg v → IsPos v) :
    (meetNe0 cur).holds v := by
  cases cur <;> first | exact h hc | exact hc

theorem ordEq_mid {a : Ord3} {q : Rat} (h : ordEq a (.mid q) = true) : a = .mid q := by
  cases a <;> simp [ordEq] at h
  rw [h]

theorem refineAbs_sound {cur : Abs} {op : CmpOp} {v : Val} {q : Rat} (hc : cur.holds v)
    (h : Fact op v q) : (refineAbs cur op q).holds v := by
  unfold Fact at h
  cases ho : ord? v with
  | none =>
    rw [ho] at h
    cases op <;> simp [cmpN] at h
    -- only `≠` can hold of an incomparable value
    simp only [refineAbs]
    split
    · exact meetNe0_sound hc (fun hn => by
        obtain ⟨o, ho'⟩ := isNonneg_ord hn
        rw [ho] at ho'
        cases ho')
    · exact hc
  | some a =>
    rw [ho] at h
    simp only [Except.ok.injEq] at h
    cases op <;> simp only [cmpO] at h <;> simp only [refineAbs]
    · exact hc
    · -- le
      split
      · rename_i hq
        refine meetLe0_sound hc (fun hn => ?_)
        rw [isNonneg_iff_ord] at hn
        obtain ⟨o, ho', h0⟩ := hn
        rw [ho] at ho'
        cases ho'
        rw [isZero_iff_ord, ho]
        rw [ordLe_eq] at h
        cases a <;> simp [ordLt] at h h0 ⊢
        linarith
      · exact hc
    · -- gt
      split
      · rename_i hq
        refine meetPos_sound hc ?_
        rw [isPos_iff_ord]
        refine ⟨a, ho, ?_⟩
        cases a <;> simp [ordLt] at h ⊢
        linarith
      · exact hc
    · -- ge
      rw [ordEq_symm, ordLe_eq] at h
      split
      · rename_i hq
        refine meetPos_sound hc ?_
        rw [isPos_iff_ord]
        refine ⟨a, ho, ?_⟩
        cases a <;> simp [ordLt] at h ⊢
        linarith
      · split
        · rename_i hq
          refine meetNonneg_sound hc ?_
          rw [isNonneg_iff_ord]
          refine ⟨a, ho, ?_⟩
          cases a <;> simp [ordLt] at h ⊢
          linarith
        · exact hc
    · -- eq
      have ha := ordEq_mid h
      subst ha
      split
      · rename_i hq
        refine meetPos_sound hc ?_
        rw [isPos_iff_ord]
        exact ⟨_, ho, by simp [ordLt]; exact hq⟩
      · split
        · rename_i hq
          subst hq
          show IsZero v
          rw [isZero_iff_ord]
          exact ho
        · exact hc
    · -- ne
      split
      · rename_i hq
        subst hq
        refine meetNe0_sound hc (fun hn => ?_)
        rw [isNonneg_iff_ord] at hn
        obtain ⟨o, ho', h0⟩ := hn
        rw [ho] at ho'
        cases ho'
        rw [isPos_iff_ord]
        refine ⟨a, ho, ?_⟩
        cases a <;> simp [ordLt, ordEq] at h h0 ⊢
        exact lt_of_le_of_ne h0 (fun e => h e.symm)
      · exact hc

/-! ### `max` / `min` -/

theorem evalCmp_lt (x y : Val) : evalCmp .lt x y =
    match ord? x, ord? y with
    | some a, some b => .ok (ordLt a b)
    | _, _ => .error .typeError := by
  cases x <;> cases y <;> rfl

theorem evalCmp_gt (x y : Val) : evalCmp .gt x y =
    match ord? x, ord? y with
    | some a, some b => .ok (ordLt b a)
    | _, _ => .error .typeError := by
  cases x <;> cases y <;> rfl

theorem evalCmp_lt_ok {x y : Val} {b : Bool} (h : evalCmp .lt x y = .ok b) :
    ∃ a c, ord? x = some a ∧ ord? y = some c ∧ b = ordLt a c := by
  rw [evalCmp_lt] at h
  split at h
  · rename_i a c ha hc
    cases h
    exact ⟨a, c, ha, hc, rfl⟩
  · cases h

theorem evalCmp_gt_ok {x y : Val} {b : Bool} (h : evalCmp .gt x y = .ok b) :
    ∃ a c, ord? x = some a ∧ ord? y = some c ∧ b = ordLt c a := by
  rw [evalCmp_gt] at h
  split at h
  · rename_i a c ha hc
    cases h
    exact ⟨a, c, ha, hc, rfl⟩
  · cases h

/-- one step of `pickExt` -/
theorem pickExt_cons {isMax : Bool} {v v2 : Val} {rest : List Val} {w : Val}
    (h : pickExt isMax (v :: v2 :: rest) = .ok w) :
    ∃ r better, pickExt isMax (v2 :: rest) = .ok r ∧
      (if isMax then evalCmp .lt v r else evalCmp .gt v r) = .ok better ∧
      w = (if better then r else v) := by
  rw [pickExt] at h
  · obtain ⟨r, hr, h1⟩ := bind_ok h
    cases isMax
    · simp only [Bool.false_eq_true, if_false] at h1 ⊢
      obtain ⟨better, hb, h2⟩ := bind_ok h1
      simp only [pure, Except.pure, Except.ok.injEq] at h2
      exact ⟨r, better, hr, hb, h2.symm⟩
    · simp only [if_true] at h1 ⊢
      obtain ⟨better, hb, h2⟩ := bind_ok h1
      simp only [pure, Except.pure, Except.ok.injEq] at h2
      exact ⟨r, better, hr, hb, h2.symm⟩
  · simp

theorem pickExt_mem {isMax : Bool} : ∀ {vs : List Val} {w : Val},
    pickExt isMax vs = .ok w → w ∈ vs
  | [], w, h => by simp [pickExt] at h
  | [v], w, h => by
    simp only [pickExt, Except.ok.injEq] at h
    subst h
    exact List.mem_singleton.mpr rfl
  | v :: v2 :: rest, w, h => by
    obtain ⟨r, better, hr, _, rfl⟩ := pickExt_cons h
    have ih := pickExt_mem hr
    cases better
    · exact List.mem_cons_self
    · exact List.mem_cons_of_mem _ ih

theorem pickExt_max_ge : ∀ {vs : List Val} {w : Val},
    pickExt true vs = .ok w → ∀ a ∈ vs, a = w ∨ numLe a w
  | [], w, h => by simp [pickExt] at h
  | [v], w, h => by
    simp only [pickExt, Except.ok.injEq] at h
    subst h
    intro a ha
    exact Or.inl (List.mem_singleton.mp ha)
  | v :: v2 :: rest, w, h => by
    obtain ⟨r, better, hr, hb, rfl⟩ := pickExt_cons h
    simp only [if_true] at hb
    obtain ⟨ov, or_, hov, hor, rfl⟩ := evalCmp_lt_ok hb
    have ih := pickExt_max_ge hr
    intro a ha
    cases hlt : ordLt ov or_
    · -- the head stays
      simp only [Bool.false_eq_true, if_false]
      rcases List.mem_cons.mp ha with rfl | ha
      · exact Or.inl rfl
      · have hrv : numLe r v := ⟨or_, ov, hor, hov, hlt⟩
        rcases ih a ha with rfl | hle
        · exact Or.inr hrv
        · exact Or.inr (numLe_trans hle hrv)
    · simp only [if_true]
      rcases List.mem_cons.mp ha with rfl | ha
      · exact Or.inr ⟨ov, or_, hov, hor, ordLt_asymm hlt⟩
      · exact ih a ha

theorem pickExt_min_le : ∀ {vs : List Val} {w : Val},
    pickExt false vs = .ok w → ∀ a ∈ vs, a = w ∨ numLe w a
  | [], w, h => by simp [pickExt] at h
  | [v], w, h => by
    simp only [pickExt, Except.ok.injEq] at h
    subst h
    intro a ha
    exact Or.inl (List.mem_singleton.mp ha)
  | v :: v2 :: rest, w, h => by
    obtain ⟨r, better, hr, hb, rfl⟩ := pickExt_cons h
    simp only [Bool.false_eq_true, if_false] at hb
    obtain ⟨ov, or_, hov, hor, rfl⟩ := evalCmp_gt_ok hb
    have ih := pickExt_min_le hr
    intro a ha
    cases hlt : ordLt or_ ov
    · -- the head stays: `v ≤ r`
      simp only [Bool.false_eq_true, if_false]
      rcases List.mem_cons.mp ha with rfl | ha
      · exact Or.inl rfl
      · have hvr : numLe v r := ⟨ov, or_, hov, hor, hlt⟩
        rcases ih a ha with rfl | hle
        · exact Or.inr hvr
        · exact Or.inr (numLe_trans hvr hle)
    · simp only [if_true]
      rcases List.mem_cons.mp ha with rfl | ha
      · exact Or.inr ⟨or_, ov, hor, hov, ordLt_asymm hlt⟩
      · exact ih a ha

/-- with at least two arguments the result is comparable -/
theorem pickExt_ord {isMax : Bool} {v v2 : Val} {rest : List Val} {w : Val}
    (h : pickExt isMax (v :: v2 :: rest) = .ok w) : ∃ o, ord? w = some o := by
  obtain ⟨r, better, hr, hb, rfl⟩ := pickExt_cons h
  cases isMax
  · simp only [Bool.false_eq_true, if_false] at hb
    obtain ⟨ov, or_, hov, hor, _⟩ := evalCmp_gt_ok hb
    cases better
    · exact ⟨ov, hov⟩
    · exact ⟨or_, hor⟩
  · simp only [if_true] at hb
    obtain ⟨ov, or_, hov, hor, _⟩ := evalCmp_lt_ok hb
    cases better
    · exact ⟨ov, hov⟩
    · exact ⟨or_, hor⟩

theorem pickExt_max_ge' {v v2 : Val} {rest : List Val} {w : Val}
    (h : pickExt true (v :: v2 :: rest) = .ok w) : ∀ a ∈ v :: v2 :: rest, numLe a w := by
  intro a ha
  rcases pickExt_max_ge h a ha with rfl | hle
  · obtain ⟨o, ho⟩ := pickExt_ord h
    exact numLe_refl ho
  · exact hle

theorem pickExt_min_le' {v v2 : Val} {rest : List Val} {w : Val}
    (h : pickExt false (v :: v2 :: rest) = .ok w) : ∀ a ∈ v :: v2 :: rest, numLe w a := by
  intro a ha
  rcases pickExt_min_le h a ha with rfl | hle
  · obtain ⟨o, ho⟩ := pickExt_ord h
    exact numLe_refl ho
  · exact hle

theorem forall₂_mem_left {α β : Type} {R : α → β → Prop} : ∀ {as : List α} {bs : List β},
    List.Forall₂ R as bs → ∀ a ∈ as, ∃ b ∈ bs, R a b
  | _, _, .nil, a, ha => by cases ha
  | _ :: _, _ :: _, .cons h hrest, a, ha => by
    rcases List.mem_cons.mp ha with rfl | ha
    · exact ⟨_, List.mem_cons_self, h⟩
    · obtain ⟨b, hb, hr⟩ := forall₂_mem_left hrest a ha
      exact ⟨b, List.mem_cons_of_mem _ hb, hr⟩

theorem avMax_sound {t : Val} {a b : AV} {rest : List AV} {vs : List Val} {w : Val}
    (hf : List.Forall₂ (AV.holds t) (a :: b :: rest) vs) (h : pickExt true vs = .ok w) :
    (avMax (a :: b :: rest)).holds t w := by
  obtain ⟨j, hj, hjw⟩ := joinL_holds hf w (pickExt_mem h)
  have hge : ∀ u ∈ vs, numLe u w := by
    cases hf with
    | cons h1 hf' =>
      cases hf' with
      | cons h2 hf'' => exact pickExt_max_ge' h
  unfold avMax
  rw [hj]
  simp only [Option.getD_some]
  refine ⟨?_, hjw.2⟩
  split
  · rename_i hany
    rw [List.any_eq_true] at hany
    obtain ⟨c, hc, hpos⟩ := hany
    obtain ⟨u, hu, hcu⟩ := forall₂_mem_left hf c hc
    refine holds_better hjw.1 ?_
    have : IsPos u := by
      have := hcu.1
      cases hs : c.sign <;> rw [hs] at hpos this <;> first | exact this | cases hpos
    exact isPos_mono this (hge u hu)
  · split
    · rename_i hany
      rw [List.any_eq_true] at hany
      obtain ⟨c, hc, hnum⟩ := hany
      obtain ⟨u, hu, hcu⟩ := forall₂_mem_left hf c hc
      refine holds_better hjw.1 ?_
      exact isNonneg_mono (holds_numeric hnum hcu.1) (hge u hu)
    · exact hjw.1

theorem avMin_sound {t : Val} {a b : AV} {rest : List AV} {vs : List Val} {w : Val}
    (hf : List.Forall₂ (AV.holds t) (a :: b :: rest) vs) (h : pickExt false vs = .ok w) :
    (avMin (a :: b :: rest)).holds t w := by
  obtain ⟨j, hj, hjw⟩ := joinL_holds hf w (pickExt_mem h)
  have hle : ∀ u ∈ vs, numLe w u := by
    cases hf with
    | cons h1 hf' =>
      cases hf' with
      | cons h2 hf'' => exact pickExt_min_le' h
  unfold avMin
  rw [hj]
  simp only [Option.getD_some]
  refine ⟨hjw.1, fun hany => ?_⟩
  rw [List.any_eq_true] at hany
  obtain ⟨c, hc, hcle⟩ := hany
  obtain ⟨u, hu, hcu⟩ := forall₂_mem_left hf c hc
  exact numLe_trans (hle u hu) (hcu.2 hcle)

theorem AV.holds_strip {t : Val} {a : AV} {v : Val} (h : a.holds t v)
    (ho : ∃ o, ord? v = some o) : a.strip.holds t v :=
  ⟨GV.Sign.holds_strip h.1 ho, h.2⟩

theorem forall₂_strip {t : Val} : ∀ {as : List AV} {vs : List Val},
    List.Forall₂ (AV.holds t) as vs → (∀ u ∈ vs, ∃ o, ord? u = some o) →
      List.Forall₂ (AV.holds t) (as.map AV.strip) vs
  | _, _, .nil, _ => .nil
  | _ :: _, _ :: _, .cons h hrest, hall =>
    .cons (AV.holds_strip h (hall _ List.mem_cons_self))
      (forall₂_strip hrest (fun u hu => hall u (List.mem_cons_of_mem _ hu)))

theorem pickExt_all_ord {isMax : Bool} {v v2 : Val} {rest : List Val} {w : Val}
    (h : pickExt isMax (v :: v2 :: rest) = .ok w) :
    ∀ u ∈ v :: v2 :: rest, ∃ o, ord? u = some o := by
  intro u hu
  cases isMax
  · obtain ⟨a, b, _, hb, _⟩ := pickExt_min_le' h u hu
    exact ⟨b, hb⟩
  · obtain ⟨a, b, ha, _, _⟩ := pickExt_max_ge' h u hu
    exact ⟨a, ha⟩

theorem avCall_sound {tn : Bool} {t : Val} (ht : tn = true → IsNonneg t) {f : String}
    {as : List AV} {vs : List Val} {w : Val} (hf : List.Forall₂ (AV.holds t) as vs)
    (h : evalCall f vs = .ok w) : (avCall tn f as).holds t w := by
  unfold avCall
  split
  · rename_i hfn
    subst hfn
    split
    · rename_i a b rest
      cases hf with
      | cons h1 hf' =>
        cases hf' with
        | cons h2 hf'' =>
          simp only [evalCall] at h
          have hf' := forall₂_strip (.cons h1 (.cons h2 hf'')) (pickExt_all_ord h)
          simp only [List.map_cons] at hf' ⊢
          exact avMax_sound hf' h
    · exact AV.holds_top _ _
  · split
    · rename_i hfn
      subst hfn
      split
      · rename_i a b rest
        cases hf with
        | cons h1 hf' =>
          cases hf' with
          | cons h2 hf'' =>
            simp only [evalCall] at h
            have hf' := forall₂_strip (.cons h1 (.cons h2 hf'')) (pickExt_all_ord h)
            simp only [List.map_cons] at hf' ⊢
            exact avMin_sound hf' h
      · exact AV.holds_top _ _
    · split
      · rename_i hfn
        subst hfn
        split
        · rename_i a
          cases hf with
          | cons h1 hf' =>
            cases hf'
            exact mk_holds ht (absAbs_sound h1.1 h) (fun hl => by cases hl)
        · exact AV.holds_top _ _
      · split
        · rename_i hfn
          subst hfn
          split
          · rename_i a
            cases hf with
            | cons h1 hf' =>
              cases hf'
              exact mk_holds ht (absFloat_sound h1.1 h)
                (fun hl => numLe_of_ord_eq (h1.2 hl) (float_ord h))
          · exact AV.holds_top _ _
        · exact AV.holds_top _ _

/-! ### environments -/

/-- every name bound in both environments is described correctly (names the abstract
environment does not bind are unknown; names the concrete one does not bind cannot be read) -/
def Agree (t : Val) (Γ : AEnv) (env : Env) : Prop :=
  ∀ x a v, Γ.get? x = some a → env.get? x = some v → a.holds t v

theorem agree_nil (t : Val) (env : Env) : Agree t [] env := by
  intro x a v h
  cases h

theorem AEnv.get?_set (n : String) (v : AV) (x : String) : ∀ (Γ : AEnv),
    (Γ.set n v).get? x = if n = x then some v else Γ.get? x
  | [] => by simp only [AEnv.set, AEnv.get?]
  | (k, u) :: rest => by
    simp only [AEnv.set]
    by_cases hkn : k = n
    · subst hkn
      simp only [if_true, AEnv.get?]
      split <;> rfl
    · simp only [hkn, if_false, AEnv.get?, AEnv.get?_set n v x rest]
      by_cases hkx : k = x
      · subst hkx
        have : ¬ n = k := fun h => hkn h.symm
        simp only [if_true, this, if_false]
      · simp only [hkx, if_false]

theorem lookup_holds {t : Val} {Γ : AEnv} {env : Env} (hag : Agree t Γ env) {x : String}
    {v : Val} (hx : env.get? x = some v) : (Γ.lookup x).holds t v := by
  unfold AEnv.lookup
  cases hg : Γ.get? x with
  | none => exact AV.holds_top _ _
  | some a => exact hag x a v hg hx

theorem agree_set_abs {t : Val} {Γ : AEnv} {env : Env} (hag : Agree t Γ env) {x : String}
    {a : AV} (h : ∀ v, env.get? x = some v → a.holds t v) : Agree t (Γ.set x a) env := by
  intro y b v hy hv
  rw [AEnv.get?_set] at hy
  split at hy
  · rename_i hxy
    subst hxy
    cases hy
    exact h v hv
  · exact hag y b v hy hv

theorem agree_set {t : Val} {Γ : AEnv} {env : Env} (hag : Agree t Γ env) {x : String}
    {a : AV} {u : Val} (h : a.holds t u) : Agree t (Γ.set x a) (env.set x u) := by
  intro y b v hy hv
  rw [AEnv.get?_set] at hy
  rw [GV.Sym.Env.get?_set] at hv
  split at hy
  · rename_i hxy
    rw [if_pos hxy] at hv
    cases hy
    cases hv
    exact h
  · rename_i hxy
    rw [if_neg hxy] at hv
    exact hag y b v hy hv

theorem AEnv.get?_join (x : String) (Γ₂ : AEnv) : ∀ (Γ₁ : AEnv) (c : AV),
    (Γ₁.join Γ₂).get? x = some c →
      ∃ a b, Γ₁.get? x = some a ∧ Γ₂.get? x = some b ∧ c = a.join b
  | [], c, h => by cases h
  | (k, a) :: rest, c, h => by
    simp only [AEnv.join] at h
    cases hk : Γ₂.get? k with
    | none =>
      rw [hk] at h
      simp only at h
      obtain ⟨a', b', h1, h2, h3⟩ := AEnv.get?_join x Γ₂ rest c h
      by_cases hkx : k = x
      · subst hkx
        rw [hk] at h2
        cases h2
      · exact ⟨a', b', by simp only [AEnv.get?, hkx, if_false]; exact h1, h2, h3⟩
    | some b =>
      rw [hk] at h
      simp only [AEnv.get?] at h ⊢
      by_cases hkx : k = x
      · subst hkx
        simp only [if_true, Option.some.injEq] at h ⊢
        exact ⟨a, b, rfl, hk, h.symm⟩
      · simp only [hkx, if_false] at h ⊢
        exact AEnv.get?_join x Γ₂ rest c h

theorem agree_join_left {t : Val} {Γ₁ Γ₂ : AEnv} {env : Env} (hag : Agree t Γ₁ env) :
    Agree t (Γ₁.join Γ₂) env := by
  intro x c v hc hv
  obtain ⟨a, b, ha, _, rfl⟩ := AEnv.get?_join x Γ₂ Γ₁ c hc
  exact AV.holds_join_left (hag x a v ha hv)

theorem agree_join_right {t : Val} {Γ₁ Γ₂ : AEnv} {env : Env} (hag : Agree t Γ₂ env) :
    Agree t (Γ₁.join Γ₂) env := by
  intro x c v hc hv
  obtain ⟨a, b, _, hb, rfl⟩ := AEnv.get?_join x Γ₂ Γ₁ c hc
  exact AV.holds_join_right (hag x b v hb hv)

/-! ### branch refinement -/

theorem refineVar_ok {tn : Bool} {t : Val} (ht : tn = true → IsNonneg t) {Γ : AEnv} {env : Env}
    (hag : Agree t Γ env) {x : String} {op : CmpOp} {q : Rat}
    (h : ∀ v, env.get? x = some v → Fact op v q) : Agree t (refineVar tn Γ x op q) env := by
  unfold refineVar
  refine agree_set_abs hag (fun v hv => ?_)
  have hl := lookup_holds hag hv
  exact mk_holds ht (refineAbs_sound hl.1 (h v hv)) hl.2

theorem evalChain_bool (env : Env) : ∀ (rest : List (CmpOp × Expr)) (l v : Val),
    evalChain env l rest = .ok v → ∃ b, v = .bool b
  | [], l, v, h => by
    simp only [evalChain, Except.ok.injEq] at h
    exact ⟨true, h.symm⟩
  | (op, e) :: rest, l, v, h => by
    simp only [evalChain] at h
    obtain ⟨r, _, h1⟩ := bind_ok h
    obtain ⟨ok, _, h2⟩ := bind_ok h1
    cases ok
    · simp only [Bool.false_eq_true, if_false, pure, Except.pure, Except.ok.injEq] at h2
      exact ⟨false, h2.symm⟩
    · simp only [if_true] at h2
      exact evalChain_bool env rest r v h2

theorem cmpFact?_sound {e : Expr} {x : String} {op : CmpOp} {q : Rat} {env : Env} {tv : Val}
    (hf : cmpFact? e = some (x, op, q)) (he : evalExpr env e = .ok tv) :
    ∃ v b, env.get? x = some v ∧ tv = .bool b ∧ Fact (if b then op else negOp op) v q := by
  unfold cmpFact? at hf
  split at hf
  · rename_i x' op' c
    simp only [Option.map_eq_some_iff] at hf
    obtain ⟨⟨q', fl⟩, hc, hf⟩ := hf
    simp only [Prod.mk.injEq] at hf
    obtain ⟨rfl, rfl, rfl⟩ := hf
    simp only [evalExpr, evalChain] at he
    cases hx : env.get? x' with
    | none =>
      rw [hx] at he
      cases he
    | some v =>
      rw [hx] at he
      simp only [GV.Sym.ok_bind] at he
      obtain ⟨b, hb, h2⟩ := bind_ok he
      refine ⟨v, b, rfl, ?_, fact_of_cmp_r hc hb⟩
      cases b
      · simp only [Bool.false_eq_true, if_false, pure, Except.pure, Except.ok.injEq] at h2
        exact h2.symm
      · simp only [if_true, Except.ok.injEq] at h2
        exact h2.symm
  · rename_i c op' x'
    simp only [Option.map_eq_some_iff] at hf
    obtain ⟨⟨q', fl⟩, hc, hf⟩ := hf
    simp only [Prod.mk.injEq] at hf
    obtain ⟨rfl, rfl, rfl⟩ := hf
    simp only [evalExpr, evalChain] at he
    cases hx : env.get? x' with
    | none =>
      rw [hx] at he
      cases he
    | some v =>
      rw [hx] at he
      simp only [GV.Sym.ok_bind] at he
      obtain ⟨b, hb, h2⟩ := bind_ok he
      refine ⟨v, b, rfl, ?_, fact_of_cmp_l hc hb⟩
      cases b
      · simp only [Bool.false_eq_true, if_false, pure, Except.pure, Except.ok.injEq] at h2
        exact h2.symm
      · simp only [if_true, Except.ok.injEq] at h2
        exact h2.symm
  · cases hf

/-- the non-recursive case of `refine` -/
theorem refine_fact_ok {tn : Bool} {t : Val} (ht : tn = true → IsNonneg t) {Γ : AEnv} {env : Env}
    (hag : Agree t Γ env) {e : Expr} {tv : Val} {branch : Bool} (he : evalExpr env e = .ok tv)
    (hb : truthy tv = branch) :
    Agree t (match cmpFact? e with
      | some (x, op, q) => refineVar tn Γ x (if branch then op else negOp op) q
      | none => Γ) env := by
  cases hf : cmpFact? e with
  | none => exact hag
  | some p =>
    obtain ⟨x, op, q⟩ := p
    obtain ⟨v, b, hx, rfl, hfact⟩ := cmpFact?_sound hf he
    simp only [truthy] at hb
    subst hb
    refine refineVar_ok ht hag (fun v' hv' => ?_)
    rw [hx] at hv'
    cases hv'
    exact hfact

theorem evalBool_all (env : Env) (isAnd : Bool) : ∀ (es : List Expr) (tv : Val),
    evalBool env isAnd es = .ok tv → truthy tv = isAnd →
      ∀ e ∈ es, ∃ w, evalExpr env e = .ok w ∧ truthy w = isAnd
  | [], tv, _, _ => fun e he => by cases he
  | [e], tv, h, ht => by
    simp only [evalBool] at h
    intro e' he'
    rw [List.mem_singleton.mp he']
    exact ⟨tv, h, ht⟩
  | e :: e2 :: rest, tv, h, ht => by
    rw [evalBool] at h
    · obtain ⟨v, hv, h1⟩ := bind_ok h
      split at h1
      · rename_i heq
        have ih := evalBool_all env isAnd (e2 :: rest) tv h1 ht
        intro e' he'
        rcases List.mem_cons.mp he' with rfl | he'
        · exact ⟨v, hv, heq⟩
        · exact ih e' he'
      · rename_i hne
        simp only [pure, Except.pure, Except.ok.injEq] at h1
        subst h1
        exact (hne ht).elim
    · simp

mutual
theorem refine_ok {tn : Bool} {t : Val} (ht : tn = true → IsNonneg t) {env : Env} :
    ∀ (e : Expr) (Γ : AEnv) (branch : Bool) (tv : Val), Agree t Γ env →
      evalExpr env e = .ok tv → truthy tv = branch → Agree t (refine tn Γ branch e) env
  | .boolop isAnd args, Γ, branch, tv, hag, he, hb => by
    simp only [refine]
    split
    · rename_i heq
      subst heq
      simp only [evalExpr] at he
      exact refineAll_ok ht args Γ isAnd hag (evalBool_all env isAnd args tv he hb)
    · exact hag
  | .not a, Γ, branch, tv, hag, he, hb => by
    simp only [refine]
    simp only [evalExpr] at he
    obtain ⟨x, hx, h1⟩ := bind_ok he
    simp only [pure, Except.pure, Except.ok.injEq] at h1
    subst h1
    have hb' : (!truthy x) = branch := hb
    exact refine_ok ht a Γ (!branch) x hag hx (by rw [← hb', Bool.not_not])
  | .const c, Γ, branch, tv, hag, he, hb => by
    simp only [refine]; exact refine_fact_ok ht hag he hb
  | .name n, Γ, branch, tv, hag, he, hb => by
    simp only [refine]; exact refine_fact_ok ht hag he hb
  | .bin op a b, Γ, branch, tv, hag, he, hb => by
    simp only [refine]; exact refine_fact_ok ht hag he hb
  | .neg a, Γ, branch, tv, hag, he, hb => by
    simp only [refine]; exact refine_fact_ok ht hag he hb
  | .cmp f r, Γ, branch, tv, hag, he, hb => by
    simp only [refine]; exact refine_fact_ok ht hag he hb
  | .ifexp c a b, Γ, branch, tv, hag, he, hb => by
    simp only [refine]; exact refine_fact_ok ht hag he hb
  | .call f args, Γ, branch, tv, hag, he, hb => by
    simp only [refine]; exact refine_fact_ok ht hag he hb
  | .mcall f args, Γ, branch, tv, hag, he, hb => by
    simp only [refine]; exact refine_fact_ok ht hag he hb
  | .sub e i, Γ, branch, tv, hag, he, hb => by
    simp only [refine]; exact refine_fact_ok ht hag he hb
  | .isIn e items n, Γ, branch, tv, hag, he, hb => by
    simp only [refine]; exact refine_fact_ok ht hag he hb
  | .opaque w, Γ, branch, tv, hag, he, hb => by
    simp only [refine]; exact refine_fact_ok ht hag he hb
theorem refineAll_ok {tn : Bool} {t : Val} (ht : tn = true → IsNonneg t) {env : Env} :
    ∀ (es : List Expr) (Γ : AEnv) (branch : Bool), Agree t Γ env →
      (∀ e ∈ es, ∃ w, evalExpr env e = .ok w ∧ truthy w = branch) →
      Agree t (refineAll tn Γ branch es) env
  | [], Γ, branch, hag, _ => by
    simp only [refineAll]
    exact hag
  | e :: rest, Γ, branch, hag, hall => by
    simp only [refineAll]
    obtain ⟨w, hw, hb⟩ := hall e List.mem_cons_self
    exact refineAll_ok ht rest _ branch (refine_ok ht e Γ branch w hag hw hb)
      (fun e' he' => hall e' (List.mem_cons_of_mem _ he'))
end

/-! ### expressions -/

theorem isInVal_bool {x : Val} {vs : List Val} {neg : Bool} {v : Val}
    (h : GV.Sym.isInVal x vs neg = .ok v) : ∃ b, v = .bool b := by
  unfold GV.Sym.isInVal at h
  obtain ⟨hit, _, h1⟩ := bind_ok h
  simp only [pure, Except.pure, Except.ok.injEq] at h1
  exact ⟨_, h1.symm⟩

theorem holds_bool {t : Val} (b : Bool) : AV.holds t ⟨.bool, false⟩ (.bool b) :=
  ⟨⟨b, rfl⟩, fun h => by cases h⟩

theorem joinL_cons (a : AV) (as : List AV) : ∃ j, joinL (a :: as) = some j := by
  simp only [joinL]
  cases joinL as <;> exact ⟨_, rfl⟩

mutual
theorem avExpr_ok {tn : Bool} {t : Val} (ht : tn = true → IsNonneg t) :
    ∀ (e : Expr) (Γ : AEnv) (env : Env) (v : Val), Agree t Γ env → evalExpr env e = .ok v →
      (avExpr tn Γ e).holds t v
  | .const c, Γ, env, v, hag, h => by
    simp only [evalExpr, Except.ok.injEq] at h
    subst h
    simp only [avExpr]
    exact mk_holds ht (absConst_sound c) (fun hl => by cases hl)
  | .name n, Γ, env, v, hag, h => by
    simp only [evalExpr] at h
    simp only [avExpr]
    cases hn : env.get? n with
    | none =>
      rw [hn] at h
      cases h
    | some u =>
      rw [hn] at h
      cases h
      exact lookup_holds hag hn
  | .bin op a b, Γ, env, v, hag, h => by
    simp only [evalExpr] at h
    obtain ⟨x, hx, h1⟩ := bind_ok h
    obtain ⟨y, hy, h2⟩ := bind_ok h1
    simp only [avExpr]
    exact avBin_sound ht (avExpr_ok ht a Γ env x hag hx) (avExpr_ok ht b Γ env y hag hy) h2
  | .neg a, Γ, env, v, hag, h => by
    rw [GV.Sym.evalExpr_neg] at h
    obtain ⟨x, hx, h1⟩ := bind_ok h
    simp only [avExpr]
    exact mk_holds ht (absNeg_sound (avExpr_ok ht a Γ env x hag hx).1 h1) (fun hl => by cases hl)
  | .cmp first rest, Γ, env, v, hag, h => by
    simp only [evalExpr] at h
    obtain ⟨x, _, h1⟩ := bind_ok h
    obtain ⟨b, rfl⟩ := evalChain_bool env rest x v h1
    simp only [avExpr]
    exact holds_bool b
  | .boolop isAnd args, Γ, env, v, hag, h => by
    simp only [evalExpr] at h
    simp only [avExpr]
    exact avBool_ok ht args Γ env isAnd v hag h
  | .not a, Γ, env, v, hag, h => by
    simp only [evalExpr] at h
    obtain ⟨x, _, h1⟩ := bind_ok h
    simp only [pure, Except.pure, Except.ok.injEq] at h1
    subst h1
    simp only [avExpr]
    exact holds_bool _
  | .ifexp c a b, Γ, env, v, hag, h => by
    simp only [evalExpr] at h
    obtain ⟨tv, htv, h1⟩ := bind_ok h
    simp only [avExpr]
    split at h1
    · rename_i htr
      exact AV.holds_join_left
        (avExpr_ok ht a _ env v (refine_ok ht c Γ true tv hag htv htr) h1)
    · rename_i htr
      exact AV.holds_join_right
        (avExpr_ok ht b _ env v (refine_ok ht c Γ false tv hag htv (by simpa using htr)) h1)
  | .call f args, Γ, env, v, hag, h => by
    simp only [evalExpr] at h
    obtain ⟨vs, hvs, h1⟩ := bind_ok h
    simp only [avExpr]
    exact avCall_sound ht (avArgs_ok ht args Γ env vs hag hvs) h1
  | .mcall _ _, Γ, env, v, hag, h => by
    simp only [avExpr]
    exact AV.holds_top _ _
  | .sub e idx, Γ, env, v, hag, h => by
    simp only [evalExpr] at h
    obtain ⟨c, hc, h1⟩ := bind_ok h
    obtain ⟨i, _, h2⟩ := bind_ok h1
    have ih := avExpr_ok ht e Γ env c hag hc
    simp only [avExpr]
    refine ⟨?_, fun hl => by cases hl⟩
    cases hs : (avExpr tn Γ e).sign <;> first | exact trivial | skip
    have ih1 := ih.1
    rw [hs] at ih1
    exact evalSub_pnn ih1 h2
  | .isIn e items neg, Γ, env, v, hag, h => by
    rw [GV.Sym.evalExpr_isIn] at h
    obtain ⟨x, _, h1⟩ := bind_ok h
    obtain ⟨vs, _, h2⟩ := bind_ok h1
    obtain ⟨b, rfl⟩ := isInVal_bool h2
    simp only [avExpr]
    exact holds_bool b
  | .opaque _, Γ, env, v, hag, h => by
    simp only [avExpr]
    exact AV.holds_top _ _
theorem avBool_ok {tn : Bool} {t : Val} (ht : tn = true → IsNonneg t) :
    ∀ (es : List Expr) (Γ : AEnv) (env : Env) (isAnd : Bool) (v : Val), Agree t Γ env →
      evalBool env isAnd es = .ok v →
      ((joinL (avArgs tn Γ es)).getD ⟨.bool, false⟩).holds t v
  | [], Γ, env, isAnd, v, hag, h => by
    simp only [evalBool, Except.ok.injEq] at h
    subst h
    simp only [avArgs, joinL, Option.getD_none]
    exact holds_bool _
  | [e], Γ, env, isAnd, v, hag, h => by
    simp only [evalBool] at h
    simp only [avArgs, joinL, joinOpt, Option.getD_some]
    exact avExpr_ok ht e Γ env v hag h
  | e :: e2 :: rest, Γ, env, isAnd, v, hag, h => by
    rw [evalBool] at h
    · obtain ⟨u, hu, h1⟩ := bind_ok h
      have ih1 := avExpr_ok ht e Γ env u hag hu
      rw [avArgs, joinL]
      obtain ⟨j, hj⟩ := joinL_cons (avExpr tn Γ e2) (avArgs tn Γ rest)
      rw [← avArgs] at hj
      rw [hj]
      simp only [joinOpt, Option.getD_some]
      split at h1
      · have ih2 := avBool_ok ht (e2 :: rest) Γ env isAnd v hag h1
        rw [hj] at ih2
        exact AV.holds_join_right ih2
      · simp only [pure, Except.pure, Except.ok.injEq] at h1
        subst h1
        exact AV.holds_join_left ih1
    · simp
theorem avArgs_ok {tn : Bool} {t : Val} (ht : tn = true → IsNonneg t) :
    ∀ (es : List Expr) (Γ : AEnv) (env : Env) (vs : List Val), Agree t Γ env →
      evalArgs env es = .ok vs → List.Forall₂ (AV.holds t) (avArgs tn Γ es) vs
  | [], Γ, env, vs, hag, h => by
    simp only [evalArgs, Except.ok.injEq] at h
    subst h
    simp only [avArgs]
    exact .nil
  | e :: rest, Γ, env, vs, hag, h => by
    simp only [evalArgs] at h
    obtain ⟨v, hv, h1⟩ := bind_ok h
    obtain ⟨us, hus, h2⟩ := bind_ok h1
    simp only [pure, Except.pure, Except.ok.injEq] at h2
    subst h2
    simp only [avArgs]
    exact .cons (avExpr_ok ht e Γ env v hag hv) (avArgs_ok ht rest Γ env us hag hus)
end

/-! ### statements -/

/-- the abstract result describes the concrete outcome of a statement / block -/
def SRes.ok (t : Val) (R : SRes) (env' : Env) (r : Option Val) : Prop :=
  match r with
  | some v => ∃ a, R.ret = some a ∧ a.holds t v
  | none => R.falls = true ∧ Agree t R.env env'

theorem mergeRes_left {t : Val} {R₁ R₂ : SRes} {env' : Env} {r : Option Val}
    (h : SRes.ok t R₁ env' r) : SRes.ok t (mergeRes R₁ R₂) env' r := by
  cases r with
  | some v =>
    obtain ⟨a, ha, hv⟩ := h
    obtain ⟨j, hj, hjv⟩ := joinOpt_left hv R₂.ret
    exact ⟨j, by simp only [mergeRes, ha, hj], hjv⟩
  | none =>
    obtain ⟨hf, hag⟩ := h
    refine ⟨by simp only [mergeRes, hf, Bool.true_or], ?_⟩
    simp only [mergeRes, hf, if_true]
    split
    · exact agree_join_left hag
    · exact hag

theorem mergeRes_right {t : Val} {R₁ R₂ : SRes} {env' : Env} {r : Option Val}
    (h : SRes.ok t R₂ env' r) : SRes.ok t (mergeRes R₁ R₂) env' r := by
  cases r with
  | some v =>
    obtain ⟨a, ha, hv⟩ := h
    obtain ⟨j, hj, hjv⟩ := joinOpt_right hv R₁.ret
    exact ⟨j, by simp only [mergeRes, ha, hj], hjv⟩
  | none =>
    obtain ⟨hf, hag⟩ := h
    refine ⟨by simp only [mergeRes, hf, Bool.or_true], ?_⟩
    simp only [mergeRes, hf, if_true]
    split
    · exact agree_join_right hag
    · exact hag

mutual
theorem avStmt_ok {tn : Bool} {t : Val} (ht : tn = true → IsNonneg t) :
    ∀ (s : Stmt) (Γ : AEnv) (env env' : Env) (r : Option Val), Agree t Γ env →
      execStmt env s = .ok (env', r) → SRes.ok t (avStmt tn Γ s) env' r
  | .assign x e, Γ, env, env', r, hag, h => by
    simp only [execStmt] at h
    obtain ⟨v, hv, h1⟩ := bind_ok h
    simp only [pure, Except.pure, Except.ok.injEq, Prod.mk.injEq] at h1
    obtain ⟨rfl, rfl⟩ := h1
    simp only [avStmt]
    exact ⟨rfl, agree_set hag (avExpr_ok ht e Γ env v hag hv)⟩
  | .aug x op e, Γ, env, env', r, hag, h => by
    simp only [execStmt] at h
    cases hx : env.get? x with
    | none =>
      rw [hx] at h
      cases h
    | some old =>
      rw [hx] at h
      simp only [pure, Except.pure, GV.Sym.ok_bind] at h
      obtain ⟨v, hv, h1⟩ := bind_ok h
      obtain ⟨res, hres, h2⟩ := bind_ok h1
      simp only [Except.ok.injEq, Prod.mk.injEq] at h2
      obtain ⟨rfl, rfl⟩ := h2
      simp only [avStmt]
      exact ⟨rfl, agree_set hag
        (avBin_sound ht (lookup_holds hag hx) (avExpr_ok ht e Γ env v hag hv) hres)⟩
  | .ret e, Γ, env, env', r, hag, h => by
    simp only [execStmt] at h
    obtain ⟨v, hv, h1⟩ := bind_ok h
    simp only [pure, Except.pure, Except.ok.injEq, Prod.mk.injEq] at h1
    obtain ⟨rfl, rfl⟩ := h1
    simp only [avStmt]
    exact ⟨_, rfl, avExpr_ok ht e Γ env v hag hv⟩
  | .ite c body orelse, Γ, env, env', r, hag, h => by
    simp only [execStmt] at h
    obtain ⟨tv, htv, h1⟩ := bind_ok h
    simp only [avStmt]
    split at h1
    · rename_i htr
      exact mergeRes_left
        (avBlock_ok ht body _ env env' r (refine_ok ht c Γ true tv hag htv htr) h1)
    · rename_i htr
      exact mergeRes_right
        (avBlock_ok ht orelse _ env env' r
          (refine_ok ht c Γ false tv hag htv (by simpa using htr)) h1)
  | .expr _, Γ, env, env', r, hag, h => by
    simp only [execStmt, pure, Except.pure, Except.ok.injEq, Prod.mk.injEq] at h
    obtain ⟨rfl, rfl⟩ := h
    simp only [avStmt]
    exact ⟨rfl, hag⟩
  | .other _, Γ, env, env', r, hag, h => by
    simp only [execStmt] at h
    cases h
theorem avBlock_ok {tn : Bool} {t : Val} (ht : tn = true → IsNonneg t) :
    ∀ (b : List Stmt) (Γ : AEnv) (env env' : Env) (r : Option Val), Agree t Γ env →
      execBlock env b = .ok (env', r) → SRes.ok t (avBlock tn Γ b) env' r
  | [], Γ, env, env', r, hag, h => by
    simp only [execBlock, Except.ok.injEq, Prod.mk.injEq] at h
    obtain ⟨rfl, rfl⟩ := h
    simp only [avBlock]
    exact ⟨rfl, hag⟩
  | s :: rest, Γ, env, env', r, hag, h => by
    simp only [execBlock] at h
    obtain ⟨⟨env1, r1⟩, h1, h2⟩ := bind_ok h
    have ih1 := avStmt_ok ht s Γ env env1 r1 hag h1
    simp only [avBlock]
    cases r1 with
    | some v =>
      simp only [pure, Except.pure, Except.ok.injEq, Prod.mk.injEq] at h2
      obtain ⟨rfl, rfl⟩ := h2
      obtain ⟨a, ha, hv⟩ := ih1
      split
      · obtain ⟨j, hj, hjv⟩ := joinOpt_left hv (avBlock tn (avStmt tn Γ s).env rest).ret
        exact ⟨j, by simp only [ha, hj], hjv⟩
      · exact ⟨a, ha, hv⟩
    | none =>
      simp only at h2
      obtain ⟨hf, hag1⟩ := ih1
      rw [if_pos hf]
      have ih2 := avBlock_ok ht rest _ env1 env' r hag1 h2
      cases r with
      | some v =>
        obtain ⟨a, ha, hv⟩ := ih2
        obtain ⟨j, hj, hjv⟩ := joinOpt_right hv (avStmt tn Γ s).ret
        exact ⟨j, by simp only [ha, hj], hjv⟩
      | none => exact ih2
end

/-- the value returned by a body (`None` when it falls off its end) -/
theorem avBody_ok {tn : Bool} {t : Val} (ht : tn = true → IsNonneg t) {body : List Stmt}
    {Γ : AEnv} {env env' : Env} {r : Option Val} (hag : Agree t Γ env)
    (h : execBlock env body = .ok (env', r)) : (avBody tn Γ body).holds t (r.getD .none) := by
  have hb := avBlock_ok ht body Γ env env' r hag h
  unfold avBody
  cases r with
  | some v =>
    obtain ⟨a, ha, hv⟩ := hb
    simp only [ha, Option.getD_some]
    obtain ⟨j, hj, hjv⟩ := joinOpt_left hv
      (if (avBlock tn Γ body).falls then some AV.top else none)
    rw [hj]
    exact hjv
  | none =>
    obtain ⟨hf, _⟩ := hb
    simp only [hf, if_true, Option.getD_none]
    obtain ⟨j, hj, hjv⟩ := joinOpt_right (AV.holds_top t .none) (avBlock tn Γ body).ret
    rw [hj]
    exact hjv

/-! ### functions -/

/-- the arguments are of the given classes (positions without a class are unconstrained) -/
def ArgsHold (argAbs : List Abs) (args : List Val) : Prop :=
  ∀ (j : Nat) (a : Abs) (v : Val), argAbs[j]? = some a → args[j]? = some v → a.holds v

theorem argsHold_of_forall₂ : ∀ {argAbs : List Abs} {args : List Val},
    List.Forall₂ Abs.holds argAbs args → ArgsHold argAbs args
  | _, _, .nil => fun j a v h => by simp at h
  | _ :: _, _ :: _, .cons h hrest => fun j a v ha hv => by
    cases j with
    | zero =>
      simp only [List.getElem?_cons_zero, Option.some.injEq] at ha hv
      subst ha hv
      exact h
    | succ j =>
      simp only [List.getElem?_cons_succ] at ha hv
      exact argsHold_of_forall₂ hrest j a v ha hv

theorem zip_agree {t : Val} : ∀ (names : List String) (avs : List AV) (vals : List Val),
    (∀ (j : Nat) (a : AV) (v : Val), avs[j]? = some a → vals[j]? = some v → a.holds t v) →
      Agree t (names.zip avs) (names.zip vals)
  | [], _, _, _ => agree_nil _ _
  | _ :: _, [], _, _ => agree_nil _ _
  | _ :: _, _ :: _, [], _ => fun x b w _ hw => by cases hw
  | n :: ns, a :: as, v :: vs, h => by
    intro x b w hb hw
    simp only [List.zip_cons_cons, AEnv.get?, Env.get?] at hb hw
    by_cases hnx : n = x
    · rw [if_pos hnx] at hb hw
      cases hb
      cases hw
      exact h 0 a v rfl rfl
    · rw [if_neg hnx] at hb hw
      exact zip_agree ns as vs (fun j a' v' ha hv => h (j + 1) a' v'
        (by simpa using ha) (by simpa using hv)) x b w hb hw

theorem plainEnv_zip : ∀ (names : List String) (as : List Abs),
    plainEnv (names.zip as) = names.zip (as.map fun a => (⟨a, false⟩ : AV))
  | [], _ => rfl
  | _ :: _, [] => rfl
  | n :: ns, a :: as => by
    simp only [List.zip_cons_cons, List.map_cons, plainEnv]
    congr 1
    exact plainEnv_zip ns as

theorem runFun_ok {f : FunDef} {args : List Val} {v : Val} (h : runFun f args = .ok v) :
    args.length = f.args.length ∧
      ∃ env' r, execBlock (f.args.zip args) f.body = .ok (env', r) ∧ v = r.getD .none := by
  unfold runFun at h
  by_cases hlen : args.length = f.args.length
  · simp only [hlen, ne_eq, not_true_eq_false, if_false] at h
    obtain ⟨⟨env', r⟩, h2, h3⟩ := bind_ok h
    simp only [pure, Except.pure, Except.ok.injEq] at h3
    exact ⟨hlen, env', r, h2, h3.symm⟩
  · simp only [ne_eq, hlen, not_false_eq_true, if_true] at h
    cases h

theorem absBlock_ok {Γ : List (String × Abs)} {body : List Stmt} {env env' : Env}
    {r : Option Val} (hag : Agree .none (plainEnv Γ) env)
    (h : execBlock env body = .ok (env', r)) : (absBlock Γ body).holds (r.getD .none) :=
  (avBody_ok (tn := false) (t := .none) (fun h => by cases h) hag h).1

theorem absFun_ok {argAbs : List Abs} {f : FunDef} {args : List Val} {v : Val}
    (ha : ArgsHold argAbs args) (h : runFun f args = .ok v) : (absFun argAbs f).holds v := by
  obtain ⟨_, env', r, hb, rfl⟩ := runFun_ok h
  refine absBlock_ok ?_ hb
  rw [plainEnv_zip]
  refine zip_agree _ _ _ (fun j a v hj hv => ?_)
  simp only [List.getElem?_map, Option.map_eq_some_iff] at hj
  obtain ⟨a', ha', rfl⟩ := hj
  exact ⟨ha j a' v ha' hv, fun hl => by cases hl⟩

theorem markFrom_get (i : Nat) : ∀ (l : List Abs) (k j : Nat),
    (markFrom k i l)[j]? = l[j]?.map fun a => (⟨a, decide (k + j = i)⟩ : AV)
  | [], k, j => by simp [markFrom]
  | a :: rest, k, 0 => by simp [markFrom]
  | a :: rest, k, j + 1 => by
    simp only [markFrom, List.getElem?_cons_succ]
    rw [markFrom_get i rest (k + 1) j]
    have : k + 1 + j = k + (j + 1) := by omega
    rw [this]

theorem absLeArg_ok {f : FunDef} {i : Nat} {argAbs : List Abs} {args : List Val} {v : Val}
    (hc : absLeArg f i argAbs = true) (ha : ArgsHold argAbs args)
    (h : runFun f args = .ok v) : ∃ t, args[i]? = some t ∧ numLe v t := by
  obtain ⟨hlen, env', r, hb, rfl⟩ := runFun_ok h
  unfold absLeArg at hc
  split at hc
  · rename_i a hai
    simp only [Bool.and_eq_true, decide_eq_true_eq] at hc
    obtain ⟨⟨hnum, hi⟩, hle⟩ := hc
    have hi' : i < args.length := by omega
    refine ⟨args[i], List.getElem?_eq_getElem hi', ?_⟩
    have hti : args[i]? = some args[i] := List.getElem?_eq_getElem hi'
    have htn : IsNonneg args[i] := holds_numeric hnum (ha i a _ hai hti)
    have hag : Agree args[i] (f.args.zip (markFrom 0 i argAbs)) (f.args.zip args) := by
      refine zip_agree _ _ _ (fun j b w hj hw => ?_)
      rw [markFrom_get] at hj
      simp only [Option.map_eq_some_iff] at hj
      obtain ⟨a', ha', rfl⟩ := hj
      refine ⟨ha j a' w ha' hw, fun hl => ?_⟩
      simp only [Nat.zero_add, decide_eq_true_eq] at hl
      subst hl
      rw [hti] at hw
      cases hw
      obtain ⟨o, ho⟩ := isNonneg_ord htn
      exact numLe_refl ho
    exact (avBody_ok (tn := true) (fun _ => htn) hag hb).2 hle
  · cases hc

/-! ### graphs -/

/-- time conversion: multiplication by a positive rational factor -/
def TimeConvRel (u v : Val) : Prop := ∃ c : Rat, 0 < c ∧ evalBin .mul u (.flt c) = .ok v

/-- The meaning of a node, for a family `val r` of valuations (one per row `r` of the data):
how the node's column is related to the columns it depends on. -/
def NodeSem {ρ : Type} (val : ρ → String → Val) (n : GNode) : Prop :=
  match n.kind with
  | .rule fn argNames => ∀ r, runFun fn (argNames.map (val r)) = .ok (val r n.name)
  | .input a => ∀ r, a.holds (val r n.name)
  | .sumAgg src => ∀ r, ∃ members : List ρ, members ≠ [] ∧
      sumVals (members.map fun r' => val r' src) = .ok (val r n.name)
  | .countAgg => ∀ r, ∃ k : Nat, 0 < k ∧ val r n.name = .int k
  | .maxAgg src => ∀ r, ∃ r', val r n.name = val r' src
  | .minAgg src => ∀ r, ∃ r', val r n.name = val r' src
  | .anyAgg _ => ∀ r, ∃ b, val r n.name = .bool b
  | .timeconv src => ∀ r, TimeConvRel (val r src) (val r n.name)
  | .opaque => True

/-- every entry of the table is correct in every row -/
def TblOk {ρ : Type} (val : ρ → String → Val) (tbl : List (String × Abs)) : Prop :=
  ∀ r x a, (x, a) ∈ tbl → a.holds (val r x)

theorem tblGet_holds {ρ : Type} {val : ρ → String → Val} : ∀ {tbl : List (String × Abs)},
    TblOk val tbl → ∀ r x, (tblGet tbl x).holds (val r x)
  | [], _, _, _ => trivial
  | (k, a) :: rest, h, r, x => by
    simp only [tblGet]
    split
    · rename_i hk
      subst hk
      exact h r k a List.mem_cons_self
    · exact tblGet_holds (fun r' x' a' hm => h r' x' a' (List.mem_cons_of_mem _ hm)) r x

theorem sum_nn : ∀ (vs : List Val) (acc v : Val), IsNonneg acc → (∀ m ∈ vs, IsNonneg m) →
    sumFrom acc vs = .ok v → IsNonneg v
  | [], acc, v, ha, _, h => by
    simp only [sumFrom, Except.ok.injEq] at h
    subst h
    exact ha
  | m :: rest, acc, v, ha, hall, h => by
    simp only [sumFrom] at h
    obtain ⟨acc', h1, h2⟩ := bind_ok h
    exact sum_nn rest acc' v (add_nn ha (hall m List.mem_cons_self) h1)
      (fun m' hm' => hall m' (List.mem_cons_of_mem _ hm')) h2

theorem sum_zero : ∀ (vs : List Val) (acc v : Val), IsZero acc → (∀ m ∈ vs, IsZero m) →
    sumFrom acc vs = .ok v → IsZero v
  | [], acc, v, ha, _, h => by
    simp only [sumFrom, Except.ok.injEq] at h
    subst h
    exact ha
  | m :: rest, acc, v, ha, hall, h => by
    simp only [sumFrom] at h
    obtain ⟨acc', h1, h2⟩ := bind_ok h
    exact sum_zero rest acc' v (add_zero_zero ha (hall m List.mem_cons_self) h1)
      (fun m' hm' => hall m' (List.mem_cons_of_mem _ hm')) h2

theorem sum_pos : ∀ (vs : List Val) (acc v : Val), IsPos acc → (∀ m ∈ vs, IsNonneg m) →
    sumFrom acc vs = .ok v → IsPos v
  | [], acc, v, ha, _, h => by
    simp only [sumFrom, Except.ok.injEq] at h
    subst h
    exact ha
  | m :: rest, acc, v, ha, hall, h => by
    simp only [sumFrom] at h
    obtain ⟨acc', h1, h2⟩ := bind_ok h
    exact sum_pos rest acc' v (add_pos_l ha (hall m List.mem_cons_self) h1)
      (fun m' hm' => hall m' (List.mem_cons_of_mem _ hm')) h2

theorem absSum_sound {a : Abs} {vs : List Val} {v : Val} (hne : vs ≠ [])
    (hall : ∀ m ∈ vs, a.holds m) (h : sumVals vs = .ok v) : (absSum a).holds v := by
  have h0 : IsZero (.int 0) := ⟨false, rfl⟩
  unfold sumVals at h
  cases a with
  | any => trivial
  | pnn => trivial
  | zero => exact sum_zero vs _ v h0 hall h
  | nonneg => exact sum_nn vs _ v (isZero_nonneg h0) hall h
  | bool => exact sum_nn vs _ v (isZero_nonneg h0) (fun m hm => isBool_nonneg (hall m hm)) h
  | pos =>
    cases vs with
    | nil => exact (hne rfl).elim
    | cons m rest =>
      simp only [sumFrom] at h
      obtain ⟨acc', h1, h2⟩ := bind_ok h
      exact sum_pos rest acc' v (add_pos_r (isZero_nonneg h0) (hall m List.mem_cons_self) h1)
        (fun m' hm' => isPos_nonneg (hall m' (List.mem_cons_of_mem _ hm'))) h2

theorem absTimeconv_sound {a : Abs} {u v : Val} (ha : a.holds u) (h : TimeConvRel u v) :
    (absTimeconv a).holds v := by
  obtain ⟨c, hc, h⟩ := h
  have hcp : IsPos (.flt c) := Or.inl ⟨c, true, rfl, hc⟩
  have ha' := holds_strip ha (evalBin_ok_ord h).1
  unfold absTimeconv
  cases hs : a.strip with
  | any => trivial
  | pnn => exact (strip_ne_pnn a hs).elim
  | zero => rw [hs] at ha'; exact mul_zero_l ha' h
  | pos => rw [hs] at ha'; exact mul_pos' ha' hcp h
  | nonneg => rw [hs] at ha'; exact mul_nn ha' (isPos_nonneg hcp) h
  | bool => rw [hs] at ha'; exact mul_nn (isBool_nonneg ha') (isPos_nonneg hcp) h

theorem nodeAbs_sound {ρ : Type} {val : ρ → String → Val} {tbl : List (String × Abs)}
    (htbl : TblOk val tbl) {n : GNode} (hn : NodeSem val n) :
    ∀ r, (nodeAbs tbl n.kind).holds (val r n.name) := by
  intro r
  unfold NodeSem at hn
  cases hk : n.kind with
  | rule fn argNames =>
    rw [hk] at hn
    simp only [nodeAbs]
    refine absFun_ok (fun j a v hj hv => ?_) (hn r)
    simp only [List.getElem?_map, Option.map_eq_some_iff] at hj hv
    obtain ⟨x, hx, rfl⟩ := hj
    obtain ⟨x', hx', rfl⟩ := hv
    rw [hx] at hx'
    cases hx'
    exact tblGet_holds htbl r x
  | input a =>
    rw [hk] at hn
    exact hn r
  | sumAgg src =>
    rw [hk] at hn
    obtain ⟨members, hne, hs⟩ := hn r
    simp only [nodeAbs]
    refine absSum_sound (fun he => hne (List.map_eq_nil_iff.mp he)) (fun m hm => ?_) hs
    obtain ⟨r', _, rfl⟩ := List.mem_map.mp hm
    exact tblGet_holds htbl r' src
  | countAgg =>
    rw [hk] at hn
    obtain ⟨k, hk0, hv⟩ := hn r
    simp only [nodeAbs]
    rw [hv]
    exact Or.inl ⟨_, false, rfl, by exact_mod_cast hk0⟩
  | maxAgg src =>
    rw [hk] at hn
    obtain ⟨r', hv⟩ := hn r
    simp only [nodeAbs]
    rw [hv]
    exact tblGet_holds htbl r' src
  | minAgg src =>
    rw [hk] at hn
    obtain ⟨r', hv⟩ := hn r
    simp only [nodeAbs]
    rw [hv]
    exact tblGet_holds htbl r' src
  | anyAgg src =>
    rw [hk] at hn
    obtain ⟨b, hv⟩ := hn r
    simp only [nodeAbs]
    rw [hv]
    exact ⟨b, rfl⟩
  | timeconv src =>
    rw [hk] at hn
    simp only [nodeAbs]
    exact absTimeconv_sound (tblGet_holds htbl r src) (hn r)
  | «opaque» => trivial

theorem signTableFrom_ok {ρ : Type} {val : ρ → String → Val} :
    ∀ (nodes : List GNode) (tbl : List (String × Abs)), TblOk val tbl →
      (∀ n ∈ nodes, NodeSem val n) → TblOk val (signTableFrom tbl nodes)
  | [], tbl, h, _ => h
  | n :: rest, tbl, h, hall => by
    simp only [signTableFrom]
    refine signTableFrom_ok rest _ ?_ (fun n' hn' => hall n' (List.mem_cons_of_mem _ hn'))
    intro r x a hm
    rcases List.mem_cons.mp hm with heq | hm
    · cases heq
      exact nodeAbs_sound h (hall n List.mem_cons_self) r
    · exact h r x a hm

theorem signTable_ok {ρ : Type} {val : ρ → String → Val} {nodes : List GNode}
    (hall : ∀ n ∈ nodes, NodeSem val n) : TblOk val (signTable nodes) := by
  intro r x a hm
  unfold signTable at hm
  rw [List.mem_reverse] at hm
  exact signTableFrom_ok nodes [] (fun _ _ _ h => by cases h) hall r x a hm

/-! ### the interface on plain sign tables -/

theorem plainEnv_get? : ∀ (Γ : List (String × Abs)) (x : String) (a : AV),
    (plainEnv Γ).get? x = some a → a = ⟨tblGet Γ x, false⟩
  | [], x, a, h => by cases h
  | (k, b) :: rest, x, a, h => by
    simp only [plainEnv, List.map_cons, AEnv.get?, tblGet] at h ⊢
    split at h
    · rename_i hk
      rw [if_pos hk]
      cases h
      rfl
    · rename_i hk
      rw [if_neg hk]
      exact plainEnv_get? rest x a h

/-- sign assumptions `Γ` hold of a concrete environment: every bound name has the class of
its first entry in `Γ` (names without an entry are unconstrained) -/
def EnvHolds (Γ : List (String × Abs)) (env : Env) : Prop :=
  ∀ x v, env.get? x = some v → (tblGet Γ x).holds v

theorem agree_plain {t : Val} {Γ : List (String × Abs)} {env : Env} (h : EnvHolds Γ env) :
    Agree t (plainEnv Γ) env := by
  intro x a v ha hv
  rw [plainEnv_get? Γ x a ha]
  exact ⟨h x v hv, fun hl => by cases hl⟩

theorem absExpr_ok {Γ : List (String × Abs)} {env : Env} {e : Expr} {v : Val}
    (h : EnvHolds Γ env) (he : evalExpr env e = .ok v) : (absExpr Γ e).holds v :=
  (avExpr_ok (tn := false) (t := .none) (fun h => by cases h) e _ env v (agree_plain h) he).1

/-- `numLe` on two numbers is `≤` of their values -/
theorem numLe_num {u v : Val} {p q : Rat} {fu fv : Bool} (h : numLe u v)
    (hu : num? u = some (p, fu)) (hv : num? v = some (q, fv)) : p ≤ q := by
  obtain ⟨a, b, ha, hb, hab⟩ := h
  rw [GV.Sym.ord?_num hu] at ha
  rw [GV.Sym.ord?_num hv] at hb
  cases ha
  cases hb
  simpa [ordLt] using hab

theorem allNonneg_ok {ρ : Type} {val : ρ → String → Val} {nodes : List GNode}
    (hall : ∀ n ∈ nodes, NodeSem val n) {targets : List String}
    (hc : allNonneg (signTable nodes) targets = true) :
    ∀ x ∈ targets, ∀ r, IsNonneg (val r x) := by
  intro x hx r
  unfold allNonneg at hc
  rw [List.all_eq_true] at hc
  exact holds_numeric (hc x hx) (tblGet_holds (signTable_ok hall) r x)

theorem leArg_graph_ok {ρ : Type} {val : ρ → String → Val} {nodes : List GNode}
    (hall : ∀ n ∈ nodes, NodeSem val n) {name : String} {fn : FunDef} {argNames : List String}
    (hmem : (⟨name, .rule fn argNames⟩ : GNode) ∈ nodes) {i : Nat}
    (hc : absLeArg fn i (argNames.map (tblGet (signTable nodes))) = true) :
    ∃ x, argNames[i]? = some x ∧ ∀ r, numLe (val r name) (val r x) := by
  have hsem : ∀ r, runFun fn (argNames.map (val r)) = .ok (val r name) := hall _ hmem
  have htbl := signTable_ok hall
  have hargs : ∀ r, ArgsHold (argNames.map (tblGet (signTable nodes))) (argNames.map (val r)) := by
    intro r j a v hj hv
    simp only [List.getElem?_map, Option.map_eq_some_iff] at hj hv
    obtain ⟨x, hx, rfl⟩ := hj
    obtain ⟨x', hx', rfl⟩ := hv
    rw [hx] at hx'
    cases hx'
    exact tblGet_holds htbl r x
  cases hi : argNames[i]? with
  | none =>
    have : (argNames.map (tblGet (signTable nodes)))[i]? = none := by
      simp only [List.getElem?_map, hi, Option.map_none]
    unfold absLeArg at hc
    rw [this] at hc
    cases hc
  | some x =>
    refine ⟨x, rfl, fun r => ?_⟩
    obtain ⟨t, ht, hle⟩ := absLeArg_ok hc (hargs r) (hsem r)
    simp only [List.getElem?_map, hi, Option.map_some, Option.some.injEq] at ht
    rw [← ht] at hle
    exact hle

theorem leFacts_ok {ρ : Type} {val : ρ → String → Val} {nodes : List GNode}
    (hall : ∀ n ∈ nodes, NodeSem val n) {x y : String} (hm : (x, y) ∈ leFacts nodes) :
    ∀ r, numLe (val r x) (val r y) := by
  unfold leFacts at hm
  simp only [List.mem_flatMap] at hm
  obtain ⟨n, hn, hm⟩ := hm
  obtain ⟨name, kind⟩ := n
  cases kind with
  | rule fn argNames =>
    simp only [List.mem_filterMap, List.mem_range] at hm
    obtain ⟨i, _, hi⟩ := hm
    split at hi
    · rename_i hc
      simp only [Option.map_eq_some_iff, Prod.mk.injEq] at hi
      obtain ⟨y', hy', rfl, rfl⟩ := hi
      obtain ⟨z, hz, hle⟩ := leArg_graph_ok hall hn hc
      rw [hy'] at hz
      cases hz
      exact hle
    · cases hi
  | input a => cases hm
  | sumAgg s => cases hm
  | countAgg => cases hm
  | maxAgg s => cases hm
  | minAgg s => cases hm
  | anyAgg s => cases hm
  | timeconv s => cases hm
  | «opaque» => cases hm

end GV.Sign
