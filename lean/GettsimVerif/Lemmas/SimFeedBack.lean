import GettsimVerif.Lemmas.SimExtraCol
import GettsimVerif.Lemmas.SimSpecs
/-
Helper lemmas for `Props/C05Rule.lean`: SYNTACTIC sufficient conditions (names and annotations
only) for the side conditions (F), (S), (T) of the feed-back theorem `simulate_feed_back_gen`
(`Props/C05Sim.lean`). All names are prefixed `fb_`.
-/
namespace GV.Simulate
open GV.Lang (Val FunDef)
open GV.VecDtype (R DT numOf dtypeOf)

/-! ### (F): a rule name without time-unit suffix -/

theorem fb_hasFn_rules {rf : List Fn} {n : String} (h : n ∈ rf.map (·.name)) :
    hasFn (merge [] rf) n = true := by
  rw [hasFn_iff, mem_names_merge]
  exact Or.inr h

theorem fb_contains_append_mem (l dc : List String) {n : String} (hn : n ∈ l) (x : String) :
    (l ++ (dc ++ [n])).contains x = (l ++ dc).contains x := by
  by_cases hx : x = n
  · subst hx
    have h1 : (l ++ (dc ++ [x])).contains x = true := by
      rw [List.contains_iff_mem]; exact List.mem_append_left _ hn
    have h2 : (l ++ dc).contains x = true := by
      rw [List.contains_iff_mem]; exact List.mem_append_left _ hn
    rw [h1, h2]
  · rw [← List.append_assoc, xc_contains_append_ne _ hx]

/-- a data column called like a RULE and without time-unit suffix leaves the function set alone -/
theorem fb_fnsStable_of_rule {inp : Input} {n : String} (hr : n ∈ inp.rules.map (·.name))
    (hp : TimeConv.parseName n = none) : ov_fnsStable inp n = true := by
  have hrf : n ∈ (inp.rules.map (ruleFn inp.rounding)).map (·.name) := by
    rw [List.map_map]
    exact hr
  have hhas := fb_hasFn_rules hrf
  unfold ov_fnsStable
  simp only [Bool.and_eq_true]
  refine ⟨?_, ?_⟩
  · rw [List.all_eq_true]
    intro s _
    unfold ov_pidKeep
    rw [TimeConv.xc_create_append [] _ n hp]
    by_cases hsn : s.2.source = n
    · rw [hsn, hhas]
      simp
    · rw [xc_contains_append_ne _ hsn]
      exact beq_self_eq_true _
  · cases hpid : pidFns (merge [] (inp.rules.map (ruleFn inp.rounding))) (inp.data.map (·.1)) inp.pidSpecs with
    | error e => rfl
    | ok pid =>
      simp only [Bool.and_eq_true, decide_eq_true_eq]
      refine ⟨TimeConv.xc_create_append _ _ n hp, ?_⟩
      rw [List.all_eq_true]
      intro col _
      unfold autoOk
      have hmem : n ∈ (merge (merge (timeConvFns (merge (merge [] (inp.rules.map (ruleFn inp.rounding))) pid)
          (inp.data.map (·.1))) (merge [] (inp.rules.map (ruleFn inp.rounding)))) pid).map (·.name) := by
        rw [mem_names_merge, mem_names_merge]
        exact Or.inl (Or.inr ((hasFn_iff _ _).1 hhas))
      rw [fb_contains_append_mem _ _ hmem]
      exact beq_self_eq_true _

/-! ### which function is called `n` in `all_functions` -/

theorem fb_lookupLast_none {β : Type} (l : List (String × β)) (n : String) (h : n ∉ l.map (·.1)) :
    lookupLast l n = none := by
  induction l with
  | nil => rfl
  | cons e l ih =>
    rw [List.map_cons, List.mem_cons, not_or] at h
    rw [lookupLast, ih h.2]
    have : ¬ e.1 = n := fun he => h.1 he.symm
    simp [this]

/-- a function of `fns` that is not the name of a user aggregation spec is no group aggregation -/
theorem fb_not_grp {fns : List Fn} {T dc : List String} {gs : List (String × GroupSpec)} {grp : List Fn}
    (h : groupAggFns fns T dc gs = .ok grp) {n : String} (hhas : hasFn fns n = true)
    (hgs : n ∉ gs.map (·.1)) : n ∉ grp.map (·.name) := by
  intro hmem
  obtain ⟨f, hf, rfl⟩ := List.mem_map.1 hmem
  obtain ⟨s, hs, _⟩ := (groupAggFns_spec h).1 f hf
  unfold specOfName at hs
  rw [fb_lookupLast_none _ _ hgs] at hs
  simp only [Option.none_or] at hs
  split at hs
  · rename_i hm
    have := (List.mem_filter.1 hm).2
    unfold autoOk at this
    rw [hhas] at this
    simp at this
  · cases hs

/-- **the function called like a rule is that rule**, unless an aggregation spec or one of the id
constructors of `groupings.py` has the same name -/
theorem fb_findFn_all {rf : List Fn} {gs : List (String × GroupSpec)} {ps : List (String × PidSpec)}
    {T dc : List String} {all : List Fn} (h : buildFunctions rf gs ps T dc = .ok all) {n : String}
    (hr : n ∈ rf.map (·.name)) (hgs : n ∉ gs.map (·.1)) (hgr : n ∉ groupingFns.map (·.name))
    {f : Fn} (hf : findFn? all n = some f) : f ∈ rf ∧ f.name = n := by
  obtain ⟨pid, grp, _, hgrp, rfl⟩ := buildFunctions_ok h
  refine ⟨?_, (findFn?_some hf).2⟩
  have hhas : hasFn (merge (merge (timeConvFns (merge (merge [] rf) pid) dc) (merge [] rf)) pid) n = true := by
    rw [hasFn_iff, mem_names_merge, mem_names_merge]
    exact Or.inl (Or.inr ((hasFn_iff _ _).1 (fb_hasFn_rules hr)))
  have h1 : findFn? groupingFns.reverse n = none := by
    rw [findFn?_eq_none_iff, List.map_reverse, List.mem_reverse]
    exact hgr
  have h2 : findFn? grp.reverse n = none := by
    rw [findFn?_eq_none_iff, List.map_reverse, List.mem_reverse]
    exact fb_not_grp hgrp hhas hgs
  rw [findFn?_merge, findFn?_merge, findFn?_merge, h1, h2] at hf
  simp only [Option.none_or] at hf
  cases hrr : findFn? (merge [] rf).reverse n with
  | none =>
    rw [findFn?_eq_none_iff, List.map_reverse, List.mem_reverse] at hrr
    exact absurd ((hasFn_iff _ _).1 (fb_hasFn_rules hr)) hrr
  | some g =>
    rw [hrr] at hf
    simp only [Option.some_or, Option.some.injEq] at hf
    subst hf
    have hg := List.mem_reverse.1 (findFn?_some hrr).1
    rcases loc_mem_merge hg with hg | hg
    · cases hg
    · exact hg

theorem fb_ruleFn {rules : List Rule} {b : Bool} {f : Fn} {n : String}
    (hf : f ∈ rules.map (ruleFn b)) (hn : f.name = n) : ∃ r ∈ rules, r.name = n ∧ f = ruleFn b r := by
  obtain ⟨r, hr, rfl⟩ := List.mem_map.1 hf
  exact ⟨r, hr, hn, rfl⟩

/-! ### (T): the conversion type is the declared return type -/

theorem fb_convTy_of_declared_rule {inp : Input} {n : String} {ty : Ty}
    (hr : n ∈ inp.rules.map (·.name))
    (hall : ∀ r ∈ inp.rules, r.name = n → r.ret = some ty)
    (hgs : n ∉ inp.groupSpecs.map (·.1)) (hgr : n ∉ groupingFns.map (·.name))
    (hin : find? typesInputVariables n = none) {ty' : Ty} (h : ov_convTy inp n = some ty') : ty' = ty := by
  have hrf : n ∈ (inp.rules.map (ruleFn inp.rounding)).map (·.name) := by
    rw [List.map_map]
    exact hr
  unfold ov_convTy at h
  rw [hin] at h
  simp only at h
  split at h
  · rename_i all hall'
    cases hfa : findFn? all n with
    | none => rw [hfa] at h; cases h
    | some f =>
      rw [hfa] at h
      obtain ⟨hfrf, hname⟩ := fb_findFn_all hall' hrf hgs hgr hfa
      obtain ⟨r, hrm, hrn, rfl⟩ := fb_ruleFn hfrf hname
      have hret := hall r hrm hrn
      simp only [Option.bind_some, ruleFn, hret, Option.some.injEq] at h
      exact h.symm
  · cases h

/-! ### (S): a rule with a data column among its arguments returns a 1-d array of the declared dtype -/

theorem fb_forall₂_mem_left {A B : Type} {R : A → B → Prop} {l : List A} {bs : List B}
    (h : List.Forall₂ R l bs) : ∀ a ∈ l, ∃ b ∈ bs, R a b := by
  induction h with
  | nil => intro a ha; cases ha
  | cons hab _ ih =>
    intro a ha
    rcases List.mem_cons.1 ha with rfl | ha
    · exact ⟨_, List.mem_cons_self, hab⟩
    · obtain ⟨b, hb, hr⟩ := ih a ha
      exact ⟨b, List.mem_cons_of_mem _ hb, hr⟩

theorem fb_broadcastLen_some {cols : List Col} {n? : Option Nat} (h : broadcastLen cols = .ok n?)
    {c : Col} (hc : c ∈ cols) (hs : c.shape = .arr) : n?.isNone = false := by
  unfold broadcastLen at h
  have hmem : c ∈ cols.filter (!·.scalar) := by
    rw [List.mem_filter]
    refine ⟨hc, ?_⟩
    simp [Col.scalar, hs]
  split at h
  · rename_i hnil
    rw [hnil] at hmem
    cases hmem
  · split at h
    · cases h; rfl
    · cases h

/-- the value of a declared, unrounded rule one of whose arguments is a data column -/
theorem fb_value_of_declared_rule {inp : Input} {n : String} {ty : Ty} {tbl : Table}
    (h : simulate inp = .ok tbl) (hn : n ∈ inp.targets)
    (hr : n ∈ inp.rules.map (·.name))
    (hall : ∀ r ∈ inp.rules, r.name = n → r.ret = some ty ∧
      (r.roundingKey = none ∨ inp.rounding = false) ∧
      ∃ a ∈ r.fn.args, isParamArg a = false ∧ a ∈ inp.data.map (·.1))
    (hgs : n ∉ inp.groupSpecs.map (·.1)) (hgr : n ∉ groupingFns.map (·.name)) :
    ∃ v, ov_value inp n = .ok v ∧ v.shape = .arr ∧ v.dt = ty.toDT := by
  have hrf : n ∈ (inp.rules.map (ruleFn inp.rounding)).map (·.name) := by
    rw [List.map_map]
    exact hr
  obtain ⟨pr, v, f, args, hpr, hv, _, _, hf, hargs, hop⟩ := sp_target_unfold h hn
  refine ⟨v, hv, ?_⟩
  obtain ⟨raw, all, hraw, hall', hconv, hfns, _⟩ := prepare_ok hpr
  have hfall : findFn? all n = some f := by
    have := findFn?_filter_name (fun x => !(raw.map (·.1)).contains x) all n
    rw [hfns, this] at hf
    split at hf
    · exact hf
    · cases hf
  obtain ⟨hfrf, hname⟩ := fb_findFn_all hall' hrf hgs hgr hfall
  obtain ⟨r, hrm, hrn, rfl⟩ := fb_ruleFn hfrf hname
  obtain ⟨hret, hkey, a, ha, hpa, had⟩ := hall r hrm hrn
  have hk : (ruleFn inp.rounding r).kind = .rule r.fn (some ty) none := by
    unfold ruleFn
    simp only [hret]
    rcases hkey with hkey | hkey
    · rw [hkey]; simp
    · rw [hkey]; simp
  rw [sp_nodeLazy_rule hk, sp_lazySpec_unkeyed hk] at hop
  have hargs_ne : r.fn.args ≠ [] := List.ne_nil_of_mem ha
  obtain ⟨n?, hb, hdt, hsh, _, _⟩ := mi_ruleOp_rowwise hargs_ne hop
  have hfree : a ∈ freeArgs inp.params (ruleFn inp.rounding r) := by
    unfold freeArgs
    rw [List.mem_filter]
    refine ⟨ha, ?_⟩
    rw [hpa]
    rfl
  obtain ⟨c, hc, _, hcd⟩ := fb_forall₂_mem_left hargs a hfree
  have hdata : a ∈ pr.data.map (·.1) := by
    rw [convertData_names hconv, typedData_names hraw]
    exact had
  have hcs : c.shape = .arr := by
    rcases hcd with hcd | hcd
    · exact sp_prepare_data_arr hpr (a, c) (Dag.find?_mem _ _ _ hcd)
    · exact absurd hdata ((Dag.find?_eq_none_iff _ _).1 hcd.1)
  have := fb_broadcastLen_some hb hc hcs
  rw [this] at hsh
  exact ⟨hsh, hdt⟩

end GV.Simulate
