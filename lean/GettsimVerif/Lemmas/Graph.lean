import GettsimVerif.Core.Graph
import GettsimVerif.Core.Dag
/-
Specification predicates for C08 (`Reads`, `Path`, `Acyclic`, `IsChain`, `ReachIn`),
specifications of the single-pass loops of `Core/Graph.lean`, and the helper lemmas used by
`Props/C08.lean` (core-only).
-/
namespace GV.Graph

theorem edgesLoop_spec (n w P : Nat) :
    ∀ (l : List (List Nat)) (i : Nat), edgesLoop n w P l i = true →
      ∀ j d, d ∈ l.getD j [] → d < n ∧ look w P d < look w P (i + j) := by
  intro l
  induction l with
  | nil => intro i _ j d hd; simp at hd
  | cons ds rest ih =>
    intro i h j d hd
    simp only [edgesLoop, Bool.and_eq_true, List.all_eq_true, decide_eq_true_eq] at h
    cases j with
    | zero =>
      simp only [List.getD_cons_zero] at hd
      exact h.1 d hd
    | succ j =>
      simp only [List.getD_cons_succ] at hd
      have := ih (i + 1) h.2 j d hd
      rwa [show i + 1 + j = i + (j + 1) by omega] at this

theorem backLoop_spec (n w P : Nat) :
    ∀ (l : List Nat) (k : Nat), backLoop n w P l k = true →
      ∀ j v, l[j]? = some v → v < n ∧ look w P v = k + j := by
  intro l
  induction l with
  | nil => intro k _ j v hv; simp at hv
  | cons x rest ih =>
    intro k h j v hv
    simp only [backLoop, Bool.and_eq_true, decide_eq_true_eq, beq_iff_eq] at h
    cases j with
    | zero =>
      simp only [List.getElem?_cons_zero, Option.some.injEq] at hv
      subst hv
      exact ⟨h.1.1, by omega⟩
    | succ j =>
      simp only [List.getElem?_cons_succ] at hv
      have := ih (k + 1) h.2 j v hv
      exact ⟨this.1, by omega⟩

theorem maskLoop_testBit (a : Nat) :
    ∀ (l : List Nat) (acc : Nat),
      (maskLoop l acc).testBit a = (acc.testBit a || decide (a ∈ l)) := by
  intro l
  induction l with
  | nil => intro acc; simp [maskLoop]
  | cons v rest ih =>
    intro acc
    simp only [maskLoop, ih, Nat.testBit_or, Nat.one_shiftLeft, Nat.testBit_two_pow,
      List.mem_cons]
    by_cases h : v = a
    · simp [h]
    · have : ¬ a = v := fun e => h e.symm
      simp [h, this]

theorem mem_of_mask {n : Nat} {l : List Nat} (h : maskLoop l 0 = 2 ^ n - 1) {a : Nat}
    (ha : a < n) : a ∈ l := by
  have := maskLoop_testBit a l 0
  rw [h, Nat.testBit_two_pow_sub_one] at this
  simpa [ha] using this

theorem mem_rootsLoop (x : Nat) :
    ∀ (m : Nat) (l : List (List Nat)) (i : Nat),
      x ∈ rootsLoop l i m ↔ ∃ j, j < m ∧ x = i + j ∧ l.getD j [] = [] := by
  intro m
  induction m with
  | zero => intro l i; simp [rootsLoop]
  | succ m ih =>
    intro l i
    cases l with
    | nil =>
      simp only [rootsLoop, List.mem_cons, ih]
      constructor
      · rintro (h | ⟨j, hj, hx, _⟩)
        · exact ⟨0, by omega, by omega, by simp⟩
        · exact ⟨j + 1, by omega, by omega, by simp⟩
      · rintro ⟨j, hj, hx, _⟩
        cases j with
        | zero => left; omega
        | succ j => right; exact ⟨j, by omega, by omega, by simp⟩
    | cons ds rest =>
      simp only [rootsLoop]
      by_cases hds : ds = []
      · subst hds
        simp only [List.isEmpty_nil, if_true, List.mem_cons, ih]
        constructor
        · rintro (h | ⟨j, hj, hx, hr⟩)
          · exact ⟨0, by omega, by omega, by simp⟩
          · exact ⟨j + 1, by omega, by omega, by simpa using hr⟩
        · rintro ⟨j, hj, hx, hr⟩
          cases j with
          | zero => left; omega
          | succ j => right; exact ⟨j, by omega, by omega, by simpa using hr⟩
      · have he : ds.isEmpty = false := by cases ds <;> simp_all
        simp only [he, Bool.false_eq_true, if_false, ih]
        constructor
        · rintro ⟨j, hj, hx, hr⟩
          exact ⟨j + 1, by omega, by omega, by simpa using hr⟩
        · rintro ⟨j, hj, hx, hr⟩
          cases j with
          | zero => simp [hds] at hr
          | succ j => exact ⟨j, by omega, by omega, by simpa using hr⟩

/-! ### specification predicates and helper lemmas for `Props/C08.lean` -/

/-- node `a` reads node `b` -/
def Reads (g : G) (a b : Nat) : Prop := b ∈ g.depsOf a

instance (g : G) (a b : Nat) : Decidable (Reads g a b) := by unfold Reads; infer_instance

/-- non-empty directed path `a → … → c` along `Reads` (transitive closure) -/
inductive Path (g : G) : Nat → Nat → Prop
  | single {a b : Nat} : Reads g a b → Path g a b
  | cons {a b c : Nat} : Reads g a b → Path g b c → Path g a c

/-- no directed cycle (in particular no self-loop) -/
def Acyclic (g : G) : Prop := ∀ a, ¬ Path g a a

/-- `path` is a dependency chain: every element reads its successor -/
def IsChain (g : G) : List Nat → Prop
  | [] => True
  | [_] => True
  | a :: b :: rest => Reads g a b ∧ IsChain g (b :: rest)

/-- at most `k` dependency steps lead from `a` to `b` -/
inductive ReachIn (g : G) : Nat → Nat → Nat → Prop
  | refl {k a : Nat} : ReachIn g k a a
  | step {k a b c : Nat} : Reads g a b → ReachIn g k b c → ReachIn g (k + 1) a c

/-- the facts extracted from `certOK`: an edge starts and ends inside the graph and goes
strictly downwards in `rank` -/
theorem cert_edge {g : G} {order : List Nat} (h : certOK g order = true) {a b : Nat}
    (hr : Reads g a b) : a < g.n ∧ b < g.n ∧ rank g order b < rank g order a := by
  simp only [certOK, Bool.and_eq_true, beq_iff_eq] at h
  obtain ⟨⟨⟨⟨hlen, _⟩, _⟩, _⟩, hedges⟩ := h
  have ha : a < g.n := by
    rw [← hlen]
    apply Classical.byContradiction
    intro hge
    have : g.depsOf a = [] := by
      simp only [G.depsOf, List.getD_eq_getElem?_getD]
      rw [List.getElem?_eq_none (by omega)]; rfl
    simp [Reads, this] at hr
  have := edgesLoop_spec g.n (width g.n) (posPack g.n order) g.deps 0 hedges a b hr
  rw [Nat.zero_add] at this
  refine ⟨ha, this.1, ?_⟩
  simp only [rank, ha, this.1, if_true]
  exact this.2

/-- the rank of a node of the graph is `< n` -/
theorem rank_lt {g : G} {order : List Nat} (h : certOK g order = true) {a : Nat}
    (ha : a < g.n) : rank g order a < g.n := by
  simp only [certOK, Bool.and_eq_true, beq_iff_eq] at h
  obtain ⟨⟨⟨⟨_, hlen⟩, hmask⟩, hback⟩, _⟩ := h
  obtain ⟨k, hk⟩ := List.mem_iff_getElem?.1 (mem_of_mask hmask ha)
  have := backLoop_spec _ _ _ order 0 hback k a hk
  obtain ⟨hk', _⟩ := List.getElem?_eq_some_iff.1 hk
  simp only [rank, ha, if_true]
  omega

theorem path_rank {g : G} {order : List Nat} (h : certOK g order = true) {a b : Nat}
    (p : Path g a b) : rank g order b < rank g order a := by
  induction p with
  | single hr => exact (cert_edge h hr).2.2
  | cons hr _ ih => have := (cert_edge h hr).2.2; omega

theorem chain_rank {g : G} {order : List Nat} (h : certOK g order = true) :
    ∀ (rest : List Nat) (a : Nat), IsChain g (a :: rest) →
      (∀ z ∈ rest, rank g order z < rank g order a) ∧ rest.length ≤ rank g order a := by
  intro rest
  induction rest with
  | nil => intro a _; simp
  | cons b rest ih =>
    intro a hc
    obtain ⟨hab, hc'⟩ := hc
    have hlt := (cert_edge h hab).2.2
    obtain ⟨h1, h2⟩ := ih b hc'
    refine ⟨?_, by simp only [List.length_cons]; omega⟩
    intro z hz
    rcases List.mem_cons.1 hz with rfl | hz
    · exact hlt
    · have := h1 z hz; omega

open GV.Dag in
theorem evalAll_not_other {α : Type} (ev : Name → Except Err α) :
    ∀ ns : List Name, (∀ d ∈ ns, ev d ≠ .error .other) → evalAll ev ns ≠ .error .other := by
  intro ns
  induction ns with
  | nil => intro _ h; simp [evalAll] at h
  | cons d rest ih =>
    intro hall
    have hd := hall d (by simp)
    have hrest := ih (fun x hx => hall x (by simp [hx]))
    simp only [evalAll, bind, Except.bind, pure, Except.pure]
    cases hev : ev d with
    | error e => simp only [ne_eq, Except.error.injEq]; intro he; exact hd (by rw [hev, he])
    | ok v =>
      cases hr : evalAll ev rest with
      | error e => simp only [ne_eq, Except.error.injEq]; intro he; exact hrest (by rw [hr, he])
      | ok vs => simp

theorem mem_roots {g : G} {i : Nat} : i ∈ roots g ↔ i < g.n ∧ g.depsOf i = [] := by
  simp only [roots, mem_rootsLoop, G.depsOf]
  constructor
  · rintro ⟨j, hj, hx, hr⟩
    have : i = j := by omega
    subst this; exact ⟨hj, hr⟩
  · rintro ⟨hi, hr⟩
    exact ⟨i, hi, by omega, hr⟩

theorem mem_expand {g : G} {seen : List Nat} {v : Nat} :
    v ∈ expand g seen ↔ v ∈ seen ∨ ∃ s ∈ seen, Reads g s v := by
  have key : ∀ (ds acc : List Nat),
      v ∈ ds.foldl (fun acc d => if acc.contains d then acc else acc ++ [d]) acc ↔
        v ∈ acc ∨ v ∈ ds := by
    intro ds
    induction ds with
    | nil => intro acc; simp
    | cons d ds ih =>
      intro acc
      simp only [List.foldl_cons, ih, List.mem_cons]
      by_cases hc : acc.contains d = true
      · have hm : d ∈ acc := List.contains_iff_mem.1 hc
        simp only [hc, if_true]
        constructor
        · rintro (h | h)
          · exact Or.inl h
          · exact Or.inr (Or.inr h)
        · rintro (h | rfl | h)
          · exact Or.inl h
          · exact Or.inl hm
          · exact Or.inr h
      · have hc' : acc.contains d = false := by simpa using hc
        simp only [hc', Bool.false_eq_true, if_false, List.mem_append, List.mem_singleton]
        constructor
        · rintro ((h | h) | h)
          · exact Or.inl h
          · exact Or.inr (Or.inl h)
          · exact Or.inr (Or.inr h)
        · rintro (h | h | h)
          · exact Or.inl (Or.inl h)
          · exact Or.inl (Or.inr h)
          · exact Or.inr h
  simp only [expand, key, List.mem_flatMap, Reads]

theorem reachIn_snoc {g : G} {k : Nat} {a b c : Nat} (p : ReachIn g k a b) (hr : Reads g b c) :
    ReachIn g (k + 1) a c := by
  induction p with
  | refl => exact .step hr .refl
  | step hab _ ih => exact .step hab (ih hr)

theorem reachIn_mono {g : G} {k : Nat} {a b : Nat} (p : ReachIn g k a b) :
    ReachIn g (k + 1) a b := by
  induction p with
  | refl => exact .refl
  | step hab _ ih => exact .step hab ih

end GV.Graph
