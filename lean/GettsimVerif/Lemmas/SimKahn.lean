import GettsimVerif.Core.Simulate
import Mathlib.Data.List.Perm.Subperm
/-
The cycle check of `plan` (`hasCycle` = Kahn's algorithm `topoOrder` does not visit every node):
a successful run yields a rank function that decreases along every edge (`rank_of_acyclic`), and a
graph with such a rank function passes the check (`acyclic_of_rank`).
-/
namespace GV.Simulate

theorem nodup_length_le {l m : List String} (hl : l.Nodup) (hsub : ∀ x ∈ l, x ∈ m) : l.length ≤ m.length :=
  (hl.subperm hsub).length_le

theorem minName_mem : ∀ {l : List String} {m : String}, minName l = some m → m ∈ l := by
  intro l
  induction l with
  | nil => intro m h; cases h
  | cons x xs ih =>
    intro m h
    rw [minName] at h
    cases hxs : minName xs with
    | none => rw [hxs] at h; simp only [Option.some.injEq] at h; subst h; exact List.mem_cons_self
    | some m' =>
      rw [hxs] at h
      simp only [Option.some.injEq] at h
      split at h
      · subst h; exact List.mem_cons_self
      · subst h; exact List.mem_cons_of_mem _ (ih hxs)

theorem minName_ne_none {l : List String} (h : l ≠ []) : ∃ m, minName l = some m := by
  cases l with
  | nil => exact absurd rfl h
  | cons x xs =>
    rw [minName]
    cases minName xs with
    | none => exact ⟨x, rfl⟩
    | some m' => exact ⟨_, rfl⟩

/-- the list of visited nodes, newest first: every node was ready when it was visited -/
inductive Sorted (g : List (String × List String)) : List String → Prop
  | nil : Sorted g []
  | cons {n : String} {rest : List String} {ds : List String} :
      (n, ds) ∈ g → (∀ d ∈ ds, d ∈ rest) → n ∉ rest → Sorted g rest → Sorted g (n :: rest)

theorem Sorted.nodup {g : List (String × List String)} {l : List String} (h : Sorted g l) : l.Nodup := by
  induction h with
  | nil => exact List.nodup_nil
  | cons _ _ hn _ ih => exact List.nodup_cons.2 ⟨hn, ih⟩

theorem Sorted.names {g : List (String × List String)} {l : List String} (h : Sorted g l) :
    ∀ n ∈ l, n ∈ g.map (·.1) := by
  induction h with
  | nil => intro n hn; cases hn
  | @cons n rest ds hg _ _ _ ih =>
    intro m hm
    rcases List.mem_cons.1 hm with rfl | hm
    · exact List.mem_map.2 ⟨(m, ds), hg, rfl⟩
    · exact ih m hm

theorem Sorted.suffix {g : List (String × List String)} {l : List String} (h : Sorted g l) :
    ∀ A n rest, l = A ++ n :: rest → ∃ ds, (n, ds) ∈ g ∧ ∀ d ∈ ds, d ∈ rest := by
  induction h with
  | nil => intro A n rest h; cases A <;> cases h
  | @cons m rest0 ds hg hds _ _ ih =>
    intro A n rest h
    cases A with
    | nil =>
      simp only [List.nil_append, List.cons.injEq] at h
      obtain ⟨rfl, rfl⟩ := h
      exact ⟨ds, hg, hds⟩
    | cons a A =>
      simp only [List.cons_append, List.cons.injEq] at h
      exact ih A n rest h.2

theorem topoLoop_sorted (g : List (String × List String)) :
    ∀ (k : Nat) (done : List String), Sorted g done →
      ∃ final, topoLoop g k done = final.reverse ∧ Sorted g final := by
  intro k
  induction k with
  | zero => intro done h; exact ⟨done, rfl, h⟩
  | succ k ih =>
    intro done h
    rw [topoLoop]
    simp only
    cases hm : minName ((g.filter fun (n, ds) => !done.contains n && ds.all done.contains).map (·.1)) with
    | none => exact ⟨done, rfl, h⟩
    | some m =>
      simp only
      apply ih
      obtain ⟨⟨m', ds⟩, he, rfl⟩ := List.mem_map.1 (minName_mem hm)
      rw [List.mem_filter] at he
      obtain ⟨hg, hp⟩ := he
      simp only [Bool.and_eq_true, Bool.not_eq_true', List.all_eq_true, List.contains_eq_mem,
        decide_eq_true_eq, decide_eq_false_iff_not] at hp
      exact Sorted.cons hg hp.2 hp.1 h

/-- rank of a node: 1 + the number of function nodes (`fn`) visited before it, 0 for other nodes -/
def rkOf (fn : String → Bool) : List String → String → Nat
  | [], _ => 0
  | n :: rest, x => if n = x then (if fn x then 1 + (rest.filter fn).length else 0) else rkOf fn rest x

theorem rkOf_le (fn : String → Bool) (l : List String) (x : String) :
    rkOf fn l x ≤ (l.filter fn).length := by
  induction l with
  | nil => simp [rkOf]
  | cons n rest ih =>
    rw [rkOf]
    split
    · rename_i h; subst h
      split
      · rename_i hf; rw [List.filter_cons_of_pos hf]; simp; omega
      · omega
    · refine Nat.le_trans ih ?_
      rw [List.filter_cons]
      split <;> simp

theorem rkOf_append_of_not_mem (fn : String → Bool) (A l : List String) (x : String) (h : x ∉ A) :
    rkOf fn (A ++ l) x = rkOf fn l x := by
  induction A with
  | nil => rfl
  | cons a A ih =>
    simp only [List.mem_cons, not_or] at h
    rw [List.cons_append, rkOf, if_neg (fun e => h.1 e.symm)]
    exact ih h.2

/-- **K1.** If the cycle check passes, the node names are distinct and there is a rank function
that is positive exactly... (see the three clauses): bounded by the number of `fn`-nodes visited,
and strictly decreasing along every edge that starts in an `fn`-node. -/
theorem rank_of_acyclic (g : List (String × List String)) (fn : String → Bool)
    (h : hasCycle g = false) :
    (g.map (·.1)).Nodup ∧ ∃ r : String → Nat,
      (∀ x, r x ≤ ((g.map (·.1)).filter fn).length) ∧
      (∀ n ds, (n, ds) ∈ g → fn n = true → ∀ d ∈ ds, r d < r n) := by
  unfold hasCycle topoOrder at h
  obtain ⟨final, hfin, hs⟩ := topoLoop_sorted g g.length [] Sorted.nil
  rw [hfin, List.length_reverse] at h
  have hlen : g.length ≤ final.length := by simpa using h
  have hsp := hs.nodup.subperm hs.names
  have hperm : final.Perm (g.map (·.1)) := hsp.perm_of_length_le (by simpa using hlen)
  have hnd : (g.map (·.1)).Nodup := hperm.nodup_iff.1 hs.nodup
  refine ⟨hnd, rkOf fn final, ?_, ?_⟩
  · intro x
    refine Nat.le_trans (rkOf_le fn final x) ?_
    exact Nat.le_of_eq (hperm.filter fn).length_eq
  · intro n ds hg hfn d hd
    have hn : n ∈ final := hperm.mem_iff.2 (List.mem_map.2 ⟨(n, ds), hg, rfl⟩)
    obtain ⟨A, rest, rfl⟩ := List.append_of_mem hn
    obtain ⟨ds', hg', hds'⟩ := hs.suffix A n rest rfl
    -- the entry of `n` is unique
    have : ds' = ds := by
      have key : ∀ (l : List (String × List String)), (l.map (·.1)).Nodup → (n, ds') ∈ l → (n, ds) ∈ l → ds' = ds := by
        intro l
        induction l with
        | nil => intro _ h; cases h
        | cons e l ih =>
          intro hnd h1 h2
          rw [List.map_cons, List.nodup_cons] at hnd
          rcases List.mem_cons.1 h1 with h1' | h1'
          · rcases List.mem_cons.1 h2 with h2' | h2'
            · rw [← h1'] at h2'
              exact (Prod.mk.inj h2').2.symm
            · subst h1'
              exact absurd (List.mem_map.2 ⟨(n, ds), h2', rfl⟩ : n ∈ l.map (·.1)) hnd.1
          · rcases List.mem_cons.1 h2 with h2' | h2'
            · subst h2'
              exact absurd (List.mem_map.2 ⟨(n, ds'), h1', rfl⟩ : n ∈ l.map (·.1)) hnd.1
            · exact ih hnd.2 h1' h2'
      exact key g hnd hg' hg
    subst this
    have hnd' := hs.nodup
    rw [List.nodup_append] at hnd'
    obtain ⟨_, hnr, hdisj⟩ := hnd'
    have hnA : n ∉ A := fun ha => hdisj n ha n List.mem_cons_self rfl
    have hdrest := hds' d hd
    have hdA : d ∉ A := fun ha => hdisj d ha d (List.mem_cons_of_mem _ hdrest) rfl
    have hdn : n ≠ d := fun e => (List.nodup_cons.1 hnr).1 (e ▸ hdrest)
    rw [rkOf_append_of_not_mem fn A _ n hnA, rkOf_append_of_not_mem fn A _ d hdA]
    have h1 : rkOf fn (n :: rest) n = 1 + (rest.filter fn).length := by
      rw [rkOf, if_pos rfl, if_pos hfn]
    have h2 : rkOf fn (n :: rest) d = rkOf fn rest d := by
      rw [rkOf, if_neg hdn]
    rw [h1, h2]
    have := rkOf_le fn rest d
    omega

/-- among a non-empty list of candidates there is one of minimal rank -/
theorem exists_min_rank {β : Type} (r : β → Nat) : ∀ (l : List β), l ≠ [] →
    ∃ e ∈ l, ∀ e' ∈ l, r e ≤ r e' := by
  intro l
  induction l with
  | nil => intro h; exact absurd rfl h
  | cons a l ih =>
    intro _
    cases l with
    | nil => exact ⟨a, List.mem_cons_self, fun e' he' => by simp at he'; subst he'; exact Nat.le_refl _⟩
    | cons b l =>
      obtain ⟨e, he, hmin⟩ := ih (by simp)
      by_cases hae : r a ≤ r e
      · refine ⟨a, List.mem_cons_self, ?_⟩
        intro e' he'
        rcases List.mem_cons.1 he' with rfl | he'
        · exact Nat.le_refl _
        · exact Nat.le_trans hae (hmin e' he')
      · refine ⟨e, List.mem_cons_of_mem _ he, ?_⟩
        intro e' he'
        rcases List.mem_cons.1 he' with rfl | he'
        · omega
        · exact hmin e' he'

theorem topoLoop_complete (g : List (String × List String)) (r : String → Nat)
    (hnd : (g.map (·.1)).Nodup)
    (hr : ∀ n ds, (n, ds) ∈ g → ∀ d ∈ ds, d ∈ g.map (·.1) ∧ r d < r n) :
    ∀ (k : Nat) (done : List String), done.Nodup → (∀ n ∈ done, n ∈ g.map (·.1)) →
      done.length + k = g.length → (topoLoop g k done).length = g.length := by
  intro k
  induction k with
  | zero => intro done _ _ hlen; simp [topoLoop]; omega
  | succ k ih =>
    intro done hdn hdsub hlen
    rw [topoLoop]
    simp only
    -- some node is not yet visited
    have hC : (g.filter fun e => !done.contains e.1) ≠ [] := by
      intro hC
      have hall : ∀ x ∈ g.map (·.1), x ∈ done := by
        intro x hx
        obtain ⟨e, he, rfl⟩ := List.mem_map.1 hx
        have : e ∉ g.filter fun e => !done.contains e.1 := by rw [hC]; exact List.not_mem_nil
        rw [List.mem_filter] at this
        have h2 : ¬ ((!done.contains e.1) = true) := fun h => this ⟨he, h⟩
        simpa using h2
      have := nodup_length_le hnd hall
      simp at this
      omega
    obtain ⟨e, he, hmin⟩ := exists_min_rank (fun e : String × List String => r e.1) _ hC
    rw [List.mem_filter] at he
    obtain ⟨heg, hed⟩ := he
    have hready : e ∈ g.filter fun (n, ds) => !done.contains n && ds.all done.contains := by
      rw [List.mem_filter]
      refine ⟨heg, ?_⟩
      obtain ⟨n, ds⟩ := e
      simp only [Bool.and_eq_true, List.all_eq_true]
      refine ⟨hed, ?_⟩
      intro d hd
      obtain ⟨hdg, hrd⟩ := hr n ds heg d hd
      by_contra hnot
      obtain ⟨e', he', hname⟩ := List.mem_map.1 hdg
      have : e' ∈ g.filter fun e => !done.contains e.1 := by
        rw [List.mem_filter]
        refine ⟨he', ?_⟩
        rw [hname]
        simpa using hnot
      have := hmin e' this
      simp only [hname] at this
      omega
    have hne : ((g.filter fun (n, ds) => !done.contains n && ds.all done.contains).map (·.1)) ≠ [] := by
      intro h
      have := List.mem_map_of_mem (f := (·.1)) hready
      rw [h] at this
      cases this
    obtain ⟨m, hm⟩ := minName_ne_none hne
    rw [hm]
    simp only
    obtain ⟨⟨m', ds'⟩, hme, rfl⟩ := List.mem_map.1 (minName_mem hm)
    rw [List.mem_filter] at hme
    obtain ⟨hmg, hmp⟩ := hme
    simp only [Bool.and_eq_true, Bool.not_eq_true', List.contains_eq_mem, decide_eq_false_iff_not] at hmp
    apply ih
    · exact List.nodup_cons.2 ⟨hmp.1, hdn⟩
    · intro n hn
      rcases List.mem_cons.1 hn with rfl | hn
      · exact List.mem_map.2 ⟨(n, ds'), hmg, rfl⟩
      · exact hdsub n hn
    · simp only [List.length_cons]; omega

/-- **K2.** A graph with distinct node names in which every edge leads to a node of smaller rank
passes the cycle check. -/
theorem acyclic_of_rank (g : List (String × List String)) (r : String → Nat)
    (hnd : (g.map (·.1)).Nodup)
    (hr : ∀ n ds, (n, ds) ∈ g → ∀ d ∈ ds, d ∈ g.map (·.1) ∧ r d < r n) : hasCycle g = false := by
  unfold hasCycle topoOrder
  rw [topoLoop_complete g r hnd hr g.length [] List.nodup_nil (by intro n h; cases h) (by simp)]
  simp

end GV.Simulate
