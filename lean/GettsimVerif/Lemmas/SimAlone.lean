import GettsimVerif.Lemmas.SimTargets
import GettsimVerif.Lemmas.TimeConvNames
/-
Helper lemmas for `simulate_subtargets_succeed` / `simulate_target_alone_succeeds`
(`Props/C04Sim.lean`): a successful call stays successful when targets are dropped.
-/
namespace GV.Simulate
open GV.Lang (Val)

theorem prepare_ok' {ruleFns : List Fn} {gs : List (String × GroupSpec)}
    {ps : List (String × PidSpec)} {data : List (String × Column)} {targets : List String} {pr : Prep}
    (h : prepare ruleFns gs ps data targets = .ok pr) :
    ∃ raw all, typedData data = .ok raw ∧ checkData raw = .ok () ∧
      buildFunctions ruleFns gs ps targets (raw.map (·.1)) = .ok all ∧
      targets.all (hasFn all) = true ∧
      convertData raw (all.filter fun f => (raw.map (·.1)).contains f.name) = .ok pr.data ∧
      pr.fns = all.filter (fun f => !(raw.map (·.1)).contains f.name) ∧
      pr.dataCols = raw.map (·.1) ∧ targets.all (hasFn pr.fns) = true := by
  unfold prepare at h
  obtain ⟨typed, htyped, h⟩ := bind_ok h
  obtain ⟨u, hcheck, h⟩ := bind_ok h
  obtain ⟨all, hall, h⟩ := bind_ok h
  split at h
  · obtain ⟨_, h', _⟩ := bind_ok h
    cases h'
  · rename_i hc1
    obtain ⟨conv, hconv, h⟩ := bind_ok h
    split at h
    · obtain ⟨_, h', _⟩ := bind_ok h
      cases h'
    · rename_i hc2
      simp only [pure, Except.pure, Except.ok.injEq] at h
      subst h
      refine ⟨typed, all, htyped, hcheck, hall, ?_, hconv, rfl, rfl, ?_⟩
      · simpa using hc1
      · simpa using hc2

theorem prepare_intro {ruleFns : List Fn} {gs : List (String × GroupSpec)}
    {ps : List (String × PidSpec)} {data : List (String × Column)} {targets : List String}
    {raw conv : List (String × Col)} {all : List Fn}
    (h1 : typedData data = .ok raw) (h2 : checkData raw = .ok ())
    (h3 : buildFunctions ruleFns gs ps targets (raw.map (·.1)) = .ok all)
    (h4 : targets.all (hasFn all) = true)
    (h5 : convertData raw (all.filter fun f => (raw.map (·.1)).contains f.name) = .ok conv)
    (h6 : targets.all (hasFn (all.filter fun f => !(raw.map (·.1)).contains f.name)) = true) :
    prepare ruleFns gs ps data targets =
      .ok { dataCols := raw.map (·.1), data := conv,
            fns := all.filter fun f => !(raw.map (·.1)).contains f.name } := by
  unfold prepare
  simp only [h1, h2, h3, h4, h5, h6, bind, Except.bind, pure, Except.pure, Bool.not_true,
    Bool.false_eq_true, if_false]


theorem mapM_ok_of_forall {A B : Type} {g : A → Except Err B} {l : List A}
    (h : ∀ a ∈ l, ∃ b, g a = .ok b) : ∃ out, l.mapM g = .ok out := by
  induction l with
  | nil => exact ⟨[], rfl⟩
  | cons a l ih =>
    obtain ⟨b, hb⟩ := h a List.mem_cons_self
    obtain ⟨out, hout⟩ := ih fun x hx => h x (List.mem_cons_of_mem _ hx)
    refine ⟨b :: out, ?_⟩
    rw [List.mapM_cons, hb, hout]
    rfl

theorem specOfName_mono {fns : List Fn} {T T' dataCols : List String}
    {userSpecs : List (String × GroupSpec)} (hsub : ∀ t ∈ T', t ∈ T) {n : String} {s : GroupSpec}
    (h : specOfName fns T' dataCols userSpecs n = some s) :
    specOfName fns T dataCols userSpecs n = some s := by
  unfold specOfName at h ⊢
  cases hu : lookupLast userSpecs n with
  | some s0 => rw [hu] at h; exact h
  | none =>
    rw [hu] at h
    simp only [Option.none_or] at h ⊢
    split at h
    · rename_i hm
      rw [if_pos]
      · exact h
      · rw [List.mem_filter, List.mem_append, List.mem_append] at hm ⊢
        refine ⟨?_, hm.2⟩
        rcases hm.1 with (ha | ht) | hs
        · exact Or.inl (Or.inl ha)
        · exact Or.inl (Or.inr (hsub _ ht))
        · exact Or.inr hs
    · cases h

theorem groupAggFns_sub_ok {fns : List Fn} {T T' dataCols : List String}
    {userSpecs : List (String × GroupSpec)} {grp : List Fn} (hsub : ∀ t ∈ T', t ∈ T)
    (h : groupAggFns fns T dataCols userSpecs = .ok grp) :
    ∃ grp', groupAggFns fns T' dataCols userSpecs = .ok grp' := by
  rw [groupAggFns_eq] at h ⊢
  have hmem : ∀ e ∈ allSpecs fns T' dataCols userSpecs, e ∈ allSpecs fns T dataCols userSpecs := by
    rintro ⟨n, s⟩ he
    exact (mem_allSpecs ..).2 (specOfName_mono hsub ((mem_allSpecs ..).1 he))
  split at h
  · cases h
  · rename_i hany
    rw [if_neg]
    · apply mapM_ok_of_forall
      intro e he
      obtain ⟨b, _, hb⟩ := mapM_mem_in h e (hmem e he)
      exact ⟨b, hb⟩
    · intro hany'
      apply hany
      rw [List.any_eq_true] at hany' ⊢
      obtain ⟨e, he, hp⟩ := hany'
      exact ⟨e, hmem e he, hp⟩

theorem buildFunctions_sub_ok {ruleFns : List Fn} {gs : List (String × GroupSpec)}
    {ps : List (String × PidSpec)} {T T' dataCols : List String} {all : List Fn}
    (hsub : ∀ t ∈ T', t ∈ T) (h : buildFunctions ruleFns gs ps T dataCols = .ok all) :
    ∃ all', buildFunctions ruleFns gs ps T' dataCols = .ok all' := by
  obtain ⟨pid, grp, hpid, hgrp, _⟩ := buildFunctions_ok h
  obtain ⟨grp', hgrp'⟩ := groupAggFns_sub_ok hsub hgrp
  unfold buildFunctions
  simp only [hpid, hgrp', bind, Except.bind, pure, Except.pure]
  exact ⟨_, rfl⟩

/-- for sub-lists of targets the function set is a sub-dictionary -/
theorem buildFunctions_sub_dict {ruleFns : List Fn} {gs : List (String × GroupSpec)}
    {ps : List (String × PidSpec)} {T T' dataCols : List String} {all all' : List Fn}
    (hsub : ∀ t ∈ T', t ∈ T) (h : buildFunctions ruleFns gs ps T dataCols = .ok all)
    (h' : buildFunctions ruleFns gs ps T' dataCols = .ok all') {x : String} {f : Fn}
    (hf : findFn? all' x = some f) : findFn? all x = some f := by
  obtain ⟨h1, h2⟩ := buildFunctions_targets h' h x f hf
  cases hx : findFn? all x with
  | some g => rw [h1 g hx]
  | none =>
    obtain ⟨hT', hT, _⟩ := h2 hx
    exact absurd (hsub x hT') hT

/-- … which defines every requested name that the larger one defines -/
theorem buildFunctions_sub_target {ruleFns : List Fn} {gs : List (String × GroupSpec)}
    {ps : List (String × PidSpec)} {T T' dataCols : List String} {all all' : List Fn}
    (h : buildFunctions ruleFns gs ps T dataCols = .ok all)
    (h' : buildFunctions ruleFns gs ps T' dataCols = .ok all') {t : String} (ht : t ∈ T')
    (hf : hasFn all t = true) : hasFn all' t = true := by
  unfold hasFn at hf ⊢
  cases hx : findFn? all t with
  | none => rw [hx] at hf; cases hf
  | some f =>
    cases hx' : findFn? all' t with
    | some g => rfl
    | none =>
      obtain ⟨_, hT', _⟩ := (buildFunctions_targets h h' t f hx).2 hx'
      exact absurd ht hT'


theorem lookupLast_mem {β : Type} {l : List (String × β)} {n : String} {s : β}
    (h : lookupLast l n = some s) : (n, s) ∈ l := by
  induction l with
  | nil => cases h
  | cons e l ih =>
    rw [lookupLast] at h
    cases hl : lookupLast l n with
    | some s0 =>
      rw [hl] at h
      simp only [Option.some.injEq] at h
      subst h
      exact List.mem_cons_of_mem _ (ih hl)
    | none =>
      rw [hl] at h
      simp only at h
      split at h
      · rename_i he
        simp only [Option.some.injEq] at h
        subst h; subst he
        exact List.mem_cons_self
      · cases h

theorem groupAggFn_args {fns : List Fn} {n : String} {s : GroupSpec} {f : Fn}
    (h : groupAggFn fns n s = .ok f) :
    ∀ d ∈ f.args, groupIdOf n = some d ∨ s.source = some d := by
  unfold groupAggFn at h
  split at h
  · cases h
  · rename_i gid hgid
    split at h
    · cases h
      intro d hd
      simp only [List.mem_singleton] at hd
      subst hd; exact Or.inl hgid
    · rename_i src hsrc _
      split at h
      · cases h
      · cases h
        intro d hd
        simp only [List.mem_cons, List.not_mem_nil, or_false] at hd
        rcases hd with rfl | rfl
        · exact Or.inr hsrc
        · exact Or.inl hgid
    · cases h

theorem groupIdOf_range (col : String) :
    groupIdOf col = none ∨ ∃ g ∈ groupSuffixes, groupIdOf col = some ((g.drop 1).toString ++ "_id") := by
  unfold groupIdOf
  have key : ∀ (L : List String) (acc : Option String),
      (acc = none ∨ ∃ g ∈ groupSuffixes, acc = some ((g.drop 1).toString ++ "_id")) →
      (∀ g ∈ L, g ∈ groupSuffixes) →
      (L.foldl (fun acc g => if endsWith col g then some ((g.drop 1).toString ++ "_id") else acc) acc = none ∨
        ∃ g ∈ groupSuffixes, L.foldl (fun acc g => if endsWith col g then some ((g.drop 1).toString ++ "_id") else acc) acc
          = some ((g.drop 1).toString ++ "_id")) := by
    intro L
    induction L with
    | nil => intro acc h _; exact h
    | cons g L ih =>
      intro acc h hL
      rw [List.foldl_cons]
      apply ih
      · split
        · exact Or.inr ⟨g, hL g List.mem_cons_self, rfl⟩
        · exact h
      · exact fun x hx => hL x (List.mem_cons_of_mem _ hx)
  exact key groupSuffixes none (Or.inl rfl) (fun _ h => h)

theorem groupIdOf_gid_all :
    (groupSuffixes.all fun g => (groupIdOf ((g.drop 1).toString ++ "_id")).isNone) = true := by
  decide +kernel

/-- a group id column (`hh_id`, …) is never itself named like a group aggregate -/
theorem groupIdOf_gid {x d : String} (h : groupIdOf x = some d) : groupIdOf d = none := by
  rcases groupIdOf_range x with h0 | ⟨g, hg, h1⟩
  · rw [h0] at h; cases h
  · rw [h1] at h
    simp only [Option.some.injEq] at h
    subst h
    have := List.all_eq_true.1 groupIdOf_gid_all g hg
    simpa using this


theorem mem_dictUpdate_of_ne {d : List Fn} {f g : Fn} (hf : f ∈ d) (hne : g.name ≠ f.name) :
    f ∈ dictUpdate d g := by
  induction d with
  | nil => cases hf
  | cons a d ih =>
    unfold dictUpdate
    split
    · rename_i ha
      rcases List.mem_cons.1 hf with rfl | hf
      · exact absurd ha.symm hne
      · exact List.mem_cons_of_mem _ hf
    · rcases List.mem_cons.1 hf with rfl | hf
      · exact List.mem_cons_self
      · exact List.mem_cons_of_mem _ (ih hf)

theorem mem_merge_of_mem_left {a b : List Fn} {f : Fn} (hf : f ∈ a) (hb : f.name ∉ b.map (·.name)) :
    f ∈ merge a b := by
  unfold merge
  induction b generalizing a with
  | nil => exact hf
  | cons g b ih =>
    rw [List.foldl_cons]
    simp only [List.map_cons, List.mem_cons, not_or] at hb
    exact ih (mem_dictUpdate_of_ne hf (fun h => hb.1 h.symm)) hb.2

theorem mem_merge_of_mem_right {a b : List Fn} {f : Fn} (hb : (b.map (·.name)).Nodup) (hf : f ∈ b) :
    f ∈ merge a b := by
  have h1 : findFn? b.reverse f.name = some f :=
    findFn?_of_mem_nodup (by rw [List.map_reverse]; exact List.nodup_reverse.2 hb) (List.mem_reverse.2 hf)
  have : findFn? (merge a b) f.name = some f := by rw [findFn?_merge, h1]; rfl
  exact (findFn?_some this).1

/-- if no p_id aggregation is named like a rule or a time conversion, every function of
`{**pid, **tc, **rules}` is an element of `{**tc, **rules, **pid}` -/
theorem base_in_fns {pid tc rules : List Fn} (hpidnd : (pid.map (·.name)).Nodup)
    (hrnd : (rules.map (·.name)).Nodup)
    (Hp : ∀ x ∈ pid.map (·.name), x ∉ rules.map (·.name) ∧ x ∉ tc.map (·.name)) {x : String} {f : Fn}
    (h : findFn? (merge (merge pid tc) rules) x = some f) : f ∈ merge (merge tc rules) pid := by
  rw [findFn?_merge, findFn?_merge] at h
  cases h1 : findFn? rules.reverse x with
  | some g =>
    rw [h1] at h
    simp only [Option.some_or, Option.some.injEq] at h
    subst h
    obtain ⟨hm, hn⟩ := findFn?_some h1
    rw [List.mem_reverse] at hm
    apply mem_merge_of_mem_left (mem_merge_of_mem_right hrnd hm)
    intro hp
    exact (Hp _ hp).1 (List.mem_map.2 ⟨g, hm, rfl⟩)
  | none =>
    rw [h1] at h
    simp only [Option.none_or] at h
    have hxr : x ∉ rules.map (·.name) := by
      rw [findFn?_eq_none_iff, List.map_reverse, List.mem_reverse] at h1; exact h1
    cases h2 : findFn? tc.reverse x with
    | some g =>
      rw [h2] at h
      simp only [Option.some_or, Option.some.injEq] at h
      subst h
      obtain ⟨hm, hn⟩ := findFn?_some h2
      rw [List.mem_reverse] at hm
      apply mem_merge_of_mem_left (mem_merge_of_mem_left hm (hn ▸ hxr))
      intro hp
      exact (Hp _ hp).2 (List.mem_map.2 ⟨g, hm, rfl⟩)
    | none =>
      rw [h2] at h
      simp only [Option.none_or] at h
      exact mem_merge_of_mem_right hpidnd (findFn?_some h).1



/-- Closure: in the function set for the smaller target list `T'`, every argument of a function
that is a function for `T` is a function for `T'` as well. Hypotheses: `hgrp` (the arguments of the
group-id constructors that are named like a group aggregate and requested by `T` are requested
by `T'`), `hnd` (no target of `T` is a data
column), `Hp` (no p_id aggregation is named like a rule or a time conversion). -/
theorem buildFunctions_closure {ruleFns : List Fn} {gs : List (String × GroupSpec)}
    {ps : List (String × PidSpec)} {T T' dataCols : List String} {all all' : List Fn}
    (h : buildFunctions ruleFns gs ps T dataCols = .ok all)
    (h' : buildFunctions ruleFns gs ps T' dataCols = .ok all')
    (hgrp : ∀ a ∈ groupingFns.flatMap (·.args), (groupIdOf a).isSome = true → a ∈ T → a ∈ T')
    (hnd : ∀ t ∈ T, t ∉ dataCols)
    (Hp : ∀ pid, pidFns (merge [] ruleFns) dataCols ps = .ok pid → ∀ x ∈ pid.map (·.name),
      x ∉ (merge [] ruleFns).map (·.name) ∧
      x ∉ (timeConvFns (merge (merge [] ruleFns) pid) dataCols).map (·.name))
    {x d : String} {f g : Fn} (hf : findFn? all' x = some f) (hd : d ∈ f.args)
    (hg : findFn? all d = some g) : (findFn? all' d).isSome = true := by
  cases hd' : findFn? all' d with
  | some g' => rfl
  | none =>
    exfalso
    obtain ⟨hdT, hdT', hdsrc, pid, hpid, hdargs, hauto⟩ := (buildFunctions_targets h h' d g hg).2 hd'
    obtain ⟨pid', grp', hpid', hgrp', rfl⟩ := buildFunctions_ok h'
    rw [hpid] at hpid'
    cases hpid'
    have Hp' := Hp pid hpid
    generalize htc : timeConvFns (merge (merge [] ruleFns) pid) dataCols = tc at *
    generalize hrules : merge [] ruleFns = rules at *
    have hrnd : (rules.map (·.name)).Nodup := hrules ▸ nodup_merge_nil ruleFns
    obtain ⟨hg1', _⟩ := groupAggFns_spec hgrp'
    unfold autoOk at hauto
    simp only [Bool.and_eq_true, Bool.not_eq_true', List.contains_eq_mem, List.mem_append,
      decide_eq_true_eq] at hauto
    obtain ⟨⟨hnofn, hgidd⟩, _⟩ := hauto
    rw [findFn?_merge, findFn?_merge] at hf
    cases hG : findFn? groupingFns.reverse x with
    | some f0 =>
      rw [hG] at hf
      simp only [Option.some_or, Option.some.injEq] at hf
      subst hf
      have hm := (findFn?_some hG).1
      rw [List.mem_reverse] at hm
      exact hdT' (hgrp d (List.mem_flatMap.2 ⟨f0, hm, hd⟩) hgidd hdT)
    | none =>
      rw [hG] at hf
      simp only [Option.none_or] at hf
      cases hA : findFn? grp'.reverse x with
      | some fa =>
        rw [hA] at hf
        simp only [Option.some_or, Option.some.injEq] at hf
        subst hf
        obtain ⟨hm, hname⟩ := findFn?_some hA
        rw [List.mem_reverse] at hm
        obtain ⟨s, hs, hfa⟩ := hg1' fa hm
        rcases groupAggFn_args hfa d hd with hgid | hsrc
        · rw [groupIdOf_gid hgid] at hgidd
          cases hgidd
        · unfold specOfName at hs
          cases hu : lookupLast gs fa.name with
          | some s0 =>
            rw [hu] at hs
            simp only [Option.some_or, Option.some.injEq] at hs
            subst hs
            apply hdsrc
            rw [List.mem_filterMap]
            exact ⟨(fa.name, s0), lookupLast_mem hu, hsrc⟩
          | none =>
            rw [hu] at hs
            simp only [Option.none_or] at hs
            split at hs
            · rename_i hmem
              simp only [Option.some.injEq] at hs
              subst hs
              simp only [sumSpec, Option.some.injEq] at hsrc
              have hok := (List.mem_filter.1 hmem).2
              unfold autoOk at hok
              simp only [Bool.and_eq_true, Bool.not_eq_true', List.contains_eq_mem, List.mem_append,
                decide_eq_true_eq] at hok
              rw [hsrc] at hok
              rcases hok.2 with hfn | hdata
              · have : hasFn (merge (merge tc rules) pid) d = true := (hasFn_iff _ _).2 hfn
                rw [hnofn] at this
                cases this
              · exact hnd d hdT hdata
            · cases hs
      | none =>
        rw [hA] at hf
        simp only [Option.none_or] at hf
        have hfm : f ∈ merge (merge tc rules) pid := base_in_fns (pidFns_nodup hpid) hrnd Hp' hf
        exact hdargs (List.mem_flatMap.2 ⟨f, hfm, hd⟩)


theorem create_name_cases (functions : List (String × List String)) (dataCols : List String) :
    ∀ d ∈ TimeConv.create functions dataCols,
      d.name ∉ functions.map (·.1) ∨ ∃ c ∈ dataCols, d ∈ TimeConv.derivedOf c [] := by
  rw [TimeConv.create_eq]
  apply TimeConv.foldl_upd_inv
  · intro d hd; exact Or.inl (TimeConv.firstLoop_inv functions dataCols d hd).1
  · intro a ha d hd
    unfold TimeConv.step2 at hd
    exact Or.inr ⟨a, ha, (List.mem_filter.mp hd).1⟩

theorem filterMapM_mem_out {A B : Type} {g : A → Except Err (Option B)} {l : List A} {out : List B}
    (h : l.filterMapM g = .ok out) : ∀ b ∈ out, ∃ a ∈ l, g a = .ok (some b) := by
  induction l generalizing out with
  | nil =>
    simp only [List.filterMapM_nil, pure, Except.pure, Except.ok.injEq] at h
    subst h; intro b hb; cases hb
  | cons a l ih =>
    rw [List.filterMapM_cons] at h
    obtain ⟨o, ho, h⟩ := bind_ok h
    cases o with
    | none =>
      simp only at h
      intro b hb
      obtain ⟨a', ha', hga⟩ := ih h b hb
      exact ⟨a', List.mem_cons_of_mem _ ha', hga⟩
    | some b0 =>
      simp only at h
      obtain ⟨rest, hrest, h⟩ := bind_ok h
      simp only [pure, Except.pure, Except.ok.injEq] at h
      subst h
      intro b hb
      rcases List.mem_cons.1 hb with rfl | hb
      · exact ⟨a, List.mem_cons_self, ho⟩
      · obtain ⟨a', ha', hga⟩ := ih hrest b hb
        exact ⟨a', List.mem_cons_of_mem _ ha', hga⟩

theorem pidFns_names {rules : List Fn} {dataCols : List String} {ps : List (String × PidSpec)}
    {pid : List Fn} (h : pidFns rules dataCols ps = .ok pid) :
    ∀ x ∈ pid.map (·.name), x ∈ ps.map (·.1) := by
  unfold pidFns at h
  obtain ⟨fs, hfs, h⟩ := bind_ok h
  simp only [pure, Except.pure, Except.ok.injEq] at h
  subst h
  intro x hx
  rw [mem_names_merge] at hx
  rcases hx with hx | hx
  · cases hx
  · obtain ⟨f, hf, rfl⟩ := List.mem_map.1 hx
    obtain ⟨⟨n, s⟩, hns, hg⟩ := filterMapM_mem_out hfs f hf
    simp only at hg
    split at hg
    · split at hg
      · cases hg
      · simp only [pure, Except.pure, Except.ok.injEq, Option.some.injEq] at hg
        subst hg
        exact List.mem_map.2 ⟨(n, s), hns, rfl⟩
    · cases hg

/-- the input-level condition "no p_id aggregation is named like a rule or like a time conversion
of a data column" implies the dictionary-level condition used by `buildFunctions_closure` -/
theorem pid_names_fresh {ruleFns : List Fn} {ps : List (String × PidSpec)} {dataCols : List String}
    (hp : ∀ p ∈ ps, p.1 ∉ ruleFns.map (·.name) ∧
      ∀ c ∈ dataCols, p.1 ∉ (TimeConv.derivedOf c []).map (·.name)) :
    ∀ pid, pidFns (merge [] ruleFns) dataCols ps = .ok pid → ∀ x ∈ pid.map (·.name),
      x ∉ (merge [] ruleFns).map (·.name) ∧
      x ∉ (timeConvFns (merge (merge [] ruleFns) pid) dataCols).map (·.name) := by
  intro pid hpid x hx
  obtain ⟨p, hpm, rfl⟩ := List.mem_map.1 (pidFns_names hpid x hx)
  obtain ⟨h1, h2⟩ := hp p hpm
  constructor
  · rw [mem_names_merge]
    rintro (h | h)
    · cases h
    · exact h1 h
  · intro hmem
    unfold timeConvFns at hmem
    rw [List.map_map, List.mem_map] at hmem
    obtain ⟨d, hd, hdn⟩ := hmem
    simp only [Function.comp] at hdn
    rcases create_name_cases _ _ d hd with hno | ⟨c, hc, hdc⟩
    · apply hno
      rw [List.map_map, hdn]
      have : p.1 ∈ (merge (merge [] ruleFns) pid).map (·.name) := by
        rw [mem_names_merge]; exact Or.inr hx
      simpa [Function.comp] using this
    · exact h2 c hc (List.mem_map.2 ⟨d, hdc, hdn⟩)

/-- **Layer 1.** The preparation (`load_and_check_functions`, the checks on the data, the type
conversion, the existence of the targets) stays successful when targets are dropped, with the same
converted data; the functions form a sub-dictionary that is closed under arguments. -/
theorem prepare_sub {ruleFns : List Fn} {gs : List (String × GroupSpec)}
    {ps : List (String × PidSpec)} {data : List (String × Column)} {T T' : List String} {pr : Prep}
    (h : prepare ruleFns gs ps data T = .ok pr) (hsub : ∀ t ∈ T', t ∈ T)
    (hgrp : ∀ a ∈ groupingFns.flatMap (·.args), (groupIdOf a).isSome = true → a ∈ T → a ∈ T')
    (hp : ∀ p ∈ ps, p.1 ∉ ruleFns.map (·.name) ∧
      ∀ c ∈ data.map (·.1), p.1 ∉ (TimeConv.derivedOf c []).map (·.name)) :
    ∃ pr', prepare ruleFns gs ps data T' = .ok pr' ∧ pr'.data = pr.data ∧
      pr'.dataCols = pr.dataCols ∧
      (∀ x f, findFn? pr'.fns x = some f → findFn? pr.fns x = some f) ∧
      (∀ x f d, findFn? pr'.fns x = some f → d ∈ f.args → (findFn? pr.fns d).isSome = true →
        (findFn? pr'.fns d).isSome = true) := by
  have hnd0 := prepare_targets_not_data h
  obtain ⟨raw, all, hraw, hcheck, hall, htar, hconv, hfns, hdc, htar2⟩ := prepare_ok' h
  have hnames := typedData_names hraw
  have hnd : ∀ t ∈ T, t ∉ raw.map (·.1) := by rw [hnames]; exact hnd0
  obtain ⟨all', hall'⟩ := buildFunctions_sub_ok hsub hall
  have hsubd : ∀ x f, findFn? all' x = some f → findFn? all x = some f :=
    fun x f hf => buildFunctions_sub_dict hsub hall hall' hf
  have htar' : T'.all (hasFn all') = true := by
    rw [List.all_eq_true] at htar ⊢
    intro t ht
    exact buildFunctions_sub_target hall hall' ht (htar t (hsub t ht))
  have hagree : ∀ n ∈ raw.map (·.1), findFn? all n = findFn? all' n := by
    intro n hn
    cases hf' : findFn? all' n with
    | some f => exact hsubd n f hf'
    | none =>
      cases hf : findFn? all n with
      | none => rfl
      | some g => exact absurd hn (hnd n ((buildFunctions_targets hall hall' n g hf).2 hf').1)
  have hconv' : convertData raw (all'.filter fun f => (raw.map (·.1)).contains f.name) = .ok pr.data := by
    rw [← hconv]
    apply convertData_congr
    intro n hn
    rw [findFn?_filter_name (fun m => (raw.map (·.1)).contains m),
      findFn?_filter_name (fun m => (raw.map (·.1)).contains m), hagree n hn]
  have hfilt : ∀ (L : List Fn) (x : String), findFn? (L.filter fun f => !(raw.map (·.1)).contains f.name) x =
      if (raw.map (·.1)).contains x then none else findFn? L x := by
    intro L x
    rw [findFn?_filter_name (fun m => !(raw.map (·.1)).contains m)]
    cases (raw.map (·.1)).contains x <;> rfl
  have htar2' : T'.all (hasFn (all'.filter fun f => !(raw.map (·.1)).contains f.name)) = true := by
    rw [List.all_eq_true] at htar' ⊢
    intro t ht
    unfold hasFn
    rw [hfilt]
    have : (raw.map (·.1)).contains t = false := by
      simpa using hnd t (hsub t ht)
    rw [this]
    exact htar' t ht
  refine ⟨_, prepare_intro hraw hcheck hall' htar' hconv' htar2', rfl, hdc.symm, ?_, ?_⟩
  · intro x f hf
    simp only at hf
    rw [hfns, hfilt]
    rw [hfilt] at hf
    split at hf
    · cases hf
    · rename_i hc; rw [if_neg hc]; exact hsubd x f hf
  · intro x f d hf hd hdpr
    simp only at hf ⊢
    rw [hfns, hfilt] at hdpr
    rw [hfilt] at hf ⊢
    split at hf
    · cases hf
    · split at hdpr
      · cases hdpr
      · rename_i hcd
        rw [if_neg hcd]
        cases hg : findFn? all d with
        | none => rw [hg] at hdpr; cases hdpr
        | some g =>
          exact buildFunctions_closure hall hall' hgrp hnd
            (pid_names_fresh (by rw [hnames]; exact hp)) hf hd hg


end GV.Simulate

namespace GV.Simulate

/-- the arguments of the group-id constructors that are named like a group aggregate -/
theorem groupingFns_agg_args :
    (groupingFns.flatMap (·.args)).filter (fun a => (groupIdOf a).isSome) =
      ["wohngeld_vorrang_bg", "wohngeld_kinderzuschl_vorrang_bg"] := by decide +kernel

end GV.Simulate
