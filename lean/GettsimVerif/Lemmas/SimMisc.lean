import GettsimVerif.Lemmas.SimTargets
import GettsimVerif.Lemmas.SimPerm
import GettsimVerif.Lemmas.SimRound
import GettsimVerif.Lemmas.SimKahn
/-
Helper lemmas for the properties C20 (data checks, conversion), C03 (row-wise rules), C11
(precedence of aggregation specs) and C08 (completeness of a plan, fuel) on the CONCRETE model of
`Core/Simulate.lean`. All names are prefixed `mi_`.
-/
namespace GV.Simulate
open GV.VecDtype (R DT numOf)
open GV.Lang (Val FunDef)

/-! # D. data checks and conversion -/

/-! ## `for` loops in `Except` that only throw or continue -/

theorem mi_forIn_all {α : Type} (l : List α) (p : α → Bool) (e : Err)
    (f : α → PUnit → Except Err (ForInStep PUnit))
    (hf : ∀ x s, f x s = if p x then pure (ForInStep.yield PUnit.unit) else throw e) :
    forIn l PUnit.unit f = if l.all p then (pure PUnit.unit : Except Err PUnit) else throw e := by
  induction l with
  | nil => rfl
  | cons a l ih =>
    rw [List.forIn_cons, hf, List.all_cons]
    cases hp : p a with
    | true => exact ih
    | false => rfl

/-! ## duplicates -/

theorem mi_hasDupStr_false (l : List String) : hasDupStr l = false ↔ l.Nodup := by
  induction l with
  | nil => simp [hasDupStr]
  | cons x xs ih =>
    rw [hasDupStr, Bool.or_eq_false_iff, ih, List.nodup_cons]
    simp

theorem mi_hasDupRat_false (l : List Rat) : hasDupRat l = false ↔ l.Nodup := by
  induction l with
  | nil => simp [hasDupRat]
  | cons x xs ih =>
    rw [hasDupRat, Bool.or_eq_false_iff, ih, List.nodup_cons]
    simp

/-! ## constant within groups -/

/-- rows with equal group id carry equal values (rows = the positions present in both lists) -/
def mi_ConstWithin (gid col : List Rat) : Prop :=
  ∀ p ∈ gid.zip col, ∀ q ∈ gid.zip col, p.1 = q.1 → p.2 = q.2

theorem mi_constantWithinGroups_iff (gid col : List Rat) :
    constantWithinGroups gid col = true ↔ mi_ConstWithin gid col := by
  unfold constantWithinGroups mi_ConstWithin
  simp only [List.all_eq_true, Bool.or_eq_true, bne_iff_ne, ne_eq, decide_eq_true_eq, Prod.forall]
  constructor
  · intro h g v hgv g' v' hgv' hgg
    subst hgg
    have h1 := (h g v hgv g v' hgv').resolve_left (fun hne => hne rfl)
    have h2 := (h g v' hgv' g v hgv).resolve_left (fun hne => hne rfl)
    exact Rat.le_antisymm h2 h1
  · intro h g v hgv g' v' hgv'
    by_cases hgg : g' = g
    · right
      subst hgg
      rw [h g' v hgv g' v' hgv' rfl]
    · exact Or.inl hgg

/-- index form: `gid[i] = gid[j] → col[i] = col[j]` -/
theorem mi_ConstWithin_index (gid col : List Rat) :
    mi_ConstWithin gid col ↔
      ∀ (i j : Nat) (hi : i < gid.length) (hi' : i < col.length) (hj : j < gid.length)
        (hj' : j < col.length), gid[i] = gid[j] → col[i] = col[j] := by
  unfold mi_ConstWithin
  constructor
  · intro h i j hi hi' hj hj' hg
    have h1 : (gid[i], col[i]) ∈ gid.zip col := by
      rw [List.mem_iff_getElem]
      exact ⟨i, by simp [hi, hi'], by simp⟩
    have h2 : (gid[j], col[j]) ∈ gid.zip col := by
      rw [List.mem_iff_getElem]
      exact ⟨j, by simp [hj, hj'], by simp⟩
    exact h _ h1 _ h2 hg
  · intro h p hp q hq hpq
    obtain ⟨i, hi, rfl⟩ := List.mem_iff_getElem.1 hp
    obtain ⟨j, hj, rfl⟩ := List.mem_iff_getElem.1 hq
    simp only [List.length_zip, Nat.lt_min] at hi hj
    simp only [List.getElem_zip] at hpq ⊢
    exact h i j hi.1 hi.2 hj.1 hj.2 hpq

/-! ## `checkData` as a Boolean -/

/-- the check of one grouping suffix -/
def mi_groupOk (data : List (String × Col)) (g : String) : Bool :=
  match find? data ((g.drop 1).toString ++ "_id") with
  | none => true
  | some idc => !(data.any fun (n, c) => endsWith n g && !constantWithinGroups idc.rats c.rats)

/-- the check of one foreign key -/
def mi_fkOk (data : List (String × Col)) (pid : Col) (fk : String) : Bool :=
  match find? data fk with
  | none => true
  | some c => !(c.rats.any (fun k => !(k = -1 || pid.rats.contains k))) &&
      !((c.rats.zip pid.rats).any (fun (k, p) => k = p))

/-- all checks of `_process_and_check_data` -/
def mi_checkB (data : List (String × Col)) : Bool :=
  !hasDupStr (data.map (·.1)) && groupSuffixes.all (mi_groupOk data) &&
    match find? data "p_id" with
    | none => false
    | some pid => !hasDupRat pid.rats && foreignKeys.all (mi_fkOk data pid)

theorem mi_ite_flip {α : Type} (b : Bool) (A B : α) :
    (if b = true then A else B) = if (!b) = true then B else A := by cases b <;> rfl

theorem mi_grp_body (b : Bool) :
    (if b = true then do
        (throw Err.valueError : Except Err PUnit)
        pure (ForInStep.yield PUnit.unit)
      else pure (ForInStep.yield PUnit.unit)) =
    if (!b) = true then (pure (ForInStep.yield PUnit.unit) : Except Err (ForInStep PUnit))
    else throw Err.valueError := by cases b <;> rfl

theorem mi_fk_body (b1 b2 : Bool) :
    (if b1 = true then do
        let _r ← (throw Err.valueError : Except Err PUnit)
        if b2 = true then do
          (throw Err.valueError : Except Err PUnit)
          pure (ForInStep.yield PUnit.unit)
        else pure (ForInStep.yield PUnit.unit)
      else
        if b2 = true then do
          (throw Err.valueError : Except Err PUnit)
          pure (ForInStep.yield PUnit.unit)
        else pure (ForInStep.yield PUnit.unit)) =
    if (!b1 && !b2) = true then (pure (ForInStep.yield PUnit.unit) : Except Err (ForInStep PUnit))
    else throw Err.valueError := by cases b1 <;> cases b2 <;> rfl

theorem mi_checkData_eq (data : List (String × Col)) :
    checkData data = if mi_checkB data then .ok () else .error .valueError := by
  unfold checkData mi_checkB
  simp only
  by_cases hd : hasDupStr (data.map (·.1)) = true
  · rw [if_pos hd, hd]; rfl
  · rw [if_neg hd]
    have hd' : hasDupStr (data.map (·.1)) = false := by simpa using hd
    rw [hd']
    simp only [Bool.not_false, Bool.true_and]
    rw [mi_forIn_all groupSuffixes (mi_groupOk data) Err.valueError]
    · cases hg : groupSuffixes.all (mi_groupOk data) with
      | false => rfl
      | true =>
        simp only [if_true, Bool.true_and]
        cases hp : find? data "p_id" with
        | none => rfl
        | some pid =>
          simp only
          change _ = if (!hasDupRat pid.rats && foreignKeys.all (mi_fkOk data pid)) = true
            then Except.ok () else Except.error Err.valueError
          by_cases hdp : hasDupRat pid.rats = true
          · rw [if_pos hdp, hdp]; rfl
          · rw [if_neg hdp]
            have hdp' : hasDupRat pid.rats = false := by simpa using hdp
            rw [hdp']
            simp only [Bool.not_false, Bool.true_and]
            rw [mi_forIn_all foreignKeys (mi_fkOk data pid) Err.valueError]
            · cases foreignKeys.all (mi_fkOk data pid) <;> rfl
            · intro fk s
              unfold mi_fkOk
              cases find? data fk with
              | none => rfl
              | some c => exact mi_fk_body _ _
    · intro g s
      unfold mi_groupOk
      cases find? data ((g.drop 1).toString ++ "_id") with
      | none => rfl
      | some idc => exact mi_grp_body _

/-! ## conversion of one column -/

theorem mi_numOf_cast_float (r : R) : numOf (VecDtype.cast .float r) = numOf r := by
  cases r <;> rfl

theorem mi_truncRat_integral (q : Rat) (h : isIntegral q = true) : ((VecDtype.truncRat q : Int) : Rat) = q := by
  unfold isIntegral at h
  have hd : q.den = 1 := by simpa using h
  unfold VecDtype.truncRat
  rw [hd]
  simp only [Int.cast_ofNat_Int, Int.tdiv_one]
  exact Rat.ext rfl hd.symm

theorem mi_numOf_cast_int (r : R) (h : VecDtype.dtypeOf r = .float → isIntegral (numOf r) = true) :
    numOf (VecDtype.cast .int r) = numOf r := by
  cases r with
  | b v => cases v <;> rfl
  | i v => rfl
  | f q => exact mi_truncRat_integral q (h rfl)

theorem mi_numOf_cast_bool (r : R) (h : numOf r = 0 ∨ numOf r = 1) :
    numOf (VecDtype.cast .bool r) = numOf r := by
  cases r with
  | b v => rfl
  | i v =>
    simp only [numOf, VecDtype.cast] at h ⊢
    rcases h with h | h
    · have : v = 0 := by exact_mod_cast h
      subst this; rfl
    · have : v = 1 := by exact_mod_cast h
      subst this; rfl
  | f q =>
    simp only [numOf, VecDtype.cast] at h ⊢
    rcases h with h | h <;> subst h <;> rfl

/-- every entry has the dtype of the column -/
def mi_WellTyped (c : Col) : Prop := ∀ r ∈ c.vals, VecDtype.dtypeOf r = c.dt

instance (c : Col) : Decidable (mi_WellTyped c) := by unfold mi_WellTyped; infer_instance

theorem mi_castTo_lossless (c : Col) (t : DT)
    (h : ∀ r ∈ c.vals, numOf (VecDtype.cast t r) = numOf r) :
    (c.castTo t).vals.length = c.vals.length ∧
      (∀ i : Nat, ((c.castTo t).vals[i]?).map numOf = (c.vals[i]?).map numOf) ∧ (c.castTo t).dt = t := by
  refine ⟨by simp [Col.castTo], ?_, rfl⟩
  intro i
  simp only [Col.castTo, List.getElem?_map, Option.map_map]
  cases hi : c.vals[i]? with
  | none => rfl
  | some r =>
    simp only [Option.map_some, Function.comp]
    rw [h r (List.mem_of_getElem? hi)]

theorem mi_convertCol_lossless {t : Ty} {c c' : Col}
    (hwt : c.dt = .bool → ∀ r ∈ c.vals, VecDtype.dtypeOf r = .bool)
    (h : convertCol t c = .ok c') :
    c'.vals.length = c.vals.length ∧ (∀ i : Nat, (c'.vals[i]?).map numOf = (c.vals[i]?).map numOf) ∧
      c'.dt = t.toDT := by
  unfold convertCol at h
  by_cases hdt : c.dt = t.toDT
  · rw [if_pos hdt] at h
    cases h
    exact ⟨rfl, fun _ => rfl, hdt⟩
  · rw [if_neg hdt] at h
    cases t with
    | float =>
      cases hc : c.dt with
      | bool => rw [hc] at h; cases h
      | int =>
        rw [hc] at h; cases h
        exact mi_castTo_lossless c .float fun r _ => mi_numOf_cast_float r
      | float => exact absurd hc hdt
    | int =>
      cases hc : c.dt with
      | float =>
        rw [hc] at h
        simp only at h
        split at h
        · rename_i hall
          cases h
          refine mi_castTo_lossless c .int fun r hr => mi_numOf_cast_int r fun _ => ?_
          rw [List.all_eq_true] at hall
          exact hall _ (List.mem_map.2 ⟨r, hr, rfl⟩)
        · cases h
      | int => exact absurd hc hdt
      | bool =>
        rw [hc] at h; cases h
        refine mi_castTo_lossless c .int fun r hr => mi_numOf_cast_int r fun hf => ?_
        rw [hwt hc r hr] at hf
        cases hf
    | bool =>
      simp only at h
      split at h
      · rename_i hall
        cases h
        refine mi_castTo_lossless c .bool fun r hr => mi_numOf_cast_bool r ?_
        rw [List.all_eq_true] at hall
        have := hall _ (List.mem_map.2 ⟨r, hr, rfl⟩)
        simpa using this
      · cases h

/-! ## conversion of the table -/

/-- the internal type a data column named `n` is converted to (`none` = passed through) -/
def mi_convType (overridden : List Fn) (n : String) : Option Ty :=
  match find? typesInputVariables n with
  | some t => some t
  | none => (findFn? overridden n).bind (·.ann)

/-- what `convertData` does to one column -/
def mi_ConvEntry (overridden : List Fn) (e e' : String × Col) : Prop :=
  e'.1 = e.1 ∧
    match mi_convType overridden e.1 with
    | none => e'.2 = e.2
    | some t => convertCol t e.2 = .ok e'.2

theorem mi_convertData_iff (data out : List (String × Col)) (overridden : List Fn) :
    convertData data overridden = .ok out ↔ List.Forall₂ (mi_ConvEntry overridden) data out := by
  unfold convertData
  rw [Dag.mapM_ok_iff]
  refine iff_of_eq (congrArg (fun r => List.Forall₂ r data out) ?_)
  funext e e'
  obtain ⟨n, c⟩ := e
  obtain ⟨n', c'⟩ := e'
  unfold mi_ConvEntry mi_convType
  simp only
  cases find? typesInputVariables n with
  | some t =>
    simp only
    cases hc : convertCol t c with
    | error e => simp [bind, Except.bind]
    | ok c'' =>
      simp only [bind, Except.bind, pure, Except.pure, Except.ok.injEq, Prod.mk.injEq]
      exact propext ⟨fun h => ⟨h.1.symm, h.2⟩, fun h => ⟨h.1.symm, h.2⟩⟩
  | none =>
    simp only
    cases (findFn? overridden n).bind (·.ann) with
    | none =>
      simp only [Except.ok.injEq, Prod.mk.injEq]
      exact propext ⟨fun h => ⟨h.1.symm, h.2.symm⟩, fun h => ⟨h.1.symm, h.2.symm⟩⟩
    | some t =>
      simp only
      cases hc : convertCol t c with
      | error e => simp [bind, Except.bind]
      | ok c'' =>
        simp only [bind, Except.bind, pure, Except.pure, Except.ok.injEq, Prod.mk.injEq]
        exact propext ⟨fun h => ⟨h.1.symm, h.2⟩, fun h => ⟨h.1.symm, h.2⟩⟩

/-! ## the columns produced by the dtype inference are well typed -/

theorem mi_dtypeOf_cast (t : DT) (r : R) : VecDtype.dtypeOf (VecDtype.cast t r) = t := by
  cases t <;> cases r <;> rfl

theorem mi_colOfData_wellTyped {c : Column} {col : Col} (h : colOfData c = .ok col) :
    mi_WellTyped col := by
  unfold colOfData at h
  split at h
  · cases h
  · rename_i rs _
    split at h
    · rename_i hb
      cases h
      intro r hr
      simp only [Bool.and_eq_true, List.all_eq_true, beq_iff_eq] at hb
      exact hb.1 r hr
    · split at h
      · rename_i hb
        cases h
        intro r hr
        simp only [Bool.and_eq_true, List.all_eq_true, beq_iff_eq] at hb
        exact hb.1 r hr
      · split at h
        · cases h
          intro r hr
          obtain ⟨r0, _, rfl⟩ := List.mem_map.1 hr
          exact mi_dtypeOf_cast _ _
        · cases h

theorem mi_typedData_wellTyped {data : List (String × Column)} {typed : List (String × Col)}
    (h : typedData data = .ok typed) : ∀ e ∈ typed, mi_WellTyped e.2 := by
  unfold typedData at h
  intro e he
  obtain ⟨⟨n, c⟩, _, hg⟩ := mapM_mem_out h e he
  obtain ⟨col, hcol, hg⟩ := bind_ok hg
  simp only [pure, Except.pure, Except.ok.injEq] at hg
  subst hg
  exact mi_colOfData_wellTyped hcol

/-! ## the Prop-level meaning of the Boolean checks -/

theorem mi_groupOk_iff (data : List (String × Col)) (g : String) :
    mi_groupOk data g = true ↔
      ∀ idc, find? data ((g.drop 1).toString ++ "_id") = some idc →
        ∀ n c, (n, c) ∈ data → endsWith n g = true → mi_ConstWithin idc.rats c.rats := by
  unfold mi_groupOk
  cases find? data ((g.drop 1).toString ++ "_id") with
  | none => simp
  | some idc =>
    simp only [Bool.not_eq_true', List.any_eq_false, Bool.and_eq_true, Bool.not_eq_true', not_and,
      Bool.not_eq_false, Option.some.injEq, forall_eq', Prod.forall]
    constructor
    · intro h n c hnc he
      exact (mi_constantWithinGroups_iff _ _).1 (h n c hnc he)
    · intro h n c hnc he
      exact (mi_constantWithinGroups_iff _ _).2 (h n c hnc he)

theorem mi_fkOk_iff (data : List (String × Col)) (pid : Col) (fk : String) :
    mi_fkOk data pid fk = true ↔
      ∀ c, find? data fk = some c →
        (∀ k ∈ c.rats, k = -1 ∨ k ∈ pid.rats) ∧ (∀ p ∈ c.rats.zip pid.rats, p.1 ≠ p.2) := by
  unfold mi_fkOk
  cases find? data fk with
  | none => simp
  | some c =>
    simp only [Bool.and_eq_true, Bool.not_eq_true', List.any_eq_false, Bool.not_eq_true',
      Bool.not_eq_false, Bool.or_eq_true, decide_eq_true_eq, List.contains_iff_mem,
      Option.some.injEq, forall_eq', Prod.forall, ne_eq]

theorem mi_checkB_iff (data : List (String × Col)) :
    mi_checkB data = true ↔
      (data.map (·.1)).Nodup ∧
      (∃ pid, find? data "p_id" = some pid ∧ pid.rats.Nodup ∧
        ∀ fk ∈ foreignKeys, ∀ c, find? data fk = some c →
          (∀ k ∈ c.rats, k = -1 ∨ k ∈ pid.rats) ∧ (∀ p ∈ c.rats.zip pid.rats, p.1 ≠ p.2)) ∧
      (∀ g ∈ groupSuffixes, ∀ idc, find? data ((g.drop 1).toString ++ "_id") = some idc →
        ∀ n c, (n, c) ∈ data → endsWith n g = true → mi_ConstWithin idc.rats c.rats) := by
  unfold mi_checkB
  rw [Bool.and_eq_true, Bool.and_eq_true, Bool.not_eq_true', mi_hasDupStr_false, List.all_eq_true]
  rw [and_assoc]
  refine and_congr Iff.rfl ?_
  rw [and_comm]
  refine and_congr ?_ ?_
  · cases find? data "p_id" with
    | none => simp
    | some pid =>
      simp only [Bool.and_eq_true, Bool.not_eq_true', mi_hasDupRat_false, List.all_eq_true,
        Option.some.injEq, exists_eq_left']
      refine and_congr Iff.rfl ?_
      exact forall₂_congr fun fk _ => mi_fkOk_iff data pid fk
  · exact forall₂_congr fun g _ => mi_groupOk_iff data g

theorem mi_forall_mem_zip {α β : Type} (l : List α) (l' : List β) (P : α → β → Prop) :
    (∀ p ∈ l.zip l', P p.1 p.2) ↔
      ∀ (i : Nat) (hi : i < l.length) (hi' : i < l'.length), P l[i] l'[i] := by
  constructor
  · intro h i hi hi'
    have hm : (l[i], l'[i]) ∈ l.zip l' := by
      rw [List.mem_iff_getElem]
      exact ⟨i, by simp [hi, hi'], by simp⟩
    exact h _ hm
  · intro h p hp
    obtain ⟨i, hi, rfl⟩ := List.mem_iff_getElem.1 hp
    simp only [List.length_zip, Nat.lt_min] at hi
    simp only [List.getElem_zip]
    exact h i hi.1 hi.2

theorem mi_checkData_ok_iff (data : List (String × Col)) :
    checkData data = .ok () ↔ mi_checkB data = true := by
  rw [mi_checkData_eq]
  cases mi_checkB data <;> simp

theorem mi_checkData_error (data : List (String × Col)) (h : checkData data ≠ .ok ()) :
    checkData data = .error .valueError := by
  rw [mi_checkData_eq] at h ⊢
  cases hb : mi_checkB data with
  | true => rw [hb] at h; exact absurd rfl h
  | false => rfl

/-! # C. a vectorized rule with a declared return type works row by row -/

theorem mi_resultToR_ok {v : Val} {r : R} (h : resultToR v = .ok r) : valToR v = some r := by
  unfold resultToR at h
  cases hv : valToR v with
  | none => rw [hv] at h; cases h
  | some r' => rw [hv] at h; cases h; rfl

theorem mi_range_getElem? {n i : Nat} (hi : i < n) : (List.range n)[i]? = some i := by
  simp [hi]

/-- the stages of `ruleOp` for a rule with arguments, a declared return type and no rounding -/
theorem mi_ruleOp_rowwise {params : List (String × Val)} {fn : FunDef} {ty : Ty} {free : List String}
    {cols : List Col} {out : Col} (hargs : fn.args ≠ [])
    (h : ruleOp params fn (some ty) none free cols = .ok out) :
    ∃ n?, broadcastLen cols = .ok n? ∧ out.dt = ty.toDT ∧
      out.shape = (if n?.isNone then Shape.arr0 else Shape.arr) ∧
      out.vals.length = n?.getD 1 ∧
      ∀ i, i < n?.getD 1 → ∃ v r, rowFn params fn free cols i = .ok v ∧ valToR v = some r ∧
        out.vals[i]? = some (VecDtype.cast ty.toDT r) := by
  rw [ruleOp_declared] at h
  obtain ⟨n?, hb, h⟩ := bind_ok h
  obtain ⟨raw, hraw, h⟩ := bind_ok h
  obtain ⟨rs, hrs, h⟩ := bind_ok h
  obtain ⟨o, ho, hfin⟩ := bind_ok h
  have hne : fn.args.isEmpty = false := by
    cases hx : fn.args with
    | nil => exact absurd hx hargs
    | cons _ _ => rfl
  unfold finish at hfin
  simp only [pure, Except.pure, Except.ok.injEq] at hfin
  subst hfin
  unfold mkOut at ho
  rw [hne] at ho
  simp only [Bool.false_eq_true, if_false, VecDtype.vectorize, VecDtype.vecDeclared, pure, Except.pure,
    Except.ok.injEq] at ho
  subst ho
  rw [Dag.mapM_ok_iff] at hraw hrs
  have hlen1 := hraw.length_eq.symm
  have hlen2 := hrs.length_eq.symm
  refine ⟨n?, hb, rfl, rfl, ?_, ?_⟩
  · simp only [List.length_map]
    rw [hlen2, hlen1, List.length_range]
  · intro i hi
    obtain ⟨v, hv, hrow⟩ := Dag.forall₂_getElem?_left hraw (mi_range_getElem? hi)
    obtain ⟨r, hr, hres⟩ := Dag.forall₂_getElem?_left hrs hv
    refine ⟨v, r, hrow, mi_resultToR_ok hres, ?_⟩
    simp only [List.getElem?_map, hr, Option.map_some]

theorem mi_rowFn_plain {params : List (String × Val)} {fn : FunDef} {free : List String}
    {cols : List Col} (hnp : (npFlags free fn.args cols).any id = false) (i : Nat) :
    rowFn params fn free cols i = Lang.runFun fn (rowArgs params free i fn.args cols) := by
  unfold rowFn
  simp only [hnp, Bool.false_eq_true, if_false]

theorem mi_rowArgs_congr (params : List (String × Val)) (free : List String) (i : Nat)
    (args : List String) {cols cols' : List Col}
    (h : List.Forall₂ (fun c c' => c.at i = c'.at i) cols cols') :
    rowArgs params free i args cols = rowArgs params free i args cols' := by
  induction args generalizing cols cols' with
  | nil => simp [rowArgs]
  | cons a as ih =>
    unfold rowArgs
    by_cases hf : free.contains a = true
    · rw [if_pos hf, if_pos hf]
      cases h with
      | nil => rfl
      | cons hc hrest => simp only; rw [hc, ih hrest]
    · rw [if_neg hf, if_neg hf, ih h]

theorem mi_npFlags_congr (free : List String) (args : List String) {cols cols' : List Col}
    (h : List.Forall₂ (fun c c' => c.shape = c'.shape) cols cols') :
    npFlags free args cols = npFlags free args cols' := by
  induction args generalizing cols cols' with
  | nil => simp [npFlags]
  | cons a as ih =>
    unfold npFlags
    by_cases hf : free.contains a = true
    · rw [if_pos hf, if_pos hf]
      cases h with
      | nil => rfl
      | cons hc hrest => simp only; rw [hc, ih hrest]
    · rw [if_neg hf, if_neg hf, ih h]

theorem mi_rowFn_congr (params : List (String × Val)) (fn : FunDef) (free : List String) (i : Nat)
    {cols cols' : List Col}
    (h : List.Forall₂ (fun c c' => c.shape = c'.shape ∧ c.at i = c'.at i) cols cols') :
    rowFn params fn free cols i = rowFn params fn free cols' i := by
  unfold rowFn
  rw [mi_rowArgs_congr params free i fn.args (h.imp fun _ _ hh => hh.2),
    mi_npFlags_congr free fn.args (h.imp fun _ _ hh => hh.1)]

/-! # A. precedence of aggregation specifications -/

theorem mi_lookupLast_none_iff {β : Type} (l : List (String × β)) (n : String) :
    lookupLast l n = none ↔ ∀ e ∈ l, e.1 ≠ n := by
  induction l with
  | nil => simp [lookupLast]
  | cons e l ih =>
    rw [lookupLast]
    cases hl : lookupLast l n with
    | some s =>
      simp only [reduceCtorEq, List.mem_cons, forall_eq_or_imp, false_iff, not_and]
      intro _ hall
      rw [(ih.2 hall)] at hl
      cases hl
    | none =>
      simp only [List.mem_cons, forall_eq_or_imp]
      by_cases he : e.1 = n
      · simp [he]
      · simp only [he, if_false, ne_eq, not_false_eq_true, true_and, true_iff]
        exact ih.1 hl

theorem mi_lookupLast_split {β : Type} (pre post : List (String × β)) (n : String) (s : β)
    (hpost : ∀ e ∈ post, e.1 ≠ n) : lookupLast (pre ++ (n, s) :: post) n = some s := by
  rw [lookupLast_append, lookupLast, (mi_lookupLast_none_iff post n).2 hpost]
  simp

theorem mi_lookupLast_some {β : Type} {l : List (String × β)} {n : String} {s : β}
    (h : lookupLast l n = some s) :
    ∃ pre post, l = pre ++ (n, s) :: post ∧ ∀ e ∈ post, e.1 ≠ n := by
  induction l with
  | nil => cases h
  | cons e l ih =>
    rw [lookupLast] at h
    cases hl : lookupLast l n with
    | some s' =>
      rw [hl] at h
      cases h
      obtain ⟨pre, post, rfl, hpost⟩ := ih hl
      exact ⟨e :: pre, post, rfl, hpost⟩
    | none =>
      rw [hl] at h
      simp only at h
      split at h
      · rename_i he
        cases h
        refine ⟨[], l, ?_, (mi_lookupLast_none_iff l n).1 hl⟩
        obtain ⟨e1, e2⟩ := e
        simp only at he
        subst he
        rfl
      · cases h

theorem mi_findFn?_grp {fns : List Fn} {targets dataCols : List String}
    {userSpecs : List (String × GroupSpec)} {grp : List Fn}
    (h : groupAggFns fns targets dataCols userSpecs = .ok grp) (n : String) :
    (∀ s, specOfName fns targets dataCols userSpecs n = some s →
      ∃ f, findFn? grp n = some f ∧ groupAggFn fns n s = .ok f) ∧
    (∀ f, findFn? grp n = some f →
      ∃ s, specOfName fns targets dataCols userSpecs n = some s ∧ groupAggFn fns n s = .ok f) := by
  obtain ⟨h1, h2⟩ := groupAggFns_spec h
  have hback : ∀ f, findFn? grp n = some f →
      ∃ s, specOfName fns targets dataCols userSpecs n = some s ∧ groupAggFn fns n s = .ok f := by
    intro f hf
    obtain ⟨hmem, hname⟩ := findFn?_some hf
    obtain ⟨s, hs, hg⟩ := h1 f hmem
    rw [hname] at hs hg
    exact ⟨s, hs, hg⟩
  refine ⟨?_, hback⟩
  intro s hs
  have hmem := h2 n s hs
  rw [← findFn?_isSome_iff] at hmem
  cases hf : findFn? grp n with
  | none => rw [hf] at hmem; cases hmem
  | some f =>
    obtain ⟨s', hs', hg⟩ := hback f hf
    rw [hs] at hs'
    cases hs'
    exact ⟨f, rfl, hg⟩

theorem mi_groupAggFn_sum {fns : List Fn} {n src gid : String} {f : Fn}
    (hgid : groupIdOf n = some gid)
    (h : groupAggFn fns n { aggr := .sum, source := some src } = .ok f) :
    f = { name := n, args := [src, gid], ann := aggAnn .sum (some src) fns,
          kind := .groupAgg .sum (some src) gid } ∧ src ≠ gid := by
  unfold groupAggFn at h
  rw [hgid] at h
  simp only at h
  split at h
  · cases h
  · rename_i hne
    cases h
    exact ⟨rfl, hne⟩

theorem mi_autoOk_iff (fns : List Fn) (dataCols : List String) (n : String) :
    autoOk fns dataCols n = true ↔
      hasFn fns n = false ∧ (groupIdOf n).isSome = true ∧
        (hasFn fns (removeGroupSuffix n) = true ∨ removeGroupSuffix n ∈ dataCols) := by
  unfold autoOk
  rw [Bool.and_eq_true, Bool.and_eq_true, Bool.not_eq_true', List.contains_iff_mem, List.mem_append,
    ← hasFn_iff, and_assoc]

theorem mi_specOfName_user {fns : List Fn} {targets dataCols : List String}
    {userSpecs : List (String × GroupSpec)} {n : String} {s : GroupSpec}
    (h : lookupLast userSpecs n = some s) : specOfName fns targets dataCols userSpecs n = some s := by
  unfold specOfName
  rw [h]
  rfl

theorem mi_specOfName_auto (fns : List Fn) (targets dataCols : List String)
    (userSpecs : List (String × GroupSpec)) (n : String) (h : lookupLast userSpecs n = none) :
    specOfName fns targets dataCols userSpecs n =
      if n ∈ fns.flatMap (·.args) ++ targets ++ userSpecs.filterMap (fun (_, s) => s.source) ∧
          autoOk fns dataCols n = true
      then some { aggr := .sum, source := some (removeGroupSuffix n) } else none := by
  unfold specOfName
  rw [h, Option.none_or]
  simp only [List.mem_filter, sumSpec]

/-- the names for which an automatic group sum is considered -/
theorem mi_mem_potential (a t : List String) (userSpecs : List (String × GroupSpec)) (n : String) :
    n ∈ a ++ t ++ userSpecs.filterMap (fun (_, s) => s.source) ↔
      n ∈ a ∨ n ∈ t ∨ ∃ e ∈ userSpecs, e.2.source = some n := by
  rw [List.mem_append, List.mem_append, List.mem_filterMap, or_assoc]

/-! ## names of the group aggregations are distinct -/

/-- one dictionary update on a list with keys -/
theorem mi_upd_keys {α : Type} (key : α → String) (res : List α) (d : α)
    (h : (res.map key).Nodup) :
    ((if res.any (fun e => key e = key d) then res.map (fun e => if key e = key d then d else e)
      else res ++ [d]).map key).Nodup := by
  by_cases hany : res.any (fun e => key e = key d) = true
  · rw [if_pos hany]
    have : (res.map fun e => if key e = key d then d else e).map key = res.map key := by
      rw [List.map_map]
      apply List.map_congr_left
      intro e _
      simp only [Function.comp]
      split
      · rename_i he; exact he.symm
      · rfl
    rw [this]
    exact h
  · rw [if_neg hany, List.map_append, List.map_singleton]
    simp only [List.any_eq_true, decide_eq_true_eq, not_exists, not_and] at hany
    refine List.Nodup.append h (by simp) ?_
    intro a ha hb
    rw [List.mem_singleton] at hb
    subst hb
    obtain ⟨e, he, hk⟩ := List.mem_map.1 ha
    exact hany e he hk

theorem mi_specUpd_nodup (d : List (String × GroupSpec)) (e : String × GroupSpec)
    (h : (d.map (·.1)).Nodup) : ((specUpd d e).map (·.1)).Nodup := by
  have := mi_upd_keys (fun x : String × GroupSpec => x.1) d e h
  unfold specUpd
  simpa using this

theorem mi_foldl_specUpd_nodup (l d : List (String × GroupSpec)) (h : (d.map (·.1)).Nodup) :
    ((l.foldl specUpd d).map (·.1)).Nodup := by
  induction l generalizing d with
  | nil => exact h
  | cons e l ih => exact ih _ (mi_specUpd_nodup d e h)

theorem mi_mapM_names {A : Type} {g : A → Except Err Fn} {key : A → String} {l : List A} {out : List Fn}
    (hg : ∀ a f, g a = .ok f → f.name = key a) (h : l.mapM g = .ok out) :
    out.map (·.name) = l.map key := by
  rw [Dag.mapM_ok_iff] at h
  induction h with
  | nil => rfl
  | cons hab _ ih => rw [List.map_cons, List.map_cons, ih, hg _ _ hab]

theorem mi_groupAggFns_nodup {fns : List Fn} {targets dataCols : List String}
    {userSpecs : List (String × GroupSpec)} {grp : List Fn}
    (h : groupAggFns fns targets dataCols userSpecs = .ok grp) : (grp.map (·.name)).Nodup := by
  rw [groupAggFns_eq] at h
  split at h
  · cases h
  · rw [mi_mapM_names (key := fun e : String × GroupSpec => e.1) (fun a f hf => groupAggFn_name hf) h]
    exact mi_foldl_specUpd_nodup _ [] (by simp)

/-! ## names of the time conversions are distinct -/

theorem mi_tc_upd_nodup (res : List TimeConv.Derived) (d : TimeConv.Derived)
    (h : (res.map (·.name)).Nodup) : ((TimeConv.upd res d).map (·.name)).Nodup := by
  have := mi_upd_keys (fun x : TimeConv.Derived => x.name) res d h
  unfold TimeConv.upd
  simpa using this

theorem mi_tc_foldl_upd_nodup (l res : List TimeConv.Derived) (h : (res.map (·.name)).Nodup) :
    ((l.foldl TimeConv.upd res).map (·.name)).Nodup := by
  induction l generalizing res with
  | nil => exact h
  | cons e l ih => exact ih _ (mi_tc_upd_nodup res e h)

theorem mi_tc_foldl_step_nodup {α : Type} (step : α → List TimeConv.Derived) (l : List α)
    (res : List TimeConv.Derived) (h : (res.map (·.name)).Nodup) :
    ((l.foldl (fun res a => (step a).foldl TimeConv.upd res) res).map (·.name)).Nodup := by
  induction l generalizing res with
  | nil => exact h
  | cons a l ih => exact ih _ (mi_tc_foldl_upd_nodup (step a) res h)

theorem mi_create_nodup (functions : List (String × List String)) (dataCols : List String) :
    ((TimeConv.create functions dataCols).map (·.name)).Nodup := by
  unfold TimeConv.create
  exact mi_tc_foldl_step_nodup _ dataCols _ (mi_tc_foldl_step_nodup _ functions [] (by simp))

theorem mi_timeConvFns_nodup (rulesAndPid : List Fn) (dataCols : List String) :
    ((timeConvFns rulesAndPid dataCols).map (·.name)).Nodup := by
  unfold timeConvFns
  rw [List.map_map]
  exact mi_create_nodup _ dataCols

/-! ## the dictionary merge -/

theorem mi_findFn?_reverse {d : List Fn} (hd : (d.map (·.name)).Nodup) (n : String) :
    findFn? d.reverse n = findFn? d n := by
  cases hf : findFn? d n with
  | none =>
    rw [findFn?_eq_none_iff] at hf ⊢
    rwa [List.map_reverse, List.mem_reverse]
  | some f =>
    obtain ⟨hmem, hname⟩ := findFn?_some hf
    subst hname
    exact findFn?_of_mem_nodup (by rw [List.map_reverse]; exact List.nodup_reverse.2 hd)
      (List.mem_reverse.2 hmem)

theorem mi_findFn?_merge_nodup (a b : List Fn) (hb : (b.map (·.name)).Nodup) (n : String) :
    findFn? (merge a b) n = (findFn? b n).or (findFn? a n) := by
  rw [findFn?_merge, mi_findFn?_reverse hb]

theorem mi_groupingFns_nodup : (groupingFns.map (·.name)).Nodup := by decide

/-! # B. a successful plan is complete and the fuel suffices -/

/-! ## fuel: with a rank function the result (value OR error) is stable -/

section fuel
variable {α : Type}

/-- If every dependency of a function node has a smaller rank than the node, the evaluation of `n`
with any fuel above `rank n` gives the same result — value or error — as with fuel `rank n + 1`. -/
theorem mi_eval_fuel_stable (S : Dag.Sys α) (D : Dag.Data α) (rank : String → Nat)
    (hrank : ∀ n node, Dag.find? D n = none → Dag.find? S n = some node →
      ∀ d ∈ node.deps, rank d < rank n) :
    ∀ (r : Nat) (n : String), rank n ≤ r → ∀ fuel, rank n < fuel →
      Dag.eval S D fuel n = Dag.eval S D (rank n + 1) n := by
  intro r
  induction r with
  | zero =>
    intro n hn fuel hfuel
    obtain ⟨f', rfl⟩ : ∃ f', fuel = f' + 1 := ⟨fuel - 1, by omega⟩
    rw [Dag.eval, Dag.eval]
    cases hD : Dag.find? D n with
    | some c => rfl
    | none =>
      cases hS : Dag.find? S n with
      | none => rfl
      | some node =>
        simp only
        have : node.deps = [] := by
          cases hdeps : node.deps with
          | nil => rfl
          | cons d ds =>
            have := hrank n node hD hS d (by rw [hdeps]; exact List.mem_cons_self)
            omega
        rw [this]
        rfl
  | succ r ih =>
    intro n hn fuel hfuel
    obtain ⟨f', rfl⟩ : ∃ f', fuel = f' + 1 := ⟨fuel - 1, by omega⟩
    rw [Dag.eval, Dag.eval]
    cases hD : Dag.find? D n with
    | some c => rfl
    | none =>
      cases hS : Dag.find? S n with
      | none => rfl
      | some node =>
        simp only
        have hcongr : Dag.evalAll (Dag.eval S D f') node.deps =
            Dag.evalAll (Dag.eval S D (rank n)) node.deps := by
          apply Dag.evalAll_congr
          intro d hd
          have hlt := hrank n node hD hS d hd
          rw [ih d (by omega) f' (by omega), ih d (by omega) (rank n) hlt]
        rw [hcongr]

end fuel

/-! ## `minName` and `topoLoop` -/

theorem mi_minName_mem {l : List String} {m : String} (h : minName l = some m) : m ∈ l := by
  induction l generalizing m with
  | nil => cases h
  | cons x xs ih =>
    rw [minName] at h
    cases hx : minName xs with
    | none => rw [hx] at h; cases h; exact List.mem_cons_self
    | some m' =>
      rw [hx] at h
      simp only [Option.some.injEq] at h
      split at h
      · subst h; exact List.mem_cons_self
      · subst h; exact List.mem_cons_of_mem _ (ih hx)

theorem mi_minName_none {l : List String} (h : minName l = none) : l = [] := by
  cases l with
  | nil => rfl
  | cons x xs =>
    rw [minName] at h
    cases hx : minName xs <;> rw [hx] at h <;> cases h

/-- a list of processed nodes, NEWEST FIRST: every node was new when it was appended, is a node of
the graph, and all its predecessors had been processed before -/
def mi_GoodDone (g : List (String × List String)) : List String → Prop
  | [] => True
  | n :: rest => n ∉ rest ∧ (∃ ds, (n, ds) ∈ g ∧ ∀ d ∈ ds, d ∈ rest) ∧ mi_GoodDone g rest

theorem mi_topoLoop_good (g : List (String × List String)) (k : Nat) (done : List String)
    (h : mi_GoodDone g done) : mi_GoodDone g (topoLoop g k done).reverse := by
  induction k generalizing done with
  | zero => simp only [topoLoop, List.reverse_reverse]; exact h
  | succ k ih =>
    rw [topoLoop]
    simp only
    cases hm : minName ((g.filter fun (n, ds) => !done.contains n && ds.all done.contains).map (·.1)) with
    | none => simp only [List.reverse_reverse]; exact h
    | some n =>
      simp only
      apply ih
      have hmem := mi_minName_mem hm
      obtain ⟨⟨n', ds⟩, hfil, rfl⟩ := List.mem_map.1 hmem
      rw [List.mem_filter] at hfil
      obtain ⟨hg, hcond⟩ := hfil
      simp only [Bool.and_eq_true, Bool.not_eq_true', List.all_eq_true, List.contains_iff_mem] at hcond
      refine ⟨?_, ⟨ds, hg, hcond.2⟩, h⟩
      intro hin
      have := hcond.1
      rw [← Bool.not_eq_true, List.contains_iff_mem] at this
      exact this hin

theorem mi_topoOrder_good (g : List (String × List String)) : mi_GoodDone g (topoOrder g).reverse :=
  mi_topoLoop_good g g.length [] trivial

theorem mi_good_nodup {g : List (String × List String)} {L : List String} (h : mi_GoodDone g L) :
    L.Nodup := by
  induction L with
  | nil => exact List.nodup_nil
  | cons n rest ih => exact List.nodup_cons.2 ⟨h.1, ih h.2.2⟩

theorem mi_good_keys {g : List (String × List String)} {L : List String} (h : mi_GoodDone g L) :
    ∀ n ∈ L, n ∈ g.map (·.1) := by
  induction L with
  | nil => intro n hn; cases hn
  | cons x rest ih =>
    intro n hn
    rcases List.mem_cons.1 hn with rfl | hn
    · obtain ⟨ds, hds, _⟩ := h.2.1
      exact List.mem_map.2 ⟨(n, ds), hds, rfl⟩
    · exact ih h.2.2 n hn

/-- position of `n` counted from the END of the list plus one (`0` = absent) -/
def mi_rank : List String → String → Nat
  | [], _ => 0
  | x :: rest, n => if x = n then rest.length + 1 else mi_rank rest n

theorem mi_rank_le (L : List String) (n : String) : mi_rank L n ≤ L.length := by
  induction L with
  | nil => exact Nat.le_refl _
  | cons x rest ih =>
    rw [mi_rank]
    split
    · simp
    · simp only [List.length_cons]; omega

theorem mi_rank_pos {L : List String} {n : String} (h : n ∈ L) : 0 < mi_rank L n := by
  induction L with
  | nil => cases h
  | cons x rest ih =>
    rw [mi_rank]
    split
    · omega
    · rename_i hne
      rcases List.mem_cons.1 h with rfl | h
      · exact absurd rfl hne
      · exact ih h

/-- in a good list the predecessors of a node have smaller ranks (keys of `g` distinct) -/
theorem mi_good_rank {g : List (String × List String)} (hg : (g.map (·.1)).Nodup) {L : List String}
    (h : mi_GoodDone g L) {n : String} {ds : List String} (hn : n ∈ L) (hnds : (n, ds) ∈ g) :
    ∀ d ∈ ds, 0 < mi_rank L d ∧ mi_rank L d < mi_rank L n := by
  induction L with
  | nil => cases hn
  | cons x rest ih =>
    intro d hd
    by_cases hx : x = n
    · subst hx
      obtain ⟨hnew, ⟨ds', hds', hall⟩, hrest⟩ := h
      have hds : ds' = ds := by
        have := List.inj_on_of_nodup_map hg hds' hnds rfl
        exact (Prod.mk.inj this).2
      subst hds
      have hdr := hall d hd
      have hne : x ≠ d := fun hh => hnew (hh ▸ hdr)
      rw [mi_rank, if_neg hne, mi_rank, if_pos rfl]
      exact ⟨mi_rank_pos hdr, Nat.lt_succ_of_le (mi_rank_le rest d)⟩
    · have hn' : n ∈ rest := by
        rcases List.mem_cons.1 hn with h' | h'
        · exact absurd h'.symm hx
        · exact h'
      obtain ⟨h1, h2⟩ := ih h.2.2 hn' d hd
      have hdr : d ∈ rest := by
        by_contra hcon
        have : mi_rank rest d = 0 := by
          clear ih h1 h2 h hn hn'
          induction rest with
          | nil => rfl
          | cons y ys ihy =>
            rw [mi_rank]
            split
            · rename_i hy; exact absurd (hy ▸ List.mem_cons_self) hcon
            · exact ihy fun hh => hcon (List.mem_cons_of_mem _ hh)
        omega
      have hne : x ≠ d := fun hh => h.1 (hh ▸ hdr)
      rw [mi_rank, if_neg hne, mi_rank, if_neg hx]
      exact ⟨h1, h2⟩

theorem mi_rank_zero {L : List String} {n : String} (h : n ∉ L) : mi_rank L n = 0 := by
  induction L with
  | nil => rfl
  | cons y ys ih =>
    rw [mi_rank]
    split
    · rename_i hy; exact absurd (hy ▸ List.mem_cons_self) h
    · exact ih fun hh => h (List.mem_cons_of_mem _ hh)

/-- restricting a good list (and the graph) to the nodes that satisfy `p` -/
theorem mi_good_filter (g : List (String × List String)) (p : String → Bool) {L : List String}
    (h : mi_GoodDone g L) :
    mi_GoodDone ((g.filter fun e => p e.1).map fun e => (e.1, e.2.filter p)) (L.filter p) := by
  induction L with
  | nil => trivial
  | cons n rest ih =>
    rw [List.filter_cons]
    by_cases hp : p n = true
    · rw [if_pos hp]
      obtain ⟨hnew, ⟨ds, hds, hall⟩, hrest⟩ := h
      refine ⟨fun hin => hnew (List.mem_filter.1 hin).1, ⟨ds.filter p, ?_, ?_⟩, ih hrest⟩
      · exact List.mem_map.2 ⟨(n, ds), List.mem_filter.2 ⟨hds, hp⟩, rfl⟩
      · intro d hd
        rw [List.mem_filter] at hd ⊢
        exact ⟨hall d hd.1, hd.2⟩
    · rw [if_neg hp]
      exact ih h.2.2

theorem mi_filter_keys_nodup (g : List (String × List String)) (p : String → Bool)
    (hg : (g.map (·.1)).Nodup) :
    (((g.filter fun e => p e.1).map fun e => (e.1, e.2.filter p)).map (·.1)).Nodup := by
  rw [List.map_map]
  exact hg.sublist ((List.filter_sublist (p := fun e => p e.1) (l := g)).map _)

/-- the successor–predecessor split of a good list -/
theorem mi_good_split {g : List (String × List String)} (hg : (g.map (·.1)).Nodup) {L : List String}
    (h : mi_GoodDone g L) {n : String} (hn : n ∈ L) :
    ∃ l1 rest, L = l1 ++ n :: rest ∧ ∀ ds, (n, ds) ∈ g → ∀ d ∈ ds, d ∈ rest := by
  induction L with
  | nil => cases hn
  | cons x rest ih =>
    by_cases hx : x = n
    · subst hx
      obtain ⟨_, ⟨ds', hds', hall⟩, _⟩ := h
      refine ⟨[], rest, rfl, ?_⟩
      intro ds hds
      have := List.inj_on_of_nodup_map hg hds' hds rfl
      rw [← (Prod.mk.inj this).2]
      exact hall
    · have hn' : n ∈ rest := by
        rcases List.mem_cons.1 hn with h' | h'
        · exact absurd h'.symm hx
        · exact h'
      obtain ⟨l1, r, hL, hr⟩ := ih h.2.2 hn'
      exact ⟨x :: l1, r, by rw [hL]; rfl, hr⟩

/-- Kahn's algorithm processed every node if the cycle check passed -/
theorem mi_topoOrder_complete (g : List (String × List String))
    (hc : hasCycle g = false) : ∀ n ∈ g.map (·.1), n ∈ topoOrder g := by
  have hgood := mi_topoOrder_good g
  have hnd : (topoOrder g).Nodup := List.nodup_reverse.1 (mi_good_nodup hgood)
  have hsub : topoOrder g ⊆ g.map (·.1) := fun n hn =>
    mi_good_keys hgood n (List.mem_reverse.2 hn)
  unfold hasCycle at hc
  have hlen : (g.map (·.1)).length ≤ (topoOrder g).length := by
    rw [List.length_map]
    simpa using hc
  exact ((List.subperm_of_subset hnd hsub).perm_of_length_le hlen).symm.subset

/-! ## `graphOf` -/

theorem mi_dedup_mem (l acc : List String) (r : String) :
    r ∈ l.foldl (fun acc r => if acc.contains r then acc else acc ++ [r]) acc ↔ r ∈ acc ∨ r ∈ l := by
  induction l generalizing acc with
  | nil => simp
  | cons x xs ih =>
    rw [List.foldl_cons, ih]
    by_cases hx : acc.contains x = true
    · rw [if_pos hx]
      rw [List.contains_iff_mem] at hx
      simp only [List.mem_cons]
      constructor
      · rintro (h | h)
        · exact Or.inl h
        · exact Or.inr (Or.inr h)
      · rintro (h | rfl | h)
        · exact Or.inl h
        · exact Or.inl hx
        · exact Or.inr h
    · rw [if_neg hx]
      simp only [List.mem_append, List.mem_cons, List.not_mem_nil, or_false]
      constructor
      · rintro ((h | h) | h)
        · exact Or.inl h
        · exact Or.inr (Or.inl h)
        · exact Or.inr (Or.inr h)
      · rintro (h | h | h)
        · exact Or.inl (Or.inl h)
        · exact Or.inl (Or.inr h)
        · exact Or.inr h

theorem mi_dedup_nodup (l acc : List String) (h : acc.Nodup) :
    (l.foldl (fun acc r => if acc.contains r then acc else acc ++ [r]) acc).Nodup := by
  induction l generalizing acc with
  | nil => exact h
  | cons x xs ih =>
    rw [List.foldl_cons]
    apply ih
    by_cases hx : acc.contains x = true
    · rw [if_pos hx]; exact h
    · rw [if_neg hx]
      rw [List.contains_iff_mem] at hx
      refine List.Nodup.append h (by simp) ?_
      intro a ha hb
      rw [List.mem_singleton] at hb
      subst hb
      exact hx ha

theorem mi_graphOf_keys (fns : List (String × List String)) (n : String) :
    n ∈ (graphOf fns).map (·.1) ↔
      n ∈ fns.map (·.1) ∨ (n ∈ fns.flatMap (·.2) ∧ n ∉ fns.map (·.1)) := by
  unfold graphOf
  simp only [List.map_append, List.mem_append, List.map_map]
  refine or_congr Iff.rfl ?_
  have : ((fun r : String => (r, ([] : List String))) ∘ fun x => x) = fun r => (r, []) := rfl
  rw [show (List.map ((fun x : String × List String => x.1) ∘ fun r => (r, []))
      (List.foldl (fun acc r => if acc.contains r = true then acc else acc ++ [r]) []
        (List.filter (fun a => !(List.map (fun x => x.1) fns).contains a) (List.flatMap (fun x => x.2) fns)))) =
      (List.foldl (fun acc r => if acc.contains r = true then acc else acc ++ [r]) []
        (List.filter (fun a => !(List.map (fun x => x.1) fns).contains a) (List.flatMap (fun x => x.2) fns)))
    from List.map_id' _]
  rw [mi_dedup_mem, List.mem_filter]
  simp

theorem mi_graphOf_keys_nodup (fns : List (String × List String)) (h : (fns.map (·.1)).Nodup) :
    ((graphOf fns).map (·.1)).Nodup := by
  unfold graphOf
  simp only [List.map_append, List.map_map]
  rw [show (List.map ((fun x : String × List String => x.1) ∘ fun r => (r, []))
      (List.foldl (fun acc r => if acc.contains r = true then acc else acc ++ [r]) []
        (List.filter (fun a => !(List.map (fun x => x.1) fns).contains a) (List.flatMap (fun x => x.2) fns)))) =
      (List.foldl (fun acc r => if acc.contains r = true then acc else acc ++ [r]) []
        (List.filter (fun a => !(List.map (fun x => x.1) fns).contains a) (List.flatMap (fun x => x.2) fns)))
    from List.map_id' _]
  refine List.Nodup.append h (mi_dedup_nodup _ [] List.nodup_nil) ?_
  intro a ha hb
  rw [mi_dedup_mem, List.mem_filter] at hb
  rcases hb with hb | hb
  · cases hb
  · have := hb.2
    rw [Bool.not_eq_true', ← Bool.not_eq_true, List.contains_iff_mem] at this
    exact this ha

theorem mi_mem_graphOf (fns : List (String × List String)) (e : String × List String) (h : e ∈ fns) :
    e ∈ graphOf fns := by
  unfold graphOf
  exact List.mem_append_left _ h

theorem mi_root_mem_graphOf (fns : List (String × List String)) (d : String)
    (hd : d ∈ fns.flatMap (·.2)) (hn : d ∉ fns.map (·.1)) : (d, []) ∈ graphOf fns := by
  unfold graphOf
  apply List.mem_append_right
  apply List.mem_map.2
  refine ⟨d, ?_, rfl⟩
  rw [mi_dedup_mem, List.mem_filter]
  refine Or.inr ⟨hd, ?_⟩
  rw [Bool.not_eq_true', ← Bool.not_eq_true, List.contains_iff_mem]
  exact hn

/-! ## `plan` -/

theorem mi_planCyclic_graph (targets : List String) (pr : Prep) :
    planCyclic targets pr =
      hasCycle (graphOf ((rnd_necessaryFns targets pr).map fun f => (f.name, f.args))) := by
  unfold planCyclic rnd_necessaryFns
  simp only
  rw [List.filter_map]
  rfl

theorem mi_necessary_nodup (targets : List String) (pr : Prep) (hnd : (pr.fns.map (·.name)).Nodup) :
    ((rnd_necessaryFns targets pr).map (·.name)).Nodup := nodup_filter_names _ _ hnd

theorem mi_freeArgs_sub (params : List (String × Val)) (f : Fn) : ∀ d ∈ freeArgs params f, d ∈ f.args :=
  fun _ hd => (List.mem_filter.1 hd).1

/-- the node registered under `t` in the system of a plan -/
theorem mi_planWith_find {params : List (String × Val)} {targets : List String} {pr : Prep}
    {specs : List (String × RSpec)} {p : Plan} (h : planWith params targets pr specs = .ok p)
    {t : String} {node : Dag.Node Col} (ht : Dag.find? p.sys t = some node) :
    ∃ f ∈ rnd_necessaryFns targets pr, f.name = t ∧ node.deps = freeArgs params f := by
  obtain ⟨f, hf, he⟩ := planWith_sys h _ (Dag.find?_mem _ _ _ ht)
  cases he
  exact ⟨f, hf, rfl, rfl⟩

/-- B.1: where the dependencies of the nodes of a plan live -/
theorem mi_planWith_roots {params : List (String × Val)} {targets : List String} {pr : Prep}
    {specs : List (String × RSpec)} {p : Plan} (h : planWith params targets pr specs = .ok p) :
    ∀ e ∈ p.sys, ∀ d ∈ e.2.deps,
      (Dag.find? p.sys d).isSome = true ∨ d ∈ pr.dataCols ∨
        ∃ f ∈ rnd_necessaryFns targets pr, f.name = d ∧ f.args.all isParamArg = true := by
  unfold planWith at h
  simp only at h
  split at h
  · cases h
  · rename_i hmiss
    cases h
    intro e he d hd
    simp only [List.mem_map, List.mem_filter] at he
    obtain ⟨f, ⟨hf, hfp⟩, rfl⟩ := he
    have hd' : d ∈ freeArgs params f := hd
    -- the processed functions that survive the second pruning
    generalize hPN : pruneNames ((rnd_necessaryFns targets pr).map fun f => (f.name, freeArgs params f))
      pr.dataCols targets = PN at hmiss hfp ⊢
    by_cases hname : d ∈ (((rnd_necessaryFns targets pr).map fun f => (f.name, freeArgs params f)).filter
        fun x => PN.contains x.1).map (·.1)
    · left
      rw [Dag.find?_isSome_iff]
      simp only [List.mem_map, List.mem_filter] at hname ⊢
      obtain ⟨⟨n', ds'⟩, ⟨⟨f', hf', hfe⟩, hpn⟩, hn'⟩ := hname
      simp only [Prod.mk.injEq] at hfe
      simp only at hn' hpn
      subst hn'
      exact ⟨(f'.name, nodeOf params specs f'), ⟨f', ⟨hf', by rw [hfe.1]; exact hpn⟩, rfl⟩, hfe.1⟩
    · right
      have hroot := mi_root_mem_graphOf _ d (by
        rw [List.mem_flatMap]
        exact ⟨(f.name, freeArgs params f),
          List.mem_filter.2 ⟨List.mem_map.2 ⟨f, hf, rfl⟩, hfp⟩, hd'⟩) hname
      simp only [Bool.not_eq_true', Bool.not_eq_false, List.isEmpty_iff] at hmiss
      have := List.filter_eq_nil_iff.1 hmiss (d, []) hroot
      simp only [List.isEmpty_nil, Bool.true_and, Bool.and_eq_true, Bool.not_eq_true', not_and,
        Bool.not_eq_false, List.contains_iff_mem] at this
      by_cases hdc : d ∈ pr.dataCols
      · exact Or.inl hdc
      · right
        have hpo := this (by simpa using hdc)
        simp only [List.mem_map, List.mem_filter] at hpo
        obtain ⟨f', ⟨hf', hall⟩, hn'⟩ := hpo
        exact ⟨f', hf', hn', hall⟩

/-- B.2/B.3: a rank function for the system of a plan -/
theorem mi_plan_good {params : List (String × Val)} {targets : List String} {pr : Prep} {p : Plan}
    (hnd : (pr.fns.map (·.name)).Nodup) (h : plan params targets pr = .ok p) :
    ∃ (L : List String) (g : List (String × List String)),
      mi_GoodDone g L ∧ (g.map (·.1)).Nodup ∧
      (∀ n, n ∈ L ↔ (Dag.find? p.sys n).isSome = true) ∧
      (∀ t node, Dag.find? p.sys t = some node →
        ∃ ds, (t, ds) ∈ g ∧ ∀ d ∈ node.deps, (Dag.find? p.sys d).isSome = true → d ∈ ds) := by
  obtain ⟨hcyc, specs, _, hp⟩ := rnd_plan_ok h
  rw [mi_planCyclic_graph] at hcyc
  generalize hF : ((rnd_necessaryFns targets pr).map fun f => (f.name, f.args)) = F at hcyc
  have hFnd : (F.map (·.1)).Nodup := by
    rw [← hF, List.map_map]
    exact mi_necessary_nodup targets pr hnd
  have hgnd := mi_graphOf_keys_nodup F hFnd
  have hgood := mi_topoOrder_good (graphOf F)
  have hcomplete := mi_topoOrder_complete (graphOf F) hcyc
  let isSys : String → Bool := fun n => (Dag.find? p.sys n).isSome
  refine ⟨(topoOrder (graphOf F)).reverse.filter isSys, _, mi_good_filter (graphOf F) isSys hgood,
    mi_filter_keys_nodup (graphOf F) isSys hgnd, ?_, ?_⟩
  · intro n
    rw [List.mem_filter, List.mem_reverse]
    constructor
    · exact fun hh => hh.2
    · intro hs
      refine ⟨?_, hs⟩
      cases hfind : Dag.find? p.sys n with
      | none => rw [hfind] at hs; cases hs
      | some node =>
        obtain ⟨f, hf, hname, _⟩ := mi_planWith_find hp hfind
        apply hcomplete
        rw [mi_graphOf_keys]
        left
        rw [← hF, List.map_map]
        exact List.mem_map.2 ⟨f, hf, hname⟩
  · intro t node ht
    obtain ⟨f, hf, hname, hdeps⟩ := mi_planWith_find hp ht
    -- the graph has the node `t` with ALL arguments of `f`; the free ones are among them
    refine ⟨f.args.filter isSys, ?_, ?_⟩
    · apply List.mem_map.2
      refine ⟨(t, f.args), List.mem_filter.2 ⟨mi_mem_graphOf F _ ?_, ?_⟩, rfl⟩
      · rw [← hF, ← hname]
        exact List.mem_map.2 ⟨f, hf, rfl⟩
      · show isSys t = true
        show (Dag.find? p.sys t).isSome = true
        rw [ht]; rfl
    · intro d hd hs
      rw [hdeps] at hd
      exact List.mem_filter.2 ⟨mi_freeArgs_sub params f d hd, hs⟩

/-- the rank of a plan's nodes: dependencies have smaller ranks, all ranks are ≤ the number of nodes -/
theorem mi_plan_rank {params : List (String × Val)} {targets : List String} {pr : Prep} {p : Plan}
    (hnd : (pr.fns.map (·.name)).Nodup) (h : plan params targets pr = .ok p) :
    ∃ rank : String → Nat, (∀ n, rank n ≤ p.sys.length) ∧
      ∀ n node, Dag.find? p.sys n = some node → ∀ d ∈ node.deps, rank d < rank n := by
  obtain ⟨L, g, hgood, hgnd, hmem, hg⟩ := mi_plan_good hnd h
  refine ⟨mi_rank L, ?_, ?_⟩
  · intro n
    refine Nat.le_trans (mi_rank_le L n) ?_
    have hsub : L ⊆ p.sys.map (·.1) := fun x hx => (Dag.find?_isSome_iff _ _).1 ((hmem x).1 hx)
    have := (List.subperm_of_subset (mi_good_nodup hgood) hsub).length_le
    simpa using this
  · intro n node hn d hd
    have hnL : n ∈ L := (hmem n).2 (by rw [hn]; rfl)
    obtain ⟨ds, hds, hall⟩ := hg n node hn
    by_cases hs : (Dag.find? p.sys d).isSome = true
    · exact (mi_good_rank hgnd hgood hnL hds d (hall d hd hs)).2
    · rw [mi_rank_zero fun hin => hs ((hmem d).1 hin)]
      exact mi_rank_pos hnL


/-! ## the second pruning keeps the dependencies of what it keeps -/

/-- with a rank function and enough fuel the reachable set is closed under dependencies -/
theorem mi_reach_closed {α : Type} (S : Dag.Sys α) (D : Dag.Data α) (rank : String → Nat)
    (hrank : ∀ n node, Dag.find? D n = none → Dag.find? S n = some node →
      ∀ d ∈ node.deps, rank d < rank n) :
    ∀ (k : Nat) (n : String), rank n < k → ∀ x ∈ Dag.reach S D k n, ∀ node,
      Dag.find? D x = none → Dag.find? S x = some node → ∀ d ∈ node.deps, d ∈ Dag.reach S D k n := by
  intro k
  induction k with
  | zero => intro n hn; omega
  | succ k ih =>
    intro n hn x hx node hDx hSx d hd
    rw [Dag.reach] at hx ⊢
    cases hD : Dag.find? D n with
    | some c =>
      rw [hD] at hx
      simp only [List.mem_singleton] at hx
      subst hx
      rw [hD] at hDx; cases hDx
    | none =>
      rw [hD] at hx
      cases hS : Dag.find? S n with
      | none =>
        rw [hS] at hx
        simp only [List.mem_singleton] at hx
        subst hx
        rw [hS] at hSx; cases hSx
      | some nd =>
        rw [hS] at hx
        simp only [List.mem_cons, List.mem_flatMap] at hx ⊢
        right
        rcases hx with rfl | ⟨d', hd', hx⟩
        · rw [hS] at hSx
          cases hSx
          exact ⟨d, hd, Dag.self_mem_reach S D k d⟩
        · have hlt := hrank n nd hD hS d' hd'
          exact ⟨d', hd', ih d' (by omega) x hx node hDx hSx d hd⟩

/-- a rank function on the necessary functions (from the cycle check) -/
theorem mi_necessary_rank {targets : List String} {pr : Prep}
    (hnd : (pr.fns.map (·.name)).Nodup) (hcyc : planCyclic targets pr = false) :
    ∃ rank : String → Nat, (∀ n, rank n ≤ (rnd_necessaryFns targets pr).length) ∧
      ∀ f ∈ rnd_necessaryFns targets pr, ∀ d ∈ f.args, rank d < rank f.name := by
  rw [mi_planCyclic_graph] at hcyc
  generalize hF : ((rnd_necessaryFns targets pr).map fun f => (f.name, f.args)) = F at hcyc
  have hFnd : (F.map (·.1)).Nodup := by
    rw [← hF, List.map_map]
    exact mi_necessary_nodup targets pr hnd
  have hgnd := mi_graphOf_keys_nodup F hFnd
  have hgood := mi_topoOrder_good (graphOf F)
  have hcomplete := mi_topoOrder_complete (graphOf F) hcyc
  let isN : String → Bool := fun n => (F.map (·.1)).contains n
  have hgood' := mi_good_filter (graphOf F) isN hgood
  have hgnd' := mi_filter_keys_nodup (graphOf F) isN hgnd
  refine ⟨mi_rank ((topoOrder (graphOf F)).reverse.filter isN), ?_, ?_⟩
  · intro n
    refine Nat.le_trans (mi_rank_le _ n) ?_
    have hsub : (topoOrder (graphOf F)).reverse.filter isN ⊆ F.map (·.1) := by
      intro x hx
      have := (List.mem_filter.1 hx).2
      exact List.contains_iff_mem.1 this
    have := (List.subperm_of_subset (mi_good_nodup hgood') hsub).length_le
    have hlenF : (F.map (·.1)).length = (rnd_necessaryFns targets pr).length := by
      rw [← hF]; simp
    exact Nat.le_trans this (Nat.le_of_eq hlenF)
  · intro f hf d hd
    have hkey : f.name ∈ F.map (·.1) := by
      rw [← hF, List.map_map]; exact List.mem_map.2 ⟨f, hf, rfl⟩
    have hisN : isN f.name = true := List.contains_iff_mem.2 hkey
    have hnL : f.name ∈ (topoOrder (graphOf F)).reverse.filter isN := by
      rw [List.mem_filter, List.mem_reverse]
      exact ⟨hcomplete _ ((mi_graphOf_keys F _).2 (Or.inl hkey)), hisN⟩
    have hmemF : (f.name, f.args) ∈ F := by rw [← hF]; exact List.mem_map.2 ⟨f, hf, rfl⟩
    have hg' : (f.name, f.args.filter isN) ∈
        ((graphOf F).filter fun e => isN e.1).map fun e => (e.1, e.2.filter isN) :=
      List.mem_map.2 ⟨(f.name, f.args), List.mem_filter.2 ⟨mi_mem_graphOf F _ hmemF, hisN⟩, rfl⟩
    by_cases hdN : isN d = true
    · exact (mi_good_rank hgnd' hgood' hnL hg' d (List.mem_filter.2 ⟨hd, hdN⟩)).2
    · rw [mi_rank_zero fun hin => hdN (List.mem_filter.1 hin).2]
      exact mi_rank_pos hnL

theorem mi_find?_map_nodup {β : Type} (g : Fn → β) {L : List Fn} (hL : (L.map (·.name)).Nodup)
    {f : Fn} (hf : f ∈ L) : Dag.find? (L.map fun f => (f.name, g f)) f.name = some (g f) := by
  have := find?_map_fns g L f.name
  unfold find? at this
  rw [this, findFn?_of_mem_nodup hL hf]
  rfl

theorem mi_find?_map_some {β : Type} (g : Fn → β) {L : List Fn} {x : String} {b : β}
    (h : Dag.find? (L.map fun f => (f.name, g f)) x = some b) : ∃ f ∈ L, f.name = x ∧ b = g f := by
  have := find?_map_fns g L x
  unfold find? at this
  rw [this] at h
  cases hf : findFn? L x with
  | none => rw [hf] at h; cases h
  | some f =>
    rw [hf] at h
    simp only [Option.map_some, Option.some.injEq] at h
    obtain ⟨hmem, hname⟩ := findFn?_some hf
    exact ⟨f, hmem, hname, h.symm⟩

/-- the names kept by the pruning of a name-only function set contain, with every kept function
that is not a data column, all dependencies of it that are functions -/
theorem mi_pruneNames_closed (N : List Fn) (args : Fn → List String) (dataCols targets : List String)
    (hN : (N.map (·.name)).Nodup) (rank : String → Nat) (hle : ∀ n, rank n ≤ N.length)
    (hrank : ∀ f ∈ N, ∀ d ∈ args f, rank d < rank f.name)
    {f f' : Fn} (hf : f ∈ N) (hf' : f' ∈ N) (hdep : f'.name ∈ args f) (hfd : f.name ∉ dataCols)
    (hkept : f.name ∈ pruneNames (N.map fun f => (f.name, args f)) dataCols targets) :
    f'.name ∈ pruneNames (N.map fun f => (f.name, args f)) dataCols targets := by
  unfold pruneNames at hkept ⊢
  simp only [List.map_map, List.length_map] at hkept ⊢
  generalize hS : (N.map ((fun x : String × List String =>
      (x.1, ({ deps := x.2, op := fun _ => Except.ok () } : Dag.Node Unit))) ∘ fun f => (f.name, args f))) = S
    at hkept ⊢
  generalize hD : (dataCols.map fun n => (n, ())) = D at hkept ⊢
  have hS' : S = N.map fun f => (f.name, ({ deps := args f, op := fun _ => Except.ok () } : Dag.Node Unit)) := by
    rw [← hS]; rfl
  have hrankS : ∀ n node, Dag.find? D n = none → Dag.find? S n = some node →
      ∀ d ∈ node.deps, rank d < rank n := by
    intro n node _ hSn d hd
    rw [hS'] at hSn
    obtain ⟨g, hg, hname, hnode⟩ := mi_find?_map_some _ hSn
    subst hnode hname
    exact hrank g hg d hd
  unfold Dag.prune at hkept ⊢
  simp only [List.mem_map, List.mem_filter, List.contains_iff_mem, List.mem_flatMap] at hkept ⊢
  obtain ⟨e, ⟨_, t, ht, hreach⟩, hname⟩ := hkept
  rw [hname] at hreach
  have hDf : Dag.find? D f.name = none := by
    rw [Dag.find?_eq_none_iff, ← hD, List.map_map]
    simpa using hfd
  have hSf : Dag.find? S f.name = some { deps := args f, op := fun _ => Except.ok () } := by
    rw [hS']; exact mi_find?_map_nodup _ hN hf
  have := mi_reach_closed S D rank hrankS (N.length + 1) t (Nat.lt_succ_of_le (hle t)) f.name hreach _
    hDf hSf f'.name hdep
  refine ⟨(f'.name, { deps := args f', op := fun _ => Except.ok () }), ⟨?_, t, ht, this⟩, rfl⟩
  rw [hS']
  exact List.mem_map.2 ⟨f', hf', rfl⟩

theorem mi_planWith_sys_eq {params : List (String × Val)} {targets : List String} {pr : Prep}
    {specs : List (String × RSpec)} {p : Plan} (h : planWith params targets pr specs = .ok p) :
    p.sys = ((rnd_necessaryFns targets pr).filter fun f =>
      (pruneNames ((rnd_necessaryFns targets pr).map fun f => (f.name, freeArgs params f))
        pr.dataCols targets).contains f.name).map fun f => (f.name, nodeOf params specs f) := by
  unfold planWith at h
  simp only at h
  split at h
  · cases h
  · cases h; rfl

/-- B.1, strong form: every dependency of a node of the plan is a node of the plan or a data column -/
theorem mi_plan_roots_strong {params : List (String × Val)} {targets : List String} {pr : Prep}
    {p : Plan} (hnd : (pr.fns.map (·.name)).Nodup) (hfd : ∀ f ∈ pr.fns, f.name ∉ pr.dataCols)
    (h : plan params targets pr = .ok p) :
    ∀ e ∈ p.sys, ∀ d ∈ e.2.deps, (Dag.find? p.sys d).isSome = true ∨ d ∈ pr.dataCols := by
  obtain ⟨hcyc, specs, _, hp⟩ := rnd_plan_ok h
  intro e he d hd
  rcases mi_planWith_roots hp e he d hd with h1 | h2 | ⟨f', hf', hname, _⟩
  · exact Or.inl h1
  · exact Or.inr h2
  · left
    obtain ⟨rank, hle, hrank⟩ := mi_necessary_rank hnd hcyc
    have hsys := mi_planWith_sys_eq hp
    rw [hsys] at he
    simp only [List.mem_map, List.mem_filter] at he
    obtain ⟨f, ⟨hf, hfp⟩, rfl⟩ := he
    have hd' : d ∈ freeArgs params f := hd
    subst hname
    have hclosed := mi_pruneNames_closed (rnd_necessaryFns targets pr) (freeArgs params) pr.dataCols
      targets (mi_necessary_nodup targets pr hnd) rank hle
      (fun g hg d hd => hrank g hg d (mi_freeArgs_sub params g d hd)) hf hf' hd'
      (hfd f (List.mem_filter.1 hf).1) (List.contains_iff_mem.1 hfp)
    rw [Dag.find?_isSome_iff, hsys]
    simp only [List.mem_map, List.mem_filter]
    exact ⟨(f'.name, nodeOf params specs f'), ⟨f', ⟨hf', List.contains_iff_mem.2 hclosed⟩, rfl⟩, rfl⟩

theorem mi_convertData_names {data out : List (String × Col)} {overridden : List Fn}
    (h : convertData data overridden = .ok out) : out.map (·.1) = data.map (·.1) := by
  rw [mi_convertData_iff] at h
  induction h with
  | nil => rfl
  | cons hab _ ih => rw [List.map_cons, List.map_cons, ih, hab.1]

/-- what `prepare` guarantees about its result -/
theorem mi_prepare_hyps {ruleFns : List Fn} {gs : List (String × GroupSpec)}
    {ps : List (String × PidSpec)} {data : List (String × Column)} {targets : List String} {pr : Prep}
    (h : prepare ruleFns gs ps data targets = .ok pr) :
    (pr.fns.map (·.name)).Nodup ∧ (∀ f ∈ pr.fns, f.name ∉ pr.dataCols) ∧
      pr.data.map (·.1) = pr.dataCols := by
  obtain ⟨raw, all, _, _, hconv, hfns, hdc⟩ := prepare_ok h
  refine ⟨prepare_fns_nodup h, ?_, ?_⟩
  · intro f hf hin
    rw [hfns] at hf
    have := (List.mem_filter.1 hf).2
    rw [Bool.not_eq_true', ← Bool.not_eq_true, List.contains_iff_mem, ← hdc] at this
    exact this hin
  · rw [mi_convertData_names hconv, hdc]

/-! ## the execution order `p.order` (second run of Kahn's algorithm) -/

theorem mi_mem_graphOf_cases (fns : List (String × List String)) (e : String × List String)
    (h : e ∈ graphOf fns) : e ∈ fns ∨ (e.2 = [] ∧ e.1 ∉ fns.map (·.1)) := by
  unfold graphOf at h
  rcases List.mem_append.1 h with h | h
  · exact Or.inl h
  · right
    obtain ⟨r, hr, rfl⟩ := List.mem_map.1 h
    rw [mi_dedup_mem, List.mem_filter] at hr
    rcases hr with hr | hr
    · cases hr
    · refine ⟨rfl, ?_⟩
      have := hr.2
      rw [Bool.not_eq_true', ← Bool.not_eq_true, List.contains_iff_mem] at this
      exact this

theorem mi_planWith_order_eq {params : List (String × Val)} {targets : List String} {pr : Prep}
    {specs : List (String × RSpec)} {p : Plan} (h : planWith params targets pr specs = .ok p) :
    p.order = (topoOrder (graphOf (((rnd_necessaryFns targets pr).map fun f => (f.name, freeArgs params f)).filter
        fun x => (pruneNames ((rnd_necessaryFns targets pr).map fun f => (f.name, freeArgs params f))
          pr.dataCols targets).contains x.1))).filter
      (pruneNames ((rnd_necessaryFns targets pr).map fun f => (f.name, freeArgs params f))
        pr.dataCols targets).contains := by
  unfold planWith at h
  simp only at h
  split at h
  · cases h
  · cases h; rfl

/-- B.2 for the field `p.order` -/
theorem mi_plan_order {params : List (String × Val)} {targets : List String} {pr : Prep} {p : Plan}
    (hnd : (pr.fns.map (·.name)).Nodup) (h : plan params targets pr = .ok p) :
    p.order.Nodup ∧ (∀ n, n ∈ p.order ↔ (Dag.find? p.sys n).isSome = true) ∧
      ∀ n node, Dag.find? p.sys n = some node → ∀ d ∈ node.deps, (Dag.find? p.sys d).isSome = true →
        ∃ pre post, p.order = pre ++ n :: post ∧ d ∈ pre := by
  obtain ⟨hcyc, specs, _, hp⟩ := rnd_plan_ok h
  obtain ⟨rank, _, hrank⟩ := mi_necessary_rank hnd hcyc
  have hsys := mi_planWith_sys_eq hp
  have hord := mi_planWith_order_eq hp
  generalize hN : rnd_necessaryFns targets pr = N at hsys hord hrank
  have hNnd : (N.map (·.name)).Nodup := by rw [← hN]; exact mi_necessary_nodup targets pr hnd
  generalize hPN : pruneNames (N.map fun f => (f.name, freeArgs params f)) pr.dataCols targets = PN
    at hsys hord
  generalize hP : ((N.map fun f => (f.name, freeArgs params f)).filter fun x => PN.contains x.1) = P
    at hord
  -- the nodes of the system
  have hisSys : ∀ n, (Dag.find? p.sys n).isSome = true ↔ n ∈ P.map (·.1) := by
    intro n
    rw [Dag.find?_isSome_iff, hsys, ← hP]
    simp only [List.mem_map, List.mem_filter]
    constructor
    · rintro ⟨e, ⟨f, ⟨hf, hfp⟩, rfl⟩, rfl⟩
      exact ⟨(f.name, freeArgs params f), ⟨⟨f, hf, rfl⟩, hfp⟩, rfl⟩
    · rintro ⟨e, ⟨⟨f, hf, rfl⟩, hfp⟩, rfl⟩
      exact ⟨(f.name, nodeOf params specs f), ⟨f, ⟨hf, hfp⟩, rfl⟩, rfl⟩
  have hPmem : ∀ e ∈ P, ∃ f ∈ N, e = (f.name, freeArgs params f) ∧ PN.contains f.name = true := by
    intro e he
    rw [← hP, List.mem_filter, List.mem_map] at he
    obtain ⟨⟨f, hf, rfl⟩, hfp⟩ := he
    exact ⟨f, hf, rfl, hfp⟩
  have hPnd : (P.map (·.1)).Nodup := by
    rw [← hP]
    have : ((N.map fun f => (f.name, freeArgs params f)).map (·.1)).Nodup := by
      rw [List.map_map]; exact hNnd
    exact this.sublist ((List.filter_sublist).map _)
  have hgnd := mi_graphOf_keys_nodup P hPnd
  -- the second graph passes the cycle check as well
  have hcyc2 : hasCycle (graphOf P) = false := by
    apply acyclic_of_rank (graphOf P) rank hgnd
    intro n ds hnds d hd
    rcases mi_mem_graphOf_cases P _ hnds with hin | ⟨hnil, _⟩
    · refine ⟨?_, ?_⟩
      · rw [mi_graphOf_keys]
        by_cases hdn : d ∈ P.map (·.1)
        · exact Or.inl hdn
        · exact Or.inr ⟨List.mem_flatMap.2 ⟨(n, ds), hin, hd⟩, hdn⟩
      · obtain ⟨f, hf, he, _⟩ := hPmem _ hin
        cases he
        exact hrank f hf d (mi_freeArgs_sub params f d hd)
    · simp only at hnil
      subst hnil
      cases hd
  have hcomplete := mi_topoOrder_complete (graphOf P) hcyc2
  have hgood := mi_good_filter (graphOf P) PN.contains (mi_topoOrder_good (graphOf P))
  have hgnd' := mi_filter_keys_nodup (graphOf P) PN.contains hgnd
  have hrev : (topoOrder (graphOf P)).reverse.filter PN.contains = p.order.reverse := by
    rw [hord, List.filter_reverse]
  rw [hrev] at hgood
  -- a root of the second graph is not among the pruned names
  have hkeyPN : ∀ n, n ∈ (graphOf P).map (·.1) → PN.contains n = true → n ∈ P.map (·.1) := by
    intro n hn hpn
    rcases (mi_graphOf_keys P n).1 hn with h1 | ⟨_, h2⟩
    · exact h1
    · exfalso
      apply h2
      have hmem := List.contains_iff_mem.1 hpn
      rw [← hPN] at hmem
      unfold pruneNames at hmem
      simp only [List.mem_map] at hmem
      obtain ⟨e, he, rfl⟩ := hmem
      unfold Dag.prune at he
      rw [List.mem_filter, List.mem_map] at he
      obtain ⟨⟨⟨n', ds'⟩, hin, rfl⟩, _⟩ := he
      rw [← hP]
      exact List.mem_map.2 ⟨(n', ds'), List.mem_filter.2 ⟨hin, hpn⟩, rfl⟩
  have hmemOrder : ∀ n, n ∈ p.order ↔ (Dag.find? p.sys n).isSome = true := by
    intro n
    rw [hisSys, hord, List.mem_filter]
    constructor
    · rintro ⟨hto, hpn⟩
      exact hkeyPN n (mi_good_keys (mi_topoOrder_good (graphOf P)) n (List.mem_reverse.2 hto)) hpn
    · intro hn
      refine ⟨hcomplete n ((mi_graphOf_keys P n).2 (Or.inl hn)), ?_⟩
      obtain ⟨e, he, rfl⟩ := List.mem_map.1 hn
      obtain ⟨f, _, he', hfp⟩ := hPmem e he
      rw [he']; exact hfp
  refine ⟨List.nodup_reverse.1 (mi_good_nodup hgood), hmemOrder, ?_⟩
  intro n node hn d hd hs
  have hnS : (Dag.find? p.sys n).isSome = true := by rw [hn]; rfl
  have hnO : n ∈ p.order.reverse := List.mem_reverse.2 ((hmemOrder n).2 hnS)
  obtain ⟨l1, rest, hL, hrest⟩ := mi_good_split hgnd' hgood hnO
  -- the entry of `n` in the filtered graph
  obtain ⟨e, he, hen⟩ := List.mem_map.1 ((hisSys n).1 hnS)
  obtain ⟨f, hf, he', hfp⟩ := hPmem e he
  subst he'
  simp only at hen
  have hdeps : node.deps = freeArgs params f := by
    rw [hsys] at hn
    obtain ⟨f', hf', hname, hnode⟩ := mi_find?_map_some _ hn
    have hf'N : f' ∈ N := (List.mem_filter.1 hf').1
    have : f' = f := by
      have h1 := findFn?_of_mem_nodup hNnd hf'N
      have h2 := findFn?_of_mem_nodup hNnd hf
      rw [hname, ← hen, h2] at h1
      exact (Option.some.inj h1).symm
    rw [hnode, this]; rfl
  have hg' : (n, (freeArgs params f).filter PN.contains) ∈
      ((graphOf P).filter fun e => PN.contains e.1).map fun e => (e.1, e.2.filter PN.contains) := by
    refine List.mem_map.2 ⟨(f.name, freeArgs params f),
      List.mem_filter.2 ⟨mi_mem_graphOf P _ he, hfp⟩, ?_⟩
    simp only [hen]
  have hdPN : PN.contains d = true := by
    obtain ⟨e', he', hde⟩ := List.mem_map.1 ((hisSys d).1 hs)
    obtain ⟨f', _, hfe, hfp'⟩ := hPmem e' he'
    rw [← hde, hfe]; exact hfp'
  have hdrest := hrest _ hg' d (List.mem_filter.2 ⟨hdeps ▸ hd, hdPN⟩)
  refine ⟨rest.reverse, l1.reverse, ?_, List.mem_reverse.2 hdrest⟩
  have := congrArg List.reverse hL
  rw [List.reverse_reverse] at this
  rw [this]; simp

end GV.Simulate
