import GettsimVerif.Core.ParamsByDate
/-
Certificate for the refactoring of `Core/ParamsByDate.lean`: the definitions `loadRounding`,
`loadGroup` and `env` as they were before they were split into named helper functions
(verbatim copies, suffixed `Ref`), and proofs that the refactored definitions are equal to them.
-/
namespace GV.Params
open GV.Yaml GV.Dates

/-- `_load_rounding_parameters(date, rounding_spec)`; `copied` is the list
`rounding_parameters` of the source. -/
def loadRoundingRef (copied : List String) (date : Int) (spec : Y) : Except Err Y :=
  match spec with
  | .dict kvs => do
    let out ← kvs.foldlM (fun (out : List (Key × Y)) (fn, specFn) =>
      match latest (policyDates specFn) date with
      | none => pure out
      | some l => do
        let pol ← sub specFn (.d l)
        let kept := match pol with
          | .dict pkvs => pkvs.filter fun (k, _) => match k with
            | .s name => copied.contains name
            | _ => false
          | _ => []
        pure (kvSet out fn (.dict kept))) []
    pure (.dict out)
  | _ => .error .typeError

/-- `_load_parameter_group_from_yaml(date, group, parameters)`; `fuel` bounds the depth of
the recursive calls (`previous`, cross-file deviation, `vorjahr`, `jahresanfang`). -/
def loadGroupRef (copied : List String) (raw : Raw) :
    Nat → Int → String → Option (List String) → Except Err (List (Key × Y))
  | 0, _, _, _ => .error .other
  | fuel + 1, date, group, parameters => do
    let g ← match raw.group? group with | some g => pure g | none => throw Err.other
    let params : List Key := match parameters with
      | some ps => ps.map Key.s
      | none => g.keys.filter (· ≠ .s "rounding")
    let out ← params.foldlM (fun (out : List (Key × Y)) pk => do
      let param ← match pk with | .s n => pure n | _ => throw Err.typeError
      let p ← sub g pk
      let dates := policyDates p
      match latest dates date with
      | none =>
        match minOf dates with
        | none => throw Err.valueError
        | some e => do
          let future ← sub p (.d e)
          match future.get? (.s "deviation_from") with
          | some (.str dev) =>
            match splitDev dev with
            | some (g2, p2) => do
              let tmp ← loadGroupRef copied raw fuel date g2 (some [p2])
              match kvGet? tmp (.s p2) with
              | some v => pure (kvSet out pk v)
              | none => pure out
            | none => pure out
          | some _ => throw Err.typeError
          | none => pure out
      | some l => do
        let pol ← sub p (.d l)
        let out ←
          match pol.get? (.s "scalar") with
          | some sc =>
            pure (kvSet out pk (match sc with
              | .str "inf" => Y.pinf
              | other => other))
          | none => do
            let base0 : Y := .dict ([Key.s "type", Key.s "progressionsfaktor"].filterMap fun k =>
              (p.get? k).map fun v => (k, v))
            let valueKeys := pol.keys.filter fun k => !notTransKeys.contains k
            match pol.get? (.s "deviation_from") with
            | some devY => do
              let base1 ← match devY with
                | .str dev =>
                  if dev = "previous" then do
                    let prev ← loadGroupRef copied raw fuel (l - 1) group (some [param])
                    match kvGet? prev pk with | some v => pure v | none => throw Err.keyError
                  else match splitDev dev with
                    | some (g2, p2) => do
                      let other ← loadGroupRef copied raw fuel date g2 (some [p2])
                      match kvGet? other (.s p2) with | some v => pure v | none => throw Err.keyError
                    | none => pure base0
                | _ => throw Err.typeError
              let merged ← valueKeys.foldlM (fun (cur : Y) k => do
                let old ← sub cur k
                let v ← sub pol k
                let new ← transfer v old []
                setItem cur k new) base1
              pure (kvSet out pk merged)
            | none => do
              let filled ← valueKeys.foldlM (fun (cur : Y) k => do
                let v ← sub pol k
                setItem cur k v) base0
              pure (kvSet out pk filled)
        match p.get? (.s "access_different_date") with
        | none => pure out
        | some (.str "vorjahr") => do
          let tmp ← loadGroupRef copied raw fuel (subYear date) group (some [param])
          match kvGet? tmp pk with
          | some v => pure (kvSet out (.s (param ++ "_vorjahr")) v)
          | none => pure out
        | some (.str "jahresanfang") =>
          if jan1 date = date then
            match kvGet? out pk with
            | some v => pure (kvSet out (.s (param ++ "_jahresanfang")) v)
            | none => throw Err.keyError
          else do
            let tmp ← loadGroupRef copied raw fuel (jan1 date) group (some [param])
            match kvGet? tmp pk with
            | some v => pure (kvSet out (.s (param ++ "_jahresanfang")) v)
            | none => pure out
        | some _ => throw Err.valueError) []
    let out := kvSet out (.s "datum") (.date date)
    match g.get? (.s "rounding") with
    | some r => do
      let rr ← loadRoundingRef copied date r
      pure (kvSet out (.s "rounding") rr)
    | none => pure out

/-- `set_up_policy_environment(date)`: parameters part. `groups` = `INTERNAL_PARAMS_GROUPS`. -/
def envRef (copied : List String) (groups : List String) (raw : Raw) (fuel : Nat) (date : Int) :
    Except Err Y := do
  let loaded ← groups.mapM fun g => do
    let kvs ← loadGroupRef copied raw fuel date g none
    pure (Key.s g, Y.dict (← parseGroup kvs))
  let params : Y := .dict loaded
  let yr := year date
  -- `_parse_kinderzuschl_max`
  let params ← if yr < 2023 ∧ 2021 ≤ yr then do
      let kz ← sub params (.s "kinderzuschl")
      let ex ← sub kz (.s "existenzminimum")
      let a ← numOf (← getPath ex [.s "regelsatz", .s "kinder"])
      let b ← numOf (← getPath ex [.s "kosten_der_unterkunft", .s "kinder"])
      let c ← numOf (← getPath ex [.s "heizkosten", .s "kinder"])
      let kg ← numOf (← getPath params [.s "kindergeld", .s "kindergeld", .i 1])
      let kz' ← setItem kz (.s "maximum") (.num ((a + b + c) / 12 - kg))
      setItem params (.s "kinderzuschl") kz'
    else pure params
  -- `_parse_einführungsfaktor_vorsorgeaufw_alter_ab_2005`, `_parse_vorsorgepauschale_rentenv_anteil`
  if 2005 ≤ yr then do
    let ab ← sub params (.s "eink_st_abzuege")
    let s1 ← scheduleOf (← sub ab (.s "einführungsfaktor"))
    let ab ← setItem ab (.s "einführungsfaktor_vorsorgeaufw_alter_ab_2005")
      (.num (Piecewise.eval s1 (yr : Rat)))
    let s2 ← scheduleOf (← sub ab (.s "vorsorgepauschale_rentenv_anteil"))
    let ab ← setItem ab (.s "vorsorgepauschale_rentenv_anteil") (.num (Piecewise.eval s2 (yr : Rat)))
    setItem params (.s "eink_st_abzuege") ab
  else pure params


theorem loadRounding_eq_ref : @loadRounding = @loadRoundingRef := by
  funext copied date spec
  cases spec <;> rfl

theorem ok_bind' {α β : Type} (a : α) (f : α → Except Err β) : (Except.ok a >>= f) = f a := rfl
theorem error_bind' {α β : Type} (e : Err) (f : α → Except Err β) :
    (Except.error e >>= f) = .error e := rfl

theorem loadGroup_eq_ref (copied : List String) (raw : Raw) :
    ∀ fuel, loadGroup copied raw fuel = loadGroupRef copied raw fuel := by
  intro fuel
  induction fuel with
  | zero => rfl
  | succ n ih =>
    funext date group parameters
    simp only [loadGroup, loadGroupRef, ← ih]
    cases raw.group? group with
    | none => rfl
    | some g =>
      simp only [pure_bind]
      congr 1
      · congr 1
        funext out pk
        unfold paramStep
        cases pk with
        | s param =>
          simp only [pure_bind]
          cases sub g (.s param) with
          | error e => rfl
          | ok p =>
            simp only [ok_bind']
            unfold paramBody
            cases latest (policyDates p) date with
            | none =>
              simp only [futureStep, bind_assoc, pure_bind]
              rfl
            | some l =>
              simp only
              cases sub p (.d l) with
              | error e => rfl
              | ok pol =>
                simp only [ok_bind', entryValue]
                cases pol.get? (.s "scalar") with
                | some sc =>
                  simp only [pure_bind, accessStep, bind_assoc]
                  rfl
                | none =>
                  simp only
                  cases pol.get? (.s "deviation_from") with
                  | none =>
                    simp only [bind_assoc, pure_bind, accessStep]
                    rfl
                  | some devY =>
                    simp only [bind_assoc, pure_bind, devBase, accessStep]
                    cases devY with
                    | str dev =>
                      simp only
                      by_cases hd : dev = "previous"
                      · simp only [hd, if_true, bind_assoc]
                        congr 1
                        funext prev
                        cases kvGet? prev (.s param) <;> rfl
                      · simp only [hd, if_false]
                        cases splitDev dev with
                        | none => simp only [pure_bind]; rfl
                        | some gp =>
                          simp only [bind_assoc]
                          congr 1
                          funext other
                          cases kvGet? other (.s gp.2) <;> rfl
                    | _ => rfl
        | _ => rfl

theorem loadGroup_eq_ref' : @loadGroup = @loadGroupRef := by
  funext copied raw fuel
  exact loadGroup_eq_ref copied raw fuel

theorem env_eq_ref : @env = @envRef := by
  funext copied groups raw fuel date
  unfold env envRef envLoad envDerive deriveKinderzuschl deriveEinkSt
  rw [loadGroup_eq_ref]
  congr 1
  funext loaded
  by_cases h : year date < 2023 ∧ 2021 ≤ year date
  · simp only [h, if_true, and_self, bind_assoc]
  · simp only [h, if_false, pure_bind]


end GV.Params
