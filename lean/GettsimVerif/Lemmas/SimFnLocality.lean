import GettsimVerif.Lemmas.SimLocality
import GettsimVerif.Lemmas.SimOverride
import GettsimVerif.Lemmas.SimPlanSub
import GettsimVerif.Lemmas.SimPerm
/-
Helper lemmas for `Props/C06Fn.lean`: FUNCTION-reform locality (property C06) for the CONCRETE
end-to-end model `GV.Simulate.simulate`: replacing one rule by another rule of the same name changes
only columns whose dependency cone contains that rule.

Contents:
(A) the value of a target only depends on the functions and data columns inside its cone
    (`fl_plan_value_agree`, `fl_run_value_agree`) — two arbitrary prepared function sets;
(B) `prepare` never looks at rule bodies / rounding keys (`fl_prepare_blank`, `fl_prepare_rel`),
    hence the same-interface theorem (`fl_run_locality_same_interface`);
(C) a replaced rule that is pruned away is completely irrelevant, errors included (`fl_run_pruned`);
(D) a computable sufficient condition for replacements that change the interface
    (`fl_coneCheck`, `fl_run_locality_checked`);
(E) a syntactic class of replacements that change the parameter names: the name of the rule is not a
    time-unit name and no old or new parameter name carries a group suffix (`fl_strip`,
    `fl_buildFunctions_strip`, `fl_run_locality_plain_args`).
-/
namespace GV.Simulate
open GV.Lang (Val)

/-! ### (A) values only depend on the cone -/

theorem fl_find?_fullSys (params : List (String × Val)) (fns : List Fn) (x : String) :
    Dag.find? (fullSys params fns) x = (findFn? fns x).map (nodeLazy params) := by
  have := find?_map_fns (nodeLazy params) fns x
  unfold find? at this
  exact this

theorem fl_find?_nameSys (fns : List Fn) (x : String) :
    Dag.find? (nameSys fns) x =
      (findFn? fns x).map fun f => ({ deps := f.args, op := fun _ => .ok () } : Dag.Node Unit) := by
  have := find?_map_fns (fun f => ({ deps := f.args, op := fun _ => .ok () } : Dag.Node Unit)) fns x
  unfold find? at this
  exact this

/-- the dependency cone of `t` in the unpruned concrete system lies inside `coneNames` -/
theorem fl_reach_fullSys_subset_cone (params : List (String × Val)) (pr : Prep)
    (hdc : pr.dataCols = pr.data.map (·.1)) (k : Nat) (hk : k ≤ pr.fns.length + 1) (t : String) :
    ∀ x ∈ Dag.reach (fullSys params pr.fns) pr.data k t, x ∈ coneNames pr t := by
  intro x hx
  unfold coneNames
  apply Dag.reach_fuel_le _ _ hk
  refine Dag.reach_subset_of_sub _ _ _ _ ?_ ?_ k t x hx
  · intro y hy
    rw [Dag.find?_eq_none_iff] at hy ⊢
    rw [List.map_map]
    simpa [hdc] using hy
  · intro y node _ hy
    rw [fl_find?_fullSys] at hy
    cases hf : findFn? pr.fns y with
    | none => rw [hf] at hy; cases hy
    | some f =>
      rw [hf] at hy
      cases hy
      refine ⟨{ deps := f.args, op := fun _ => .ok () }, ?_, freeArgs_subset params f⟩
      rw [fl_find?_nameSys, hf]
      rfl

/-- **core**: two prepared function sets (over possibly different converted data) that agree on
every name in the cone of `t` give `t` the same value -/
theorem fl_plan_value_agree {params : List (String × Val)} {T T' : List String} {pr pr' : Prep}
    {p p' : Plan} (t : String) (hdc : pr.dataCols = pr.data.map (·.1))
    (hnd : (pr.fns.map (·.name)).Nodup) (hnd' : (pr'.fns.map (·.name)).Nodup)
    (h : plan params T pr = .ok p) (h' : plan params T' pr' = .ok p')
    (hagree : ∀ x ∈ coneNames pr t,
      findFn? pr.fns x = findFn? pr'.fns x ∧ find? pr.data x = find? pr'.data x)
    {v v' : Col}
    (hv : Dag.eval p.sys p.data (p.sys.length + 1) t = .ok v)
    (hv' : Dag.eval p'.sys p'.data (p'.sys.length + 1) t = .ok v') : v = v' := by
  have hlen := plan_sys_length_le h
  obtain ⟨_, _, _, _, hdata, _⟩ := loc_plan_ok h
  obtain ⟨_, _, _, _, hdata', _⟩ := loc_plan_ok h'
  rw [hdata] at hv
  rw [hdata'] at hv'
  have hk : p.sys.length + 1 ≤ pr.fns.length + 1 := by omega
  generalize p.sys.length + 1 = k at hv hk
  generalize p'.sys.length + 1 = k' at hv'
  have h1 := Dag.eval_ok_sub _ _ pr.data (plan_sub_full hnd h) k t v hv
  have h1' := Dag.eval_ok_sub _ _ pr'.data (plan_sub_full hnd' h') k' t v' hv'
  have h2 : Dag.eval (fullSys params pr.fns) pr.data k t =
      Dag.eval (fullSys params pr'.fns) pr'.data k t := by
    apply Dag.eval_congr_reach
    intro x hx
    obtain ⟨hf, hd⟩ := hagree x (fl_reach_fullSys_subset_cone params pr hdc k hk t x hx)
    exact ⟨by rw [fl_find?_fullSys, fl_find?_fullSys, hf], hd⟩
  rw [h2] at h1
  exact Dag.eval_fuel_det _ _ h1 h1'

theorem fl_prepare_dataCols {rf : List Fn} {gs : List (String × GroupSpec)}
    {ps : List (String × PidSpec)} {data : List (String × Column)} {T : List String} {pr : Prep}
    (h : prepare rf gs ps data T = .ok pr) : pr.dataCols = pr.data.map (·.1) := by
  obtain ⟨raw, all, _, _, hconv, _, hdc⟩ := prepare_ok h
  rw [hdc, convertData_names hconv]

/-- the same at the level of `run`: arbitrary rules, specs, data and targets on both sides -/
theorem fl_run_value_agree {rf rf' : List Fn} {params : List (String × Val)}
    {gs gs' : List (String × GroupSpec)} {ps ps' : List (String × PidSpec)}
    {data data' : List (String × Column)} {T T' : List String} {pr pr' : Prep} {tbl tbl' : Table}
    (t : String)
    (hpr : prepare rf gs ps data (sortDedup T) = .ok pr)
    (hpr' : prepare rf' gs' ps' data' (sortDedup T') = .ok pr')
    (h : run rf params gs ps data T = .ok tbl) (h' : run rf' params gs' ps' data' T' = .ok tbl')
    (ht : t ∈ T) (ht' : t ∈ T')
    (hagree : ∀ x ∈ coneNames pr t,
      findFn? pr.fns x = findFn? pr'.fns x ∧ find? pr.data x = find? pr'.data x)
    (hrows : pr.data.head?.map (·.2.vals.length) = pr'.data.head?.map (·.2.vals.length)) :
    find? tbl t = find? tbl' t := by
  unfold run at h h'
  simp only at h h'
  obtain ⟨pr0, hpr0, h1⟩ := bind_ok h
  obtain ⟨pr0', hpr0', h1'⟩ := bind_ok h'
  rw [hpr] at hpr0
  rw [hpr'] at hpr0'
  cases hpr0; cases hpr0'
  obtain ⟨p, hplan, h2⟩ := bind_ok h1
  obtain ⟨p', hplan', h2'⟩ := bind_ok h1'
  obtain ⟨v, hv, hf⟩ := loc_exec_value h2 ((mem_sortDedup t _).2 ht)
  obtain ⟨v', hv', hf'⟩ := loc_exec_value h2' ((mem_sortDedup t _).2 ht')
  have hvv : v = v' := fl_plan_value_agree t (fl_prepare_dataCols hpr) (prepare_fns_nodup hpr)
    (prepare_fns_nodup hpr') hplan hplan' hagree hv hv'
  obtain ⟨_, _, _, _, _, hn⟩ := loc_plan_ok hplan
  obtain ⟨_, _, _, _, _, hn'⟩ := loc_plan_ok hplan'
  rw [hf, hf', hvv, hn, hn', hrows]

/-! ### (B) `prepare` does not look at the bodies (nor the rounding keys) of the rules -/

/-- forget the kinds of the rules called `n` in a prepared function set -/
def fl_blankPrep (n : String) (pr : Prep) : Prep := { pr with fns := pr.fns.map (ov_blank n) }

theorem fl_hasFn_blank_all (n : String) (L : List Fn) (T : List String) :
    T.all (hasFn (L.map (ov_blank n))) = T.all (hasFn L) := by
  congr 1
  funext x
  exact ov_hasFn_blank n L x

theorem fl_filter_blank (n : String) (L : List Fn) (p : String → Bool) :
    (L.map (ov_blank n)).filter (fun f => p f.name) = (L.filter fun f => p f.name).map (ov_blank n) := by
  rw [List.filter_map]
  congr 2
  funext f
  simp only [Function.comp, ov_blank_name]

/-- blanking the kinds of the rules called `n` commutes with `prepare` (values AND errors) -/
theorem fl_prepare_blank (n : String) (rf : List Fn) (gs : List (String × GroupSpec))
    (ps : List (String × PidSpec)) (data : List (String × Column)) (T : List String) :
    prepare (rf.map (ov_blank n)) gs ps data T = (prepare rf gs ps data T).map (fl_blankPrep n) := by
  unfold prepare
  cases hraw : typedData data with
  | error e => rfl
  | ok raw =>
    simp only [bind, Except.bind]
    cases checkData raw with
    | error e => rfl
    | ok _ =>
      simp only
      rw [ov_buildFunctions_blank]
      cases buildFunctions rf gs ps T (raw.map (·.1)) with
      | error e => rfl
      | ok all =>
        simp only
        have h2 := fl_filter_blank n all (fun x => !(raw.map (·.1)).contains x)
        have h3 : convertData raw ((all.map (ov_blank n)).filter fun f => (raw.map (·.1)).contains f.name) =
            convertData raw (all.filter fun f => (raw.map (·.1)).contains f.name) := by
          apply convertData_congr
          intro m _
          rw [findFn?_filter_name (fun x => (raw.map (·.1)).contains x),
            findFn?_filter_name (fun x => (raw.map (·.1)).contains x), ov_findFn?_blank]
          split
          · cases findFn? all m <;> simp [ov_blank_ann]
          · rfl
        rw [fl_hasFn_blank_all, h2, h3, fl_hasFn_blank_all]
        cases T.all (hasFn all) with
        | false => rfl
        | true =>
          simp only [Bool.not_true, Bool.false_eq_true, if_false]
          cases convertData raw (all.filter fun f => (raw.map (·.1)).contains f.name) with
          | error e => rfl
          | ok conv =>
            simp only
            cases T.all (hasFn (all.filter fun f => !(raw.map (·.1)).contains f.name)) <;> rfl

/-- two lists of vectorized rules that agree up to the kinds of the rules called `n` are prepared in
the same way: same error, or function sets that agree up to those kinds and the same data -/
theorem fl_prepare_rel (n : String) {rf rf' : List Fn} (hrf : rf.map (ov_blank n) = rf'.map (ov_blank n))
    (gs : List (String × GroupSpec)) (ps : List (String × PidSpec)) (data : List (String × Column))
    (T : List String) :
    (prepare rf gs ps data T).map (fl_blankPrep n) = (prepare rf' gs ps data T).map (fl_blankPrep n) := by
  rw [← fl_prepare_blank, ← fl_prepare_blank, hrf]

theorem fl_prepare_rel_ok (n : String) {rf rf' : List Fn}
    (hrf : rf.map (ov_blank n) = rf'.map (ov_blank n))
    {gs : List (String × GroupSpec)} {ps : List (String × PidSpec)} {data : List (String × Column)}
    {T : List String} {pr : Prep} (hpr : prepare rf gs ps data T = .ok pr) :
    ∃ pr', prepare rf' gs ps data T = .ok pr' ∧ pr'.dataCols = pr.dataCols ∧ pr'.data = pr.data ∧
      pr'.fns.map (ov_blank n) = pr.fns.map (ov_blank n) := by
  have h := fl_prepare_rel n hrf gs ps data T
  rw [hpr] at h
  cases hpr' : prepare rf' gs ps data T with
  | error e => rw [hpr'] at h; cases h
  | ok pr' =>
    rw [hpr'] at h
    simp only [Except.map, Except.ok.injEq, fl_blankPrep] at h
    obtain ⟨dc, d, fns⟩ := pr
    obtain ⟨dc', d', fns'⟩ := pr'
    simp only [Prep.mk.injEq] at h
    exact ⟨_, rfl, h.1.symm, h.2.1.symm, h.2.2.symm⟩

theorem fl_prepare_rel_error (n : String) {rf rf' : List Fn}
    (hrf : rf.map (ov_blank n) = rf'.map (ov_blank n))
    {gs : List (String × GroupSpec)} {ps : List (String × PidSpec)} {data : List (String × Column)}
    {T : List String} {e : Err} (hpr : prepare rf gs ps data T = .error e) :
    prepare rf' gs ps data T = .error e := by
  have h := fl_prepare_rel n hrf gs ps data T
  rw [hpr] at h
  cases hpr' : prepare rf' gs ps data T with
  | error e' => rw [hpr'] at h; simp only [Except.map, Except.error.injEq] at h; rw [h]
  | ok pr' => rw [hpr'] at h; cases h

/-- function sets that agree up to the kinds of the rules called `n` agree on every other name -/
theorem fl_findFn?_of_blank_eq {n : String} {L L' : List Fn}
    (h : L.map (ov_blank n) = L'.map (ov_blank n)) {x : String} (hx : x ≠ n) :
    findFn? L x = findFn? L' x := by
  have h1 := ov_findFn?_blank n L x
  rw [h, ov_findFn?_blank] at h1
  cases hf : findFn? L x with
  | none =>
    rw [hf] at h1
    cases hf' : findFn? L' x with
    | none => rfl
    | some g' => rw [hf'] at h1; cases h1
  | some g =>
    rw [hf] at h1
    cases hf' : findFn? L' x with
    | none => rw [hf'] at h1; cases h1
    | some g' =>
      rw [hf'] at h1
      simp only [Option.map_some, Option.some.injEq] at h1
      have hg : g.name ≠ n := by rw [(findFn?_some hf).2]; exact hx
      have hg' : g'.name ≠ n := by rw [(findFn?_some hf').2]; exact hx
      rw [ov_blank_of_ne hg, ov_blank_of_ne hg'] at h1
      rw [h1]

theorem fl_nameSys_blank (n : String) (L : List Fn) : nameSys (L.map (ov_blank n)) = nameSys L := by
  unfold nameSys
  rw [List.map_map]
  apply List.map_congr_left
  intro f _
  simp only [Function.comp, ov_blank_name, ov_blank_args]

/-- the cones only depend on names and parameter names -/
theorem fl_coneNames_of_blank_eq {n : String} {pr pr' : Prep} (hdc : pr'.dataCols = pr.dataCols)
    (h : pr'.fns.map (ov_blank n) = pr.fns.map (ov_blank n)) (t : String) :
    coneNames pr' t = coneNames pr t := by
  unfold coneNames
  rw [← fl_nameSys_blank n pr'.fns, ← fl_nameSys_blank n pr.fns, h, hdc]
  have : pr'.fns.length = pr.fns.length := by
    have := congrArg List.length h
    simpa using this
  rw [this]

/-- **same-interface locality** at the level of `run` -/
theorem fl_run_locality_same_interface (n t : String) {rf rf' : List Fn}
    (hrf : rf.map (ov_blank n) = rf'.map (ov_blank n))
    {params : List (String × Val)} {gs : List (String × GroupSpec)} {ps : List (String × PidSpec)}
    {data : List (String × Column)} {T : List String} {pr : Prep} {tbl tbl' : Table}
    (hpr : prepare rf gs ps data (sortDedup T) = .ok pr)
    (h : run rf params gs ps data T = .ok tbl) (h' : run rf' params gs ps data T = .ok tbl')
    (ht : t ∈ T) (hcone : n ∉ coneNames pr t) : find? tbl t = find? tbl' t := by
  obtain ⟨pr', hpr', _, hdata, hfns⟩ := fl_prepare_rel_ok n hrf hpr
  refine fl_run_value_agree t hpr hpr' h h' ht ht ?_ (by rw [hdata])
  intro x hx
  refine ⟨fl_findFn?_of_blank_eq hfns.symm ?_, by rw [hdata]⟩
  rintro rfl
  exact hcone hx

/-! ### (C) a replaced rule that is pruned away is irrelevant, errors included -/

theorem fl_planG_blank (n : String) (L : List Fn) : planG (L.map (ov_blank n)) = planG L := by
  unfold planG
  rw [List.map_map]
  apply List.map_congr_left
  intro f _
  simp only [Function.comp, ov_blank_name, ov_blank_args]

theorem fl_planG_of_blank_eq {n : String} {L L' : List Fn}
    (h : L'.map (ov_blank n) = L.map (ov_blank n)) : planG L' = planG L := by
  rw [← fl_planG_blank n L', h, fl_planG_blank]

theorem fl_map_blank_id {n : String} {L : List Fn} (h : ∀ f ∈ L, f.name ≠ n) :
    L.map (ov_blank n) = L := by
  rw [List.map_congr_left (g := id)]
  · simp
  · intro f hf
    exact ov_blank_of_ne (h f hf)

theorem fl_coneNames_eq_reach (pr : Prep) (t : String) :
    coneNames pr t =
      Dag.reach (U (planG pr.fns)) (DU pr.dataCols) ((planG pr.fns).length + 1) t := by
  unfold coneNames nameSys U planG DU
  simp only [List.map_map, List.length_map]
  rfl

theorem fl_planF_of_blank_eq {n : String} {L L' : List Fn} (dc S : List String)
    (h : L'.map (ov_blank n) = L.map (ov_blank n)) (hn : n ∉ planNN L dc S) :
    planF L' dc S = planF L dc S := by
  have hG := fl_planG_of_blank_eq h
  have hNN : planNN L' dc S = planNN L dc S := by unfold planNN; rw [hG]
  unfold planF
  rw [hNN]
  have e1 := fl_filter_blank n L (fun x => (planNN L dc S).contains x)
  have e2 := fl_filter_blank n L' (fun x => (planNN L dc S).contains x)
  rw [h, e1] at e2
  have hne : ∀ (M : List Fn), ∀ f ∈ M.filter (fun f => (planNN L dc S).contains f.name), f.name ≠ n := by
    intro M f hf hfn
    have := (List.mem_filter.1 hf).2
    rw [hfn] at this
    exact hn (by simpa using this)
  rw [fl_map_blank_id (hne L), fl_map_blank_id (hne L')] at e2
  exact e2.symm

theorem fl_plan_of_blank_eq {n : String} {params : List (String × Val)} {S : List String} {pr pr' : Prep}
    (hdc : pr'.dataCols = pr.dataCols) (hdata : pr'.data = pr.data)
    (h : pr'.fns.map (ov_blank n) = pr.fns.map (ov_blank n))
    (hn : n ∉ planNN pr.fns pr.dataCols S) : plan params S pr' = plan params S pr := by
  have hG := fl_planG_of_blank_eq h
  have hF := fl_planF_of_blank_eq pr.dataCols S h hn
  have hNN : planNN pr'.fns pr.dataCols S = planNN pr.fns pr.dataCols S := by unfold planNN; rw [hG]
  have hP : planP params pr'.fns pr.dataCols S = planP params pr.fns pr.dataCols S := by
    unfold planP; rw [hF]
  have hPN : planPN params pr'.fns pr.dataCols S = planPN params pr.fns pr.dataCols S := by
    unfold planPN; rw [hP]
  have hP2 : planP2 params pr'.fns pr.dataCols S = planP2 params pr.fns pr.dataCols S := by
    unfold planP2; rw [hP, hPN]
  have hPO : planParamsOnly pr'.fns pr.dataCols S = planParamsOnly pr.fns pr.dataCols S := by
    unfold planParamsOnly; rw [hF]
  have hM : planMissing params pr'.fns pr.dataCols S = planMissing params pr.fns pr.dataCols S := by
    unfold planMissing; rw [hP2, hPO]
  have hR : ∀ specs, planResult params pr' S specs = planResult params pr S specs := by
    intro specs
    unfold planResult
    rw [hdc, hdata, hF, hPN, hP2]
  rw [plan_eq_components, plan_eq_components, hdc, hG, hNN, hF, hM]
  simp only [hR]

/-- if the rules called `n` are not in the cone of any target, they do not influence the call at all:
the two results are identical, table or error -/
theorem fl_run_pruned (n : String) {rf rf' : List Fn}
    (hrf : rf.map (ov_blank n) = rf'.map (ov_blank n))
    {params : List (String × Val)} {gs : List (String × GroupSpec)} {ps : List (String × PidSpec)}
    {data : List (String × Column)} {T : List String}
    (hcone : ∀ pr, prepare rf gs ps data (sortDedup T) = .ok pr → ∀ t ∈ T, n ∉ coneNames pr t) :
    run rf' params gs ps data T = run rf params gs ps data T := by
  unfold run
  simp only
  cases hpr : prepare rf gs ps data (sortDedup T) with
  | error e => rw [fl_prepare_rel_error n hrf hpr]
  | ok pr =>
    obtain ⟨pr', hpr', hdc, hdata, hfns⟩ := fl_prepare_rel_ok n hrf hpr
    rw [hpr']
    simp only [bind, Except.bind]
    rw [fl_plan_of_blank_eq hdc hdata hfns ?_]
    intro hmem
    obtain ⟨_, t, ht, hr⟩ := (mem_pruneNames _ _ _ n).1 hmem
    exact hcone pr hpr t ((mem_sortDedup t T).1 ht) (by rw [fl_coneNames_eq_reach]; exact hr)

/-! ### (D) replacements that change the interface: a computable sufficient condition -/

/-- same name; identical unless called `n` -/
def fl_fnRel (n : String) (g g' : Fn) : Prop := g.name = g'.name ∧ (g.name ≠ n → g = g')

theorem fl_fnRel_rules (n : String) (b : Bool) {rs rs' : List Rule}
    (h : List.Forall₂ (fun r r' => r.name = r'.name ∧ (r.name ≠ n → r = r')) rs rs') :
    List.Forall₂ (fl_fnRel n) (rs.map (ruleFn b)) (rs'.map (ruleFn b)) := by
  induction h with
  | nil => exact .nil
  | cons hab _ ih =>
    refine .cons ⟨hab.1, fun hne => ?_⟩ ih
    rw [hab.2 hne]

theorem fl_fnRel_dictUpdate (n : String) {d d' : List Fn} {f f' : Fn}
    (hd : List.Forall₂ (fl_fnRel n) d d') (hf : fl_fnRel n f f') :
    List.Forall₂ (fl_fnRel n) (dictUpdate d f) (dictUpdate d' f') := by
  induction hd with
  | nil => exact .cons hf .nil
  | cons hab htl ih =>
    rename_i a a' l l'
    unfold dictUpdate
    rw [← hab.1, ← hf.1]
    split
    · exact .cons hf htl
    · exact .cons hab ih

theorem fl_fnRel_merge (n : String) {a a' b b' : List Fn}
    (ha : List.Forall₂ (fl_fnRel n) a a') (hb : List.Forall₂ (fl_fnRel n) b b') :
    List.Forall₂ (fl_fnRel n) (merge a b) (merge a' b') := by
  unfold merge
  induction hb generalizing a a' with
  | nil => exact ha
  | cons hab _ ih => exact ih (fl_fnRel_dictUpdate n ha hab)

theorem fl_fnRel_findFn? {n : String} {L L' : List Fn} (h : List.Forall₂ (fl_fnRel n) L L')
    {x : String} (hx : x ≠ n) : findFn? L x = findFn? L' x := by
  induction h with
  | nil => rfl
  | cons hab _ ih =>
    rw [findFn?_cons, findFn?_cons, ← hab.1]
    split
    · rename_i hax
      rw [hab.2 (by rw [hax]; exact hx)]
    · exact ih

/-- two prepared function sets, built from rules that differ only in the rules called `n`: if the
entries for a name `x ≠ n` have the same signature, they are equal -/
theorem fl_findFn?_of_sig {n : String} {rf rf' : List Fn} (hrel : List.Forall₂ (fl_fnRel n) rf rf')
    {gs gs' : List (String × GroupSpec)} {ps ps' : List (String × PidSpec)}
    {data data' : List (String × Column)} {T T' : List String} {pr pr' : Prep}
    (hpr : prepare rf gs ps data T = .ok pr) (hpr' : prepare rf' gs' ps' data' T' = .ok pr')
    {x : String} (hx : x ≠ n)
    (hs : (findFn? pr.fns x).map ov_sig = (findFn? pr'.fns x).map ov_sig) :
    findFn? pr.fns x = findFn? pr'.fns x := by
  cases hf : findFn? pr.fns x with
  | none =>
    rw [hf] at hs
    cases hf' : findFn? pr'.fns x with
    | none => rfl
    | some g' => rw [hf'] at hs; cases hs
  | some g =>
    rw [hf] at hs
    cases hf' : findFn? pr'.fns x with
    | none => rw [hf'] at hs; cases hs
    | some g' =>
      rw [hf'] at hs
      simp only [Option.map_some, Option.some.injEq] at hs
      congr 1
      by_cases hnr : g.notRule
      · exact ov_sig_notRule hs hnr
      · have hnr' := ov_sig_rule hs hnr
        obtain ⟨raw, all, _, hall, _, hfns, _⟩ := prepare_ok hpr
        obtain ⟨raw', all', _, hall', _, hfns', _⟩ := prepare_ok hpr'
        have hg : g ∈ all := by
          have := (findFn?_some hf).1
          rw [hfns] at this
          exact (List.mem_filter.1 this).1
        have hg' : g' ∈ all' := by
          have := (findFn?_some hf').1
          rw [hfns'] at this
          exact (List.mem_filter.1 this).1
        have h1 := (ov_buildFunctions_mem hall g hg).resolve_left hnr
        have h2 := (ov_buildFunctions_mem hall' g' hg').resolve_left hnr'
        have e1 := findFn?_of_mem_nodup (nodup_merge_nil rf) h1
        have e2 := findFn?_of_mem_nodup (nodup_merge_nil rf') h2
        rw [(findFn?_some hf).2] at e1
        rw [(findFn?_some hf').2] at e2
        rw [fl_fnRel_findFn? (fl_fnRel_merge n .nil hrel) hx, e2] at e1
        exact (Option.some.inj e1).symm

/-! #### the number of rows does not depend on the functions -/

theorem fl_convertCol_length {t : Ty} {c c' : Col} (h : convertCol t c = .ok c') :
    c'.vals.length = c.vals.length := by
  unfold convertCol at h
  split at h
  · cases h; rfl
  · split at h
    all_goals first
      | (cases h; simp [Col.castTo])
      | cases h
      | (split at h
         · cases h; simp [Col.castTo]
         · cases h)

theorem fl_convertData_lengths {raw conv : List (String × Col)} {ov : List Fn}
    (h : convertData raw ov = .ok conv) :
    conv.map (fun e => e.2.vals.length) = raw.map (fun e => e.2.vals.length) := by
  unfold convertData at h
  rw [Dag.mapM_ok_iff] at h
  induction h with
  | nil => rfl
  | @cons a b l l' hab _ ih =>
    obtain ⟨m, c⟩ := a
    simp only [List.map_cons, ih, List.cons.injEq, and_true]
    simp only at hab
    split at hab
    · cases hab; rfl
    · obtain ⟨c', hc', hab⟩ := bind_ok hab
      simp only [pure, Except.pure, Except.ok.injEq] at hab
      subst hab
      exact fl_convertCol_length hc'

theorem fl_prepare_rows {rf rf' : List Fn} {gs gs' : List (String × GroupSpec)}
    {ps ps' : List (String × PidSpec)} {data : List (String × Column)} {T T' : List String}
    {pr pr' : Prep}
    (hpr : prepare rf gs ps data T = .ok pr) (hpr' : prepare rf' gs' ps' data T' = .ok pr') :
    pr.data.head?.map (·.2.vals.length) = pr'.data.head?.map (·.2.vals.length) := by
  obtain ⟨raw, all, hraw, _, hconv, _, _⟩ := prepare_ok hpr
  obtain ⟨raw', all', hraw', _, hconv', _, _⟩ := prepare_ok hpr'
  rw [hraw] at hraw'
  cases hraw'
  rw [← List.head?_map, ← List.head?_map, fl_convertData_lengths hconv, fl_convertData_lengths hconv']

/-- the computable condition: `n` is not in the cone of `t` (in the FIRST function set), and on every
name of that cone the two function sets have entries with the same signature (`ov_sig`: name,
parameter names, return annotation, kind without the rule body) and the converted data agree -/
def fl_coneCheck (n : String) (pr pr' : Prep) (t : String) : Bool :=
  !(coneNames pr t).contains n &&
  (coneNames pr t).all fun x =>
    decide ((findFn? pr.fns x).map ov_sig = (findFn? pr'.fns x).map ov_sig) &&
    decide (find? pr.data x = find? pr'.data x)

/-- **general locality** at the level of `run`: the rules called `n` are replaced by arbitrary rules
of the same name (other parameter names, annotation, rounding key, body) -/
theorem fl_run_locality_checked (n t : String) {rf rf' : List Fn}
    (hrel : List.Forall₂ (fl_fnRel n) rf rf')
    {params : List (String × Val)} {gs : List (String × GroupSpec)} {ps : List (String × PidSpec)}
    {data : List (String × Column)} {T : List String} {pr pr' : Prep} {tbl tbl' : Table}
    (hpr : prepare rf gs ps data (sortDedup T) = .ok pr)
    (hpr' : prepare rf' gs ps data (sortDedup T) = .ok pr')
    (h : run rf params gs ps data T = .ok tbl) (h' : run rf' params gs ps data T = .ok tbl')
    (ht : t ∈ T) (hchk : fl_coneCheck n pr pr' t = true) : find? tbl t = find? tbl' t := by
  unfold fl_coneCheck at hchk
  simp only [Bool.and_eq_true, Bool.not_eq_true', List.all_eq_true, decide_eq_true_eq] at hchk
  obtain ⟨hn, hall⟩ := hchk
  refine fl_run_value_agree t hpr hpr' h h' ht ht ?_ (fl_prepare_rows hpr hpr')
  intro x hx
  obtain ⟨hs, hd⟩ := hall x hx
  refine ⟨fl_findFn?_of_sig hrel hpr hpr' ?_ hs, hd⟩
  rintro rfl
  simp only [List.contains_eq_mem, decide_eq_false_iff_not] at hn
  exact hn hx

/-! ### (E) a syntactic class of interface-changing replacements -/

/-- forget the parameter names and the kind of the RULES called `n` -/
def fl_strip (n : String) (f : Fn) : Fn :=
  match f.kind with
  | .rule _ _ _ => if f.name = n then { f with args := [], kind := .grouping .fg } else f
  | _ => f

theorem fl_strip_name (n : String) (f : Fn) : (fl_strip n f).name = f.name := by
  unfold fl_strip; split <;> [split; skip] <;> rfl

theorem fl_strip_ann (n : String) (f : Fn) : (fl_strip n f).ann = f.ann := by
  unfold fl_strip; split <;> [split; skip] <;> rfl

theorem fl_strip_of_ne {n : String} {f : Fn} (h : f.name ≠ n) : fl_strip n f = f := by
  unfold fl_strip; split <;> [rw [if_neg h]; rfl]

theorem fl_strip_notRule (n : String) {f : Fn} (h : f.notRule) : fl_strip n f = f := by
  unfold Fn.notRule at h
  unfold fl_strip
  split
  · rename_i hk; rw [hk] at h; exact h.elim
  · rfl

/-- the parameter names of the rules called `n` that `fl_strip` forgets carry no group suffix -/
def fl_Plain (n : String) (f : Fn) : Prop :=
  ¬ f.notRule → f.name = n → ∀ a ∈ f.args, groupIdOf a = none

theorem fl_Plain_of_notRule (n : String) {f : Fn} (h : f.notRule) : fl_Plain n f := fun h' => absurd h h'

theorem fl_strip_args_filter (n : String) {f : Fn} (hp : fl_Plain n f) (P : String → Bool)
    (hP : ∀ a, groupIdOf a = none → P a = false) :
    (fl_strip n f).args.filter P = f.args.filter P := by
  by_cases hnr : f.notRule
  · rw [fl_strip_notRule n hnr]
  · by_cases hn : f.name = n
    · have hargs := hp hnr hn
      have h1 : f.args.filter P = [] := by
        rw [List.filter_eq_nil_iff]
        intro a ha
        rw [hP a (hargs a ha)]
        simp
      rw [h1]
      unfold fl_strip
      split
      · rw [if_pos hn]; rfl
      · rename_i hk
        exfalso; apply hnr; unfold Fn.notRule
        split
        · rename_i hk'; exact hk _ _ _ hk'
        · trivial
    · rw [fl_strip_of_ne hn]

section generic
variable (m : Fn → Fn) (hname : ∀ g, (m g).name = g.name)
include hname

theorem fl_dictUpdate_map (d : List Fn) (f : Fn) :
    dictUpdate (d.map m) (m f) = (dictUpdate d f).map m := by
  induction d with
  | nil => rfl
  | cons g d ih =>
    simp only [List.map_cons, dictUpdate, hname]
    split
    · rfl
    · rw [List.map_cons, ih]

theorem fl_merge_map (a b : List Fn) : merge (a.map m) (b.map m) = (merge a b).map m := by
  unfold merge
  induction b generalizing a with
  | nil => rfl
  | cons f b ih => rw [List.map_cons, List.foldl_cons, List.foldl_cons, fl_dictUpdate_map m hname, ih]

theorem fl_findFn?_map (d : List Fn) (x : String) : findFn? (d.map m) x = (findFn? d x).map m := by
  induction d with
  | nil => rfl
  | cons g d ih =>
    rw [List.map_cons, findFn?_cons, findFn?_cons, hname, ih]
    split <;> rfl

theorem fl_hasFn_map (d : List Fn) (x : String) : hasFn (d.map m) x = hasFn d x := by
  unfold hasFn
  rw [fl_findFn?_map m hname]
  cases findFn? d x <;> rfl

theorem fl_names_map (d : List Fn) : (d.map m).map (·.name) = d.map (·.name) := by
  rw [List.map_map]
  apply List.map_congr_left
  intro f _
  exact hname f

theorem fl_aggAnn_map (hann : ∀ g, (m g).ann = g.ann) (a : Aggr) (src : Option String) (d : List Fn) :
    aggAnn a src (d.map m) = aggAnn a src d := by
  unfold aggAnn
  cases a <;> cases src <;> simp only [fl_findFn?_map m hname] <;>
    (rename_i s; cases findFn? d s <;> simp [hann])

theorem fl_pidFns_map (hann : ∀ g, (m g).ann = g.ann) (rules : List Fn) (dc : List String)
    (ps : List (String × PidSpec)) : pidFns (rules.map m) dc ps = pidFns rules dc ps := by
  unfold pidFns
  simp only [fl_hasFn_map m hname, fl_aggAnn_map m hname hann]

end generic

theorem fl_map_fix (m : Fn → Fn) {l : List Fn} (hfix : ∀ f ∈ l, m f = f) : l.map m = l := by
  rw [List.map_congr_left (g := id)]
  · simp
  · intro f hf; exact hfix f hf

theorem fl_merge_strip (n : String) (a b : List Fn) :
    merge (a.map (fl_strip n)) (b.map (fl_strip n)) = (merge a b).map (fl_strip n) :=
  fl_merge_map _ (fl_strip_name n) a b

theorem fl_map_strip_fix (n : String) {l : List Fn} (h : ∀ f ∈ l, f.notRule) : l.map (fl_strip n) = l :=
  fl_map_fix _ fun f hf => fl_strip_notRule n (h f hf)

theorem fl_merge_strip_right (n : String) (a b : List Fn) (hb : ∀ f ∈ b, f.notRule) :
    merge (a.map (fl_strip n)) b = (merge a b).map (fl_strip n) := by
  rw [← fl_merge_strip, fl_map_strip_fix n hb]

theorem fl_merge_strip_left (n : String) (a b : List Fn) (ha : ∀ f ∈ a, f.notRule) :
    merge a (b.map (fl_strip n)) = (merge a b).map (fl_strip n) := by
  rw [← fl_merge_strip, fl_map_strip_fix n ha]

theorem fl_plain_merge (n : String) {a b : List Fn} (ha : ∀ f ∈ a, fl_Plain n f) (hb : ∀ f ∈ b, fl_Plain n f) :
    ∀ f ∈ merge a b, fl_Plain n f := by
  intro f hf
  rcases loc_mem_merge hf with hf | hf
  · exact ha f hf
  · exact hb f hf

/-! #### time conversions -/

theorem fl_foldl_forall₂ {A B : Type} {R : A → A → Prop} {l l' : List A} (h : List.Forall₂ R l l')
    (step step' : B → A → B) (hs : ∀ acc a a', R a a' → step acc a = step' acc a') (init : B) :
    l.foldl step init = l'.foldl step' init := by
  induction h generalizing init with
  | nil => rfl
  | cons hab _ ih => rw [List.foldl_cons, List.foldl_cons, hs _ _ _ hab, ih]

theorem fl_forall₂_map_self {A B : Type} {R : B → B → Prop} (g1 g2 : A → B) (l : List A)
    (h : ∀ x ∈ l, R (g1 x) (g2 x)) : List.Forall₂ R (l.map g1) (l.map g2) := by
  induction l with
  | nil => exact .nil
  | cons a l ih =>
    exact .cons (h a List.mem_cons_self) (ih fun x hx => h x (List.mem_cons_of_mem _ hx))

theorem fl_create_congr (fs fs' : List (String × List String)) (dc : List String)
    (h : List.Forall₂ (fun e e' => e.1 = e'.1 ∧ TimeConv.derivedOf e.1 e.2 = TimeConv.derivedOf e'.1 e'.2) fs fs') :
    TimeConv.create fs dc = TimeConv.create fs' dc := by
  have hnames : fs.map (·.1) = fs'.map (·.1) := by
    induction h with
    | nil => rfl
    | cons hab _ ih => rw [List.map_cons, List.map_cons, hab.1, ih]
  unfold TimeConv.create
  simp only [hnames]
  congr 1
  apply fl_foldl_forall₂ h
  rintro acc ⟨n, deps⟩ ⟨n', deps'⟩ ⟨h1, h2⟩
  simp only at h1 h2
  subst h1
  simp only [h2]

theorem fl_derivedOf_none {n : String} (h : TimeConv.parseName n = none) (deps : List String) :
    TimeConv.derivedOf n deps = [] := by
  unfold TimeConv.derivedOf
  rw [h]

theorem fl_timeConvFns_strip (n : String) (hn : TimeConv.parseName n = none) (l : List Fn) (dc : List String) :
    timeConvFns (l.map (fl_strip n)) dc = timeConvFns l dc := by
  unfold timeConvFns
  congr 1
  rw [List.map_map]
  apply fl_create_congr
  apply fl_forall₂_map_self
  intro f _
  simp only [Function.comp, fl_strip_name, true_and]
  by_cases hf : f.name = n
  · rw [hf, fl_derivedOf_none hn, fl_derivedOf_none hn]
  · rw [fl_strip_of_ne hf]

/-! #### aggregations by group -/

theorem fl_flatMap_args_filter (n : String) (P : String → Bool) (hP : ∀ a, groupIdOf a = none → P a = false)
    (l : List Fn) (hl : ∀ f ∈ l, fl_Plain n f) :
    ((l.map (fl_strip n)).flatMap (·.args)).filter P = (l.flatMap (·.args)).filter P := by
  induction l with
  | nil => rfl
  | cons f l ih =>
    rw [List.map_cons, List.flatMap_cons, List.flatMap_cons, List.filter_append, List.filter_append,
      ih fun g hg => hl g (List.mem_cons_of_mem _ hg),
      fl_strip_args_filter n (hl f List.mem_cons_self) P hP]

theorem fl_autoOk_strip (n : String) (fns : List Fn) (dc : List String) :
    autoOk (fns.map (fl_strip n)) dc = autoOk fns dc := by
  funext col
  unfold autoOk
  rw [fl_hasFn_map _ (fl_strip_name n), fl_names_map _ (fl_strip_name n)]

theorem fl_groupAggFns_strip (n : String) (fns : List Fn) (hl : ∀ f ∈ fns, fl_Plain n f) (T dc : List String)
    (gs : List (String × GroupSpec)) :
    groupAggFns (fns.map (fl_strip n)) T dc gs = groupAggFns fns T dc gs := by
  have hauto := fl_autoOk_strip n fns dc
  have hP : ∀ a, groupIdOf a = none → autoOk fns dc a = false := by
    intro a ha
    unfold autoOk
    rw [ha]
    simp
  have hspecs : allSpecs (fns.map (fl_strip n)) T dc gs = allSpecs fns T dc gs := by
    unfold allSpecs
    rw [hauto, List.filter_append, List.filter_append, List.filter_append, List.filter_append,
      fl_flatMap_args_filter n _ hP fns hl]
  have hfn : ∀ name s, groupAggFn (fns.map (fl_strip n)) name s = groupAggFn fns name s := by
    intro name s
    unfold groupAggFn
    simp only [fl_aggAnn_map _ (fl_strip_name n) (fl_strip_ann n)]
  rw [groupAggFns_eq, groupAggFns_eq, hspecs]
  simp only [hfn]

theorem fl_notRule_plain (n : String) {l : List Fn} (h : ∀ f ∈ l, f.notRule) : ∀ f ∈ l, fl_Plain n f :=
  fun f hf => fl_Plain_of_notRule n (h f hf)

/-- `load_and_check_functions` commutes with forgetting the parameter names of the rules called `n`,
if `n` is not the name of a time-unit column and those parameter names carry no group suffix -/
theorem fl_buildFunctions_strip (n : String) (hn : TimeConv.parseName n = none) (rf : List Fn)
    (hrf : ∀ f ∈ rf, fl_Plain n f) (gs : List (String × GroupSpec))
    (ps : List (String × PidSpec)) (T dc : List String) :
    buildFunctions (rf.map (fl_strip n)) gs ps T dc =
      (match buildFunctions rf gs ps T dc with
       | .ok all => .ok (all.map (fl_strip n))
       | .error e => .error e) := by
  unfold buildFunctions
  simp only
  have hrules : merge [] (rf.map (fl_strip n)) = (merge [] rf).map (fl_strip n) := fl_merge_strip n [] rf
  have hprules : ∀ f ∈ merge [] rf, fl_Plain n f := fl_plain_merge n (fun _ h => by cases h) hrf
  rw [hrules, fl_pidFns_map _ (fl_strip_name n) (fl_strip_ann n)]
  cases hpid : pidFns (merge [] rf) dc ps with
  | error e => rfl
  | ok pid =>
    have hp := ov_pidFns_notRule hpid
    simp only [bind, Except.bind]
    rw [fl_merge_strip_right n _ _ hp, fl_timeConvFns_strip n hn]
    have ht := ov_timeConvFns_notRule (merge (merge [] rf) pid) dc
    rw [fl_merge_strip_left n _ _ ht, fl_merge_strip_right n _ _ hp, fl_groupAggFns_strip]
    · cases hgrp : groupAggFns (merge (merge (timeConvFns (merge (merge [] rf) pid) dc) (merge [] rf)) pid) T dc gs with
      | error e => rfl
      | ok grp =>
        have hg := ov_groupAggFns_notRule hgrp
        simp only [pure, Except.pure]
        rw [fl_merge_strip_left n _ _ (ov_merge_notRule hp ht), fl_merge_strip_right n _ _ hg,
          fl_merge_strip_right n _ _ ov_groupingFns_notRule]
    · exact fl_plain_merge n (fl_plain_merge n (fl_notRule_plain n ht) hprules) (fl_notRule_plain n hp)

/-! #### `prepare`, `run` -/

def fl_stripPrep (n : String) (pr : Prep) : Prep := { pr with fns := pr.fns.map (fl_strip n) }

theorem fl_hasFn_strip_all (n : String) (L : List Fn) (T : List String) :
    T.all (hasFn (L.map (fl_strip n))) = T.all (hasFn L) := by
  congr 1
  funext x
  exact fl_hasFn_map _ (fl_strip_name n) L x

theorem fl_filter_strip (n : String) (L : List Fn) (p : String → Bool) :
    (L.map (fl_strip n)).filter (fun f => p f.name) = (L.filter fun f => p f.name).map (fl_strip n) := by
  rw [List.filter_map]
  congr 2
  funext f
  simp only [Function.comp, fl_strip_name]

theorem fl_prepare_strip (n : String) (hn : TimeConv.parseName n = none) (rf : List Fn)
    (hrf : ∀ f ∈ rf, fl_Plain n f) (gs : List (String × GroupSpec))
    (ps : List (String × PidSpec)) (data : List (String × Column)) (T : List String) :
    prepare (rf.map (fl_strip n)) gs ps data T = (prepare rf gs ps data T).map (fl_stripPrep n) := by
  unfold prepare
  cases hraw : typedData data with
  | error e => rfl
  | ok raw =>
    simp only [bind, Except.bind]
    cases checkData raw with
    | error e => rfl
    | ok _ =>
      simp only
      rw [fl_buildFunctions_strip n hn rf hrf]
      cases buildFunctions rf gs ps T (raw.map (·.1)) with
      | error e => rfl
      | ok all =>
        simp only
        have h2 := fl_filter_strip n all (fun x => !(raw.map (·.1)).contains x)
        have h3 : convertData raw ((all.map (fl_strip n)).filter fun f => (raw.map (·.1)).contains f.name) =
            convertData raw (all.filter fun f => (raw.map (·.1)).contains f.name) := by
          apply convertData_congr
          intro m _
          rw [findFn?_filter_name (fun x => (raw.map (·.1)).contains x),
            findFn?_filter_name (fun x => (raw.map (·.1)).contains x), fl_findFn?_map _ (fl_strip_name n)]
          split
          · cases findFn? all m <;> simp [fl_strip_ann]
          · rfl
        rw [fl_hasFn_strip_all, h2, h3, fl_hasFn_strip_all]
        cases T.all (hasFn all) with
        | false => rfl
        | true =>
          simp only [Bool.not_true, Bool.false_eq_true, if_false]
          cases convertData raw (all.filter fun f => (raw.map (·.1)).contains f.name) with
          | error e => rfl
          | ok conv =>
            simp only
            cases T.all (hasFn (all.filter fun f => !(raw.map (·.1)).contains f.name)) <;> rfl

theorem fl_prepare_strip_ok (n : String) (hn : TimeConv.parseName n = none) {rf rf' : List Fn}
    (hpl : ∀ f ∈ rf, fl_Plain n f) (hpl' : ∀ f ∈ rf', fl_Plain n f)
    (hrf : rf.map (fl_strip n) = rf'.map (fl_strip n))
    {gs : List (String × GroupSpec)} {ps : List (String × PidSpec)} {data : List (String × Column)}
    {T : List String} {pr pr' : Prep} (hpr : prepare rf gs ps data T = .ok pr)
    (hpr' : prepare rf' gs ps data T = .ok pr') :
    pr'.dataCols = pr.dataCols ∧ pr'.data = pr.data ∧
      pr'.fns.map (fl_strip n) = pr.fns.map (fl_strip n) := by
  have h : (prepare rf gs ps data T).map (fl_stripPrep n) = (prepare rf' gs ps data T).map (fl_stripPrep n) := by
    rw [← fl_prepare_strip n hn rf hpl, ← fl_prepare_strip n hn rf' hpl', hrf]
  rw [hpr, hpr'] at h
  simp only [Except.map, Except.ok.injEq, fl_stripPrep] at h
  obtain ⟨dc, d, fns⟩ := pr
  obtain ⟨dc', d', fns'⟩ := pr'
  simp only [Prep.mk.injEq] at h
  exact ⟨h.1.symm, h.2.1.symm, h.2.2.symm⟩

theorem fl_findFn?_of_strip_eq {n : String} {L L' : List Fn}
    (h : L.map (fl_strip n) = L'.map (fl_strip n)) {x : String} (hx : x ≠ n) :
    findFn? L x = findFn? L' x := by
  have h1 := fl_findFn?_map _ (fl_strip_name n) L x
  rw [h, fl_findFn?_map _ (fl_strip_name n)] at h1
  cases hf : findFn? L x with
  | none =>
    rw [hf] at h1
    cases hf' : findFn? L' x with
    | none => rfl
    | some g' => rw [hf'] at h1; cases h1
  | some g =>
    rw [hf] at h1
    cases hf' : findFn? L' x with
    | none => rw [hf'] at h1; cases h1
    | some g' =>
      rw [hf'] at h1
      simp only [Option.map_some, Option.some.injEq] at h1
      have hg : g.name ≠ n := by rw [(findFn?_some hf).2]; exact hx
      have hg' : g'.name ≠ n := by rw [(findFn?_some hf').2]; exact hx
      rw [fl_strip_of_ne hg, fl_strip_of_ne hg'] at h1
      rw [h1]

/-- **locality for replacements with other parameter names** (same return annotation; `n` is not the
name of a time-unit column; no parameter name of the old and new rules `n` carries a group suffix) -/
theorem fl_run_locality_plain_args (n t : String) (hn : TimeConv.parseName n = none) {rf rf' : List Fn}
    (hpl : ∀ f ∈ rf, fl_Plain n f) (hpl' : ∀ f ∈ rf', fl_Plain n f)
    (hrf : rf.map (fl_strip n) = rf'.map (fl_strip n))
    {params : List (String × Val)} {gs : List (String × GroupSpec)} {ps : List (String × PidSpec)}
    {data : List (String × Column)} {T : List String} {pr : Prep} {tbl tbl' : Table}
    (hpr : prepare rf gs ps data (sortDedup T) = .ok pr)
    (h : run rf params gs ps data T = .ok tbl) (h' : run rf' params gs ps data T = .ok tbl')
    (ht : t ∈ T) (hcone : n ∉ coneNames pr t) : find? tbl t = find? tbl' t := by
  have hpr'ex : ∃ pr', prepare rf' gs ps data (sortDedup T) = .ok pr' := by
    unfold run at h'
    obtain ⟨pr', hpr', _⟩ := bind_ok h'
    exact ⟨pr', hpr'⟩
  obtain ⟨pr', hpr'⟩ := hpr'ex
  obtain ⟨_, hdata, hfns⟩ := fl_prepare_strip_ok n hn hpl hpl' hrf hpr hpr'
  refine fl_run_value_agree t hpr hpr' h h' ht ht ?_ (by rw [hdata])
  intro x hx
  refine ⟨fl_findFn?_of_strip_eq hfns.symm ?_, by rw [hdata]⟩
  rintro rfl
  exact hcone hx

theorem fl_strip_rules (n : String) (b : Bool) {rs rs' : List Rule}
    (h : List.Forall₂ (fun r r' => r.name = r'.name ∧ r.ret = r'.ret ∧ (r.name ≠ n → r = r')) rs rs') :
    (rs.map (ruleFn b)).map (fl_strip n) = (rs'.map (ruleFn b)).map (fl_strip n) := by
  induction h with
  | nil => rfl
  | @cons r r' l l' hab _ ih =>
    obtain ⟨h1, h2, h3⟩ := hab
    simp only [List.map_cons, ih, List.cons.injEq, and_true]
    by_cases hn : r.name = n
    · have hn' : r'.name = n := by rw [← h1]; exact hn
      unfold fl_strip ruleFn
      simp only [hn, hn', h2, if_true]
    · rw [h3 hn]

theorem fl_plain_rules (n : String) (b : Bool) {rs : List Rule}
    (h : ∀ r ∈ rs, r.name = n → ∀ a ∈ r.fn.args, groupIdOf a = none) :
    ∀ f ∈ rs.map (ruleFn b), fl_Plain n f := by
  intro f hf _ hfn
  obtain ⟨r, hr, rfl⟩ := List.mem_map.1 hf
  exact h r hr hfn

end GV.Simulate
