import GettsimVerif.Core.TimeConv
import Mathlib.Algebra.Order.Field.Rat
import Mathlib.Tactic.Ring
import Mathlib.Tactic.Linarith
import Mathlib.Tactic.FieldSimp
import Mathlib.Tactic.Positivity
import Mathlib.Tactic.NormNum
/-!
Helper lemmas for C13 (time conversion).
-/
namespace GV.TimeConv

theorem perYear_pos (u : TUnit) : 0 < perYear u := by
  cases u <;> simp only [perYear] <;> norm_num

theorem perYear_ne_zero (u : TUnit) : perYear u ≠ 0 := (perYear_pos u).ne'

/-- every converter is multiplication by the quotient of the per-year counts -/
theorem conv_eq_mul (u v : TUnit) (x : Rat) : conv u v x = x * (perYear u / perYear v) := by
  cases u <;> cases v <;> simp only [conv, perYear] <;> ring

theorem conv_zero (u v : TUnit) : conv u v 0 = 0 := by
  rw [conv_eq_mul, zero_mul]

theorem conv_add' (u v : TUnit) (a b : Rat) : conv u v (a + b) = conv u v a + conv u v b := by
  simp only [conv_eq_mul]; ring

theorem conv_foldl (u v : TUnit) (l : List Rat) (acc : Rat) :
    conv u v (l.foldl (· + ·) acc) = (l.map (conv u v)).foldl (· + ·) (conv u v acc) := by
  induction l generalizing acc with
  | nil => rfl
  | cons a l ih => simp only [List.foldl_cons, List.map_cons, ih, conv_add']

end GV.TimeConv
