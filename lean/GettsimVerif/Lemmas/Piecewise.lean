import Mathlib.Algebra.Order.Field.Rat
import Mathlib.Tactic.Ring
import Mathlib.Tactic.Linarith
import Mathlib.Tactic.FieldSimp
import Mathlib.Tactic.Positivity
import GettsimVerif.Core.Piecewise
/-
Helper definitions and lemmas about `GV.Piecewise` (normal form of schedules, bin selection,
generic gluing lemmas for piecewise functions).

Index conventions (0-based, `n = (inner s).length + 1` pieces, `ts = inner s`):
piece `0` is `(-∞, ts[0])`, piece `k` (`0 < k < n-1`) is `[ts[k-1], ts[k])`,
piece `n-1` is `[ts[n-2], ∞)`.  `thr s k = ts[k]` is the *upper* threshold of piece `k` and the
*lower* threshold of piece `k+1`.
-/
namespace GV.Piecewise

/-! ## Normal form -/

/-- finite entries of a threshold list -/
def innerOf : List Ext → List Rat
  | [] => []
  | .fin q :: r => q :: innerOf r
  | _ :: r => innerOf r

/-- the finite (inner) thresholds of a schedule -/
def inner (s : Schedule) : List Rat := innerOf s.thresholds

/-- strictly increasing (Bool-valued, structurally recursive so that the kernel evaluates it) -/
def sortedLt : List Rat → Bool
  | [] => true
  | [_] => true
  | a :: b :: r => decide (a < b) && sortedLt (b :: r)

/-- Normal form: `thresholds = -∞ :: t₀ :: … :: t_{n-2} :: [+∞]` with `t₀ < … < t_{n-2}` finite
(`n` pieces), the intercept list and every rates row have length `n`. -/
def WF (s : Schedule) : Bool :=
  decide (s.thresholds = .negInf :: (inner s).map .fin ++ [.posInf]) &&
  sortedLt (inner s) &&
  decide (s.intercepts.length = (inner s).length + 1) &&
  s.rates.all (fun row => decide (row.length = (inner s).length + 1))

/-- `k`-th inner threshold (upper end of piece `k`, lower end of piece `k+1`) -/
def thr (s : Schedule) (k : Nat) : Rat := (inner s).getD k 0
/-- intercept of piece `k` -/
def ic (s : Schedule) (k : Nat) : Rat := s.intercepts.getD k 0
/-- coefficient of `(x - t)^(p+1)` on piece `k` -/
def rate (s : Schedule) (p k : Nat) : Rat := (s.rates.getD p []).getD k 0

/-- number of thresholds `≤ x` -/
def cnt (ts : List Rat) (x : Rat) : Nat := (ts.filter fun t => decide (t ≤ x)).length

/-- `x` lies in piece `k` of the partition given by the inner thresholds `ts`
(thresholds belong to the upper piece) -/
def inPiece (ts : List Rat) (k : Nat) (x : Rat) : Prop :=
  k ≤ ts.length ∧ (0 < k → ts.getD (k - 1) 0 ≤ x) ∧ (k < ts.length → x < ts.getD k 0)

/-- the polynomial of piece `k` (piece `0` is constant: its rates are ignored) -/
def piecePoly (s : Schedule) (k : Nat) (x : Rat) : Rat :=
  if k = 0 then ic s 0 else ic s k + polyInc s.rates k (x - thr s (k - 1))

/-- continuity at all thresholds as a decidable condition on the coefficient lists:
`ic[1] = ic[0]` and `ic[k+1] = ic[k] + polyInc rates k (t_k - t_{k-1})` for `1 ≤ k < n-1`. -/
def cont (s : Schedule) : Bool :=
  (List.range (inner s).length).all fun k =>
    if k = 0 then decide (ic s 1 = ic s 0)
    else decide (ic s (k + 1) = ic s k + polyInc s.rates k (thr s k - thr s (k - 1)))

/-! ## sortedness -/

theorem sortedLt_iff_pairwise (ts : List Rat) : sortedLt ts = true ↔ ts.Pairwise (· < ·) := by
  induction ts with
  | nil => simp [sortedLt]
  | cons a r ih =>
    cases r with
    | nil => simp [sortedLt]
    | cons b r =>
      simp only [sortedLt, Bool.and_eq_true, decide_eq_true_eq, ih]
      constructor
      · rintro ⟨hab, hp⟩
        refine List.pairwise_cons.2 ⟨?_, hp⟩
        intro c hc
        rcases List.mem_cons.1 hc with rfl | hc
        · exact hab
        · exact lt_trans hab ((List.pairwise_cons.1 hp).1 c hc)
      · intro hp
        have h := List.pairwise_cons.1 hp
        exact ⟨h.1 b (List.mem_cons_self ..), h.2⟩

theorem pairwise_getD_lt {ts : List Rat} (h : ts.Pairwise (· < ·)) {i j : Nat}
    (hij : i < j) (hj : j < ts.length) : ts.getD i 0 < ts.getD j 0 := by
  have hi : i < ts.length := lt_trans hij hj
  have := (List.pairwise_iff_getElem.1 h) i j hi hj hij
  simpa [List.getD_eq_getElem?_getD, List.getElem?_eq_getElem hi, List.getElem?_eq_getElem hj]
    using this

theorem getD_mem {ts : List Rat} {i : Nat} (hi : i < ts.length) : ts.getD i 0 ∈ ts := by
  simp [List.getD_eq_getElem?_getD, List.getElem?_eq_getElem hi]

/-! ## `cnt` on sorted lists -/

theorem cnt_le_length (ts : List Rat) (x : Rat) : cnt ts x ≤ ts.length :=
  List.length_filter_le _ _

theorem cnt_cons (t : Rat) (r : List Rat) (x : Rat) :
    cnt (t :: r) x = if t ≤ x then cnt r x + 1 else cnt r x := by
  unfold cnt
  by_cases h : t ≤ x <;> simp [h]

theorem cnt_eq_zero_of_lt {ts : List Rat} {x : Rat} (h : ∀ c ∈ ts, x < c) : cnt ts x = 0 := by
  unfold cnt
  rw [List.length_eq_zero_iff, List.filter_eq_nil_iff]
  intro c hc
  simpa using h c hc

/-- the first `cnt ts x` thresholds are `≤ x`, the remaining ones are `> x` -/
theorem cnt_spec {ts : List Rat} (h : ts.Pairwise (· < ·)) (x : Rat) :
    (∀ i, i < cnt ts x → ts.getD i 0 ≤ x) ∧
    (∀ i, cnt ts x ≤ i → i < ts.length → x < ts.getD i 0) := by
  induction ts with
  | nil => simp [cnt]
  | cons t r ih =>
    have hp := List.pairwise_cons.1 h
    obtain ⟨ihA, ihB⟩ := ih hp.2
    rw [cnt_cons]
    by_cases htx : t ≤ x
    · simp only [htx, if_true]
      constructor
      · intro i hi
        cases i with
        | zero => simpa using htx
        | succ j => simpa using ihA j (by omega)
      · intro i hi hl
        cases i with
        | zero => omega
        | succ j =>
          simpa using ihB j (by omega) (by simpa using hl)
    · simp only [htx, if_false]
      have hxt : x < t := lt_of_not_ge htx
      have hz : cnt r x = 0 := cnt_eq_zero_of_lt fun c hc => lt_trans hxt (hp.1 c hc)
      rw [hz]
      constructor
      · intro i hi; omega
      · intro i _ hl
        cases i with
        | zero => simpa using hxt
        | succ j =>
          have hj : j < r.length := by simpa using hl
          simpa using lt_trans hxt (hp.1 _ (getD_mem hj))

theorem cnt_inPiece {ts : List Rat} (h : ts.Pairwise (· < ·)) (x : Rat) :
    inPiece ts (cnt ts x) x := by
  obtain ⟨hA, hB⟩ := cnt_spec h x
  refine ⟨cnt_le_length ts x, fun hk => hA _ (by omega), fun hk => hB _ (le_refl _) hk⟩

/-- characterisation of the selected bin; in particular the piece containing `x` is unique -/
theorem cnt_eq_iff {ts : List Rat} (h : ts.Pairwise (· < ·)) (x : Rat) (k : Nat) :
    cnt ts x = k ↔ inPiece ts k x := by
  constructor
  · rintro rfl; exact cnt_inPiece h x
  · rintro ⟨hk, hlo, hhi⟩
    obtain ⟨hA, hB⟩ := cnt_spec h x
    have hc := cnt_le_length ts x
    rcases Nat.lt_trichotomy (cnt ts x) k with hlt | heq | hgt
    · exfalso
      have h1 := hlo (by omega)
      have h2 := hB (k - 1) (by omega) (by omega)
      exact absurd h1 (not_le.2 h2)
    · exact heq
    · exfalso
      have h1 := hhi (by omega)
      have h2 := hA k hgt
      exact absurd h2 (not_le.2 h1)

theorem inPiece_unique {ts : List Rat} (h : ts.Pairwise (· < ·)) {x : Rat} {k k' : Nat}
    (hk : inPiece ts k x) (hk' : inPiece ts k' x) : k = k' := by
  rw [← (cnt_eq_iff h x k).2 hk, ← (cnt_eq_iff h x k').2 hk']

theorem cnt_mono {ts : List Rat} (h : ts.Pairwise (· < ·)) {x y : Rat} (hxy : x ≤ y) :
    cnt ts x ≤ cnt ts y := by
  by_contra hlt
  have hlt : cnt ts y < cnt ts x := by omega
  have h1 := (cnt_spec h x).1 _ hlt
  have h2 := (cnt_spec h y).2 _ (le_refl _) (lt_of_lt_of_le hlt (cnt_le_length ts x))
  linarith

/-- a threshold lies in the piece above it -/
theorem cnt_at_thr {ts : List Rat} (h : ts.Pairwise (· < ·)) {k : Nat} (hk : k < ts.length) :
    cnt ts (ts.getD k 0) = k + 1 := by
  rw [cnt_eq_iff h]
  refine ⟨hk, fun _ => by simp, fun hk' => pairwise_getD_lt h (by omega) hk'⟩

/-! ## generic gluing lemmas for piecewise functions `x ↦ g (cnt ts x) x` -/

/-- local monotonicity on the closed pieces + no downward jump at the thresholds
⟹ global monotonicity -/
theorem pw_mono {ts : List Rat} (hs : ts.Pairwise (· < ·)) (g : Nat → Rat → Rat)
    (hloc : ∀ k a b, k ≤ ts.length → (0 < k → ts.getD (k - 1) 0 ≤ a) → a ≤ b →
      (k < ts.length → b ≤ ts.getD k 0) → g k a ≤ g k b)
    (hglue : ∀ k, k < ts.length → g k (ts.getD k 0) ≤ g (k + 1) (ts.getD k 0))
    {x y : Rat} (hxy : x ≤ y) : g (cnt ts x) x ≤ g (cnt ts y) y := by
  have key : ∀ d x y, x ≤ y → cnt ts y = cnt ts x + d → g (cnt ts x) x ≤ g (cnt ts y) y := by
    intro d
    induction d with
    | zero =>
      intro x y hxy hc
      obtain ⟨hk, hlo, _⟩ := cnt_inPiece hs x
      obtain ⟨_, _, hhi⟩ := cnt_inPiece hs y
      rw [hc]
      simp only [Nat.add_zero] at hc ⊢
      exact hloc _ x y hk hlo hxy fun hk' => le_of_lt (hc ▸ hhi (hc ▸ hk'))
    | succ d ih =>
      intro x y hxy hc
      obtain ⟨hk, hlo, hhi⟩ := cnt_inPiece hs x
      have hcy := cnt_le_length ts y
      have hk' : cnt ts x < ts.length := by omega
      have hxt := hhi hk'
      have hty : ts.getD (cnt ts x) 0 ≤ y := (cnt_spec hs y).1 _ (by omega)
      have hct := cnt_at_thr hs hk'
      have h1 := hloc _ x _ hk hlo (le_of_lt hxt) (fun _ => le_refl _)
      have h2 := hglue _ hk'
      have h3 := ih _ y hty (by rw [hct]; omega)
      rw [hct] at h3
      exact le_trans h1 (le_trans h2 h3)
  exact key (cnt ts y - cnt ts x) x y hxy (by have := cnt_mono hs hxy; omega)

/-- subgradient inequality from piece-local subgradient inequalities, continuity and
monotone slopes -/
theorem pw_subgrad {ts : List Rat} (hs : ts.Pairwise (· < ·)) (g m : Nat → Rat → Rat)
    (H1 : ∀ k a b, k ≤ ts.length → m k a * (b - a) ≤ g k b - g k a)
    (H2 : ∀ k, k < ts.length → g k (ts.getD k 0) = g (k + 1) (ts.getD k 0))
    (H3 : ∀ x y, x ≤ y → m (cnt ts x) x ≤ m (cnt ts y) y)
    (H4 : ∀ k, k < ts.length → m k (ts.getD k 0) ≤ m (k + 1) (ts.getD k 0))
    (x y : Rat) :
    m (cnt ts x) x * (y - x) ≤ g (cnt ts y) y - g (cnt ts x) x := by
  -- upward
  have up : ∀ d x y, x ≤ y → cnt ts y = cnt ts x + d →
      m (cnt ts x) x * (y - x) ≤ g (cnt ts y) y - g (cnt ts x) x := by
    intro d
    induction d with
    | zero =>
      intro x y _ hc
      simp only [Nat.add_zero] at hc
      rw [hc]; exact H1 _ x y (cnt_le_length ts x)
    | succ d ih =>
      intro x y hxy hc
      have hcy := cnt_le_length ts y
      have hk' : cnt ts x < ts.length := by omega
      have hty : ts.getD (cnt ts x) 0 ≤ y := (cnt_spec hs y).1 _ (by omega)
      have hxt : x < ts.getD (cnt ts x) 0 := (cnt_inPiece hs x).2.2 hk'
      have hct := cnt_at_thr hs hk'
      have h1 := H1 _ x (ts.getD (cnt ts x) 0) (le_of_lt hk')
      have h2 := H2 _ hk'
      have h3 := ih _ y hty (by rw [hct]; omega)
      have h4 := H3 x _ (le_of_lt hxt)
      rw [hct] at h3 h4
      have h5 := mul_le_mul_of_nonneg_right h4 (sub_nonneg.2 hty)
      rw [h2] at h1
      linarith
  -- downward
  have down : ∀ d x y, y ≤ x → cnt ts x = cnt ts y + d →
      m (cnt ts x) x * (y - x) ≤ g (cnt ts y) y - g (cnt ts x) x := by
    intro d
    induction d with
    | zero =>
      intro x y _ hc
      simp only [Nat.add_zero] at hc
      rw [hc]; exact H1 _ x y (cnt_le_length ts y)
    | succ d ih =>
      intro x y hyx hc
      have hcx := cnt_le_length ts x
      have hk' : cnt ts y < ts.length := by omega
      have htx : ts.getD (cnt ts y) 0 ≤ x := (cnt_spec hs x).1 _ (by omega)
      have hyt : y < ts.getD (cnt ts y) 0 := (cnt_inPiece hs y).2.2 hk'
      have hct := cnt_at_thr hs hk'
      have h1 := H1 _ (ts.getD (cnt ts y) 0) y (le_of_lt hk')
      have h2 := H2 _ hk'
      have h3 := ih x _ htx (by rw [hct]; omega)
      have h4 := H3 _ x htx
      have h6 := H4 _ hk'
      rw [hct] at h3 h4
      have h5 := mul_le_mul_of_nonneg_right (le_trans h6 h4) (sub_nonneg.2 (le_of_lt hyt))
      rw [h2] at h1
      linarith
  rcases le_total x y with hxy | hyx
  · exact up (cnt ts y - cnt ts x) x y hxy (by have := cnt_mono hs hxy; omega)
  · exact down (cnt ts x - cnt ts y) x y hyx (by have := cnt_mono hs hyx; omega)

/-! ## unpacking `WF`, bin selection and `eval` -/

theorem innerOf_normal (ts : List Rat) :
    innerOf (Ext.negInf :: ts.map Ext.fin ++ [Ext.posInf]) = ts := by
  simp only [innerOf, List.cons_append]
  induction ts with
  | nil => simp [innerOf]
  | cons t r ih => simpa [innerOf] using ih

structure WFProp (s : Schedule) : Prop where
  thr_eq : s.thresholds = .negInf :: (inner s).map .fin ++ [.posInf]
  sorted : (inner s).Pairwise (· < ·)
  ic_len : s.intercepts.length = (inner s).length + 1
  row_len : ∀ row ∈ s.rates, row.length = (inner s).length + 1

theorem WF_iff (s : Schedule) : WF s = true ↔ WFProp s := by
  unfold WF
  simp only [Bool.and_eq_true, decide_eq_true_eq, sortedLt_iff_pairwise, List.all_eq_true]
  constructor
  · rintro ⟨⟨⟨h1, h2⟩, h3⟩, h4⟩; exact ⟨h1, h2, h3, h4⟩
  · rintro ⟨h1, h2, h3, h4⟩; exact ⟨⟨⟨h1, h2⟩, h3⟩, h4⟩

theorem selectedBin_normal (ts : List Rat) (x : Rat) :
    selectedBin (Ext.negInf :: ts.map Ext.fin ++ [Ext.posInf]) x = cnt ts x := by
  unfold selectedBin cnt
  simp [List.filter_append, List.filter_map, Function.comp_def]

theorem selectedBin_eq_cnt {s : Schedule} (h : WFProp s) (x : Rat) :
    selectedBin s.thresholds x = cnt (inner s) x := by
  rw [h.thr_eq, selectedBin_normal]

theorem getD_normal (ts : List Rat) {b : Nat} (h0 : 0 < b) (hb : b ≤ ts.length) :
    (Ext.negInf :: ts.map Ext.fin ++ [Ext.posInf]).getD b Ext.negInf
      = Ext.fin (ts.getD (b - 1) 0) := by
  obtain ⟨j, rfl⟩ : ∃ j, b = j + 1 := ⟨b - 1, by omega⟩
  have hj : j < ts.length := by omega
  simp [List.getD_eq_getElem?_getD, List.getElem?_append_left, hj]

theorem eval_eq_piecePoly {s : Schedule} (h : WFProp s) (x : Rat) :
    eval s x = piecePoly s (cnt (inner s) x) x := by
  unfold eval piecePoly
  simp only [selectedBin_eq_cnt h]
  by_cases hb : cnt (inner s) x = 0
  · simp [hb, ic]
  · simp only [hb, if_false]
    have := getD_normal (inner s) (Nat.pos_of_ne_zero hb) (cnt_le_length _ x)
    rw [← h.thr_eq] at this
    rw [this]; rfl

/-! ## closed forms of `polyInc` -/

theorem polyInc_deg1 (r1 : List Rat) (i : Nat) (inc : Rat) :
    polyInc [r1] i inc = r1.getD i 0 * inc := by
  simp [polyInc, List.zipIdx]

theorem polyInc_deg2 (r1 r2 : List Rat) (i : Nat) (inc : Rat) :
    polyInc [r1, r2] i inc = r1.getD i 0 * inc + r2.getD i 0 * inc ^ 2 := by
  simp [polyInc, List.zipIdx]

theorem polyInc_deg3 (r1 r2 r3 : List Rat) (i : Nat) (inc : Rat) :
    polyInc [r1, r2, r3] i inc
      = r1.getD i 0 * inc + r2.getD i 0 * inc ^ 2 + r3.getD i 0 * inc ^ 3 := by
  simp [polyInc, List.zipIdx]

theorem polyInc_zero (rates : List (List Rat)) (i : Nat) : polyInc rates i 0 = 0 := by
  unfold polyInc
  suffices h : ∀ (l : List (List Rat × Nat)),
      (l.map fun (row, p) => row.getD i 0 * (0 : Rat) ^ (p + 1)).foldl (· + ·) 0 = 0 from h _
  intro l
  induction l with
  | nil => rfl
  | cons a l ih => simpa using ih

theorem polyInc_rates1 {s : Schedule} (h : s.rates.length = 1) (i : Nat) (inc : Rat) :
    polyInc s.rates i inc = rate s 0 i * inc := by
  obtain ⟨r1, hr⟩ := List.length_eq_one_iff.1 h
  simp [rate, hr, polyInc_deg1]

theorem polyInc_rates2 {s : Schedule} (h : s.rates.length = 2) (i : Nat) (inc : Rat) :
    polyInc s.rates i inc = rate s 0 i * inc + rate s 1 i * inc ^ 2 := by
  obtain ⟨r1, r2, hr⟩ := List.length_eq_two.1 h
  simp [rate, hr, polyInc_deg2]

/-! ## `createIntercepts` -/

theorem getD_append_left' {α} (l l' : List α) (d : α) {i : Nat} (h : i < l.length) :
    (l ++ l').getD i d = l.getD i d := by
  simp [List.getD_eq_getElem?_getD, List.getElem?_append_left h]

theorem getD_append_length {α} (l : List α) (a d : α) : (l ++ [a]).getD l.length d = a := by
  simp [List.getD_eq_getElem?_getD]

/-- value appended by step `i` of `createIntercepts` in normal form -/
def stepv (ts : List Rat) (rates : List (List Rat)) (i : Nat) (prev : Rat) : Rat :=
  if i = 0 then prev else prev + polyInc rates i (ts.getD i 0 - ts.getD (i - 1) 0)

/-- the loop body of `createIntercepts` -/
def ciStep (lowers uppers : List Ext) (rates : List (List Rat)) (acc : List Rat) (i : Nat) :
    List Rat :=
  let prev := acc.getD i 0
  match lowers.getD i .negInf, uppers.getD i .posInf with
  | .fin l, .fin u => acc ++ [prev + polyInc rates i (u - l)]
  | _, _ => acc ++ [prev]

theorem createIntercepts_eq (lowers uppers : List Ext) (rates : List (List Rat)) (c0 : Rat) :
    createIntercepts lowers uppers rates c0
      = (List.range (lowers.length - 1)).foldl (ciStep lowers uppers rates) [c0] := rfl

theorem ciStep_normal (ts : List Rat) (rates : List (List Rat)) (acc : List Rat) {i : Nat}
    (hi : i < ts.length) :
    ciStep (Ext.negInf :: ts.map Ext.fin) (ts.map Ext.fin ++ [Ext.posInf]) rates acc i
      = acc ++ [stepv ts rates i (acc.getD i 0)] := by
  unfold ciStep stepv
  cases i with
  | zero => simp
  | succ j =>
    have hj : j < ts.length := by omega
    simp [List.getD_eq_getElem?_getD, hi, hj]

theorem ci_foldl_normal (ts : List Rat) (rates : List (List Rat)) (c0 : Rat) :
    ∀ j, j ≤ ts.length →
      let A := (List.range j).foldl
        (ciStep (Ext.negInf :: ts.map Ext.fin) (ts.map Ext.fin ++ [Ext.posInf]) rates) [c0]
      A.length = j + 1 ∧ A.getD 0 0 = c0 ∧
        ∀ i, i < j → A.getD (i + 1) 0 = stepv ts rates i (A.getD i 0) := by
  intro j
  induction j with
  | zero => intro _; simp
  | succ j ih =>
    intro hj
    obtain ⟨hl, h0, hs⟩ := ih (by omega)
    simp only [List.range_succ, List.foldl_append, List.foldl_cons, List.foldl_nil]
    rw [ciStep_normal ts rates _ (by omega)]
    set A := (List.range j).foldl
        (ciStep (Ext.negInf :: ts.map Ext.fin) (ts.map Ext.fin ++ [Ext.posInf]) rates) [c0]
    refine ⟨by simp [hl], ?_, ?_⟩
    · rw [getD_append_left' _ _ _ (by omega)]; exact h0
    · intro i hi
      by_cases hij : i < j
      · rw [getD_append_left' _ _ _ (by omega), getD_append_left' _ _ _ (by omega)]
        exact hs i hij
      · have : i = j := by omega
        subst this
        have e : (A ++ [stepv ts rates i (A.getD i 0)]).getD i 0 = A.getD i 0 :=
          getD_append_left' _ _ _ (by omega)
        rw [e]
        have := getD_append_length A (stepv ts rates i (A.getD i 0)) 0
        rw [hl] at this
        exact this

/-- intercepts generated by `createIntercepts` in normal form -/
theorem createIntercepts_normal (ts : List Rat) (rates : List (List Rat)) (c0 : Rat) :
    let icl := createIntercepts (Ext.negInf :: ts.map Ext.fin)
      (ts.map Ext.fin ++ [Ext.posInf]) rates c0
    icl.length = ts.length + 1 ∧ icl.getD 0 0 = c0 ∧
      (0 < ts.length → icl.getD 1 0 = icl.getD 0 0) ∧
      ∀ k, 1 ≤ k → k < ts.length →
        icl.getD (k + 1) 0
          = icl.getD k 0 + polyInc rates k (ts.getD k 0 - ts.getD (k - 1) 0) := by
  have h := ci_foldl_normal ts rates c0 ts.length (le_refl _)
  rw [createIntercepts_eq]
  simp only [List.length_cons, List.length_map, Nat.add_sub_cancel]
  obtain ⟨hl, h0, hs⟩ := h
  refine ⟨hl, h0, ?_, ?_⟩
  · intro hpos
    have := hs 0 hpos
    simpa [stepv] using this
  · intro k hk1 hk
    have := hs k hk
    have hk0 : k ≠ 0 := by omega
    simpa [stepv, hk0] using this

/-! ## continuity condition -/

theorem cont_iff (s : Schedule) : cont s = true ↔
    (0 < (inner s).length → ic s 1 = ic s 0) ∧
    ∀ k, 1 ≤ k → k < (inner s).length →
      ic s (k + 1) = ic s k + polyInc s.rates k (thr s k - thr s (k - 1)) := by
  unfold cont
  simp only [List.all_eq_true, List.mem_range]
  constructor
  · intro h
    refine ⟨fun h0 => by simpa using h 0 h0, fun k hk1 hk => ?_⟩
    have hk0 : k ≠ 0 := by omega
    simpa [hk0] using h k hk
  · rintro ⟨h0, hk⟩ k hlt
    by_cases hk0 : k = 0
    · subst hk0; simpa using h0 hlt
    · simpa [hk0] using hk k (by omega) hlt

/-- continuity: the polynomial of piece `k` at its upper threshold equals the polynomial of
piece `k+1` there (which is `ic (k+1)`) -/
theorem piecePoly_glue {s : Schedule} (hc : cont s = true) {k : Nat} (hk : k < (inner s).length) :
    piecePoly s k (thr s k) = piecePoly s (k + 1) (thr s k) := by
  obtain ⟨h0, h1⟩ := (cont_iff s).1 hc
  have hr : piecePoly s (k + 1) (thr s k) = ic s (k + 1) := by
    simp [piecePoly, polyInc_zero]
  rw [hr]
  by_cases hk0 : k = 0
  · subst hk0; simp [piecePoly, h0 hk]
  · simp only [piecePoly, hk0, if_false]
    exact (h1 k (by omega) hk).symm

theorem piecePoly_succ_at_thr (s : Schedule) (k : Nat) :
    piecePoly s (k + 1) (thr s k) = ic s (k + 1) := by
  simp [piecePoly, polyInc_zero]

/-! ## decidable shape conditions -/

/-- linear schedule, continuous, all slopes of pieces `≥ 1` nonnegative -/
def WFmono (s : Schedule) : Bool :=
  WF s && decide (s.rates.length = 1) && cont s &&
  (List.range ((inner s).length + 1)).all fun k => decide (k = 0) || decide (0 ≤ rate s 0 k)

/-- marginal rate of piece `k ≥ 1` at its upper end -/
def margUpper (s : Schedule) (k : Nat) : Rat :=
  rate s 0 k + 2 * rate s 1 k * (thr s k - thr s (k - 1))

/-- quadratic schedule, continuous, marginal rate `≥ 0` at both ends of every piece `k ≥ 1`
(last, unbounded piece: `r1 ≥ 0 ∧ r2 ≥ 0`) -/
def WFmonoQ (s : Schedule) : Bool :=
  WF s && decide (s.rates.length = 2) && cont s &&
  (List.range ((inner s).length + 1)).all fun k => decide (k = 0) ||
    (decide (0 ≤ rate s 0 k) &&
      if k < (inner s).length then decide (0 ≤ margUpper s k) else decide (0 ≤ rate s 1 k))

/-- `WFmonoQ`, `r2 ≥ 0` on every piece `k ≥ 1`, and the marginal rate does not drop at any
threshold (`0 ≤ r1[1]` at the first one) -/
def WFconvexQ (s : Schedule) : Bool :=
  WFmonoQ s &&
  ((List.range ((inner s).length + 1)).all fun k =>
    decide (k = 0) || decide (0 ≤ rate s 1 k)) &&
  ((List.range (inner s).length).all fun k =>
    if k = 0 then decide (0 ≤ rate s 0 1) else decide (margUpper s k ≤ rate s 0 (k + 1)))

/-- marginal rate on piece `k` at `x` (`0` on the constant piece `0`) -/
def pieceMarg (s : Schedule) (k : Nat) (x : Rat) : Rat :=
  if k = 0 then 0 else rate s 0 k + 2 * rate s 1 k * (x - thr s (k - 1))

/-- the marginal-rate function of a quadratic schedule (right derivative of `eval s`) -/
def margRate (s : Schedule) (x : Rat) : Rat := pieceMarg s (selectedBin s.thresholds x) x

structure WFmonoProp (s : Schedule) : Prop where
  wf : WFProp s
  deg : s.rates.length = 1
  cont : cont s = true
  nonneg : ∀ k, 1 ≤ k → k ≤ (inner s).length → 0 ≤ rate s 0 k

theorem WFmono_iff (s : Schedule) : WFmono s = true ↔ WFmonoProp s := by
  unfold WFmono
  simp only [Bool.and_eq_true, decide_eq_true_eq, List.all_eq_true, List.mem_range, WF_iff,
    Bool.or_eq_true]
  constructor
  · rintro ⟨⟨⟨h1, h2⟩, h3⟩, h4⟩
    exact ⟨h1, h2, h3, fun k hk1 hk => (h4 k (by omega)).resolve_left (by omega)⟩
  · rintro ⟨h1, h2, h3, h4⟩
    refine ⟨⟨⟨h1, h2⟩, h3⟩, fun k hk => ?_⟩
    by_cases hk0 : k = 0
    · exact Or.inl hk0
    · exact Or.inr (h4 k (by omega) (by omega))

structure WFmonoQProp (s : Schedule) : Prop where
  wf : WFProp s
  deg : s.rates.length = 2
  cont : cont s = true
  r1_nonneg : ∀ k, 1 ≤ k → k ≤ (inner s).length → 0 ≤ rate s 0 k
  upper_nonneg : ∀ k, 1 ≤ k → k < (inner s).length → 0 ≤ margUpper s k
  last_r2 : 1 ≤ (inner s).length → 0 ≤ rate s 1 (inner s).length

theorem WFmonoQ_iff (s : Schedule) : WFmonoQ s = true ↔ WFmonoQProp s := by
  unfold WFmonoQ
  simp only [Bool.and_eq_true, decide_eq_true_eq, List.all_eq_true, List.mem_range, WF_iff,
    Bool.or_eq_true]
  constructor
  · rintro ⟨⟨⟨h1, h2⟩, h3⟩, h4⟩
    refine ⟨h1, h2, h3, fun k hk1 hk => ?_, fun k hk1 hk => ?_, fun hl => ?_⟩
    · exact ((h4 k (by omega)).resolve_left (by omega)).1
    · have := ((h4 k (by omega)).resolve_left (by omega)).2
      simpa [hk] using this
    · have := ((h4 (inner s).length (by omega)).resolve_left (by omega)).2
      simpa using this
  · rintro ⟨h1, h2, h3, h4, h5, h6⟩
    refine ⟨⟨⟨h1, h2⟩, h3⟩, fun k hk => ?_⟩
    by_cases hk0 : k = 0
    · exact Or.inl hk0
    · refine Or.inr ⟨h4 k (by omega) (by omega), ?_⟩
      by_cases hkl : k < (inner s).length
      · simpa [hkl] using h5 k (by omega) hkl
      · have : k = (inner s).length := by omega
        subst this
        simpa using h6 (by omega)

structure WFconvexQProp (s : Schedule) : Prop where
  mono : WFmonoQProp s
  r2_nonneg : ∀ k, 1 ≤ k → k ≤ (inner s).length → 0 ≤ rate s 1 k
  first : 0 < (inner s).length → 0 ≤ rate s 0 1
  nodrop : ∀ k, 1 ≤ k → k < (inner s).length → margUpper s k ≤ rate s 0 (k + 1)

theorem WFconvexQ_iff (s : Schedule) : WFconvexQ s = true ↔ WFconvexQProp s := by
  unfold WFconvexQ
  simp only [Bool.and_eq_true, decide_eq_true_eq, List.all_eq_true, List.mem_range, WFmonoQ_iff,
    Bool.or_eq_true]
  constructor
  · rintro ⟨⟨h1, h2⟩, h3⟩
    refine ⟨h1, fun k hk1 hk => (h2 k (by omega)).resolve_left (by omega), fun h0 => ?_,
      fun k hk1 hk => ?_⟩
    · simpa using h3 0 h0
    · have hk0 : k ≠ 0 := by omega
      simpa [hk0] using h3 k hk
  · rintro ⟨h1, h2, h3, h4⟩
    refine ⟨⟨h1, fun k hk => ?_⟩, fun k hk => ?_⟩
    · by_cases hk0 : k = 0
      · exact Or.inl hk0
      · exact Or.inr (h2 k (by omega) (by omega))
    · by_cases hk0 : k = 0
      · subst hk0; simpa using h3 hk
      · simpa [hk0] using h4 k (by omega) hk

/-! ## piece-local facts -/

theorem piecePoly_deg1 {s : Schedule} (h : s.rates.length = 1) {k : Nat} (hk : k ≠ 0) (x : Rat) :
    piecePoly s k x = ic s k + rate s 0 k * (x - thr s (k - 1)) := by
  simp [piecePoly, hk, polyInc_rates1 h]

theorem piecePoly_deg2 {s : Schedule} (h : s.rates.length = 2) {k : Nat} (hk : k ≠ 0) (x : Rat) :
    piecePoly s k x
      = ic s k + (rate s 0 k * (x - thr s (k - 1)) + rate s 1 k * (x - thr s (k - 1)) ^ 2) := by
  simp [piecePoly, hk, polyInc_rates2 h]

/-- a quadratic `r1 z + r2 z²` (in `z = x - t`) is nondecreasing on `[t, u]` if its derivative is
`≥ 0` at both ends -/
theorem quad_mono_bounded {r1 r2 t u a b : Rat} (h0 : 0 ≤ r1) (h1 : 0 ≤ r1 + 2 * r2 * (u - t))
    (hta : t ≤ a) (hab : a ≤ b) (hbu : b ≤ u) :
    r1 * (a - t) + r2 * (a - t) ^ 2 ≤ r1 * (b - t) + r2 * (b - t) ^ 2 := by
  have key : 0 ≤ r1 + r2 * ((a - t) + (b - t)) := by
    rcases le_total 0 r2 with h2 | h2
    · have : 0 ≤ r2 * ((a - t) + (b - t)) := mul_nonneg h2 (by linarith)
      linarith
    · have : r2 * (2 * (u - t)) ≤ r2 * ((a - t) + (b - t)) :=
        mul_le_mul_of_nonpos_left (by linarith) h2
      linarith
  have := mul_nonneg (sub_nonneg.2 hab) key
  nlinarith [this]

theorem quad_mono_unbounded {r1 r2 t a b : Rat} (h0 : 0 ≤ r1) (h2 : 0 ≤ r2)
    (hta : t ≤ a) (hab : a ≤ b) :
    r1 * (a - t) + r2 * (a - t) ^ 2 ≤ r1 * (b - t) + r2 * (b - t) ^ 2 := by
  have key : 0 ≤ r1 + r2 * ((a - t) + (b - t)) := by
    have : 0 ≤ r2 * ((a - t) + (b - t)) := mul_nonneg h2 (by linarith)
    linarith
  have := mul_nonneg (sub_nonneg.2 hab) key
  nlinarith [this]

/-! ## marginal rate of convex quadratic schedules -/

theorem pieceMarg_succ_at_thr (s : Schedule) (k : Nat) :
    pieceMarg s (k + 1) (thr s k) = rate s 0 (k + 1) := by
  simp [pieceMarg]

theorem pieceMarg_at_upper (s : Schedule) {k : Nat} (hk : k ≠ 0) :
    pieceMarg s k (thr s k) = margUpper s k := by
  simp [pieceMarg, margUpper, hk]

theorem pieceMarg_glue {s : Schedule} (h : WFconvexQProp s) {k : Nat}
    (hk : k < (inner s).length) :
    pieceMarg s k (thr s k) ≤ pieceMarg s (k + 1) (thr s k) := by
  rw [pieceMarg_succ_at_thr]
  by_cases hk0 : k = 0
  · subst hk0; simpa [pieceMarg] using h.first hk
  · rw [pieceMarg_at_upper s hk0]; exact h.nodrop k (by omega) hk

theorem pieceMarg_mono {s : Schedule} (h : WFconvexQProp s) {x y : Rat} (hxy : x ≤ y) :
    pieceMarg s (cnt (inner s) x) x ≤ pieceMarg s (cnt (inner s) y) y := by
  refine pw_mono h.mono.wf.sorted (pieceMarg s) ?_ (fun k hk => pieceMarg_glue h hk) hxy
  intro k a b hk _ hab _
  by_cases hk0 : k = 0
  · subst hk0; simp [pieceMarg]
  · simp only [pieceMarg, hk0, if_false]
    have h2 := h.r2_nonneg k (by omega) hk
    have := mul_le_mul_of_nonneg_left (sub_le_sub_right hab (thr s (k - 1)))
      (mul_nonneg (by norm_num : (0 : Rat) ≤ 2) h2)
    linarith

theorem margRate_eq {s : Schedule} (h : WFProp s) (x : Rat) :
    margRate s x = pieceMarg s (cnt (inner s) x) x := by
  unfold margRate; rw [selectedBin_eq_cnt h]

/-- piece-local subgradient inequality (a polynomial identity plus `r2 ≥ 0`) -/
theorem piece_subgrad {s : Schedule} (h : WFconvexQProp s) {k : Nat}
    (hk : k ≤ (inner s).length) (a b : Rat) :
    pieceMarg s k a * (b - a) ≤ piecePoly s k b - piecePoly s k a := by
  by_cases hk0 : k = 0
  · subst hk0; simp [pieceMarg, piecePoly]
  · rw [piecePoly_deg2 h.mono.deg hk0, piecePoly_deg2 h.mono.deg hk0]
    simp only [pieceMarg, hk0, if_false]
    have h2 := h.r2_nonneg k (by omega) hk
    have := mul_nonneg h2 (sq_nonneg (b - a))
    nlinarith [this]

/-! ## solidarity-surcharge shape -/

/-- rate of the last piece of a linear schedule (the nominal rate) -/
def topRate (s : Schedule) : Rat := rate s 0 (inner s).length

/-- Decidable condition for `eval s x ≤ topRate s * x` on `x ≥ 0` (linear schedule):
`ic[0] ≤ 0 ≤ r`, and for every piece `k ≥ 1` the line of the piece lies below `r * x` at the lower
end of the piece and (bounded pieces) at its upper end.  The last piece has slope `r` itself, so
the lower end suffices there. -/
def soliCond (s : Schedule) : Bool :=
  WF s && decide (s.rates.length = 1) && decide (ic s 0 ≤ 0) && decide (0 ≤ topRate s) &&
  (List.range ((inner s).length + 1)).all fun k => decide (k = 0) ||
    (decide (ic s k ≤ topRate s * thr s (k - 1)) &&
      if k < (inner s).length then
        decide (ic s k + rate s 0 k * (thr s k - thr s (k - 1)) ≤ topRate s * thr s k)
      else true)

structure SoliProp (s : Schedule) : Prop where
  wf : WFProp s
  deg : s.rates.length = 1
  ic0 : ic s 0 ≤ 0
  top_nonneg : 0 ≤ topRate s
  lower : ∀ k, 1 ≤ k → k ≤ (inner s).length → ic s k ≤ topRate s * thr s (k - 1)
  upper : ∀ k, 1 ≤ k → k < (inner s).length →
    ic s k + rate s 0 k * (thr s k - thr s (k - 1)) ≤ topRate s * thr s k

theorem soliCond_iff (s : Schedule) : soliCond s = true ↔ SoliProp s := by
  unfold soliCond
  simp only [Bool.and_eq_true, decide_eq_true_eq, List.all_eq_true, List.mem_range, WF_iff,
    Bool.or_eq_true]
  constructor
  · rintro ⟨⟨⟨⟨h1, h2⟩, h3⟩, h4⟩, h5⟩
    refine ⟨h1, h2, h3, h4, fun k hk1 hk => ?_, fun k hk1 hk => ?_⟩
    · exact ((h5 k (by omega)).resolve_left (by omega)).1
    · have := ((h5 k (by omega)).resolve_left (by omega)).2
      simpa [hk] using this
  · rintro ⟨h1, h2, h3, h4, h5, h6⟩
    refine ⟨⟨⟨⟨h1, h2⟩, h3⟩, h4⟩, fun k hk => ?_⟩
    by_cases hk0 : k = 0
    · exact Or.inl hk0
    · refine Or.inr ⟨h5 k (by omega) (by omega), ?_⟩
      by_cases hkl : k < (inner s).length
      · simpa [hkl] using h6 k (by omega) hkl
      · simp [hkl]

/-- an affine function that is below `r * x` at both ends of `[t, u]` is below it on `[t, u]` -/
theorem affine_le_of_endpoints {c r' r t u x : Rat} (htu : t < u) (h1 : c ≤ r * t)
    (h2 : c + r' * (u - t) ≤ r * u) (htx : t ≤ x) (hxu : x ≤ u) :
    c + r' * (x - t) ≤ r * x := by
  have e : (u - t) * (r * x - (c + r' * (x - t)))
      = (u - x) * (r * t - c) + (x - t) * (r * u - (c + r' * (u - t))) := by ring
  have hn : 0 ≤ (u - t) * (r * x - (c + r' * (x - t))) := by
    rw [e]
    exact add_nonneg (mul_nonneg (by linarith) (by linarith)) (mul_nonneg (by linarith) (by linarith))
  have := (mul_nonneg_iff_of_pos_left (sub_pos.2 htu)).1 hn
  linarith

/-- `soliCond` with tolerance `eps ≥ 0`: every comparison against the nominal line `r * x` is
relaxed by `+ eps` on the right-hand side (`ic[0] ≤ 0 + eps`, `ic[k] ≤ r t_{k-1} + eps`,
`ic[k] + r_k (t_k - t_{k-1}) ≤ r t_k + eps`).  The sign condition `0 ≤ r` is NOT relaxed (with a
negative nominal rate `r * x` is unbounded below on piece `0`). -/
def soliCondEps (s : Schedule) (eps : Rat) : Bool :=
  WF s && decide (s.rates.length = 1) && decide (0 ≤ eps) && decide (ic s 0 ≤ 0 + eps) &&
  decide (0 ≤ topRate s) &&
  (List.range ((inner s).length + 1)).all fun k => decide (k = 0) ||
    (decide (ic s k ≤ topRate s * thr s (k - 1) + eps) &&
      if k < (inner s).length then
        decide (ic s k + rate s 0 k * (thr s k - thr s (k - 1)) ≤ topRate s * thr s k + eps)
      else true)

structure SoliEpsProp (s : Schedule) (eps : Rat) : Prop where
  wf : WFProp s
  deg : s.rates.length = 1
  eps_nonneg : 0 ≤ eps
  ic0 : ic s 0 ≤ 0 + eps
  top_nonneg : 0 ≤ topRate s
  lower : ∀ k, 1 ≤ k → k ≤ (inner s).length → ic s k ≤ topRate s * thr s (k - 1) + eps
  upper : ∀ k, 1 ≤ k → k < (inner s).length →
    ic s k + rate s 0 k * (thr s k - thr s (k - 1)) ≤ topRate s * thr s k + eps

theorem soliCondEps_iff (s : Schedule) (eps : Rat) :
    soliCondEps s eps = true ↔ SoliEpsProp s eps := by
  unfold soliCondEps
  simp only [Bool.and_eq_true, decide_eq_true_eq, List.all_eq_true, List.mem_range, WF_iff,
    Bool.or_eq_true]
  constructor
  · rintro ⟨⟨⟨⟨⟨h1, h2⟩, he⟩, h3⟩, h4⟩, h5⟩
    refine ⟨h1, h2, he, h3, h4, fun k hk1 hk => ?_, fun k hk1 hk => ?_⟩
    · exact ((h5 k (by omega)).resolve_left (by omega)).1
    · have := ((h5 k (by omega)).resolve_left (by omega)).2
      simpa [hk] using this
  · rintro ⟨h1, h2, he, h3, h4, h5, h6⟩
    refine ⟨⟨⟨⟨⟨h1, h2⟩, he⟩, h3⟩, h4⟩, fun k hk => ?_⟩
    by_cases hk0 : k = 0
    · exact Or.inl hk0
    · refine Or.inr ⟨h5 k (by omega) (by omega), ?_⟩
      by_cases hkl : k < (inner s).length
      · simpa [hkl] using h6 k (by omega) hkl
      · simp [hkl]

theorem affine_le_of_endpoints_eps {c r' r t u x eps : Rat} (htu : t < u) (h1 : c ≤ r * t + eps)
    (h2 : c + r' * (u - t) ≤ r * u + eps) (htx : t ≤ x) (hxu : x ≤ u) :
    c + r' * (x - t) ≤ r * x + eps := by
  have := affine_le_of_endpoints (c := c - eps) (r' := r') (r := r) htu (by linarith) (by linarith) htx hxu
  linarith

/-! ## parser -/

theorem mapM_ok {α β : Type} (f : α → Except Err β) : ∀ (l : List α) (r : List β),
    l.mapM f = .ok r →
    r.length = l.length ∧ ∀ (i : Nat) a, l[i]? = some a → ∃ b, r[i]? = some b ∧ f a = .ok b := by
  intro l
  induction l with
  | nil =>
    intro r h
    simp [pure, Except.pure] at h
    subst h; simp
  | cons a l ih =>
    intro r h
    rw [List.mapM_cons] at h
    cases hfa : f a with
    | error e => simp [hfa, bind, Except.bind] at h
    | ok b =>
      cases hl : l.mapM f with
      | error e => simp [hfa, hl, bind, Except.bind] at h
      | ok bs =>
        simp [hfa, hl, bind, Except.bind, pure, Except.pure] at h
        subst h
        obtain ⟨h1, h2⟩ := ih bs hl
        refine ⟨by simp [h1], ?_⟩
        intro i a' hi
        cases i with
        | zero => simp at hi; subst hi; exact ⟨b, by simp, hfa⟩
        | succ j => simpa using h2 j a' (by simpa using hi)

theorem mapM_error {α β : Type} (f : α → Except Err β) : ∀ (l : List α) (e : Err),
    l.mapM f = .error e → ∃ a ∈ l, f a = .error e := by
  intro l
  induction l with
  | nil => intro e h; simp [pure, Except.pure] at h
  | cons a l ih =>
    intro e h
    rw [List.mapM_cons] at h
    cases hfa : f a with
    | error e' =>
      simp [hfa, bind, Except.bind] at h
      subst h; exact ⟨a, List.mem_cons_self .., hfa⟩
    | ok b =>
      cases hl : l.mapM f with
      | error e' =>
        simp [hfa, hl, bind, Except.bind] at h
        subst h
        obtain ⟨a', ha', hf⟩ := ih _ hl
        exact ⟨a', List.mem_cons_of_mem _ ha', hf⟩
      | ok bs => simp [hfa, hl, bind, Except.bind, pure, Except.pure] at h

/-- `mapM` over `List.range n` -/
theorem mapM_range_ok {β : Type} (f : Nat → Except Err β) (n : Nat) (r : List β)
    (h : (List.range n).mapM f = .ok r) :
    r.length = n ∧ ∀ i, i < n → ∃ b, r[i]? = some b ∧ f i = .ok b := by
  obtain ⟨h1, h2⟩ := mapM_ok f _ _ h
  refine ⟨by simpa using h1, fun i hi => h2 i i (by simp [hi])⟩

/-- lower threshold of piece `i` as computed by `check_thresholds` -/
def lowerAt (ps : List RawPiece) (lo0 : Ext) (i : Nat) : Except Err Ext :=
  if i = 0 then pure lo0 else
    match (ps.getD i {}).lower, (ps.getD (i - 1) {}).upper with
    | some l, _ => pure l
    | none, some u => pure u
    | none, none => throw Err.valueError

/-- upper threshold of piece `i` as computed by `check_thresholds` -/
def upperAt (ps : List RawPiece) (upN : Ext) (i : Nat) : Except Err Ext :=
  if i = ps.length - 1 then pure upN else
    match (ps.getD i {}).upper, (ps.getD (i + 1) {}).lower with
    | some u, _ => pure u
    | none, some l => pure l
    | none, none => throw Err.valueError

theorem checkThresholds_ok {ps : List RawPiece} {lo up thr : List Ext}
    (h : checkThresholds ps = .ok (lo, up, thr)) :
    ps.length ≠ 0 ∧ (ps.getD 0 {}).lower = some .negInf ∧
    (ps.getD (ps.length - 1) {}).upper = some .posInf ∧
    (List.range ps.length).mapM (lowerAt ps .negInf) = .ok lo ∧
    (List.range ps.length).mapM (upperAt ps .posInf) = .ok up ∧
    lo.drop 1 = up.dropLast ∧ thr = sortExt (.negInf :: up) := by
  unfold checkThresholds at h
  simp only [bind, Except.bind, pure, Except.pure, throw, throwThe, MonadExceptOf.throw] at h
  split at h
  · cases h
  split at h
  rotate_left
  · cases h
  split at h
  rotate_left
  · cases h
  split at h
  · cases h
  rename_i l hl u hu hul
  simp only [Bool.or_eq_true, decide_eq_true_eq, not_or, ne_eq, not_not] at hul
  obtain ⟨rfl, rfl⟩ := hul
  split at h
  · cases h
  split at h
  · cases h
  split at h
  · cases h
  simp only [Except.ok.injEq, Prod.mk.injEq] at h
  obtain ⟨rfl, rfl, rfl⟩ := h
  exact ⟨by assumption, by assumption, by assumption, by assumption, by assumption,
    Decidable.of_not_not (by assumption), rfl⟩

theorem lowerAt_error {ps : List RawPiece} {lo0 : Ext} {i : Nat} {e : Err}
    (h : lowerAt ps lo0 i = .error e) : e = .valueError := by
  unfold lowerAt at h
  split at h
  · cases h
  · split at h <;> first | (cases h; rfl) | cases h

theorem upperAt_error {ps : List RawPiece} {upN : Ext} {i : Nat} {e : Err}
    (h : upperAt ps upN i = .error e) : e = .valueError := by
  unfold upperAt at h
  split at h
  · cases h
  · split at h <;> first | (cases h; rfl) | cases h

theorem checkThresholds_error {ps : List RawPiece} {e : Err}
    (h : checkThresholds ps = .error e) :
    (ps.length = 0 ∧ e = .keyError) ∨ e = .valueError := by
  unfold checkThresholds at h
  simp only [bind, Except.bind, pure, Except.pure, throw, throwThe, MonadExceptOf.throw] at h
  split at h
  · cases h; exact Or.inl ⟨by assumption, rfl⟩
  right
  split at h
  rotate_left
  · cases h; rfl
  split at h
  rotate_left
  · cases h; rfl
  split at h
  · cases h; rfl
  split at h
  · cases h
    rename_i heq
    obtain ⟨a, _, ha⟩ := mapM_error _ _ _ heq
    exact lowerAt_error (ps := ps) (i := a) ha
  split at h
  · cases h
    rename_i heq
    obtain ⟨a, _, ha⟩ := mapM_error _ _ _ heq
    exact upperAt_error (ps := ps) (i := a) ha
  split at h
  · cases h; rfl
  · cases h

theorem insertSorted_le (x y : Ext) (ys : List Ext) (h : Ext.le x y = true) :
    insertSorted x (y :: ys) = x :: y :: ys := by
  simp [insertSorted, h]

theorem sortExt_cons (x : Ext) (l : List Ext) : sortExt (x :: l) = insertSorted x (sortExt l) := rfl

theorem sortExt_tail (ts : List Rat) (h : ts.Pairwise (· < ·)) :
    sortExt (ts.map Ext.fin ++ [Ext.posInf]) = ts.map Ext.fin ++ [Ext.posInf] := by
  induction ts with
  | nil => rfl
  | cons t r ih =>
    have hp := List.pairwise_cons.1 h
    simp only [List.map_cons, List.cons_append, sortExt_cons, ih hp.2]
    cases r with
    | nil => exact insertSorted_le _ _ _ rfl
    | cons t' r' =>
      refine insertSorted_le _ _ _ ?_
      have : t ≤ t' := le_of_lt (hp.1 t' (List.mem_cons_self ..))
      simpa [Ext.le] using this

theorem sortExt_normal (ts : List Rat) (h : ts.Pairwise (· < ·)) :
    sortExt (Ext.negInf :: (ts.map Ext.fin ++ [Ext.posInf]))
      = Ext.negInf :: ts.map Ext.fin ++ [Ext.posInf] := by
  rw [sortExt_cons, sortExt_tail ts h]
  cases ts with
  | nil => rfl
  | cons t r => rfl

theorem mapM_length {α β : Type} {f : α → Except Err β} {l : List α} {r : List β}
    (h : l.mapM f = .ok r) : r.length = l.length := (mapM_ok f l r h).1

theorem checkRates_ok {ps : List RawPiece} {deg : Nat} {rates : List (List Rat)}
    (h : checkRates ps deg = .ok rates) :
    rates.length = deg ∧ (deg = 1 ∨ deg = 2 ∨ deg = 3) ∧
      ∀ row ∈ rates, row.length = ps.length := by
  unfold checkRates at h
  simp only [bind, Except.bind, pure, Except.pure, throw, throwThe, MonadExceptOf.throw] at h
  split at h
  · split at h
    · cases h
    · rename_i hd _ v hv
      cases h
      exact ⟨by simp [hd], Or.inl hd, by simpa using mapM_length hv⟩
  · split at h
    rotate_left
    · cases h
    split at h
    · cases h
    split at h
    · cases h
    rename_i _ hd _ v hv _ w hw
    split at h
    · rename_i hd2
      cases h
      exact ⟨by simp [hd2], Or.inr (Or.inl hd2), by simp [mapM_length hv, mapM_length hw]⟩
    · split at h
      · cases h
      · rename_i hd2 _ u hu
        cases h
        exact ⟨by simp; omega, Or.inr (Or.inr (by omega)),
          by simp [mapM_length hv, mapM_length hw, mapM_length hu]⟩

theorem checkIntercepts_ok {ps : List RawPiece} {lo up : List Ext} {rates : List (List Rat)}
    {icl : List Rat} (h : checkIntercepts ps lo up rates = .ok icl) :
    icl = ps.map (fun p => p.intercept.getD 0) ∨
      ∃ c0, (ps.getD 0 {}).intercept = some c0 ∧ icl = createIntercepts lo up rates c0 := by
  unfold checkIntercepts at h
  simp only [bind, Except.bind, pure, Except.pure, throw, throwThe, MonadExceptOf.throw] at h
  split at h
  rotate_left
  · cases h
  split at h
  · cases h
  split at h
  · cases h; exact Or.inl rfl
  · rename_i c hc _ _
    cases h; exact Or.inr ⟨c, hc, rfl⟩

/-- only the first intercept supplied (and more than one piece) ⟹ intercepts are generated -/
theorem checkIntercepts_generated {ps : List RawPiece} {lo up : List Ext}
    {rates : List (List Rat)} {icl : List Rat} (h : checkIntercepts ps lo up rates = .ok icl)
    (hnone : ((ps.drop 1).filter (·.intercept.isSome)).length = 0) (hlen : ps.length ≠ 1) :
    ∃ c0, (ps.getD 0 {}).intercept = some c0 ∧ icl = createIntercepts lo up rates c0 := by
  unfold checkIntercepts at h
  simp only [bind, Except.bind, pure, Except.pure, throw, throwThe, MonadExceptOf.throw] at h
  split at h
  rotate_left
  · cases h
  split at h
  · cases h
  split at h
  · rename_i heq; omega
  · rename_i c hc _ _
    cases h; exact ⟨c, hc, rfl⟩

theorem parse_ok {ps : List RawPiece} {deg : Nat} {s : Schedule} (h : parse ps deg = .ok s) :
    ∃ lo up thr, checkThresholds ps = .ok (lo, up, thr) ∧
      checkRates ps deg = .ok s.rates ∧
      checkIntercepts ps lo up s.rates = .ok s.intercepts ∧ s.thresholds = thr := by
  unfold parse at h
  simp only [bind, Except.bind, pure, Except.pure] at h
  split at h
  · cases h
  split at h
  · cases h
  split at h
  · cases h
  rename_i v hv _ r hr _ c hc
  cases h
  exact ⟨v.1, v.2.1, v.2.2, hv, hr, hc, rfl⟩

theorem parse_error_of_checkThresholds {ps : List RawPiece} {deg : Nat} {e : Err}
    (h : checkThresholds ps = .error e) : parse ps deg = .error e := by
  unfold parse
  simp only [bind, Except.bind, h]

/-- shape of the threshold lists returned by `checkThresholds` when the upper thresholds are
`ts ++ [+∞]` with `ts` strictly increasing -/
theorem checkThresholds_normal {ps : List RawPiece} {lo up thr : List Ext}
    (h : checkThresholds ps = .ok (lo, up, thr)) {ts : List Rat}
    (hup : up = ts.map Ext.fin ++ [Ext.posInf]) (hts : ts.Pairwise (· < ·)) :
    ps.length = ts.length + 1 ∧ lo = Ext.negInf :: ts.map Ext.fin ∧
      thr = Ext.negInf :: ts.map Ext.fin ++ [Ext.posInf] := by
  obtain ⟨hn, _, _, hlo, hupm, hdrop, hthr⟩ := checkThresholds_ok h
  have hlen : ps.length = ts.length + 1 := by
    have := (mapM_range_ok _ _ _ hupm).1
    rw [hup] at this; simpa using this.symm
  obtain ⟨hl1, hl2⟩ := mapM_range_ok _ _ _ hlo
  obtain ⟨b, hb, hfb⟩ := hl2 0 (by omega)
  have hb' : b = Ext.negInf := by
    simp [lowerAt, pure, Except.pure] at hfb; exact hfb.symm
  subst hb'
  refine ⟨hlen, ?_, ?_⟩
  · cases lo with
    | nil => simp at hb
    | cons a tl =>
      simp at hb; subst hb
      simp only [List.drop_one, List.tail_cons] at hdrop
      rw [hdrop, hup]; simp
  · rw [hthr, hup, sortExt_normal ts hts]

theorem parse_ok_normal {ps : List RawPiece} {deg : Nat} {s : Schedule}
    (h : parse ps deg = .ok s) {lo up thr : List Ext}
    (hct : checkThresholds ps = .ok (lo, up, thr)) {ts : List Rat}
    (hup : up = ts.map Ext.fin ++ [Ext.posInf]) (hts : sortedLt ts = true) :
    WF s = true ∧ s.thresholds = Ext.negInf :: up ∧ inner s = ts ∧
      ps.length = ts.length + 1 ∧ s.rates.length = deg ∧
      (∀ row ∈ s.rates, row.length = ps.length) ∧ s.intercepts.length = ps.length := by
  have hts' := (sortedLt_iff_pairwise ts).1 hts
  obtain ⟨lo', up', thr', hct', hr, hi, hthr⟩ := parse_ok h
  rw [hct] at hct'
  simp only [Except.ok.injEq, Prod.mk.injEq] at hct'
  obtain ⟨rfl, rfl, rfl⟩ := hct'
  obtain ⟨hlen, hlo, hthr'⟩ := checkThresholds_normal hct hup hts'
  obtain ⟨hrl, _, hrows⟩ := checkRates_ok hr
  have hthr2 : s.thresholds = Ext.negInf :: ts.map Ext.fin ++ [Ext.posInf] := by rw [hthr, hthr']
  have hin : inner s = ts := by unfold inner; rw [hthr2, innerOf_normal]
  have hicl : s.intercepts.length = ps.length := by
    rcases checkIntercepts_ok hi with hic | ⟨c0, _, hic⟩
    · rw [hic]; simp
    · rw [hic, hlo, hup, (createIntercepts_normal ts s.rates c0).1, hlen]
  refine ⟨?_, by rw [hthr2, hup]; rfl, hin, hlen, hrl, hrows, hicl⟩
  rw [WF_iff]
  refine ⟨by rw [hin]; exact hthr2, by rw [hin]; exact hts', by rw [hin, hicl, hlen], ?_⟩
  intro row hrow; rw [hin, hrows row hrow, hlen]

/-- if every piece has an explicit upper threshold, `checkThresholds` returns exactly these -/
theorem checkThresholds_uppers_explicit {ps : List RawPiece} {lo up thr : List Ext}
    (h : checkThresholds ps = .ok (lo, up, thr)) {us : List Ext}
    (hus : ps.map (·.upper) = us.map some) : up = us := by
  obtain ⟨hn, _, hlast, _, hupm, _, _⟩ := checkThresholds_ok h
  obtain ⟨hl1, hl2⟩ := mapM_range_ok _ _ _ hupm
  have hlen : us.length = ps.length := by
    have := congrArg List.length hus; simpa using this.symm
  apply List.ext_getElem? 
  intro i
  by_cases hi : i < ps.length
  · obtain ⟨b, hb, hfb⟩ := hl2 i hi
    have hui : (ps.getD i {}).upper = us[i]? := by
      have := congrArg (fun l => l[i]?) hus
      simp only [List.getElem?_map, List.getElem?_eq_getElem hi,
        List.getElem?_eq_getElem (show i < us.length by omega), Option.map_some,
        Option.some.injEq] at this
      rw [List.getD_eq_getElem?_getD, List.getElem?_eq_getElem hi, Option.getD_some, this,
        List.getElem?_eq_getElem (show i < us.length by omega)]
    rw [hb]
    have hus_i : us[i]? = some (us[i]'(by omega)) := List.getElem?_eq_getElem (by omega)
    unfold upperAt at hfb
    split at hfb
    · rename_i hil
      simp only [pure, Except.pure, Except.ok.injEq] at hfb
      subst hfb
      rw [hil] at hui; rw [hil, ← hui, hlast]
    · rw [hui, hus_i] at hfb
      simp only [pure, Except.pure, Except.ok.injEq] at hfb
      rw [hus_i, hfb]
  · rw [List.getElem?_eq_none (by omega), List.getElem?_eq_none (by omega)]

theorem checkThresholds_gap {ps : List RawPiece} {lo up thr : List Ext}
    (h : checkThresholds ps = .ok (lo, up, thr)) {i : Nat} (hi0 : 0 < i) (hi : i < ps.length)
    {l u : Ext} (hl : (ps.getD i {}).lower = some l) (hu : (ps.getD (i - 1) {}).upper = some u) :
    l = u := by
  obtain ⟨_, _, _, hlo, hupm, hdrop, _⟩ := checkThresholds_ok h
  obtain ⟨hl1, hl2⟩ := mapM_range_ok _ _ _ hlo
  obtain ⟨hu1, hu2⟩ := mapM_range_ok _ _ _ hupm
  obtain ⟨b, hb, hfb⟩ := hl2 i hi
  obtain ⟨c, hc, hfc⟩ := hu2 (i - 1) (by omega)
  have hi0' : i ≠ 0 := by omega
  have hne : i - 1 ≠ ps.length - 1 := by omega
  simp only [lowerAt, hi0', if_false, hl, pure, Except.pure, Except.ok.injEq] at hfb
  simp only [upperAt, hne, if_false, hu, pure, Except.pure, Except.ok.injEq] at hfc
  subst hfb; subst hfc
  have h1 : (lo.drop 1)[i - 1]? = some l := by
    rw [List.getElem?_drop, show 1 + (i - 1) = i by omega]; exact hb
  have h2 : (up.dropLast)[i - 1]? = some u := by
    rw [List.dropLast_eq_take, List.getElem?_take_of_lt (by omega)]; exact hc
  rw [hdrop, h2] at h1
  exact (Option.some.inj h1).symm

/-- the loop body of `addProgressionsfaktor` -/
def pfAt (ps : List RawPiece) (lowers uppers : List Ext) (i : Nat) : Except Err RawPiece :=
  let p := ps.getD i {}
  match p.rateQuadratic with
  | some _ => pure p
  | none =>
    match p.rateLinear, (ps[i + 1]?).bind (·.rateLinear) with
    | some r0, some r1 =>
      match lowers.getD i .negInf, uppers.getD i .posInf with
      | .fin l, .fin u =>
        if u - l = 0 then throw Err.zeroDiv
        else pure { p with rateQuadratic := some ((r1 - r0) / (2 * (u - l))) }
      | _, _ => pure { p with rateQuadratic := some 0 }
    | _, _ => throw Err.keyError

theorem addProgressionsfaktor_ok {ps ps' : List RawPiece}
    (h : addProgressionsfaktor ps = .ok ps') :
    ∃ lo up thr, checkThresholds ps = .ok (lo, up, thr) ∧
      (List.range ps.length).mapM (pfAt ps lo up) = .ok ps' := by
  unfold addProgressionsfaktor at h
  simp only [bind, Except.bind] at h
  split at h
  · cases h
  rename_i v hv
  exact ⟨v.1, v.2.1, v.2.2, hv, h⟩

end GV.Piecewise
