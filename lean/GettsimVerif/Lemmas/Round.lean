import GettsimVerif.Core.Round
import Mathlib.Algebra.Order.Field.Rat
import Mathlib.Algebra.Order.AbsoluteValue.Basic
import Mathlib.Tactic.Ring
import Mathlib.Tactic.Linarith
import Mathlib.Tactic.FieldSimp
import Mathlib.Tactic.Positivity
/-!
Helper lemmas for C10 (rounding): bounds on `floor`, `ceil`, `roundHalfEven` as rationals.
-/
namespace GV.Round

theorem floor_le' (q : Rat) : (q.floor : Rat) ≤ q := Rat.floor_le q

theorem lt_floor_add_one' (q : Rat) : q < (q.floor : Rat) + 1 := by
  have := Rat.lt_floor_add_one q
  push_cast at this
  exact this

theorem le_ceil' (q : Rat) : q ≤ (q.ceil : Rat) := Rat.le_ceil

theorem ceil_lt' (q : Rat) : (q.ceil : Rat) < q + 1 := Rat.ceil_lt

/-- `roundHalfEven q` is `floor q` or `floor q + 1`, with the distance to `q` at most 1/2. -/
theorem roundHalfEven_bounds (q : Rat) :
    q - 1/2 ≤ (roundHalfEven q : Rat) ∧ (roundHalfEven q : Rat) ≤ q + 1/2 := by
  have h1 := floor_le' q
  have h2 := lt_floor_add_one' q
  unfold roundHalfEven
  simp only
  split_ifs with a b c
  · constructor <;> linarith
  · push_cast; constructor <;> linarith
  · have : q - (q.floor : Rat) = 1/2 := le_antisymm (not_lt.mp b) (not_lt.mp a)
    constructor <;> linarith
  · have : q - (q.floor : Rat) = 1/2 := le_antisymm (not_lt.mp b) (not_lt.mp a)
    push_cast; constructor <;> linarith

/-- In the tie case the even neighbour is chosen. -/
theorem roundHalfEven_tie_even (q : Rat) (h : q - (q.floor : Rat) = 1/2) :
    roundHalfEven q % 2 = 0 := by
  unfold roundHalfEven
  simp only [h, lt_irrefl, if_false]
  split_ifs with c
  · exact c
  · omega

theorem roundHalfEven_intCast (k : Int) : roundHalfEven (k : Rat) = k := by
  unfold roundHalfEven
  simp only [Rat.floor_intCast, sub_self]
  norm_num

/-- every direction is the identity on integers -/
theorem steps_int (dir : Dir) (k : Int) : steps dir (k : Rat) = k := by
  cases dir
  · exact Rat.ceil_intCast k
  · exact Rat.floor_intCast k
  · exact roundHalfEven_intCast k

/-- `|steps dir q - q| < 1` for every direction -/
theorem steps_bounds (dir : Dir) (q : Rat) :
    q - 1 < (steps dir q : Rat) ∧ (steps dir q : Rat) < q + 1 := by
  cases dir
  · have := le_ceil' q; have := ceil_lt' q
    simp only [steps]; constructor <;> linarith
  · have := floor_le' q; have := lt_floor_add_one' q
    simp only [steps]; constructor <;> linarith
  · have := roundHalfEven_bounds q
    simp only [steps]; constructor <;> linarith

/-- `base * s - x = base * (s - x / base)` -/
theorem roundTo_sub (base off x : Rat) (dir : Dir) (hb : 0 < base) :
    roundTo base dir off x - off - x = base * ((steps dir (x / base) : Rat) - x / base) := by
  unfold roundTo
  field_simp
  ring

end GV.Round
