import GettsimVerif.Lemmas.TimeConv
/-!
Helper lemmas for C13: the name parser and the creation rules for derived nodes.
-/
namespace GV.TimeConv

def TUnit.toChar : TUnit → Char
  | .y => 'y' | .m => 'm' | .w => 'w' | .d => 'd'

theorem toString_toList (t : TUnit) : t.toString.toList = [t.toChar] := by cases t <;> rfl

theorem ofChar?_toChar (t : TUnit) : TUnit.ofChar? t.toChar = some t := by cases t <;> rfl

theorem parseNoAgg_build (bl : List Char) (t : TUnit) :
    parseNoAgg (String.ofList (bl ++ ['_', t.toChar]))
      = some { base := String.ofList (bl ++ ['_']), unit := t, agg := "" } := by
  unfold parseNoAgg
  simp only [String.toList_ofList, List.reverse_append, List.reverse_cons, List.reverse_nil,
    List.nil_append, List.cons_append, ofChar?_toChar, List.reverse_reverse]

theorem stripSuffix?_append (pre suf : List Char) : stripSuffix? (pre ++ suf) suf = some pre := by
  unfold stripSuffix?
  simp

theorem stripSuffix?_eq_some {cs suf pre : List Char} (h : stripSuffix? cs suf = some pre) :
    cs = pre ++ suf := by
  unfold stripSuffix? at h
  split at h
  · rename_i hc
    injection h with h
    rw [← h]
    conv => lhs; rw [← List.take_append_drop (cs.length - suf.length) cs]
    rw [hc.2]
  · cases h

theorem stripSuffix?_eq_none {cs suf : List Char} (h : ∀ pre, cs ≠ pre ++ suf) :
    stripSuffix? cs suf = none := by
  cases hs : stripSuffix? cs suf with
  | none => rfl
  | some pre => exact absurd (stripSuffix?_eq_some hs) (h pre)

theorem suffix_clash (X pre : List Char) (t : TUnit) (g g' : String)
    (hg : g = "" ∨ g ∈ groupSuffixes) (hg' : g' ∈ groupSuffixes) (hne : g' ≠ g) :
    X ++ [t.toChar] ++ g.toList ≠ pre ++ g'.toList := by
  intro h
  have h2 := congrArg List.reverse h
  simp only [List.reverse_append] at h2
  simp only [groupSuffixes, List.mem_cons, List.not_mem_nil, or_false] at hg hg'
  rcases hg with rfl | rfl | rfl | rfl | rfl | rfl | rfl | rfl <;>
  rcases hg' with rfl | rfl | rfl | rfl | rfl | rfl | rfl <;>
  first
  | exact absurd rfl hne
  | (cases t <;> simp [TUnit.toChar] at h2)

/-- the function tried on every group suffix by `parseName` -/
def tryAgg (name : String) (g : String) : Option Parsed :=
  match stripSuffix? name.toList g.toList with
  | some pre =>
    match parseNoAgg (String.ofList pre) with
    | some p => some { p with agg := g }
    | none => none
  | none => none

theorem parseName_eq (name : String) :
    parseName name = match groupSuffixes.findSome? (tryAgg name) with
      | some p => some p
      | none => parseNoAgg name := rfl

theorem findSome?_unique {α β : Type} (f : α → Option β) (l : List α) (a : α) (b : β)
    (ha : a ∈ l) (hfa : f a = some b) (hne : ∀ x ∈ l, x ≠ a → f x = none) :
    l.findSome? f = some b := by
  induction l with
  | nil => cases ha
  | cons x xs ih =>
    by_cases hx : x = a
    · subst hx; simp [hfa]
    · have hx' : f x = none := hne x (List.mem_cons_self) hx
      simp only [List.findSome?_cons, hx']
      refine ih ?_ (fun y hy => hne y (List.mem_cons_of_mem _ hy))
      rcases List.mem_cons.mp ha with h | h
      · exact absurd h.symm hx
      · exact h

theorem name_toList (b : String) (t : TUnit) (g : String) :
    (b ++ "_" ++ t.toString ++ g).toList = (b.toList ++ ['_']) ++ [t.toChar] ++ g.toList := by
  simp only [String.toList_append, toString_toList]
  rfl

theorem tryAgg_other (b : String) (t : TUnit) (g g' : String)
    (hg : g = "" ∨ g ∈ groupSuffixes) (hg' : g' ∈ groupSuffixes) (hne : g' ≠ g) :
    tryAgg (b ++ "_" ++ t.toString ++ g) g' = none := by
  unfold tryAgg
  rw [stripSuffix?_eq_none]
  intro pre
  rw [name_toList]
  exact suffix_clash _ pre t g g' hg hg' hne

theorem tryAgg_self (b : String) (t : TUnit) (g : String) :
    tryAgg (b ++ "_" ++ t.toString ++ g) g = some { base := b ++ "_", unit := t, agg := g } := by
  unfold tryAgg
  rw [name_toList, stripSuffix?_append]
  have : b.toList ++ ['_'] ++ [t.toChar] = b.toList ++ ['_', t.toChar] := by simp
  rw [this]
  simp only
  rw [parseNoAgg_build]
  simp only [String.ofList_append, String.ofList_toList]

theorem parseName_build' (b : String) (t : TUnit) (g : String)
    (hg : g = "" ∨ g ∈ groupSuffixes) :
    parseName (b ++ "_" ++ t.toString ++ g) = some { base := b ++ "_", unit := t, agg := g } := by
  rw [parseName_eq]
  rcases hg with rfl | hg
  · have hnone : groupSuffixes.findSome? (tryAgg (b ++ "_" ++ t.toString ++ "")) = none := by
      rw [List.findSome?_eq_none_iff]
      intro g' hg'
      apply tryAgg_other b t "" g' (Or.inl rfl) hg'
      rintro rfl
      revert hg'; decide
    rw [hnone]
    simp only
    have : b ++ "_" ++ t.toString ++ "" = String.ofList (b.toList ++ ['_', t.toChar]) := by
      apply String.toList_inj.mp
      rw [name_toList]; simp
    rw [this, parseNoAgg_build]
    simp only [String.ofList_append, String.ofList_toList]
  · rw [findSome?_unique (tryAgg _) groupSuffixes g _ hg (tryAgg_self b t g)
      (fun g' hg' hne => tryAgg_other b t g g' (Or.inr hg) hg' hne)]


/-! ### creation of derived nodes -/

theorem mem_upd {res : List Derived} {d e : Derived} (h : e ∈ upd res d) : e ∈ res ∨ e = d := by
  unfold upd at h
  split at h
  · obtain ⟨a, ha, rfl⟩ := List.mem_map.mp h
    split
    · exact Or.inr rfl
    · exact Or.inl ha
  · rcases List.mem_append.mp h with h | h
    · exact Or.inl h
    · exact Or.inr (List.mem_singleton.mp h)

theorem mem_foldl_upd {l res : List Derived} {e : Derived} (h : e ∈ l.foldl upd res) :
    e ∈ res ∨ e ∈ l := by
  induction l generalizing res with
  | nil => exact Or.inl h
  | cons a l ih =>
    rcases ih h with h | h
    · rcases mem_upd h with h | h
      · exact Or.inl h
      · exact Or.inr (h ▸ List.mem_cons_self)
    · exact Or.inr (List.mem_cons_of_mem _ h)

theorem foldl_upd_inv {α : Type} (P : Derived → Prop) (step : α → List Derived) (l : List α)
    (res : List Derived) (hres : ∀ d ∈ res, P d) (hstep : ∀ a ∈ l, ∀ d ∈ step a, P d) :
    ∀ d ∈ l.foldl (fun res a => (step a).foldl upd res) res, P d := by
  induction l generalizing res with
  | nil => exact hres
  | cons a l ih =>
    refine ih _ ?_ (fun b hb => hstep b (List.mem_cons_of_mem _ hb))
    intro d hd
    rcases mem_foldl_upd hd with h | h
    · exact hres d h
    · exact hstep a List.mem_cons_self d h

/-- candidates contributed by one function in the first loop of `create` -/
def step1 (fnames dataCols : List String) (a : String × List String) : List Derived :=
  (derivedOf a.1 a.2).filter fun d => !fnames.contains d.name && !dataCols.contains d.name

/-- candidates contributed by one data column in the second loop of `create` -/
def step2 (dataCols : List String) (n : String) : List Derived :=
  (derivedOf n []).filter fun d => !dataCols.contains d.name

/-- the dictionary after the first loop (over `functions`) of `create` -/
def firstLoop (functions : List (String × List String)) (dataCols : List String) : List Derived :=
  functions.foldl (fun res a => (step1 (functions.map (·.1)) dataCols a).foldl upd res) []

theorem create_eq (functions : List (String × List String)) (dataCols : List String) :
    create functions dataCols
      = dataCols.foldl (fun res n => (step2 dataCols n).foldl upd res)
          (firstLoop functions dataCols) := rfl

theorem firstLoop_inv (functions : List (String × List String)) (dataCols : List String) :
    ∀ d ∈ firstLoop functions dataCols,
      d.name ∉ functions.map (·.1) ∧ d.name ∉ dataCols := by
  apply foldl_upd_inv
  · intro d hd; cases hd
  · intro a _ d hd
    unfold step1 at hd
    have := (List.mem_filter.mp hd).2
    simpa using this

theorem create_inv (functions : List (String × List String)) (dataCols : List String) :
    ∀ d ∈ create functions dataCols, d.name ∉ dataCols := by
  rw [create_eq]
  apply foldl_upd_inv
  · intro d hd; exact (firstLoop_inv functions dataCols d hd).2
  · intro a _ d hd
    unfold step2 at hd
    have := (List.mem_filter.mp hd).2
    simpa using this

theorem mem_derivedOf {n : String} {deps : List String} {d : Derived} (h : d ∈ derivedOf n deps) :
    ∃ p, parseName n = some p ∧ d.v ≠ p.unit ∧ d.u = p.unit ∧ d.src = n ∧
      d.name = p.base ++ d.v.toString ++ p.agg ∧ d.name ∉ deps := by
  unfold derivedOf at h
  split at h
  · cases h
  · rename_i p hp
    refine ⟨p, hp, ?_⟩
    obtain ⟨t, ht, hd⟩ := List.mem_filterMap.mp h
    have ht' : t ≠ p.unit := by simpa using (List.mem_filter.mp ht).2
    simp only at hd
    split at hd
    · cases hd
    · rename_i hc
      injection hd with hd
      subst hd
      refine ⟨ht', rfl, rfl, rfl, ?_⟩
      simpa using hc

end GV.TimeConv
