import GettsimVerif.Core.PEval
import GettsimVerif.Lemmas.Sign
import GettsimVerif.Lemmas.Piecewise
/-
Soundness of the partial evaluation `Core/PEval.lean`: the specialised expression / block /
function has EXACTLY the same result (value or error) as the original one in every environment
that extends the known bindings; the specialised graph has the same node semantics; hence the
sign table computed for the specialised graph is sound for the ORIGINAL graph.
-/
namespace GV.PEval
open GV.Lang GV.Sign

/-! ### environments -/

/-- every binding of `ρ` is also a binding of `env` -/
def Sub (ρ env : Env) : Prop := ∀ n v, ρ.get? n = some v → env.get? n = some v

theorem sub_nil (env : Env) : Sub [] env := by
  intro n v h
  cases h

theorem Env.get?_set (n : String) (v : Val) (x : String) : ∀ (env : Env),
    (env.set n v).get? x = if n = x then some v else env.get? x
  | [] => by simp only [Env.set, Env.get?]
  | (k, w) :: rest => by
    simp only [Env.set]
    by_cases hk : k = n
    · subst hk
      simp only [if_true, Env.get?]
      by_cases hx : k = x
      · simp only [hx, if_true]
      · simp only [hx, if_false]
    · simp only [hk, if_false, Env.get?]
      by_cases hx : k = x
      · subst hx
        simp only [if_true, if_false, Ne.symm hk]
      · simp only [hx, if_false]
        exact Env.get?_set n v x rest

theorem get?_eraseAll (xs : List String) (n : String) : ∀ (ρ : Env),
    (eraseAll ρ xs).get? n = if n ∈ xs then Option.none else ρ.get? n
  | [] => by simp [eraseAll, Env.get?]
  | (k, w) :: rest => by
    have ih := get?_eraseAll xs n rest
    unfold eraseAll at ih ⊢
    by_cases hk : k ∈ xs
    · have : (!(xs.contains (k, w).1)) = false := by simp [hk]
      rw [List.filter_cons_of_neg (by simp [hk]), ih]
      by_cases hn : n ∈ xs
      · simp only [hn, if_true]
      · simp only [hn, if_false, Env.get?]
        have : k ≠ n := fun h => hn (h ▸ hk)
        simp only [this, if_false]
    · rw [List.filter_cons_of_pos (by simp [hk])]
      simp only [Env.get?]
      by_cases hkn : k = n
      · subst hkn
        simp only [if_true, hk, if_false]
      · simp only [hkn, if_false]
        exact ih

theorem sub_eraseAll {ρ env env' : Env} (xs : List String) (h : Sub ρ env)
    (hf : ∀ n, n ∉ xs → env'.get? n = env.get? n) : Sub (eraseAll ρ xs) env' := by
  intro n v hn
  rw [get?_eraseAll] at hn
  by_cases hx : n ∈ xs
  · simp only [hx, if_true] at hn
    cases hn
  · simp only [hx, if_false] at hn
    rw [hf n hx]
    exact h n v hn

/-! ### evaluation is monotone in the environment -/

theorem bind_congr_ok {α β : Type} {x : Except Err α} {a : α} (f : α → Except Err β)
    (h : x = .ok a) : (x >>= f) = f a := by
  subst h
  rfl

mutual
theorem evalExpr_mono {ρ env : Env} (hs : Sub ρ env) :
    ∀ (e : Expr) (w : Val), evalExpr ρ e = .ok w → evalExpr env e = .ok w
  | .const c, w, h => by
    simp only [evalExpr] at h ⊢
    exact h
  | .name n, w, h => by
    simp only [evalExpr] at h ⊢
    cases hn : ρ.get? n with
    | none =>
      rw [hn] at h
      cases h
    | some u =>
      rw [hn] at h
      rw [hs n u hn]
      exact h
  | .bin op a b, w, h => by
    simp only [evalExpr] at h ⊢
    obtain ⟨x, hx, h1⟩ := bind_ok h
    obtain ⟨y, hy, h2⟩ := bind_ok h1
    rw [bind_congr_ok _ (evalExpr_mono hs a x hx), bind_congr_ok _ (evalExpr_mono hs b y hy)]
    exact h2
  | .neg a, w, h => by
    rw [GV.Sym.evalExpr_neg] at h ⊢
    obtain ⟨x, hx, h1⟩ := bind_ok h
    rw [bind_congr_ok _ (evalExpr_mono hs a x hx)]
    exact h1
  | .cmp first rest, w, h => by
    simp only [evalExpr] at h ⊢
    obtain ⟨x, hx, h1⟩ := bind_ok h
    rw [bind_congr_ok _ (evalExpr_mono hs first x hx)]
    exact evalChain_mono hs rest x w h1
  | .boolop isAnd args, w, h => by
    simp only [evalExpr] at h ⊢
    exact evalBool_mono hs isAnd args w h
  | .not a, w, h => by
    simp only [evalExpr] at h ⊢
    obtain ⟨x, hx, h1⟩ := bind_ok h
    rw [bind_congr_ok _ (evalExpr_mono hs a x hx)]
    exact h1
  | .ifexp c a b, w, h => by
    simp only [evalExpr] at h ⊢
    obtain ⟨t, ht, h1⟩ := bind_ok h
    rw [bind_congr_ok _ (evalExpr_mono hs c t ht)]
    split at h1
    · rename_i htr
      rw [if_pos htr]
      exact evalExpr_mono hs a w h1
    · rename_i htr
      rw [if_neg htr]
      exact evalExpr_mono hs b w h1
  | .call f args, w, h => by
    simp only [evalExpr] at h ⊢
    obtain ⟨vs, hvs, h1⟩ := bind_ok h
    rw [bind_congr_ok _ (evalArgs_mono hs args vs hvs)]
    exact h1
  | .mcall _ _, w, h => by
    simp only [evalExpr] at h
    cases h
  | .sub e idx, w, h => by
    simp only [evalExpr] at h ⊢
    obtain ⟨c, hc, h1⟩ := bind_ok h
    obtain ⟨i, hi, h2⟩ := bind_ok h1
    rw [bind_congr_ok _ (evalExpr_mono hs e c hc), bind_congr_ok _ (evalExpr_mono hs idx i hi)]
    exact h2
  | .isIn e items neg, w, h => by
    rw [GV.Sym.evalExpr_isIn] at h ⊢
    obtain ⟨x, hx, h1⟩ := bind_ok h
    obtain ⟨vs, hvs, h2⟩ := bind_ok h1
    rw [bind_congr_ok _ (evalExpr_mono hs e x hx), bind_congr_ok _ (evalArgs_mono hs items vs hvs)]
    exact h2
  | .opaque _, w, h => by
    simp only [evalExpr] at h
    cases h
theorem evalChain_mono {ρ env : Env} (hs : Sub ρ env) :
    ∀ (rest : List (CmpOp × Expr)) (l w : Val), evalChain ρ l rest = .ok w →
      evalChain env l rest = .ok w
  | [], l, w, h => by
    simp only [evalChain] at h ⊢
    exact h
  | (op, e) :: rest, l, w, h => by
    simp only [evalChain] at h ⊢
    obtain ⟨r, hr, h1⟩ := bind_ok h
    obtain ⟨ok, hok, h2⟩ := bind_ok h1
    rw [bind_congr_ok _ (evalExpr_mono hs e r hr), bind_congr_ok _ hok]
    split at h2
    · rename_i hb
      rw [if_pos hb]
      exact evalChain_mono hs rest r w h2
    · rename_i hb
      rw [if_neg hb]
      exact h2
theorem evalBool_mono {ρ env : Env} (hs : Sub ρ env) :
    ∀ (isAnd : Bool) (es : List Expr) (w : Val), evalBool ρ isAnd es = .ok w →
      evalBool env isAnd es = .ok w
  | isAnd, [], w, h => by
    simp only [evalBool] at h ⊢
    exact h
  | isAnd, [e], w, h => by
    simp only [evalBool] at h ⊢
    exact evalExpr_mono hs e w h
  | isAnd, e :: e2 :: rest, w, h => by
    rw [evalBool] at h ⊢
    · obtain ⟨u, hu, h1⟩ := bind_ok h
      rw [bind_congr_ok _ (evalExpr_mono hs e u hu)]
      split at h1
      · rename_i hb
        rw [if_pos hb]
        exact evalBool_mono hs isAnd (e2 :: rest) w h1
      · rename_i hb
        rw [if_neg hb]
        exact h1
    · simp
    · simp
theorem evalArgs_mono {ρ env : Env} (hs : Sub ρ env) :
    ∀ (es : List Expr) (vs : List Val), evalArgs ρ es = .ok vs → evalArgs env es = .ok vs
  | [], vs, h => by
    simp only [evalArgs] at h ⊢
    exact h
  | e :: rest, vs, h => by
    simp only [evalArgs] at h ⊢
    obtain ⟨v, hv, h1⟩ := bind_ok h
    obtain ⟨us, hus, h2⟩ := bind_ok h1
    rw [bind_congr_ok _ (evalExpr_mono hs e v hv), bind_congr_ok _ (evalArgs_mono hs rest us hus)]
    exact h2
end

/-! ### the smart constructors -/

theorem tryFold_sound (env : Env) (e : Expr) : evalExpr env (tryFold e) = evalExpr env e := by
  unfold tryFold
  split
  · rename_i w hw
    rw [evalExpr_mono (sub_nil env) e w hw]
    simp only [evalExpr]
  · rfl

theorem mkIf_sound (env : Env) (c a b : Expr) :
    evalExpr env (mkIf c a b) = evalExpr env (.ifexp c a b) := by
  unfold mkIf
  split
  · rename_i v
    simp only [evalExpr, GV.Sym.ok_bind]
    split <;> rfl
  · rfl

/-! ### schedules that are non-negative everywhere -/

theorem finThr_eq : ∀ (l : List Piecewise.Ext), finThr l = Piecewise.innerOf l
  | [] => rfl
  | .fin q :: r => by simp only [finThr, Piecewise.innerOf, finThr_eq r]
  | .negInf :: r => by simp only [finThr, Piecewise.innerOf, finThr_eq r]
  | .posInf :: r => by simp only [finThr, Piecewise.innerOf, finThr_eq r]

theorem increasing_eq : ∀ (l : List Rat), increasing l = Piecewise.sortedLt l
  | [] => rfl
  | [_] => rfl
  | a :: b :: r => by simp only [increasing, Piecewise.sortedLt, increasing_eq (b :: r)]

theorem foldl_add_nonneg : ∀ (l : List Rat) (acc : Rat), 0 ≤ acc → (∀ a ∈ l, 0 ≤ a) →
    0 ≤ l.foldl (· + ·) acc
  | [], acc, h, _ => h
  | a :: l, acc, h, hl => by
    simp only [List.foldl_cons]
    exact foldl_add_nonneg l (acc + a) (add_nonneg h (hl a List.mem_cons_self))
      (fun b hb => hl b (List.mem_cons_of_mem _ hb))

theorem getD_nonneg {row : List Rat} (h : ∀ q ∈ row, 0 ≤ q) (i : Nat) : 0 ≤ row.getD i 0 := by
  rw [List.getD_eq_getElem?_getD]
  cases hi : row[i]? with
  | none => simp
  | some q =>
    simp only [Option.getD_some]
    exact h q (List.mem_of_getElem? hi)

theorem polyInc_nonneg {rates : List (List Rat)} (h : ∀ row ∈ rates, ∀ q ∈ row, 0 ≤ q) (i : Nat)
    {inc : Rat} (hi : 0 ≤ inc) : 0 ≤ Piecewise.polyInc rates i inc := by
  unfold Piecewise.polyInc
  refine foldl_add_nonneg _ 0 (le_refl 0) ?_
  intro a ha
  simp only [List.mem_map] at ha
  obtain ⟨⟨row, p⟩, hm, rfl⟩ := ha
  have hrow : row ∈ rates := (List.mem_zipIdx' hm).2 ▸ List.getElem_mem _
  exact mul_nonneg (getD_nonneg (h row hrow) i) (pow_nonneg hi _)

/-- a schedule passing the check is non-negative at every `x` -/
theorem pw_eval_nonneg {s : Piecewise.Schedule} (h : pwNonnegChk s = true) (x : Rat) :
    0 ≤ Piecewise.eval s x := by
  unfold pwNonnegChk at h
  simp only [Bool.and_eq_true, decide_eq_true_eq, List.all_eq_true, finThr_eq, increasing_eq] at h
  obtain ⟨⟨⟨⟨⟨h1, h2⟩, h3⟩, h4⟩, h5⟩, h6⟩ := h
  have wf : Piecewise.WFProp s :=
    ⟨h1, (Piecewise.sortedLt_iff_pairwise _).1 h2, h3, h4⟩
  rw [Piecewise.eval_eq_piecePoly wf]
  have hic : ∀ k, 0 ≤ Piecewise.ic s k := fun k => getD_nonneg h5 k
  unfold Piecewise.piecePoly
  split
  · exact hic 0
  · rename_i hk
    have hp := (Piecewise.cnt_inPiece wf.sorted x).2.1 (Nat.pos_of_ne_zero hk)
    refine add_nonneg (hic _) (polyInc_nonneg h6 _ ?_)
    unfold Piecewise.thr
    linarith

theorem evalArgs_two (env : Env) (a b : Expr) :
    evalArgs env [a, b] = (do let v ← evalExpr env a; let w ← evalExpr env b; pure [v, w]) := by
  simp only [evalArgs]
  cases evalExpr env a with
  | error e => rfl
  | ok v =>
    cases evalExpr env b with
    | error e => rfl
    | ok w => rfl

theorem max_zero_of_nonneg {a : Rat} (h : 0 ≤ a) :
    evalCall "max" [.flt a, .flt 0] = .ok (.flt a) := by
  have : ¬ a < 0 := not_lt.2 h
  simp [evalCall, pickExt, evalCmp, ord?, num?, ordLt, this]

/-- a successful `piecewise_polynomial` call returns the value of the schedule -/
theorem evalCall_pw {x t r c v : Val} {s : Piecewise.Schedule} (hs : scheduleOfVal t r c = .ok s)
    (h : evalCall "piecewise_polynomial" [x, t, r, c] = .ok v) :
    ∃ q, v = .flt (Piecewise.eval s q) := by
  simp only [evalCall, hs, GV.Sym.ok_bind] at h
  split at h
  · rename_i q fl _
    simp only [pure, Except.pure, Except.ok.injEq] at h
    exact ⟨q, h.symm⟩
  · cases h

theorem pwWrap_sound (env : Env) {f : String} {args : List Expr} (h : pwWrap? f args = true) :
    evalExpr env (.call "max" [.call f args, .const (.flt 0)]) = evalExpr env (.call f args) := by
  unfold pwWrap? at h
  split at h
  · rename_i hf
    subst hf
    split at h
    · rename_i x t r c
      split at h
      · rename_i s hs
        have key : ∀ v, evalExpr env
            (.call "piecewise_polynomial" [x, .const t, .const r, .const c]) = .ok v →
            evalCall "max" [v, .flt 0] = .ok v := by
          intro v hv
          simp only [evalExpr, evalArgs] at hv
          obtain ⟨vs, hvs, h1⟩ := bind_ok hv
          obtain ⟨vx, _, h2⟩ := bind_ok hvs
          simp only [GV.Sym.ok_bind, pure, Except.pure, Except.ok.injEq] at h2
          subst h2
          obtain ⟨q, rfl⟩ := evalCall_pw hs h1
          exact max_zero_of_nonneg (pw_eval_nonneg h q)
        rw [evalExpr, evalArgs_two]
        cases hc : evalExpr env (.call "piecewise_polynomial" [x, .const t, .const r, .const c]) with
        | error e => rfl
        | ok v =>
          simp only [evalExpr, GV.Sym.ok_bind, pure, Except.pure]
          exact key v hc
      · cases h
    · cases h
  · cases h

theorem mkCall_sound (env : Env) (f : String) (args : List Expr) :
    evalExpr env (mkCall f args) = evalExpr env (.call f args) := by
  unfold mkCall
  split
  · rename_i w hw
    rw [evalExpr_mono (sub_nil env) _ w hw]
    simp only [evalExpr]
  · split
    · rename_i hp
      exact pwWrap_sound env hp
    · rfl

/-! ### expressions -/

theorem evalBool_cons2 (env : Env) (isAnd : Bool) (e e2 : Expr) (rest : List Expr) :
    evalBool env isAnd (e :: e2 :: rest) =
      (do let v ← evalExpr env e
          if truthy v = isAnd then evalBool env isAnd (e2 :: rest) else pure v) := by
  rw [evalBool]
  simp

mutual
theorem peExpr_ok {ρ env : Env} (hs : Sub ρ env) :
    ∀ (e : Expr), evalExpr env (peExpr ρ e) = evalExpr env e
  | .const c => by simp only [peExpr]
  | .name n => by
    simp only [peExpr]
    split
    · rename_i v hv
      simp only [evalExpr, hs n v hv]
    · rfl
  | .bin op a b => by
    simp only [peExpr, tryFold_sound]
    simp only [evalExpr, peExpr_ok hs a, peExpr_ok hs b]
  | .neg a => by
    simp only [peExpr, tryFold_sound]
    rw [GV.Sym.evalExpr_neg, GV.Sym.evalExpr_neg, peExpr_ok hs a]
  | .cmp first rest => by
    simp only [peExpr, tryFold_sound]
    simp only [evalExpr, peExpr_ok hs first, peChain_ok hs rest]
  | .boolop isAnd args => by
    simp only [peExpr, tryFold_sound]
    simp only [evalExpr, peBool_ok hs isAnd args]
  | .not a => by
    simp only [peExpr, tryFold_sound]
    simp only [evalExpr, peExpr_ok hs a]
  | .ifexp c a b => by
    simp only [peExpr, mkIf_sound]
    simp only [evalExpr, peExpr_ok hs c, peExpr_ok hs a, peExpr_ok hs b]
  | .call f args => by
    simp only [peExpr, mkCall_sound]
    simp only [evalExpr, peArgs_ok hs args]
  | .mcall _ _ => by simp only [peExpr]
  | .sub e idx => by
    simp only [peExpr, tryFold_sound]
    simp only [evalExpr, peExpr_ok hs e, peExpr_ok hs idx]
  | .isIn e items neg => by
    simp only [peExpr, tryFold_sound]
    rw [GV.Sym.evalExpr_isIn, GV.Sym.evalExpr_isIn, peExpr_ok hs e, peArgs_ok hs items]
  | .opaque _ => by simp only [peExpr]
theorem peChain_ok {ρ env : Env} (hs : Sub ρ env) :
    ∀ (rest : List (CmpOp × Expr)) (l : Val),
      evalChain env l (peChain ρ rest) = evalChain env l rest
  | [] => by
    intro l
    simp only [peChain]
  | (op, e) :: rest => by
    intro l
    simp only [peChain, evalChain, peExpr_ok hs e, peChain_ok hs rest]
theorem peBool_ok {ρ env : Env} (hs : Sub ρ env) :
    ∀ (isAnd : Bool) (es : List Expr), evalBool env isAnd (peArgs ρ es) = evalBool env isAnd es
  | isAnd, [] => by simp only [peArgs]
  | isAnd, [e] => by simp only [peArgs, evalBool, peExpr_ok hs e]
  | isAnd, e :: e2 :: rest => by
    have ih := peBool_ok hs isAnd (e2 :: rest)
    simp only [peArgs] at ih ⊢
    rw [evalBool_cons2, evalBool_cons2, ih, peExpr_ok hs e]
theorem peArgs_ok {ρ env : Env} (hs : Sub ρ env) :
    ∀ (es : List Expr), evalArgs env (peArgs ρ es) = evalArgs env es
  | [] => by simp only [peArgs]
  | e :: rest => by simp only [peArgs, evalArgs, peExpr_ok hs e, peArgs_ok hs rest]
end

/-! ### statements: the frame property and soundness -/

mutual
/-- a statement changes only the names it assigns -/
theorem execStmt_frame : ∀ (s : Stmt) (env env' : Env) (r : Option Val),
    execStmt env s = .ok (env', r) → ∀ n, n ∉ assignedStmt s → env'.get? n = env.get? n
  | .assign x e, env, env', r, h => by
    intro n hn
    simp only [execStmt] at h
    obtain ⟨v, _, h1⟩ := bind_ok h
    simp only [pure, Except.pure, Except.ok.injEq, Prod.mk.injEq] at h1
    obtain ⟨rfl, rfl⟩ := h1
    simp only [assignedStmt, List.mem_singleton] at hn
    rw [Env.get?_set, if_neg (fun h => hn h.symm)]
  | .aug x op e, env, env', r, h => by
    intro n hn
    simp only [execStmt] at h
    cases hx : env.get? x with
    | none =>
      rw [hx] at h
      cases h
    | some old =>
      rw [hx] at h
      simp only [pure, Except.pure, GV.Sym.ok_bind] at h
      obtain ⟨v, _, h1⟩ := bind_ok h
      obtain ⟨res, _, h2⟩ := bind_ok h1
      simp only [Except.ok.injEq, Prod.mk.injEq] at h2
      obtain ⟨rfl, rfl⟩ := h2
      simp only [assignedStmt, List.mem_singleton] at hn
      rw [Env.get?_set, if_neg (fun h => hn h.symm)]
  | .ret e, env, env', r, h => by
    intro n _
    simp only [execStmt] at h
    obtain ⟨v, _, h1⟩ := bind_ok h
    simp only [pure, Except.pure, Except.ok.injEq, Prod.mk.injEq] at h1
    obtain ⟨rfl, rfl⟩ := h1
    rfl
  | .ite c body orelse, env, env', r, h => by
    intro n hn
    simp only [execStmt] at h
    obtain ⟨tv, _, h1⟩ := bind_ok h
    simp only [assignedStmt, List.mem_append, not_or] at hn
    split at h1
    · exact execBlock_frame body env env' r h1 n hn.1
    · exact execBlock_frame orelse env env' r h1 n hn.2
  | .expr _, env, env', r, h => by
    intro n _
    simp only [execStmt, pure, Except.pure, Except.ok.injEq, Prod.mk.injEq] at h
    obtain ⟨rfl, rfl⟩ := h
    rfl
  | .other _, env, env', r, h => by
    simp only [execStmt] at h
    cases h
theorem execBlock_frame : ∀ (b : List Stmt) (env env' : Env) (r : Option Val),
    execBlock env b = .ok (env', r) → ∀ n, n ∉ assignedIn b → env'.get? n = env.get? n
  | [], env, env', r, h => by
    intro n _
    simp only [execBlock, Except.ok.injEq, Prod.mk.injEq] at h
    obtain ⟨rfl, rfl⟩ := h
    rfl
  | s :: rest, env, env', r, h => by
    intro n hn
    simp only [execBlock] at h
    obtain ⟨⟨env1, r1⟩, h1, h2⟩ := bind_ok h
    simp only [assignedIn, List.mem_append, not_or] at hn
    have f1 := execStmt_frame s env env1 r1 h1 n hn.1
    cases r1 with
    | some v =>
      simp only [pure, Except.pure, Except.ok.injEq, Prod.mk.injEq] at h2
      obtain ⟨rfl, rfl⟩ := h2
      exact f1
    | none =>
      simp only at h2
      rw [execBlock_frame rest env1 env' r h2 n hn.2, f1]
end

mutual
theorem peStmt_ok : ∀ (s : Stmt) (ρ env : Env), Sub ρ env →
    execStmt env (peStmt ρ s) = execStmt env s
  | .assign x e, ρ, env, hs => by simp only [peStmt, execStmt, peExpr_ok hs e]
  | .aug x op e, ρ, env, hs => by simp only [peStmt, execStmt, peExpr_ok hs e]
  | .ret e, ρ, env, hs => by simp only [peStmt, execStmt, peExpr_ok hs e]
  | .ite c body orelse, ρ, env, hs => by
    simp only [peStmt, execStmt, peExpr_ok hs c, peBlock_ok body ρ env hs,
      peBlock_ok orelse ρ env hs]
  | .expr _, ρ, env, hs => by simp only [peStmt]
  | .other _, ρ, env, hs => by simp only [peStmt]
theorem peBlock_ok : ∀ (b : List Stmt) (ρ env : Env), Sub ρ env →
    execBlock env (peBlock ρ b) = execBlock env b
  | [], ρ, env, hs => by simp only [peBlock]
  | s :: rest, ρ, env, hs => by
    simp only [peBlock, execBlock, peStmt_ok s ρ env hs]
    cases hr : execStmt env s with
    | error e => rfl
    | ok p =>
      obtain ⟨env1, r1⟩ := p
      simp only [GV.Sym.ok_bind]
      cases r1 with
      | some v => rfl
      | none =>
        simp only
        exact peBlock_ok rest _ env1
          (sub_eraseAll _ hs (execStmt_frame s env env1 Option.none hr))
end

/-! ### functions -/

theorem peFun_ok {ρ : Env} {f : FunDef} {args : List Val} (hs : Sub ρ (f.args.zip args)) :
    runFun (peFun ρ f) args = runFun f args := by
  simp only [runFun, peFun, peBlock_ok f.body ρ _ hs]

/-! ### graphs -/

theorem get?_mem : ∀ {ρ : Env} {n : String} {v : Val}, ρ.get? n = some v → (n, v) ∈ ρ
  | [], n, v, h => by cases h
  | (k, w) :: rest, n, v, h => by
    simp only [Env.get?] at h
    split at h
    · rename_i hk
      subst hk
      cases h
      exact List.mem_cons_self
    · exact List.mem_cons_of_mem _ (get?_mem h)

/-- the bindings made by `bindConsts` are bindings of the call environment of `runFun` -/
theorem bindConsts_sub {consts : Env} {val : String → Val}
    (hc : ∀ c v, (c, v) ∈ consts → val c = v) :
    ∀ (fs as : List String), Sub (bindConsts consts fs as) (fs.zip (as.map val))
  | [], _ => by
    intro n v h
    simp only [bindConsts] at h
    cases h
  | _ :: _, [] => by
    intro n v h
    simp only [bindConsts] at h
    cases h
  | f :: fs, a :: as => by
    intro n v h
    have ih := bindConsts_sub hc fs as
    simp only [bindConsts] at h
    simp only [List.map_cons, List.zip_cons_cons, Env.get?]
    cases hca : consts.get? a with
    | some u =>
      rw [hca] at h
      simp only [Env.get?] at h
      by_cases hf : f = n
      · simp only [hf, if_true] at h ⊢
        rw [hc a u (get?_mem hca)]
        exact h
      · simp only [hf, if_false] at h ⊢
        exact ih n v h
    | none =>
      rw [hca] at h
      simp only at h
      rw [get?_eraseAll] at h
      by_cases hf : f = n
      · subst hf
        simp at h
      · have : n ∉ [f] := by simpa using fun h' => hf h'.symm
        simp only [this, if_false] at h
        simp only [hf, if_false]
        exact ih n v h

/-- the node semantics of a node and of its specialisation are the same -/
theorem peNode_sem {ρ : Type} {val : ρ → String → Val} {consts : Env}
    (hc : ∀ c v, (c, v) ∈ consts → ∀ r, val r c = v) (n : GNode) :
    NodeSem val (peNode consts n) ↔ NodeSem val n := by
  obtain ⟨name, kind⟩ := n
  cases kind with
  | rule fn argNames =>
    simp only [peNode, NodeSem]
    constructor
    · intro h r
      rw [← peFun_ok (bindConsts_sub (fun c v hm => hc c v hm r) fn.args argNames)]
      exact h r
    · intro h r
      rw [peFun_ok (bindConsts_sub (fun c v hm => hc c v hm r) fn.args argNames)]
      exact h r
  | _ => exact Iff.rfl

theorem peGraph_sem_iff {ρ : Type} {val : ρ → String → Val} {consts : Env}
    (hc : ∀ c v, (c, v) ∈ consts → ∀ r, val r c = v) (nodes : List GNode) :
    (∀ n ∈ peGraph consts nodes, NodeSem val n) ↔ (∀ n ∈ nodes, NodeSem val n) := by
  simp only [peGraph, List.mem_map, forall_exists_index, and_imp]
  constructor
  · intro h n hn
    exact (peNode_sem hc n).1 (h _ n hn rfl)
  · intro h m n hn hm
    subst hm
    exact (peNode_sem hc n).2 (h n hn)

end GV.PEval
