import GettsimVerif.Lemmas.Groupings
/-
Corollaries of the partition specifications of the group-id constructors: row forms of the
specifications, row-order independence, separability (union of pointer-closed tables), relabelling,
nesting (helpers for `Props/C12Cor.lean`).
-/
namespace GV.Groupings

/-! ### generic list helpers -/

theorem zip_map_fst_snd' {α β : Type} (rows : List (α × β)) :
    (rows.map (·.1)).zip (rows.map (·.2)) = rows := by
  induction rows with
  | nil => rfl
  | cons r rows ih => simp [ih]

theorem nodup_getElem_inj {α β : Type} {f : α → β} {l : List α} (hn : (l.map f).Nodup)
    {i j : Nat} (hi : i < l.length) (hj : j < l.length) : f l[i] = f l[j] ↔ i = j := by
  constructor
  · intro e
    have h2 : (l.map f)[i]'(by simpa using hi) = (l.map f)[j]'(by simpa using hj) := by
      simpa using e
    exact (List.getElem_inj hn).mp h2
  · rintro rfl; rfl

/-! ### eg_id / ehe_id: row form -/

/-- `pairId` applied to a list of rows `(p_id, partner pointer)`. -/
def pairIdRows (rows : List (Int × Int)) : List Int :=
  pairId (rows.map (·.1)) (rows.map (·.2))

/-- the relation "same row or `x` points to `y`" between rows `(p_id, pointer)` -/
def PairSame (x y : Int × Int) : Prop := x.1 = y.1 ∨ x.2 = y.1

instance (x y : Int × Int) : Decidable (PairSame x y) := by unfold PairSame; infer_instance

theorem pairIdRows_length (rows : List (Int × Int)) : (pairIdRows rows).length = rows.length := by
  simp [pairIdRows, pairId_length']

theorem ValidRows.toPairs {rows : List (Int × Int)} (hv : ValidRows rows) :
    ValidPairs (rows.map (·.1)) (rows.map (·.2)) := by
  refine ⟨by simp, hv.nodup, ?_, ?_, ?_, ?_⟩
  · intro p hp
    obtain ⟨r, hr, rfl⟩ := List.mem_map.mp hp
    exact hv.nonneg r hr
  · intro i h
    have hi : i < rows.length := by simpa using h
    by_cases h0 : rows[i].2 < 0
    · left; simpa using h0
    · right
      have hm := hv.symm rows[i] (List.getElem_mem hi) (by omega)
      obtain ⟨j, hj, e⟩ := List.getElem_of_mem hm
      exact ⟨j, by simpa using hj, by simp [e]⟩
  · intro i h
    have hi : i < rows.length := by simpa using h
    simpa using hv.noself rows[i] (List.getElem_mem hi)
  · intro i h j h' e
    have hi : i < rows.length := by simpa using h
    have hj : j < rows.length := by simpa using h'
    simp only [List.getElem_map] at e ⊢
    have h0 : 0 ≤ rows[i].2 := by rw [e]; exact hv.nonneg _ (List.getElem_mem hj)
    have hm := hv.symm rows[i] (List.getElem_mem hi) h0
    have hm' : (rows[i].2, rows[j].2) ∈ rows := by rw [e]; exact List.getElem_mem hj
    exact nodup_fst_unique hv.nodup hm' hm

theorem validRows_iff {rows : List (Int × Int)} :
    ValidRows rows ↔ ValidPairs (rows.map (·.1)) (rows.map (·.2)) :=
  ⟨ValidRows.toPairs, fun h => by simpa [zip_map_fst_snd'] using h.toRows⟩

/-- row form of `pairId_spec` -/
theorem pairIdRows_spec {rows : List (Int × Int)} (hv : ValidRows rows) {i j : Nat}
    (hi : i < rows.length) (hj : j < rows.length) :
    (pairIdRows rows)[i]'(by rw [pairIdRows_length]; exact hi) =
      (pairIdRows rows)[j]'(by rw [pairIdRows_length]; exact hj) ↔ PairSame rows[i] rows[j] := by
  have h := pairId_spec_idx hv.toPairs (i := i) (j := j) (by simpa using hi) (by simpa using hj)
  simp only [List.getElem_map] at h
  unfold pairIdRows PairSame
  rw [h, nodup_getElem_inj hv.nodup hi hj]

theorem ValidRows.perm {rows rows' : List (Int × Int)} (hp : rows.Perm rows')
    (hv : ValidRows rows) : ValidRows rows' := by
  have hm : ∀ r, r ∈ rows ↔ r ∈ rows' := fun r => hp.mem_iff
  constructor
  · exact (hp.map _).nodup_iff.mp hv.nodup
  · intro r hr; exact hv.nonneg r ((hm r).mpr hr)
  · intro r hr; exact hv.noself r ((hm r).mpr hr)
  · intro r hr h0; exact (hm _).mp (hv.symm r ((hm r).mpr hr) h0)

/-- "A is closed": no pointer of an `A`-row is the p_id of a `B`-row. -/
def PairClosed (A B : List (Int × Int)) : Prop := ∀ a ∈ A, ∀ b ∈ B, a.2 ≠ b.1

instance (A B : List (Int × Int)) : Decidable (PairClosed A B) := by
  unfold PairClosed; infer_instance

theorem ValidRows.of_append_left {A B : List (Int × Int)} (hv : ValidRows (A ++ B))
    (hc : PairClosed A B) : ValidRows A := by
  constructor
  · have := hv.nodup
    rw [List.map_append] at this
    exact (List.nodup_append.mp this).1
  · intro r hr; exact hv.nonneg r (List.mem_append_left _ hr)
  · intro r hr; exact hv.noself r (List.mem_append_left _ hr)
  · intro r hr h0
    rcases List.mem_append.mp (hv.symm r (List.mem_append_left _ hr) h0) with h | h
    · exact h
    · exact absurd rfl (hc r hr _ h)

/-! ### relabelling of person ids -/

/-- `ρ` is an admissible relabelling of the ids and pointers in `ids`: negative values ("no
pointer") stay negative, non-negative ids stay non-negative and are mapped injectively. -/
structure RelabelOn (ρ : Int → Int) (ids : List Int) : Prop where
  neg : ∀ x ∈ ids, x < 0 → ρ x < 0
  nonneg : ∀ x ∈ ids, 0 ≤ x → 0 ≤ ρ x
  inj : ∀ x ∈ ids, ∀ y ∈ ids, 0 ≤ x → 0 ≤ y → ρ x = ρ y → x = y

theorem RelabelOn.eq_iff {ρ : Int → Int} {ids : List Int} (h : RelabelOn ρ ids) {x y : Int}
    (hx : x ∈ ids) (hy : y ∈ ids) (h0 : 0 ≤ y) : ρ x = ρ y ↔ x = y := by
  constructor
  · intro e
    by_cases hx0 : x < 0
    · have := h.neg x hx hx0
      have := h.nonneg y hy h0
      omega
    · exact h.inj x hx y hy (by omega) h0 e
  · rintro rfl; rfl

theorem RelabelOn.nonneg_iff {ρ : Int → Int} {ids : List Int} (h : RelabelOn ρ ids) {x : Int}
    (hx : x ∈ ids) : 0 ≤ ρ x ↔ 0 ≤ x := by
  constructor
  · intro h0
    by_cases hx0 : x < 0
    · have := h.neg x hx hx0; omega
    · omega
  · exact h.nonneg x hx

theorem RelabelOn.mono {ρ : Int → Int} {ids ids' : List Int} (h : RelabelOn ρ ids)
    (hs : ∀ x ∈ ids', x ∈ ids) : RelabelOn ρ ids' :=
  ⟨fun x hx => h.neg x (hs x hx), fun x hx => h.nonneg x (hs x hx),
    fun x hx y hy => h.inj x (hs x hx) y (hs y hy)⟩

theorem nodup_map_of_injOn {α β : Type} {f : α → β} {l : List α} (hn : l.Nodup)
    (hinj : ∀ a ∈ l, ∀ b ∈ l, f a = f b → a = b) : (l.map f).Nodup := by
  rw [List.nodup_iff_pairwise_ne, List.pairwise_map]
  rw [List.nodup_iff_pairwise_ne] at hn
  exact hn.imp_of_mem (fun ha hb hne e => hne (hinj _ ha _ hb e))

/-- relabel a row `(p_id, pointer)` -/
def pairRelabel (ρ : Int → Int) (r : Int × Int) : Int × Int := (ρ r.1, ρ r.2)

/-- the ids and pointers occurring in a table of rows `(p_id, pointer)` -/
def pairIds (rows : List (Int × Int)) : List Int := rows.map (·.1) ++ rows.map (·.2)

theorem mem_pairIds_fst {rows : List (Int × Int)} {r : Int × Int} (h : r ∈ rows) :
    r.1 ∈ pairIds rows := List.mem_append_left _ (List.mem_map_of_mem h)

theorem mem_pairIds_snd {rows : List (Int × Int)} {r : Int × Int} (h : r ∈ rows) :
    r.2 ∈ pairIds rows := List.mem_append_right _ (List.mem_map_of_mem h)

theorem pairSame_relabel {ρ : Int → Int} {rows : List (Int × Int)} (hv : ValidRows rows)
    (hρ : RelabelOn ρ (pairIds rows)) {x y : Int × Int} (hx : x ∈ rows) (hy : y ∈ rows) :
    PairSame (pairRelabel ρ x) (pairRelabel ρ y) ↔ PairSame x y := by
  unfold PairSame pairRelabel
  simp only
  rw [hρ.eq_iff (mem_pairIds_fst hx) (mem_pairIds_fst hy) (hv.nonneg y hy),
    hρ.eq_iff (mem_pairIds_snd hx) (mem_pairIds_fst hy) (hv.nonneg y hy)]

theorem ValidRows.relabel {ρ : Int → Int} {rows : List (Int × Int)} (hv : ValidRows rows)
    (hρ : RelabelOn ρ (pairIds rows)) : ValidRows (rows.map (pairRelabel ρ)) := by
  constructor
  · rw [List.map_map]
    have : (Prod.fst ∘ pairRelabel ρ) = (ρ ∘ Prod.fst) := rfl
    rw [this, ← List.map_map]
    refine nodup_map_of_injOn hv.nodup ?_
    intro a ha b hb e
    obtain ⟨x, hx, rfl⟩ := List.mem_map.mp ha
    obtain ⟨y, hy, rfl⟩ := List.mem_map.mp hb
    exact (hρ.eq_iff (mem_pairIds_fst hx) (mem_pairIds_fst hy) (hv.nonneg y hy)).mp e
  · intro r hr
    obtain ⟨x, hx, rfl⟩ := List.mem_map.mp hr
    exact hρ.nonneg _ (mem_pairIds_fst hx) (hv.nonneg x hx)
  · intro r hr
    obtain ⟨x, hx, rfl⟩ := List.mem_map.mp hr
    intro e
    exact hv.noself x hx
      ((hρ.eq_iff (mem_pairIds_snd hx) (mem_pairIds_fst hx) (hv.nonneg x hx)).mp e)
  · intro r hr h0
    obtain ⟨x, hx, rfl⟩ := List.mem_map.mp hr
    have h0' : 0 ≤ x.2 := (hρ.nonneg_iff (mem_pairIds_snd hx)).mp h0
    exact List.mem_map.mpr ⟨_, hv.symm x hx h0', rfl⟩

/-! ### sn_id: row form -/

/-- `snId` applied to a list of rows `(p_id, spouse pointer, joint-assessment flag)`. -/
def snIdRows (rows : List (Int × Int × Bool)) : Except Err (List Int) :=
  snId (rows.map (·.1)) (rows.map (·.2.1)) (rows.map (·.2.2))

/-- same row, or `x` points to `y` and is jointly assessed -/
def SnSame (x y : Int × Int × Bool) : Prop := x.1 = y.1 ∨ (x.2.1 = y.1 ∧ x.2.2 = true)

instance (x y : Int × Int × Bool) : Decidable (SnSame x y) := by unfold SnSame; infer_instance

instance (rows : List (Int × Int × Bool)) : Decidable (SnAgree rows) := by
  unfold SnAgree; infer_instance

theorem zip3_map {α β γ : Type} (rows : List (α × β × γ)) :
    (rows.map (·.1)).zip ((rows.map (·.2.1)).zip (rows.map (·.2.2))) = rows := by
  induction rows with
  | nil => rfl
  | cons r rows ih => simp [ih]

theorem snIdRows_eq (rows : List (Int × Int × Bool)) :
    snIdRows rows =
      match rows.foldlM snStep {} with
      | .ok s => .ok s.res.reverse
      | .error e => .error e := by
  rw [snIdRows, snId_eq, zip3_map] <;> rfl

/-- row form of `snId_spec` -/
theorem snIdRows_spec {rows : List (Int × Int × Bool)} (hv : ValidRows3 rows)
    (hag : SnAgree rows) :
    ∃ res, snIdRows rows = .ok res ∧ ∃ hl : res.length = rows.length,
      ∀ i (hi : i < rows.length) j (hj : j < rows.length),
        res[i] = res[j] ↔ SnSame rows[i] rows[j] := by
  rcases snInv_foldlM hv rows [] (by simp) with ⟨s, hs, inv, ha⟩ | ⟨_, hna⟩
  · have hl : s.res.reverse.length = rows.length := by simp [inv.len]
    refine ⟨s.res.reverse, by rw [snIdRows_eq, hs], hl, ?_⟩
    intro i hi j hj
    have tag : ∀ k (hk : k < rows.length),
        ((rows[k].1, rows[k].2.1, rows[k].2.2), s.res.reverse[k]) ∈ snTag rows s := by
      intro k hk
      refine List.mem_iff_getElem.mpr ⟨k, by simp [snTag, inv.len]; exact hk, ?_⟩
      simp [snTag]
    exact sn_spec_mem hv inv ha (tag i hi) (tag j hj)
  · exact absurd hag hna

/-- row form of `snId_error_iff` -/
theorem snIdRows_error_iff {rows : List (Int × Int × Bool)} (hv : ValidRows3 rows) :
    snIdRows rows = .error .valueError ↔ ¬ SnAgree rows := by
  rw [snIdRows_eq]
  rcases snInv_foldlM hv rows [] (by simp) with ⟨s, hs, inv, ha⟩ | ⟨he, hna⟩
  · rw [hs]; simp [ha]
  · rw [he]; simp [hna]

/-- under validity `snIdRows` either succeeds or raises the ValueError -/
theorem snIdRows_ok_or_valueError {rows : List (Int × Int × Bool)} (hv : ValidRows3 rows) :
    (∃ res, snIdRows rows = .ok res) ∨ snIdRows rows = .error .valueError := by
  rw [snIdRows_eq]
  rcases snInv_foldlM hv rows [] (by simp) with ⟨s, hs, inv, ha⟩ | ⟨he, hna⟩
  · rw [hs]; exact Or.inl ⟨_, rfl⟩
  · rw [he]; exact Or.inr rfl

theorem ValidRows3.perm {rows rows' : List (Int × Int × Bool)} (hp : rows.Perm rows')
    (hv : ValidRows3 rows) : ValidRows3 rows' := by
  have hm : ∀ r, r ∈ rows ↔ r ∈ rows' := fun r => hp.mem_iff
  constructor
  · exact (hp.map _).nodup_iff.mp hv.nodup
  · intro r hr; exact hv.nonneg r ((hm r).mpr hr)
  · intro r hr; exact hv.noself r ((hm r).mpr hr)
  · intro r hr h0
    obtain ⟨b, hb⟩ := hv.symm r ((hm r).mpr hr) h0
    exact ⟨b, (hm _).mp hb⟩

theorem SnAgree.perm_iff {rows rows' : List (Int × Int × Bool)} (hp : rows.Perm rows') :
    SnAgree rows ↔ SnAgree rows' := by
  simp only [SnAgree, hp.mem_iff]

/-- "A is closed": no spouse pointer of an `A`-row is the p_id of a `B`-row. -/
def SnClosed (A B : List (Int × Int × Bool)) : Prop := ∀ a ∈ A, ∀ b ∈ B, a.2.1 ≠ b.1

instance (A B : List (Int × Int × Bool)) : Decidable (SnClosed A B) := by
  unfold SnClosed; infer_instance

theorem ValidRows3.of_append_left {A B : List (Int × Int × Bool)} (hv : ValidRows3 (A ++ B))
    (hc : SnClosed A B) : ValidRows3 A := by
  constructor
  · have := hv.nodup
    rw [List.map_append] at this
    exact (List.nodup_append.mp this).1
  · intro r hr; exact hv.nonneg r (List.mem_append_left _ hr)
  · intro r hr; exact hv.noself r (List.mem_append_left _ hr)
  · intro r hr h0
    obtain ⟨b, hb⟩ := hv.symm r (List.mem_append_left _ hr) h0
    rcases List.mem_append.mp hb with h | h
    · exact ⟨b, h⟩
    · exact absurd rfl (hc r hr _ h)

theorem SnAgree.of_append_left {A B : List (Int × Int × Bool)} (h : SnAgree (A ++ B)) :
    SnAgree A :=
  fun x hx y hy => h x (List.mem_append_left _ hx) y (List.mem_append_left _ hy)

/-- relabel a row `(p_id, pointer, flag)` -/
def snRelabel (ρ : Int → Int) (r : Int × Int × Bool) : Int × Int × Bool := (ρ r.1, ρ r.2.1, r.2.2)

/-- the ids and pointers occurring in a table of rows `(p_id, pointer, flag)` -/
def snIds (rows : List (Int × Int × Bool)) : List Int := rows.map (·.1) ++ rows.map (·.2.1)

theorem mem_snIds_fst {rows : List (Int × Int × Bool)} {r : Int × Int × Bool} (h : r ∈ rows) :
    r.1 ∈ snIds rows := List.mem_append_left _ (List.mem_map_of_mem h)

theorem mem_snIds_snd {rows : List (Int × Int × Bool)} {r : Int × Int × Bool} (h : r ∈ rows) :
    r.2.1 ∈ snIds rows := List.mem_append_right _ (List.mem_map_of_mem h)

theorem snSame_relabel {ρ : Int → Int} {rows : List (Int × Int × Bool)} (hv : ValidRows3 rows)
    (hρ : RelabelOn ρ (snIds rows)) {x y : Int × Int × Bool} (hx : x ∈ rows) (hy : y ∈ rows) :
    SnSame (snRelabel ρ x) (snRelabel ρ y) ↔ SnSame x y := by
  unfold SnSame snRelabel
  simp only
  rw [hρ.eq_iff (mem_snIds_fst hx) (mem_snIds_fst hy) (hv.nonneg y hy),
    hρ.eq_iff (mem_snIds_snd hx) (mem_snIds_fst hy) (hv.nonneg y hy)]

theorem ValidRows3.relabel {ρ : Int → Int} {rows : List (Int × Int × Bool)} (hv : ValidRows3 rows)
    (hρ : RelabelOn ρ (snIds rows)) : ValidRows3 (rows.map (snRelabel ρ)) := by
  constructor
  · rw [List.map_map]
    have : (Prod.fst ∘ snRelabel ρ) = (ρ ∘ Prod.fst) := rfl
    rw [this, ← List.map_map]
    refine nodup_map_of_injOn hv.nodup ?_
    intro a ha b hb e
    obtain ⟨x, hx, rfl⟩ := List.mem_map.mp ha
    obtain ⟨y, hy, rfl⟩ := List.mem_map.mp hb
    exact (hρ.eq_iff (mem_snIds_fst hx) (mem_snIds_fst hy) (hv.nonneg y hy)).mp e
  · intro r hr
    obtain ⟨x, hx, rfl⟩ := List.mem_map.mp hr
    exact hρ.nonneg _ (mem_snIds_fst hx) (hv.nonneg x hx)
  · intro r hr
    obtain ⟨x, hx, rfl⟩ := List.mem_map.mp hr
    intro e
    exact hv.noself x hx
      ((hρ.eq_iff (mem_snIds_snd hx) (mem_snIds_fst hx) (hv.nonneg x hx)).mp e)
  · intro r hr h0
    obtain ⟨x, hx, rfl⟩ := List.mem_map.mp hr
    have h0' : 0 ≤ x.2.1 := (hρ.nonneg_iff (mem_snIds_snd hx)).mp h0
    obtain ⟨b, hb⟩ := hv.symm x hx h0'
    exact ⟨b, List.mem_map.mpr ⟨_, hb, rfl⟩⟩

theorem SnAgree.relabel_iff {ρ : Int → Int} {rows : List (Int × Int × Bool)}
    (hρ : RelabelOn ρ (snIds rows)) : SnAgree (rows.map (snRelabel ρ)) ↔ SnAgree rows := by
  unfold SnAgree
  constructor
  · intro h x hx y hy h0 e
    exact h (snRelabel ρ x) (List.mem_map_of_mem hx) (snRelabel ρ y) (List.mem_map_of_mem hy)
      (hρ.nonneg _ (mem_snIds_snd hx) h0) (by simp only [snRelabel]; rw [e])
  · intro h x' hx' y' hy' h0 e
    obtain ⟨x, hx, rfl⟩ := List.mem_map.mp hx'
    obtain ⟨y, hy, rfl⟩ := List.mem_map.mp hy'
    simp only [snRelabel] at h0 e ⊢
    exact h x hx y hy ((hρ.nonneg_iff (mem_snIds_snd hx)).mp h0)
      ((hρ.eq_iff (mem_snIds_fst hy) (mem_snIds_snd hx)
        ((hρ.nonneg_iff (mem_snIds_snd hx)).mp h0)).mp e)

/-! ### bg_id: row form and partition specification -/

/-- `bgId` applied to a list of rows `(fg_id, alter, eigenbedarf_gedeckt)`. -/
def bgIdRows (rows : List (Int × Int × Bool)) : List Int :=
  bgId (rows.map (·.1)) (rows.map (·.2.1)) (rows.map (·.2.2))

/-- every family unit has fewer than 100 self-sufficient children under 25 -/
def BgSmall (rows : List (Int × Int × Bool)) : Prop :=
  ∀ r ∈ rows, rows.countP (fun x => x.1 == r.1 && bgQual x) < 100

instance (rows : List (Int × Int × Bool)) : Decidable (BgSmall rows) := by
  unfold BgSmall; infer_instance

theorem bgIdRows_length (rows : List (Int × Int × Bool)) :
    (bgIdRows rows).length = rows.length := by
  simp [bgIdRows, bgId_length']

theorem bgIdRows_getElem {rows : List (Int × Int × Bool)} {i : Nat} (hi : i < rows.length) :
    (bgIdRows rows)[i]'(by rw [bgIdRows_length]; exact hi) = bgVal rows i rows[i] := by
  have h := bgId_getElem_rows (fg := rows.map (·.1)) (alter := rows.map (·.2.1))
    (eigen := rows.map (·.2.2)) (i := i) (by rw [← bgIdRows, bgIdRows_length]; exact hi)
  simp only [zip3_map, List.getElem_map] at h
  exact h

theorem bgRankRows_le (rows : List (Int × Int × Bool)) (f : Int) (i : Nat) :
    bgRankRows rows f i ≤ rows.countP (fun x => x.1 == f && bgQual x) :=
  (List.take_sublist _ _).countP_le

theorem bgVal_qual {rows : List (Int × Int × Bool)} {i : Nat} {r : Int × Int × Bool}
    (h : bgQual r = true) : bgVal rows i r = r.1 * 100 + bgRankRows rows r.1 i := by
  simp [bgVal, h]

theorem bgVal_nonqual {rows : List (Int × Int × Bool)} {i : Nat} {r : Int × Int × Bool}
    (h : bgQual r = false) : bgVal rows i r = r.1 * 100 := by
  simp [bgVal, h]

/-- Partition specification of bg_id (fewer than 100 self-sufficient children per family unit). -/
theorem bgIdRows_spec {rows : List (Int × Int × Bool)} (hs : BgSmall rows) {i j : Nat}
    (hi : i < rows.length) (hj : j < rows.length) :
    (bgIdRows rows)[i]'(by rw [bgIdRows_length]; exact hi) =
      (bgIdRows rows)[j]'(by rw [bgIdRows_length]; exact hj) ↔
    (rows[i].1 = rows[j].1 ∧ (i = j ∨ (bgQual rows[i] = false ∧ bgQual rows[j] = false))) := by
  rw [bgIdRows_getElem hi, bgIdRows_getElem hj]
  have bi := Nat.lt_of_le_of_lt (bgRankRows_le rows rows[i].1 i) (hs _ (List.getElem_mem hi))
  have bj := Nat.lt_of_le_of_lt (bgRankRows_le rows rows[j].1 j) (hs _ (List.getElem_mem hj))
  cases qi : bgQual rows[i] <;> cases qj : bgQual rows[j]
  · rw [bgVal_nonqual qi, bgVal_nonqual qj]
    constructor
    · intro e; exact ⟨by omega, Or.inr ⟨rfl, rfl⟩⟩
    · rintro ⟨h, _⟩; rw [h]
  · have pj := bgRankRows_pos hj qj
    rw [bgVal_nonqual qi, bgVal_qual qj]
    constructor
    · intro e; exfalso; omega
    · rintro ⟨_, rfl | ⟨_, h⟩⟩
      · rw [qi] at qj; cases qj
      · cases h
  · have pi := bgRankRows_pos hi qi
    rw [bgVal_qual qi, bgVal_nonqual qj]
    constructor
    · intro e; exfalso; omega
    · rintro ⟨_, rfl | ⟨h, _⟩⟩
      · rw [qi] at qj; cases qj
      · cases h
  · have pi := bgRankRows_pos hi qi
    have pj := bgRankRows_pos hj qj
    rw [bgVal_qual qi, bgVal_qual qj]
    constructor
    · intro e
      have hfg : rows[i].1 = rows[j].1 := by omega
      refine ⟨hfg, Or.inl ?_⟩
      have e' : bgRankRows rows rows[i].1 i = bgRankRows rows rows[j].1 j := by omega
      apply Decidable.byContradiction
      intro hne
      rcases Nat.lt_or_gt_of_ne hne with hlt | hlt
      · have := bgRankRows_lt hlt hj qj
        rw [hfg] at e'; omega
      · have := bgRankRows_lt hlt hi qi
        rw [← hfg] at e'; omega
    · rintro ⟨_, rfl | ⟨h, _⟩⟩
      · rfl
      · cases h

theorem BgSmall.perm {rows rows' : List (Int × Int × Bool)} (hp : rows.Perm rows')
    (hs : BgSmall rows) : BgSmall rows' := by
  intro r hr
  rw [← hp.countP_eq]
  exact hs r (hp.mem_iff.mpr hr)

/-- ids of `A ++ B` on the `A`-rows: the scan has not seen `B` yet -/
theorem bgIdRows_append_left (A B : List (Int × Int × Bool)) {i : Nat} (hi : i < A.length) :
    (bgIdRows (A ++ B))[i]'(by rw [bgIdRows_length]; simp; omega) =
      (bgIdRows A)[i]'(by rw [bgIdRows_length]; exact hi) := by
  rw [bgIdRows_getElem (by simp; omega), bgIdRows_getElem hi, List.getElem_append_left hi]
  unfold bgVal bgRankRows
  rw [List.take_append_of_le_length (by omega)]

/-- ids of `B ++ A` on the `A`-rows if no fg id of `B` occurs in `A` -/
theorem bgIdRows_append_right (A B : List (Int × Int × Bool))
    (hd : ∀ a ∈ A, ∀ b ∈ B, b.1 ≠ a.1) {i : Nat} (hi : i < A.length) :
    (bgIdRows (B ++ A))[B.length + i]'(by rw [bgIdRows_length]; simp; omega) =
      (bgIdRows A)[i]'(by rw [bgIdRows_length]; exact hi) := by
  rw [bgIdRows_getElem (by simp; omega), bgIdRows_getElem hi,
    List.getElem_append_right (by omega)]
  simp only [Nat.add_sub_cancel_left]
  unfold bgVal bgRankRows
  rw [Nat.add_assoc, List.take_length_add_append, List.countP_append]
  have : B.countP (fun x => x.1 == A[i].1 && bgQual x) = 0 := by
    rw [List.countP_eq_zero]
    intro b hb
    have := hd _ (List.getElem_mem hi) b hb
    simp [this]
  rw [this, Nat.zero_add]

/-- relabel the fg id of a row -/
def bgRelabel (ρ : Int → Int) (r : Int × Int × Bool) : Int × Int × Bool := (ρ r.1, r.2)

theorem BgSmall.relabel {ρ : Int → Int} {rows : List (Int × Int × Bool)}
    (hinj : ∀ x ∈ rows, ∀ y ∈ rows, ρ x.1 = ρ y.1 → x.1 = y.1) (hs : BgSmall rows) :
    BgSmall (rows.map (bgRelabel ρ)) := by
  intro r' hr'
  obtain ⟨r, hr, rfl⟩ := List.mem_map.mp hr'
  rw [List.countP_map]
  have : rows.countP ((fun x => x.1 == (bgRelabel ρ r).1 && bgQual x) ∘ bgRelabel ρ) =
      rows.countP (fun x => x.1 == r.1 && bgQual x) := by
    apply List.countP_congr
    intro x hx
    simp only [Function.comp, bgRelabel, bgQual, Bool.and_eq_true, beq_iff_eq]
    constructor
    · rintro ⟨e, h⟩; exact ⟨hinj x hx r hr e, h⟩
    · rintro ⟨e, h⟩; exact ⟨by rw [e], h⟩
  rw [this]
  exact hs r hr

/-! ### wthh_id: row form -/

/-- `wthhId` applied to a list of rows `(hh_id, flag1, flag2)`. -/
def wthhIdRows (rows : List (Int × Bool × Bool)) : List Int :=
  wthhId (rows.map (·.1)) (rows.map (·.2.1)) (rows.map (·.2.2))

theorem wthhIdRows_length (rows : List (Int × Bool × Bool)) :
    (wthhIdRows rows).length = rows.length := by
  simp [wthhIdRows, wthhId_length']

theorem wthhIdRows_getElem {rows : List (Int × Bool × Bool)} {i : Nat} (hi : i < rows.length) :
    (wthhIdRows rows)[i]'(by rw [wthhIdRows_length]; exact hi) =
      rows[i].1 * 100 + (if (rows[i].2.1 || rows[i].2.2) then 1 else 0) := by
  have := wthhId_getElem (hh := rows.map (·.1)) (v1 := rows.map (·.2.1)) (v2 := rows.map (·.2.2))
    (i := i) (by rw [← wthhIdRows, wthhIdRows_length]; exact hi)
  simpa [wthhIdRows] using this

theorem wthhIdRows_eq_map (rows : List (Int × Bool × Bool)) :
    wthhIdRows rows = rows.map fun (h, a, b) => if a || b then h * 100 + 1 else h * 100 := by
  rw [wthhIdRows, wthhId, zip3_map]

/-- partition specification of wthh_id -/
theorem wthhIdRows_spec {rows : List (Int × Bool × Bool)} {i j : Nat} (hi : i < rows.length)
    (hj : j < rows.length) :
    (wthhIdRows rows)[i]'(by rw [wthhIdRows_length]; exact hi) =
      (wthhIdRows rows)[j]'(by rw [wthhIdRows_length]; exact hj) ↔
    (rows[i].1 = rows[j].1 ∧ (rows[i].2.1 || rows[i].2.2) = (rows[j].2.1 || rows[j].2.2)) := by
  rw [wthhIdRows_getElem hi, wthhIdRows_getElem hj]
  cases (rows[i].2.1 || rows[i].2.2) <;> cases (rows[j].2.1 || rows[j].2.2) <;> simp <;> omega

/-! ### fg_id: separability -/

/-- No partner or parent pointer crosses between the tables `A` and `B`. -/
structure FgSeparated (A B : List Person) : Prop where
  partner : ∀ a ∈ A, ∀ b ∈ B, a.partner ≠ b.pid
  parentAB : ∀ a ∈ A, ∀ b ∈ B, ¬ IsParentPtr a b.pid
  parentBA : ∀ a ∈ A, ∀ b ∈ B, ¬ IsParentPtr b a.pid

section union
variable {A B : List Person} (hs : FgSeparated A B)
include hs

theorem dependentChild_append_left {c : Person} (hc : c ∈ A) :
    DependentChild (A ++ B) c ↔ DependentChild A c := by
  unfold DependentChild NoKids
  constructor
  · rintro ⟨h1, h2, par, hpar, h3, h4⟩
    refine ⟨h1, fun r hr => h2 r (List.mem_append_left _ hr), par, ?_, h3, h4⟩
    rcases List.mem_append.mp hpar with h | h
    · exact h
    · exact absurd h3 (hs.parentAB c hc par h)
  · rintro ⟨h1, h2, par, hpar, h3, h4⟩
    refine ⟨h1, ?_, par, List.mem_append_left _ hpar, h3, h4⟩
    intro r hr
    rcases List.mem_append.mp hr with h | h
    · exact h2 r h
    · exact hs.parentBA c hc r h

theorem childOf_append_left {c : Person} (hc : c ∈ A) (p : Person) :
    ChildOf (A ++ B) c p ↔ ChildOf A c p := by
  unfold ChildOf
  rw [dependentChild_append_left hs hc]

theorem fgSame_append_left {x y : Person} (hx : x ∈ A) (hy : y ∈ A) :
    FgSame (A ++ B) x y ↔ FgSame A x y := by
  have key : ∀ {c : Person}, c ∈ A → ∀ {p : Person}, p ∈ A ++ B → ChildOf (A ++ B) c p →
      p ∈ A ∧ ChildOf A c p := by
    intro c hc p hp h
    refine ⟨?_, (childOf_append_left hs hc p).mp h⟩
    rcases List.mem_append.mp hp with h' | h'
    · exact h'
    · exact absurd h.2.1 (hs.parentAB c hc p h')
  unfold FgSame
  constructor
  · rintro (h | ⟨p, hp, h1, h2⟩ | ⟨p, hp, h1, h2⟩ | ⟨p, hp, q, hq, h1, h2, h3⟩)
    · exact Or.inl h
    · obtain ⟨hp', h1'⟩ := key hx hp h1
      exact Or.inr (Or.inl ⟨p, hp', h1', h2⟩)
    · obtain ⟨hp', h1'⟩ := key hy hp h1
      exact Or.inr (Or.inr (Or.inl ⟨p, hp', h1', h2⟩))
    · obtain ⟨hp', h1'⟩ := key hx hp h1
      obtain ⟨hq', h2'⟩ := key hy hq h2
      exact Or.inr (Or.inr (Or.inr ⟨p, hp', q, hq', h1', h2', h3⟩))
  · rintro (h | ⟨p, hp, h1, h2⟩ | ⟨p, hp, h1, h2⟩ | ⟨p, hp, q, hq, h1, h2, h3⟩)
    · exact Or.inl h
    · exact Or.inr (Or.inl ⟨p, List.mem_append_left _ hp,
        (childOf_append_left hs hx p).mpr h1, h2⟩)
    · exact Or.inr (Or.inr (Or.inl ⟨p, List.mem_append_left _ hp,
        (childOf_append_left hs hy p).mpr h1, h2⟩))
    · exact Or.inr (Or.inr (Or.inr ⟨p, List.mem_append_left _ hp, q, List.mem_append_left _ hq,
        (childOf_append_left hs hx p).mpr h1, (childOf_append_left hs hy q).mpr h2, h3⟩))

theorem ValidPersons.of_append_left (hv : ValidPersons (A ++ B)) : ValidPersons A := by
  constructor
  · have := hv.nodup
    rw [List.map_append] at this
    exact (List.nodup_append.mp this).1
  · intro r hr; exact hv.nonneg r (List.mem_append_left _ hr)
  · intro r hr; exact hv.noself r (List.mem_append_left _ hr)
  · intro r hr h0
    obtain ⟨r', hr', e1, e2, e3⟩ := hv.partner r (List.mem_append_left _ hr) h0
    rcases List.mem_append.mp hr' with h | h
    · exact ⟨r', h, e1, e2, e3⟩
    · exact absurd e1.symm (hs.partner r hr r' h)

theorem ValidDependents.of_append_left (h7 : ValidDependents (A ++ B)) : ValidDependents A := by
  constructor
  · intro c hc hd
    exact h7.nopartner c (List.mem_append_left _ hc) ((dependentChild_append_left hs hc).mpr hd)
  · intro c hc p hp q hq h1 h2
    exact h7.onecouple c (List.mem_append_left _ hc) p (List.mem_append_left _ hp) q
      (List.mem_append_left _ hq) ((childOf_append_left hs hc p).mpr h1)
      ((childOf_append_left hs hc q).mpr h2)

end union

/-- The literal closure condition: every pointer of an `A`-row is negative or the p_id of an
`A`-row, and no `B`-row has a parent pointer to an `A`-row.  Together with unique p_ids in
`A ++ B` it implies `FgSeparated`. -/
structure FgClosed (A B : List Person) : Prop where
  partner : ∀ a ∈ A, a.partner < 0 ∨ a.partner ∈ A.map (·.pid)
  e1 : ∀ a ∈ A, a.e1 < 0 ∨ a.e1 ∈ A.map (·.pid)
  e2 : ∀ a ∈ A, a.e2 < 0 ∨ a.e2 ∈ A.map (·.pid)
  into : ∀ a ∈ A, ∀ b ∈ B, b.e1 ≠ a.pid ∧ b.e2 ≠ a.pid

theorem FgClosed.separated {A B : List Person} (hc : FgClosed A B)
    (hn : ((A ++ B).map (·.pid)).Nodup) (h0 : ∀ r ∈ A ++ B, 0 ≤ r.pid) : FgSeparated A B := by
  rw [List.map_append] at hn
  have hdis := (List.nodup_append.mp hn).2.2
  have aux : ∀ k : Int, (k < 0 ∨ k ∈ A.map (·.pid)) → ∀ b ∈ B, k ≠ b.pid := by
    intro k hk b hb e
    rcases hk with hk | hk
    · have := h0 b (List.mem_append_right _ hb); omega
    · exact hdis k hk b.pid (List.mem_map_of_mem hb) e
  constructor
  · intro a ha b hb; exact aux _ (hc.partner a ha) b hb
  · rintro a ha b hb ⟨h | h, _⟩
    · exact aux _ (hc.e1 a ha) b hb h
    · exact aux _ (hc.e2 a ha) b hb h
  · rintro a ha b hb ⟨h | h, _⟩
    · exact (hc.into a ha b hb).1 h
    · exact (hc.into a ha b hb).2 h

/-! ### fg_id: relabelling -/

/-- relabel the p_id and the three pointer columns of a person -/
def Person.relabel (ρ : Int → Int) (r : Person) : Person :=
  { r with pid := ρ r.pid, partner := ρ r.partner, e1 := ρ r.e1, e2 := ρ r.e2 }

/-- the ids and pointers occurring in a person table -/
def personIds (ps : List Person) : List Int :=
  ps.map (·.pid) ++ ps.map (·.partner) ++ ps.map (·.e1) ++ ps.map (·.e2)

section relabel
variable {ρ : Int → Int} {ps : List Person}

theorem mem_personIds_pid {r : Person} (h : r ∈ ps) : r.pid ∈ personIds ps := by
  simp only [personIds, List.mem_append, List.mem_map]; exact Or.inl (Or.inl (Or.inl ⟨r, h, rfl⟩))
theorem mem_personIds_partner {r : Person} (h : r ∈ ps) : r.partner ∈ personIds ps := by
  simp only [personIds, List.mem_append, List.mem_map]; exact Or.inl (Or.inl (Or.inr ⟨r, h, rfl⟩))
theorem mem_personIds_e1 {r : Person} (h : r ∈ ps) : r.e1 ∈ personIds ps := by
  simp only [personIds, List.mem_append, List.mem_map]; exact Or.inl (Or.inr ⟨r, h, rfl⟩)
theorem mem_personIds_e2 {r : Person} (h : r ∈ ps) : r.e2 ∈ personIds ps := by
  simp only [personIds, List.mem_append, List.mem_map]; exact Or.inr ⟨r, h, rfl⟩

variable (hv : ValidPersons ps) (hρ : RelabelOn ρ (personIds ps))
include hv hρ

theorem isParentPtr_relabel {r p : Person} (hr : r ∈ ps) (hp : p ∈ ps) :
    IsParentPtr (r.relabel ρ) (p.relabel ρ).pid ↔ IsParentPtr r p.pid := by
  have h0 := hv.nonneg p hp
  unfold IsParentPtr Person.relabel
  simp only
  rw [hρ.eq_iff (mem_personIds_e1 hr) (mem_personIds_pid hp) h0,
    hρ.eq_iff (mem_personIds_e2 hr) (mem_personIds_pid hp) h0,
    hρ.nonneg_iff (mem_personIds_pid hp)]

theorem relabel_inj {x y : Person} (hx : x ∈ ps) (hy : y ∈ ps) :
    x.relabel ρ = y.relabel ρ ↔ x = y := by
  constructor
  · intro e
    have := congrArg Person.pid e
    simp only [Person.relabel] at this
    exact nodup_map_inj hv.nodup hx hy
      ((hρ.eq_iff (mem_personIds_pid hx) (mem_personIds_pid hy) (hv.nonneg y hy)).mp this)
  · rintro rfl; rfl

theorem coupled_relabel {x y : Person} (hx : x ∈ ps) (hy : y ∈ ps) :
    Coupled (x.relabel ρ) (y.relabel ρ) ↔ Coupled x y := by
  unfold Coupled
  rw [relabel_inj hv hρ hx hy]
  simp only [Person.relabel]
  rw [hρ.eq_iff (mem_personIds_partner hx) (mem_personIds_pid hy) (hv.nonneg y hy)]

theorem dependentChild_relabel {c : Person} (hc : c ∈ ps) :
    DependentChild (ps.map (Person.relabel ρ)) (c.relabel ρ) ↔ DependentChild ps c := by
  unfold DependentChild NoKids
  constructor
  · rintro ⟨h1, h2, par', hpar', h3, h4⟩
    obtain ⟨par, hpar, rfl⟩ := List.mem_map.mp hpar'
    refine ⟨h1, ?_, par, hpar, (isParentPtr_relabel hv hρ hc hpar).mp h3, h4⟩
    intro r hr h
    exact h2 _ (List.mem_map_of_mem hr) ((isParentPtr_relabel hv hρ hr hc).mpr h)
  · rintro ⟨h1, h2, par, hpar, h3, h4⟩
    refine ⟨h1, ?_, par.relabel ρ, List.mem_map_of_mem hpar,
      (isParentPtr_relabel hv hρ hc hpar).mpr h3, h4⟩
    intro r' hr' h
    obtain ⟨r, hr, rfl⟩ := List.mem_map.mp hr'
    exact h2 r hr ((isParentPtr_relabel hv hρ hr hc).mp h)

theorem childOf_relabel {c p : Person} (hc : c ∈ ps) (hp : p ∈ ps) :
    ChildOf (ps.map (Person.relabel ρ)) (c.relabel ρ) (p.relabel ρ) ↔ ChildOf ps c p := by
  unfold ChildOf
  rw [dependentChild_relabel hv hρ hc, isParentPtr_relabel hv hρ hc hp]
  rfl

theorem fgSame_relabel {x y : Person} (hx : x ∈ ps) (hy : y ∈ ps) :
    FgSame (ps.map (Person.relabel ρ)) (x.relabel ρ) (y.relabel ρ) ↔ FgSame ps x y := by
  unfold FgSame
  constructor
  · rintro (h | ⟨p', hp', h1, h2⟩ | ⟨p', hp', h1, h2⟩ | ⟨p', hp', q', hq', h1, h2, h3⟩)
    · exact Or.inl ((coupled_relabel hv hρ hx hy).mp h)
    · obtain ⟨p, hp, rfl⟩ := List.mem_map.mp hp'
      exact Or.inr (Or.inl ⟨p, hp, (childOf_relabel hv hρ hx hp).mp h1,
        (coupled_relabel hv hρ hp hy).mp h2⟩)
    · obtain ⟨p, hp, rfl⟩ := List.mem_map.mp hp'
      exact Or.inr (Or.inr (Or.inl ⟨p, hp, (childOf_relabel hv hρ hy hp).mp h1,
        (coupled_relabel hv hρ hp hx).mp h2⟩))
    · obtain ⟨p, hp, rfl⟩ := List.mem_map.mp hp'
      obtain ⟨q, hq, rfl⟩ := List.mem_map.mp hq'
      exact Or.inr (Or.inr (Or.inr ⟨p, hp, q, hq, (childOf_relabel hv hρ hx hp).mp h1,
        (childOf_relabel hv hρ hy hq).mp h2, (coupled_relabel hv hρ hp hq).mp h3⟩))
  · rintro (h | ⟨p, hp, h1, h2⟩ | ⟨p, hp, h1, h2⟩ | ⟨p, hp, q, hq, h1, h2, h3⟩)
    · exact Or.inl ((coupled_relabel hv hρ hx hy).mpr h)
    · exact Or.inr (Or.inl ⟨_, List.mem_map_of_mem hp, (childOf_relabel hv hρ hx hp).mpr h1,
        (coupled_relabel hv hρ hp hy).mpr h2⟩)
    · exact Or.inr (Or.inr (Or.inl ⟨_, List.mem_map_of_mem hp,
        (childOf_relabel hv hρ hy hp).mpr h1, (coupled_relabel hv hρ hp hx).mpr h2⟩))
    · exact Or.inr (Or.inr (Or.inr ⟨_, List.mem_map_of_mem hp, _, List.mem_map_of_mem hq,
        (childOf_relabel hv hρ hx hp).mpr h1, (childOf_relabel hv hρ hy hq).mpr h2,
        (coupled_relabel hv hρ hp hq).mpr h3⟩))

theorem ValidPersons.relabel : ValidPersons (ps.map (Person.relabel ρ)) := by
  constructor
  · rw [List.map_map]
    have : ((·.pid) ∘ Person.relabel ρ) = (ρ ∘ (·.pid)) := rfl
    rw [this, ← List.map_map]
    refine nodup_map_of_injOn hv.nodup ?_
    intro a ha b hb e
    obtain ⟨x, hx, rfl⟩ := List.mem_map.mp ha
    obtain ⟨y, hy, rfl⟩ := List.mem_map.mp hb
    exact (hρ.eq_iff (mem_personIds_pid hx) (mem_personIds_pid hy) (hv.nonneg y hy)).mp e
  · intro r' hr'
    obtain ⟨r, hr, rfl⟩ := List.mem_map.mp hr'
    exact hρ.nonneg _ (mem_personIds_pid hr) (hv.nonneg r hr)
  · intro r' hr' e
    obtain ⟨r, hr, rfl⟩ := List.mem_map.mp hr'
    exact hv.noself r hr
      ((hρ.eq_iff (mem_personIds_partner hr) (mem_personIds_pid hr) (hv.nonneg r hr)).mp e)
  · intro r' hr' h0
    obtain ⟨r, hr, rfl⟩ := List.mem_map.mp hr'
    have h0' : 0 ≤ r.partner := (hρ.nonneg_iff (mem_personIds_partner hr)).mp h0
    obtain ⟨q, hq, e1, e2, e3⟩ := hv.partner r hr h0'
    refine ⟨q.relabel ρ, List.mem_map_of_mem hq, ?_, ?_, e3⟩
    · simp only [Person.relabel]; rw [e1]
    · simp only [Person.relabel]; rw [e2]

theorem ValidDependents.relabel (h7 : ValidDependents ps) :
    ValidDependents (ps.map (Person.relabel ρ)) := by
  constructor
  · intro c' hc' hd
    obtain ⟨c, hc, rfl⟩ := List.mem_map.mp hc'
    have := h7.nopartner c hc ((dependentChild_relabel hv hρ hc).mp hd)
    exact hρ.neg _ (mem_personIds_partner hc) this
  · intro c' hc' p' hp' q' hq' h1 h2
    obtain ⟨c, hc, rfl⟩ := List.mem_map.mp hc'
    obtain ⟨p, hp, rfl⟩ := List.mem_map.mp hp'
    obtain ⟨q, hq, rfl⟩ := List.mem_map.mp hq'
    exact (coupled_relabel hv hρ hp hq).mpr (h7.onecouple c hc p hp q hq
      ((childOf_relabel hv hρ hc hp).mp h1) ((childOf_relabel hv hρ hc hq).mp h2))

end relabel

/-! ### nesting -/

theorem coupled_same_hh {ps : List Person} (hv : ValidPersons ps) {x y : Person} (hx : x ∈ ps)
    (hy : y ∈ ps) (h : Coupled x y) : x.hh = y.hh := by
  rcases h with rfl | h
  · rfl
  · have h0 : 0 ≤ x.partner := by rw [h]; exact hv.nonneg y hy
    obtain ⟨r', hr', e1, _, e3⟩ := hv.partner x hx h0
    have : r' = y := nodup_map_inj hv.nodup hr' hy (by rw [e1, h])
    subst this
    exact e3.symm

/-- members of one family unit live in one household -/
theorem fgSame_same_hh {ps : List Person} (hv : ValidPersons ps) {x y : Person} (hx : x ∈ ps)
    (hy : y ∈ ps) (h : FgSame ps x y) : x.hh = y.hh := by
  rcases h with h | ⟨p, hp, h1, h2⟩ | ⟨p, hp, h1, h2⟩ | ⟨p, hp, q, hq, h1, h2, h3⟩
  · exact coupled_same_hh hv hx hy h
  · rw [← h1.2.2]; exact coupled_same_hh hv hp hy h2
  · rw [← h1.2.2]; exact (coupled_same_hh hv hp hx h2).symm
  · rw [← h1.2.2, ← h2.2.2]; exact coupled_same_hh hv hp hq h3

/-- the (p_id, partner) rows of a valid person table are valid for `pairId` -/
theorem ValidPersons.toRows {ps : List Person} (hv : ValidPersons ps) :
    ValidRows (ps.map fun r => (r.pid, r.partner)) := by
  constructor
  · rw [List.map_map]; exact hv.nodup
  · intro r hr
    obtain ⟨x, hx, rfl⟩ := List.mem_map.mp hr
    exact hv.nonneg x hx
  · intro r hr
    obtain ⟨x, hx, rfl⟩ := List.mem_map.mp hr
    exact hv.noself x hx
  · intro r hr h0
    obtain ⟨x, hx, rfl⟩ := List.mem_map.mp hr
    obtain ⟨y, hy, e1, e2, _⟩ := hv.partner x hx h0
    exact List.mem_map.mpr ⟨y, hy, by simp only [e1, e2]⟩

/-! ### rows identified by a key column -/

/-- If `t'` is a permutation of `t.map f`, `f` preserves the key, and keys are unique in `t`, then
the row of `t'` carrying the key of `t[i]` is `f t[i]`. -/
theorem perm_row_of_key {α : Type} {t t' : List α} {key : α → Int} {f : α → α}
    (hn : (t.map key).Nodup) (hf : ∀ r, key (f r) = key r) (hp : (t.map f).Perm t')
    {i i' : Nat} (hi : i < t.length) (hi' : i' < t'.length) (e : key t[i] = key t'[i']) :
    t'[i'] = f t[i] := by
  have hm : t'[i'] ∈ t.map f := hp.mem_iff.mpr (List.getElem_mem hi')
  obtain ⟨r, hr, hr'⟩ := List.mem_map.mp hm
  obtain ⟨k, hk, rfl⟩ := List.getElem_of_mem hr
  have : key t[k] = key t[i] := by rw [e, ← hr', hf]
  have := (nodup_getElem_inj hn hk hi).mp this
  subst this
  exact hr'.symm

/-! ### bg_id on top of fg_id: transfer of the smallness hypothesis -/

/-- If two fg columns `F`, `F'` (functions of the row) induce the same partition on the rows of a
table, smallness of the bg input table transfers along any permutation. -/
theorem bgSmall_transfer {α : Type} {ps ps' : List α} (hp : ps.Perm ps') (F F' : α → Int)
    (hF : ∀ r ∈ ps, ∀ x ∈ ps, (F r = F x ↔ F' r = F' x)) (g : α → Int × Bool)
    (hs : BgSmall (ps.map fun r => (F r, g r))) : BgSmall (ps'.map fun r => (F' r, g r)) := by
  intro r' hr'
  obtain ⟨r0, hr0', rfl⟩ := List.mem_map.mp hr'
  have hr0 : r0 ∈ ps := hp.mem_iff.mpr hr0'
  have h := hs (F r0, g r0) (List.mem_map.mpr ⟨r0, hr0, rfl⟩)
  rw [List.countP_map] at h ⊢
  rw [← hp.countP_eq]
  have : ps.countP ((fun x => x.1 == (F' r0, g r0).1 && bgQual x) ∘ fun r => (F' r, g r)) =
      ps.countP ((fun x => x.1 == (F r0, g r0).1 && bgQual x) ∘ fun r => (F r, g r)) := by
    apply List.countP_congr
    intro x hx
    simp only [Function.comp, bgQual, Bool.and_eq_true, beq_iff_eq]
    rw [hF x hx r0 hr0]
  rw [this]
  exact h

theorem zip3_of_map {α β γ δ : Type} (l : List α) (f : α → β) (g : α → γ) (h : α → δ) :
    (l.map f).zip ((l.map g).zip (l.map h)) = l.map fun r => (f r, g r, h r) := by
  induction l with
  | nil => rfl
  | cons r l ih => simp [ih]

/-- the fg column is a function of the person (membership form of `fg_spec`) -/
theorem fg_spec_fun {ps : List Person} (hv : ValidPersons ps) (h7 : ValidDependents ps) :
    ∃ F : Person → Int, fgId true ps = .ok (ps.map F) ∧
      ∀ x ∈ ps, ∀ y ∈ ps, (F x = F y ↔ FgSame ps x y) := by
  obtain ⟨s, inv, hs⟩ := fg_scan_inv hv h7
  obtain ⟨res, hres, hl, h⟩ := fg_spec_aux hv h7
  rw [hs] at hres
  cases hres
  refine ⟨_, hs, ?_⟩
  intro x hx y hy
  obtain ⟨i, hi, rfl⟩ := List.getElem_of_mem hx
  obtain ⟨j, hj, rfl⟩ := List.getElem_of_mem hy
  have := h i hi j hj
  simpa using this

/-! ### the literal closure condition for pointer columns -/

/-- If every pointer of an `A`-row is negative or the p_id of an `A`-row and the p_ids of `A ++ B`
are unique and non-negative, no pointer of an `A`-row leads to a `B`-row. -/
theorem pairClosed_of_ptr {A B : List (Int × Int)} (hv : ValidRows (A ++ B))
    (hc : ∀ a ∈ A, a.2 < 0 ∨ a.2 ∈ A.map (·.1)) : PairClosed A B := by
  have hn := hv.nodup
  rw [List.map_append] at hn
  have hdis := (List.nodup_append.mp hn).2.2
  intro a ha b hb e
  rcases hc a ha with h | h
  · have := hv.nonneg b (List.mem_append_right _ hb); omega
  · exact hdis _ h b.1 (List.mem_map_of_mem hb) e

theorem snClosed_of_ptr {A B : List (Int × Int × Bool)} (hv : ValidRows3 (A ++ B))
    (hc : ∀ a ∈ A, a.2.1 < 0 ∨ a.2.1 ∈ A.map (·.1)) : SnClosed A B := by
  have hn := hv.nodup
  rw [List.map_append] at hn
  have hdis := (List.nodup_append.mp hn).2.2
  intro a ha b hb e
  rcases hc a ha with h | h
  · have := hv.nonneg b (List.mem_append_right _ hb); omega
  · exact hdis _ h b.1 (List.mem_map_of_mem hb) e

/-! ### witnesses used in `Props/C12Cor.lean` -/

/-- a relabelling that is injective only on small ids: multiply by 37 modulo 101 -/
def rhoEx (x : Int) : Int := if x < 0 then x else (x * 37) % 101

/-- couple 70/3, singles 12 and 41 (sparse unsorted ids) -/
def pairEx : List (Int × Int) := [(70, 3), (12, -1), (3, 70), (41, -1)]
/-- a permutation of `pairEx` -/
def pairEx' : List (Int × Int) := [(41, -1), (3, 70), (12, -1), (70, 3)]
/-- another household: couple 8/55 -/
def pairExB : List (Int × Int) := [(8, 55), (55, 8)]

/-- couple 70/3 jointly assessed, couple 12/41 separately assessed, single 5 -/
def snEx : List (Int × Int × Bool) :=
  [(70, 3, true), (12, 41, false), (3, 70, true), (41, 12, false), (5, -1, false)]
def snEx' : List (Int × Int × Bool) :=
  [(5, -1, false), (41, 12, false), (3, 70, true), (12, 41, false), (70, 3, true)]
/-- another household: couple 8/55 jointly assessed -/
def snExB : List (Int × Int × Bool) := [(8, 55, true), (55, 8, true)]
/-- spouses 70/3 disagree on the flag -/
def snExBad : List (Int × Int × Bool) := [(70, 3, true), (3, 70, false), (5, -1, false)]

/-- household 1 of `fgExample`: patchwork family (couple 70/3, child 41 of 3 only, child 12 of both) -/
def fgExA : List Person := fgExample.take 4
/-- household 2 of `fgExample`: single 5 with adult child 9 -/
def fgExB : List Person := fgExample.drop 4

/-- rows `(p_id, fg_id, alter, eigenbedarf_gedeckt)` for `fgExample` (fg ids as computed by `fgId`);
children 12 and 41 are self-sufficient -/
def bgExT : List (Int × Int × Int × Bool) :=
  [(41, 1, 5, true), (70, 1, 40, false), (12, 1, 10, true), (3, 1, 38, true),
   (9, 2, 30, true), (5, 3, 60, false)]
/-- `bgExT` permuted and with fg ids renumbered by `f ↦ 50 - f` -/
def bgExT' : List (Int × Int × Int × Bool) :=
  [(5, 47, 60, false), (12, 49, 10, true), (9, 48, 30, true), (70, 49, 40, false),
   (41, 49, 5, true), (3, 49, 38, true)]

/-- rows `(hh_id, flag1, flag2)` -/
def wthhEx : List (Int × Bool × Bool) :=
  [(7, true, false), (7, false, false), (3, false, true), (-2, false, false)]

/-- separation is needed in `fg_union`: G (60), her child P (20, same household) and, in `B`, P's
baby -/
def fgSepA : List Person :=
  [{ pid := 60, hh := 1, alter := 50, partner := -1, e1 := -1, e2 := -1 },
   { pid := 20, hh := 1, alter := 20, partner := -1, e1 := 60, e2 := -1 }]
def fgSepB : List Person :=
  [{ pid := 7, hh := 1, alter := 1, partner := -1, e1 := 20, e2 := -1 }]

end GV.Groupings
