import GettsimVerif.Lemmas.Piecewise
/-
Helper lemmas about `GV.Piecewise.evalMul` (`piecewise_polynomial` with `rates_multiplier`).
-/
namespace GV.Piecewise

/-- `Σ_{i < j} polyInc rates (i+1) (t_{i+1} - t_i)`: the sum of the full increments of the pieces
`1 … j` (piece `i+1` is `[t_i, t_{i+1})`). -/
def widthSum (s : Schedule) (j : Nat) : Rat :=
  (List.range j).foldl
    (fun acc i => acc + polyInc s.rates (i + 1) (thr s (i + 1) - thr s i)) 0

/-! ## generic fold lemmas -/

theorem foldl_range_ext {α : Type} (f g : α → Nat → α) (N : Nat) (a : α)
    (H : ∀ a k, k < N → f a k = g a k) :
    (List.range N).foldl f a = (List.range N).foldl g a := by
  induction N with
  | zero => rfl
  | succ N ih =>
    simp only [List.range_succ, List.foldl_append, List.foldl_cons, List.foldl_nil]
    rw [ih fun a k hk => H a k (by omega), H _ N (by omega)]

/-- a fold whose step is guarded by `k + 2 ≤ b` only sees the first `b - 1` indices -/
theorem foldl_range_guard (f : Nat → Rat) (b N : Nat) (a : Rat) :
    (List.range N).foldl (fun acc k => if k + 2 ≤ b then acc + f k else acc) a
      = (List.range (min N (b - 1))).foldl (fun acc k => acc + f k) a := by
  induction N with
  | zero => simp
  | succ N ih =>
    simp only [List.range_succ, List.foldl_append, List.foldl_cons, List.foldl_nil]
    rw [ih]
    by_cases hb : N + 2 ≤ b
    · have e1 : min N (b - 1) = N := by omega
      have e2 : min (N + 1) (b - 1) = N + 1 := by omega
      rw [e1, e2, if_pos hb]
      simp only [List.range_succ, List.foldl_append, List.foldl_cons, List.foldl_nil]
    · have e : min (N + 1) (b - 1) = min N (b - 1) := by omega
      rw [e, if_neg hb]

theorem foldl_range_mul (f : Nat → Rat) (m : Rat) (N : Nat) (a : Rat) :
    (List.range N).foldl (fun acc k => acc + m * f k) a
      = a + m * (List.range N).foldl (fun acc k => acc + f k) 0 := by
  induction N with
  | zero => simp
  | succ N ih =>
    simp only [List.range_succ, List.foldl_append, List.foldl_cons, List.foldl_nil]
    rw [ih]; ring

theorem widthSum_zero (s : Schedule) : widthSum s 0 = 0 := rfl

theorem widthSum_succ (s : Schedule) (j : Nat) :
    widthSum s (j + 1) = widthSum s j + polyInc s.rates (j + 1) (thr s (j + 1) - thr s j) := by
  simp only [widthSum, List.range_succ, List.foldl_append, List.foldl_cons, List.foldl_nil]

/-! ## thresholds of a well-formed schedule -/

theorem getD_normal' (ts : List Rat) (d : Ext) {b : Nat} (h0 : 0 < b) (hb : b ≤ ts.length) :
    (Ext.negInf :: ts.map Ext.fin ++ [Ext.posInf]).getD b d = Ext.fin (ts.getD (b - 1) 0) := by
  obtain ⟨j, rfl⟩ : ∃ j, b = j + 1 := ⟨b - 1, by omega⟩
  have hj : j < ts.length := by omega
  simp [List.getD_eq_getElem?_getD, List.getElem?_append_left, hj]

theorem thresholds_getD {s : Schedule} (h : WFProp s) (d : Ext) {b : Nat} (h0 : 0 < b)
    (hb : b ≤ (inner s).length) : s.thresholds.getD b d = Ext.fin (thr s (b - 1)) := by
  have := getD_normal' (inner s) d h0 hb
  rw [← h.thr_eq] at this
  exact this

theorem thresholds_length {s : Schedule} (h : WFProp s) :
    s.thresholds.length = (inner s).length + 2 := by
  have : (Ext.negInf :: (inner s).map Ext.fin ++ [Ext.posInf]).length = (inner s).length + 2 := by
    simp
  rw [← h.thr_eq] at this
  exact this

/-! ## intercepts of a continuous schedule -/

/-- under `cont` the intercept of piece `j+1` is the first intercept plus the full increments of
the pieces `1 … j` -/
theorem ic_eq_widthSum {s : Schedule} (hc : cont s = true) :
    ∀ j, j + 1 ≤ (inner s).length → ic s (j + 1) = ic s 0 + widthSum s j := by
  obtain ⟨h0, h1⟩ := (cont_iff s).1 hc
  intro j
  induction j with
  | zero => intro hj; rw [widthSum_zero, h0 (by omega)]; ring
  | succ j ih =>
    intro hj
    rw [h1 (j + 1) (by omega) (by omega), ih (by omega), widthSum_succ]
    simp only [Nat.add_sub_cancel]
    ring

/-! ## the rebuilt intercept -/

/-- the intercept loop of `evalMul` in normal form -/
theorem evalMul_base {s : Schedule} (h : WFProp s) (m : Rat) {b : Nat}
    (hb : b ≤ (inner s).length) :
    (List.range (s.thresholds.length - 1 - 2)).foldl (fun acc k =>
      if k + 2 ≤ b then
        match s.thresholds.getD (k + 2 - 1) .negInf, s.thresholds.getD (k + 2) .posInf with
        | .fin l, .fin u => acc + m * polyInc s.rates (k + 2 - 1) (u - l)
        | _, _ => acc
      else acc) (s.intercepts.getD 0 0)
    = ic s 0 + m * widthSum s (b - 1) := by
  rw [thresholds_length h]
  rw [foldl_range_ext _ (fun acc k => if k + 2 ≤ b then
      acc + m * polyInc s.rates (k + 1) (thr s (k + 1) - thr s k) else acc)]
  · rw [foldl_range_guard (fun k => m * polyInc s.rates (k + 1) (thr s (k + 1) - thr s k)),
      foldl_range_mul (fun k => polyInc s.rates (k + 1) (thr s (k + 1) - thr s k))]
    have e : min ((inner s).length + 2 - 1 - 2) (b - 1) = b - 1 := by omega
    rw [e]; rfl
  · intro a k hk
    by_cases hkb : k + 2 ≤ b
    · simp only [if_pos hkb]
      rw [thresholds_getD h _ (by omega) (by omega), thresholds_getD h _ (by omega) (by omega)]
      rfl
    · simp only [if_neg hkb]

/-- `evalMul` on a well-formed schedule in terms of the selected bin -/
theorem evalMul_eq {s : Schedule} (h : WFProp s) (m x : Rat) :
    evalMul s m x = if cnt (inner s) x = 0 then ic s 0 else
      ic s 0 + m * (widthSum s (cnt (inner s) x - 1)
        + polyInc s.rates (cnt (inner s) x) (x - thr s (cnt (inner s) x - 1))) := by
  unfold evalMul
  simp only [selectedBin_eq_cnt h]
  erw [evalMul_base h m (cnt_le_length _ x)]
  by_cases hb : cnt (inner s) x = 0
  · simp [hb, widthSum_zero]
  · simp only [hb, if_false]
    rw [thresholds_getD h _ (Nat.pos_of_ne_zero hb) (cnt_le_length _ x)]
    simp only []
    ring

end GV.Piecewise
