import GettsimVerif.Core.Agg
import Mathlib.Algebra.Order.Field.Rat
import Mathlib.Algebra.BigOperators.Group.List.Basic
import Mathlib.Data.List.Perm.Basic
/-
Helper lemmas for the aggregation model `GV.Agg` (property C11).
-/
namespace GV

theorem dictGet?_dictSet {α : Type} (d : List (Int × α)) (k k' : Int) (v : α) :
    dictGet? (dictSet d k v) k' = if k = k' then some v else dictGet? d k' := by
  induction d with
  | nil => simp [dictSet, dictGet?]
  | cons hd tl ih =>
    obtain ⟨a, b⟩ := hd
    simp only [dictSet]
    by_cases h : a = k
    · subst h; simp only [if_true, dictGet?]
      split <;> rfl
    · simp only [h, if_false, dictGet?, ih]
      by_cases h2 : a = k'
      · subst h2; simp [Ne.symm h]
      · simp [h2]

end GV

namespace GV.Agg

/-- the values of the rows that belong to group g, in row order -/
def members {α : Type} (gid : List Int) (col : List α) (g : Int) : List α :=
  ((gid.zip col).filter (fun r => r.1 = g)).map (·.2)

/-- well-formed input of the grouped aggregations -/
def WF {α : Type} (gid : List Int) (col : List α) : Prop :=
  gid.length = col.length ∧ ∀ g ∈ gid, 0 ≤ g

/-- mathematical value of a group: `dflt` for an empty group, else the left fold of `f`. -/
def groupVal {α : Type} (f : α → α → α) (dflt : α) : List α → α
  | [] => dflt
  | v :: vs => vs.foldl f v

/-- accumulator update on an optional accumulator -/
def accum {α : Type} (f : α → α → α) : Option α → α → Option α
  | none, v => some v
  | some a, v => some (f a v)

@[simp] theorem members_nil_left {α : Type} (col : List α) (g : Int) : members [] col g = [] := rfl
@[simp] theorem members_nil_right {α : Type} (gid : List Int) (g : Int) :
    members gid ([] : List α) g = [] := by
  simp [members]

theorem members_cons {α : Type} (a : Int) (gid : List Int) (v : α) (col : List α) (g : Int) :
    members (a :: gid) (v :: col) g =
      if a = g then v :: members gid col g else members gid col g := by
  simp only [members, List.zip_cons_cons, List.filter_cons]
  by_cases h : a = g <;> simp [h]

theorem dictGet?_bump {α : Type} (f : α → α → α) (t : List (Int × α)) (g k : Int) (v : α) :
    dictGet? (bump f t g v) k = if g = k then accum f (dictGet? t g) v else dictGet? t k := by
  unfold bump
  cases h : dictGet? t g <;> simp [dictGet?_dictSet, accum]

theorem dictGet?_scatter {α : Type} (f : α → α → α) (g : Int) :
    ∀ (gid : List Int) (col : List α) (t : List (Int × α)),
      dictGet? (scatter f gid col t) g = (members gid col g).foldl (accum f) (dictGet? t g) := by
  intro gid
  induction gid with
  | nil => intro col t; simp [scatter]
  | cons a gs ih =>
    intro col t
    cases col with
    | nil => simp [scatter]
    | cons v vs =>
      simp only [scatter, ih, dictGet?_bump, members_cons]
      by_cases h : a = g
      · subst h; simp
      · simp [h]

theorem foldl_accum_some {α : Type} (f : α → α → α) (l : List α) (a : α) :
    l.foldl (accum f) (some a) = some (l.foldl f a) := by
  induction l generalizing a with
  | nil => rfl
  | cons v vs ih => simp [List.foldl_cons, accum, ih]

theorem foldl_accum_none {α : Type} (f : α → α → α) (dflt : α) (l : List α) :
    (l.foldl (accum f) none).getD dflt = groupVal f dflt l := by
  cases l with
  | nil => rfl
  | cons v vs => simp [List.foldl_cons, accum, foldl_accum_some, groupVal]

theorem guard_ok {α : Type} {gid : List Int} {col : List α} (h : WF gid col) :
    guard gid col.length = .ok () := by
  obtain ⟨h1, h2⟩ := h
  unfold guard
  have : gid.any (· < 0) = false := by
    simp only [List.any_eq_false, decide_eq_true_eq]
    intro g hg; have := h2 g hg; omega
  simp [h1, this]

/-- the gathered table is a map over the group ids, whatever the guard says -/
theorem gather_scatter {α : Type} (f : α → α → α) (dflt : α) (col : List α) (gid : List Int) :
    gather dflt (scatter f gid col []) gid = gid.map fun g => groupVal f dflt (members gid col g) := by
  unfold gather
  apply List.map_congr_left
  intro g _
  rw [dictGet?_scatter]
  exact foldl_accum_none f dflt _

theorem grouped_eq {α : Type} (f : α → α → α) (dflt : α) (col : List α) (gid : List Int)
    (h : WF gid col) :
    grouped f dflt col gid = .ok (gid.map fun g => groupVal f dflt (members gid col g)) := by
  unfold grouped
  rw [guard_ok h, ← gather_scatter]
  rfl

/-! ### folds -/

theorem groupVal_add {M : Type} [AddMonoid M] (l : List M) :
    groupVal (· + ·) 0 l = l.sum := by
  cases l with
  | nil => rfl
  | cons v vs =>
    simp only [groupVal]
    rw [List.sum_eq_foldl, List.foldl_cons, zero_add]

theorem foldl_or (l : List Bool) (a : Bool) : l.foldl (· || ·) a = (a || l.any id) := by
  induction l generalizing a with
  | nil => simp
  | cons v vs ih => simp [ih, Bool.or_assoc]

theorem foldl_and (l : List Bool) (a : Bool) : l.foldl (· && ·) a = (a && l.all id) := by
  induction l generalizing a with
  | nil => simp
  | cons v vs ih => simp [ih, Bool.and_assoc]

theorem groupVal_or (l : List Bool) : groupVal (· || ·) false l = l.any id := by
  cases l with
  | nil => rfl
  | cons v vs => simp [groupVal, foldl_or]

theorem groupVal_and (l : List Bool) : groupVal (· && ·) true l = l.all id := by
  cases l with
  | nil => rfl
  | cons v vs => simp [groupVal, foldl_and]

theorem foldl_max_mem (vs : List Rat) (v : Rat) : vs.foldl max v ∈ v :: vs := by
  induction vs generalizing v with
  | nil => simp
  | cons w ws ih =>
    simp only [List.foldl_cons]
    have := ih (max v w)
    rcases List.mem_cons.1 this with h | h
    · rw [h]
      rcases max_choice v w with h' | h' <;> simp [h']
    · simp [h]

theorem foldl_max_ge (vs : List Rat) (v : Rat) : ∀ x ∈ v :: vs, x ≤ vs.foldl max v := by
  induction vs generalizing v with
  | nil => simp
  | cons w ws ih =>
    intro x hx
    simp only [List.foldl_cons]
    have h0 := ih (max v w)
    rcases List.mem_cons.1 hx with h | h
    · subst h; exact le_trans (le_max_left _ _) (h0 _ (List.mem_cons_self))
    · rcases List.mem_cons.1 h with h | h
      · subst h; exact le_trans (le_max_right _ _) (h0 _ (List.mem_cons_self))
      · exact h0 _ (List.mem_cons_of_mem _ h)

theorem foldl_min_mem (vs : List Rat) (v : Rat) : vs.foldl min v ∈ v :: vs := by
  induction vs generalizing v with
  | nil => simp
  | cons w ws ih =>
    simp only [List.foldl_cons]
    have := ih (min v w)
    rcases List.mem_cons.1 this with h | h
    · rw [h]
      rcases min_choice v w with h' | h' <;> simp [h']
    · simp [h]

theorem foldl_min_le (vs : List Rat) (v : Rat) : ∀ x ∈ v :: vs, vs.foldl min v ≤ x := by
  induction vs generalizing v with
  | nil => simp
  | cons w ws ih =>
    intro x hx
    simp only [List.foldl_cons]
    have h0 := ih (min v w)
    rcases List.mem_cons.1 hx with h | h
    · subst h; exact le_trans (h0 _ (List.mem_cons_self)) (min_le_left _ _)
    · rcases List.mem_cons.1 h with h | h
      · subst h; exact le_trans (h0 _ (List.mem_cons_self)) (min_le_right _ _)
      · exact h0 _ (List.mem_cons_of_mem _ h)

theorem groupVal_max_spec (dflt : Rat) (l : List Rat) (hl : l ≠ []) :
    groupVal max dflt l ∈ l ∧ ∀ x ∈ l, x ≤ groupVal max dflt l := by
  cases l with
  | nil => exact absurd rfl hl
  | cons v vs => exact ⟨foldl_max_mem vs v, foldl_max_ge vs v⟩

theorem groupVal_min_spec (dflt : Rat) (l : List Rat) (hl : l ≠ []) :
    groupVal min dflt l ∈ l ∧ ∀ x ∈ l, groupVal min dflt l ≤ x := by
  cases l with
  | nil => exact absurd rfl hl
  | cons v vs => exact ⟨foldl_min_mem vs v, foldl_min_le vs v⟩

/-! ### members -/

theorem members_map {α β : Type} (h : α → β) (gid : List Int) (xs : List α) (g : Int) :
    members gid (xs.map h) g = (members gid xs g).map h := by
  induction gid generalizing xs with
  | nil => simp
  | cons a gs ih =>
    cases xs with
    | nil => simp
    | cons x xs =>
      simp only [List.map_cons, members_cons, ih]
      split <;> simp

theorem members_length {α : Type} (gid : List Int) (col : List α) (g : Int)
    (h : gid.length = col.length) : (members gid col g).length = (members gid gid g).length := by
  induction gid generalizing col with
  | nil => simp
  | cons a gs ih =>
    cases col with
    | nil => simp at h
    | cons x xs =>
      simp only [List.length_cons, Nat.add_right_cancel_iff] at h
      simp only [members_cons]
      split <;> simp [ih xs h]

theorem members_ne_nil {α : Type} (gid : List Int) (col : List α) (g : Int)
    (h : gid.length = col.length) (hg : g ∈ gid) : members gid col g ≠ [] := by
  induction gid generalizing col with
  | nil => simp at hg
  | cons a gs ih =>
    cases col with
    | nil => simp at h
    | cons x xs =>
      simp only [List.length_cons, Nat.add_right_cancel_iff] at h
      simp only [members_cons]
      by_cases hag : a = g
      · simp [hag]
      · simp only [hag, if_false]
        rcases List.mem_cons.1 hg with h' | h'
        · exact absurd h'.symm hag
        · exact ih xs h h'

theorem members_self_length_pos (gid : List Int) (g : Int) (hg : g ∈ gid) :
    1 ≤ (members gid gid g).length := by
  have := members_ne_nil gid gid g rfl hg
  cases h : members gid gid g with
  | nil => exact absurd h this
  | cons _ _ => simp

theorem sum_map_one {α : Type} (l : List α) : (l.map fun _ => (1 : Int)).sum = (l.length : Int) := by
  induction l with
  | nil => rfl
  | cons a l ih => simp; omega

theorem grouped_ok_eq {α : Type} (f : α → α → α) (dflt : α) (col : List α) (gid : List Int)
    (res : List α) (h : grouped f dflt col gid = .ok res) :
    res = gid.map fun g => groupVal f dflt (members gid col g) := by
  unfold grouped at h
  cases hg : guard gid col.length with
  | error e => rw [hg] at h; cases h
  | ok u =>
    rw [hg] at h
    rw [← gather_scatter]
    injection h with h
    exact h.symm

/-! ### permutations of the rows -/

theorem members_rows {α : Type} (rows : List (Int × α)) (g : Int) :
    members (rows.map (·.1)) (rows.map (·.2)) g = (rows.filter (fun r => r.1 = g)).map (·.2) := by
  simp [members, List.zip_map']

theorem members_perm {α : Type} {rows rows' : List (Int × α)} (h : rows'.Perm rows) (g : Int) :
    (members (rows'.map (·.1)) (rows'.map (·.2)) g).Perm
      (members (rows.map (·.1)) (rows.map (·.2)) g) := by
  rw [members_rows, members_rows]
  exact (h.filter _).map _

theorem groupVal_perm {α : Type} (f : α → α → α) (dflt : α)
    (hc : ∀ a b, f a b = f b a) (ha : ∀ a b c, f (f a b) c = f a (f b c))
    {l l' : List α} (h : l.Perm l') : groupVal f dflt l = groupVal f dflt l' := by
  have : RightCommutative f := ⟨fun a b c => by rw [ha, hc b c, ← ha]⟩
  induction h with
  | nil => rfl
  | cons x h _ => exact h.foldl_eq x
  | swap x y l => simp only [groupVal, List.foldl_cons]; rw [hc]
  | trans _ _ ih1 ih2 => exact ih1.trans ih2

theorem any_id_perm {l l' : List Bool} (h : l.Perm l') : l.any id = l'.any id := by
  rw [Bool.eq_iff_iff]
  simp only [List.any_eq_true, id]
  constructor <;> rintro ⟨x, hx, hx'⟩
  · exact ⟨x, h.mem_iff.1 hx, hx'⟩
  · exact ⟨x, h.mem_iff.2 hx, hx'⟩

theorem all_id_perm {l l' : List Bool} (h : l.Perm l') : l.all id = l'.all id := by
  rw [Bool.eq_iff_iff]
  simp only [List.all_eq_true, id]
  constructor <;> intro H x hx
  · exact H x (h.mem_iff.2 hx)
  · exact H x (h.mem_iff.1 hx)

/-! ### relabelling -/

theorem members_relabel {α : Type} (ρ : Int → Int) (S : List Int)
    (hinj : ∀ a ∈ S, ∀ b ∈ S, ρ a = ρ b → a = b) (g : Int) (hg : g ∈ S) :
    ∀ (gid : List Int) (col : List α), (∀ a ∈ gid, a ∈ S) →
      members (gid.map ρ) col (ρ g) = members gid col g := by
  intro gid
  induction gid with
  | nil => intro col _; simp
  | cons a gs ih =>
    intro col hS
    cases col with
    | nil => simp
    | cons x xs =>
      have haS : a ∈ S := hS a List.mem_cons_self
      have ih' := ih xs (fun b hb => hS b (List.mem_cons_of_mem _ hb))
      simp only [List.map_cons, members_cons, ih']
      by_cases hag : a = g
      · simp [hag]
      · have : ρ a ≠ ρ g := fun h => hag (hinj a haS g hg h)
        simp [hag, this]

/-! ### conservation of the total -/

theorem sum_map_ite_eq (ids : List Int) (hnd : ids.Nodup) (a : Int) (ha : a ∈ ids) (v : Rat) :
    (ids.map fun g => if a = g then v else 0).sum = v := by
  induction ids with
  | nil => simp at ha
  | cons b bs ih =>
    have hnd' := List.nodup_cons.1 hnd
    simp only [List.map_cons, List.sum_cons]
    by_cases hab : a = b
    · subst hab
      have : (bs.map fun g => if a = g then v else 0) = bs.map fun _ => (0 : Rat) := by
        apply List.map_congr_left
        intro g hg
        have : a ≠ g := fun h => hnd'.1 (h ▸ hg)
        simp [this]
      rw [this]; simp
    · have : a ∈ bs := by
        rcases List.mem_cons.1 ha with h | h
        · exact absurd h hab
        · exact h
      simp [hab, ih hnd'.2 this]

theorem sum_groups_eq_total (ids : List Int) (hnd : ids.Nodup) :
    ∀ (gid : List Int) (col : List Rat), gid.length = col.length → (∀ g ∈ gid, g ∈ ids) →
      (ids.map fun g => (members gid col g).sum).sum = col.sum := by
  intro gid
  induction gid with
  | nil =>
    intro col h _
    have : col = [] := List.length_eq_zero_iff.1 (by simpa using h.symm)
    subst this
    simp
  | cons a gs ih =>
    intro col h hmem
    cases col with
    | nil => simp at h
    | cons x xs =>
      simp only [List.length_cons, Nat.add_right_cancel_iff] at h
      have ih' := ih xs h (fun b hb => hmem b (List.mem_cons_of_mem _ hb))
      have : (ids.map fun g => (members (a :: gs) (x :: xs) g).sum) =
          ids.map fun g => (if a = g then x else 0) + (members gs xs g).sum := by
        apply List.map_congr_left
        intro g _
        rw [members_cons]
        split <;> simp
      rw [this, List.sum_map_add, ih', sum_map_ite_eq ids hnd a (hmem a List.mem_cons_self)]
      simp

theorem nodup_eraseDups (l : List Int) : l.eraseDups.Nodup := by
  generalize hn : l.length = n
  induction n using Nat.strong_induction_on generalizing l with
  | _ n ih =>
    cases l with
    | nil => simp
    | cons a as =>
      rw [List.eraseDups_cons, List.nodup_cons]
      constructor
      · rw [List.mem_eraseDups]; simp
      · have hlen : (as.filter fun b => !b == a).length < n := by
          have := List.length_filter_le (fun b => !b == a) as
          simp at hn; omega
        exact ih _ hlen _ rfl

/-! ### guards -/

theorem guard_length_error (gid : List Int) (n : Nat) (h : gid.length ≠ n) :
    guard gid n = .error .shape := by
  simp [guard, h]

theorem guard_neg_error (gid : List Int) (n : Nat) (h : gid.length = n) (hneg : ∃ g ∈ gid, g < 0) :
    guard gid n = .error .valueError := by
  have : gid.any (· < 0) = true := by
    simpa [List.any_eq_true] using hneg
  simp [guard, h, this]

/-! ### `sum_by_p_id` -/

/-- the fold inside `posMap`, started from an arbitrary table and offset -/
def posFold (d : List (Int × Nat)) (l : List Int) (n : Nat) : List (Int × Nat) :=
  (l.zipIdx n).foldl (fun d (p, i) => dictSet d p i) d

theorem posMap_eq (pid : List Int) : posMap pid = posFold [] pid 0 := rfl

theorem posFold_cons (d : List (Int × Nat)) (a : Int) (l : List Int) (n : Nat) :
    posFold d (a :: l) n = posFold (dictSet d a n) l (n + 1) := by
  simp [posFold, List.zipIdx_cons]

theorem posFold_not_mem (p : Int) (l : List Int) : ∀ (d : List (Int × Nat)) (n : Nat),
    p ∉ l → dictGet? (posFold d l n) p = dictGet? d p := by
  induction l with
  | nil => intro d n _; rfl
  | cons a l ih =>
    intro d n hp
    simp only [List.mem_cons, not_or] at hp
    rw [posFold_cons, ih _ _ hp.2, dictGet?_dictSet]
    simp [Ne.symm hp.1]

theorem posFold_nodup (p : Int) (l : List Int) : ∀ (d : List (Int × Nat)) (n i : Nat),
    l.Nodup → l[i]? = some p → dictGet? (posFold d l n) p = some (n + i) := by
  induction l with
  | nil => intro d n i _ h; simp at h
  | cons a l ih =>
    intro d n i hnd h
    have hnd' := List.nodup_cons.1 hnd
    rw [posFold_cons]
    cases i with
    | zero =>
      simp only [List.getElem?_cons_zero, Option.some.injEq] at h
      subst h
      rw [posFold_not_mem _ _ _ _ hnd'.1, dictGet?_dictSet]
      simp
    | succ i =>
      simp only [List.getElem?_cons_succ] at h
      rw [ih _ _ i hnd'.2 h]
      congr 1; omega

theorem posMap_nodup (pid : List Int) (hnd : pid.Nodup) (i : Nat) (p : Int)
    (h : pid[i]? = some p) : dictGet? (posMap pid) p = some i := by
  rw [posMap_eq, posFold_nodup p pid [] 0 i hnd h]; simp

theorem posMap_not_mem (pid : List Int) (p : Int) (h : p ∉ pid) :
    dictGet? (posMap pid) p = none := by
  rw [posMap_eq, posFold_not_mem p pid [] 0 h]; rfl

theorem addAt_length (out : List Rat) (k : Nat) (v : Rat) : (addAt out k v).length = out.length := by
  simp [addAt]

theorem addAt_getElem (out : List Rat) (k : Nat) (v : Rat) (i : Nat) (h : i < (addAt out k v).length) :
    (addAt out k v)[i] = if i = k then out[i]'(by simpa [addAt_length] using h) + v
      else out[i]'(by simpa [addAt_length] using h) := by
  simp [addAt]

/-- credited amount of receiver `p`: rows pointing to `p`; negative pointers are skipped -/
def credit (ptr : List Int) (col : List Rat) (p : Int) : Rat :=
  if 0 ≤ p then (members ptr col p).sum else 0

theorem sumByPidLoop_spec (pid : List Int) (hnd : pid.Nodup) :
    ∀ (ptr : List Int) (col out : List Rat), ptr.length = col.length → out.length = pid.length →
      (∀ r ∈ ptr, 0 ≤ r → r ∈ pid) →
      sumByPidLoop (posMap pid) ptr col out =
        .ok (List.zipWith (· + ·) out (pid.map (credit ptr col))) := by
  intro ptr
  induction ptr with
  | nil =>
    intro col out _ hlen _
    simp only [sumByPidLoop]
    congr 1
    apply List.ext_getElem
    · simp [hlen]
    · intro i h1 h2
      simp [credit]
  | cons r rs ih =>
    intro col out h hlen hmem
    cases col with
    | nil => simp at h
    | cons x xs =>
      simp only [List.length_cons, Nat.add_right_cancel_iff] at h
      have hmem' : ∀ r' ∈ rs, 0 ≤ r' → r' ∈ pid := fun r' hr' => hmem r' (List.mem_cons_of_mem _ hr')
      by_cases hr : 0 ≤ r
      · obtain ⟨k, hk⟩ := List.getElem?_of_mem (hmem r List.mem_cons_self hr)
        have hklt : k < pid.length := (List.getElem?_eq_some_iff.1 hk).1
        have hkeq : pid[k] = r := (List.getElem?_eq_some_iff.1 hk).2
        simp only [sumByPidLoop, ge_iff_le, hr, if_true, posMap_nodup pid hnd k r hk]
        rw [ih xs (addAt out k x) h (by rw [addAt_length, hlen]) hmem']
        congr 1
        apply List.ext_getElem
        · simp [addAt_length]
        · intro i h1 h2
          have hi : i < pid.length := by simp [hlen] at h2; exact h2
          simp only [List.getElem_zipWith, List.getElem_map, addAt_getElem]
          by_cases hik : i = k
          · subst hik
            simp only [if_true, hkeq, credit, hr, members_cons, List.sum_cons]
            rw [add_assoc]
          · have : r ≠ pid[i] := by
              intro hh
              apply hik
              exact (List.getElem_inj hnd).1 (hh.symm.trans hkeq.symm)
            simp only [hik, if_false, credit, members_cons, this]
      · have hcred : ∀ p, credit (r :: rs) (x :: xs) p = credit rs xs p := by
          intro p
          simp only [credit, members_cons]
          split
          · have : r ≠ p := by omega
            simp [this]
          · rfl
        simp only [sumByPidLoop, ge_iff_le, hr, if_false]
        rw [ih xs out h hlen hmem', funext hcred]

theorem zipWith_zero_add (l : List Int) (F : Int → Rat) :
    List.zipWith (· + ·) (l.map fun _ => (0 : Rat)) (l.map F) = l.map F := by
  apply List.ext_getElem
  · simp
  · intro i h1 h2
    simp

theorem sumByPidLoop_missing (pid : List Int) :
    ∀ (ptr : List Int) (col out : List Rat), ptr.length = col.length →
      (∃ r ∈ ptr, 0 ≤ r ∧ r ∉ pid) →
      sumByPidLoop (posMap pid) ptr col out = .error .keyError := by
  intro ptr
  induction ptr with
  | nil => intro col out _ h; simp at h
  | cons r rs ih =>
    intro col out h hbad
    cases col with
    | nil => simp at h
    | cons x xs =>
      simp only [List.length_cons, Nat.add_right_cancel_iff] at h
      by_cases hr : 0 ≤ r
      · simp only [sumByPidLoop, ge_iff_le, hr, if_true]
        cases hget : dictGet? (posMap pid) r with
        | none => rfl
        | some k =>
          have hrin : r ∈ pid := by
            by_contra hn
            rw [posMap_not_mem pid r hn] at hget
            cases hget
          simp only
          apply ih xs _ h
          obtain ⟨b, hb, hb0, hbn⟩ := hbad
          rcases List.mem_cons.1 hb with hb' | hb'
          · subst hb'; exact absurd hrin hbn
          · exact ⟨b, hb', hb0, hbn⟩
      · simp only [sumByPidLoop, ge_iff_le, hr, if_false]
        apply ih xs _ h
        obtain ⟨b, hb, hb0, hbn⟩ := hbad
        rcases List.mem_cons.1 hb with hb' | hb'
        · subst hb'; exact absurd hb0 hr
        · exact ⟨b, hb', hb0, hbn⟩

/-! ### `join_numpy` -/

theorem firstIdx_eq (pk : List Int) (k : Int) :
    firstIdx pk k = if k ∈ pk then some (pk.idxOf k) else none := by
  induction pk with
  | nil => simp [firstIdx]
  | cons p ps ih =>
    simp only [firstIdx, ih, List.idxOf_cons, List.mem_cons]
    by_cases hp : p = k
    · simp [hp]
    · have : ¬ k = p := fun h => hp h.symm
      have hb : (p == k) = false := by simp [hp]
      simp only [hp, this, if_false, false_or, hb, cond_false]
      split <;> simp

theorem hasDup_eq_false_iff (pk : List Int) : hasDup pk = false ↔ pk.Nodup := by
  induction pk with
  | nil => simp [hasDup]
  | cons p ps ih =>
    simp only [hasDup, Bool.or_eq_false_iff, ih, List.nodup_cons]
    simp

end GV.Agg
