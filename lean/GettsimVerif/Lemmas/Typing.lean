import GettsimVerif.Core.Typing
/-
Declarative specifications and helper lemmas for the input-validation model
(`GettsimVerif/Core/Typing.lean`).  The property theorems are in `Props/C20.lean`.
-/
namespace GV.Typing

/-- `DecidableEq` for results (used by the `decide` examples). -/
instance instDecEqExceptT {ε α : Type} [DecidableEq ε] [DecidableEq α] : DecidableEq (Except ε α)
  | .ok a, .ok b =>
    if h : a = b then isTrue (by rw [h]) else isFalse (by intro e; cases e; exact h rfl)
  | .error a, .error b =>
    if h : a = b then isTrue (by rw [h]) else isFalse (by intro e; cases e; exact h rfl)
  | .ok _, .error _ => isFalse (by intro e; cases e)
  | .error _, .ok _ => isFalse (by intro e; cases e)

/-! ## Declarative specifications -/

/-- Python `a == b` on cells: equal values (`1 == 1.0 == True`), NaN equal to nothing. -/
def CellEq (a b : Cell) : Prop := a ≠ .fnan ∧ a.key = b.key

/-- no column name occurs at two positions -/
def NoDupColumns (t : Table) : Prop :=
  ∀ (i j : Nat) (n : String), i < j → (columns t)[i]? = some n → (columns t)[j]? ≠ some n

/-- `name` is `<stem>_<L>` -/
def IsGroupVar (name L : String) : Prop := ∃ stem : String, name = stem ++ "_" ++ L

/-- every row has a (non-NaN) group id and a non-NaN value, and all rows with an equal group id
carry an equal value -/
def ColConstant (ids cells : List Cell) : Prop :=
  ∀ (i : Nat) (v : Cell), cells[i]? = some v →
    ∃ g : Cell, ids[i]? = some g ∧ g ≠ .fnan ∧ v ≠ .fnan ∧
      ∀ (j : Nat) (g' w : Cell), ids[j]? = some g' → cells[j]? = some w → g.key = g'.key → w.key = v.key

/-- for every level `L` whose id column `L_id` is in the data, every column named `*_L` is
constant within the groups of `L_id` -/
def GroupVarsConstant (levels : List String) (t : Table) : Prop :=
  ∀ L, L ∈ levels → ∀ ids, (L ++ "_id", ids) ∈ t →
    ∀ name col, (name, col) ∈ t → IsGroupVar name L → ColConstant ids.cells col.cells

/-- no two rows carry the same value -/
def Distinct (l : List Cell) : Prop :=
  ∀ (i j : Nat) (a b : Cell), i < j → l[i]? = some a → l[j]? = some b → a.key ≠ b.key

/-- the column `p_id` is present and its values are pairwise different -/
def PidPresentUnique (t : Table) : Prop := ∃ p, ("p_id", p) ∈ t ∧ Distinct p.cells

/-- one pointer column: same number of rows as `p_id`; every pointer is `-1` or the id of some row;
no pointer equals the id of its own row -/
def FkColValid (pid fk : List Cell) : Prop :=
  fk.length = pid.length ∧
  ∀ (i : Nat) (v : Cell), fk[i]? = some v →
    (v.key = .i (-1) ∨ ∃ q : Cell, q ∈ pid ∧ v.key = q.key) ∧ ∀ q : Cell, pid[i]? = some q → ¬ CellEq v q

def ForeignKeysValid (fks : List String) (t : Table) : Prop :=
  ∀ p, ("p_id", p) ∈ t → ∀ k, k ∈ fks → ∀ c, (k, c) ∈ t → FkColValid p.cells c.cells

/-! ## Cell equality -/

theorem Cell.key_eq_fnan {a : Cell} : a.key = .fnan ↔ a = .fnan := by
  cases a <;> simp [Cell.key]
  split <;> simp

theorem Cell.key_i (v : Int) : (Cell.i v).key = .i v := rfl

theorem same_iff {a b : Cell} : a.same b = true ↔ a.key = b.key := by
  simp [Cell.same]

theorem same_eq_false_iff {a b : Cell} : a.same b = false ↔ a.key ≠ b.key := by
  simp [Cell.same]

theorem isNaN_iff {a : Cell} : a.isNaN = true ↔ a = .fnan := by
  cases a <;> simp [Cell.isNaN]

theorem eqv_iff {a b : Cell} : a.eqv b = true ↔ CellEq a b := by
  unfold Cell.eqv CellEq
  rw [Bool.and_eq_true, same_iff]
  constructor
  · rintro ⟨h1, h2⟩
    refine ⟨fun h => ?_, h2⟩
    rw [isNaN_iff.mpr h] at h1; simp at h1
  · rintro ⟨h1, h2⟩
    refine ⟨?_, h2⟩
    cases h : a.isNaN
    · rfl
    · exact absurd (isNaN_iff.mp h) h1

theorem eqv_eq_false_iff {a b : Cell} : a.eqv b = false ↔ ¬ CellEq a b := by
  rw [← eqv_iff]; simp

theorem CellEq.right_ne {a b : Cell} (h : CellEq a b) : b ≠ .fnan := by
  intro hb
  apply h.1
  rw [← Cell.key_eq_fnan, h.2, hb]; rfl

theorem CellEq.symm {a b : Cell} (h : CellEq a b) : CellEq b a := ⟨h.right_ne, h.2.symm⟩

theorem CellEq.trans {a b c : Cell} (h1 : CellEq a b) (h2 : CellEq b c) : CellEq a c :=
  ⟨h1.1, h1.2.trans h2.2⟩

theorem CellEq.refl {a : Cell} (h : a ≠ .fnan) : CellEq a a := ⟨h, rfl⟩

theorem eqv_congr_left {g g' : Cell} (h : g.key = g'.key) : Cell.eqv g = Cell.eqv g' := by
  funext x
  have hn : g.isNaN = g'.isNaN := by
    cases h1 : g.isNaN <;> cases h2 : g'.isNaN <;> try rfl
    · have := isNaN_iff.mp h2
      have h3 : g = .fnan := by rw [← Cell.key_eq_fnan, h, this]; rfl
      rw [isNaN_iff.mpr h3] at h1; cases h1
    · have := isNaN_iff.mp h1
      have h3 : g' = .fnan := by rw [← Cell.key_eq_fnan, ← h, this]; rfl
      rw [isNaN_iff.mpr h3] at h2; cases h2
  simp only [Cell.eqv, Cell.same, hn, h]

theorem cmax_cases (a b : Cell) : cmax a b = a ∨ cmax a b = b := by
  unfold cmax; split <;> simp

/-! ## Column names and lookup -/

theorem hasDup_eq_false_iff {l : List String} : hasDup l = false ↔ l.Nodup := by
  induction l with
  | nil => simp [hasDup]
  | cons x xs ih =>
    simp only [hasDup, Bool.or_eq_false_iff, ih, List.nodup_cons]
    constructor
    · rintro ⟨h1, h2⟩
      refine ⟨fun hm => ?_, h2⟩
      rw [List.contains_iff_mem.mpr hm] at h1; cases h1
    · rintro ⟨h1, h2⟩
      refine ⟨?_, h2⟩
      cases h : xs.contains x
      · rfl
      · exact absurd (List.contains_iff_mem.mp h) h1

theorem nodup_iff_index {α : Type} {l : List α} :
    l.Nodup ↔ ∀ (i j : Nat) (n : α), i < j → l[i]? = some n → l[j]? ≠ some n := by
  rw [List.nodup_iff_pairwise_ne, List.pairwise_iff_getElem]
  constructor
  · intro h i j n hij hi hj
    obtain ⟨h1, e1⟩ := List.getElem?_eq_some_iff.mp hi
    obtain ⟨h2, e2⟩ := List.getElem?_eq_some_iff.mp hj
    exact h i j h1 h2 hij (e1.trans e2.symm)
  · intro h i j hi hj hij e
    exact h i j l[i] hij (List.getElem?_eq_getElem hi) (by rw [List.getElem?_eq_getElem hj, e])

theorem noDupColumns_iff {t : Table} : NoDupColumns t ↔ (columns t).Nodup :=
  nodup_iff_index.symm

theorem dupColumns_eq_false_iff {t : Table} : dupColumns t = false ↔ NoDupColumns t := by
  rw [noDupColumns_iff]; exact hasDup_eq_false_iff

theorem lookup_mem {t : Table} {n : String} {c : Col} (h : lookup t n = some c) : (n, c) ∈ t := by
  induction t with
  | nil => simp [lookup] at h
  | cons x xs ih =>
    obtain ⟨n', c'⟩ := x
    simp only [lookup] at h
    split at h
    · rename_i hn
      cases h; subst hn; exact List.mem_cons_self
    · exact List.mem_cons_of_mem _ (ih h)

theorem lookup_eq_none_iff {t : Table} {n : String} : lookup t n = none ↔ n ∉ columns t := by
  induction t with
  | nil => simp [lookup, columns]
  | cons x xs ih =>
    obtain ⟨n', c'⟩ := x
    simp only [lookup, columns, List.map_cons, List.mem_cons, not_or]
    split
    · rename_i hn; simp [hn]
    · rename_i hn
      rw [show lookup xs n = none ↔ n ∉ List.map (·.1) xs from ih]
      constructor
      · intro h; exact ⟨fun e => hn e.symm, h⟩
      · intro h; exact h.2

theorem mem_columns_of_mem {t : Table} {n : String} {c : Col} (h : (n, c) ∈ t) : n ∈ columns t :=
  List.mem_map.mpr ⟨(n, c), h, rfl⟩

theorem lookup_of_mem {t : Table} (hnd : (columns t).Nodup) {n : String} {c : Col}
    (h : (n, c) ∈ t) : lookup t n = some c := by
  induction t with
  | nil => cases h
  | cons x xs ih =>
    obtain ⟨n', c'⟩ := x
    simp only [columns, List.map_cons, List.nodup_cons] at hnd
    simp only [lookup]
    rcases List.mem_cons.mp h with h | h
    · cases h; simp
    · split
      · rename_i hn
        subst hn
        exact absurd (mem_columns_of_mem h) hnd.1
      · exact ih hnd.2 h

theorem lookup_iff_mem {t : Table} (hnd : (columns t).Nodup) {n : String} {c : Col} :
    lookup t n = some c ↔ (n, c) ∈ t := ⟨lookup_mem, lookup_of_mem hnd⟩

theorem hasSuffix_iff {name suf : String} :
    hasSuffix name suf = true ↔ ∃ stem : String, name = stem ++ suf := by
  unfold hasSuffix
  rw [List.isSuffixOf_iff_suffix]
  constructor
  · rintro ⟨l, hl⟩
    refine ⟨String.ofList l, ?_⟩
    apply String.ext
    rw [String.toList_append, String.toList_ofList, hl]
  · rintro ⟨stem, rfl⟩
    exact ⟨stem.toList, by rw [String.toList_append]⟩

theorem hasSuffix_group_iff {name L : String} :
    hasSuffix name ("_" ++ L) = true ↔ IsGroupVar name L := by
  rw [hasSuffix_iff]
  constructor
  · rintro ⟨stem, h⟩; exact ⟨stem, by rw [h, String.append_assoc]⟩
  · rintro ⟨stem, h⟩; exact ⟨stem, by rw [h, String.append_assoc]⟩

/-! ## Group constancy -/

/-- the fold step of `groupMax` -/
def gstep (g : Cell) (acc : Option Cell) (row : Cell × Cell) : Option Cell :=
  if Cell.eqv g row.1 then
    (match acc with
     | none => some row.2
     | some m => some (cmax m row.2))
  else acc

theorem groupMax_eq (rows : List (Cell × Cell)) (g : Cell) :
    groupMax rows g = rows.foldl (gstep g) none := rfl

theorem foldl_gstep_mem (g : Cell) (rows : List (Cell × Cell)) (acc : Option Cell) (m : Cell)
    (h : rows.foldl (gstep g) acc = some m) :
    acc = some m ∨ ∃ row, row ∈ rows ∧ Cell.eqv g row.1 = true ∧ row.2 = m := by
  induction rows generalizing acc with
  | nil => left; simpa using h
  | cons r rs ih =>
    rw [List.foldl_cons] at h
    rcases ih _ h with h1 | ⟨row, hr, he, hm⟩
    · unfold gstep at h1
      split at h1
      · rename_i he
        cases acc with
        | none =>
          simp only [Option.some.injEq] at h1
          exact Or.inr ⟨r, List.mem_cons_self, he, h1⟩
        | some a =>
          simp only [Option.some.injEq] at h1
          rcases cmax_cases a r.2 with hc | hc
          · left; rw [← h1, hc]
          · exact Or.inr ⟨r, List.mem_cons_self, he, by rw [← h1, hc]⟩
      · exact Or.inl h1
    · exact Or.inr ⟨row, List.mem_cons_of_mem _ hr, he, hm⟩

theorem foldl_gstep_none (g : Cell) (rows : List (Cell × Cell)) (acc : Option Cell)
    (h : rows.foldl (gstep g) acc = none) :
    acc = none ∧ ∀ row, row ∈ rows → Cell.eqv g row.1 = false := by
  induction rows generalizing acc with
  | nil => exact ⟨by simpa using h, fun _ hr => by cases hr⟩
  | cons r rs ih =>
    rw [List.foldl_cons] at h
    obtain ⟨h1, h2⟩ := ih _ h
    unfold gstep at h1
    split at h1
    · cases acc <;> simp at h1
    · rename_i he
      refine ⟨h1, fun row hr => ?_⟩
      rcases List.mem_cons.mp hr with rfl | hr
      · simpa using he
      · exact h2 row hr

theorem groupMax_congr {rows : List (Cell × Cell)} {g g' : Cell} (h : g.key = g'.key) :
    groupMax rows g = groupMax rows g' := by
  rw [groupMax_eq, groupMax_eq]
  have : gstep g = gstep g' := by
    funext acc row
    simp only [gstep, eqv_congr_left h]
  rw [this]

theorem zip_mem_iff {ids cells : List Cell} {row : Cell × Cell} :
    row ∈ ids.zip cells ↔ ∃ i : Nat, ids[i]? = some row.1 ∧ cells[i]? = some row.2 := by
  rw [List.mem_iff_getElem?]
  constructor
  · rintro ⟨i, h⟩; exact ⟨i, List.getElem?_zip_eq_some.mp h⟩
  · rintro ⟨i, h⟩; exact ⟨i, List.getElem?_zip_eq_some.mpr h⟩

theorem colConstant_iff {ids cells : List Cell} :
    colConstant ids cells = true ↔ ColConstant ids cells := by
  unfold colConstant
  simp only [Bool.and_eq_true, decide_eq_true_eq, List.all_eq_true]
  constructor
  · rintro ⟨hlen, hall⟩
    intro i v hv
    have hi : i < cells.length := (List.getElem?_eq_some_iff.mp hv).1
    have hi' : i < ids.length := Nat.lt_of_lt_of_le hi hlen
    refine ⟨ids[i], List.getElem?_eq_getElem hi', ?_⟩
    have key : ∀ (j : Nat) (g' w : Cell), ids[j]? = some g' → cells[j]? = some w →
        ∃ m, groupMax (ids.zip cells) g' = some m ∧ CellEq m w ∧ g' ≠ .fnan := by
      intro j g' w hg hw
      have hmem : (g', w) ∈ ids.zip cells := zip_mem_iff.mpr ⟨j, hg, hw⟩
      have := hall _ hmem
      simp only at this
      split at this
      · rename_i m hm
        refine ⟨m, hm, eqv_iff.mp this, ?_⟩
        rw [groupMax_eq] at hm
        rcases foldl_gstep_mem _ _ _ _ hm with h0 | ⟨row, _, he, _⟩
        · cases h0
        · exact (eqv_iff.mp he).1
      · cases this
    obtain ⟨m, hm, hmv, hg⟩ := key i ids[i] v (List.getElem?_eq_getElem hi') hv
    refine ⟨hg, hmv.right_ne, ?_⟩
    intro j g' w hg' hw hk
    obtain ⟨m', hm', hmw, _⟩ := key j g' w hg' hw
    rw [← groupMax_congr hk, hm] at hm'
    cases hm'
    exact hmw.2.symm.trans hmv.2
  · intro h
    constructor
    · apply Nat.le_of_not_lt
      intro hlt
      have hc : cells[ids.length]? = some cells[ids.length] := List.getElem?_eq_getElem hlt
      obtain ⟨g, hg, _⟩ := h _ _ hc
      have : ids[ids.length]? = none := List.getElem?_eq_none_iff.mpr (Nat.le_refl _)
      rw [this] at hg; cases hg
    · intro row hrow
      obtain ⟨i, hi1, hi2⟩ := zip_mem_iff.mp hrow
      obtain ⟨g, hg, hgn, hvn, hall⟩ := h i row.2 hi2
      rw [hi1] at hg; cases hg
      split
      · rename_i m hm
        rw [groupMax_eq] at hm
        rcases foldl_gstep_mem _ _ _ _ hm with h0 | ⟨row', hr', he, hm'⟩
        · cases h0
        · obtain ⟨j, hj1, hj2⟩ := zip_mem_iff.mp hr'
          have hk := hall j row'.1 row'.2 hj1 hj2 (eqv_iff.mp he).2
          rw [eqv_iff, ← hm']
          refine ⟨fun hw => hvn ?_, hk⟩
          rw [← Cell.key_eq_fnan, ← hk, hw]; rfl
      · rename_i hnone
        rw [groupMax_eq] at hnone
        have := (foldl_gstep_none _ _ _ hnone).2 row hrow
        rw [eqv_eq_false_iff] at this
        exact absurd (CellEq.refl hgn) this

theorem groupVarsConstant_ok_iff {levels : List String} {t : Table} (hnd : (columns t).Nodup) :
    groupVarsConstant levels t = .ok () ↔ GroupVarsConstant levels t := by
  unfold groupVarsConstant GroupVarsConstant
  constructor
  · intro h
    split at h
    · rename_i hall
      simp only [List.all_eq_true] at hall
      intro L hL ids hids name col hcol hgv
      have := hall _ hcol L hL
      rw [lookup_of_mem hnd hids] at this
      simp only [Bool.or_eq_true, Bool.not_eq_true'] at this
      rcases this with h1 | h1
      · rw [hasSuffix_group_iff.mpr hgv] at h1; cases h1
      · exact colConstant_iff.mp h1
    · cases h
  · intro h
    rw [if_pos]
    simp only [List.all_eq_true]
    intro nc hnc L hL
    split
    · rfl
    · rename_i ids hids
      simp only [Bool.or_eq_true, Bool.not_eq_true']
      cases hs : hasSuffix nc.1 ("_" ++ L)
      · left; rfl
      · right
        exact colConstant_iff.mpr
          (h L hL ids (lookup_mem hids) nc.1 nc.2 hnc (hasSuffix_group_iff.mp hs))

theorem groupVarsConstant_cases (levels : List String) (t : Table) :
    groupVarsConstant levels t = .ok () ∨ groupVarsConstant levels t = .error .valueError := by
  unfold groupVarsConstant; split <;> simp

/-! ## p_id uniqueness -/

theorem allDistinct_iff_pairwise {l : List Cell} :
    allDistinct l = true ↔ l.Pairwise (fun a b => a.key ≠ b.key) := by
  induction l with
  | nil => simp [allDistinct]
  | cons x xs ih =>
    simp only [allDistinct, Bool.and_eq_true, List.all_eq_true, Bool.not_eq_true',
      same_eq_false_iff, ih, List.pairwise_cons]

theorem allDistinct_iff {l : List Cell} : allDistinct l = true ↔ Distinct l := by
  rw [allDistinct_iff_pairwise, List.pairwise_iff_getElem]
  constructor
  · intro h
    intro i j a b hij hi hj
    obtain ⟨h1, e1⟩ := List.getElem?_eq_some_iff.mp hi
    obtain ⟨h2, e2⟩ := List.getElem?_eq_some_iff.mp hj
    rw [← e1, ← e2]
    exact h i j h1 h2 hij
  · intro h i j hi hj hij
    exact h i j _ _ hij (List.getElem?_eq_getElem hi) (List.getElem?_eq_getElem hj)

theorem pidUnique_ok_iff {t : Table} (hnd : (columns t).Nodup) :
    pidUnique t = .ok () ↔ PidPresentUnique t := by
  unfold pidUnique PidPresentUnique
  constructor
  · intro h
    split at h
    · cases h
    · rename_i p hp
      split at h
      · rename_i hd
        exact ⟨p, lookup_mem hp, allDistinct_iff.mp hd⟩
      · cases h
  · rintro ⟨p, hp, hd⟩
    rw [lookup_of_mem hnd hp]
    simp only
    rw [if_pos (allDistinct_iff.mpr hd)]

theorem pidUnique_cases (t : Table) :
    pidUnique t = .ok () ∨ pidUnique t = .error .valueError := by
  unfold pidUnique; split
  · simp
  · split <;> simp

theorem pidUnique_ok_lookup {t : Table} (h : pidUnique t = .ok ()) : ∃ p, lookup t "p_id" = some p := by
  unfold pidUnique at h
  split at h
  · cases h
  · rename_i p hp; exact ⟨p, hp⟩

/-! ## Foreign keys -/

theorem fkColValid_iff {pid fk : List Cell} : fkColValid pid fk = true ↔ FkColValid pid fk := by
  unfold fkColValid FkColValid
  simp only [Bool.and_eq_true, decide_eq_true_eq, List.all_eq_true, Bool.or_eq_true,
    List.any_eq_true, same_iff, Bool.not_eq_true', eqv_eq_false_iff]
  constructor
  · rintro ⟨⟨h1, hlen⟩, h3⟩
    refine ⟨hlen, fun i v hv => ⟨?_, fun q hq => ?_⟩⟩
    · exact h1 v (List.mem_iff_getElem?.mpr ⟨i, hv⟩)
    · exact h3 (v, q) (zip_mem_iff.mpr ⟨i, hv, hq⟩)
  · rintro ⟨hlen, h⟩
    refine ⟨⟨fun v hv => ?_, hlen⟩, fun vp hvp => ?_⟩
    · obtain ⟨i, hi⟩ := List.mem_iff_getElem?.mp hv
      exact (h i v hi).1
    · obtain ⟨i, hi1, hi2⟩ := zip_mem_iff.mp hvp
      exact (h i vp.1 hi1).2 vp.2 hi2

theorem foreignKeysValid_ok_iff {fks : List String} {t : Table} (hnd : (columns t).Nodup)
    (hp : ∃ p, ("p_id", p) ∈ t) :
    foreignKeysValid fks t = .ok () ↔ ForeignKeysValid fks t := by
  obtain ⟨p, hp⟩ := hp
  unfold foreignKeysValid ForeignKeysValid
  rw [lookup_of_mem hnd hp]
  simp only
  constructor
  · intro h
    split at h
    · rename_i hall
      simp only [List.all_eq_true] at hall
      intro p' hp' k hk c hc
      have : p' = p := by
        have := lookup_of_mem hnd hp'
        rw [lookup_of_mem hnd hp] at this
        exact (Option.some.inj this).symm
      subst this
      have := hall k hk
      rw [lookup_of_mem hnd hc] at this
      exact fkColValid_iff.mp this
    · cases h
  · intro h
    rw [if_pos]
    simp only [List.all_eq_true]
    intro k hk
    split
    · rfl
    · rename_i c hc
      exact fkColValid_iff.mpr (h p hp k hk c (lookup_mem hc))

theorem foreignKeysValid_cases (fks : List String) (t : Table) (hp : ∃ p, lookup t "p_id" = some p) :
    foreignKeysValid fks t = .ok () ∨ foreignKeysValid fks t = .error .valueError := by
  obtain ⟨p, hp⟩ := hp
  unfold foreignKeysValid
  rw [hp]
  simp only
  split <;> simp

/-- every failure of `processAndCheck` is a `ValueError` -/
theorem processAndCheck_cases (levels fks : List String) (t : Table) :
    processAndCheck levels fks t = .ok () ∨ processAndCheck levels fks t = .error .valueError := by
  unfold processAndCheck
  split
  · simp
  · rcases groupVarsConstant_cases levels t with h | h <;> rw [h] <;> simp only
    · rcases pidUnique_cases t with h' | h' <;> rw [h'] <;> simp only
      · exact foreignKeysValid_cases fks t (pidUnique_ok_lookup h')
      · simp
    · simp

/-! ## `mapE` and `convert` -/

theorem mapE_ok {f : Cell → Except Err Cell} {l l' : List Cell} (h : mapE f l = .ok l') :
    l'.length = l.length ∧
      ∀ (i : Nat) (x : Cell), l[i]? = some x → ∃ y, l'[i]? = some y ∧ f x = .ok y := by
  induction l generalizing l' with
  | nil =>
    simp only [mapE] at h; cases h
    exact ⟨rfl, fun i x hx => by simp at hx⟩
  | cons a as ih =>
    simp only [mapE] at h
    split at h
    · cases h
    · rename_i a' ha
      split at h
      · cases h
      · rename_i as' has
        cases h
        obtain ⟨ih1, ih2⟩ := ih has
        refine ⟨by simp [ih1], fun i x hx => ?_⟩
        cases i with
        | zero => simp at hx; subst hx; exact ⟨a', by simp, ha⟩
        | succ k => simp at hx; simpa using ih2 k x hx

theorem mapE_id (l : List Cell) : mapE (fun c => .ok c) l = .ok l := by
  induction l with
  | nil => rfl
  | cons a as ih => simp only [mapE, ih]

/-- if `f` only fails with `ValueError` and fails on some cell, the whole map is a `ValueError` -/
theorem mapE_valueError {f : Cell → Except Err Cell} {l : List Cell}
    (hf : ∀ x e, f x = .error e → e = .valueError) {x : Cell} (hx : x ∈ l) {e : Err}
    (hxe : f x = .error e) : mapE f l = .error .valueError := by
  induction l with
  | nil => cases hx
  | cons a as ih =>
    simp only [mapE]
    split
    · rename_i e' ha; rw [hf a e' ha]
    · rename_i a' ha
      rcases List.mem_cons.mp hx with rfl | hx'
      · rw [hxe] at ha; cases ha
      · rw [ih hx']

theorem convert_ok {c c' : Col} {t : ITy} (h : convert c t = .ok c') :
    ∃ f, cellFn c.dtype t = .ok f ∧ mapE f c.cells = .ok c'.cells ∧ c'.dtype = t.dtype := by
  unfold convert at h
  split at h
  · cases h
  · rename_i f hf
    split at h
    · cases h
    · rename_i cs hcs
      cases h
      exact ⟨f, hf, hcs, rfl⟩

theorem convert_eq_of_cellFn {c : Col} {t : ITy} {f : Cell → Except Err Cell}
    (hf : cellFn c.dtype t = .ok f) :
    convert c t = match mapE f c.cells with
      | .error e => .error e
      | .ok cs => .ok { dtype := t.dtype, cells := cs } := by
  unfold convert; rw [hf]
  rfl

theorem hasExpectedType_dtype (cs : List Cell) (t : ITy) :
    hasExpectedType { dtype := t.dtype, cells := cs } t = true := by
  cases t <;> rfl

theorem hasExpectedType_iff {c : Col} {t : ITy} : hasExpectedType c t = true ↔ c.dtype = t.dtype := by
  obtain ⟨d, cs⟩ := c
  cases t <;> cases d <;> simp [hasExpectedType, ITy.dtype]

theorem num_cast_of_den_one {q : Rat} (h : q.den = 1) : ((q.num : Int) : Rat) = q :=
  Rat.ext (by simp) (by simp [h])

/-- every cell map chosen for an int64 / float64 / bool source preserves the numeric value, provided
int64 cells cast to float are at most 2^53 in absolute value -/
theorem cellFn_lossless {src : DType} {t : ITy} {f : Cell → Except Err Cell}
    (hsrc : src = .int64 ∨ src = .float64 ∨ src = .bool) (hf : cellFn src t = .ok f)
    (x y : Cell) (hg : t = .float → ∀ v : Int, x = .i v → exactlyRepresentable v = true)
    (hxy : f x = .ok y) : numOf y = numOf x := by
  rcases hsrc with rfl | rfl | rfl <;> cases t <;> simp only [cellFn] at hf <;>
    first
    | (injection hf with hf; subst hf)
    | cases hf
  -- int64 → float
  · cases x with
    | i v =>
      have := hg rfl v rfl
      simp only [intToFloat, roundIntToDouble, this, if_true] at hxy
      cases hxy; rfl
    | _ => simp [intToFloat] at hxy
  -- int64 → int
  · cases hxy; rfl
  -- int64 → bool
  · cases x with
    | i v =>
      simp only [intToBool] at hxy
      split at hxy
      · rename_i h0; cases hxy; subst h0; rfl
      · split at hxy
        · rename_i h1; cases hxy; subst h1; rfl
        · cases hxy
    | _ => simp [intToBool] at hxy
  -- float64 → float
  · cases hxy; rfl
  -- float64 → int
  · cases x with
    | f q =>
      simp only [floatToInt] at hxy
      split at hxy
      · rename_i hq; cases hxy
        simp only [numOf, num_cast_of_den_one hq.1]
      · cases hxy
    | _ => simp [floatToInt] at hxy
  -- float64 → bool
  · cases x with
    | f q =>
      simp only [floatToBool] at hxy
      split at hxy
      · rename_i h0; cases hxy; subst h0; rfl
      · split at hxy
        · rename_i h1; cases hxy; subst h1; rfl
        · cases hxy
    | _ => simp [floatToBool] at hxy
  -- bool → int
  · cases x with
    | b v =>
      simp only [boolToInt] at hxy
      cases hxy
      cases v <;> rfl
    | _ => simp [boolToInt] at hxy

/-! ## `convertAll` -/

/-- relation between a column and its image under `_convert_data_to_correct_types` -/
def ConvRel (types : List (String × ITy)) (nc nc' : String × Col) : Prop :=
  (needsConv types nc = false ∧ nc' = nc) ∨
  (∃ ty c', lookupTy types nc.1 = some ty ∧ hasExpectedType nc.2 ty = false ∧
     convert nc.2 ty = .ok c' ∧ nc' = (nc.1, c'))

theorem colOutcome_none {types : List (String × ITy)} {nc : String × Col}
    (h : colOutcome types nc = .ok none) : needsConv types nc = false := by
  unfold colOutcome at h
  unfold needsConv
  cases hl : lookupTy types nc.1 with
  | none => rfl
  | some ty =>
    rw [hl] at h
    simp only at h ⊢
    cases he : hasExpectedType nc.2 ty
    · rw [he] at h
      simp only [Bool.false_eq_true, if_false] at h
      split at h <;> cases h
    · rfl

theorem colOutcome_some {types : List (String × ITy)} {nc : String × Col} {c' : Col}
    (h : colOutcome types nc = .ok (some c')) :
    needsConv types nc = true ∧ ∃ ty, lookupTy types nc.1 = some ty ∧
      hasExpectedType nc.2 ty = false ∧ convert nc.2 ty = .ok c' := by
  unfold colOutcome at h
  unfold needsConv
  cases hl : lookupTy types nc.1 with
  | none => rw [hl] at h; cases h
  | some ty =>
    rw [hl] at h
    simp only at h ⊢
    cases he : hasExpectedType nc.2 ty
    · rw [he] at h
      simp only [Bool.false_eq_true, if_false] at h
      split at h
      · rename_i c'' hc
        cases h
        exact ⟨by simp, ty, rfl, he, hc⟩
      · cases h
    · rw [he] at h; cases h

theorem colOutcome_of_not_needsConv {types : List (String × ITy)} {nc : String × Col}
    (h : needsConv types nc = false) : colOutcome types nc = .ok none := by
  unfold needsConv at h
  unfold colOutcome
  split
  · rfl
  · rename_i ty hl
    rw [hl] at h
    simp only [Bool.not_eq_eq_eq_not, Bool.not_false] at h
    rw [if_pos h]

theorem colOutcome_error {types : List (String × ITy)} {nc : String × Col} {e : Err}
    (h : colOutcome types nc = .error e) :
    ∃ ty, lookupTy types nc.1 = some ty ∧ hasExpectedType nc.2 ty = false ∧
      convert nc.2 ty = .error e := by
  unfold colOutcome at h
  split at h
  · cases h
  · rename_i ty hl
    split at h
    · cases h
    · rename_i he
      split at h
      · cases h
      · rename_i e' hc
        cases h
        exact ⟨ty, hl, by simpa using he, hc⟩

theorem colOutcome_error_of {types : List (String × ITy)} {nc : String × Col} {ty : ITy} {e : Err}
    (hl : lookupTy types nc.1 = some ty) (he : hasExpectedType nc.2 ty = false)
    (hc : convert nc.2 ty = .error e) : colOutcome types nc = .error e := by
  unfold colOutcome
  rw [hl]
  simp only [he, Bool.false_eq_true, if_false, hc]

/-- successful run of the loop without collected error -/
theorem convertAllAux_ok {types : List (String × ITy)} {t t' : Table} {names : List String}
    (h : convertAllAux types t = .ok (t', names, false)) :
    names = (t.filter (needsConv types)).map (·.1) ∧ t'.length = t.length ∧
      ∀ (i : Nat) (nc : String × Col), t[i]? = some nc →
        ∃ nc', t'[i]? = some nc' ∧ ConvRel types nc nc' := by
  induction t generalizing t' names with
  | nil =>
    simp only [convertAllAux] at h; cases h
    exact ⟨rfl, rfl, fun i nc hnc => by simp at hnc⟩
  | cons a as ih =>
    simp only [convertAllAux] at h
    split at h
    · -- error
      split at h
      · split at h
        · cases h
        · cases h
      · cases h
    · -- untouched
      rename_i ho
      split at h
      · cases h
      · rename_i t'' names'' bad hrec
        cases h
        obtain ⟨ih1, ih2, ih3⟩ := ih hrec
        have hn := colOutcome_none ho
        refine ⟨by simp [hn, ih1], by simp [ih2], fun i nc hnc => ?_⟩
        cases i with
        | zero => simp at hnc; subst hnc; exact ⟨a, by simp, Or.inl ⟨hn, rfl⟩⟩
        | succ k => simp at hnc; simpa using ih3 k nc hnc
    · -- converted
      rename_i c' ho
      split at h
      · cases h
      · rename_i t'' names'' bad hrec
        cases h
        obtain ⟨ih1, ih2, ih3⟩ := ih hrec
        obtain ⟨hn, ty, h1, h2, h3⟩ := colOutcome_some ho
        refine ⟨by simp [hn, ih1], by simp [ih2], fun i nc hnc => ?_⟩
        cases i with
        | zero =>
          simp at hnc; subst hnc
          exact ⟨(a.1, c'), by simp, Or.inr ⟨ty, c', h1, h2, h3, rfl⟩⟩
        | succ k => simp at hnc; simpa using ih3 k nc hnc

theorem convertAll_ok {types : List (String × ITy)} {t t' : Table} {names : List String}
    (h : convertAll types t = .ok (t', names)) : convertAllAux types t = .ok (t', names, false) := by
  unfold convertAll at h
  split at h
  · cases h
  · rename_i t'' names'' bad haux
    split at h
    · cases h
    · rename_i hb
      cases h
      simp only [Bool.not_eq_true] at hb
      rw [haux, hb]

/-- a failing column makes the loop fail or set the error flag -/
theorem convertAllAux_bad {types : List (String × ITy)} {t t' : Table} {names : List String}
    {bad : Bool} {nc : String × Col} {e : Err} (hnc : nc ∈ t) (he : colOutcome types nc = .error e)
    (h : convertAllAux types t = .ok (t', names, bad)) : bad = true := by
  induction t generalizing t' names bad with
  | nil => cases hnc
  | cons a as ih =>
    simp only [convertAllAux] at h
    rcases List.mem_cons.mp hnc with rfl | hmem
    · rw [he] at h
      simp only at h
      split at h
      · split at h
        · cases h
        · cases h; rfl
      · cases h
    · split at h
      · split at h
        · split at h
          · cases h
          · cases h; rfl
        · cases h
      · split at h
        · cases h
        · rename_i hrec; cases h; exact ih hmem hrec
      · split at h
        · cases h
        · rename_i hrec; cases h; exact ih hmem hrec

/-- if every failing column fails with a `ValueError`, the loop never raises another error -/
theorem convertAllAux_no_other {types : List (String × ITy)} {t : Table}
    (hall : ∀ nc e, nc ∈ t → colOutcome types nc = .error e → e = .valueError) :
    ∃ r, convertAllAux types t = .ok r := by
  induction t with
  | nil => exact ⟨_, rfl⟩
  | cons a as ih =>
    obtain ⟨⟨t'', names'', bad⟩, hr⟩ := ih (fun nc e hnc => hall nc e (List.mem_cons_of_mem _ hnc))
    simp only [convertAllAux]
    split
    · rename_i e he
      have := hall a e List.mem_cons_self he
      subst this
      simp only [if_true, hr]
      exact ⟨_, rfl⟩
    · simp only [hr]; exact ⟨_, rfl⟩
    · simp only [hr]; exact ⟨_, rfl⟩

theorem convertAllAux_all_typed {types : List (String × ITy)} {t : Table}
    (hall : ∀ nc, nc ∈ t → needsConv types nc = false) :
    convertAllAux types t = .ok (t, [], false) := by
  induction t with
  | nil => rfl
  | cons a as ih =>
    simp only [convertAllAux, colOutcome_of_not_needsConv (hall a List.mem_cons_self),
      ih (fun nc hnc => hall nc (List.mem_cons_of_mem _ hnc))]

/-! ## failure modes of the cell maps -/

theorem floatToInt_err {x : Cell} {e : Err} (h : floatToInt x = .error e) : e = .valueError := by
  cases x <;> simp only [floatToInt] at h
  case f q => split at h <;> cases h; rfl
  all_goals (cases h; rfl)

theorem intToBool_err {x : Cell} {e : Err} (h : intToBool x = .error e) : e = .valueError := by
  cases x <;> simp only [intToBool] at h
  case i v =>
    split at h
    · cases h
    · split at h <;> cases h; rfl
  all_goals (cases h; rfl)

theorem floatToBool_err {x : Cell} {e : Err} (h : floatToBool x = .error e) : e = .valueError := by
  cases x <;> simp only [floatToBool] at h
  case f q =>
    split at h
    · cases h
    · split at h <;> cases h; rfl
  all_goals (cases h; rfl)

theorem floatToInt_fails {x : Cell}
    (h : ∀ z : Int, -(2 ^ 63 : Int) ≤ z → z < (2 ^ 63 : Int) → x ≠ .f (z : Rat)) :
    floatToInt x = .error .valueError := by
  cases x <;> simp only [floatToInt]
  case f q =>
    split
    · rename_i hq
      exact absurd (by rw [num_cast_of_den_one hq.1]) (h q.num hq.2.1 hq.2.2)
    · rfl

theorem intToBool_fails {x : Cell} (h0 : numOf x ≠ some 0) (h1 : numOf x ≠ some 1) :
    intToBool x = .error .valueError := by
  cases x <;> simp only [intToBool]
  case i v =>
    split
    · rename_i hv; subst hv; exact absurd rfl h0
    · split
      · rename_i hv; subst hv; exact absurd rfl h1
      · rfl

theorem floatToBool_fails {x : Cell} (h0 : numOf x ≠ some 0) (h1 : numOf x ≠ some 1) :
    floatToBool x = .error .valueError := by
  cases x <;> simp only [floatToBool]
  case f q =>
    split
    · rename_i hv; subst hv; exact absurd rfl h0
    · split
      · rename_i hv; subst hv; exact absurd rfl h1
      · rfl

end GV.Typing
