import GettsimVerif.Lemmas.SimPerm
/-
Helper lemmas for property C15 on the CONCRETE node operations of `Core/Simulate.lean`:
group-constancy of the results of grouped aggregations, of row-wise rules / time conversions of
group-constant arguments, and the lift through the DAG.
-/
namespace GV.Simulate
open GV.VecDtype (R DT numOf)
open GV.Lang (Val FunDef)
open GV.TimeConv (TUnit)

/-! ## definitions -/

/-- rows with the same (existing) entry in `gid` carry the same entry in `l`
("`l` factors through `gid`") -/
def KerLe {α : Type} (gid : List Int) (l : List α) : Prop :=
  ∀ i j : Nat, gid[i]? = gid[j]? → gid[i]?.isSome → l[i]? = l[j]?

/-- same fine id ⇒ same coarse id (e.g. `bg ⊑ fg ⊑ hh`) -/
def Refines (fine coarse : List Int) : Prop :=
  ∀ i j : Nat, fine[i]? = fine[j]? → fine[i]?.isSome → coarse[i]? = coarse[j]?

/-- the column has a single value per group of `gid` (scalars are constant everywhere) -/
def ConstOn (gid : List Int) (c : Col) : Prop :=
  c.scalar ∨ (c.vals.length = gid.length ∧
    ∀ i j : Nat, gid[i]? = gid[j]? → gid[i]?.isSome → c.vals[i]? = c.vals[j]?)

theorem refines_iff (fine coarse : List Int) : Refines fine coarse ↔ KerLe fine coarse := Iff.rfl

theorem constOn_iff (gid : List Int) (c : Col) :
    ConstOn gid c ↔ (c.scalar = true ∨ (c.vals.length = gid.length ∧ KerLe gid c.vals)) := Iff.rfl

/-- bounded form, for the decision procedure -/
theorem gc_kerLe_iff_bounded {α : Type} (gid : List Int) (l : List α) :
    KerLe gid l ↔ ∀ i, i < gid.length → ∀ j, j < gid.length → gid[i]? = gid[j]? → l[i]? = l[j]? := by
  constructor
  · intro h i hi j _ hij
    exact h i j hij (by simp [hi])
  · intro h i j hij hs
    have hi : i < gid.length := by
      rcases Nat.lt_or_ge i gid.length with h' | h'
      · exact h'
      · rw [List.getElem?_eq_none h'] at hs; cases hs
    have hj : j < gid.length := by
      rcases Nat.lt_or_ge j gid.length with h' | h'
      · exact h'
      · rw [hij, List.getElem?_eq_none h'] at hs; cases hs
    exact h i hi j hj hij

instance {α : Type} [DecidableEq α] (gid : List Int) (l : List α) : Decidable (KerLe gid l) :=
  decidable_of_iff _ (gc_kerLe_iff_bounded gid l).symm

instance (fine coarse : List Int) : Decidable (Refines fine coarse) :=
  decidable_of_iff _ (refines_iff fine coarse).symm

instance (gid : List Int) (c : Col) : Decidable (ConstOn gid c) :=
  decidable_of_iff _ (constOn_iff gid c).symm

/-! ## `KerLe` -/

theorem gc_kerLe_map {α β : Type} {gid : List Int} {l : List α} (g : α → β) (h : KerLe gid l) :
    KerLe gid (l.map g) := by
  intro i j hij hs
  simp only [List.getElem?_map, h i j hij hs]

theorem gc_kerLe_self_map {β : Type} (gid : List Int) (g : Int → β) : KerLe gid (gid.map g) := by
  intro i j hij _
  simp only [List.getElem?_map, hij]

theorem gc_kerLe_trans {α : Type} {fine coarse : List Int} {l : List α}
    (hr : Refines fine coarse) (hlen : fine.length = coarse.length) (h : KerLe coarse l) :
    KerLe fine l := by
  intro i j hij hs
  refine h i j (hr i j hij hs) ?_
  have hi : i < fine.length := by
    rcases Nat.lt_or_ge i fine.length with h' | h'
    · exact h'
    · rw [List.getElem?_eq_none h'] at hs; cases hs
  simp [← hlen, hi]

/-- equal inputs of a successful `mapM` give equal outputs -/
theorem gc_mapM_getElem? {α β : Type} (g : α → Except Err β) (l : List α) (out : List β)
    (h : l.mapM g = .ok out) (i j : Nat) (hij : l[i]? = l[j]?) : out[i]? = out[j]? := by
  have hlen := mapM_length g l out h
  rw [Dag.mapM_ok_iff] at h
  cases hi : l[i]? with
  | none =>
    rw [hi] at hij
    rw [List.getElem?_eq_none_iff] at hi
    have hj := List.getElem?_eq_none_iff.1 hij.symm
    rw [List.getElem?_eq_none (by omega), List.getElem?_eq_none (by omega)]
  | some a =>
    rw [hi] at hij
    obtain ⟨b, hb, hab⟩ := Dag.forall₂_getElem?_left h hi
    obtain ⟨b', hb', hab'⟩ := Dag.forall₂_getElem?_left h hij.symm
    rw [hab] at hab'
    cases hab'
    rw [hb, hb']

theorem gc_kerLe_mapM {α β : Type} {gid : List Int} (g : α → Except Err β) (l : List α)
    (out : List β) (h : l.mapM g = .ok out) (hk : KerLe gid l) : KerLe gid out :=
  fun i j hij hs => gc_mapM_getElem? g l out h i j (hk i j hij hs)

theorem gc_kerLe_zipWith {α β γ : Type} {gid : List Int} {l : List α} {l' : List β}
    (g : α → β → γ) (h : KerLe gid l) (h' : KerLe gid l') : KerLe gid (List.zipWith g l l') := by
  intro i j hij hs
  simp only [List.getElem?_zipWith, h i j hij hs, h' i j hij hs]

/-! ## `ConstOn` -/

theorem gc_constOn_of_scalar {gid : List Int} {c : Col} (h : c.scalar = true) : ConstOn gid c :=
  Or.inl h

theorem gc_constOn_arr {gid : List Int} {c : Col} (hl : c.vals.length = gid.length)
    (h : KerLe gid c.vals) : ConstOn gid c := Or.inr ⟨hl, h⟩

theorem gc_constOn_colOK {gid : List Int} {c : Col} (h : ConstOn gid c) : ColOK gid.length c := by
  intro hs
  rcases h with h | h
  · rw [hs] at h; cases h
  · exact h.1

theorem gc_constOn_colsOK {gid : List Int} {cols : List Col} (h : ∀ c ∈ cols, ConstOn gid c) :
    ColsOK gid.length cols := fun c hc => gc_constOn_colOK (h c hc)

/-- `ConstOn` is antitone in the grouping -/
theorem gc_constOn_antitone {fine coarse : List Int} {c : Col} (hr : Refines fine coarse)
    (hlen : fine.length = coarse.length) (h : ConstOn coarse c) : ConstOn fine c := by
  rcases h with h | ⟨hl, h⟩
  · exact Or.inl h
  · exact Or.inr ⟨by rw [hl, hlen], gc_kerLe_trans hr hlen h⟩

/-- the entry of row `i` only depends on the group of row `i` -/
theorem gc_constOn_at {gid : List Int} {c : Col} (h : ConstOn gid c) (i j : Nat)
    (hij : gid[i]? = gid[j]?) (hs : gid[i]?.isSome) : c.at i = c.at j := by
  rcases h with h | ⟨_, h⟩
  · have h' : c.scalar = true := h
    simp only [Col.at, h', if_true]
  · simp only [Col.at, List.getD_eq_getElem?_getD, h i j hij hs]

/-! ## grouped aggregations -/

/-- the result of the generic grouped reduction is a function of the group id -/
theorem gc_grouped_kerLe {α : Type} (f : α → α → α) (dflt : α) (col : List α) (gid : List Int)
    (res : List α) (h : Agg.grouped f dflt col gid = .ok res) :
    res.length = gid.length ∧ KerLe gid res := by
  rw [Agg.grouped_ok_eq f dflt col gid res h]
  exact ⟨by simp, gc_kerLe_self_map _ _⟩

theorem gc_groupedCount_kerLe (gid : List Int) (res : List Int)
    (h : Agg.groupedCount gid = .ok res) : res.length = gid.length ∧ KerLe gid res :=
  gc_grouped_kerLe _ _ _ _ _ h

theorem gc_groupedMean_kerLe (col : List Rat) (gid : List Int) (res : List Rat)
    (h : Agg.groupedMean col gid = .ok res) : res.length = gid.length ∧ KerLe gid res := by
  unfold Agg.groupedMean at h
  obtain ⟨s, hs, h⟩ := bind_ok h
  obtain ⟨c, hc, h⟩ := bind_ok h
  cases h
  obtain ⟨hs1, hs2⟩ := gc_grouped_kerLe _ _ _ _ _ hs
  obtain ⟨hc1, hc2⟩ := gc_groupedCount_kerLe _ _ hc
  exact ⟨by simp [hs1, hc1], gc_kerLe_zipWith _ hs2 hc2⟩

theorem gc_agg_finish {β : Type} (X : Except Err (List β)) (dt : DT) (g : β → R) {out : Col}
    {gid fine : List Int} (hX : ∀ r, X = .ok r → r.length = gid.length ∧ KerLe gid r)
    (hr : Refines fine gid) (hlen : fine.length = gid.length)
    (h : (X >>= fun r => pure ({ dt := dt, vals := r.map g } : Col)) = .ok out) :
    ConstOn fine out := by
  obtain ⟨r, hr', h⟩ := bind_ok h
  cases h
  obtain ⟨h1, h2⟩ := hX r hr'
  exact gc_constOn_arr (by simp [h1, hlen]) (gc_kerLe_trans hr hlen (gc_kerLe_map g h2))

theorem gc_aggBody_const (a : Aggr) {col gid out : Col} {fine : List Int}
    (hr : Refines fine gid.ints) (hlen : fine.length = gid.ints.length)
    (h : aggBody a col gid = .ok out) : ConstOn fine out := by
  cases a <;> simp only [aggBody] at h
  · exact gc_agg_finish _ _ _ (fun r hr => gc_grouped_kerLe _ _ _ _ r hr) hr hlen h
  · exact gc_agg_finish _ _ _ (fun r hr => gc_groupedMean_kerLe _ _ r hr) hr hlen h
  · exact gc_agg_finish _ _ _ (fun r hr => gc_grouped_kerLe _ _ _ _ r hr) hr hlen h
  · exact gc_agg_finish _ _ _ (fun r hr => gc_grouped_kerLe _ _ _ _ r hr) hr hlen h
  · exact gc_agg_finish _ _ _ (fun r hr => gc_grouped_kerLe _ _ _ _ r hr) hr hlen h
  · exact gc_agg_finish _ _ _ (fun r hr => gc_grouped_kerLe _ _ _ _ r hr) hr hlen h
  · cases h

theorem gc_groupAggOp_two {fine : List Int} (a : Aggr) {col gid out : Col}
    (hr : Refines fine gid.ints) (hlen : fine.length = gid.ints.length)
    (h : groupAggOp a [col, gid] = .ok out) : ConstOn fine out := by
  rw [groupAggOp_two] at h
  cases hg : aggGuard a col gid with
  | some e => rw [hg] at h; cases h
  | none =>
    rw [hg] at h
    exact gc_aggBody_const a hr hlen h

theorem gc_groupAggOp_one {fine : List Int} (a : Aggr) {gid out : Col}
    (hr : Refines fine gid.ints) (hlen : fine.length = gid.ints.length)
    (h : groupAggOp a [gid] = .ok out) : ConstOn fine out := by
  simp only [groupAggOp] at h
  split_ifs at h
  exact gc_agg_finish _ _ _ (fun r hr => gc_groupedCount_kerLe _ r hr) hr hlen h

theorem gc_refines_refl (gid : List Int) : Refines gid gid := fun _ _ h _ => h

/-- list form, for the lifting through the DAG: the group id is the LAST argument -/
theorem gc_groupAggOp_list {fine : List Int} (a : Aggr) {cols : List Col} {out : Col}
    (hr : ∀ g, cols.getLast? = some g → Refines fine g.ints ∧ fine.length = g.ints.length)
    (h : groupAggOp a cols = .ok out) : ConstOn fine out := by
  match cols, hr, h with
  | [], _, h => cases h
  | [gid], hr, h => exact gc_groupAggOp_one a (hr gid rfl).1 (hr gid rfl).2 h
  | [col, gid], hr, h => exact gc_groupAggOp_two a (hr gid rfl).1 (hr gid rfl).2 h
  | _ :: _ :: _ :: _, _, h => cases h

/-! ## time conversions -/

theorem gc_tcCol_const {gid : List Int} (u v : TUnit) {c : Col} (h : ConstOn gid c) :
    ConstOn gid (tcCol u v c) := by
  rcases h with h | ⟨hl, h⟩
  · exact Or.inl (by rw [tcCol_scalar]; exact h)
  · refine Or.inr ⟨by rw [tcCol_length, hl], ?_⟩
    rcases tcCol_eq u v c with ⟨he, _⟩ | he <;> rw [he] <;> exact gc_kerLe_map _ h

theorem gc_timeConvOp_const {gid : List Int} (u v : TUnit) {cols : List Col} {out : Col}
    (hc : ∀ c ∈ cols, ConstOn gid c) (h : timeConvOp u v cols = .ok out) : ConstOn gid out := by
  match cols, hc, h with
  | [], _, h => cases h
  | [c], hc, h =>
    rw [timeConvOp_single] at h
    cases h
    exact gc_tcCol_const u v (hc c (by simp))
  | _ :: _ :: _, _, h => cases h

/-! ## `ruleOp` for an arbitrary return annotation -/

/-- the dtype probe of `numpy.vectorize` without `otypes` (the first stage of `ruleOp`) -/
def gc_probe (params : List (String × Val)) (fn : FunDef) (ret : Option Ty) (free : List String)
    (cols : List Col) (n? : Option Nat) : Except Err (Option DT) :=
  if ret.isSome || fn.args.isEmpty then pure none
  else if (List.range (n?.getD 1)).isEmpty then throw Err.valueError
  else
    let args0 := (rowArgs params free 0 fn.args cols).zip (fn.args.map free.contains) |>.map
      fun (v, isCol) => ({ v, np := isCol } : PV)
    match probeDtype fn args0 with
    | .ok dt => pure (some dt)
    | .error (.err e) => throw e
    | .error .nan => pure none

/-- assembling the output array of `numpy.vectorize(f, otypes=decl)` -/
def gc_mkOut (fn : FunDef) (decl : Option DT) (n? : Option Nat) (rs : List R) : Except Err Col :=
  if fn.args.isEmpty then
    match rs with
    | r :: _ => pure { dt := VecDtype.dtypeOf r, vals := [r], shape := .pyScalar }
    | [] => throw Err.other
  else
    match VecDtype.vectorize decl rs with
    | some (dt, vals) => pure { dt, vals, shape := if n?.isNone then .arr0 else .arr }
    | none => throw Err.valueError


theorem gc_jp {β : Type} (c1 c2 : Prop) [Decidable c1] [Decidable c2] (pd : PM DT) (e0 : Err)
    (jp : Option DT → Except Err β) :
    (if c1 then (pure none >>= jp) else if c2 then (throw e0 >>= jp) else
      match pd with
      | .ok dt => pure (some dt) >>= jp
      | .error (.err e) => throw e >>= jp
      | .error .nan => pure none >>= jp) =
    ((if c1 then pure none else if c2 then throw e0 else
      match pd with
      | .ok dt => pure (some dt)
      | .error (.err e) => throw e
      | .error .nan => pure none) >>= jp) := by
  by_cases h1 : c1
  · rw [if_pos h1, if_pos h1]
  · rw [if_neg h1, if_neg h1]
    by_cases h2 : c2
    · rw [if_pos h2, if_pos h2]
    · rw [if_neg h2, if_neg h2]
      rcases pd with (e | _) | dt <;> rfl

theorem gc_ruleOp_eq (params : List (String × Val)) (fn : FunDef) (ret : Option Ty)
    (spec : Option RSpec) (free : List String) (cols : List Col) :
    ruleOp params fn ret spec free cols =
      (broadcastLen cols >>= fun n? =>
        gc_probe params fn ret free cols n? >>= fun probed =>
          (List.range (n?.getD 1)).mapM (rowFn params fn free cols) >>= fun raw =>
            raw.mapM resultToR >>= fun rs =>
              gc_mkOut fn ((ret.map Ty.toDT).orElse fun _ => probed) n? rs >>= fun out =>
                finish fn spec out) := by
  unfold ruleOp
  refine bind_congr (fun n? => ?_)
  unfold gc_probe
  refine Eq.trans (gc_jp _ _ _ _ _) ?_
  refine bind_congr (fun probed => ?_)
  refine bind_congr (fun raw => ?_)
  refine bind_congr (fun rs => ?_)
  unfold gc_mkOut finish finishBad
  generalize VecDtype.vectorize _ rs = vz
  cases fn.args.isEmpty <;> cases rs <;> cases spec <;> rcases vz with _ | ⟨dt, vals⟩ <;> rfl

theorem gc_rowArgs_congr (params : List (String × Val)) (free as : List String) (i j : Nat) :
    ∀ cols : List Col, (∀ c ∈ cols, c.at i = c.at j) →
      rowArgs params free i as cols = rowArgs params free j as cols := by
  induction as with
  | nil => intro cols _; rfl
  | cons a as ih =>
    intro cols h
    cases cols with
    | nil =>
      have := ih [] (by simp)
      simp only [rowArgs, this]
    | cons c cs =>
      simp only [rowArgs]
      split
      · rw [ih cs (fun c' hc' => h c' (List.mem_cons_of_mem _ hc')), h c List.mem_cons_self]
      · rw [ih (c :: cs) h]

theorem gc_rowFn_congr (params : List (String × Val)) (fn : FunDef) (free : List String)
    (cols : List Col) (i j : Nat) (h : ∀ c ∈ cols, c.at i = c.at j) :
    rowFn params fn free cols i = rowFn params fn free cols j := by
  simp only [rowFn, gc_rowArgs_congr params free fn.args i j cols h]

theorem gc_vectorize_eq {decl : Option DT} {rs : List R} {dt : DT} {vals : List R}
    (h : VecDtype.vectorize decl rs = some (dt, vals)) : vals = rs.map (VecDtype.cast dt) := by
  cases decl with
  | some t =>
    simp only [VecDtype.vectorize, VecDtype.vecDeclared, Option.some.injEq, Prod.mk.injEq] at h
    rw [← h.1, ← h.2]
  | none =>
    cases rs with
    | nil => simp [VecDtype.vectorize, VecDtype.vecInferred] at h
    | cons r rs =>
      simp only [VecDtype.vectorize, VecDtype.vecInferred, Option.some.injEq, Prod.mk.injEq] at h
      rw [← h.1, ← h.2]

theorem gc_mkOut_scalar {fn : FunDef} {decl : Option DT} {n? : Option Nat} {rs : List R} {o : Col}
    (h : gc_mkOut fn decl n? rs = .ok o) (hc : fn.args = [] ∨ n? = none) : o.scalar = true := by
  unfold gc_mkOut at h
  by_cases hE : fn.args = []
  · simp only [hE, List.isEmpty_nil, if_true] at h
    cases rs with
    | nil => cases h
    | cons r rs => cases h; rfl
  · have hE' : fn.args.isEmpty = false := by simpa using hE
    rcases hc with hc | hc
    · exact absurd hc hE
    · subst hc
      simp only [hE', Bool.false_eq_true, if_false] at h
      cases hv : VecDtype.vectorize decl rs with
      | none => rw [hv] at h; cases h
      | some p => rw [hv] at h; cases h; rfl

theorem gc_mkOut_arr {fn : FunDef} {decl : Option DT} {m : Nat} {rs : List R} {o : Col}
    (h : gc_mkOut fn decl (some m) rs = .ok o) (hE : fn.args ≠ []) :
    ∃ dt, o = { dt := dt, vals := rs.map (VecDtype.cast dt), shape := .arr } := by
  unfold gc_mkOut at h
  have hE' : fn.args.isEmpty = false := by simpa using hE
  simp only [hE', Bool.false_eq_true, if_false] at h
  cases hv : VecDtype.vectorize decl rs with
  | none => rw [hv] at h; cases h
  | some p =>
    obtain ⟨dt, vals⟩ := p
    rw [hv] at h
    cases h
    exact ⟨dt, by rw [gc_vectorize_eq hv]; rfl⟩

/-- the rounding wrapper is pointwise -/
theorem gc_finish_const {gid : List Int} {fn : FunDef} {spec : Option RSpec} {o out : Col}
    (h : finish fn spec o = .ok out) (ho : ConstOn gid o) : ConstOn gid out := by
  rcases ho with hs | ⟨hl, hk⟩
  · exact Or.inl (finish_scalar h hs)
  · unfold finish at h
    cases spec with
    | none => cases h; exact Or.inr ⟨hl, hk⟩
    | some s =>
      simp only at h
      by_cases hc : finishBad fn s = true
      · rw [if_pos hc] at h; cases h
      · rw [if_neg hc] at h
        obtain ⟨vals, hvals, h⟩ := bind_ok h
        cases h
        exact Or.inr ⟨by rw [← hl]; exact mapM_length _ _ _ hvals, gc_kerLe_mapM _ _ _ hvals hk⟩

theorem gc_ruleOp_const {gid : List Int} {params : List (String × Val)} {fn : FunDef}
    {ret : Option Ty} {spec : Option RSpec} {free : List String} {cols : List Col} {out : Col}
    (hc : ∀ c ∈ cols, ConstOn gid c) (h : ruleOp params fn ret spec free cols = .ok out) :
    ConstOn gid out := by
  rw [gc_ruleOp_eq] at h
  obtain ⟨n?, hb, h⟩ := bind_ok h
  obtain ⟨probed, _, h⟩ := bind_ok h
  obtain ⟨raw, hraw, h⟩ := bind_ok h
  obtain ⟨rs, hrs, h⟩ := bind_ok h
  obtain ⟨o, ho, hfin⟩ := bind_ok h
  refine gc_finish_const hfin ?_
  have hbo := broadcastLen_ok (gc_constOn_colsOK hc)
  rw [hb] at hbo
  by_cases hE : fn.args = []
  · exact Or.inl (gc_mkOut_scalar ho (Or.inl hE))
  cases n? with
  | none => exact Or.inl (gc_mkOut_scalar ho (Or.inr rfl))
  | some m =>
    have hm : m = gid.length := by
      split at hbo
      · cases hbo
      · cases hbo; rfl
    subst hm
    obtain ⟨dt, rfl⟩ := gc_mkOut_arr ho hE
    simp only [Option.getD_some] at hraw
    rw [Dag.range_mapM_ok_iff] at hraw
    have hrawK : KerLe gid raw := by
      rw [gc_kerLe_iff_bounded]
      intro i hi j hj hij
      have hrow := gc_rowFn_congr params fn free cols i j
        (fun c hc' => gc_constOn_at (hc c hc') i j hij (by simp [hi]))
      rw [hraw.2 i hi, hraw.2 j hj] at hrow
      injection hrow with hrow
      simp only [List.getD_eq_getElem?_getD, List.getElem?_eq_getElem (hraw.1 ▸ hi),
        List.getElem?_eq_getElem (hraw.1 ▸ hj), Option.getD_some] at hrow
      rw [List.getElem?_eq_getElem (hraw.1 ▸ hi), List.getElem?_eq_getElem (hraw.1 ▸ hj), hrow]
    refine gc_constOn_arr ?_ (gc_kerLe_map _ (gc_kerLe_mapM _ _ _ hrs hrawK))
    simp only [List.length_map]
    rw [mapM_length _ _ _ hrs, hraw.1]

/-! ## lifting through the DAG -/

theorem gc_sysOf_find? (params : List (String × Val)) (specs : List (String × RSpec))
    (fns : List Fn) (t : String) :
    Dag.find? (sysOf params specs fns) t = (findFn? fns t).map (nodeOf params specs) := by
  induction fns with
  | nil => rfl
  | cons f fns ih =>
    simp only [sysOf, List.map_cons, Dag.find?_cons, findFn?, List.find?_cons] at ih ⊢
    by_cases h : f.name = t
    · simp [h]
    · simp only [h, if_false, decide_false]
      exact ih

/-- the group-id argument (the last dependency) of an aggregation node is a DATA column that is
refined by `gid` -/
def gc_gidOK (D : Dag.Data Col) (gid : List Int) (deps : List String) : Bool :=
  match deps.getLast? with
  | some g' =>
    match Dag.find? D g' with
    | some gc => decide (gid.length = gc.ints.length ∧ Refines gid gc.ints)
    | none => false
  | none => false

/-- "node `t` is syntactically `gid`-constant": a data column that is `ConstOn gid`; a rule or a
time conversion all of whose free arguments are `gid`-constant nodes; a grouped aggregation whose
group-id argument is a data column refined by `gid`. (`sum_by_p_id` nodes and the id constructors
are never accepted.) -/
def constNode (params : List (String × Val)) (fns : List Fn) (D : Dag.Data Col) (gid : List Int) :
    Nat → String → Bool
  | 0, _ => false
  | k + 1, t =>
    match Dag.find? D t with
    | some c => decide (ConstOn gid c)
    | none =>
      match findFn? fns t with
      | none => false
      | some f =>
        match f.kind with
        | .rule _ _ _ => (freeArgs params f).all (constNode params fns D gid k)
        | .timeConv _ _ _ => (freeArgs params f).all (constNode params fns D gid k)
        | .groupAgg _ _ _ => gc_gidOK D gid (freeArgs params f)
        | .pidSum _ _ => false
        | .grouping _ => false

theorem gc_forall₂_getLast? {A B : Type} {Rel : A → B → Prop} {l : List A} {l' : List B}
    (h : List.Forall₂ Rel l l') {a : A} {b : B} (ha : l.getLast? = some a)
    (hb : l'.getLast? = some b) : Rel a b := by
  have hlen := h.length_eq
  rw [List.getLast?_eq_getElem?] at ha hb
  obtain ⟨b', hb', hab⟩ := Dag.forall₂_getElem?_left h ha
  rw [hlen, hb] at hb'
  cases hb'
  exact hab

theorem gc_evalAll_const {gid : List Int} {ev : String → Except Err Col} {P : String → Bool}
    {deps : List String} {args : List Col}
    (ih : ∀ d a, P d = true → ev d = .ok a → ConstOn gid a)
    (hP : deps.all P = true) (hargs : Dag.evalAll ev deps = .ok args) :
    ∀ a ∈ args, ConstOn gid a := by
  have hF := (Dag.evalAll_ok_iff _ _ _).1 hargs
  intro a ha
  obtain ⟨i, hi⟩ := List.getElem?_of_mem ha
  obtain ⟨d, hd, hda⟩ := forall₂_getElem?_right hF hi
  exact ih d a (List.all_eq_true.1 hP d (List.mem_of_getElem? hd)) hda

theorem gc_sys_eval_const (params : List (String × Val)) (specs : List (String × RSpec))
    (fns : List Fn) (D : Dag.Data Col) (gid : List Int) :
    ∀ (k : Nat) (t : String) (v : Col), constNode params fns D gid k t = true →
      Dag.eval (sysOf params specs fns) D k t = .ok v → ConstOn gid v := by
  intro k
  induction k with
  | zero => intro t v hc; simp [constNode] at hc
  | succ k ih =>
    intro t v hc h
    cases hDt : Dag.find? D t with
    | some c =>
      rw [Dag.eval_succ_of_data hDt] at h
      cases h
      simp only [constNode, hDt] at hc
      exact of_decide_eq_true hc
    | none =>
      cases hf : findFn? fns t with
      | none => simp [constNode, hDt, hf] at hc
      | some f =>
        have hSt : Dag.find? (sysOf params specs fns) t = some (nodeOf params specs f) := by
          rw [gc_sysOf_find?, hf]; rfl
        rw [Dag.eval_succ_of_node hDt hSt] at h
        obtain ⟨args, hargs, h⟩ := bind_ok h
        rw [nodeOf_deps] at hargs
        simp only [constNode, hDt, hf] at hc
        obtain ⟨name, fargs, ann, kind⟩ := f
        cases kind with
        | rule fn ret key =>
          simp only at hc
          exact gc_ruleOp_const (gc_evalAll_const (ih ·) hc hargs) h
        | timeConv src u1 u2 =>
          simp only at hc
          have h' : timeConvOp u1 u2 args = .ok v := h
          exact gc_timeConvOp_const u1 u2 (gc_evalAll_const (ih ·) hc hargs) h'
        | groupAgg a src g =>
          simp only at hc
          have h' : groupAggOp a args = .ok v := h
          refine gc_groupAggOp_list a (fun gcol hg => ?_) h'
          unfold gc_gidOK at hc
          cases hl : (freeArgs params ⟨name, fargs, ann, .groupAgg a src g⟩).getLast? with
          | none => rw [hl] at hc; cases hc
          | some g' =>
            rw [hl] at hc
            simp only at hc
            cases hD' : Dag.find? D g' with
            | none => rw [hD'] at hc; cases hc
            | some gc =>
              rw [hD'] at hc
              have hev := gc_forall₂_getLast? ((Dag.evalAll_ok_iff _ _ _).1 hargs) hl hg
              cases k with
              | zero => simp [Dag.eval] at hev
              | succ k =>
                rw [Dag.eval_succ_of_data hD'] at hev
                cases hev
                have := of_decide_eq_true hc
                exact ⟨this.2, this.1⟩
        | pidSum src ptr => simp at hc
        | grouping g => simp at hc

/-- the check of property C15 for a whole function set: every function whose name carries a group
suffix `_<g>`, in a table that contains the id column `<g>_id`, is syntactically constant on the
groups of that id column -/
def suffixCheck (params : List (String × Val)) (fns : List Fn) (D : Dag.Data Col) (fuel : Nat) : Bool :=
  fns.all fun f =>
    match groupIdOf f.name with
    | none => true
    | some g =>
      match Dag.find? D g with
      | none => true
      | some gc => constNode params fns D gc.ints fuel f.name

theorem gc_suffixCheck_sound (params : List (String × Val)) (specs : List (String × RSpec))
    (fns : List Fn) (D : Dag.Data Col) (fuel : Nat) (h : suffixCheck params fns D fuel = true)
    (f : Fn) (hf : f ∈ fns) (g : String) (gc v : Col) (hg : groupIdOf f.name = some g)
    (hD : Dag.find? D g = some gc)
    (hv : Dag.eval (sysOf params specs fns) D fuel f.name = .ok v) : ConstOn gc.ints v := by
  have := List.all_eq_true.1 h f hf
  simp only [hg, hD] at this
  exact gc_sys_eval_const params specs fns D gc.ints fuel f.name v this hv

end GV.Simulate
